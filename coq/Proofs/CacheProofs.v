(* Proofs/CacheProofs.v — invariants of the cache model (Model/Cache.v) and its refinement to the
   abstract TTL-LRU specification.  Everything is over arbitrary value types and arbitrary
   operation/clock histories. *)
From Coq Require Import List NArith ZArith Bool Lia Sorting.Sorted.
From Verif Require Import Model.Cache.
Import ListNotations.
Open Scope N_scope.

(* ================================================================ byte strings *)
Lemma path_eqb_spec a b : reflect (a = b) (path_eqb a b).
Proof.
  revert b; induction a as [|x a IH]; intros [|y b]; cbn; try (constructor; congruence).
  destruct (N.eqb_spec x y) as [->|Hn]; cbn.
  - destruct (IH b) as [->|Hn]; constructor; congruence.
  - constructor; congruence.
Qed.
Lemma path_eqb_refl a : path_eqb a a = true.
Proof. destruct (path_eqb_spec a a); congruence. Qed.
Lemma path_eqb_sym a b : path_eqb a b = path_eqb b a.
Proof. destruct (path_eqb_spec a b), (path_eqb_spec b a); congruence. Qed.
Lemma path_eqb_neq a b : a <> b -> path_eqb a b = false.
Proof. destruct (path_eqb_spec a b); congruence. Qed.
Lemma path_eqb_true a b : path_eqb a b = true -> a = b.
Proof. destruct (path_eqb_spec a b); congruence. Qed.

Ltac peq a b := let E := fresh "E" in destruct (path_eqb_spec a b) as [E|E]; [try subst|].

(* ================================================================ generic list facts *)
Lemma remove_key_in k x l : In x (remove_key k l) <-> In x l /\ x <> k.
Proof.
  unfold remove_key. rewrite filter_In. peq x k; cbn; intuition congruence.
Qed.
Lemma remove_key_notin k l : ~ In k l -> remove_key k l = l.
Proof.
  intros H. unfold remove_key. induction l as [|x l IH]; cbn; [reflexivity|].
  peq x k; cbn.
  - exfalso; apply H; left; reflexivity.
  - f_equal. apply IH. intros H1. apply H. right; exact H1.
Qed.
Lemma NoDup_filter {A} (f : A -> bool) l : NoDup l -> NoDup (filter f l).
Proof.
  induction 1 as [|x l Hn ND IH]; cbn; [constructor|].
  destruct (f x); [constructor|]; auto. rewrite filter_In. tauto.
Qed.
Lemma NoDup_remove_key k l : NoDup l -> NoDup (remove_key k l).
Proof. apply NoDup_filter. Qed.

Lemma removelast_remove_key l : NoDup l -> l <> [] -> removelast l = remove_key (last l []) l.
Proof.
  intros ND Hne. destruct (exists_last Hne) as [l' [x ->]].
  rewrite removelast_last, last_last.
  apply NoDup_remove in ND. destruct ND as [_ Hn]. rewrite app_nil_r in Hn.
  unfold remove_key. rewrite filter_app. cbn. rewrite path_eqb_refl. cbn. rewrite app_nil_r.
  symmetry. apply (remove_key_notin x l' Hn).
Qed.

Lemma last_in {A} (l : list A) d : l <> [] -> In (last l d) l.
Proof.
  intros Hne. destruct (exists_last Hne) as [l' [x ->]]. rewrite last_last. apply in_or_app. right; left; reflexivity.
Qed.

Lemma firstn_removelast {A} n (l : list A) : (n < length l)%nat -> firstn n (removelast l) = firstn n l.
Proof.
  revert n; induction l as [|x l IH]; intros n Hn; cbn in Hn; [lia|].
  destruct l as [|y l].
  - cbn in Hn. assert (n = 0)%nat by lia. subst. reflexivity.
  - destruct n as [|n]; [reflexivity|]. cbn [removelast firstn]. f_equal.
    apply IH. cbn. cbn in Hn. lia.
Qed.

Lemma length_removelast {A} (l : list A) : l <> [] -> S (length (removelast l)) = length l.
Proof.
  intros Hne. destruct (exists_last Hne) as [l' [x ->]]. rewrite removelast_last, app_length. cbn. lia.
Qed.

Lemma filter_idem {A} (f : A -> bool) l : filter f (filter f l) = filter f l.
Proof.
  induction l as [|x l IH]; cbn; [reflexivity|]. destruct (f x) eqn:E; cbn; [rewrite E, IH|]; auto.
Qed.

Lemma filter_length_le {A} (f : A -> bool) l : (length (filter f l) <= length l)%nat.
Proof. induction l as [|x l IH]; cbn; [lia|]. destruct (f x); cbn; lia. Qed.

Lemma filter_filter {A} (f g : A -> bool) l : filter f (filter g l) = filter (fun x => g x && f x) l.
Proof.
  induction l as [|x l IH]; cbn; [reflexivity|]. destruct (g x); cbn; [destruct (f x)|]; rewrite IH; reflexivity.
Qed.

Lemma firstn_In {A} n (l : list A) x : In x (firstn n l) -> In x l.
Proof.
  revert n; induction l as [|y l IH]; intros [|n]; cbn; try tauto. intros [H|H]; [auto | right; eapply IH; exact H].
Qed.

Lemma NoDup_same_length {A} (l1 l2 : list A) :
  NoDup l1 -> NoDup l2 -> (forall x, In x l1 <-> In x l2) -> length l1 = length l2.
Proof.
  intros N1 N2 H. apply Nat.le_antisymm; apply NoDup_incl_length; auto; intros x Hx; apply H; exact Hx.
Qed.

(* ================================================================ the concrete map *)
Section CoreProofs.
Context {V : Type}.
Implicit Types (m : list (path * centry V)) (c : lru V) (k : path).

Lemma lookup_delete k k' m : lookup k (delete k' m) = if path_eqb k k' then None else lookup k m.
Proof.
  unfold delete. induction m as [|[q e] m IH]; cbn; [destruct (path_eqb k k'); reflexivity|].
  peq q k'; cbn.
  - rewrite IH. destruct (path_eqb k k'); reflexivity.
  - rewrite IH. peq k q; [rewrite (path_eqb_neq q k') by assumption|]; reflexivity.
Qed.
Lemma lookup_set k k' e m : lookup k (set k' e m) = if path_eqb k k' then Some e else lookup k m.
Proof. unfold set. cbn. rewrite lookup_delete. destruct (path_eqb k k'); reflexivity. Qed.

Lemma lookup_in_keys k m : In k (map fst m) <-> lookup k m <> None.
Proof.
  induction m as [|[q e] m IH]; cbn; [tauto|].
  peq k q; [split; [discriminate|auto]|]. rewrite <- IH. intuition congruence.
Qed.
Lemma lookup_none_notin k m : lookup k m = None <-> ~ In k (map fst m).
Proof. rewrite lookup_in_keys. destruct (lookup k m); split; intros H; try congruence; try tauto. exfalso; apply H; discriminate. Qed.
Lemma lookup_some_in k m e : lookup k m = Some e -> In (k, e) m.
Proof.
  induction m as [|[q e'] m IH]; cbn; [discriminate|].
  peq k q; [intros [= ->]; left; reflexivity | intros H; right; auto].
Qed.
Lemma in_lookup_nodup k m e : NoDup (map fst m) -> In (k, e) m -> lookup k m = Some e.
Proof.
  induction m as [|[q e'] m IH]; cbn; [tauto|]. intros ND [H|H].
  - inversion H; subst. rewrite path_eqb_refl. reflexivity.
  - inversion ND as [|? ? Hn ND']; subst. peq k q.
    + exfalso. apply Hn. apply (in_map fst) in H. exact H.
    + auto.
Qed.

Lemma delete_keys k m : map fst (delete k m) = remove_key k (map fst m).
Proof.
  unfold delete, remove_key. induction m as [|[q e] m IH]; cbn; [reflexivity|].
  destruct (path_eqb q k); cbn; rewrite IH; reflexivity.
Qed.
Lemma NoDup_delete k m : NoDup (map fst m) -> NoDup (map fst (delete k m)).
Proof. rewrite delete_keys. apply NoDup_remove_key. Qed.
Lemma NoDup_set k e m : NoDup (map fst m) -> NoDup (map fst (set k e m)).
Proof.
  intros ND. unfold set. cbn. constructor; [|apply NoDup_delete; exact ND].
  rewrite delete_keys, remove_key_in. tauto.
Qed.
Lemma set_keys_in k e m x : In x (map fst (set k e m)) <-> x = k \/ In x (map fst m).
Proof.
  unfold set. cbn. rewrite delete_keys, remove_key_in. peq x k; intuition congruence.
Qed.

(* replacing the entry of a key that is present keeps the number of keys *)
Lemma length_set_present k e m : NoDup (map fst m) -> lookup k m <> None -> length (set k e m) = length m.
Proof.
  intros ND H. rewrite <- !(map_length fst).
  apply NoDup_same_length; [apply NoDup_set; exact ND | exact ND |].
  intros x. rewrite set_keys_in. apply lookup_in_keys in H. intuition congruence.
Qed.
Lemma length_set_absent k e m : lookup k m = None -> length (set k e m) = S (length m).
Proof.
  intros H. unfold set. cbn. f_equal. unfold delete.
  apply lookup_none_notin in H. induction m as [|[q e'] m IH]; cbn; [reflexivity|].
  cbn in H. peq q k; cbn; [tauto|]. f_equal. apply IH. tauto.
Qed.
Lemma delete_absent k m : lookup k m = None -> delete k m = m.
Proof.
  intros H. apply lookup_none_notin in H. unfold delete.
  induction m as [|[q e] m IH]; cbn in *; [reflexivity|].
  peq q k; cbn; [tauto|]. f_equal. apply IH. tauto.
Qed.

Lemma length_delete_present k m : NoDup (map fst m) -> lookup k m <> None -> S (length (delete k m)) = length m.
Proof.
  intros ND H. apply lookup_in_keys in H.
  induction m as [|[q e] m IH]; cbn in *; [tauto|]. fold (delete k m).
  inversion ND as [|? ? Hn ND']; subst. peq q k; cbn.
  - f_equal. rewrite delete_absent; [reflexivity|]. apply lookup_none_notin. exact Hn.
  - f_equal. apply IH; [assumption|]. destruct H; congruence.
Qed.
Arguments delete : simpl never.
Arguments set : simpl never.
Arguments remove_key : simpl never.

(* ---------------------------------------------------------------- representation invariant *)
Record LInv c : Prop := {
  li_ndm : NoDup (map fst (l_map c));
  li_ndl : NoDup (l_list c);
  li_dom : forall k, In k (l_list c) <-> In k (map fst (l_map c));
  li_el : forall k e, lookup k (l_map c) = Some e -> ce_el e = true }.
Definition Bounded c : Prop := msize c <= l_max c /\ 1 <= l_max c.

Lemma linv_length c : LInv c -> length (l_list c) = length (l_map c).
Proof.
  intros I. rewrite <- (map_length fst (l_map c)).
  apply NoDup_same_length; [apply (li_ndl _ I) | apply (li_ndm _ I) | apply (li_dom _ I)].
Qed.

Lemma linv_empty mx : LInv (empty_lru mx).
Proof. split; cbn; try constructor; try tauto; intros; discriminate. Qed.
Lemma linv_clear c : LInv (clear_core c).
Proof. split; cbn; try constructor; try tauto; intros; discriminate. Qed.

(* what the two access-list helpers and delete_entry do, in terms of lookups and the list *)
Lemma ual_list k c e : LInv c -> lookup k (l_map c) = Some e ->
  update_access_log k c = {| l_map := l_map c; l_list := k :: remove_key k (l_list c); l_max := l_max c |}.
Proof. intros I H. unfold update_access_log. rewrite H, (li_el _ I _ _ H). reflexivity. Qed.

Lemma linv_ual k c : LInv c -> LInv (update_access_log k c).
Proof.
  intros I. destruct (lookup k (l_map c)) as [e|] eqn:H.
  - rewrite (ual_list _ _ _ I H). split; cbn.
    + apply (li_ndm _ I).
    + constructor; [rewrite remove_key_in; tauto | apply NoDup_remove_key, (li_ndl _ I)].
    + intros x. rewrite remove_key_in, <- (li_dom _ I).
      assert (In k (l_list c)) by (apply (li_dom _ I), lookup_in_keys; congruence).
      peq x k; intuition congruence.
    + apply (li_el _ I).
  - unfold update_access_log. rewrite H. exact I.
Qed.

Lemma delete_entry_map k c x : lookup x (l_map (delete_entry k c)) = if path_eqb x k then None else lookup x (l_map c).
Proof.
  unfold delete_entry, remove_from_access_log.
  destruct (lookup k (l_map c)) as [e|] eqn:H; [destruct (ce_el e)|]; cbn; rewrite lookup_delete;
    try rewrite lookup_set; destruct (path_eqb x k); reflexivity.
Qed.
Lemma delete_entry_list k c : LInv c -> l_list (delete_entry k c) = remove_key k (l_list c).
Proof.
  intros I. unfold delete_entry, remove_from_access_log.
  destruct (lookup k (l_map c)) as [e|] eqn:H.
  - rewrite (li_el _ I _ _ H). reflexivity.
  - cbn. symmetry. apply remove_key_notin. rewrite (li_dom _ I). apply lookup_none_notin. exact H.
Qed.
Lemma delete_entry_max k c : l_max (delete_entry k c) = l_max c.
Proof.
  unfold delete_entry, remove_from_access_log.
  destruct (lookup k (l_map c)) as [e|]; [destruct (ce_el e)|]; reflexivity.
Qed.
Lemma delete_entry_keys k c : map fst (l_map (delete_entry k c)) = remove_key k (map fst (l_map c)).
Proof.
  unfold delete_entry, remove_from_access_log.
  destruct (lookup k (l_map c)) as [e|] eqn:H; [destruct (ce_el e)|]; cbn; rewrite delete_keys; try reflexivity.
  unfold set. cbn [map fst]. unfold remove_key at 1. cbn [filter]. rewrite path_eqb_refl. cbn [negb].
  rewrite delete_keys. unfold remove_key. rewrite filter_idem. reflexivity.
Qed.

Lemma delete_set k e m : delete k (set k e m) = delete k m.
Proof.
  unfold set, delete. cbn [filter fst]. rewrite path_eqb_refl. cbn [negb]. apply filter_idem.
Qed.

Lemma length_remove_key_in k l : NoDup l -> In k l -> S (length (remove_key k l)) = length l.
Proof.
  unfold remove_key. induction l as [|x l IH]; cbn; [tauto|]. intros ND H.
  inversion ND as [|? ? Hn ND']; subst. peq x k; cbn.
  - f_equal. fold (remove_key k l). rewrite remove_key_notin by assumption. reflexivity.
  - f_equal. apply IH; [assumption|]. destruct H; congruence.
Qed.

Lemma linv_delete_entry k c : LInv c -> LInv (delete_entry k c).
Proof.
  intros I. split.
  - rewrite delete_entry_keys. apply NoDup_remove_key, (li_ndm _ I).
  - rewrite (delete_entry_list _ _ I). apply NoDup_remove_key, (li_ndl _ I).
  - intros x. rewrite (delete_entry_list _ _ I), delete_entry_keys, !remove_key_in, (li_dom _ I). tauto.
  - intros x e. rewrite delete_entry_map. destruct (path_eqb x k); [discriminate|]. apply (li_el _ I).
Qed.

Lemma msize_delete_entry k c : LInv c -> lookup k (l_map c) <> None -> msize (delete_entry k c) + 1 = msize c.
Proof.
  intros I H. unfold msize. rewrite <- !(map_length fst), delete_entry_keys.
  assert (In k (map fst (l_map c))) as Hin by (apply lookup_in_keys; exact H).
  pose proof (length_remove_key_in k _ (li_ndm _ I) Hin). lia.
Qed.
Lemma msize_delete_entry_le k c : msize (delete_entry k c) <= msize c.
Proof.
  unfold msize. rewrite <- !(map_length fst), delete_entry_keys. unfold remove_key.
  pose proof (filter_length_le (fun x => negb (path_eqb x k)) (map fst (l_map c))). lia.
Qed.

(* under the invariant the eviction block is delete_entry of the last list element *)
Lemma evict_back_delete_entry c : LInv c -> l_list c <> [] -> evict_back c = delete_entry (last (l_list c) []) c.
Proof.
  intros I Hne. unfold evict_back. destruct (l_list c) as [|x l] eqn:El; [congruence|]. rewrite <- El in *.
  set (k := last (l_list c) []).
  assert (In k (l_list c)) as Hin by (apply last_in; exact Hne).
  destruct (lookup k (l_map c)) as [e|] eqn:Hk.
  2:{ exfalso. apply (li_dom _ I) in Hin. apply lookup_in_keys in Hin. congruence. }
  unfold delete_entry, remove_from_access_log. rewrite Hk, (li_el _ I _ _ Hk). cbn [l_map l_list l_max].
  rewrite delete_set. f_equal. apply removelast_remove_key; [apply (li_ndl _ I) | exact Hne].
Qed.

Lemma linv_evict_back c : LInv c -> LInv (evict_back c).
Proof.
  intros I. destruct (l_list c) as [|x l] eqn:El.
  - unfold evict_back. rewrite El. exact I.
  - rewrite evict_back_delete_entry by (auto; congruence). apply linv_delete_entry, I.
Qed.

Definition pre_store k c : lru V :=
  match lookup k (l_map c) with
  | None => if l_max c <=? msize c then evict_back c else c
  | Some _ => c
  end.
Lemma pre_store_max k c : l_max (pre_store k c) = l_max c.
Proof.
  unfold pre_store. destruct (lookup k (l_map c)); [reflexivity|]. destruct (l_max c <=? msize c); [|reflexivity].
  unfold evict_back. destruct (l_list c); reflexivity.
Qed.
Lemma linv_pre_store k c : LInv c -> LInv (pre_store k c).
Proof.
  intros I. unfold pre_store. destruct (lookup k (l_map c)); [exact I|].
  destruct (l_max c <=? msize c); [apply linv_evict_back|]; exact I.
Qed.
Lemma pre_store_lookup_k k c : LInv c -> lookup k (l_map (pre_store k c)) = lookup k (l_map c).
Proof.
  intros I. unfold pre_store. destruct (lookup k (l_map c)) eqn:Hk; [exact Hk|].
  destruct (l_max c <=? msize c); [|exact Hk].
  destruct (l_list c) as [|x l] eqn:El; [unfold evict_back; rewrite El; exact Hk|].
  rewrite evict_back_delete_entry by (auto; congruence). rewrite delete_entry_map, Hk.
  destruct (path_eqb k _); reflexivity.
Qed.

Lemma store_unfold k v exp c :
  store k v exp c =
  update_access_log k
    {| l_map := set k {| ce_val := v; ce_exp := exp;
                         ce_el := match lookup k (l_map c) with Some e => ce_el e | None => false end |}
                   (l_map (pre_store k c));
       l_list := l_list (pre_store k c); l_max := l_max (pre_store k c) |}.
Proof. reflexivity. Qed.

Lemma store_list k v exp c : LInv c -> l_list (store k v exp c) = k :: remove_key k (l_list (pre_store k c)).
Proof.
  intros I. rewrite store_unfold. unfold update_access_log. cbn [l_map l_list l_max].
  rewrite lookup_set, path_eqb_refl. cbn [ce_el].
  destruct (lookup k (l_map c)) as [e|] eqn:Hk.
  - rewrite (li_el _ I _ _ Hk). reflexivity.
  - cbn [l_list]. f_equal. symmetry. apply remove_key_notin.
    rewrite (li_dom _ (linv_pre_store k c I)). apply lookup_none_notin. rewrite pre_store_lookup_k; assumption.
Qed.
Lemma store_lookup k v exp c x : LInv c ->
  lookup x (l_map (store k v exp c)) =
  if path_eqb x k then Some {| ce_val := v; ce_exp := exp; ce_el := true |} else lookup x (l_map (pre_store k c)).
Proof.
  intros I. rewrite store_unfold. unfold update_access_log. cbn [l_map l_list l_max].
  rewrite lookup_set, path_eqb_refl. cbn [ce_el].
  destruct (lookup k (l_map c)) as [e|] eqn:Hk.
  - rewrite (li_el _ I _ _ Hk). cbn [l_map]. rewrite lookup_set. reflexivity.
  - cbn [l_map]. rewrite !lookup_set. destruct (path_eqb x k); reflexivity.
Qed.
Lemma store_max k v exp c : l_max (store k v exp c) = l_max c.
Proof.
  rewrite store_unfold. unfold update_access_log. cbn [l_map l_list l_max].
  rewrite lookup_set, path_eqb_refl. destruct (ce_el _); cbn [l_max]; apply pre_store_max.
Qed.
Lemma store_keys k v exp c x : LInv c ->
  In x (map fst (l_map (store k v exp c))) <-> x = k \/ In x (map fst (l_map (pre_store k c))).
Proof.
  intros I. rewrite !lookup_in_keys, store_lookup by assumption.
  peq x k; [split; [auto|discriminate]|]. intuition congruence.
Qed.

Lemma linv_store k v exp c : LInv c -> LInv (store k v exp c).
Proof.
  intros I. pose proof (linv_pre_store k c I) as I1. split.
  - rewrite store_unfold. unfold update_access_log. cbn [l_map l_list l_max].
    rewrite lookup_set, path_eqb_refl. destruct (ce_el _); cbn [l_map]; repeat apply NoDup_set; apply (li_ndm _ I1).
  - rewrite store_list by assumption. constructor; [rewrite remove_key_in; tauto|].
    apply NoDup_remove_key, (li_ndl _ I1).
  - intros x. rewrite store_list, store_keys by assumption. cbn [In]. rewrite remove_key_in, (li_dom _ I1).
    peq x k; intuition congruence.
  - intros x e. rewrite store_lookup by assumption. destruct (path_eqb x k); [intros [= <-]; reflexivity|].
    apply (li_el _ I1).
Qed.

Lemma msize_list c : LInv c -> msize c = N.of_nat (length (l_list c)).
Proof. intros I. unfold msize. rewrite (linv_length _ I). reflexivity. Qed.

Lemma bounded_store k v exp c : LInv c -> Bounded c -> Bounded (store k v exp c).
Proof.
  intros I [Hb Hp]. pose proof (linv_pre_store k c I) as I1. pose proof (linv_store k v exp c I) as I2.
  unfold Bounded. rewrite store_max. split; [|exact Hp].
  rewrite (msize_list _ I2), store_list by assumption. cbn [length].
  rewrite (msize_list _ I) in Hb.
  unfold pre_store in *. destruct (lookup k (l_map c)) as [e|] eqn:Hk.
  - assert (In k (l_list c)) as Hin by (apply (li_dom _ I), lookup_in_keys; congruence).
    pose proof (length_remove_key_in k _ (li_ndl _ I) Hin). lia.
  - assert (~ In k (l_list c)) as Hnin by (rewrite (li_dom _ I); apply lookup_none_notin; exact Hk).
    rewrite (msize_list _ I) in *.
    destruct (l_max c <=? N.of_nat (length (l_list c))) eqn:Hfull.
    + apply N.leb_le in Hfull.
      assert (l_list c <> []) as Hne by (intros E0; rewrite E0 in Hfull; cbn in Hfull; lia).
      rewrite remove_key_notin.
      * unfold evict_back. destruct (l_list c) as [|y l] eqn:El; [congruence|]. cbn [l_list]. rewrite <- El in *.
        pose proof (length_removelast (l_list c) Hne). lia.
      * intros Hin. apply Hnin. rewrite (li_dom _ I1) in Hin. apply (li_dom _ I).
        rewrite evict_back_delete_entry, delete_entry_keys, remove_key_in in Hin by assumption. tauto.
    + apply N.leb_gt in Hfull. rewrite remove_key_notin by assumption. lia.
Qed.

(* ---------------------------------------------------------------- bulk removal *)
Definition memb (k : path) (ks : list path) : bool := existsb (path_eqb k) ks.
Lemma memb_in k ks : memb k ks = true <-> In k ks.
Proof.
  unfold memb. rewrite existsb_exists. split.
  - intros [x [Hx E]]. apply path_eqb_true in E. subst; exact Hx.
  - intros H. exists k. split; [exact H | apply path_eqb_refl].
Qed.

Lemma delete_entries_char ks c : LInv c ->
  LInv (delete_entries ks c) /\
  l_list (delete_entries ks c) = filter (fun x => negb (memb x ks)) (l_list c) /\
  (forall x, lookup x (l_map (delete_entries ks c)) = if memb x ks then None else lookup x (l_map c)) /\
  l_max (delete_entries ks c) = l_max c /\ msize (delete_entries ks c) <= msize c.
Proof.
  revert c; induction ks as [|k ks IH]; intros c I.
  - cbn. repeat split; try apply I; try reflexivity; try lia.
    clear. induction (l_list c) as [|x l IHl]; cbn; [reflexivity|]. f_equal; exact IHl.
  - cbn [delete_entries fold_left]. fold (delete_entries ks (delete_entry k c)).
    destruct (IH _ (linv_delete_entry k c I)) as (I' & Hl & Hm & Hx & Hs).
    split; [exact I'|]. split; [|split; [|split]].
    + rewrite Hl, (delete_entry_list _ _ I). unfold remove_key. rewrite filter_filter.
      apply filter_ext. intros x. unfold memb. cbn [existsb].
      destruct (path_eqb x k), (existsb (path_eqb x) ks); reflexivity.
    + intros x. rewrite Hm, delete_entry_map. unfold memb. cbn [existsb].
      destruct (path_eqb x k), (existsb (path_eqb x) ks); reflexivity.
    + rewrite Hx. apply delete_entry_max.
    + pose proof (msize_delete_entry_le k c). lia.
Qed.

Lemma memb_filter_keys (pred : path -> centry V -> bool) m x : NoDup (map fst m) ->
  memb x (map fst (filter (fun e => pred (fst e) (snd e)) m)) =
  match lookup x m with Some e => pred x e | None => false end.
Proof.
  intros ND. destruct (memb x _) eqn:E.
  - apply memb_in, in_map_iff in E. destruct E as [[q e] [Eq Hin]]. cbn in Eq; subst.
    apply filter_In in Hin. destruct Hin as [Hin Hp]. rewrite (in_lookup_nodup _ _ _ ND Hin). symmetry; exact Hp.
  - destruct (lookup x m) as [e|] eqn:Hx; [|reflexivity].
    destruct (pred x e) eqn:Hp; [|reflexivity]. rewrite <- E. apply memb_in, in_map_iff.
    exists (x, e). split; [reflexivity|]. apply filter_In. split; [apply lookup_some_in; exact Hx | exact Hp].
Qed.

Lemma delete_where_char pred c : LInv c ->
  LInv (delete_where pred c) /\
  l_list (delete_where pred c) =
    filter (fun x => negb match lookup x (l_map c) with Some e => pred x e | None => false end) (l_list c) /\
  (forall x, lookup x (l_map (delete_where pred c)) =
             match lookup x (l_map c) with Some e => if pred x e then None else Some e | None => None end) /\
  l_max (delete_where pred c) = l_max c /\ msize (delete_where pred c) <= msize c.
Proof.
  intros I. unfold delete_where.
  destruct (delete_entries_char (map fst (filter (fun e => pred (fst e) (snd e)) (l_map c))) c I)
    as (I' & Hl & Hm & Hx & Hs).
  split; [exact I'|]. split; [|split; [|split]]; try assumption.
  - rewrite Hl. apply filter_ext. intros x. rewrite memb_filter_keys by apply (li_ndm _ I). reflexivity.
  - intros x. rewrite Hm, memb_filter_keys by apply (li_ndm _ I). destruct (lookup x (l_map c)); reflexivity.
Qed.

(* ---------------------------------------------------------------- Resize *)
Lemma evict_while_char fuel c : LInv c -> (length (l_list c) <= fuel)%nat ->
  LInv (evict_while fuel c) /\
  l_list (evict_while fuel c) = firstn (N.to_nat (l_max c)) (l_list c) /\
  (forall x, lookup x (l_map (evict_while fuel c)) =
             if memb x (firstn (N.to_nat (l_max c)) (l_list c)) then lookup x (l_map c) else None) /\
  l_max (evict_while fuel c) = l_max c.
Proof.
  revert c; induction fuel as [|f IH]; intros c I Hf.
  - assert (l_list c = []) as El by (destruct (l_list c); [reflexivity | cbn in Hf; lia]).
    cbn. rewrite El. rewrite firstn_nil. repeat split; try apply I; try reflexivity.
    intros x. cbn. destruct (lookup x (l_map c)) eqn:Hx; [|reflexivity].
    exfalso. assert (In x (l_list c)) by (apply (li_dom _ I), lookup_in_keys; congruence). rewrite El in *. contradiction.
  - cbn [evict_while]. rewrite (msize_list _ I).
    destruct (l_max c <? N.of_nat (length (l_list c))) eqn:Hlt; cbn [andb].
    + apply N.ltb_lt in Hlt.
      assert (l_list c <> []) as Hne by (intros E0; rewrite E0 in Hlt; cbn in Hlt; lia).
      destruct (Nat.eqb (length (l_list c)) 0) eqn:Hz;
        [apply Nat.eqb_eq in Hz; destruct (l_list c); [congruence | discriminate]|]. cbn [negb].
      pose proof (linv_evict_back c I) as I1.
      assert (l_list (evict_back c) = removelast (l_list c)) as Hl1
        by (unfold evict_back; destruct (l_list c); [congruence | reflexivity]).
      assert (l_max (evict_back c) = l_max c) as Hm1 by (unfold evict_back; destruct (l_list c); reflexivity).
      pose proof (length_removelast (l_list c) Hne) as Hlen.
      destruct (IH (evict_back c) I1) as (I' & Hl & Hm & Hx); [rewrite Hl1; lia|].
      rewrite Hl1, Hm1 in *.
      assert (firstn (N.to_nat (l_max c)) (removelast (l_list c)) = firstn (N.to_nat (l_max c)) (l_list c)) as Hfn
        by (apply firstn_removelast; lia).
      rewrite Hfn in *. split; [exact I'|]. split; [exact Hl|]. split; [|exact Hx].
      intros x. rewrite Hm. destruct (memb x _) eqn:Hmem; [|reflexivity].
      rewrite evict_back_delete_entry, delete_entry_map by assumption.
      peq x (last (l_list c) []); [|reflexivity]. exfalso.
      (* the last element is not among the first max < length elements of a duplicate-free list *)
      apply memb_in in Hmem.
      destruct (exists_last Hne) as [l' [y Ey]]. rewrite Ey in *. rewrite last_last in Hmem.
      rewrite app_length in Hlt. cbn in Hlt.
      rewrite firstn_app in Hmem. replace (N.to_nat (l_max c) - length l')%nat with 0%nat in Hmem by lia.
      cbn in Hmem. rewrite app_nil_r in Hmem. apply firstn_In in Hmem.
      pose proof (li_ndl _ I) as ND. rewrite Ey in ND. apply NoDup_remove_2 in ND. rewrite app_nil_r in ND. tauto.
    + apply N.ltb_ge in Hlt. rewrite firstn_all2 by lia. repeat split; try apply I; try reflexivity.
      intros x. destruct (memb x (l_list c)) eqn:Hmem; [reflexivity|].
      destruct (lookup x (l_map c)) eqn:Hx; [|reflexivity]. exfalso.
      assert (In x (l_list c)) as Hin by (apply (li_dom _ I), lookup_in_keys; congruence).
      apply memb_in in Hin. congruence.
Qed.

Lemma with_max_linv c n : LInv c -> LInv {| l_map := l_map c; l_list := l_list c; l_max := n |}.
Proof. intros I. split; cbn; apply I. Qed.

Lemma resize_char n c : LInv c -> Bounded c -> 1 <= n ->
  LInv (resize_core n c) /\ Bounded (resize_core n c) /\
  l_list (resize_core n c) = firstn (N.to_nat n) (l_list c) /\
  (forall x, lookup x (l_map (resize_core n c)) =
             if memb x (firstn (N.to_nat n) (l_list c)) then lookup x (l_map c) else None) /\
  l_max (resize_core n c) = n.
Proof.
  intros I [Hb Hp] Hn. unfold resize_core. destruct (l_max c =? n) eqn:E.
  - apply N.eqb_eq in E. subst n. rewrite (msize_list _ I) in Hb. rewrite firstn_all2 by lia.
    split; [exact I|]. split; [split; [rewrite (msize_list _ I)|]; assumption|]. split; [reflexivity|]. split; [|reflexivity].
    intros x. destruct (memb x (l_list c)) eqn:Hmem; [reflexivity|].
    destruct (lookup x (l_map c)) eqn:Hx; [|reflexivity]. exfalso.
    assert (In x (l_list c)) as Hin by (apply (li_dom _ I), lookup_in_keys; congruence).
    apply memb_in in Hin. congruence.
  - destruct (evict_while_char (length (l_list c)) _ (with_max_linv c n I)) as (I' & Hl & Hm & Hx); [cbn; lia|].
    cbn [l_max l_list l_map] in *. split; [exact I'|]. split; [|split; [exact Hl|split; [exact Hm|exact Hx]]].
    unfold Bounded. rewrite Hx, (msize_list _ I'), Hl. split; [|exact Hn].
    pose proof (firstn_le_length (N.to_nat n) (l_list c)). rewrite firstn_length. lia.
Qed.

End CoreProofs.

(* ================================================================ refinement: concrete lru vs abstract tlru *)
Section Sim.
Context {V : Type}.
Implicit Types (s : tlru V) (c : lru V) (k x : path).

Definition proj (e : centry V) : V * Z := (ce_val e, ce_exp e).
(* the abstract list is the access list decorated with the map's (value, expiry) *)
Definition R c s : Prop :=
  map fst s = l_list c /\ forall k, s_find k s = option_map proj (lookup k (l_map c)).

Lemma s_find_del x k s : s_find x (s_del k s) = if path_eqb x k then None else s_find x s.
Proof.
  unfold s_del. induction s as [|[q e] s IH]; cbn; [destruct (path_eqb x k); reflexivity|].
  peq q k; cbn.
  - rewrite IH. destruct (path_eqb x k); reflexivity.
  - rewrite IH. peq x q; [rewrite (path_eqb_neq q k) by assumption|]; reflexivity.
Qed.
Lemma s_del_keys k s : map fst (s_del k s) = remove_key k (map fst s).
Proof.
  unfold s_del, remove_key. induction s as [|[q e] s IH]; cbn; [reflexivity|].
  destruct (path_eqb q k); cbn; rewrite IH; reflexivity.
Qed.
Lemma s_find_notin x s : ~ In x (map fst s) -> s_find x s = None.
Proof.
  induction s as [|[q e] s IH]; cbn; [reflexivity|]. intros H. peq x q; [tauto|]. apply IH. tauto.
Qed.
Lemma s_find_some_in x s e : s_find x s = Some e -> In x (map fst s).
Proof.
  induction s as [|[q e'] s IH]; cbn; [discriminate|]. peq x q; [auto|]. intros H. right. apply IH; exact H.
Qed.

Lemma R_nodup c s : LInv c -> R c s -> NoDup (map fst s).
Proof. intros I [Hk _]. rewrite Hk. apply (li_ndl _ I). Qed.
Lemma R_length c s : LInv c -> R c s -> N.of_nat (length s) = msize c.
Proof. intros I [Hk _]. rewrite (msize_list _ I), <- Hk, map_length. reflexivity. Qed.

Lemma sim_empty mx : R (empty_lru mx) [].
Proof. split; reflexivity. Qed.
Lemma sim_clear c : R (clear_core c) [].
Proof. split; reflexivity. Qed.

Lemma sim_delete_entry k c s : LInv c -> R c s -> R (delete_entry k c) (s_del k s).
Proof.
  intros I [Hk Hf]. split.
  - rewrite s_del_keys, Hk, (delete_entry_list _ _ I). reflexivity.
  - intros x. rewrite s_find_del, delete_entry_map, Hf. destruct (path_eqb x k); reflexivity.
Qed.

Lemma sim_ual k c s : LInv c -> R c s -> R (update_access_log k c) (s_touch k s).
Proof.
  intros I [Hk Hf]. unfold s_touch. rewrite Hf.
  destruct (lookup k (l_map c)) as [e|] eqn:Hl; cbn [option_map].
  - rewrite (ual_list _ _ _ I Hl). split; cbn [l_map l_list map fst].
    + rewrite s_del_keys, Hk. reflexivity.
    + intros x. cbn [s_find]. rewrite s_find_del, Hf. peq x k; [rewrite Hl|]; reflexivity.
  - unfold update_access_log. rewrite Hl. split; assumption.
Qed.

Lemma removelast_s_del s : NoDup (map fst s) -> s <> [] -> removelast s = s_del (last (map fst s) []) s.
Proof.
  intros ND Hne. destruct (exists_last Hne) as [s' [[q e] ->]].
  rewrite removelast_last, map_app. cbn [map fst]. rewrite last_last.
  rewrite map_app in ND. cbn in ND. apply NoDup_remove_2 in ND. rewrite app_nil_r in ND.
  unfold s_del. rewrite filter_app. cbn. rewrite path_eqb_refl. cbn. rewrite app_nil_r.
  symmetry. clear Hne. induction s' as [|[q' e'] s' IH]; cbn in *; [reflexivity|].
  peq q' q; [tauto|]. cbn. f_equal. apply IH. tauto.
Qed.

Lemma sim_evict_back c s : LInv c -> R c s -> R (evict_back c) (removelast s).
Proof.
  intros I HR. destruct (l_list c) as [|y l] eqn:El.
  - unfold evict_back. rewrite El. destruct HR as [Hk Hf]. rewrite El in Hk.
    destruct s; [|discriminate]. cbn. split; [rewrite El; reflexivity | exact Hf].
  - assert (l_list c <> []) as Hne by congruence.
    rewrite evict_back_delete_entry by assumption.
    rewrite removelast_s_del; [| apply (R_nodup _ _ I HR) | destruct HR as [Hk _]; intros ->; cbn in Hk; congruence].
    destruct HR as [Hk Hf]. rewrite Hk. apply sim_delete_entry; [exact I | split; assumption].
Qed.

Lemma sim_store k v exp c s : LInv c -> R c s -> R (store k v exp c) (s_store (l_max c) k v exp s).
Proof.
  intros I HR. pose proof (R_length _ _ I HR) as Hlen. unfold s_store. rewrite Hlen.
  assert (R (pre_store k c)
            (match s_find k s with Some _ => s | None => if l_max c <=? msize c then removelast s else s end)) as HR1.
  { unfold pre_store. destruct HR as [Hk Hf]. rewrite Hf.
    destruct (lookup k (l_map c)); cbn [option_map]; [split; assumption|].
    destruct (l_max c <=? msize c); [apply sim_evict_back; [exact I|] |]; split; assumption. }
  destruct HR1 as [Hk1 Hf1]. split.
  - cbn [map fst]. rewrite store_list, s_del_keys, Hk1 by assumption. reflexivity.
  - intros x. cbn [s_find]. rewrite store_lookup, s_find_del, Hf1 by assumption.
    destruct (path_eqb x k); reflexivity.
Qed.

Lemma s_drop_keys (pv : path -> V -> bool) s : NoDup (map fst s) ->
  map fst (s_drop pv s) =
  filter (fun x => negb match s_find x s with Some ve => pv x (fst ve) | None => false end) (map fst s).
Proof.
  unfold s_drop. induction s as [|[q [v e]] s IH]; cbn; [reflexivity|]. intros ND.
  inversion ND as [|? ? Hn ND']; subst. rewrite path_eqb_refl. cbn [fst].
  assert (filter (fun x => negb match (if path_eqb x q then Some (v, e) else s_find x s) with
                               | Some ve => pv x (fst ve) | None => false end) (map fst s) =
          filter (fun x => negb match s_find x s with Some ve => pv x (fst ve) | None => false end) (map fst s)) as Hext.
  { apply filter_ext_in. intros x Hx. peq x q; [tauto | reflexivity]. }
  rewrite Hext. destruct (pv q v); cbn; rewrite IH by assumption; reflexivity.
Qed.
Lemma s_find_drop (pv : path -> V -> bool) s x : NoDup (map fst s) ->
  s_find x (s_drop pv s) = match s_find x s with Some ve => if pv x (fst ve) then None else Some ve | None => None end.
Proof.
  unfold s_drop. induction s as [|[q [v e]] s IH]; cbn; [reflexivity|]. intros ND.
  inversion ND as [|? ? Hn ND']; subst. specialize (IH ND').
  destruct (pv q v) eqn:Hp; cbn.
  - rewrite IH. peq x q; [|reflexivity]. cbn. rewrite Hp. rewrite (s_find_notin _ _ Hn). reflexivity.
  - peq x q; [cbn; rewrite Hp; reflexivity | exact IH].
Qed.

Lemma sim_delete_where (pred : path -> centry V -> bool) (pv : path -> V -> bool) c s :
  (forall k e, lookup k (l_map c) = Some e -> pred k e = pv k (ce_val e)) ->
  LInv c -> R c s -> R (delete_where pred c) (s_drop pv s).
Proof.
  intros Hp I HR. pose proof (R_nodup _ _ I HR) as ND. destruct HR as [Hk Hf].
  destruct (delete_where_char pred c I) as (_ & Hl & Hm & _). split.
  - rewrite s_drop_keys, Hl, Hk by assumption. apply filter_ext. intros x. rewrite Hf.
    destruct (lookup x (l_map c)) as [e|] eqn:Hx; cbn; [rewrite (Hp _ _ Hx)|]; reflexivity.
  - intros x. rewrite s_find_drop, Hm, Hf by assumption.
    destruct (lookup x (l_map c)) as [e|] eqn:Hx; cbn; [|reflexivity].
    rewrite (Hp _ _ Hx). destruct (pv x (ce_val e)); reflexivity.
Qed.

Lemma s_find_firstn n s x : NoDup (map fst s) ->
  s_find x (firstn n s) = if memb x (firstn n (map fst s)) then s_find x s else None.
Proof.
  revert n; induction s as [|[q e] s IH]; intros [|n] ND; cbn; try reflexivity.
  inversion ND as [|? ? Hn ND']; subst. unfold memb in *. cbn [existsb]. peq x q; cbn; [reflexivity|].
  apply IH; assumption.
Qed.

Lemma sim_resize n c s : LInv c -> Bounded c -> 1 <= n -> R c s -> R (resize_core n c) (s_trim n s).
Proof.
  intros I B Hn HR. pose proof (R_nodup _ _ I HR) as ND. destruct HR as [Hk Hf].
  destruct (resize_char n c I B Hn) as (_ & _ & Hl & Hm & _). unfold s_trim. split.
  - rewrite <- firstn_map, Hk, Hl. reflexivity.
  - intros x. rewrite s_find_firstn, Hm, Hk, Hf by assumption. destruct (memb x _); reflexivity.
Qed.

(* the abstraction function: every concrete state satisfying the invariant represents an abstract one *)
Definition abs_tlru c : tlru V :=
  flat_map (fun k => match lookup k (l_map c) with Some e => [(k, proj e)] | None => [] end) (l_list c).
Lemma sim_abs c : LInv c -> R c (abs_tlru c).
Proof.
  intros I. unfold abs_tlru.
  assert (forall L, (forall x, In x L -> lookup x (l_map c) <> None) ->
            map fst (flat_map (fun k => match lookup k (l_map c) with Some e => [(k, proj e)] | None => [] end) L) = L /\
            forall k, s_find k (flat_map (fun k => match lookup k (l_map c) with Some e => [(k, proj e)] | None => [] end) L) =
                      if memb k L then option_map proj (lookup k (l_map c)) else None) as H.
  { induction L as [|x L IH]; intros HL; [split; reflexivity|].
    destruct IH as [IH1 IH2]; [intros y Hy; apply HL; right; exact Hy|].
    destruct (lookup x (l_map c)) as [e|] eqn:Hx; [|exfalso; apply (HL x); [left; reflexivity | exact Hx]].
    cbn [flat_map]. rewrite Hx. cbn [app map fst s_find]. split; [f_equal; exact IH1|].
    intros k. unfold memb. cbn [existsb]. peq k x; [rewrite Hx; reflexivity|]. cbn [orb]. apply IH2. }
  destruct (H (l_list c)) as [H1 H2]; [intros x Hx; apply lookup_in_keys, (li_dom _ I); exact Hx|].
  split; [exact H1|]. intros k. rewrite H2. destruct (memb k (l_list c)) eqn:E; [reflexivity|].
  destruct (lookup k (l_map c)) eqn:Hk; [|reflexivity]. exfalso.
  assert (In k (l_list c)) as Hin by (apply (li_dom _ I), lookup_in_keys; congruence).
  apply memb_in in Hin. congruence.
Qed.

End Sim.

(* ---------------------------------------------------------------- entries only ever disappear *)
Section Sub.
Context {V : Type}.
Implicit Types (c : lru V).
Definition Sub c' c : Prop := forall x e, lookup x (l_map c') = Some e -> lookup x (l_map c) = Some e.
Lemma sub_refl c : Sub c c. Proof. intros x e H; exact H. Qed.
Lemma sub_trans c1 c2 c3 : Sub c1 c2 -> Sub c2 c3 -> Sub c1 c3.
Proof. intros H1 H2 x e H. apply H2, H1, H. Qed.
Lemma sub_delete_entry k c : Sub (delete_entry k c) c.
Proof. intros x e. rewrite delete_entry_map. destruct (path_eqb x k); [discriminate | auto]. Qed.
Lemma sub_ual k c : LInv c -> Sub (update_access_log k c) c.
Proof.
  intros I. destruct (lookup k (l_map c)) as [e|] eqn:H.
  - rewrite (ual_list _ _ _ I H). intros x e' Hx; exact Hx.
  - unfold update_access_log. rewrite H. apply sub_refl.
Qed.
Lemma sub_evict_back c : LInv c -> Sub (evict_back c) c.
Proof.
  intros I. destruct (l_list c) as [|y l] eqn:El.
  - unfold evict_back. rewrite El. apply sub_refl.
  - rewrite evict_back_delete_entry by (auto; congruence). apply sub_delete_entry.
Qed.
Lemma sub_pre_store k c : LInv c -> Sub (pre_store k c) c.
Proof.
  intros I. unfold pre_store. destruct (lookup k (l_map c)); [apply sub_refl|].
  destruct (l_max c <=? msize c); [apply sub_evict_back; exact I | apply sub_refl].
Qed.
Lemma sub_delete_where pred c : LInv c -> Sub (delete_where pred c) c.
Proof.
  intros I x e. destruct (delete_where_char pred c I) as (_ & _ & Hm & _). rewrite Hm.
  destruct (lookup x (l_map c)) as [e'|]; [|discriminate]. destruct (pred x e'); [discriminate | auto].
Qed.
Lemma sub_resize n c : LInv c -> Bounded c -> 1 <= n -> Sub (resize_core n c) c.
Proof.
  intros I B Hn x e. destruct (resize_char n c I B Hn) as (_ & _ & _ & Hm & _). rewrite Hm.
  destruct (memb x _); [auto | discriminate].
Qed.
Lemma sub_clear c : Sub (clear_core c) c.
Proof. intros x e; cbn; discriminate. Qed.

(* counting entries through the key list *)
Lemma m_filter_keys (f : path -> centry V -> bool) (m : list (path * centry V)) : NoDup (map fst m) ->
  map fst (filter (fun e => f (fst e) (snd e)) m) =
  filter (fun x => match lookup x m with Some e => f x e | None => false end) (map fst m).
Proof.
  induction m as [|[q e] m IH]; cbn; [reflexivity|]. intros ND.
  inversion ND as [|? ? Hn ND']; subst. rewrite path_eqb_refl.
  assert (filter (fun x => match (if path_eqb x q then Some e else lookup x m) with
                          | Some e0 => f x e0 | None => false end) (map fst m) =
          filter (fun x => match lookup x m with Some e0 => f x e0 | None => false end) (map fst m)) as Hext.
  { apply filter_ext_in. intros x Hx. peq x q; [tauto | reflexivity]. }
  rewrite Hext. destruct (f q e); cbn; rewrite IH by assumption; reflexivity.
Qed.
Lemma s_filter_keys (f : path -> V * Z -> bool) (s : tlru V) : NoDup (map fst s) ->
  map fst (filter (fun e => f (fst e) (snd e)) s) =
  filter (fun x => match s_find x s with Some ve => f x ve | None => false end) (map fst s).
Proof.
  induction s as [|[q e] s IH]; cbn; [reflexivity|]. intros ND.
  inversion ND as [|? ? Hn ND']; subst. rewrite path_eqb_refl.
  assert (filter (fun x => match (if path_eqb x q then Some e else s_find x s) with
                          | Some e0 => f x e0 | None => false end) (map fst s) =
          filter (fun x => match s_find x s with Some e0 => f x e0 | None => false end) (map fst s)) as Hext.
  { apply filter_ext_in. intros x Hx. peq x q; [tauto | reflexivity]. }
  rewrite Hext. destruct (f q e); cbn; rewrite IH by assumption; reflexivity.
Qed.
Lemma count_sim (fm : centry V -> bool) (fs : V -> bool) c s :
  (forall e, fm e = fs (ce_val e)) -> LInv c -> R c s ->
  length (filter (fun e => fm (snd e)) (l_map c)) = length (filter (fun e => fs (fst (snd e))) s).
Proof.
  intros Hf I HR. pose proof (R_nodup _ _ I HR) as ND. destruct HR as [Hk Hfd].
  rewrite <- (map_length fst (filter _ (l_map c))), <- (map_length fst (filter _ s)).
  rewrite (m_filter_keys (fun _ e => fm e)) by apply (li_ndm _ I).
  rewrite (s_filter_keys (fun _ ve => fs (fst ve))) by assumption. rewrite Hk.
  apply NoDup_same_length; try (apply NoDup_filter; apply I).
  intros x. rewrite !filter_In, (li_dom _ I), Hfd.
  destruct (lookup x (l_map c)) as [e|]; cbn; [rewrite Hf|]; tauto.
Qed.
End Sub.

(* ================================================================ AttrCache *)
Lemma default_size_pos n d : 1 <= d -> 1 <= default_size n d.
Proof. unfold default_size. intros H. destruct (n <=? 0)%Z eqn:E; [exact H|]. apply Z.leb_gt in E. lia. Qed.

Section AttrProofs.
Context {A : Type}.
Implicit Types (c : attr_cache A) (s : attr_spec A).

Definition NegOk c : Prop :=
  ac_negon c = false -> forall k e, lookup k (l_map (ac_lru c)) = Some e -> is_neg e = false.
Record AInv c : Prop := { ai_l : LInv (ac_lru c); ai_b : Bounded (ac_lru c); ai_neg : NegOk c }.
Definition AR c s : Prop :=
  R (ac_lru c) (as_entries s) /\ as_cap s = l_max (ac_lru c) /\ as_ttl s = ac_ttl c /\
  as_negttl s = ac_negttl c /\ as_negon s = ac_negon c.

Lemma ainv_new ttl mx : AInv (new_attr_cache ttl mx).
Proof.
  split; cbn.
  - apply linv_empty.
  - split; cbn; [lia | apply default_size_pos; lia].
  - intros _ k e; cbn; discriminate.
Qed.
Lemma ar_new ttl mx : AR (new_attr_cache ttl mx) (sa_new ttl mx).
Proof. repeat split. Qed.

Lemma negok_sub c l : NegOk c -> Sub l (ac_lru c) -> NegOk (with_lru c l).
Proof. intros H HS Hoff k e Hk. apply (H Hoff k e). apply HS. exact Hk. Qed.

Lemma bounded_sub_size (l l' : lru (option A)) : Bounded l -> msize l' <= msize l -> l_max l' = l_max l -> Bounded l'.
Proof. intros [Hb Hp] Hs Hm. unfold Bounded. rewrite Hm. split; [lia | exact Hp]. Qed.

Lemma msize_ual k (l : lru (option A)) : LInv l -> msize (update_access_log k l) = msize l /\ l_max (update_access_log k l) = l_max l.
Proof.
  intros I. destruct (lookup k (l_map l)) as [e|] eqn:H.
  - rewrite (ual_list _ _ _ I H). split; reflexivity.
  - unfold update_access_log. rewrite H. split; reflexivity.
Qed.

Lemma ainv_with_lru c l : LInv l -> Bounded l ->
  (ac_negon c = false -> forall k e, lookup k (l_map l) = Some e -> is_neg e = false) -> AInv (with_lru c l).
Proof. intros I B H. split; assumption. Qed.
Lemma ainv_with_sub c l : AInv c -> LInv l -> Sub l (ac_lru c) -> msize l <= msize (ac_lru c) ->
  l_max l = l_max (ac_lru c) -> AInv (with_lru c l).
Proof.
  intros [I B HN] Il HS Hs Hm. apply ainv_with_lru; [exact Il | apply (bounded_sub_size (ac_lru c)); assumption|].
  intros Hoff k e Hk. apply (HN Hoff k e), HS, Hk.
Qed.
Lemma ar_with_lru c s l ls : AR c s -> R l ls -> l_max l = l_max (ac_lru c) -> AR (with_lru c l) (as_with s ls).
Proof. intros (HR & Hcap & Httl & Hnt & Hon) Hl Hm. split; [exact Hl|]. cbn. repeat split; congruence. Qed.

(* one step preserves the invariant and the refinement relation, and returns the same result;
   [child] only has to agree with the code's isChildOf on the keys that are cached *)
Lemma attr_step_sim (child : path -> path -> bool) c s to :
  AInv c -> AR c s ->
  (forall k d, In k (l_list (ac_lru c)) -> is_child_of k d = child k d) ->
  AInv (fst (attr_step_res c to)) /\ AR (fst (attr_step_res c to)) (fst (sa_step_res child s to)) /\
  snd (attr_step_res c to) = snd (sa_step_res child s to).
Proof.
  intros Hi Hr Hch. pose proof Hi as [I B HN]. pose proof Hr as (HR & Hcap & Httl & Hnt & Hon).
  destruct to as [now op].
  unfold attr_step_res, sa_step_res. destruct op as [k a|k|k|k|d|d|n|t| |on t]; cbn [fst snd].
  - (* Put *)
    unfold attr_put. split; [|split; [|reflexivity]].
    + apply ainv_with_lru; [apply linv_store; exact I | apply bounded_store; assumption|].
      intros Hoff x e. rewrite store_lookup by assumption.
      destruct (path_eqb x k); [intros [= <-]; reflexivity|]. intros Hx. apply (HN Hoff x e).
      apply (sub_pre_store k _ I). exact Hx.
    + rewrite Hcap, Httl. apply ar_with_lru; [exact Hr | apply sim_store; assumption | apply store_max].
  - (* PutNegative *)
    unfold attr_put_negative. rewrite Hon.
    destruct (ac_negon c) eqn:Eon; cbn [fst snd].
    + split; [|split; [|reflexivity]].
      * apply ainv_with_lru; [apply linv_store; exact I | apply bounded_store; assumption|]. congruence.
      * rewrite Hcap, Hnt. apply ar_with_lru; [exact Hr | apply sim_store; assumption | apply store_max].
    + split; [exact Hi|]. split; [exact Hr | reflexivity].
  - (* Get *)
    unfold attr_get. destruct HR as [Hk Hf]. rewrite (Hf k).
    destruct (lookup k (l_map (ac_lru c))) as [e|] eqn:Hl; cbn [option_map proj].
    2:{ cbn [fst snd]. split; [exact Hi|]. split; [exact Hr | reflexivity]. }
    destruct (Z.of_N now <? ce_exp e)%Z; cbn [fst snd].
    + destruct (msize_ual k _ I) as [Hs Hm]. split; [|split; [|reflexivity]].
      * apply ainv_with_sub; [exact Hi | apply linv_ual; exact I | apply sub_ual; exact I | lia | exact Hm].
      * apply ar_with_lru; [exact Hr | apply sim_ual; [exact I | split; assumption] | exact Hm].
    + destruct (ce_exp e <? Z.of_N now)%Z; cbn [fst snd].
      * split; [|split; [|reflexivity]].
        -- apply ainv_with_sub; [exact Hi | apply linv_delete_entry; exact I | apply sub_delete_entry
                                 | apply msize_delete_entry_le | apply delete_entry_max].
        -- apply ar_with_lru; [exact Hr | apply sim_delete_entry; [exact I | split; assumption] | apply delete_entry_max].
      * split; [exact Hi|]. split; [exact Hr | reflexivity].
  - (* Invalidate *)
    unfold attr_invalidate. split; [|split; [|reflexivity]].
    + apply ainv_with_sub; [exact Hi | apply linv_delete_entry; exact I | apply sub_delete_entry
                            | apply msize_delete_entry_le | apply delete_entry_max].
    + apply ar_with_lru; [exact Hr | apply sim_delete_entry; assumption | apply delete_entry_max].
  - (* InvalidateNegativeInDir *)
    unfold attr_invalidate_negative_in_dir.
    destruct (delete_where_char (fun p e => is_neg e && is_child_of p d) _ I) as (I' & _ & _ & Hm & Hs).
    split; [|split; [|reflexivity]].
    + apply ainv_with_sub; [exact Hi | exact I' | apply sub_delete_where; exact I | exact Hs | exact Hm].
    + apply ar_with_lru; [exact Hr | | exact Hm].
      apply sim_delete_where; try assumption.
      intros x e Hx. unfold is_neg, is_none. rewrite Hch; [reflexivity|].
      apply (li_dom _ I), lookup_in_keys. congruence.
  - (* InvalidateTree *)
    unfold attr_invalidate_tree.
    destruct (delete_where_char (fun p (_ : centry (option A)) => in_tree p d) _ I) as (I' & _ & _ & Hm & Hs).
    split; [|split; [|reflexivity]].
    + apply ainv_with_sub; [exact Hi | exact I' | apply sub_delete_where; exact I | exact Hs | exact Hm].
    + apply ar_with_lru; [exact Hr | | exact Hm]. apply sim_delete_where; try assumption. reflexivity.
  - (* Resize *)
    unfold attr_resize. assert (1 <= default_size n 10000) as Hn by (apply default_size_pos; lia).
    destruct (resize_char _ _ I B Hn) as (I' & B' & _ & _ & Hm).
    split; [|split; [|reflexivity]].
    + apply ainv_with_lru; [exact I' | exact B'|]. intros Hoff x e Hx. apply (HN Hoff x e).
      apply (sub_resize _ _ I B Hn). exact Hx.
    + split; [apply sim_resize; assumption|].
      cbn [as_entries as_cap as_ttl as_negttl as_negon ac_lru with_lru ac_ttl ac_negttl ac_negon].
      repeat split; congruence.
  - (* UpdateTTL *)
    unfold attr_update_ttl. split; [split; assumption|]. split; [|reflexivity].
    split; [exact HR|]. cbn. repeat split; congruence.
  - (* Clear *)
    unfold attr_clear. split; [|split; [|reflexivity]].
    + apply ainv_with_lru; [apply linv_clear | destruct B as [_ Hp]; split; cbn; [lia | exact Hp]|].
      intros _ x e; cbn; discriminate.
    + apply ar_with_lru; [exact Hr | apply sim_clear | reflexivity].
  - (* ConfigureNegativeCaching *)
    unfold attr_configure_negative. destruct on.
    + split; [split; cbn [ac_lru ac_negon]; try assumption; intros Hoff; discriminate|].
      split; [|reflexivity]. split; [exact HR|]. cbn. rewrite Hnt. repeat split; congruence.
    + destruct (delete_where_char (fun (_ : path) (e : centry (option A)) => is_neg e) _ I) as (I' & _ & Hlk & Hm & Hs).
      split; [split; cbn [ac_lru ac_negon]|split; [|reflexivity]].
      * exact I'.
      * apply (bounded_sub_size (ac_lru c)); assumption.
      * intros _ x e. cbn [ac_lru]. rewrite Hlk. destruct (lookup x (l_map (ac_lru c))) as [e'|]; [|discriminate].
        destruct (is_neg e') eqn:En; [discriminate|]. intros [= <-]. exact En.
      * split; [apply sim_delete_where; try assumption; reflexivity|].
        cbn [as_entries as_cap as_ttl as_negttl as_negon ac_lru ac_ttl ac_negttl ac_negon].
        rewrite Hnt. repeat split; congruence.
Qed.

Lemma attr_observe_sim c s r : AInv c -> AR c s -> attr_observe c r = sa_observe s r.
Proof.
  intros [I B HN] (HR & Hcap & _). unfold attr_observe, sa_observe, attr_size, attr_max_size, attr_negative_stats.
  rewrite (R_length _ _ I HR), Hcap.
  rewrite (count_sim is_neg is_none (ac_lru c) (as_entries s)); [reflexivity | reflexivity | exact I | exact HR].
Qed.

(* keys enter the cache only through Put / PutNegative *)
Definition op_key (o : attr_op A) : option path :=
  match o with APut k _ => Some k | APutNegative k => Some k | _ => None end.

Lemma attr_step_keys c to x : AInv c ->
  In x (l_list (ac_lru (fst (attr_step_res c to)))) -> In x (l_list (ac_lru c)) \/ op_key (snd to) = Some x.
Proof.
  intros [I B HN]. destruct to as [now op]. unfold attr_step_res. cbn [fst snd].
  assert (forall l : lru (option A), LInv l -> Sub l (ac_lru c) -> In x (l_list l) -> In x (l_list (ac_lru c))) as Hsub.
  { intros l Il HS Hx. apply (li_dom _ Il), lookup_in_keys in Hx.
    destruct (lookup x (l_map l)) as [e|] eqn:E; [|congruence].
    apply (li_dom _ I), lookup_in_keys. rewrite (HS _ _ E). discriminate. }
  destruct op as [k a|k|k|k|d|d|n|t| |on t]; cbn [fst snd op_key].
  - unfold attr_put. cbn [ac_lru with_lru]. rewrite store_list by assumption. cbn [In]. rewrite remove_key_in.
    intros [->|[Hx _]]; [right; reflexivity|]. left.
    apply (Hsub _ (linv_pre_store k _ I) (sub_pre_store k _ I) Hx).
  - unfold attr_put_negative.
    destruct (ac_negon c); [|auto]. cbn [ac_lru with_lru]. rewrite store_list by assumption. cbn [In]. rewrite remove_key_in.
    intros [->|[Hx _]]; [right; reflexivity|]. left.
    apply (Hsub _ (linv_pre_store k _ I) (sub_pre_store k _ I) Hx).
  - unfold attr_get. destruct (lookup k (l_map (ac_lru c))) as [e|] eqn:Hl; [|auto].
    destruct (Z.of_N now <? ce_exp e)%Z; cbn [fst ac_lru with_lru].
    + intros Hx. left. apply (Hsub _ (linv_ual k _ I) (sub_ual k _ I) Hx).
    + destruct (ce_exp e <? Z.of_N now)%Z; cbn [fst ac_lru with_lru]; [|auto].
      intros Hx. left. apply (Hsub _ (linv_delete_entry k _ I) (sub_delete_entry k _) Hx).
  - unfold attr_invalidate. cbn [ac_lru with_lru]. intros Hx. left.
    apply (Hsub _ (linv_delete_entry k _ I) (sub_delete_entry k _) Hx).
  - unfold attr_invalidate_negative_in_dir. cbn [ac_lru with_lru]. intros Hx. left.
    destruct (delete_where_char (fun p e => is_neg e && is_child_of p d) _ I) as (I' & _).
    apply (Hsub _ I' (sub_delete_where _ _ I) Hx).
  - unfold attr_invalidate_tree. cbn [ac_lru with_lru]. intros Hx. left.
    destruct (delete_where_char (fun p (_ : centry (option A)) => in_tree p d) _ I) as (I' & _).
    apply (Hsub _ I' (sub_delete_where _ _ I) Hx).
  - unfold attr_resize. cbn [ac_lru with_lru]. intros Hx. left.
    assert (1 <= default_size n 10000) as Hn by (apply default_size_pos; lia).
    destruct (resize_char _ _ I B Hn) as (I' & _).
    apply (Hsub _ I' (sub_resize _ _ I B Hn) Hx).
  - cbn. auto.
  - cbn. tauto.
  - unfold attr_configure_negative. destruct on; cbn [ac_lru]; [auto|]. intros Hx. left.
    destruct (delete_where_char (fun (_ : path) (e : centry (option A)) => is_neg e) _ I) as (I' & _).
    apply (Hsub _ I' (sub_delete_where _ _ I) Hx).
Qed.

(* the refinement, for any direct-child rule that agrees with the code's on a class P of keys
   to which every key ever stored belongs *)
Theorem attr_refines_gen (child : path -> path -> bool) (P : path -> Prop) :
  (forall k d, P k -> is_child_of k d = child k d) ->
  forall h c s, AInv c -> AR c s -> (forall k, In k (l_list (ac_lru c)) -> P k) ->
  Forall (fun to => forall k, op_key (snd to) = Some k -> P k) h ->
  attr_run_obs c h = sa_run_obs child s h.
Proof.
  intros HP. induction h as [|to h IH]; intros c s Hi Hr Hk Hh; [reflexivity|].
  inversion Hh as [|? ? Hto Hh']; subst.
  destruct (attr_step_sim child c s to Hi Hr) as (Hi' & Hr' & Hres); [intros k d Hin; apply HP, Hk, Hin|].
  cbn [attr_run_obs sa_run_obs].
  destruct (attr_step_res c to) as [c' r] eqn:Ec. destruct (sa_step_res child s to) as [s' r'] eqn:Es.
  cbn [fst snd] in *. subst r'. f_equal.
  - apply attr_observe_sim; assumption.
  - apply IH; try assumption. intros k Hin.
    pose proof (attr_step_keys c to k Hi) as Hkeys. rewrite Ec in Hkeys. cbn [fst] in Hkeys.
    destruct (Hkeys Hin) as [H|H]; [apply Hk, H | apply Hto, H].
Qed.

(* reachable states *)
Definition attr_reachable (ttl mx : Z) c : Prop := exists h, c = fold_left attr_step h (new_attr_cache ttl mx).
Definition sa_step s (to : N * attr_op A) : attr_spec A := fst (sa_step_res is_child_of s to).

Lemma attr_run_inv h : forall c s, AInv c -> AR c s ->
  AInv (fold_left attr_step h c) /\ AR (fold_left attr_step h c) (fold_left sa_step h s).
Proof.
  induction h as [|to h IH]; intros c s Hi Hr; [split; assumption|]. cbn [fold_left].
  destruct (attr_step_sim is_child_of c s to Hi Hr) as (Hi' & Hr' & _); [reflexivity|].
  apply IH; assumption.
Qed.
Lemma attr_step_inv c to : AInv c -> AInv (attr_step c to).
Proof.
  intros Hi.
  assert (AR c {| as_entries := abs_tlru (ac_lru c); as_cap := l_max (ac_lru c); as_ttl := ac_ttl c;
                  as_negttl := ac_negttl c; as_negon := ac_negon c |}) as Hr
    by (split; [apply sim_abs, Hi | repeat split]).
  destruct (attr_step_sim is_child_of c _ to Hi Hr) as (Hi' & _); [reflexivity | exact Hi'].
Qed.
Lemma attr_reachable_inv ttl mx c : attr_reachable ttl mx c -> AInv c.
Proof. intros [h ->]. apply (attr_run_inv h _ _ (ainv_new ttl mx) (ar_new ttl mx)). Qed.

End AttrProofs.

(* ================================================================ isChildOf, exactly *)
Definition dir_prefix (d : path) : path := if path_eqb d [slash] then [slash] else d ++ [slash].
(* p is a direct child of directory d: d's prefix followed by one non-empty slash-free name *)
Definition direct_child (p d : path) : Prop :=
  exists name, name <> [] /\ ~ In slash name /\ p = dir_prefix d ++ name.

Lemma no_slash_nonempty_spec r : no_slash_nonempty r = true <-> r <> [] /\ ~ In slash r.
Proof.
  unfold no_slash_nonempty. rewrite andb_true_iff, !negb_true_iff. split.
  - intros [H1 H2]. split.
    + intros ->. discriminate.
    + intros Hin. assert (existsb (N.eqb slash) r = true) as E; [|congruence].
      apply existsb_exists. exists slash. split; [exact Hin | apply N.eqb_refl].
  - intros [H1 H2]. split.
    + destruct (existsb (N.eqb slash) r) eqn:E; [|reflexivity]. exfalso. apply H2.
      apply existsb_exists in E. destruct E as [x [Hx E]]. apply N.eqb_eq in E. subst. exact Hx.
    + destruct r; [congruence | reflexivity].
Qed.

Lemma split_last_slash_none p : split_last_slash p = None <-> ~ In slash p.
Proof.
  induction p as [|c r IH]; cbn; [tauto|].
  destruct (split_last_slash r) as [[b n]|] eqn:E.
  - split; [discriminate|]. intros H. exfalso. destruct IH as [_ IH]. 
    assert (~ In slash r) as Hr by tauto. specialize (IH Hr). discriminate.
  - destruct (N.eqb_spec c slash) as [->|Hc].
    + split; [discriminate | intros H; exfalso; apply H; left; reflexivity].
    + split; [|reflexivity]. intros _ [H|H]; [congruence|]. apply IH in H; [exact H | reflexivity].
Qed.
Lemma split_last_slash_some p b n : split_last_slash p = Some (b, n) <-> p = b ++ slash :: n /\ ~ In slash n.
Proof.
  revert b n; induction p as [|c r IH]; intros b n; cbn.
  - split; [discriminate|]. intros [H _]. destruct b; discriminate.
  - destruct (split_last_slash r) as [[b' n']|] eqn:E.
    + destruct (IH b' n') as [IH1 _]. destruct (IH1 eq_refl) as [Hr Hn']. split.
      * intros [= <- <-]. split; [cbn; f_equal; exact Hr | exact Hn'].
      * intros [Hp Hn]. destruct b as [|c0 b0]; cbn in Hp.
        -- injection Hp as Hc Hrn. exfalso. apply Hn. rewrite <- Hrn, Hr. apply in_or_app. right; left; reflexivity.
        -- injection Hp as Hc Hrn. destruct (IH b0 n) as [_ IH2].
           assert (Some (b', n') = Some (b0, n)) as Heq by (apply IH2; split; assumption).
           injection Heq as -> ->. rewrite Hc. reflexivity.
    + apply split_last_slash_none in E. destruct (N.eqb_spec c slash) as [->|Hc].
      * split.
        -- intros [= <- <-]. split; [reflexivity | exact E].
        -- intros [Hp Hn]. destruct b as [|c0 b0]; cbn in Hp.
           ++ injection Hp as Hrn. rewrite Hrn. reflexivity.
           ++ injection Hp as Hc Hrn. exfalso. apply E. rewrite Hrn. apply in_or_app. right; left; reflexivity.
      * split; [discriminate|]. intros [Hp Hn]. exfalso. destruct b as [|c0 b0]; cbn in Hp.
        -- injection Hp as Hc' Hrn. congruence.
        -- injection Hp as Hc' Hrn. apply E. rewrite Hrn. apply in_or_app. right; left; reflexivity.
Qed.

Lemma direct_child_b_spec p d : direct_child_b p d = true <-> direct_child p d.
Proof.
  unfold direct_child_b, direct_child, dir_prefix. split.
  - destruct (split_last_slash p) as [[b name]|] eqn:E; [|discriminate].
    apply split_last_slash_some in E. destruct E as [Hp Hn].
    rewrite andb_true_iff, negb_true_iff. intros [Hne Hb]. exists name.
    split; [intros ->; discriminate|]. split; [exact Hn|].
    destruct (path_eqb d [slash]).
    + destruct b; [exact Hp | discriminate].
    + apply path_eqb_true in Hb. subst b. rewrite <- app_assoc. exact Hp.
  - intros [name (Hne & Hn & Hp)]. destruct (path_eqb d [slash]) eqn:Ed.
    + assert (split_last_slash p = Some ([], name)) as E by (apply split_last_slash_some; split; assumption).
      rewrite E. destruct name; [congruence | reflexivity].
    + assert (split_last_slash p = Some (d, name)) as E
        by (apply split_last_slash_some; split; [rewrite Hp, <- app_assoc; reflexivity | exact Hn]).
      rewrite E, path_eqb_refl. destruct name; [congruence | reflexivity].
Qed.

Lemma firstn_split_at (d p : path) : (length d < length p)%nat -> firstn (length d) p = d ->
  exists x rest, p = d ++ x :: rest /\ nth (length d) p 0 = x /\ skipn (length d + 1) p = rest.
Proof.
  revert p; induction d as [|c d IH]; intros p Hl Hf.
  - destruct p as [|x rest]; [cbn in Hl; lia|]. exists x, rest. repeat split.
  - destruct p as [|y p]; [cbn in Hl; lia|]. cbn in Hf. injection Hf as Hy Hf'.
    destruct (IH p) as (x & rest & Hp & Hn & Hs); [cbn in Hl; lia | exact Hf'|].
    exists x, rest. subst y. split; [cbn; f_equal; exact Hp|]. split; cbn; assumption.
Qed.

(* the code's rule, for every pair of byte strings *)
Lemma is_child_of_spec p d : is_child_of p d = true <->
  (d = [slash] /\ exists c name, p = c :: name /\ name <> [] /\ ~ In slash name) \/
  (d <> [slash] /\ exists name, p = d ++ slash :: name /\ name <> [] /\ ~ In slash name).
Proof.
  unfold is_child_of. destruct (path_eqb_spec d [slash]) as [->|Hd].
  - split.
    + intros H. left. split; [reflexivity|].
      destruct (path_eqb p [slash] || Nat.ltb (length p) 2) eqn:E; [discriminate|].
      destruct p as [|c name]; [discriminate|]. cbn in H. apply no_slash_nonempty_spec in H.
      exists c, name. tauto.
    + intros [[_ (c & name & -> & Hne & Hn)]|[Hd _]]; [|congruence].
      destruct name as [|y name]; [congruence|].
      assert (path_eqb (c :: y :: name) [slash] = false) as E1.
      { apply path_eqb_neq. intros [=]. }
      rewrite E1. cbn [orb length Nat.ltb Nat.leb skipn]. apply no_slash_nonempty_spec. split; [discriminate | exact Hn].
  - split.
    + intros H. right. split; [exact Hd|].
      destruct (Nat.leb (length p) (length d + 1)) eqn:E1; [discriminate|]. apply Nat.leb_gt in E1.
      destruct (path_eqb (firstn (length d) p) d) eqn:E2; [|discriminate]. apply path_eqb_true in E2.
      cbn [negb] in H.
      destruct (firstn_split_at d p) as (x & rest & Hp & Hn & Hs); [lia | exact E2|].
      rewrite Hn, Hs in H. destruct (N.eqb_spec x slash) as [->|Hx]; [|discriminate]. cbn [negb] in H.
      apply no_slash_nonempty_spec in H. exists rest. tauto.
    + intros [[Hd' _]|[_ (name & -> & Hne & Hn)]]; [congruence|].
      assert (Nat.leb (length (d ++ slash :: name)) (length d + 1) = false) as E1.
      { apply Nat.leb_gt. rewrite app_length. cbn. destruct name; [congruence | cbn; lia]. }
      rewrite E1. rewrite firstn_app, Nat.sub_diag, firstn_all. cbn [firstn]. rewrite app_nil_r, path_eqb_refl.
      cbn [negb]. rewrite nth_middle, N.eqb_refl. cbn [negb].
      replace (d ++ slash :: name) with ((d ++ [slash]) ++ name) by (rewrite <- app_assoc; reflexivity).
      rewrite skipn_app. replace (length d + 1)%nat with (length (d ++ [slash])) by (rewrite app_length; reflexivity).
      rewrite skipn_all, Nat.sub_diag. cbn [skipn app]. apply no_slash_nonempty_spec. tauto.
Qed.

Lemma root_quirk_spec p d : root_quirk p d = true <->
  d = [slash] /\ exists c name, c <> slash /\ p = c :: name /\ name <> [] /\ ~ In slash name.
Proof.
  unfold root_quirk. rewrite andb_true_iff. split.
  - intros [Hd H]. apply path_eqb_true in Hd. split; [exact Hd|]. destruct p as [|c name]; [discriminate|].
    apply andb_true_iff in H. destruct H as [Hc Hn]. apply no_slash_nonempty_spec in Hn.
    exists c, name. apply negb_true_iff in Hc. apply N.eqb_neq in Hc. tauto.
  - intros [-> (c & name & Hc & -> & Hne & Hn)]. split; [reflexivity|].
    apply andb_true_iff. split; [apply negb_true_iff, N.eqb_neq; exact Hc | apply no_slash_nonempty_spec; tauto].
Qed.

Lemma bool_eq_iff (a b : bool) : (a = true <-> b = true) -> a = b.
Proof. destruct a, b; intros [H1 H2]; try reflexivity; [symmetry; apply H1 | apply H2]; reflexivity. Qed.

(* isChildOf = the parent rule, except that under "/" the first byte of the path is not checked *)
Lemma is_child_of_full p d : is_child_of p d = direct_child_b p d || root_quirk p d.
Proof.
  apply bool_eq_iff. rewrite orb_true_iff, is_child_of_spec, direct_child_b_spec, root_quirk_spec.
  unfold direct_child, dir_prefix. split.
  - intros [[-> (c & name & -> & Hne & Hn)]|[Hd (name & -> & Hne & Hn)]].
    + destruct (N.eqb_spec c slash) as [->|Hc].
      * left. exists name. rewrite path_eqb_refl. tauto.
      * right. split; [reflexivity|]. exists c, name. tauto.
    + left. exists name. rewrite (path_eqb_neq _ _ Hd), <- app_assoc. tauto.
  - intros [(name & Hne & Hn & Hp)|[-> (c & name & Hc & -> & Hne & Hn)]].
    + destruct (path_eqb_spec d [slash]) as [->|Hd].
      * left. split; [reflexivity|]. exists slash, name. tauto.
      * right. split; [exact Hd|]. exists name. rewrite Hp, <- app_assoc. tauto.
    + left. split; [reflexivity|]. exists c, name. tauto.
Qed.

Lemma is_child_of_abs p d : is_abs p = true -> is_child_of p d = direct_child_b p d.
Proof.
  intros Ha. rewrite is_child_of_full. destruct (root_quirk p d) eqn:E; [|apply orb_false_r].
  exfalso. apply root_quirk_spec in E. destruct E as [_ (c & name & Hc & -> & _)].
  cbn in Ha. apply N.eqb_eq in Ha. congruence.
Qed.

(* InvalidateTree's rule: the directory itself or anything below it *)
Lemma has_prefix_spec pre s0 : has_prefix pre s0 = true <-> exists rest, s0 = pre ++ rest.
Proof.
  revert s0; induction pre as [|x pre IH]; intros s0; cbn.
  - split; [intros _; exists s0; reflexivity | reflexivity].
  - destruct s0 as [|y s0]; [split; [discriminate | intros [r H]; discriminate]|].
    rewrite andb_true_iff, IH, N.eqb_eq. split.
    + intros [-> [r ->]]. exists r. reflexivity.
    + intros [r H]. inversion H; subst. split; [reflexivity | exists r; reflexivity].
Qed.
Lemma in_tree_spec p d : in_tree p d = true <-> p = d \/ exists rest, p = trim_suffix_slash d ++ slash :: rest.
Proof.
  unfold in_tree. rewrite orb_true_iff, has_prefix_spec. split.
  - intros [H|[r H]]; [left; apply path_eqb_true; exact H | right; exists r; rewrite H, <- app_assoc; reflexivity].
  - intros [->|[r H]]; [left; apply path_eqb_refl | right; exists r; rewrite H, <- app_assoc; reflexivity].
Qed.

(* ================================================================ DirCache *)
Section DirProofs.
Context {E : Type}.
Implicit Types (c : dir_cache E) (s : dir_spec E).

Record DInv c : Prop := { di_l : LInv (dc_lru c); di_b : Bounded (dc_lru c) }.
Definition DR c s : Prop :=
  R (dc_lru c) (ds_entries s) /\ ds_cap s = l_max (dc_lru c) /\ ds_timeout s = dc_timeout c /\
  ds_max_dir s = dc_max_dir c.

Lemma dinv_new t me md : DInv (new_dir_cache t me md).
Proof. split; cbn; [apply linv_empty | split; cbn; [lia | apply default_size_pos; lia]]. Qed.
Lemma dr_new t me md : DR (new_dir_cache t me md) (sd_new t me md).
Proof. repeat split. Qed.

Lemma bounded_sub_size' (l l' : lru (list E)) : Bounded l -> msize l' <= msize l -> l_max l' = l_max l -> Bounded l'.
Proof. intros [Hb Hp] Hs Hm. unfold Bounded. rewrite Hm. split; [lia | exact Hp]. Qed.
Lemma dr_with c s l ls : DR c s -> R l ls -> l_max l = l_max (dc_lru c) -> DR (with_dlru c l) (ds_with s ls).
Proof. intros (HR & Hcap & Ht & Hd) Hl Hm. split; [exact Hl|]. cbn. repeat split; congruence. Qed.
Lemma dinv_with c l : DInv c -> LInv l -> msize l <= msize (dc_lru c) -> l_max l = l_max (dc_lru c) -> DInv (with_dlru c l).
Proof. intros [I B] Il Hs Hm. split; [exact Il | apply (bounded_sub_size' (dc_lru c)); assumption]. Qed.

Lemma msize_ual' k (l : lru (list E)) : LInv l -> msize (update_access_log k l) = msize l /\ l_max (update_access_log k l) = l_max l.
Proof.
  intros I. destruct (lookup k (l_map l)) as [e|] eqn:H.
  - rewrite (ual_list _ _ _ I H). split; reflexivity.
  - unfold update_access_log. rewrite H. split; reflexivity.
Qed.

Lemma dir_step_sim c s to : DInv c -> DR c s ->
  DInv (fst (dir_step_res c to)) /\ DR (fst (dir_step_res c to)) (fst (sd_step_res s to)) /\
  snd (dir_step_res c to) = snd (sd_step_res s to).
Proof.
  intros Hi Hr. pose proof Hi as [I B]. pose proof Hr as (HR & Hcap & Ht & Hd). destruct to as [now op].
  unfold dir_step_res, sd_step_res. destruct op as [k es|k|k|d|n|t| ]; cbn [fst snd].
  - (* Put *)
    unfold dir_put. rewrite Hd. destruct (dc_max_dir c <? N.of_nat (length es)); cbn [fst snd].
    + split; [exact Hi|]. split; [exact Hr | reflexivity].
    + split; [|split; [|reflexivity]].
      * split; cbn [dc_lru with_dlru]; [apply linv_store; exact I | apply bounded_store; assumption].
      * rewrite Hcap, Ht. apply dr_with; [exact Hr | apply sim_store; assumption | apply store_max].
  - (* Get *)
    unfold dir_get. destruct HR as [Hk Hf]. rewrite (Hf k).
    destruct (lookup k (l_map (dc_lru c))) as [e|] eqn:Hl; cbn [option_map proj].
    2:{ cbn [fst snd]. split; [exact Hi|]. split; [exact Hr | reflexivity]. }
    destruct (ce_exp e <? Z.of_N now)%Z; cbn [fst snd].
    + split; [|split; [|reflexivity]].
      * apply dinv_with; [exact Hi | apply linv_delete_entry; exact I | apply msize_delete_entry_le | apply delete_entry_max].
      * apply dr_with; [exact Hr | apply sim_delete_entry; [exact I | split; assumption] | apply delete_entry_max].
    + destruct (msize_ual' k _ I) as [Hs Hm]. split; [|split; [|reflexivity]].
      * apply dinv_with; [exact Hi | apply linv_ual; exact I | lia | exact Hm].
      * apply dr_with; [exact Hr | apply sim_ual; [exact I | split; assumption] | exact Hm].
  - (* Invalidate *)
    unfold dir_invalidate. split; [|split; [|reflexivity]].
    + apply dinv_with; [exact Hi | apply linv_delete_entry; exact I | apply msize_delete_entry_le | apply delete_entry_max].
    + apply dr_with; [exact Hr | apply sim_delete_entry; assumption | apply delete_entry_max].
  - (* InvalidateTree *)
    unfold dir_invalidate_tree.
    destruct (delete_where_char (fun p (_ : centry (list E)) => in_tree p d) _ I) as (I' & _ & _ & Hm & Hs).
    split; [|split; [|reflexivity]].
    + apply dinv_with; assumption.
    + apply dr_with; [exact Hr | | exact Hm]. apply sim_delete_where; try assumption. reflexivity.
  - (* Resize *)
    unfold dir_resize. assert (1 <= default_size n 1000) as Hn by (apply default_size_pos; lia).
    destruct (resize_char _ _ I B Hn) as (I' & B' & _ & _ & Hm).
    split; [split; assumption|]. split; [|reflexivity].
    split; [apply sim_resize; assumption|]. cbn. repeat split; congruence.
  - (* UpdateTTL *)
    unfold dir_update_ttl. split; [split; assumption|]. split; [|reflexivity].
    split; [exact HR|]. cbn. repeat split; congruence.
  - (* Clear *)
    unfold dir_clear. split; [|split; [|reflexivity]].
    + split; cbn [dc_lru with_dlru]; [apply linv_clear | destruct B as [_ Hp]; split; cbn; [lia | exact Hp]].
    + apply dr_with; [exact Hr | apply sim_clear | reflexivity].
Qed.

Lemma dir_observe_sim c s r : DInv c -> DR c s -> dir_observe c r = sd_observe s r.
Proof.
  intros [I B] (HR & Hcap & _). unfold dir_observe, sd_observe, dir_size, dir_max_entries.
  rewrite (R_length _ _ I HR), Hcap. reflexivity.
Qed.

Theorem dir_refines_gen : forall h c s, DInv c -> DR c s -> dir_run_obs c h = sd_run_obs s h.
Proof.
  induction h as [|to h IH]; intros c s Hi Hr; [reflexivity|].
  destruct (dir_step_sim c s to Hi Hr) as (Hi' & Hr' & Hres).
  cbn [dir_run_obs sd_run_obs].
  destruct (dir_step_res c to) as [c' r] eqn:Ec. destruct (sd_step_res s to) as [s' r'] eqn:Es.
  cbn [fst snd] in *. subst r'. f_equal; [apply dir_observe_sim; assumption | apply IH; assumption].
Qed.

Definition dir_reachable (t me md : Z) c : Prop := exists h, c = fold_left dir_step h (new_dir_cache t me md).
Definition sd_step s (to : N * dir_op E) : dir_spec E := fst (sd_step_res s to).
Lemma dir_run_inv h : forall c s, DInv c -> DR c s ->
  DInv (fold_left dir_step h c) /\ DR (fold_left dir_step h c) (fold_left sd_step h s).
Proof.
  induction h as [|to h IH]; intros c s Hi Hr; [split; assumption|]. cbn [fold_left].
  destruct (dir_step_sim c s to Hi Hr) as (Hi' & Hr' & _). apply IH; assumption.
Qed.
Lemma dir_step_inv c to : DInv c -> DInv (dir_step c to).
Proof.
  intros Hi.
  assert (DR c {| ds_entries := abs_tlru (dc_lru c); ds_cap := l_max (dc_lru c); ds_timeout := dc_timeout c;
                  ds_max_dir := dc_max_dir c |}) as Hr
    by (split; [apply sim_abs, Hi | repeat split]).
  destruct (dir_step_sim c _ to Hi Hr) as (Hi' & _). exact Hi'.
Qed.
Lemma dir_reachable_inv t me md c : dir_reachable t me md c -> DInv c.
Proof. intros [h ->]. apply (dir_run_inv h _ _ (dinv_new t me md) (dr_new t me md)). Qed.
End DirProofs.

(* ================================================================ recency: the access list is ordered by last use *)
(* l' is l with some elements dropped, order kept *)
Definition osub (l' l : list path) : Prop :=
  incl l' l /\ forall (Rel : path -> path -> Prop), StronglySorted Rel l -> StronglySorted Rel l'.

Lemma osub_refl l : osub l l.
Proof. split; [apply incl_refl | auto]. Qed.
Lemma osub_trans l1 l2 l3 : osub l1 l2 -> osub l2 l3 -> osub l1 l3.
Proof. intros [I1 S1] [I2 S2]. split; [eapply incl_tran; eassumption | auto]. Qed.
Lemma osub_nil l : osub [] l.
Proof. split; [intros x [] | intros; constructor]. Qed.
Lemma osub_filter f l : osub (filter f l) l.
Proof.
  split; [intros x Hx; apply filter_In in Hx; tauto|]. intros Rel H.
  induction H as [|a l Hs IH Hf]; cbn; [constructor|]. destruct (f a); [|exact IH].
  constructor; [exact IH|]. rewrite Forall_forall in *. intros x Hx. apply filter_In in Hx. apply Hf. tauto.
Qed.
Lemma osub_firstn n l : osub (firstn n l) l.
Proof.
  split; [intros x Hx; eapply firstn_In; exact Hx|]. intros Rel H. revert n.
  induction H as [|a l Hs IH Hf]; intros [|n]; cbn; try constructor; [apply IH|].
  rewrite Forall_forall in *. intros x Hx. apply Hf. eapply firstn_In; exact Hx.
Qed.
Lemma osub_removelast l : osub (removelast l) l.
Proof. rewrite removelast_firstn_len. apply osub_firstn. Qed.
Lemma osub_remove_key k l : osub (remove_key k l) l.
Proof. apply osub_filter. Qed.

Section Recency.
Context {V : Type}.
Implicit Types (c : lru V).

Lemma pre_store_list k c : osub (l_list (pre_store k c)) (l_list c).
Proof.
  unfold pre_store. destruct (lookup k (l_map c)); [apply osub_refl|].
  destruct (l_max c <=? msize c); [|apply osub_refl].
  unfold evict_back. destruct (l_list c) eqn:El; [rewrite El; apply osub_refl|]. cbn [l_list]. apply osub_removelast.
Qed.
(* a store puts its key in front of what remains of the old list *)
Lemma store_shape k v exp c : LInv c ->
  exists L, l_list (store k v exp c) = k :: L /\ osub L (l_list c) /\ ~ In k L.
Proof.
  intros I. exists (remove_key k (l_list (pre_store k c))). split; [apply store_list; exact I|]. split.
  - eapply osub_trans; [apply osub_remove_key | apply pre_store_list].
  - rewrite remove_key_in. tauto.
Qed.
Lemma ual_shape k c e : LInv c -> lookup k (l_map c) = Some e ->
  exists L, l_list (update_access_log k c) = k :: L /\ osub L (l_list c) /\ ~ In k L.
Proof.
  intros I H. exists (remove_key k (l_list c)). rewrite (ual_list _ _ _ I H). split; [reflexivity|].
  split; [apply osub_remove_key | rewrite remove_key_in; tauto].
Qed.
Lemma delete_entry_shape k c : LInv c -> osub (l_list (delete_entry k c)) (l_list c).
Proof. intros I. rewrite (delete_entry_list _ _ I). apply osub_remove_key. Qed.
Lemma delete_where_shape pred c : LInv c -> osub (l_list (delete_where pred c)) (l_list c).
Proof. intros I. destruct (delete_where_char pred c I) as (_ & Hl & _). rewrite Hl. apply osub_filter. Qed.
Lemma resize_shape n c : LInv c -> Bounded c -> 1 <= n -> osub (l_list (resize_core n c)) (l_list c).
Proof. intros I B Hn. destruct (resize_char n c I B Hn) as (_ & _ & Hl & _). rewrite Hl. apply osub_firstn. Qed.

(* the eviction of a store: which key goes, and that nothing else does *)
Lemma store_evicts k v exp c : LInv c -> Bounded c -> lookup k (l_map c) = None -> l_max c <= msize c ->
  let victim := last (l_list c) [] in
  In victim (l_list c) /\ victim <> k /\
  l_list (store k v exp c) = k :: removelast (l_list c) /\
  forall x, lookup x (l_map (store k v exp c)) =
            if path_eqb x k then Some {| ce_val := v; ce_exp := exp; ce_el := true |}
            else if path_eqb x victim then None else lookup x (l_map c).
Proof.
  intros I [Hb Hp] Hk Hfull victim.
  assert (l_list c <> []) as Hne.
  { rewrite (msize_list _ I) in Hfull. intros E0. rewrite E0 in Hfull. cbn in Hfull. lia. }
  assert (In victim (l_list c)) as Hin by (apply last_in; exact Hne).
  assert (victim <> k) as Hvk.
  { intros ->. apply (li_dom _ I), lookup_in_keys in Hin. congruence. }
  assert (pre_store k c = delete_entry victim c) as Hpre.
  { unfold pre_store. rewrite Hk. apply N.leb_le in Hfull. rewrite Hfull. apply evict_back_delete_entry; assumption. }
  split; [exact Hin|]. split; [exact Hvk|]. split.
  - rewrite store_list, Hpre, (delete_entry_list _ _ I) by assumption. f_equal. unfold victim.
    rewrite <- removelast_remove_key by (try apply (li_ndl _ I); assumption).
    apply remove_key_notin. intros H. apply osub_removelast in H. apply (li_dom _ I), lookup_in_keys in H. congruence.
  - intros x. rewrite store_lookup, Hpre, delete_entry_map by assumption. reflexivity.
Qed.
Lemma store_keeps k v exp c : LInv c -> (lookup k (l_map c) <> None \/ msize c < l_max c) ->
  l_list (store k v exp c) = k :: remove_key k (l_list c) /\
  forall x, lookup x (l_map (store k v exp c)) =
            if path_eqb x k then Some {| ce_val := v; ce_exp := exp; ce_el := true |} else lookup x (l_map c).
Proof.
  intros I H. assert (pre_store k c = c) as Hpre.
  { unfold pre_store. destruct (lookup k (l_map c)); [reflexivity|]. destruct H as [H|H]; [congruence|].
    apply N.leb_gt in H. rewrite H. reflexivity. }
  split; [rewrite store_list, Hpre by assumption; reflexivity|].
  intros x. rewrite store_lookup, Hpre by assumption. reflexivity.
Qed.
End Recency.

Section AttrRecency.
Context {A : Type}.
Implicit Types (c : attr_cache A).

(* the key an operation uses: stored by a Put (a PutNegative only while enabled) or returned by a Get *)
Definition attr_used c (to : N * attr_op A) : option path :=
  match snd to with
  | APut k _ => Some k
  | APutNegative k => if ac_negon c then Some k else None
  | AGet k => match snd (attr_get (fst to) k c) with Miss => None | _ => Some k end
  | _ => None
  end.

Lemma attr_step_shape c to : AInv c ->
  match attr_used c to with
  | Some k => exists L, l_list (ac_lru (attr_step c to)) = k :: L /\ osub L (l_list (ac_lru c)) /\ ~ In k L
  | None => osub (l_list (ac_lru (attr_step c to))) (l_list (ac_lru c))
  end.
Proof.
  intros [I B HN]. destruct to as [now op]. unfold attr_used, attr_step, attr_step_res. cbn [fst snd].
  destruct op as [k a|k|k|k|d|d|n|t| |on t]; cbn [fst snd].
  - unfold attr_put. cbn [ac_lru with_lru]. apply store_shape; exact I.
  - unfold attr_put_negative.
    destruct (ac_negon c); [cbn [ac_lru with_lru]; apply store_shape; exact I | apply osub_refl].
  - unfold attr_get. destruct (lookup k (l_map (ac_lru c))) as [e|] eqn:Hl; [|cbn; apply osub_refl].
    destruct (Z.of_N now <? ce_exp e)%Z; cbn [fst snd].
    + assert (exists L, l_list (update_access_log k (ac_lru c)) = k :: L /\ osub L (l_list (ac_lru c)) /\ ~ In k L) as H
        by (eapply ual_shape; eassumption).
      destruct (ce_val e); cbn [ac_lru with_lru]; exact H.
    + destruct (ce_exp e <? Z.of_N now)%Z; cbn [fst snd ac_lru with_lru];
        [apply delete_entry_shape; exact I | apply osub_refl].
  - unfold attr_invalidate. cbn [ac_lru with_lru]. apply delete_entry_shape; exact I.
  - unfold attr_invalidate_negative_in_dir. cbn [ac_lru with_lru]. apply delete_where_shape; exact I.
  - unfold attr_invalidate_tree. cbn [ac_lru with_lru]. apply delete_where_shape; exact I.
  - unfold attr_resize. cbn [ac_lru with_lru]. apply resize_shape; [exact I | exact B | apply default_size_pos; lia].
  - cbn. apply osub_refl.
  - cbn. apply osub_nil.
  - unfold attr_configure_negative. destruct on; cbn [ac_lru]; [apply osub_refl | apply delete_where_shape; exact I].
Qed.

(* instrumented run: st k = number (from 1) of the last step that used k, 0 if never *)
Fixpoint attr_stamps c (i : nat) (st : path -> nat) (h : list (N * attr_op A)) : attr_cache A * (path -> nat) :=
  match h with
  | [] => (c, st)
  | to :: r =>
    attr_stamps (attr_step c to) (S i)
      (match attr_used c to with Some k => fun x => if path_eqb x k then S i else st x | None => st end) r
  end.

Definition by_stamp (st : path -> nat) (a b : path) : Prop := (st b < st a)%nat.

Lemma attr_stamps_sorted h : forall c i st, AInv c ->
  (forall x, st x <= i)%nat -> StronglySorted (by_stamp st) (l_list (ac_lru c)) ->
  let r := attr_stamps c i st h in
  AInv (fst r) /\ StronglySorted (by_stamp (snd r)) (l_list (ac_lru (fst r))).
Proof.
  induction h as [|to h IH]; intros c i st Hi Hst Hs; [split; assumption|]. cbn [attr_stamps].
  pose proof (attr_step_inv c to Hi) as Hi'. pose proof (attr_step_shape c to Hi) as Hsh.
  apply IH; [exact Hi'| |].
  - destruct (attr_used c to) as [k|]; intros x; [destruct (path_eqb x k); [lia|]|]; specialize (Hst x); lia.
  - destruct (attr_used c to) as [k|].
    + destruct Hsh as (L & -> & [Hincl Hsub] & Hnk). constructor.
      * specialize (Hsub _ Hs). clear - Hsub Hnk.
        induction Hsub as [|a L HsL IHL Hf]; [constructor|]. constructor.
        -- apply IHL. intros H; apply Hnk; right; exact H.
        -- rewrite Forall_forall in *. intros y Hy. unfold by_stamp in *.
           assert (a <> k) by (intros ->; apply Hnk; left; reflexivity).
           assert (y <> k) by (intros ->; apply Hnk; right; exact Hy).
           rewrite !path_eqb_neq by assumption. apply Hf, Hy.
      * rewrite Forall_forall. intros y Hy. unfold by_stamp. rewrite path_eqb_refl.
        assert (y <> k) by (intros ->; exact (Hnk Hy)). rewrite path_eqb_neq by assumption.
        specialize (Hst y). lia.
    + destruct Hsh as [_ Hsub]. apply Hsub, Hs.
Qed.

(* in every reachable state the access list is in strictly decreasing order of last use *)
Lemma attr_recency_sorted ttl mx h :
  let r := attr_stamps (new_attr_cache ttl mx) 0 (fun _ => 0%nat) h in
  fst r = fold_left attr_step h (new_attr_cache ttl mx) /\
  StronglySorted (by_stamp (snd r)) (l_list (ac_lru (fst r))).
Proof.
  split.
  - generalize (new_attr_cache (A := A) ttl mx) 0%nat (fun _ : path => 0%nat).
    induction h as [|to h IH]; intros c i st; [reflexivity|]. cbn [attr_stamps fold_left]. apply IH.
  - apply attr_stamps_sorted; [apply ainv_new | intros; lia | constructor].
Qed.
End AttrRecency.

(* a sorted list's last element is below every other one *)
Lemma sorted_last_least (st : path -> nat) l x :
  StronglySorted (by_stamp st) l -> In x l -> x <> last l [] -> (st (last l []) < st x)%nat.
Proof.
  intros Hs. induction Hs as [|a l HsL IH Hf]; [intros []|]. intros Hin Hne.
  destruct l as [|b l]; [cbn in *; destruct Hin as [->|[]]; congruence|].
  change (last (a :: b :: l) []) with (last (b :: l) []) in *.
  destruct Hin as [->|Hin].
  - rewrite Forall_forall in Hf. apply Hf. apply last_in. discriminate.
  - apply IH; assumption.
Qed.

Section DirRecency.
Context {E : Type}.
Implicit Types (c : dir_cache E).

Definition dir_used c (to : N * dir_op E) : option path :=
  match snd to with
  | DPut k es => if dc_max_dir c <? N.of_nat (length es) then None else Some k
  | DGet k => match snd (dir_get (fst to) k c) with None => None | Some _ => Some k end
  | _ => None
  end.

Lemma dir_step_shape c to : DInv c ->
  match dir_used c to with
  | Some k => exists L, l_list (dc_lru (dir_step c to)) = k :: L /\ osub L (l_list (dc_lru c)) /\ ~ In k L
  | None => osub (l_list (dc_lru (dir_step c to))) (l_list (dc_lru c))
  end.
Proof.
  intros [I B]. destruct to as [now op]. unfold dir_used, dir_step, dir_step_res. cbn [fst snd].
  destruct op as [k es|k|k|d|n|t| ]; cbn [fst snd].
  - unfold dir_put. destruct (dc_max_dir c <? N.of_nat (length es)); [apply osub_refl|].
    cbn [dc_lru with_dlru]. apply store_shape; exact I.
  - unfold dir_get. destruct (lookup k (l_map (dc_lru c))) as [e|] eqn:Hl; [|cbn; apply osub_refl].
    destruct (ce_exp e <? Z.of_N now)%Z; cbn [fst snd dc_lru with_dlru].
    + apply delete_entry_shape; exact I.
    + eapply ual_shape; eassumption.
  - unfold dir_invalidate. cbn [dc_lru with_dlru]. apply delete_entry_shape; exact I.
  - unfold dir_invalidate_tree. cbn [dc_lru with_dlru]. apply delete_where_shape; exact I.
  - unfold dir_resize. cbn [dc_lru with_dlru]. apply resize_shape; [exact I | exact B | apply default_size_pos; lia].
  - cbn. apply osub_refl.
  - cbn. apply osub_nil.
Qed.

Fixpoint dir_stamps c (i : nat) (st : path -> nat) (h : list (N * dir_op E)) : dir_cache E * (path -> nat) :=
  match h with
  | [] => (c, st)
  | to :: r =>
    dir_stamps (dir_step c to) (S i)
      (match dir_used c to with Some k => fun x => if path_eqb x k then S i else st x | None => st end) r
  end.

Lemma dir_stamps_sorted h : forall c i st, DInv c ->
  (forall x, st x <= i)%nat -> StronglySorted (by_stamp st) (l_list (dc_lru c)) ->
  let r := dir_stamps c i st h in
  DInv (fst r) /\ StronglySorted (by_stamp (snd r)) (l_list (dc_lru (fst r))).
Proof.
  induction h as [|to h IH]; intros c i st Hi Hst Hs; [split; assumption|]. cbn [dir_stamps].
  pose proof (dir_step_inv c to Hi) as Hi'. pose proof (dir_step_shape c to Hi) as Hsh.
  apply IH; [exact Hi'| |].
  - destruct (dir_used c to) as [k|]; intros x; [destruct (path_eqb x k); [lia|]|]; specialize (Hst x); lia.
  - destruct (dir_used c to) as [k|].
    + destruct Hsh as (L & -> & [Hincl Hsub] & Hnk). constructor.
      * specialize (Hsub _ Hs). clear - Hsub Hnk.
        induction Hsub as [|a L HsL IHL Hf]; [constructor|]. constructor.
        -- apply IHL. intros H; apply Hnk; right; exact H.
        -- rewrite Forall_forall in *. intros y Hy. unfold by_stamp in *.
           assert (a <> k) by (intros ->; apply Hnk; left; reflexivity).
           assert (y <> k) by (intros ->; apply Hnk; right; exact Hy).
           rewrite !path_eqb_neq by assumption. apply Hf, Hy.
      * rewrite Forall_forall. intros y Hy. unfold by_stamp. rewrite path_eqb_refl.
        assert (y <> k) by (intros ->; exact (Hnk Hy)). rewrite path_eqb_neq by assumption.
        specialize (Hst y). lia.
    + destruct Hsh as [_ Hsub]. apply Hsub, Hs.
Qed.

Lemma dir_recency_sorted t me md h :
  let r := dir_stamps (new_dir_cache t me md) 0 (fun _ => 0%nat) h in
  fst r = fold_left dir_step h (new_dir_cache t me md) /\
  StronglySorted (by_stamp (snd r)) (l_list (dc_lru (fst r))).
Proof.
  split.
  - generalize (new_dir_cache (E := E) t me md) 0%nat (fun _ : path => 0%nat).
    induction h as [|to h IH]; intros c i st; [reflexivity|]. cbn [dir_stamps fold_left]. apply IH.
  - apply dir_stamps_sorted; [apply dinv_new | intros; lia | constructor].
Qed.
End DirRecency.

(* ================================================================ property-level lemmas (cited by Properties/C21.v) *)
Section AttrProps.
Context {A : Type}.
Implicit Types (c : attr_cache A).

Definition entry_of c (k : path) : option (centry (option A)) := lookup k (l_map (ac_lru c)).

Lemma C21_attr_invariants_lemma ttl mx c : attr_reachable ttl mx c ->
  NoDup (l_list (ac_lru c)) /\ NoDup (map fst (l_map (ac_lru c))) /\
  (forall k, In k (l_list (ac_lru c)) <-> In k (map fst (l_map (ac_lru c)))) /\
  attr_size c <= attr_max_size c /\ 1 <= attr_max_size c.
Proof.
  intros Hr. destruct (attr_reachable_inv _ _ _ Hr) as [I [Hb Hp] _].
  split; [apply (li_ndl _ I)|]. split; [apply (li_ndm _ I)|]. split; [apply (li_dom _ I)|]. split; assumption.
Qed.

Lemma C21_refines_attr_lemma ttl mx (h : list (N * attr_op A)) :
  attr_run_obs (new_attr_cache ttl mx) h = sa_run_obs is_child_of (sa_new ttl mx) h.
Proof.
  apply (attr_refines_gen is_child_of (fun _ => True)); auto using ainv_new, ar_new.
  rewrite Forall_forall. auto.
Qed.

Definition abs_keys (h : list (N * attr_op A)) : Prop :=
  Forall (fun to => forall k, op_key (snd to) = Some k -> is_abs k = true) h.

Lemma C21_refines_attr_parent_lemma ttl mx (h : list (N * attr_op A)) : abs_keys h ->
  attr_run_obs (new_attr_cache ttl mx) h = sa_run_obs direct_child_b (sa_new ttl mx) h.
Proof.
  intros Hh. apply (attr_refines_gen direct_child_b (fun k => is_abs k = true)); auto using ainv_new, ar_new.
  intros k d Hk. apply is_child_of_abs, Hk.
Qed.

(* Put / PutNegative of a new key into a full cache evicts the last key of the access list and nothing else *)
Lemma C21_lru_put_lemma ttl mx c now k a : attr_reachable ttl mx c ->
  entry_of c k = None -> attr_max_size c <= attr_size c ->
  let victim := last (l_list (ac_lru c)) [] in
  let c' := attr_put now k a c in
  entry_of c victim <> None /\ entry_of c' victim = None /\
  entry_of c' k = Some {| ce_val := Some a; ce_exp := (Z.of_N now + ac_ttl c)%Z; ce_el := true |} /\
  (forall x, x <> k -> x <> victim -> entry_of c' x = entry_of c x) /\
  l_list (ac_lru c') = k :: removelast (l_list (ac_lru c)) /\ attr_size c' = attr_size c.
Proof.
  intros Hr Hk Hfull victim c'. destruct (attr_reachable_inv _ _ _ Hr) as [I B _].
  destruct (store_evicts k (Some a) (Z.of_N now + ac_ttl c)%Z (ac_lru c) I B Hk Hfull) as (Hin & Hvk & Hl & Hm).
  fold victim in Hin, Hvk, Hm. unfold entry_of, c', attr_put. cbn [ac_lru with_lru].
  split; [apply lookup_in_keys, (li_dom _ I); exact Hin|].
  split; [rewrite Hm, (path_eqb_neq _ _ Hvk), path_eqb_refl; reflexivity|].
  split; [rewrite Hm, path_eqb_refl; reflexivity|].
  split; [intros x H1 H2; rewrite Hm, (path_eqb_neq _ _ H1), (path_eqb_neq _ _ H2); reflexivity|].
  split; [exact Hl|].
  unfold attr_size. cbn [ac_lru with_lru].
  rewrite (msize_list _ (linv_store k (Some a) (Z.of_N now + ac_ttl c)%Z _ I)), (msize_list _ I), Hl. cbn [length].
  assert (l_list (ac_lru c) <> []) as Hne by (intros E0; rewrite E0 in Hin; exact Hin).
  pose proof (length_removelast _ Hne). lia.
Qed.
Lemma C21_lru_put_negative_lemma ttl mx c now k : attr_reachable ttl mx c -> ac_negon c = true ->
  entry_of c k = None -> attr_max_size c <= attr_size c ->
  let victim := last (l_list (ac_lru c)) [] in
  let c' := attr_put_negative now k c in
  entry_of c victim <> None /\ entry_of c' victim = None /\
  entry_of c' k = Some {| ce_val := None; ce_exp := (Z.of_N now + ac_negttl c)%Z; ce_el := true |} /\
  (forall x, x <> k -> x <> victim -> entry_of c' x = entry_of c x) /\
  l_list (ac_lru c') = k :: removelast (l_list (ac_lru c)).
Proof.
  intros Hr Hon Hk Hfull victim c'. destruct (attr_reachable_inv _ _ _ Hr) as [I B _].
  destruct (store_evicts k None (Z.of_N now + ac_negttl c)%Z (ac_lru c) I B Hk Hfull) as (Hin & Hvk & Hl & Hm).
  fold victim in Hin, Hvk, Hm.
  unfold entry_of, c', attr_put_negative.
  rewrite Hon. cbn [ac_lru with_lru].
  split; [apply lookup_in_keys, (li_dom _ I); exact Hin|].
  split; [rewrite Hm, (path_eqb_neq _ _ Hvk), path_eqb_refl; reflexivity|].
  split; [rewrite Hm, path_eqb_refl; reflexivity|].
  split; [intros x H1 H2; rewrite Hm, (path_eqb_neq _ _ H1), (path_eqb_neq _ _ H2); reflexivity | exact Hl].
Qed.
(* ... and a Put that does not need room evicts nothing *)
Lemma C21_put_keeps_lemma ttl mx c now k a : attr_reachable ttl mx c ->
  (entry_of c k <> None \/ attr_size c < attr_max_size c) ->
  forall x, x <> k -> entry_of (attr_put now k a c) x = entry_of c x.
Proof.
  intros Hr H x Hx. destruct (attr_reachable_inv _ _ _ Hr) as [I B _].
  destruct (store_keeps k (Some a) (Z.of_N now + ac_ttl c)%Z (ac_lru c) I H) as [_ Hm].
  unfold entry_of, attr_put. cbn [ac_lru with_lru]. rewrite Hm, (path_eqb_neq _ _ Hx). reflexivity.
Qed.

(* the victim is the least recently used cached key *)
Lemma C21_lru_recency_lemma ttl mx (h : list (N * attr_op A)) :
  let r := attr_stamps (new_attr_cache ttl mx) 0 (fun _ => 0%nat) h in
  let c := fst r in let last_use := snd r in
  c = fold_left attr_step h (new_attr_cache ttl mx) /\
  StronglySorted (by_stamp last_use) (l_list (ac_lru c)) /\
  forall x, In x (l_list (ac_lru c)) -> x <> last (l_list (ac_lru c)) [] ->
            (last_use (last (l_list (ac_lru c)) []) < last_use x)%nat.
Proof.
  destruct (attr_recency_sorted ttl mx h) as [H1 H2]. split; [exact H1|]. split; [exact H2|].
  intros x Hin Hne. apply sorted_last_least; assumption.
Qed.

(* InvalidateNegativeInDir: exactly the negative entries selected by isChildOf go; the rest, their order
   and the configuration stay *)
Lemma C21_neg_children_lemma ttl mx c d : attr_reachable ttl mx c ->
  let c' := attr_invalidate_negative_in_dir d c in
  (forall x, entry_of c' x =
             match entry_of c x with
             | Some e => if is_neg e && is_child_of x d then None else Some e
             | None => None
             end) /\
  l_list (ac_lru c') =
    filter (fun x => negb match entry_of c x with Some e => is_neg e && is_child_of x d | None => false end)
           (l_list (ac_lru c)) /\
  attr_max_size c' = attr_max_size c /\ ac_ttl c' = ac_ttl c /\ ac_negttl c' = ac_negttl c /\ ac_negon c' = ac_negon c.
Proof.
  intros Hr c'. destruct (attr_reachable_inv _ _ _ Hr) as [I B _].
  destruct (delete_where_char (fun p e => is_neg e && is_child_of p d) _ I) as (_ & Hl & Hm & Hx & _).
  unfold entry_of, c', attr_invalidate_negative_in_dir, attr_max_size. cbn [ac_lru with_lru ac_ttl ac_negttl ac_negon].
  split; [exact Hm|]. split; [exact Hl|]. split; [exact Hx|]. repeat split.
Qed.

Lemma filter_none {X} (f : X -> bool) l : (forall x, In x l -> f x = false) -> filter f l = [].
Proof.
  induction l as [|y l IH]; cbn; [reflexivity|]. intros H. rewrite (H y (or_introl eq_refl)). apply IH.
  intros x Hx. apply H. right; exact Hx.
Qed.

(* negative entries are observable only while negative caching is enabled *)
Lemma C21_neg_enabled_lemma ttl mx c : attr_reachable ttl mx c -> ac_negon c = false ->
  (forall k e, entry_of c k = Some e -> ce_val e <> None) /\
  (forall now k, snd (attr_get now k c) <> NegHit) /\ attr_negative_stats c = 0 /\
  (forall now k, attr_put_negative now k c = c).
Proof.
  intros Hr Hoff. destruct (attr_reachable_inv _ _ _ Hr) as [I B HN]. specialize (HN Hoff).
  assert (forall k e, entry_of c k = Some e -> ce_val e <> None) as H1.
  { intros k e Hk. specialize (HN k e Hk). unfold is_neg in HN. destruct (ce_val e); [discriminate | discriminate]. }
  split; [exact H1|]. split; [|split].
  - intros now k. unfold attr_get. destruct (lookup k (l_map (ac_lru c))) as [e|] eqn:Hk; [|cbn; discriminate].
    destruct (Z.of_N now <? ce_exp e)%Z; cbn [snd].
    + specialize (H1 k e Hk). destruct (ce_val e); [discriminate | congruence].
    + destruct (ce_exp e <? Z.of_N now)%Z; cbn; discriminate.
  - unfold attr_negative_stats. rewrite filter_none; [reflexivity|].
    intros [k e] Hin. cbn [snd]. apply (HN k e). apply in_lookup_nodup; [apply (li_ndm _ I) | exact Hin].
  - intros now k. unfold attr_put_negative.
    rewrite Hoff. reflexivity.
Qed.

(* InvalidateTree removes exactly the keys selected by the tree rule *)
Lemma C21_tree_lemma ttl mx c d : attr_reachable ttl mx c ->
  forall x, entry_of (attr_invalidate_tree d c) x = if in_tree x d then None else entry_of c x.
Proof.
  intros Hr x. destruct (attr_reachable_inv _ _ _ Hr) as [I B _].
  destruct (delete_where_char (fun p (_ : centry (option A)) => in_tree p d) _ I) as (_ & _ & Hm & _).
  unfold entry_of, attr_invalidate_tree. cbn [ac_lru with_lru]. rewrite Hm.
  destruct (lookup x (l_map (ac_lru c))); destruct (in_tree x d); reflexivity.
Qed.
End AttrProps.

Section DirProps.
Context {E : Type}.
Implicit Types (c : dir_cache E).
Definition dentry_of c (k : path) : option (centry (list E)) := lookup k (l_map (dc_lru c)).

Lemma C21_dir_invariants_lemma t me md c : dir_reachable t me md c ->
  NoDup (l_list (dc_lru c)) /\ NoDup (map fst (l_map (dc_lru c))) /\
  (forall k, In k (l_list (dc_lru c)) <-> In k (map fst (l_map (dc_lru c)))) /\
  dir_size c <= dir_max_entries c /\ 1 <= dir_max_entries c.
Proof.
  intros Hr. destruct (dir_reachable_inv _ _ _ _ Hr) as [I [Hb Hp]].
  split; [apply (li_ndl _ I)|]. split; [apply (li_ndm _ I)|]. split; [apply (li_dom _ I)|]. split; assumption.
Qed.
Lemma C21_refines_dir_lemma t me md (h : list (N * dir_op E)) :
  dir_run_obs (new_dir_cache t me md) h = sd_run_obs (sd_new t me md) h.
Proof. apply dir_refines_gen; [apply dinv_new | apply dr_new]. Qed.

Lemma C21_lru_dir_put_lemma t me md c now k es : dir_reachable t me md c ->
  N.of_nat (length es) <= dc_max_dir c -> dentry_of c k = None -> dir_max_entries c <= dir_size c ->
  let victim := last (l_list (dc_lru c)) [] in
  let c' := dir_put now k es c in
  dentry_of c victim <> None /\ dentry_of c' victim = None /\
  dentry_of c' k = Some {| ce_val := es; ce_exp := (Z.of_N now + dc_timeout c)%Z; ce_el := true |} /\
  (forall x, x <> k -> x <> victim -> dentry_of c' x = dentry_of c x) /\
  l_list (dc_lru c') = k :: removelast (l_list (dc_lru c)).
Proof.
  intros Hr Hsz Hk Hfull victim c'. destruct (dir_reachable_inv _ _ _ _ Hr) as [I B].
  destruct (store_evicts k es (Z.of_N now + dc_timeout c)%Z (dc_lru c) I B Hk Hfull) as (Hin & Hvk & Hl & Hm).
  fold victim in Hin, Hvk, Hm. unfold dentry_of, c', dir_put.
  apply N.ltb_ge in Hsz. rewrite Hsz. cbn [dc_lru with_dlru].
  split; [apply lookup_in_keys, (li_dom _ I); exact Hin|].
  split; [rewrite Hm, (path_eqb_neq _ _ Hvk), path_eqb_refl; reflexivity|].
  split; [rewrite Hm, path_eqb_refl; reflexivity|].
  split; [intros x H1 H2; rewrite Hm, (path_eqb_neq _ _ H1), (path_eqb_neq _ _ H2); reflexivity | exact Hl].
Qed.
(* a listing longer than maxDirSize is refused: the cache is unchanged (a previous listing stays) *)
Lemma C21_dir_put_refused_lemma c now k es : dc_max_dir c < N.of_nat (length es) -> dir_put now k es c = c.
Proof. intros H. unfold dir_put. apply N.ltb_lt in H. rewrite H. reflexivity. Qed.

Lemma C21_lru_recency_dir_lemma t me md (h : list (N * dir_op E)) :
  let r := dir_stamps (new_dir_cache t me md) 0 (fun _ => 0%nat) h in
  let c := fst r in let last_use := snd r in
  c = fold_left dir_step h (new_dir_cache t me md) /\
  StronglySorted (by_stamp last_use) (l_list (dc_lru c)) /\
  forall x, In x (l_list (dc_lru c)) -> x <> last (l_list (dc_lru c)) [] ->
            (last_use (last (l_list (dc_lru c)) []) < last_use x)%nat.
Proof.
  destruct (dir_recency_sorted t me md h) as [H1 H2]. split; [exact H1|]. split; [exact H2|].
  intros x Hin Hne. apply sorted_last_least; assumption.
Qed.
End DirProps.

(* ================================================================ a hit returns the most recent value stored *)
(* [ls] maps every key to the last (value, expiry) stored for it by the history, None once it has been
   invalidated (Invalidate, InvalidateTree, InvalidateNegativeInDir, Clear, switching negative caching off).
   It is computed from the operations and the TTL configuration only - no capacity, no recency. *)
Section AttrLatest.
Context {A : Type}.
Implicit Types (c : attr_cache A).
Definition lsmap := path -> option (option A * Z).
Definition ls_upd (f : lsmap) (k : path) (v : option (option A * Z)) : lsmap :=
  fun x => if path_eqb x k then v else f x.
Definition ls_step c (f : lsmap) (to : N * attr_op A) : lsmap :=
  let now := Z.of_N (fst to) in
  match snd to with
  | APut k a => ls_upd f k (Some (Some a, (now + ac_ttl c)%Z))
  | APutNegative k => if ac_negon c then ls_upd f k (Some (None, (now + ac_negttl c)%Z)) else f
  | AInvalidate k => ls_upd f k None
  | AInvalidateNegativeInDir d =>
    fun x => match f x with Some (None, _) => if is_child_of x d then None else f x | o => o end
  | AInvalidateTree d => fun x => if in_tree x d then None else f x
  | AClear => fun _ => None
  | AConfigureNegative false _ => fun x => match f x with Some (None, _) => None | o => o end
  | _ => f
  end.
Fixpoint ls_run c (f : lsmap) (h : list (N * attr_op A)) : attr_cache A * lsmap :=
  match h with [] => (c, f) | to :: r => ls_run (attr_step c to) (ls_step c f to) r end.

Definition LsOk c (f : lsmap) : Prop :=
  forall k e, lookup k (l_map (ac_lru c)) = Some e -> f k = Some (ce_val e, ce_exp e).

Lemma lsok_sub c (l : lru (option A)) f : LsOk c f -> Sub l (ac_lru c) -> LsOk (with_lru c l) f.
Proof. intros H HS k e Hk. apply H, HS, Hk. Qed.

Lemma ls_step_ok c f to : AInv c -> LsOk c f -> LsOk (attr_step c to) (ls_step c f to).
Proof.
  intros [I B HN] H. destruct to as [now op]. unfold attr_step, attr_step_res, ls_step. cbn [fst snd].
  destruct op as [k a|k|k|k|d|d|n|t| |on t]; cbn [fst snd].
  - unfold attr_put. intros x e. cbn [ac_lru with_lru]. rewrite store_lookup by assumption. unfold ls_upd.
    destruct (path_eqb x k); [intros [= <-]; reflexivity|]. intros Hx. apply H, (sub_pre_store k _ I), Hx.
  - unfold attr_put_negative. destruct (ac_negon c); [|exact H].
    intros x e. cbn [ac_lru with_lru]. rewrite store_lookup by assumption. unfold ls_upd.
    destruct (path_eqb x k); [intros [= <-]; reflexivity|]. intros Hx. apply H, (sub_pre_store k _ I), Hx.
  - unfold attr_get. destruct (lookup k (l_map (ac_lru c))) as [e0|] eqn:Hl; [|exact H].
    destruct (Z.of_N now <? ce_exp e0)%Z; cbn [fst].
    + apply lsok_sub; [exact H | apply sub_ual; exact I].
    + destruct (ce_exp e0 <? Z.of_N now)%Z; cbn [fst]; [apply lsok_sub; [exact H | apply sub_delete_entry] | exact H].
  - unfold attr_invalidate. intros x e. cbn [ac_lru with_lru]. rewrite delete_entry_map. unfold ls_upd.
    destruct (path_eqb x k); [discriminate | apply H].
  - unfold attr_invalidate_negative_in_dir. intros x e. cbn [ac_lru with_lru].
    destruct (delete_where_char (fun p e => is_neg e && is_child_of p d) _ I) as (_ & _ & Hm & _). rewrite Hm.
    destruct (lookup x (l_map (ac_lru c))) as [e'|] eqn:Hx; [|discriminate].
    destruct (is_neg e' && is_child_of x d) eqn:Ep; [discriminate|]. intros [= <-].
    rewrite (H _ _ Hx). unfold is_neg in Ep. destruct (ce_val e'); [reflexivity|]. cbn in Ep. rewrite Ep. reflexivity.
  - unfold attr_invalidate_tree. intros x e. cbn [ac_lru with_lru].
    destruct (delete_where_char (fun p (_ : centry (option A)) => in_tree p d) _ I) as (_ & _ & Hm & _). rewrite Hm.
    destruct (lookup x (l_map (ac_lru c))) as [e'|] eqn:Hx; [|discriminate].
    destruct (in_tree x d); [discriminate|]. intros [= <-]. apply H, Hx.
  - unfold attr_resize. apply lsok_sub; [exact H | apply sub_resize; [exact I | exact B | apply default_size_pos; lia]].
  - exact H.
  - intros x e. cbn. discriminate.
  - unfold attr_configure_negative. destruct on; [exact H|]. intros x e. cbn [ac_lru].
    destruct (delete_where_char (fun (_ : path) (e : centry (option A)) => is_neg e) _ I) as (_ & _ & Hm & _). rewrite Hm.
    destruct (lookup x (l_map (ac_lru c))) as [e'|] eqn:Hx; [|discriminate].
    destruct (is_neg e') eqn:Ep; [discriminate|]. intros [= <-].
    rewrite (H _ _ Hx). unfold is_neg in Ep. destruct (ce_val e'); [reflexivity | discriminate].
Qed.

Lemma ls_run_ok h : forall c f, AInv c -> LsOk c f ->
  fst (ls_run c f h) = fold_left attr_step h c /\ AInv (fst (ls_run c f h)) /\ LsOk (fst (ls_run c f h)) (snd (ls_run c f h)).
Proof.
  induction h as [|to h IH]; intros c f Hi H; [split; [reflexivity | split; assumption]|]. cbn [ls_run fold_left].
  apply IH; [apply attr_step_inv; exact Hi | apply ls_step_ok; assumption].
Qed.

(* every hit is the most recently stored, not since invalidated value of its key, before its expiry *)
Lemma C21_get_latest_lemma ttl mx (h : list (N * attr_op A)) now k :
  let r := ls_run (new_attr_cache ttl mx) (fun _ => None) h in
  let c := fst r in let last_store := snd r in
  c = fold_left attr_step h (new_attr_cache ttl mx) /\
  match snd (attr_get now k c) with
  | Hit a => exists exp, last_store k = Some (Some a, exp) /\ (Z.of_N now < exp)%Z
  | NegHit => exists exp, last_store k = Some (None, exp) /\ (Z.of_N now < exp)%Z
  | Miss => True
  end.
Proof.
  destruct (ls_run_ok h (new_attr_cache ttl mx) (fun _ => None) (ainv_new ttl mx)) as (H1 & _ & H3);
    [intros x e; cbn; discriminate|].
  split; [exact H1|]. unfold attr_get.
  destruct (lookup k (l_map (ac_lru (fst (ls_run (new_attr_cache ttl mx) (fun _ => None) h))))) as [e|] eqn:Hk; [|exact I].
  specialize (H3 k e Hk). destruct (Z.of_N now <? ce_exp e)%Z eqn:Hlt; cbn [snd].
  - apply Z.ltb_lt in Hlt. destruct (ce_val e); exists (ce_exp e); split; assumption.
  - destruct (ce_exp e <? Z.of_N now)%Z; exact I.
Qed.
End AttrLatest.

Section DirLatest.
Context {E : Type}.
Implicit Types (c : dir_cache E).
Definition dlsmap := path -> option (list E * Z).
Definition dls_step c (f : dlsmap) (to : N * dir_op E) : dlsmap :=
  let now := Z.of_N (fst to) in
  match snd to with
  | DPut k es => if dc_max_dir c <? N.of_nat (length es) then f       (* refused: not stored *)
                 else fun x => if path_eqb x k then Some (es, (now + dc_timeout c)%Z) else f x
  | DInvalidate k => fun x => if path_eqb x k then None else f x
  | DInvalidateTree d => fun x => if in_tree x d then None else f x
  | DClear => fun _ => None
  | _ => f
  end.
Fixpoint dls_run c (f : dlsmap) (h : list (N * dir_op E)) : dir_cache E * dlsmap :=
  match h with [] => (c, f) | to :: r => dls_run (dir_step c to) (dls_step c f to) r end.
Definition DLsOk c (f : dlsmap) : Prop :=
  forall k e, lookup k (l_map (dc_lru c)) = Some e -> f k = Some (ce_val e, ce_exp e).

Lemma dls_step_ok c f to : DInv c -> DLsOk c f -> DLsOk (dir_step c to) (dls_step c f to).
Proof.
  intros [I B] H. destruct to as [now op]. unfold dir_step, dir_step_res, dls_step. cbn [fst snd].
  destruct op as [k es|k|k|d|n|t| ]; cbn [fst snd].
  - unfold dir_put. destruct (dc_max_dir c <? N.of_nat (length es)); [exact H|].
    intros x e. cbn [dc_lru with_dlru]. rewrite store_lookup by assumption.
    destruct (path_eqb x k); [intros [= <-]; reflexivity|]. intros Hx. apply H, (sub_pre_store k _ I), Hx.
  - unfold dir_get. destruct (lookup k (l_map (dc_lru c))) as [e0|] eqn:Hl; [|exact H].
    destruct (ce_exp e0 <? Z.of_N now)%Z; cbn [fst]; intros x e Hx; apply H.
    + apply (sub_delete_entry k _ x e Hx).
    + apply (sub_ual k _ I x e Hx).
  - unfold dir_invalidate. intros x e. cbn [dc_lru with_dlru]. rewrite delete_entry_map.
    destruct (path_eqb x k); [discriminate | apply H].
  - unfold dir_invalidate_tree. intros x e. cbn [dc_lru with_dlru].
    destruct (delete_where_char (fun p (_ : centry (list E)) => in_tree p d) _ I) as (_ & _ & Hm & _). rewrite Hm.
    destruct (lookup x (l_map (dc_lru c))) as [e'|] eqn:Hx; [|discriminate].
    destruct (in_tree x d); [discriminate|]. intros [= <-]. apply H, Hx.
  - unfold dir_resize. intros x e Hx. apply H.
    apply (sub_resize _ _ I B (default_size_pos n 1000 ltac:(lia)) x e Hx).
  - exact H.
  - intros x e. cbn. discriminate.
Qed.

Lemma dls_run_ok h : forall c f, DInv c -> DLsOk c f ->
  fst (dls_run c f h) = fold_left dir_step h c /\ DLsOk (fst (dls_run c f h)) (snd (dls_run c f h)).
Proof.
  induction h as [|to h IH]; intros c f Hi H; [split; [reflexivity | exact H]|]. cbn [dls_run fold_left].
  apply IH; [apply dir_step_inv; exact Hi | apply dls_step_ok; assumption].
Qed.

Lemma C21_dir_get_latest_lemma t me md (h : list (N * dir_op E)) now k :
  let r := dls_run (new_dir_cache t me md) (fun _ => None) h in
  let c := fst r in let last_store := snd r in
  c = fold_left dir_step h (new_dir_cache t me md) /\
  match snd (dir_get now k c) with
  | Some es => exists exp, last_store k = Some (es, exp) /\ (Z.of_N now <= exp)%Z
  | None => True
  end.
Proof.
  destruct (dls_run_ok h (new_dir_cache t me md) (fun _ => None) (dinv_new t me md)) as (H1 & H3);
    [intros x e; cbn; discriminate|].
  split; [exact H1|]. unfold dir_get.
  destruct (lookup k (l_map (dc_lru (fst (dls_run (new_dir_cache t me md) (fun _ => None) h))))) as [e|] eqn:Hk; [|exact I].
  specialize (H3 k e Hk). destruct (ce_exp e <? Z.of_N now)%Z eqn:Hlt; cbn [snd]; [exact I|].
  apply Z.ltb_ge in Hlt. exists (ce_exp e). split; assumption.
Qed.
End DirLatest.
