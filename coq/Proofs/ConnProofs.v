(* Proofs/ConnProofs.v — invariants of Model/ConnLTS.v over arbitrary traces, and the lemmas behind C17. *)
From Coq Require Import List NArith ZArith Bool Lia ZifyBool ZifyN ZifyNat.
From Verif Require Import Model.ConnLTS.
Import ListNotations.
Open Scope N_scope.

Lemma fset_eq {A} (m : fmap A) k v : fset m k v k = Some v.
Proof. unfold fset. rewrite N.eqb_refl. reflexivity. Qed.
Lemma fset_neq {A} (m : fmap A) k v x : x <> k -> fset m k v x = m x.
Proof. intros H. unfold fset. destruct (N.eqb_spec x k); [contradiction|reflexivity]. Qed.
Lemma fset_cases {A} (m : fmap A) k v x y :
  fset m k v x = Some y -> (x = k /\ y = v) \/ (x <> k /\ m x = Some y).
Proof. unfold fset. destruct (N.eqb_spec x k); intros H; [left|right]; split; congruence. Qed.
Lemma mem_In x l : mem x l = true <-> In x l.
Proof.
  unfold mem. rewrite existsb_exists. split.
  - intros [y [Hy E]]. apply N.eqb_eq in E. subst. exact Hy.
  - intros H. exists x. split; [exact H|apply N.eqb_refl].
Qed.
Lemma mem_false x l : mem x l = false <-> ~ In x l.
Proof. rewrite <- mem_In. destruct (mem x l); split; congruence. Qed.
Lemma remove_c_In r x l : In x (remove_c r l) <-> In x l /\ x <> r.
Proof.
  unfold remove_c. rewrite filter_In. split; intros [H1 H2]; split; auto.
  - intros ->. rewrite N.eqb_refl in H2. discriminate.
  - destruct (N.eqb_spec x r); [contradiction|reflexivity].
Qed.
Lemma remove_c_NoDup r l : NoDup l -> NoDup (remove_c r l).
Proof. apply NoDup_filter. Qed.
Lemma remove_c_length r l : NoDup l -> In r l -> S (length (remove_c r l)) = length l.
Proof.
  induction l as [|a l IH]; intros ND Hin; [destruct Hin|].
  inversion ND as [|? ? Hn ND']; subst. cbn. destruct (N.eqb_spec a r) as [->|Hne]; cbn.
  - f_equal. unfold remove_c. clear IH ND Hin ND'. induction l as [|b l IH]; cbn; [reflexivity|].
    destruct (N.eqb_spec b r) as [->|Hb]; cbn; [exfalso; apply Hn; left; reflexivity|].
    f_equal. apply IH. intros H. apply Hn. right. exact H.
  - f_equal. apply IH; [exact ND'|]. destruct Hin; [congruence|assumption].
Qed.

Definition acc_holds (a : apc) (c : N) : Prop := a = AHave c \/ a = AFiltered c \/ a = ARegistered c.
Definition b2n (b : bool) : N := if b then 1 else 0.

Definition conn_ok (s : state) (c : N) (k : conn) : Prop :=
  k_cnt k <= 1 /\ k_uncnt k <= k_cnt k /\
  (In c (active s) <-> (k_cnt k = 1 /\ k_uncnt k = 0)) /\
  (k_once k = ODone -> k_uncnt k = 1) /\
  k_last k <= now s /\
  (In c (live s) <-> k_live k = true) /\
  match k_pc k with
  | KPre => acc_holds (acc s) c /\ (k_cnt k = 1 <-> acc s = ARegistered c)
  | KRejected => k_cnt k = 0
  | KServing | KUnreg _ => k_cnt k = 1
  | KFin | KDone => k_cnt k = 1 /\ k_uncnt k = 1
  end.

Definition registered_once (s : state) (c : N) : Prop := exists k, conns s c = Some k /\ k_cnt k = 1.

Definition reaper_ok (s : state) : Prop :=
  match reaper s with
  | RWork T todo u =>
      T <= now s /\ (forall c, In c todo -> registered_once s c) /\
      (forall c k, In c (active s) -> conns s c = Some k -> T <= k_last k + idle s \/ In c todo)
  | _ => True
  end.

Definition stop_ok (s : state) (p : spc) : Prop :=
  match p with
  | SWork sn todo u =>
      (forall c, In c sn -> registered_once s c) /\ incl todo sn /\
      (forall c, In c sn -> In c todo \/ ~ In c (active s))
  | SWaiting sn | SRetTimeout sn => forall c, In c sn -> registered_once s c /\ ~ In c (active s)
  | SRetOk sn => (forall c, In c sn -> registered_once s c /\ ~ In c (active s)) /\ wg s = 0
  | _ => True
  end.

Record Inv (s : state) : Prop := {
  c_nodup : NoDup (active s);
  c_count : count s = Z.of_nat (length (active s));
  c_max : (0 < maxc s)%Z -> (count s <= maxc s)%Z;
  c_conn : forall c k, conns s c = Some k -> conn_ok s c k;
  c_active_ex : forall c, In c (active s) -> exists k, conns s c = Some k;
  c_live_ex : forall c, In c (live s) -> exists k, conns s c = Some k;
  c_live_nodup : NoDup (live s);
  c_wg : wg s = b2n (acc_live s) + b2n (reaper_live s) + N.of_nat (length (live s));
  c_acc : forall c, acc_holds (acc s) c -> exists k, conns s c = Some k /\ k_pc k = KPre;
  c_reaper : reaper_ok s;
  c_tick : tickT s <= now s /\ forall c k, In c (active s) -> conns s c = Some k -> tickT s <= k_last k + idle s;
  c_stops : forall j p, stops s j = Some p -> stop_ok s p }.

Lemma inv_init mx idl : Inv (init mx idl).
Proof.
  unfold init. destruct (idl =? 0) eqn:Z0; constructor; cbn; unfold reaper_ok; cbn;
    try (intros; discriminate); try (intros; contradiction); try constructor; try lia; auto.
  all: try (intros c [H|[H|H]]; discriminate).
  all: try (intros; contradiction).
Qed.

Ltac step_inv H :=
  repeat match type of H with
  | match ?x with _ => _ end = Some _ => let E := fresh "E" in destruct x eqn:E; try discriminate H
  | (if ?x then _ else _) = Some _ => let E := fresh "E" in destruct x eqn:E; try discriminate H
  end;
  try (injection H as H); try subst.
Ltac proj := cbn [maxc idle now conns active count acc reaper stops cancelled lclosed wg live tickT
                  set_conn set_active set_acc set_reaper set_stop set_flags set_wg set_now set_tickT].
Ltac proj_in H := cbn [maxc idle now conns active count acc reaper stops cancelled lclosed wg live tickT
                  set_conn set_active set_acc set_reaper set_stop set_flags set_wg set_now set_tickT] in H.

(* ---------- frame lemmas ---------- *)
Lemma inv_set_flags s a b : Inv s -> Inv (set_flags s a b).
Proof. intros I. destruct I as [I1 I2 I3 I4 I5 I6 I7 I8 I9 I10 I11 I12]. constructor; assumption. Qed.

Lemma inv_set_stop s j p : Inv s -> stop_ok s p -> Inv (set_stop s j p).
Proof.
  intros I Hp. destruct I as [c_nodup0 c_count0 c_max0 c_conn0 c_active_ex0 c_live_ex0 c_live_nodup0 c_wg0 c_acc0 c_reaper0 c_tick0 c_stops0]. constructor; try assumption.
  intros j' p' E. proj_in E. apply fset_cases in E. destruct E as [[-> ->]|[_ E]]; [exact Hp|exact (c_stops0 _ _ E)].
Qed.

Lemma inv_set_reaper s r : Inv s -> reaper_live (set_reaper s r) = reaper_live s -> reaper_ok (set_reaper s r) ->
  Inv (set_reaper s r).
Proof.
  intros I L Hr. destruct I as [c_nodup0 c_count0 c_max0 c_conn0 c_active_ex0 c_live_ex0 c_live_nodup0 c_wg0 c_acc0 c_reaper0 c_tick0 c_stops0]. constructor; try assumption.
  proj. rewrite L. exact c_wg0.
Qed.

(* replacing a connection record by one that differs only in k_once / k_closed *)
Lemma inv_set_conn_frame s c k k' : Inv s -> conns s c = Some k ->
  k_cnt k' = k_cnt k -> k_uncnt k' = k_uncnt k -> k_last k' = k_last k ->
  k_live k' = k_live k -> (k_pc k = KPre -> k_pc k' = KPre) ->
  match k_pc k' with
  | KPre => acc_holds (acc s) c /\ (k_cnt k' = 1 <-> acc s = ARegistered c)
  | KRejected => k_cnt k' = 0
  | KServing | KUnreg _ => k_cnt k' = 1
  | KFin | KDone => k_cnt k' = 1 /\ k_uncnt k' = 1
  end ->
  (k_once k' = ODone -> k_uncnt k' = 1) ->
  Inv (set_conn s c k').
Proof.
  intros I E Hc Hu Hl Hlv Hpre Hcl Ho.
  assert (RO : forall x, registered_once s x -> registered_once (set_conn s c k') x).
  { intros x (kx & Ex & Cx). unfold registered_once. proj. destruct (N.eq_dec x c) as [->|Hne].
    - rewrite fset_eq. exists k'. split; [reflexivity|]. congruence.
    - rewrite fset_neq by exact Hne. eauto. }
  assert (LK : forall x kx, fset (conns s) c k' x = Some kx ->
               exists k0, conns s x = Some k0 /\ k_cnt kx = k_cnt k0 /\ k_uncnt kx = k_uncnt k0 /\
                          k_last kx = k_last k0 /\ (x <> c -> kx = k0)).
  { intros x kx Ex. apply fset_cases in Ex. destruct Ex as [[-> ->]|[Hne Ex]].
    - exists k. repeat split; auto. intros; congruence.
    - exists kx. repeat split; auto. }
  destruct I as [c_nodup0 c_count0 c_max0 c_conn0 c_active_ex0 c_live_ex0 c_live_nodup0 c_wg0 c_acc0 c_reaper0 c_tick0 c_stops0].
  constructor; proj; try assumption.
  - intros x kx Ex. apply fset_cases in Ex. destruct Ex as [[-> ->]|[Hne Ex]].
    + pose proof (c_conn0 _ _ E) as (B1 & B2 & B3 & B4 & B5 & B6 & B7).
      unfold conn_ok. proj. rewrite Hc, Hu, Hl, Hlv. repeat split; auto; try tauto.
      * intros Hd. rewrite <- Hu. auto.
      * rewrite <- Hc, <- Hu. exact Hcl.
    + exact (c_conn0 _ _ Ex).
  - intros x Hx. destruct (N.eq_dec x c) as [->|Hne]; [rewrite fset_eq; eauto|rewrite fset_neq by exact Hne; auto].
  - intros x Hx. destruct (N.eq_dec x c) as [->|Hne]; [rewrite fset_eq; eauto|rewrite fset_neq by exact Hne; auto].
  - intros x Hx. destruct (c_acc0 _ Hx) as (kx & Ex & Px). destruct (N.eq_dec x c) as [->|Hne].
    + rewrite fset_eq. exists k'. split; [reflexivity|]. apply Hpre. congruence.
    + rewrite fset_neq by exact Hne. eauto.
  - unfold reaper_ok in *. proj. destruct (reaper s); auto. destruct c_reaper0 as (R1 & R2 & R3).
    repeat split; auto. intros x kx Hx Ex. destruct (LK _ _ Ex) as (k0 & E0 & A1 & A2 & A3 & A5).
    rewrite A3. eauto.
  - destruct c_tick0 as [T1 T2]. split; [exact T1|]. intros x kx Hx Ex.
    destruct (LK _ _ Ex) as (k0 & E0 & A1 & A2 & A3 & A5). rewrite A3. eauto.
  - intros j p Ej. pose proof (c_stops0 _ _ Ej) as Hs. unfold stop_ok in *.
    destruct p; auto.
    + destruct Hs as (S1 & S2 & S3). repeat split; auto.
    + intros x Hx. destruct (Hs x Hx). split; auto.
    + destruct Hs as [Hs W]. split; [|exact W]. intros x Hx. destruct (Hs x Hx). split; auto.
    + intros x Hx. destruct (Hs x Hx). split; auto.
Qed.

Lemma inv_uncount s c k : Inv s -> conns s c = Some k -> In c (active s) ->
  Inv (set_active (set_conn s c (k_with_once (k_uncounted k) ODone)) (remove_c c (active s)) (count s - 1)%Z).
Proof.
  intros I E Hin.
  pose proof (c_conn _ I _ _ E) as (B1 & B2 & B3 & B4 & B5 & B6 & B7).
  assert (Cn : k_cnt k = 1 /\ k_uncnt k = 0) by (apply B3; exact Hin). destruct Cn as [Cn Un].
  set (k' := k_with_once (k_uncounted k) ODone).
  assert (RO : forall x, registered_once s x -> registered_once (set_active (set_conn s c k') (remove_c c (active s)) (count s - 1)%Z) x).
  { intros x (kx & Ex & Cx). unfold registered_once. proj. destruct (N.eq_dec x c) as [->|Hne].
    - rewrite fset_eq. exists k'. split; [reflexivity|]. cbn. congruence.
    - rewrite fset_neq by exact Hne. eauto. }
  assert (LK : forall x kx, fset (conns s) c k' x = Some kx ->
               (x = c /\ kx = k') \/ (x <> c /\ conns s x = Some kx)) by (intros; apply fset_cases; assumption).
  destruct I as [c_nodup0 c_count0 c_max0 c_conn0 c_active_ex0 c_live_ex0 c_live_nodup0 c_wg0 c_acc0 c_reaper0 c_tick0 c_stops0].
  constructor; proj.
  - apply remove_c_NoDup. exact c_nodup0.
  - pose proof (remove_c_length c (active s) c_nodup0 Hin). lia.
  - intros Hm. specialize (c_max0 Hm). lia.
  - intros x kx Ex. destruct (LK _ _ Ex) as [[-> ->]|[Hne Ex']].
    + unfold conn_ok, k_live in *. proj. subst k'. cbn [k_cnt k_uncnt k_once k_last k_pc k_with_once k_uncounted].
      repeat split; auto; try lia.
      all: try (exfalso; match goal with H : In _ (remove_c _ _) |- _ => apply remove_c_In in H; tauto end).
      all: try (intros Hx; apply remove_c_In in Hx; tauto).
      all: try (intros [_ Hx]; lia).
      all: try apply B6.
      all: destruct (k_pc k); auto; try (destruct B7; lia).
    + pose proof (c_conn0 _ _ Ex') as (D1 & D2 & D3 & D4 & D5 & D6 & D7).
      unfold conn_ok. proj. repeat split; auto; try tauto.
      all: try (match goal with H : In _ (remove_c _ _) |- _ => apply remove_c_In in H; tauto end).
      all: try (apply remove_c_In; split; [tauto|exact Hne]).
      all: try (intros Hx; apply remove_c_In in Hx; tauto).
      all: try (intros Hx; apply remove_c_In; split; [tauto|exact Hne]).
  - intros x Hx. apply remove_c_In in Hx. destruct Hx as [Hx Hne]. rewrite fset_neq by exact Hne. auto.
  - intros x Hx. destruct (N.eq_dec x c) as [->|Hne]; [rewrite fset_eq; eauto|rewrite fset_neq by exact Hne; auto].
  - exact c_live_nodup0.
  - exact c_wg0.
  - intros x Hx. destruct (c_acc0 _ Hx) as (kx & Ex & Px). destruct (N.eq_dec x c) as [->|Hne].
    + rewrite fset_eq. exists k'. split; [reflexivity|]. cbn. congruence.
    + rewrite fset_neq by exact Hne. eauto.
  - unfold reaper_ok in *. proj. destruct (reaper s); auto. destruct c_reaper0 as (R1 & R2 & R3).
    repeat split; auto. intros x kx Hx Ex. apply remove_c_In in Hx. destruct Hx as [Hx Hne].
    rewrite fset_neq in Ex by exact Hne. eauto.
  - destruct c_tick0 as [T1 T2]. split; [exact T1|]. intros x kx Hx Ex.
    apply remove_c_In in Hx. destruct Hx as [Hx Hne]. rewrite fset_neq in Ex by exact Hne. eauto.
  - intros j p Ej. pose proof (c_stops0 _ _ Ej) as Hs. unfold stop_ok in *. proj.
    assert (NI : forall x, ~ In x (active s) -> ~ In x (remove_c c (active s)))
      by (intros x Hx Hy; apply remove_c_In in Hy; tauto).
    destruct p; auto.
    + destruct Hs as (S1 & S2 & S3). repeat split; auto. intros x Hx. destruct (S3 x Hx); auto.
    + intros x Hx. destruct (Hs x Hx). split; auto.
    + destruct Hs as [Hs W]. split; [|exact W]. intros x Hx. destruct (Hs x Hx). split; auto.
    + intros x Hx. destruct (Hs x Hx). split; auto.
Qed.

Lemma pc_clause_same s c k k' : conns s c = Some k -> Inv s -> k_pc k' = k_pc k -> k_cnt k' = k_cnt k -> k_uncnt k' = k_uncnt k ->
  match k_pc k' with
  | KPre => acc_holds (acc s) c /\ (k_cnt k' = 1 <-> acc s = ARegistered c)
  | KRejected => k_cnt k' = 0
  | KServing | KUnreg _ => k_cnt k' = 1
  | KFin | KDone => k_cnt k' = 1 /\ k_uncnt k' = 1
  end.
Proof.
  intros E I Hp Hc Hu. pose proof (c_conn _ I _ _ E) as (_ & _ & _ & _ & _ & _ & B7).
  rewrite Hp, Hc, Hu. exact B7.
Qed.

Lemma not_active_uncounted s c k : Inv s -> conns s c = Some k -> k_cnt k = 1 -> ~ In c (active s) -> k_uncnt k = 1.
Proof.
  intros I E C N. pose proof (c_conn _ I _ _ E) as (B1 & B2 & B3 & _).
  destruct (N.eq_dec (k_uncnt k) 0) as [Z|Z]; [exfalso; apply N; apply B3; auto|lia].
Qed.

(* one sub-step of unregisterConnection keeps the invariant (thread program counters untouched) *)
Lemma unreg_inv s c u s1 nu : Inv s -> registered_once s c -> unreg_step s c u = Some (s1, nu) ->
  Inv s1 /\ (nu = None -> ~ In c (active s1)) /\ reaper s1 = reaper s /\ stops s1 = stops s /\
  (forall x kx, conns s x = Some kx -> exists kx', conns s1 x = Some kx' /\ k_pc kx' = k_pc kx) /\
  (forall x, registered_once s x -> registered_once s1 x).
Proof.
  intros I (k & E & C) H. unfold unreg_step in H. rewrite E in H.
  assert (Same : forall x kx, conns s x = Some kx -> exists kx', conns s x = Some kx' /\ k_pc kx' = k_pc kx) by eauto.
  assert (SetSame : forall k', k_pc k' = k_pc k -> forall x kx, conns s x = Some kx ->
            exists kx', fset (conns s) c k' x = Some kx' /\ k_pc kx' = k_pc kx).
  { intros k' Hp x kx Ex. destruct (N.eq_dec x c) as [->|Hne].
    - rewrite fset_eq. exists k'. split; [reflexivity|]. congruence.
    - rewrite fset_neq by exact Hne. eauto. }
  assert (SetRO : forall k', k_cnt k' = 1 -> forall x, registered_once s x ->
            exists kx, fset (conns s) c k' x = Some kx /\ k_cnt kx = 1).
  { intros k' Hc x (kx & Ex & Cx). destruct (N.eq_dec x c) as [->|Hne].
    - rewrite fset_eq. eauto.
    - rewrite fset_neq by exact Hne. eauto. }
  destruct u.
  - (* U1 *) injection H as <- <-. refine (conj I (conj _ (conj eq_refl (conj eq_refl (conj Same _))))); [|auto].
    intros Hn. destruct (mem c (active s)) eqn:M; [discriminate|]. apply mem_false. exact M.
  - (* U2 *) destruct (k_once k) eqn:O; try discriminate; injection H as <- <-.
    + refine (conj _ (conj _ (conj eq_refl (conj eq_refl (conj _ _))))); proj.
      * apply (inv_set_conn_frame s c k); auto; try reflexivity.
        -- apply (pc_clause_same s c k); auto.
        -- cbn. discriminate.
      * discriminate.
      * apply SetSame. reflexivity.
      * intros x Hx. unfold registered_once; proj. eapply SetRO; [|exact Hx]. exact C.
    + refine (conj I (conj _ (conj eq_refl (conj eq_refl (conj Same _))))); [|auto]. intros _.
      pose proof (c_conn _ I _ _ E) as (B1 & B2 & B3 & B4 & _). specialize (B4 O). intros Hin. apply B3 in Hin. lia.
  - (* U3 *) destruct (mem c (active s)) eqn:M; injection H as <- <-.
    + apply mem_In in M. refine (conj _ (conj _ (conj eq_refl (conj eq_refl (conj _ _))))); proj.
      * apply inv_uncount; auto.
      * intros _ Hin. apply remove_c_In in Hin. tauto.
      * apply SetSame. reflexivity.
      * intros x Hx. unfold registered_once; proj. eapply SetRO; [|exact Hx]. exact C.
    + apply mem_false in M. refine (conj _ (conj _ (conj eq_refl (conj eq_refl (conj _ _))))); proj.
      * apply (inv_set_conn_frame s c k); auto; try reflexivity.
        -- apply (pc_clause_same s c k); auto.
        -- intros _. cbn. apply (not_active_uncounted s c k); auto.
      * intros _. exact M.
      * apply SetSame. reflexivity.
      * intros x Hx. unfold registered_once; proj. eapply SetRO; [|exact Hx]. exact C.
Qed.

Ltac dI I := destruct I as [c_nodup0 c_count0 c_max0 c_conn0 c_active_ex0 c_live_ex0 c_live_nodup0 c_wg0 c_acc0 c_reaper0 c_tick0 c_stops0].

Lemma inv_advance s d : Inv s -> Inv (set_now s (now s + d)).
Proof.
  intros I. dI I. constructor; proj; try assumption.
  - intros c k E. pose proof (c_conn0 _ _ E) as (B1 & B2 & B3 & B4 & B5 & B6 & B7).
    unfold conn_ok. proj. repeat split; auto; try tauto; try lia.
  - unfold reaper_ok in *. proj. destruct (reaper s); auto. destruct c_reaper0 as (R1 & R2 & R3).
    split; [lia|]. split; auto.
  - destruct c_tick0. split; [lia|auto].
Qed.

(* Accept: a fresh connection enters the accept loop's hands *)
Lemma inv_accept s c ok : Inv s -> acc s = ALoop -> conns s c = None ->
  Inv (set_acc (set_conn s c (new_conn ok)) (AHave c)).
Proof.
  intros I A E.
  assert (NA : ~ In c (active s)) by (intros H; destruct (c_active_ex _ I _ H); congruence).
  assert (NL : ~ In c (live s)) by (intros H; destruct (c_live_ex _ I _ H); congruence).
  assert (Old : forall x kx, fset (conns s) c (new_conn ok) x = Some kx -> (x = c /\ kx = new_conn ok) \/ (x <> c /\ conns s x = Some kx))
    by (intros; apply fset_cases; assumption).
  assert (RO : forall x, registered_once s x -> registered_once (set_acc (set_conn s c (new_conn ok)) (AHave c)) x).
  { intros x (kx & Ex & Cx). exists kx. proj. rewrite fset_neq; [auto|]. intros ->. congruence. }
  dI I. constructor; proj; try assumption.
  - intros x kx Ex. destruct (Old _ _ Ex) as [[-> ->]|[Hne Ex']].
    + unfold conn_ok, acc_holds. proj. cbn. repeat split; auto; try lia; try tauto; try discriminate.
    + pose proof (c_conn0 _ _ Ex') as (B1 & B2 & B3 & B4 & B5 & B6 & B7).
      unfold conn_ok. proj. repeat split; auto; try tauto.
      destruct (k_pc kx); auto. destruct B7 as [[H|[H|H]] _]; rewrite A in H; discriminate.
  - intros x Hx. rewrite fset_neq; [auto|]. intros ->. contradiction.
  - intros x Hx. rewrite fset_neq; [auto|]. intros ->. contradiction.
  - unfold acc_live in *. proj. rewrite A in c_wg0. exact c_wg0.
  - intros x [H|[H|H]]; try discriminate. injection H as <-. rewrite fset_eq. eauto.
  - unfold reaper_ok in *. proj. destruct (reaper s); auto. destruct c_reaper0 as (R1 & R2 & R3).
    repeat split; auto. intros x kx Hx Ex. rewrite fset_neq in Ex; [eauto|]. intros ->. contradiction.
  - destruct c_tick0 as [T1 T2]. split; auto. intros x kx Hx Ex. rewrite fset_neq in Ex; [eauto|]. intros ->. contradiction.
  - intros j p Ej. pose proof (c_stops0 _ _ Ej) as Hs. unfold stop_ok in *. destruct p; auto.
    + destruct Hs as (S1 & S2 & S3). repeat split; auto.
    + intros x Hx. destruct (Hs x Hx). split; auto.
    + destruct Hs as [Hs W]. split; [|exact W]. intros x Hx. destruct (Hs x Hx). split; auto.
    + intros x Hx. destruct (Hs x Hx). split; auto.
Qed.

(* ---------- monotonicity of the thread-local parts ---------- *)
Lemma stop_ok_mono s s' p : stop_ok s p ->
  (forall x, registered_once s x -> registered_once s' x) ->
  (forall x, registered_once s x -> ~ In x (active s) -> ~ In x (active s')) ->
  (wg s = 0 -> wg s' = 0) -> stop_ok s' p.
Proof.
  intros Hs RO NA W. unfold stop_ok in *. destruct p; auto.
  - destruct Hs as (S1 & S2 & S3). repeat split; auto. intros x Hx. destruct (S3 x Hx); auto.
  - intros x Hx. destruct (Hs x Hx). split; auto.
  - destruct Hs as [Hs W0]. split; [|auto]. intros x Hx. destruct (Hs x Hx). split; auto.
  - intros x Hx. destruct (Hs x Hx). split; auto.
Qed.

Definition last_mono (s s' : state) : Prop :=
  forall x k', In x (active s') -> conns s' x = Some k' ->
    (exists k, In x (active s) /\ conns s x = Some k /\ k_last k <= k_last k') \/ now s <= k_last k'.

Lemma reaper_ok_mono s s' : reaper_ok s -> reaper s' = reaper s -> now s <= now s' -> idle s' = idle s ->
  (forall x, registered_once s x -> registered_once s' x) -> last_mono s s' -> reaper_ok s'.
Proof.
  intros Hr Er Hn Hi RO LM. unfold reaper_ok in *. rewrite Er. destruct (reaper s); auto.
  destruct Hr as (R1 & R2 & R3). repeat split; auto; [lia|].
  intros x k' Hx Ex. destruct (LM x k' Hx Ex) as [(k & Hk & Ek & Lk)|Hl].
  - destruct (R3 x k Hk Ek); [left; rewrite Hi; lia|right; assumption].
  - left. lia.
Qed.

Lemma tick_mono s s' :
  (tickT s <= now s /\ forall c k, In c (active s) -> conns s c = Some k -> tickT s <= k_last k + idle s) ->
  tickT s' = tickT s -> now s <= now s' -> idle s' = idle s -> last_mono s s' ->
  (tickT s' <= now s' /\ forall c k, In c (active s') -> conns s' c = Some k -> tickT s' <= k_last k + idle s').
Proof.
  intros [T1 T2] Et Hn Hi LM. rewrite Et, Hi. split; [lia|].
  intros x k' Hx Ex. destruct (LM x k' Hx Ex) as [(k & Hk & Ek & Lk)|Hl].
  - specialize (T2 x k Hk Ek). lia.
  - lia.
Qed.

Lemma last_mono_refl_conns s s' : active s' = active s -> conns s' = conns s -> last_mono s s'.
Proof.
  intros Ea Ec x k' Hx Ex. left. rewrite Ea in Hx. rewrite Ec in Ex. exists k'. repeat split; auto. lia.
Qed.

(* generic: a step that changes acc / wg / live and one connection's pc (not cnt, uncnt, last, once), given the new conn_ok facts *)
Lemma inv_rebuild s s' :
  Inv s ->
  active s' = active s -> count s' = count s -> maxc s' = maxc s -> idle s' = idle s -> now s' = now s ->
  reaper s' = reaper s -> stops s' = stops s -> tickT s' = tickT s ->
  (forall x k', conns s' x = Some k' -> exists k, conns s x = Some k /\ k_cnt k' = k_cnt k /\ k_last k' = k_last k) ->
  (forall x k, conns s x = Some k -> exists k', conns s' x = Some k' /\ k_cnt k' = k_cnt k) ->
  (forall x k', conns s' x = Some k' -> conn_ok s' x k') ->
  (forall x, In x (live s') -> exists k, conns s' x = Some k) ->
  NoDup (live s') ->
  wg s' = b2n (acc_live s') + b2n (reaper_live s') + N.of_nat (length (live s')) ->
  (forall x, acc_holds (acc s') x -> exists k, conns s' x = Some k /\ k_pc k = KPre) ->
  (wg s = 0 -> wg s' = 0) ->
  Inv s'.
Proof.
  intros I Ea Ec Em Ei En Er Es Et Back Fwd Hconn Hlive Hnd Hwg Hacc Hw0.
  assert (RO : forall x, registered_once s x -> registered_once s' x).
  { intros x (k & Ex & Cx). destruct (Fwd _ _ Ex) as (k' & E' & C'). exists k'. split; [auto|congruence]. }
  assert (LM : last_mono s s').
  { intros x k' Hx Ex. left. destruct (Back _ _ Ex) as (k & Ek & _ & Lk). exists k. rewrite Ea in Hx. repeat split; auto. lia. }
  dI I. constructor.
  - rewrite Ea. assumption.
  - rewrite Ea, Ec. assumption.
  - rewrite Em, Ec. assumption.
  - assumption.
  - intros x Hx. rewrite Ea in Hx. destruct (c_active_ex0 _ Hx) as (k & Ek). destruct (Fwd _ _ Ek) as (k' & E' & _). eauto.
  - assumption.
  - assumption.
  - assumption.
  - assumption.
  - apply (reaper_ok_mono s s'); auto. lia.
  - apply (tick_mono s s'); auto. lia.
  - intros j p Ej. rewrite Es in Ej. apply (stop_ok_mono s s' p (c_stops0 _ _ Ej) RO); [intros x _; rewrite Ea; auto|exact Hw0].
Qed.

Lemma acc_holds_inj a c x : a = AHave c \/ a = AFiltered c \/ a = ARegistered c -> acc_holds a x -> x = c.
Proof. unfold acc_holds. intros [->|[->| ->]] [H|[H|H]]; congruence. Qed.

Lemma inv_filter_ok s c k : Inv s -> acc s = AHave c -> conns s c = Some k -> Inv (set_acc s (AFiltered c)).
Proof.
  intros I A E. apply (inv_rebuild s); auto; proj; try (exact (c_live_nodup _ I)); try (exact (c_live_ex _ I)).
  - intros x k' Ex. eauto.
  - intros x k0 Ex. eauto.
  - intros x k' Ex. pose proof (c_conn _ I _ _ Ex) as (B1 & B2 & B3 & B4 & B5 & B6 & B7).
    unfold conn_ok. proj. repeat split; auto; try tauto.
    destruct (k_pc k') eqn:P; auto. destruct B7 as [B7 B8]. rewrite A in B7, B8.
    assert (x = c) by (eapply acc_holds_inj; [left; reflexivity|exact B7]). subst x.
    split; [right; left; reflexivity|]. split; [intros H; apply B8 in H; discriminate|discriminate].
  - pose proof (c_wg _ I) as W. unfold acc_live in *. proj. rewrite A in W. exact W.
  - intros x Hx. assert (x = c) by (eapply acc_holds_inj; [right; left; reflexivity|exact Hx]). subst x.
    apply (c_acc _ I). rewrite A. left. reflexivity.
Qed.

Lemma inv_filter_reject s c k : Inv s -> acc s = AHave c -> conns s c = Some k ->
  Inv (set_acc (set_conn s c (k_close (k_with_pc k KRejected))) ALoop).
Proof.
  intros I A E.
  pose proof (c_conn _ I _ _ E) as (B1 & B2 & B3 & B4 & B5 & B6 & B7).
  destruct (c_acc _ I c) as (k0 & E0 & P0); [rewrite A; left; reflexivity|].
  assert (k0 = k) by congruence. subst k0. rewrite P0 in B7. destruct B7 as [B7 B8]. rewrite A in B8.
  assert (C0 : k_cnt k = 0) by (destruct (N.eq_dec (k_cnt k) 1) as [H|H]; [apply B8 in H; discriminate|lia]).
  apply (inv_rebuild s); auto; proj; try (exact (c_live_nodup _ I)).
  - intros x k' Ex. apply fset_cases in Ex. destruct Ex as [[-> ->]|[Hne Ex]]; eauto.
  - intros x k1 Ex. destruct (N.eq_dec x c) as [->|Hne]; [rewrite fset_eq|rewrite fset_neq by exact Hne]; eauto.
    exists (k_close (k_with_pc k KRejected)). split; [reflexivity|]. cbn. congruence.
  - intros x k' Ex. apply fset_cases in Ex. destruct Ex as [[-> ->]|[Hne Ex]].
    + unfold conn_ok, k_live in *. proj. cbn. rewrite P0 in B6. repeat split; auto; try tauto.
    + pose proof (c_conn _ I _ _ Ex) as (D1 & D2 & D3 & D4 & D5 & D6 & D7).
      unfold conn_ok. proj. repeat split; auto; try tauto.
      destruct (k_pc k') eqn:P; auto. destruct D7 as [D7 D8]. rewrite A in D7.
      exfalso. apply Hne. eapply acc_holds_inj; [left; reflexivity|exact D7].
  - intros x Hx. destruct (c_live_ex _ I _ Hx). destruct (N.eq_dec x c) as [->|Hne]; [rewrite fset_eq|rewrite fset_neq by exact Hne]; eauto.
  - pose proof (c_wg _ I) as W. unfold acc_live in *. proj. rewrite A in W. exact W.
  - intros x [H|[H|H]]; discriminate.
Qed.

Lemma acc_pre_facts s c k : Inv s -> acc_holds (acc s) c -> conns s c = Some k ->
  k_pc k = KPre /\ (k_cnt k = 1 <-> acc s = ARegistered c) /\ ~ In c (live s).
Proof.
  intros I A E. destruct (c_acc _ I c A) as (k0 & E0 & P0). assert (k0 = k) by congruence. subst k0.
  pose proof (c_conn _ I _ _ E) as (B1 & B2 & B3 & B4 & B5 & B6 & B7). rewrite P0 in B7. destruct B7 as [_ B8].
  repeat split; auto; try apply B8. intros H. apply B6 in H. unfold k_live in H. rewrite P0 in H. discriminate.
Qed.

Lemma inv_register_reject s c k : Inv s -> acc s = AFiltered c -> conns s c = Some k ->
  Inv (set_acc (set_conn s c (k_close (k_with_pc k KRejected))) ALoop).
Proof.
  intros I A E.
  pose proof (c_conn _ I _ _ E) as (B1 & B2 & B3 & B4 & B5 & B6 & B7).
  destruct (acc_pre_facts s c k I) as (P0 & B8 & NL); [rewrite A; right; left; reflexivity|exact E|].
  rewrite A in B8.
  assert (C0 : k_cnt k = 0) by (destruct (N.eq_dec (k_cnt k) 1) as [H|H]; [apply B8 in H; discriminate|lia]).
  apply (inv_rebuild s); auto; proj; try (exact (c_live_nodup _ I)).
  - intros x k' Ex. apply fset_cases in Ex. destruct Ex as [[-> ->]|[Hne Ex]]; eauto.
  - intros x k1 Ex. destruct (N.eq_dec x c) as [->|Hne]; [rewrite fset_eq|rewrite fset_neq by exact Hne]; eauto.
    exists (k_close (k_with_pc k KRejected)). split; [reflexivity|]. cbn. congruence.
  - intros x k' Ex. apply fset_cases in Ex. destruct Ex as [[-> ->]|[Hne Ex]].
    + unfold conn_ok, k_live in *. proj. cbn. rewrite P0 in B6. repeat split; auto; try tauto.
    + pose proof (c_conn _ I _ _ Ex) as (D1 & D2 & D3 & D4 & D5 & D6 & D7).
      unfold conn_ok. proj. repeat split; auto; try tauto.
      destruct (k_pc k') eqn:P; auto. destruct D7 as [D7 D8]. rewrite A in D7.
      exfalso. apply Hne. eapply acc_holds_inj; [right; left; reflexivity|exact D7].
  - intros x Hx. destruct (c_live_ex _ I _ Hx). destruct (N.eq_dec x c) as [->|Hne]; [rewrite fset_eq|rewrite fset_neq by exact Hne]; eauto.
  - pose proof (c_wg _ I) as W. unfold acc_live in *. proj. rewrite A in W. exact W.
  - intros x [H|[H|H]]; discriminate.
Qed.

Lemma inv_register s c k : Inv s -> acc s = AFiltered c -> conns s c = Some k ->
  ((0 <? maxc s) && (maxc s <=? count s))%Z = false ->
  Inv (set_acc (set_active (set_conn s c (k_registered k (now s))) (c :: active s) (count s + 1)%Z) (ARegistered c)).
Proof.
  intros I A E Lim.
  pose proof (c_conn _ I _ _ E) as (B1 & B2 & B3 & B4 & B5 & B6 & B7).
  destruct (acc_pre_facts s c k I) as (P0 & B8 & NL); [rewrite A; right; left; reflexivity|exact E|].
  rewrite A in B8.
  assert (C0 : k_cnt k = 0) by (destruct (N.eq_dec (k_cnt k) 1) as [H|H]; [apply B8 in H; discriminate|lia]).
  assert (NA : ~ In c (active s)) by (intros H; apply B3 in H; lia).
  set (k' := k_registered k (now s)).
  set (s' := set_acc (set_active (set_conn s c k') (c :: active s) (count s + 1)%Z) (ARegistered c)).
  assert (RO : forall x, registered_once s x -> registered_once s' x).
  { intros x (kx & Ex & Cx). exists kx. unfold s'. proj. rewrite fset_neq; [auto|]. intros ->. assert (kx = k) by congruence. subst. lia. }
  assert (LM : last_mono s s').
  { intros x kx Hx Ex. unfold s' in Hx, Ex. proj_in Hx. proj_in Ex. apply fset_cases in Ex. destruct Ex as [[-> ->]|[Hne Ex]].
    - right. cbn. lia.
    - left. exists kx. destruct Hx as [Hx|Hx]; [congruence|]. repeat split; auto. lia. }
  assert (I0 := I). dI I. constructor; unfold s'; proj.
  - constructor; assumption.
  - cbn [length]. lia.
  - intros Hm. apply andb_false_iff in Lim. destruct Lim as [L|L]; lia.
  - intros x kx Ex. apply fset_cases in Ex. destruct Ex as [[-> ->]|[Hne Ex]].
    + unfold conn_ok, k_live, acc_holds in *. proj. cbn. rewrite P0 in *. repeat split; auto; try lia; try tauto.
    + pose proof (c_conn0 _ _ Ex) as (D1 & D2 & D3 & D4 & D5 & D6 & D7).
      assert (AI : In x (c :: active s) <-> In x (active s))
        by (cbn; split; [intros [Hc|Hc]; [congruence|auto]|auto]).
      unfold conn_ok. proj. rewrite AI. repeat split; auto; try tauto.
      destruct (k_pc kx) eqn:P; auto. destruct D7 as [D7 D8]. rewrite A in D7.
      exfalso. apply Hne. eapply acc_holds_inj; [right; left; reflexivity|exact D7].
  - intros x [<-|Hx]; [rewrite fset_eq; eauto|]. destruct (N.eq_dec x c) as [->|Hne]; [rewrite fset_eq|rewrite fset_neq by exact Hne]; eauto.
  - intros x Hx. destruct (N.eq_dec x c) as [->|Hne]; [rewrite fset_eq|rewrite fset_neq by exact Hne]; eauto.
  - assumption.
  - unfold acc_live in *. proj. rewrite A in c_wg0. exact c_wg0.
  - intros x Hx. assert (x = c) by (eapply acc_holds_inj; [right; right; reflexivity|exact Hx]). subst x.
    rewrite fset_eq. exists k'. split; [reflexivity|]. exact P0.
  - apply (reaper_ok_mono s s'); auto; unfold s'; proj; try reflexivity; lia.
  - apply (tick_mono s s'); auto; unfold s'; proj; try reflexivity; lia.
  - intros j p Ej. apply (stop_ok_mono s s' p (c_stops0 _ _ Ej) RO).
    + intros x (kx & Ex & Cx) Hn. unfold s'. proj. intros [<-|H]; [|contradiction]. assert (kx = k) by congruence. subst. lia.
    + unfold s'. proj. auto.
Qed.

Ltac wgs W :=
  unfold acc_live, reaper_live, b2n in *; proj;
  repeat match goal with
  | H : acc _ = _ |- _ => rewrite H in W
  | H : reaper _ = _ |- _ => rewrite H in W
  end; cbv beta iota in W |- *; try lia.

Lemma inv_spawn s c k : Inv s -> acc s = ARegistered c -> conns s c = Some k ->
  Inv (set_acc (set_wg (set_conn s c (k_with_pc k KServing)) (wg s + 1) (c :: live s)) ALoop).
Proof.
  intros I A E.
  pose proof (c_conn _ I _ _ E) as (B1 & B2 & B3 & B4 & B5 & B6 & B7).
  destruct (acc_pre_facts s c k I) as (P0 & B8 & NL); [rewrite A; right; right; reflexivity|exact E|].
  rewrite A in B8. assert (C1 : k_cnt k = 1) by (apply B8; reflexivity).
  apply (inv_rebuild s); auto; proj.
  - intros x k' Ex. apply fset_cases in Ex. destruct Ex as [[-> ->]|[Hne Ex]]; eauto.
  - intros x k1 Ex. destruct (N.eq_dec x c) as [->|Hne]; [rewrite fset_eq|rewrite fset_neq by exact Hne]; eauto.
    exists (k_with_pc k KServing). split; [reflexivity|]. cbn. congruence.
  - intros x k' Ex. apply fset_cases in Ex. destruct Ex as [[-> ->]|[Hne Ex]].
    + unfold conn_ok, k_live in *. proj. cbn. repeat split; auto; try tauto.
    + pose proof (c_conn _ I _ _ Ex) as (D1 & D2 & D3 & D4 & D5 & D6 & D7).
      assert (LI : In x (c :: live s) <-> In x (live s))
        by (cbn; split; [intros [Hc|Hc]; [congruence|auto]|auto]).
      unfold conn_ok. proj. rewrite LI. repeat split; auto; try tauto.
      destruct (k_pc k') eqn:P; auto. destruct D7 as [D7 D8]. rewrite A in D7.
      exfalso. apply Hne. eapply acc_holds_inj; [right; right; reflexivity|exact D7].
  - intros x [<-|Hx]; [rewrite fset_eq; eauto|]. destruct (c_live_ex _ I _ Hx).
    destruct (N.eq_dec x c) as [->|Hne]; [rewrite fset_eq|rewrite fset_neq by exact Hne]; eauto.
  - constructor; [exact NL|exact (c_live_nodup _ I)].
  - pose proof (c_wg _ I) as W. unfold acc_live, reaper_live, b2n in *. proj. rewrite A in W. cbn [length]. rewrite Nat2N.inj_succ. cbv beta iota in W |- *. lia.
  - intros x [H|[H|H]]; discriminate.
  - intros W0. pose proof (c_wg _ I) as W. unfold acc_live, b2n in W. rewrite A in W. cbv beta iota in W. lia.
Qed.

Lemma inv_accept_exit s : Inv s -> acc s = ALoop -> Inv (set_wg (set_acc s AExited) (wg s - 1) (live s)).
Proof.
  intros I A. apply (inv_rebuild s); auto; proj; try (exact (c_live_nodup _ I)); try (exact (c_live_ex _ I)).
  - intros x k' Ex. eauto.
  - intros x k0 Ex. eauto.
  - intros x k' Ex. pose proof (c_conn _ I _ _ Ex) as (B1 & B2 & B3 & B4 & B5 & B6 & B7).
    unfold conn_ok. proj. repeat split; auto; try tauto.
    destruct (k_pc k') eqn:P; auto. destruct B7 as [[H|[H|H]] _]; rewrite A in H; discriminate.
  - pose proof (c_wg _ I) as W. wgs W.
  - intros x [H|[H|H]]; discriminate.
  - intros W0. lia.
Qed.

Lemma inv_activity s c k : Inv s -> conns s c = Some k -> Inv (set_conn s c (k_with_last k (now s))).
Proof.
  intros I E.
  pose proof (c_conn _ I _ _ E) as (B1 & B2 & B3 & B4 & B5 & B6 & B7).
  set (k' := k_with_last k (now s)).
  assert (RO : forall x, registered_once s x -> registered_once (set_conn s c k') x).
  { intros x (kx & Ex & Cx). unfold registered_once. proj. destruct (N.eq_dec x c) as [->|Hne].
    - rewrite fset_eq. exists k'. split; [reflexivity|]. cbn. congruence.
    - rewrite fset_neq by exact Hne. eauto. }
  assert (LM : last_mono s (set_conn s c k')).
  { intros x kx Hx Ex. proj_in Hx. proj_in Ex. apply fset_cases in Ex. destruct Ex as [[-> ->]|[Hne Ex]].
    - right. cbn. lia.
    - left. exists kx. repeat split; auto. lia. }
  assert (I0 := I). dI I. constructor; proj; try assumption.
  - intros x kx Ex. apply fset_cases in Ex. destruct Ex as [[-> ->]|[Hne Ex]]; [|exact (c_conn0 _ _ Ex)].
    unfold conn_ok, k_live in *. proj. cbn. repeat split; auto; try tauto; try lia.
  - intros x Hx. destruct (N.eq_dec x c) as [->|Hne]; [rewrite fset_eq; eauto|rewrite fset_neq by exact Hne; auto].
  - intros x Hx. destruct (N.eq_dec x c) as [->|Hne]; [rewrite fset_eq; eauto|rewrite fset_neq by exact Hne; auto].
  - intros x Hx. destruct (c_acc0 _ Hx) as (kx & Ex & Px). destruct (N.eq_dec x c) as [->|Hne].
    + rewrite fset_eq. exists k'. split; [reflexivity|]. cbn. congruence.
    + rewrite fset_neq by exact Hne. eauto.
  - apply (reaper_ok_mono s (set_conn s c k')); auto; proj; try reflexivity; lia.
  - apply (tick_mono s (set_conn s c k')); auto; proj; try reflexivity; lia.
  - intros j p Ej. apply (stop_ok_mono s (set_conn s c k') p (c_stops0 _ _ Ej) RO); auto.
Qed.

Lemma inv_exit s c k : Inv s -> conns s c = Some k -> k_pc k = KServing ->
  Inv (set_conn s c (k_close (k_with_pc k (KUnreg U1)))).
Proof.
  intros I E P. pose proof (c_conn _ I _ _ E) as (B1 & B2 & B3 & B4 & B5 & B6 & B7). rewrite P in B7.
  apply (inv_set_conn_frame s c k); auto; cbn; auto.
  - unfold k_live. cbn. rewrite P. reflexivity.
  - rewrite P. discriminate.
Qed.

Lemma inv_conn_done s c k : Inv s -> conns s c = Some k -> k_pc k = KFin ->
  Inv (set_wg (set_conn s c (k_with_pc k KDone)) (wg s - 1) (remove_c c (live s))).
Proof.
  intros I E P. pose proof (c_conn _ I _ _ E) as (B1 & B2 & B3 & B4 & B5 & B6 & B7). rewrite P in B7.
  assert (Lc : In c (live s)) by (apply B6; unfold k_live; rewrite P; reflexivity).
  apply (inv_rebuild s); auto; proj.
  - intros x k' Ex. apply fset_cases in Ex. destruct Ex as [[-> ->]|[Hne Ex]]; eauto.
  - intros x k1 Ex. destruct (N.eq_dec x c) as [->|Hne]; [rewrite fset_eq|rewrite fset_neq by exact Hne]; eauto.
    exists (k_with_pc k KDone). split; [reflexivity|]. cbn. congruence.
  - intros x k' Ex. apply fset_cases in Ex. destruct Ex as [[-> ->]|[Hne Ex]].
    + unfold conn_ok, k_live in *. proj. cbn. repeat split; auto; try tauto; try discriminate.
      intros H. apply remove_c_In in H. tauto.
    + pose proof (c_conn _ I _ _ Ex) as (D1 & D2 & D3 & D4 & D5 & D6 & D7).
      assert (LI : In x (remove_c c (live s)) <-> In x (live s)) by (rewrite remove_c_In; tauto).
      unfold conn_ok. proj. rewrite LI. repeat split; auto; try tauto.
  - intros x Hx. apply remove_c_In in Hx. destruct Hx as [Hx Hne]. rewrite fset_neq by exact Hne. exact (c_live_ex _ I _ Hx).
  - apply remove_c_NoDup. exact (c_live_nodup _ I).
  - pose proof (c_wg _ I) as W. pose proof (remove_c_length c (live s) (c_live_nodup _ I) Lc) as L.
    wgs W.
  - intros x Hx. destruct (c_acc _ I _ Hx) as (kx & Ex & Px). destruct (N.eq_dec x c) as [->|Hne].
    + assert (kx = k) by congruence. subst. congruence.
    + rewrite fset_neq by exact Hne. eauto.
  - intros W0. lia.
Qed.

Lemma inv_reaper_exit s : Inv s -> reaper s = RIdle -> Inv (set_wg (set_reaper s RExited) (wg s - 1) (live s)).
Proof.
  intros I R. assert (I0 := I). dI I. constructor; proj; try assumption.
  - wgs c_wg0.
  - unfold reaper_ok. proj. exact Logic.I.
  - intros j p Ej. apply (stop_ok_mono s _ p (c_stops0 _ _ Ej)); auto. proj. lia.
Qed.

Lemma inv_close_conn s c : Inv s -> Inv (close_conn s c).
Proof.
  intros I. unfold close_conn. destruct (conns s c) as [k|] eqn:E; [|exact I].
  apply (inv_set_conn_frame s c k); auto; cbn; auto.
  - apply (pc_clause_same s c k); auto.
  - exact (proj1 (proj2 (proj2 (proj2 (c_conn _ I _ _ E))))).
Qed.
Lemma close_conn_frame s c : active (close_conn s c) = active s /\ reaper (close_conn s c) = reaper s /\
  stops (close_conn s c) = stops s /\ now (close_conn s c) = now s /\ idle (close_conn s c) = idle s /\ wg (close_conn s c) = wg s /\
  (forall x, registered_once s x -> registered_once (close_conn s c) x) /\
  (forall x kx, conns (close_conn s c) x = Some kx -> exists k0, conns s x = Some k0 /\ k_last kx = k_last k0).
Proof.
  unfold close_conn. destruct (conns s c) as [k|] eqn:E; proj; repeat split; auto.
  - intros x (kx & Ex & Cx). unfold registered_once. proj. destruct (N.eq_dec x c) as [->|Hne].
    + rewrite fset_eq. eexists. split; [reflexivity|]. cbn. congruence.
    + rewrite fset_neq by exact Hne. eauto.
  - intros x kx Ex. apply fset_cases in Ex. destruct Ex as [[-> ->]|[Hne Ex]]; eauto.
  - eauto.
Qed.

Lemma inv_tick s : Inv s -> reaper s = RIdle ->
  Inv (set_reaper s (RWork (now s) (filter (is_idle s) (active s)) None)).
Proof.
  intros I R. apply inv_set_reaper; auto.
  - unfold reaper_live. proj. rewrite R. reflexivity.
  - unfold reaper_ok. proj. split; [lia|]. split.
    + intros c Hc. apply filter_In in Hc. destruct Hc as [Hc _]. destruct (c_active_ex _ I _ Hc) as (k & E).
      exists k. split; [exact E|]. apply (c_conn _ I _ _ E). exact Hc.
    + intros c k Hc E. destruct (is_idle s c) eqn:Id.
      * right. apply filter_In. auto.
      * left. unfold is_idle in Id. rewrite E in Id. apply N.ltb_ge in Id. lia.
Qed.

Lemma inv_rtickdone s T : Inv s -> reaper s = RWork T [] None -> Inv (set_tickT (set_reaper s RIdle) T).
Proof.
  intros I R. assert (I0 := I). dI I. constructor; proj; try assumption.
  - wgs c_wg0.
  - unfold reaper_ok. proj. exact Logic.I.
  - unfold reaper_ok in c_reaper0. rewrite R in c_reaper0. destruct c_reaper0 as (R1 & R2 & R3).
    split; [exact R1|]. intros c k Hc E. destruct (R3 c k Hc E) as [H|[]]. exact H.
Qed.

Lemma inv_rclose s T c todo : Inv s -> reaper s = RWork T (c :: todo) None ->
  Inv (set_reaper (close_conn s c) (RWork T (c :: todo) (Some U1))).
Proof.
  intros I R. destruct (close_conn_frame s c) as (Fa & Fr & Fs & Fn & Fi & Fw & FRO & FL).
  apply inv_set_reaper; [apply inv_close_conn; exact I| |].
  - unfold reaper_live. proj. rewrite Fr, R. reflexivity.
  - pose proof (c_reaper _ I) as Hr. unfold reaper_ok in *. proj. rewrite R in Hr. destruct Hr as (R1 & R2 & R3).
    rewrite Fn, Fa, Fi. split; [exact R1|split].
    + intros x Hx. apply FRO. auto.
    + intros x kx Hx Ex. destruct (FL _ _ Ex) as (k0 & E0 & L0). rewrite L0. eauto.
Qed.

(* a thread's unregister sub-step on the head of its work list *)
Lemma inv_unreg_reaper s T c todo u s1 nu : Inv s -> reaper s = RWork T (c :: todo) (Some u) ->
  unreg_step s c u = Some (s1, nu) ->
  Inv (set_reaper s1 (match nu with Some u' => RWork T (c :: todo) (Some u') | None => RWork T todo None end)).
Proof.
  intros I R H. pose proof (c_reaper _ I) as Hr. unfold reaper_ok in Hr. rewrite R in Hr. destruct Hr as (R1 & R2 & R3).
  destruct (unreg_inv s c u s1 nu I (R2 c (or_introl eq_refl)) H) as (I1 & Hn & Er & Es & Hpc & RO).
  pose proof (c_reaper _ I1) as Hr1. unfold reaper_ok in Hr1. rewrite Er, R in Hr1. destruct Hr1 as (Q1 & Q2 & Q3).
  apply inv_set_reaper; auto.
  - unfold reaper_live. proj. rewrite Er, R. destruct nu; reflexivity.
  - unfold reaper_ok. proj. destruct nu as [u'|]; repeat split; auto.
    + intros x Hx. apply Q2. right. exact Hx.
    + intros x kx Hx Ex. destruct (Q3 x kx Hx Ex) as [L|[<-|L]]; auto. exfalso. exact (Hn eq_refl Hx).
Qed.

Lemma inv_unreg_stop s j sn c todo u s1 nu : Inv s -> stops s j = Some (SWork sn (c :: todo) (Some u)) ->
  unreg_step s c u = Some (s1, nu) ->
  Inv (set_stop s1 j (match nu with Some u' => SWork sn (c :: todo) (Some u') | None => SWork sn todo None end)).
Proof.
  intros I Ej H. pose proof (c_stops _ I _ _ Ej) as Hs. cbn in Hs. destruct Hs as (S1 & S2 & S3).
  assert (Rc : registered_once s c) by (apply S1; apply S2; left; reflexivity).
  destruct (unreg_inv s c u s1 nu I Rc H) as (I1 & Hn & Er & Es & Hpc & RO).
  rewrite <- Es in Ej. pose proof (c_stops _ I1 _ _ Ej) as Hs1. cbn in Hs1. destruct Hs1 as (Q1 & Q2 & Q3).
  apply inv_set_stop; auto. destruct nu as [u'|]; cbn; repeat split; auto.
  - intros x Hx. apply Q2. right. exact Hx.
  - intros x Hx. destruct (Q3 x Hx) as [[<-|L]|L]; auto.
Qed.

Lemma inv_unreg_conn s c k u s1 nu k1 : Inv s -> conns s c = Some k -> k_pc k = KUnreg u ->
  unreg_step s c u = Some (s1, nu) -> conns s1 c = Some k1 ->
  Inv (set_conn s1 c (k_with_pc k1 (match nu with Some u' => KUnreg u' | None => KFin end))).
Proof.
  intros I E P H E1. pose proof (c_conn _ I _ _ E) as (B1 & B2 & B3 & B4 & B5 & B6 & B7). rewrite P in B7.
  assert (Rc : registered_once s c) by (exists k; auto).
  destruct (unreg_inv s c u s1 nu I Rc H) as (I1 & Hn & Er & Es & Hpc & RO).
  destruct (Hpc _ _ E) as (k1' & E1' & P1). assert (k1' = k1) by congruence. subst k1'. rewrite P in P1.
  pose proof (c_conn _ I1 _ _ E1) as (D1 & D2 & D3 & D4 & D5 & D6 & D7). rewrite P1 in D7.
  apply (inv_set_conn_frame s1 c k1); auto; cbn; auto.
  - unfold k_live. cbn. rewrite P1. destruct nu; reflexivity.
  - rewrite P1. discriminate.
  - destruct nu as [u'|]; auto. split; [exact D7|]. apply (not_active_uncounted s1 c k1); auto.
Qed.

Lemma inv_stop_close s j sn c todo : Inv s -> stops s j = Some (SWork sn (c :: todo) None) ->
  Inv (set_stop (close_conn s c) j (SWork sn (c :: todo) (Some U1))).
Proof.
  intros I Ej. destruct (close_conn_frame s c) as (Fa & Fr & Fs & Fn & Fi & Fw & FRO & FL).
  apply inv_set_stop; [apply inv_close_conn; exact I|].
  pose proof (c_stops _ I _ _ Ej) as Hs. cbn in Hs |- *. destruct Hs as (S1 & S2 & S3). rewrite Fa. repeat split; auto.
Qed.

Lemma inv_stop_collect s j : Inv s -> Inv (set_stop s j (SWork (active s) (active s) None)).
Proof.
  intros I. apply inv_set_stop; auto. cbn. repeat split; auto.
  - intros c Hc. destruct (c_active_ex _ I _ Hc) as (k & E). exists k. split; [exact E|]. apply (c_conn _ I _ _ E). exact Hc.
  - apply incl_refl.
Qed.

Theorem step_inv_preserved s l s' : Inv s -> step s l = Some s' -> Inv s'.
Proof.
  intros I H. destruct l; cbn in H.
  - (* Advance *) injection H as <-. apply inv_advance. exact I.
  - (* Accept *) destruct (acc s) eqn:A; try discriminate. destruct (conns s c) eqn:E; try discriminate.
    destruct (lclosed s); try discriminate. injection H as <-. apply inv_accept; auto.
  - (* Filter *) destruct (acc s) eqn:A; try discriminate. destruct (conns s c) eqn:E; try discriminate.
    destruct (k_ok c0); injection H as <-; [eapply inv_filter_ok; eauto|apply inv_filter_reject; auto].
  - (* Register *) destruct (acc s) eqn:A; try discriminate. destruct (conns s c) eqn:E; try discriminate.
    destruct ((0 <? maxc s)%Z && (maxc s <=? count s)%Z) eqn:L; injection H as <-;
      [apply inv_register_reject; auto|apply inv_register; auto].
  - (* Spawn *) destruct (acc s) eqn:A; try discriminate. destruct (conns s c) eqn:E; try discriminate.
    injection H as <-. apply inv_spawn; auto.
  - (* AcceptExit *) destruct (acc s) eqn:A; try discriminate. destruct (cancelled s || lclosed s); try discriminate.
    injection H as <-. apply inv_accept_exit; auto.
  - (* Activity *) destruct (conns s c) eqn:E; try discriminate. destruct (k_pc c0); try discriminate.
    destruct (mem c (active s)); injection H as <-; [apply inv_activity; auto|exact I].
  - (* Exit *) destruct (conns s c) eqn:E; try discriminate. destruct (k_pc c0) eqn:P; try discriminate.
    injection H as <-. apply inv_exit; auto.
  - (* UnregConn *) destruct (conns s c) eqn:E; try discriminate. destruct (k_pc c0) eqn:P; try discriminate.
    destruct (unreg_step s c u) as [[s1 nu]|] eqn:U; try discriminate.
    destruct (conns s1 c) eqn:E1; try discriminate. injection H as <-. eapply inv_unreg_conn; eauto.
  - (* ConnDone *) destruct (conns s c) eqn:E; try discriminate. destruct (k_pc c0) eqn:P; try discriminate.
    injection H as <-. apply inv_conn_done; auto.
  - (* Tick *) destruct (reaper s) eqn:R; try discriminate. destruct (idle s =? 0); try discriminate.
    injection H as <-. apply inv_tick; auto.
  - (* RClose *) destruct (reaper s) as [| |T [|c todo] [u|]|] eqn:R; try discriminate.
    injection H as <-. apply inv_rclose; auto.
  - (* UnregReaper *) destruct (reaper s) as [| |T [|c todo] [u|]|] eqn:R; try discriminate.
    destruct (unreg_step s c u) as [[s1 nu]|] eqn:U; try discriminate.
    pose proof (inv_unreg_reaper s T c todo u s1 nu I R U) as J. destruct nu; injection H as <-; exact J.
  - (* RTickDone *) destruct (reaper s) as [| |T [|c todo] [u|]|] eqn:R; try discriminate.
    injection H as <-. apply inv_rtickdone; auto.
  - (* ReaperExit *) destruct (reaper s) eqn:R; try discriminate. destruct (cancelled s); try discriminate.
    injection H as <-. apply inv_reaper_exit; auto.
  - (* StopCall *) destruct (stops s k) eqn:E; try discriminate. injection H as <-. apply inv_set_stop; auto. exact Logic.I.
  - (* StopCancel *) destruct (stops s k) as [[]|] eqn:E; try discriminate. injection H as <-.
    apply inv_set_flags. apply inv_set_stop; auto. exact Logic.I.
  - (* StopCloseL *) destruct (stops s k) as [[]|] eqn:E; try discriminate. injection H as <-.
    apply inv_set_flags. apply inv_set_stop; auto. exact Logic.I.
  - (* StopCollect *) destruct (stops s k) as [[]|] eqn:E; try discriminate. injection H as <-. apply inv_stop_collect; auto.
  - (* StopClose *) destruct (stops s k) as [[| | |sn [|c todo] [u|]| | |]|] eqn:E; try discriminate.
    injection H as <-. apply inv_stop_close; auto.
  - (* UnregStop *) destruct (stops s k) as [[| | |sn [|c todo] [u|]| | |]|] eqn:E; try discriminate.
    destruct (unreg_step s c u) as [[s1 nu]|] eqn:U; try discriminate.
    pose proof (inv_unreg_stop s k sn c todo u s1 nu I E U) as J. destruct nu; injection H as <-; exact J.
  - (* StopCollected *) destruct (stops s k) as [[| | |sn [|c todo] [u|]| | |]|] eqn:E; try discriminate.
    injection H as <-. apply inv_set_stop; auto. pose proof (c_stops _ I _ _ E) as Hs. cbn in Hs |- *.
    destruct Hs as (S1 & S2 & S3). intros c Hc. split; auto. destruct (S3 c Hc) as [[]|]; auto.
  - (* StopWait *) destruct (stops s k) as [[]|] eqn:E; try discriminate. destruct (wg s =? 0) eqn:W; try discriminate.
    injection H as <-. apply inv_set_stop; auto. pose proof (c_stops _ I _ _ E) as Hs. cbn in Hs |- *.
    split; [exact Hs|]. apply N.eqb_eq. exact W.
  - (* StopTimeout *) destruct (stops s k) as [[]|] eqn:E; try discriminate.
    injection H as <-. apply inv_set_stop; auto. exact (c_stops _ I _ _ E).
Qed.

Lemma run_inv tr : forall s s', Inv s -> run s tr = Some s' -> Inv s'.
Proof.
  induction tr as [|l tr IH]; cbn; intros s s' I H.
  - injection H as <-. exact I.
  - destruct (step s l) as [s1|] eqn:E; [|discriminate]. exact (IH _ _ (step_inv_preserved _ _ _ I E) H).
Qed.

Definition reachable (s : state) : Prop := exists mx idl tr, run (init mx idl) tr = Some s.
Lemma reachable_Inv s : reachable s -> Inv s.
Proof. intros (mx & idl & tr & H). exact (run_inv tr _ _ (inv_init mx idl) H). Qed.

(* ---------- second invariant: whoever is uncounted has had its socket closed ---------- *)
Definition closed_c (s : state) (c : N) : Prop := exists k, conns s c = Some k /\ k_closed k = true.
Definition must_be_closed (k : conn) : Prop :=
  k_uncnt k = 1 \/ match k_pc k with KUnreg _ | KFin | KDone | KRejected => True | _ => False end.
Record Inv2 (s : state) : Prop := {
  d_conn : forall c k, conns s c = Some k -> must_be_closed k -> k_closed k = true;
  d_reaper : forall T c todo u, reaper s = RWork T (c :: todo) (Some u) -> closed_c s c;
  d_stop : forall j sn c todo u, stops s j = Some (SWork sn (c :: todo) (Some u)) -> closed_c s c }.

Lemma inv2_init mx idl : Inv2 (init mx idl).
Proof.
  constructor; cbn; try (intros; discriminate). intros. destruct (idl =? 0); discriminate.
Qed.

(* effect of one unregister sub-step on the fields Inv2 talks about *)
Lemma unreg_effect s c u s1 nu : unreg_step s c u = Some (s1, nu) ->
  reaper s1 = reaper s /\ stops s1 = stops s /\
  (forall x kx', conns s1 x = Some kx' -> exists kx, conns s x = Some kx /\ k_closed kx' = k_closed kx /\
       k_pc kx' = k_pc kx /\ (k_uncnt kx' = k_uncnt kx \/ x = c)) /\
  (forall x kx, conns s x = Some kx -> exists kx', conns s1 x = Some kx' /\ k_closed kx' = k_closed kx).
Proof.
  unfold unreg_step. destruct (conns s c) as [k|] eqn:E; [|discriminate].
  assert (G : forall k', k_closed k' = k_closed k -> k_pc k' = k_pc k ->
     (forall x kx', fset (conns s) c k' x = Some kx' -> exists kx, conns s x = Some kx /\ k_closed kx' = k_closed kx /\
       k_pc kx' = k_pc kx /\ (k_uncnt kx' = k_uncnt kx \/ x = c)) /\
     (forall x kx, conns s x = Some kx -> exists kx', fset (conns s) c k' x = Some kx' /\ k_closed kx' = k_closed kx)).
  { intros k' Hc Hp. split.
    - intros x kx' Ex. apply fset_cases in Ex. destruct Ex as [[-> ->]|[Hne Ex]]; eauto 8.
    - intros x kx Ex. destruct (N.eq_dec x c) as [->|Hne]; [rewrite fset_eq|rewrite fset_neq by exact Hne]; eauto.
      exists k'. split; [reflexivity|]. congruence. }
  assert (G0 : (forall x kx', conns s x = Some kx' -> exists kx, conns s x = Some kx /\ k_closed kx' = k_closed kx /\
       k_pc kx' = k_pc kx /\ (k_uncnt kx' = k_uncnt kx \/ x = c)) /\
     (forall x kx, conns s x = Some kx -> exists kx', conns s x = Some kx' /\ k_closed kx' = k_closed kx)) by (split; eauto 8).
  destruct u.
  - intros H. injection H as <- <-. tauto.
  - destruct (k_once k); intros H; try discriminate; injection H as <- <-; proj; [|tauto].
    split; [reflexivity|split; [reflexivity|]]. apply G; reflexivity.
  - destruct (mem c (active s)); intros H; injection H as <- <-; proj;
      (split; [reflexivity|split; [reflexivity|]]); apply G; reflexivity.
Qed.

Lemma inv2_rebuild s s' : Inv2 s ->
  (forall x k', conns s' x = Some k' ->
     k_closed k' = true \/ ~ must_be_closed k' \/
     (exists k, conns s x = Some k /\ k_closed k' = k_closed k /\ k_pc k' = k_pc k /\ k_uncnt k' = k_uncnt k)) ->
  (forall x, closed_c s x -> closed_c s' x) ->
  (forall T c todo u, reaper s' = RWork T (c :: todo) (Some u) -> reaper s = RWork T (c :: todo) (Some u) \/ closed_c s' c) ->
  (forall j sn c todo u, stops s' j = Some (SWork sn (c :: todo) (Some u)) ->
     stops s j = Some (SWork sn (c :: todo) (Some u)) \/ closed_c s' c) ->
  Inv2 s'.
Proof.
  intros [D1 D2 D3] Hc Hm Hr Hs. constructor.
  - intros x k' Ex M. destruct (Hc x k' Ex) as [H|[H|(k & Ek & C & P & U)]]; [exact H|contradiction|].
    rewrite C. apply (D1 x k Ek). unfold must_be_closed in *. rewrite <- P, <- U. exact M.
  - intros T c todo u R. destruct (Hr _ _ _ _ R) as [H|H]; [apply Hm; eapply D2; eauto|exact H].
  - intros j sn c todo u E. destruct (Hs _ _ _ _ _ E) as [H|H]; [apply Hm; eapply D3; eauto|exact H].
Qed.

Lemma unreg_inv2 s c u s1 nu : Inv2 s -> closed_c s c -> unreg_step s c u = Some (s1, nu) ->
  Inv2 s1 /\ (forall x, closed_c s x -> closed_c s1 x).
Proof.
  intros I2 Cc H. destruct (unreg_effect _ _ _ _ _ H) as (Er & Es & Back & Fwd).
  assert (Hm : forall x, closed_c s x -> closed_c s1 x).
  { intros x (k & E & C). destruct (Fwd _ _ E) as (k' & E' & C'). exists k'. split; [auto|congruence]. }
  split; [|exact Hm]. apply (inv2_rebuild s); auto.
  - intros x k' Ex. destruct (Back _ _ Ex) as (k & Ek & C & P & [U| ->]).
    + right. right. eauto.
    + left. destruct Cc as (kc & Ec & Cl). congruence.
  - intros. left. congruence.
  - intros. left. congruence.
Qed.

Lemma closed_set_conn s c k' x : (forall k, conns s c = Some k -> k_closed k = true -> k_closed k' = true) ->
  closed_c s x -> closed_c (set_conn s c k') x.
Proof.
  intros Hk (k & E & C). unfold closed_c. proj. destruct (N.eq_dec x c) as [->|Hne].
  - rewrite fset_eq. exists k'. split; [reflexivity|]. eauto.
  - rewrite fset_neq by exact Hne. eauto.
Qed.
Lemma closed_close_conn s c x : closed_c s x -> closed_c (close_conn s c) x.
Proof.
  intros H. unfold close_conn. destruct (conns s c) eqn:E; [|exact H]. apply closed_set_conn; auto.
Qed.
Lemma close_conn_closes s c : (exists k, conns s c = Some k) -> closed_c (close_conn s c) c.
Proof. intros (k & E). unfold close_conn, closed_c. rewrite E. proj. rewrite fset_eq. eauto. Qed.

(* steps that leave the connection table alone *)
Lemma inv2_frame s s' : Inv2 s -> conns s' = conns s ->
  (forall T c todo u, reaper s' = RWork T (c :: todo) (Some u) -> reaper s = RWork T (c :: todo) (Some u)) ->
  (forall j sn c todo u, stops s' j = Some (SWork sn (c :: todo) (Some u)) -> stops s j = Some (SWork sn (c :: todo) (Some u))) ->
  Inv2 s'.
Proof.
  intros I2 Ec Hr Hs. apply (inv2_rebuild s); auto.
  - intros x k' Ex. right. right. rewrite Ec in Ex. eauto 8.
  - intros x (k & E & C). exists k. rewrite Ec. auto.
Qed.

(* steps that replace one connection record *)
Lemma inv2_set_conn s s' c k' : Inv2 s -> conns s' = fset (conns s) c k' -> reaper s' = reaper s -> stops s' = stops s ->
  (k_closed k' = true \/ ~ must_be_closed k' \/
   exists k, conns s c = Some k /\ k_closed k' = k_closed k /\ k_pc k' = k_pc k /\ k_uncnt k' = k_uncnt k) ->
  (forall k, conns s c = Some k -> k_closed k = true -> k_closed k' = true) ->
  Inv2 s'.
Proof.
  intros I2 Ec Er Es Hk Hm. apply (inv2_rebuild s); auto.
  - intros x kx Ex. rewrite Ec in Ex. apply fset_cases in Ex. destruct Ex as [[-> ->]|[Hne Ex]]; [exact Hk|eauto 8].
  - intros x (k & E & C). unfold closed_c. rewrite Ec. destruct (N.eq_dec x c) as [->|Hne].
    + rewrite fset_eq. exists k'. split; [reflexivity|]. eauto.
    + rewrite fset_neq by exact Hne. eauto.
  - intros. left. congruence.
  - intros. left. congruence.
Qed.

Theorem step_inv2_preserved s l s' : Inv s -> Inv2 s -> step s l = Some s' -> Inv2 s'.
Proof.
  intros I I2 H. assert (J2 := I2). destruct J2 as [D1 D2 D3].
  destruct l; cbn in H.
  - (* Advance *) injection H as <-. apply (inv2_frame s); auto.
  - (* Accept *) destruct (acc s) eqn:A; try discriminate. destruct (conns s c) eqn:E; try discriminate.
    destruct (lclosed s); try discriminate. injection H as <-.
    apply (inv2_set_conn s _ c (new_conn ok)); auto; [|intros; congruence].
    right. left. unfold must_be_closed. cbn. intros [Hm|[]]. discriminate.
  - (* Filter *) destruct (acc s) eqn:A; try discriminate. destruct (conns s c) eqn:E; try discriminate.
    destruct (k_ok c0); injection H as <-; [apply (inv2_frame s); auto|].
    apply (inv2_set_conn s _ c (k_close (k_with_pc c0 KRejected))); auto.
  - (* Register *) destruct (acc s) eqn:A; try discriminate. destruct (conns s c) eqn:E; try discriminate.
    destruct ((0 <? maxc s)%Z && (maxc s <=? count s)%Z) eqn:L; injection H as <-.
    + apply (inv2_set_conn s _ c (k_close (k_with_pc c0 KRejected))); auto.
    + apply (inv2_set_conn s _ c (k_registered c0 (now s))); auto; [|intros k Ek; assert (k = c0) by congruence; subst; auto].
      right. right. exists c0. auto.
  - (* Spawn *) destruct (acc s) eqn:A; try discriminate. destruct (conns s c) eqn:E; try discriminate.
    injection H as <-.
    apply (inv2_set_conn s _ c (k_with_pc c0 KServing)); auto; [|intros k Ek; assert (k = c0) by congruence; subst; auto].
    destruct (k_closed c0) eqn:Cl; [left; exact Cl|]. right. left. unfold must_be_closed. cbn.
    intros [Hm|[]]. rewrite (D1 _ _ E) in Cl; [discriminate|]. left. exact Hm.
  - (* AcceptExit *) destruct (acc s) eqn:A; try discriminate. destruct (cancelled s || lclosed s); try discriminate.
    injection H as <-. apply (inv2_frame s); auto.
  - (* Activity *) destruct (conns s c) eqn:E; try discriminate. destruct (k_pc c0); try discriminate.
    destruct (mem c (active s)); injection H as <-; [|exact I2].
    apply (inv2_set_conn s _ c (k_with_last c0 (now s))); auto; [|intros k Ek; assert (k = c0) by congruence; subst; auto].
    right. right. exists c0. auto.
  - (* Exit *) destruct (conns s c) eqn:E; try discriminate. destruct (k_pc c0) eqn:P; try discriminate.
    injection H as <-. apply (inv2_set_conn s _ c (k_close (k_with_pc c0 (KUnreg U1)))); auto.
  - (* UnregConn *) destruct (conns s c) eqn:E; try discriminate. destruct (k_pc c0) eqn:P; try discriminate.
    destruct (unreg_step s c u) as [[s1 nu]|] eqn:U; try discriminate.
    destruct (conns s1 c) eqn:E1; try discriminate. injection H as <-.
    assert (Cc : closed_c s c) by (exists c0; split; [exact E|]; apply (D1 _ _ E); right; rewrite P; exact Logic.I).
    destruct (unreg_inv2 s c u s1 nu I2 Cc U) as (J2 & Hm).
    destruct (Hm c Cc) as (kc & Ekc & Clc). assert (kc = c1) by congruence. subst kc.
    apply (inv2_set_conn s1 _ c (k_with_pc c1 (match nu with Some u' => KUnreg u' | None => KFin end))); auto.
  - (* ConnDone *) destruct (conns s c) eqn:E; try discriminate. destruct (k_pc c0) eqn:P; try discriminate.
    injection H as <-. apply (inv2_set_conn s _ c (k_with_pc c0 KDone)); auto; [|intros k Ek; assert (k = c0) by congruence; subst; auto].
    left. cbn. apply (D1 _ _ E). right. rewrite P. exact Logic.I.
  - (* Tick *) destruct (reaper s) eqn:R; try discriminate. destruct (idle s =? 0); try discriminate.
    injection H as <-. apply (inv2_frame s); auto. proj. intros; discriminate.
  - (* RClose *) destruct (reaper s) as [| |T [|c todo] [u|]|] eqn:R; try discriminate.
    injection H as <-. apply (inv2_rebuild s); auto; proj.
    + intros x k' Ex. unfold close_conn in Ex. destruct (conns s c) as [kc|] eqn:Ec; proj_in Ex; [|eauto 8].
      apply fset_cases in Ex. destruct Ex as [[-> ->]|[Hne Ex]]; [left; reflexivity|eauto 8].
    + intros x Hx. exact (closed_close_conn s c x Hx).
    + intros T0 c0 todo0 u0 Eq. injection Eq as <- <- <- <-. right.
      pose proof (c_reaper _ I) as Hr. unfold reaper_ok in Hr. rewrite R in Hr. destruct Hr as (_ & R2 & _).
      destruct (R2 c (or_introl eq_refl)) as (kc & Ec & _). apply (close_conn_closes s c). eauto.
    + intros j sn c0 todo0 u0 Ej. left. unfold close_conn in Ej. destruct (conns s c); exact Ej.
  - (* UnregReaper *) destruct (reaper s) as [| |T [|c todo] [u|]|] eqn:R; try discriminate.
    destruct (unreg_step s c u) as [[s1 nu]|] eqn:U; try discriminate.
    pose proof (d_reaper _ I2 _ _ _ _ R) as Cc. destruct (unreg_inv2 s c u s1 nu I2 Cc U) as (J2 & Hm).
    destruct (unreg_effect _ _ _ _ _ U) as (Er & Es & _ & _).
    destruct nu; injection H as <-; apply (inv2_rebuild s1); auto; proj; try (intros; right; right; eauto 8).
    + intros T0 c0 todo0 u1 Eq. injection Eq as <- <- <- <-. right. apply Hm. exact Cc.
    + intros; discriminate.
  - (* RTickDone *) destruct (reaper s) as [| |T [|c todo] [u|]|] eqn:R; try discriminate.
    injection H as <-. apply (inv2_frame s); auto. proj. intros; discriminate.
  - (* ReaperExit *) destruct (reaper s) eqn:R; try discriminate. destruct (cancelled s); try discriminate.
    injection H as <-. apply (inv2_frame s); auto. proj. intros; discriminate.
  - (* StopCall *) destruct (stops s k) eqn:E; try discriminate. injection H as <-. apply (inv2_frame s); auto.
    proj. intros j sn c todo u Ej. apply fset_cases in Ej. destruct Ej as [[_ Ej]|[_ Ej]]; [discriminate|exact Ej].
  - (* StopCancel *) destruct (stops s k) as [[]|] eqn:E; try discriminate. injection H as <-. apply (inv2_frame s); auto.
    proj. intros j sn c todo u Ej. apply fset_cases in Ej. destruct Ej as [[_ Ej]|[_ Ej]]; [discriminate|exact Ej].
  - (* StopCloseL *) destruct (stops s k) as [[]|] eqn:E; try discriminate. injection H as <-. apply (inv2_frame s); auto.
    proj. intros j sn c todo u Ej. apply fset_cases in Ej. destruct Ej as [[_ Ej]|[_ Ej]]; [discriminate|exact Ej].
  - (* StopCollect *) destruct (stops s k) as [[]|] eqn:E; try discriminate. injection H as <-. apply (inv2_frame s); auto.
    proj. intros j sn c todo u Ej. apply fset_cases in Ej. destruct Ej as [[_ Ej]|[_ Ej]]; [discriminate|exact Ej].
  - (* StopClose *) destruct (stops s k) as [[| | |sn [|c todo] [u|]| | |]|] eqn:E; try discriminate.
    injection H as <-. apply (inv2_rebuild s); auto; proj.
    + intros x k' Ex. unfold close_conn in Ex. destruct (conns s c) as [kc|] eqn:Ec; proj_in Ex; [|eauto 8].
      apply fset_cases in Ex. destruct Ex as [[-> ->]|[Hne Ex]]; [left; reflexivity|eauto 8].
    + intros x Hx. exact (closed_close_conn s c x Hx).
    + intros T0 c0 todo0 u0 Eq. left. unfold close_conn in Eq. destruct (conns s c); exact Eq.
    + intros j sn0 c0 todo0 u0 Ej. apply fset_cases in Ej. destruct Ej as [[-> Ej]|[Hne Ej]].
      * pose proof (c_stops _ I _ _ E) as Hs. cbn in Hs. destruct Hs as (S1 & S2 & _).
        destruct (S1 c (S2 c (or_introl eq_refl))) as (kc & Ec & _).
        assert (c0 = c) by congruence. subst c0. right. apply (close_conn_closes s c). eauto.
      * left. unfold close_conn in Ej. destruct (conns s c); exact Ej.
  - (* UnregStop *) destruct (stops s k) as [[| | |sn [|c todo] [u|]| | |]|] eqn:E; try discriminate.
    destruct (unreg_step s c u) as [[s1 nu]|] eqn:U; try discriminate.
    pose proof (d_stop _ I2 _ _ _ _ _ E) as Cc. destruct (unreg_inv2 s c u s1 nu I2 Cc U) as (J2 & Hm).
    destruct (unreg_effect _ _ _ _ _ U) as (Er & Es & _ & _).
    destruct nu; injection H as <-; apply (inv2_rebuild s1); auto; proj; try (intros; right; right; eauto 8).
    + intros j sn0 c0 todo0 u1 Ej. apply fset_cases in Ej. destruct Ej as [[-> Ej]|[Hne Ej]]; [|left; exact Ej].
      injection Ej as <- <- <- <-. right. apply Hm. exact Cc.
    + intros j sn0 c0 todo0 u1 Ej. apply fset_cases in Ej. destruct Ej as [[-> Ej]|[Hne Ej]]; [discriminate|left; exact Ej].
  - (* StopCollected *) destruct (stops s k) as [[| | |sn [|c todo] [u|]| | |]|] eqn:E; try discriminate.
    injection H as <-. apply (inv2_frame s); auto.
    proj. intros j sn0 c todo u Ej. apply fset_cases in Ej. destruct Ej as [[_ Ej]|[_ Ej]]; [discriminate|exact Ej].
  - (* StopWait *) destruct (stops s k) as [[]|] eqn:E; try discriminate. destruct (wg s =? 0) eqn:W; try discriminate.
    injection H as <-. apply (inv2_frame s); auto.
    proj. intros j sn0 c todo u Ej. apply fset_cases in Ej. destruct Ej as [[_ Ej]|[_ Ej]]; [discriminate|exact Ej].
  - (* StopTimeout *) destruct (stops s k) as [[]|] eqn:E; try discriminate.
    injection H as <-. apply (inv2_frame s); auto.
    proj. intros j sn0 c todo u Ej. apply fset_cases in Ej. destruct Ej as [[_ Ej]|[_ Ej]]; [discriminate|exact Ej].
Qed.

(* ---------- third invariant: what Stop callers have already done to the flags ---------- *)
Definition past_cancel (p : spc) : bool := match p with SCalled => false | _ => true end.
Definition past_closel (p : spc) : bool := match p with SCalled | SCancelled => false | _ => true end.
Definition Inv3 (s : state) : Prop :=
  forall j p, stops s j = Some p -> (past_cancel p = true -> cancelled s = true) /\ (past_closel p = true -> lclosed s = true).

Lemma unreg_flags s c u s1 nu : unreg_step s c u = Some (s1, nu) ->
  cancelled s1 = cancelled s /\ lclosed s1 = lclosed s /\ stops s1 = stops s /\ maxc s1 = maxc s /\ idle s1 = idle s.
Proof.
  unfold unreg_step. destruct (conns s c); [|discriminate]. destruct u.
  - intros H; injection H as <- <-; auto.
  - destruct (k_once c0); intros H; try discriminate; injection H as <- <-; auto.
  - destruct (mem c (active s)); intros H; injection H as <- <-; auto.
Qed.

Lemma inv3_frame s s' : Inv3 s ->
  (cancelled s = true -> cancelled s' = true) -> (lclosed s = true -> lclosed s' = true) ->
  (forall j p, stops s' j = Some p ->
     (exists p0, stops s j = Some p0 /\ (past_cancel p = true -> past_cancel p0 = true) /\
                 (past_closel p = true -> past_closel p0 = true)) \/
     ((past_cancel p = true -> cancelled s' = true) /\ (past_closel p = true -> lclosed s' = true))) ->
  Inv3 s'.
Proof.
  intros I3 Hc Hl Hs j p Ej. destruct (Hs j p Ej) as [(p0 & E0 & A & B)|H]; [|exact H].
  destruct (I3 _ _ E0) as [F1 F2]. split; auto.
Qed.
Lemma close_conn_flags s c : cancelled (close_conn s c) = cancelled s /\ lclosed (close_conn s c) = lclosed s /\
  stops (close_conn s c) = stops s /\ maxc (close_conn s c) = maxc s /\ idle (close_conn s c) = idle s.
Proof. unfold close_conn. destruct (conns s c); auto. Qed.

Lemma step_inv3 s l s' : Inv3 s -> step s l = Some s' -> Inv3 s'.
Proof.
  intros I3 H.
  assert (Same : forall s1, cancelled s1 = cancelled s -> lclosed s1 = lclosed s -> stops s1 = stops s -> Inv3 s1).
  { intros s1 A B C. apply (inv3_frame s); auto; try congruence. intros j p Ej. left. exists p. rewrite <- C. auto. }
  assert (Upd : forall s1 k p0 p1, cancelled s1 = cancelled s -> lclosed s1 = lclosed s -> stops s k = Some p0 ->
            stops s1 = fset (stops s) k p1 -> past_cancel p1 = past_cancel p0 -> past_closel p1 = past_closel p0 -> Inv3 s1).
  { intros s1 k p0 p1 A B E0 C P1 P2. apply (inv3_frame s); auto; try congruence. intros j p Ej. left.
    rewrite C in Ej. apply fset_cases in Ej. destruct Ej as [[-> ->]|[Hne Ej]]; [exists p0|exists p]; repeat split; auto; congruence. }
  destruct l; cbn in H.
  - injection H as <-. apply Same; reflexivity.
  - destruct (acc s); try discriminate. destruct (conns s c); try discriminate. destruct (lclosed s) eqn:L; try discriminate.
    injection H as <-. apply Same; auto.
  - destruct (acc s); try discriminate. destruct (conns s c); try discriminate. destruct (k_ok c0); injection H as <-; apply Same; reflexivity.
  - destruct (acc s); try discriminate. destruct (conns s c); try discriminate.
    destruct ((0 <? maxc s)%Z && (maxc s <=? count s)%Z); injection H as <-; apply Same; reflexivity.
  - destruct (acc s); try discriminate. destruct (conns s c); try discriminate. injection H as <-; apply Same; reflexivity.
  - destruct (acc s); try discriminate. destruct (cancelled s || lclosed s); try discriminate. injection H as <-; apply Same; reflexivity.
  - destruct (conns s c); try discriminate. destruct (k_pc c0); try discriminate.
    destruct (mem c (active s)); injection H as <-; apply Same; reflexivity.
  - destruct (conns s c); try discriminate. destruct (k_pc c0); try discriminate. injection H as <-; apply Same; reflexivity.
  - destruct (conns s c); try discriminate. destruct (k_pc c0); try discriminate.
    destruct (unreg_step s c u) as [[s1 nu]|] eqn:U; try discriminate. destruct (conns s1 c); try discriminate.
    injection H as <-. destruct (unreg_flags _ _ _ _ _ U) as (A & B & C & _). apply Same; auto.
  - destruct (conns s c); try discriminate. destruct (k_pc c0); try discriminate. injection H as <-; apply Same; reflexivity.
  - destruct (reaper s); try discriminate. destruct (idle s =? 0); try discriminate. injection H as <-; apply Same; reflexivity.
  - destruct (reaper s) as [| |T [|c todo] [u|]|]; try discriminate. injection H as <-.
    destruct (close_conn_flags s c) as (A & B & C & _). apply Same; auto.
  - destruct (reaper s) as [| |T [|c todo] [u|]|]; try discriminate.
    destruct (unreg_step s c u) as [[s1 nu]|] eqn:U; try discriminate.
    destruct (unreg_flags _ _ _ _ _ U) as (A & B & C & _). destruct nu; injection H as <-; apply Same; auto.
  - destruct (reaper s) as [| |T [|c todo] [u|]|]; try discriminate. injection H as <-; apply Same; reflexivity.
  - destruct (reaper s); try discriminate. destruct (cancelled s) eqn:Cn; try discriminate. injection H as <-; apply Same; proj; auto.
  - (* StopCall *) destruct (stops s k) eqn:E; try discriminate. injection H as <-.
    apply (inv3_frame s); auto. intros j p Ej. proj_in Ej. apply fset_cases in Ej. destruct Ej as [[-> ->]|[Hne Ej]].
    + right. split; intros; discriminate.
    + left. exists p. auto.
  - (* StopCancel *) destruct (stops s k) as [[]|] eqn:E; try discriminate. injection H as <-.
    apply (inv3_frame s); auto. intros j p Ej. proj_in Ej. proj. apply fset_cases in Ej. destruct Ej as [[-> ->]|[Hne Ej]].
    + right. split; intros; [reflexivity|discriminate].
    + left. exists p. auto.
  - (* StopCloseL *) destruct (stops s k) as [[]|] eqn:E; try discriminate. injection H as <-.
    apply (inv3_frame s); auto. intros j p Ej. proj_in Ej. proj. apply fset_cases in Ej. destruct Ej as [[-> ->]|[Hne Ej]].
    + right. split; intros; [|reflexivity]. exact (proj1 (I3 _ _ E) eq_refl).
    + left. exists p. auto.
  - destruct (stops s k) as [[]|] eqn:E; try discriminate. injection H as <-. eapply (Upd _ k); [reflexivity|reflexivity|exact E|reflexivity|reflexivity|reflexivity].
  - destruct (stops s k) as [[| | |sn [|c todo] [u|]| | |]|] eqn:E; try discriminate. injection H as <-.
    destruct (close_conn_flags s c) as (A & B & C & _). eapply (Upd _ k); [exact A|exact B|exact E|proj; rewrite C; reflexivity|reflexivity|reflexivity].
  - destruct (stops s k) as [[| | |sn [|c todo] [u|]| | |]|] eqn:E; try discriminate.
    destruct (unreg_step s c u) as [[s1 nu]|] eqn:U; try discriminate.
    destruct (unreg_flags _ _ _ _ _ U) as (A & B & C & _).
    destruct nu; injection H as <-; (eapply (Upd _ k); [exact A|exact B|exact E|proj; rewrite C; reflexivity|reflexivity|reflexivity]).
  - destruct (stops s k) as [[| | |sn [|c todo] [u|]| | |]|] eqn:E; try discriminate. injection H as <-. eapply (Upd _ k); [reflexivity|reflexivity|exact E|reflexivity|reflexivity|reflexivity].
  - destruct (stops s k) as [[]|] eqn:E; try discriminate. destruct (wg s =? 0); try discriminate.
    injection H as <-. eapply (Upd _ k); [reflexivity|reflexivity|exact E|reflexivity|reflexivity|reflexivity].
  - destruct (stops s k) as [[]|] eqn:E; try discriminate. injection H as <-. eapply (Upd _ k); [reflexivity|reflexivity|exact E|reflexivity|reflexivity|reflexivity].
Qed.

Lemma step_consts s l s' : step s l = Some s' -> maxc s' = maxc s /\ idle s' = idle s.
Proof.
  intros H. destruct l; cbn in H; step_inv H; proj;
    repeat match goal with U : unreg_step _ _ _ = Some _ |- _ => apply unreg_flags in U; destruct U as (? & ? & ? & ? & ?) end;
    try (match goal with |- context [close_conn ?s ?c] => destruct (close_conn_flags s c) as (? & ? & ? & ? & ?) end);
    auto.
Qed.

Lemma run_all tr : forall s s', Inv s -> Inv2 s -> Inv3 s -> run s tr = Some s' ->
  Inv s' /\ Inv2 s' /\ Inv3 s' /\ maxc s' = maxc s /\ idle s' = idle s.
Proof.
  induction tr as [|l tr IH]; cbn; intros s s' I I2 I3 H.
  - injection H as <-. auto.
  - destruct (step s l) as [s1|] eqn:E; [|discriminate].
    destruct (IH s1 s' (step_inv_preserved _ _ _ I E) (step_inv2_preserved _ _ _ I I2 E) (step_inv3 _ _ _ I3 E) H)
      as (A & B & C & D & F).
    destruct (step_consts _ _ _ E) as [M1 M2]. refine (conj A (conj B (conj C (conj _ _)))); [rewrite D; exact M1|rewrite F; exact M2].
Qed.
Lemma reachable_all mx idl tr s : run (init mx idl) tr = Some s ->
  Inv s /\ Inv2 s /\ Inv3 s /\ maxc s = mx /\ idle s = idl.
Proof.
  intros H. apply (run_all tr (init mx idl)); auto.
  - apply inv_init. - apply inv2_init. - intros j p E. discriminate.
Qed.

(* ---------- lemmas behind the C17 theorems ---------- *)
(* a connection that is being served (goroutine in its loop, socket not closed by anybody) *)
Definition served (s : state) (c : N) : Prop :=
  exists k, conns s c = Some k /\ k_pc k = KServing /\ k_closed k = false.

Lemma served_active s c : Inv s -> Inv2 s -> served s c -> In c (active s).
Proof.
  intros I I2 (k & E & P & Cl). pose proof (c_conn _ I _ _ E) as (B1 & B2 & B3 & B4 & B5 & B6 & B7).
  rewrite P in B7. apply B3. split; [exact B7|].
  destruct (N.eq_dec (k_uncnt k) 0) as [Z|Z]; [exact Z|]. assert (U : k_uncnt k = 1) by lia.
  rewrite (d_conn _ I2 _ _ E) in Cl; [discriminate|]. left. exact U.
Qed.

Lemma bounded_lemma mx idl tr s : run (init mx idl) tr = Some s ->
  NoDup (active s) /\ count s = Z.of_nat (length (active s)) /\
  ((0 < mx)%Z -> (count s <= mx)%Z /\
                 forall l, NoDup l -> (forall c, In c l -> served s c) -> (Z.of_nat (length l) <= mx)%Z).
Proof.
  intros R. destruct (reachable_all _ _ _ _ R) as (I & I2 & I3 & M & Il).
  split; [exact (c_nodup _ I)|]. split; [exact (c_count _ I)|]. intros Hm.
  assert (Cm : (count s <= mx)%Z) by (rewrite <- M; apply (c_max _ I); rewrite M; exact Hm).
  split; [exact Cm|]. intros l ND Hl.
  assert (Hi : incl l (active s)) by (intros c Hc; apply served_active; auto).
  pose proof (NoDup_incl_length ND Hi) as L. pose proof (c_count _ I). lia.
Qed.

Lemma once_lemma s : reachable s -> forall c k, conns s c = Some k ->
  k_cnt k <= 1 /\ k_uncnt k <= k_cnt k /\ (In c (active s) <-> k_cnt k = 1 /\ k_uncnt k = 0) /\
  (k_pc k = KRejected -> k_cnt k = 0) /\
  (k_pc k = KServing \/ (exists u, k_pc k = KUnreg u) -> k_cnt k = 1) /\
  (k_pc k = KFin \/ k_pc k = KDone -> k_cnt k = 1 /\ k_uncnt k = 1).
Proof.
  intros R c k E. apply reachable_Inv in R. pose proof (c_conn _ R _ _ E) as (B1 & B2 & B3 & B4 & B5 & B6 & B7).
  repeat split; auto; try tauto.
  - intros P. rewrite P in B7. exact B7.
  - intros [P|[u P]]; rewrite P in B7; exact B7.
  - destruct H as [P|P]; rewrite P in B7; tauto.
  - destruct H as [P|P]; rewrite P in B7; tauto.
Qed.

Lemma reap_lemma s : reachable s ->
  tickT s <= now s /\
  forall c k, In c (active s) -> conns s c = Some k -> tickT s <= k_last k + idle s /\ k_last k <= now s.
Proof.
  intros R. apply reachable_Inv in R. destruct (c_tick _ R) as [T1 T2]. split; [exact T1|].
  intros c k Hc E. split; [eauto|]. exact (proj1 (proj2 (proj2 (proj2 (proj2 (c_conn _ R _ _ E)))))).
Qed.
(* the tick itself: when it completes its scan time becomes tickT, and everything it found idle is gone *)
Lemma reap_tick_lemma s s' T : reachable s -> reaper s = RWork T [] None -> step s RTickDone = Some s' ->
  tickT s' = T /\ active s' = active s /\
  forall c k, In c (active s') -> conns s' c = Some k -> T - k_last k <= idle s'.
Proof.
  intros R Rp H. cbn in H. rewrite Rp in H. injection H as <-. proj. repeat split; auto.
  intros c k Hc E. apply reachable_Inv in R. pose proof (c_reaper _ R) as Hr. unfold reaper_ok in Hr. rewrite Rp in Hr.
  destruct Hr as (_ & _ & R3). destruct (R3 c k Hc E) as [H|[]]. proj. lia.
Qed.

Lemma stop_lemma s j sn : reachable s -> stops s j = Some (SRetOk sn) ->
  active s = [] /\ count s = 0%Z /\ acc s = AExited /\ reaper_live s = false /\ live s = [] /\ wg s = 0 /\
  (forall c k, conns s c = Some k -> k_live k = false) /\ cancelled s = true /\ lclosed s = true.
Proof.
  intros (mx & idl & tr & R) Ej. destruct (reachable_all _ _ _ _ R) as (I & I2 & I3 & _ & _).
  pose proof (c_stops _ I _ _ Ej) as Hs. cbn in Hs. destruct Hs as [_ W].
  pose proof (c_wg _ I) as Wg. rewrite W in Wg.
  unfold b2n in Wg.
  assert (A : acc_live s = false) by (destruct (acc_live s), (reaper_live s); try lia; reflexivity).
  assert (Rl : reaper_live s = false) by (destruct (acc_live s), (reaper_live s); try lia; reflexivity).
  assert (L : live s = []) by (destruct (live s); [reflexivity|cbn [length] in Wg; destruct (acc_live s), (reaper_live s); lia]).
  assert (Ae : acc s = AExited) by (unfold acc_live in A; destruct (acc s); try discriminate; reflexivity).
  assert (Act : active s = []).
  { destruct (active s) as [|c l] eqn:Ea; [reflexivity|exfalso].
    assert (Hc : In c (active s)) by (rewrite Ea; left; reflexivity).
    destruct (c_active_ex _ I _ Hc) as (k & E). pose proof (c_conn _ I _ _ E) as (B1 & B2 & B3 & B4 & B5 & B6 & B7).
    apply B3 in Hc. destruct Hc as [C1 U0]. rewrite L in B6. unfold k_live in B6.
    destruct (k_pc k); try lia.
    - destruct B7 as [_ B8]. apply B8 in C1. congruence.
    - destruct B6 as [_ B6]. destruct (B6 eq_refl).
    - destruct B6 as [_ B6]. destruct (B6 eq_refl). }
  repeat split; auto.
  - pose proof (c_count _ I) as Cn. rewrite Act in Cn. exact Cn.
  - intros c k E. pose proof (c_conn _ I _ _ E) as (_ & _ & _ & _ & _ & B6 & _). rewrite L in B6.
    destruct (k_live k); [destruct (proj2 B6 eq_refl)|reflexivity].
  - apply (I3 _ _ Ej). reflexivity.
  - apply (I3 _ _ Ej). reflexivity.
Qed.

(* Stop that gave up waiting (5 s timer) or is still waiting: every connection of its snapshot has been
   closed and unregistered, whatever the goroutines are doing *)
Lemma stop_partial_lemma s j sn : reachable s ->
  stops s j = Some (SWaiting sn) \/ stops s j = Some (SRetTimeout sn) \/ stops s j = Some (SRetOk sn) ->
  cancelled s = true /\ lclosed s = true /\
  forall c, In c sn -> ~ In c (active s) /\ closed_c s c.
Proof.
  intros (mx & idl & tr & R) Ej. destruct (reachable_all _ _ _ _ R) as (I & I2 & I3 & _ & _).
  assert (exists p, stops s j = Some p /\ past_closel p = true /\ forall c, In c sn -> registered_once s c /\ ~ In c (active s))
    as (p & Ep & Pp & Hs).
  { destruct Ej as [E|[E|E]]; pose proof (c_stops _ I _ _ E) as Hs; cbn in Hs; eexists; (split; [exact E|]); split; auto; tauto. }
  split; [apply (I3 _ _ Ep); destruct p; auto; discriminate|]. split; [apply (I3 _ _ Ep); exact Pp|].
  intros c Hc. destruct (Hs c Hc) as [(k & E & C1) Na]. split; [exact Na|].
  exists k. split; [exact E|]. apply (d_conn _ I2 _ _ E). left. apply (not_active_uncounted s c k); auto.
Qed.

(* Stop after Stop: a second complete Stop call changes nothing but its own record *)
Lemma stop_twice_lemma s j sn k : reachable s -> stops s j = Some (SRetOk sn) -> stops s k = None ->
  exists s', run s [StopCall k; StopCancel k; StopCloseL k; StopCollect k; StopCollected k; StopWait k] = Some s' /\
    stops s' k = Some (SRetOk []) /\ (forall x, x <> k -> stops s' x = stops s x) /\
    active s' = active s /\ count s' = count s /\ conns s' = conns s /\ acc s' = acc s /\ reaper s' = reaper s /\
    live s' = live s /\ wg s' = wg s /\ cancelled s' = cancelled s /\ lclosed s' = lclosed s /\ now s' = now s.
Proof.
  intros R Ej Ek. destruct (stop_lemma s j sn R Ej) as (A & C & Ac & Rl & L & W & _ & Cn & Lc).
  cbn. rewrite Ek. cbn. rewrite fset_eq. cbn. rewrite fset_eq. cbn. rewrite fset_eq. cbn. rewrite A, fset_eq. cbn.
  rewrite fset_eq. cbn. rewrite W. cbn. eexists. split; [reflexivity|]. cbn. rewrite fset_eq.
  repeat split; auto. intros x Hx. rewrite !fset_neq by exact Hx. reflexivity.
Qed.

(* Close / Unexport *)
Lemma nfs_close_lemma n : n_handles (nfs_close n) = [] /\ n_attr (nfs_close n) = [] /\ n_dir (nfs_close n) = [] /\
  n_server (nfs_close n) = false /\ n_pool (nfs_close n) = false /\ nfs_close (nfs_close n) = nfs_close n.
Proof. repeat split. Qed.
Lemma nfs_unexport_lemma n : n_handles (nfs_unexport n) = [] /\ n_attr (nfs_unexport n) = [] /\ n_dir (nfs_unexport n) = [] /\
  n_server (nfs_unexport n) = false /\ nfs_unexport (nfs_unexport n) = nfs_unexport n /\
  nfs_close (nfs_unexport n) = nfs_close n /\ nfs_unexport (nfs_close n) = nfs_close n.
Proof. repeat split. Qed.
(* over histories: whatever happened before, and however often Close/Unexport are repeated afterwards *)
Lemma nfs_history_lemma ops reps : 
  let n := fold_left nfs_apply (ops ++ [NClose] ++ repeat NClose reps) nfs_init in
  n_handles n = [] /\ n_attr n = [] /\ n_dir n = [] /\ n_server n = false /\ n_pool n = false.
Proof.
  cbn zeta. rewrite !fold_left_app. cbn [fold_left nfs_apply].
  induction reps as [|r IH]; cbn; [repeat split|exact IH].
Qed.
