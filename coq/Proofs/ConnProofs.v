(* Proofs/ConnProofs.v — invariants of Model/ConnLTS.v over arbitrary traces, and the lemmas behind C17. *)
From Coq Require Import List NArith ZArith Bool Lia ZifyBool ZifyN ZifyNat.
From Verif Require Import Model.ConnLTS.
Import ListNotations.
Open Scope N_scope.

Lemma fset_eq {A} (m : fmap A) k v : fset m k v k = Some v.
Proof. unfold fset. rewrite N.eqb_refl. reflexivity. Qed.
Lemma fset_neq {A} (m : fmap A) k v x : x <> k -> fset m k v x = m x.
Proof. intros H. unfold fset. destruct (N.eqb_spec x k); [contradiction|reflexivity]. Qed.
Lemma fset_cases {A} (m : fmap A) k v x y :
  fset m k v x = Some y -> (x = k /\ y = v) \/ (x <> k /\ m x = Some y).
Proof. unfold fset. destruct (N.eqb_spec x k); intros H; [left|right]; split; congruence. Qed.
Lemma mem_In x l : mem x l = true <-> In x l.
Proof.
  unfold mem. rewrite existsb_exists. split.
  - intros [y [Hy E]]. apply N.eqb_eq in E. subst. exact Hy.
  - intros H. exists x. split; [exact H|apply N.eqb_refl].
Qed.
Lemma mem_false x l : mem x l = false <-> ~ In x l.
Proof. rewrite <- mem_In. destruct (mem x l); split; congruence. Qed.
Lemma remove_c_In r x l : In x (remove_c r l) <-> In x l /\ x <> r.
Proof.
  unfold remove_c. rewrite filter_In. split; intros [H1 H2]; split; auto.
  - intros ->. rewrite N.eqb_refl in H2. discriminate.
  - destruct (N.eqb_spec x r); [contradiction|reflexivity].
Qed.
Lemma remove_c_NoDup r l : NoDup l -> NoDup (remove_c r l).
Proof. apply NoDup_filter. Qed.
Lemma remove_c_length r l : NoDup l -> In r l -> S (length (remove_c r l)) = length l.
Proof.
  induction l as [|a l IH]; intros ND Hin; [destruct Hin|].
  inversion ND as [|? ? Hn ND']; subst. cbn. destruct (N.eqb_spec a r) as [->|Hne]; cbn.
  - f_equal. unfold remove_c. clear IH ND Hin ND'. induction l as [|b l IH]; cbn; [reflexivity|].
    destruct (N.eqb_spec b r) as [->|Hb]; cbn; [exfalso; apply Hn; left; reflexivity|].
    f_equal. apply IH. intros H. apply Hn. right. exact H.
  - f_equal. apply IH; [exact ND'|]. destruct Hin; [congruence|assumption].
Qed.

Definition acc_holds (a : apc) (c : N) : Prop := a = AHave c \/ a = AFiltered c \/ a = ARegistered c.
Definition b2n (b : bool) : N := if b then 1 else 0.

Definition conn_ok (s : state) (c : N) (k : conn) : Prop :=
  k_cnt k <= 1 /\ k_uncnt k <= k_cnt k /\
  (In c (active s) <-> (k_cnt k = 1 /\ k_uncnt k = 0)) /\
  (k_once k = ODone -> k_uncnt k = 1) /\
  k_last k <= now s /\
  (In c (live s) <-> k_live k = true) /\
  match k_pc k with
  | KPre => acc_holds (acc s) c /\ (k_cnt k = 1 <-> acc s = ARegistered c)
  | KRejected => k_cnt k = 0
  | KServing | KUnreg _ => k_cnt k = 1
  | KFin | KDone => k_cnt k = 1 /\ k_uncnt k = 1
  end.

Definition registered_once (s : state) (c : N) : Prop := exists k, conns s c = Some k /\ k_cnt k = 1.

Definition reaper_ok (s : state) : Prop :=
  match reaper s with
  | RWork T todo u =>
      T <= now s /\ (forall c, In c todo -> registered_once s c) /\
      (forall c k, In c (active s) -> conns s c = Some k -> T <= k_last k + idle s \/ In c todo)
  | _ => True
  end.

Definition stop_ok (s : state) (p : spc) : Prop :=
  match p with
  | SWork sn todo u =>
      (forall c, In c sn -> registered_once s c) /\ incl todo sn /\
      (forall c, In c sn -> In c todo \/ ~ In c (active s))
  | SWaiting sn | SRetTimeout sn => forall c, In c sn -> registered_once s c /\ ~ In c (active s)
  | SRetOk sn => (forall c, In c sn -> registered_once s c /\ ~ In c (active s)) /\ wg s = 0
  | _ => True
  end.

Record Inv (s : state) : Prop := {
  c_nodup : NoDup (active s);
  c_count : count s = Z.of_nat (length (active s));
  c_max : (0 < maxc s)%Z -> (count s <= maxc s)%Z;
  c_conn : forall c k, conns s c = Some k -> conn_ok s c k;
  c_active_ex : forall c, In c (active s) -> exists k, conns s c = Some k;
  c_live_ex : forall c, In c (live s) -> exists k, conns s c = Some k;
  c_live_nodup : NoDup (live s);
  c_wg : wg s = b2n (acc_live s) + b2n (reaper_live s) + N.of_nat (length (live s));
  c_acc : forall c, acc_holds (acc s) c -> exists k, conns s c = Some k /\ k_pc k = KPre;
  c_reaper : reaper_ok s;
  c_tick : tickT s <= now s /\ forall c k, In c (active s) -> conns s c = Some k -> tickT s <= k_last k + idle s;
  c_stops : forall j p, stops s j = Some p -> stop_ok s p }.

Lemma inv_init mx idl : Inv (init mx idl).
Proof.
  unfold init. destruct (idl =? 0) eqn:Z0; constructor; cbn; unfold reaper_ok; cbn;
    try (intros; discriminate); try (intros; contradiction); try constructor; try lia; auto.
  all: try (intros c [H|[H|H]]; discriminate).
  all: try (intros; contradiction).
Qed.

Ltac step_inv H :=
  repeat match type of H with
  | match ?x with _ => _ end = Some _ => let E := fresh "E" in destruct x eqn:E; try discriminate H
  | (if ?x then _ else _) = Some _ => let E := fresh "E" in destruct x eqn:E; try discriminate H
  end;
  try (injection H as H); try subst.
Ltac proj := cbn [maxc idle now conns active count acc reaper stops cancelled lclosed wg live tickT
                  set_conn set_active set_acc set_reaper set_stop set_flags set_wg set_now set_tickT].
Ltac proj_in H := cbn [maxc idle now conns active count acc reaper stops cancelled lclosed wg live tickT
                  set_conn set_active set_acc set_reaper set_stop set_flags set_wg set_now set_tickT] in H.

(* ---------- frame lemmas ---------- *)
Lemma inv_set_flags s a b : Inv s -> Inv (set_flags s a b).
Proof. intros I. destruct I as [I1 I2 I3 I4 I5 I6 I7 I8 I9 I10 I11 I12]. constructor; assumption. Qed.

Lemma inv_set_stop s j p : Inv s -> stop_ok s p -> Inv (set_stop s j p).
Proof.
  intros I Hp. destruct I as [c_nodup0 c_count0 c_max0 c_conn0 c_active_ex0 c_live_ex0 c_live_nodup0 c_wg0 c_acc0 c_reaper0 c_tick0 c_stops0]. constructor; try assumption.
  intros j' p' E. proj_in E. apply fset_cases in E. destruct E as [[-> ->]|[_ E]]; [exact Hp|exact (c_stops0 _ _ E)].
Qed.

Lemma inv_set_reaper s r : Inv s -> reaper_live (set_reaper s r) = reaper_live s -> reaper_ok (set_reaper s r) ->
  Inv (set_reaper s r).
Proof.
  intros I L Hr. destruct I as [c_nodup0 c_count0 c_max0 c_conn0 c_active_ex0 c_live_ex0 c_live_nodup0 c_wg0 c_acc0 c_reaper0 c_tick0 c_stops0]. constructor; try assumption.
  proj. rewrite L. exact c_wg0.
Qed.

(* replacing a connection record by one that differs only in k_once / k_closed *)
Lemma inv_set_conn_frame s c k k' : Inv s -> conns s c = Some k ->
  k_cnt k' = k_cnt k -> k_uncnt k' = k_uncnt k -> k_last k' = k_last k ->
  k_live k' = k_live k -> (k_pc k = KPre -> k_pc k' = KPre) ->
  match k_pc k' with
  | KPre => acc_holds (acc s) c /\ (k_cnt k' = 1 <-> acc s = ARegistered c)
  | KRejected => k_cnt k' = 0
  | KServing | KUnreg _ => k_cnt k' = 1
  | KFin | KDone => k_cnt k' = 1 /\ k_uncnt k' = 1
  end ->
  (k_once k' = ODone -> k_uncnt k' = 1) ->
  Inv (set_conn s c k').
Proof.
  intros I E Hc Hu Hl Hlv Hpre Hcl Ho.
  assert (RO : forall x, registered_once s x -> registered_once (set_conn s c k') x).
  { intros x (kx & Ex & Cx). unfold registered_once. proj. destruct (N.eq_dec x c) as [->|Hne].
    - rewrite fset_eq. exists k'. split; [reflexivity|]. congruence.
    - rewrite fset_neq by exact Hne. eauto. }
  assert (LK : forall x kx, fset (conns s) c k' x = Some kx ->
               exists k0, conns s x = Some k0 /\ k_cnt kx = k_cnt k0 /\ k_uncnt kx = k_uncnt k0 /\
                          k_last kx = k_last k0 /\ (x <> c -> kx = k0)).
  { intros x kx Ex. apply fset_cases in Ex. destruct Ex as [[-> ->]|[Hne Ex]].
    - exists k. repeat split; auto. intros; congruence.
    - exists kx. repeat split; auto. }
  destruct I as [c_nodup0 c_count0 c_max0 c_conn0 c_active_ex0 c_live_ex0 c_live_nodup0 c_wg0 c_acc0 c_reaper0 c_tick0 c_stops0].
  constructor; proj; try assumption.
  - intros x kx Ex. apply fset_cases in Ex. destruct Ex as [[-> ->]|[Hne Ex]].
    + pose proof (c_conn0 _ _ E) as (B1 & B2 & B3 & B4 & B5 & B6 & B7).
      unfold conn_ok. proj. rewrite Hc, Hu, Hl, Hlv. repeat split; auto; try tauto.
      * intros Hd. rewrite <- Hu. auto.
      * rewrite <- Hc, <- Hu. exact Hcl.
    + exact (c_conn0 _ _ Ex).
  - intros x Hx. destruct (N.eq_dec x c) as [->|Hne]; [rewrite fset_eq; eauto|rewrite fset_neq by exact Hne; auto].
  - intros x Hx. destruct (N.eq_dec x c) as [->|Hne]; [rewrite fset_eq; eauto|rewrite fset_neq by exact Hne; auto].
  - intros x Hx. destruct (c_acc0 _ Hx) as (kx & Ex & Px). destruct (N.eq_dec x c) as [->|Hne].
    + rewrite fset_eq. exists k'. split; [reflexivity|]. apply Hpre. congruence.
    + rewrite fset_neq by exact Hne. eauto.
  - unfold reaper_ok in *. proj. destruct (reaper s); auto. destruct c_reaper0 as (R1 & R2 & R3).
    repeat split; auto. intros x kx Hx Ex. destruct (LK _ _ Ex) as (k0 & E0 & A1 & A2 & A3 & A5).
    rewrite A3. eauto.
  - destruct c_tick0 as [T1 T2]. split; [exact T1|]. intros x kx Hx Ex.
    destruct (LK _ _ Ex) as (k0 & E0 & A1 & A2 & A3 & A5). rewrite A3. eauto.
  - intros j p Ej. pose proof (c_stops0 _ _ Ej) as Hs. unfold stop_ok in *.
    destruct p; auto.
    + destruct Hs as (S1 & S2 & S3). repeat split; auto.
    + intros x Hx. destruct (Hs x Hx). split; auto.
    + destruct Hs as [Hs W]. split; [|exact W]. intros x Hx. destruct (Hs x Hx). split; auto.
    + intros x Hx. destruct (Hs x Hx). split; auto.
Qed.

Lemma inv_uncount s c k : Inv s -> conns s c = Some k -> In c (active s) ->
  Inv (set_active (set_conn s c (k_with_once (k_uncounted k) ODone)) (remove_c c (active s)) (count s - 1)%Z).
Proof.
  intros I E Hin.
  pose proof (c_conn _ I _ _ E) as (B1 & B2 & B3 & B4 & B5 & B6 & B7).
  assert (Cn : k_cnt k = 1 /\ k_uncnt k = 0) by (apply B3; exact Hin). destruct Cn as [Cn Un].
  set (k' := k_with_once (k_uncounted k) ODone).
  assert (RO : forall x, registered_once s x -> registered_once (set_active (set_conn s c k') (remove_c c (active s)) (count s - 1)%Z) x).
  { intros x (kx & Ex & Cx). unfold registered_once. proj. destruct (N.eq_dec x c) as [->|Hne].
    - rewrite fset_eq. exists k'. split; [reflexivity|]. cbn. congruence.
    - rewrite fset_neq by exact Hne. eauto. }
  assert (LK : forall x kx, fset (conns s) c k' x = Some kx ->
               (x = c /\ kx = k') \/ (x <> c /\ conns s x = Some kx)) by (intros; apply fset_cases; assumption).
  destruct I as [c_nodup0 c_count0 c_max0 c_conn0 c_active_ex0 c_live_ex0 c_live_nodup0 c_wg0 c_acc0 c_reaper0 c_tick0 c_stops0].
  constructor; proj.
  - apply remove_c_NoDup. exact c_nodup0.
  - pose proof (remove_c_length c (active s) c_nodup0 Hin). lia.
  - intros Hm. specialize (c_max0 Hm). lia.
  - intros x kx Ex. destruct (LK _ _ Ex) as [[-> ->]|[Hne Ex']].
    + unfold conn_ok, k_live in *. proj. subst k'. cbn [k_cnt k_uncnt k_once k_last k_pc k_with_once k_uncounted].
      repeat split; auto; try lia.
      all: try (exfalso; match goal with H : In _ (remove_c _ _) |- _ => apply remove_c_In in H; tauto end).
      all: try (intros Hx; apply remove_c_In in Hx; tauto).
      all: try (intros [_ Hx]; lia).
      all: try apply B6.
      all: destruct (k_pc k); auto; try (destruct B7; lia).
    + pose proof (c_conn0 _ _ Ex') as (D1 & D2 & D3 & D4 & D5 & D6 & D7).
      unfold conn_ok. proj. repeat split; auto; try tauto.
      all: try (match goal with H : In _ (remove_c _ _) |- _ => apply remove_c_In in H; tauto end).
      all: try (apply remove_c_In; split; [tauto|exact Hne]).
      all: try (intros Hx; apply remove_c_In in Hx; tauto).
      all: try (intros Hx; apply remove_c_In; split; [tauto|exact Hne]).
  - intros x Hx. apply remove_c_In in Hx. destruct Hx as [Hx Hne]. rewrite fset_neq by exact Hne. auto.
  - intros x Hx. destruct (N.eq_dec x c) as [->|Hne]; [rewrite fset_eq; eauto|rewrite fset_neq by exact Hne; auto].
  - exact c_live_nodup0.
  - exact c_wg0.
  - intros x Hx. destruct (c_acc0 _ Hx) as (kx & Ex & Px). destruct (N.eq_dec x c) as [->|Hne].
    + rewrite fset_eq. exists k'. split; [reflexivity|]. cbn. congruence.
    + rewrite fset_neq by exact Hne. eauto.
  - unfold reaper_ok in *. proj. destruct (reaper s); auto. destruct c_reaper0 as (R1 & R2 & R3).
    repeat split; auto. intros x kx Hx Ex. apply remove_c_In in Hx. destruct Hx as [Hx Hne].
    rewrite fset_neq in Ex by exact Hne. eauto.
  - destruct c_tick0 as [T1 T2]. split; [exact T1|]. intros x kx Hx Ex.
    apply remove_c_In in Hx. destruct Hx as [Hx Hne]. rewrite fset_neq in Ex by exact Hne. eauto.
  - intros j p Ej. pose proof (c_stops0 _ _ Ej) as Hs. unfold stop_ok in *. proj.
    assert (NI : forall x, ~ In x (active s) -> ~ In x (remove_c c (active s)))
      by (intros x Hx Hy; apply remove_c_In in Hy; tauto).
    destruct p; auto.
    + destruct Hs as (S1 & S2 & S3). repeat split; auto. intros x Hx. destruct (S3 x Hx); auto.
    + intros x Hx. destruct (Hs x Hx). split; auto.
    + destruct Hs as [Hs W]. split; [|exact W]. intros x Hx. destruct (Hs x Hx). split; auto.
    + intros x Hx. destruct (Hs x Hx). split; auto.
Qed.

Lemma pc_clause_same s c k k' : conns s c = Some k -> Inv s -> k_pc k' = k_pc k -> k_cnt k' = k_cnt k -> k_uncnt k' = k_uncnt k ->
  match k_pc k' with
  | KPre => acc_holds (acc s) c /\ (k_cnt k' = 1 <-> acc s = ARegistered c)
  | KRejected => k_cnt k' = 0
  | KServing | KUnreg _ => k_cnt k' = 1
  | KFin | KDone => k_cnt k' = 1 /\ k_uncnt k' = 1
  end.
Proof.
  intros E I Hp Hc Hu. pose proof (c_conn _ I _ _ E) as (_ & _ & _ & _ & _ & _ & B7).
  rewrite Hp, Hc, Hu. exact B7.
Qed.

Lemma not_active_uncounted s c k : Inv s -> conns s c = Some k -> k_cnt k = 1 -> ~ In c (active s) -> k_uncnt k = 1.
Proof.
  intros I E C N. pose proof (c_conn _ I _ _ E) as (B1 & B2 & B3 & _).
  destruct (N.eq_dec (k_uncnt k) 0) as [Z|Z]; [exfalso; apply N; apply B3; auto|lia].
Qed.

(* one sub-step of unregisterConnection keeps the invariant (thread program counters untouched) *)
Lemma unreg_inv s c u s1 nu : Inv s -> registered_once s c -> unreg_step s c u = Some (s1, nu) ->
  Inv s1 /\ (nu = None -> ~ In c (active s1)) /\ reaper s1 = reaper s /\ stops s1 = stops s /\
  (forall x kx, conns s x = Some kx -> exists kx', conns s1 x = Some kx' /\ k_pc kx' = k_pc kx) /\
  (forall x, registered_once s x -> registered_once s1 x).
Proof.
  intros I (k & E & C) H. unfold unreg_step in H. rewrite E in H.
  assert (Same : forall x kx, conns s x = Some kx -> exists kx', conns s x = Some kx' /\ k_pc kx' = k_pc kx) by eauto.
  assert (SetSame : forall k', k_pc k' = k_pc k -> forall x kx, conns s x = Some kx ->
            exists kx', fset (conns s) c k' x = Some kx' /\ k_pc kx' = k_pc kx).
  { intros k' Hp x kx Ex. destruct (N.eq_dec x c) as [->|Hne].
    - rewrite fset_eq. exists k'. split; [reflexivity|]. congruence.
    - rewrite fset_neq by exact Hne. eauto. }
  assert (SetRO : forall k', k_cnt k' = 1 -> forall x, registered_once s x ->
            exists kx, fset (conns s) c k' x = Some kx /\ k_cnt kx = 1).
  { intros k' Hc x (kx & Ex & Cx). destruct (N.eq_dec x c) as [->|Hne].
    - rewrite fset_eq. eauto.
    - rewrite fset_neq by exact Hne. eauto. }
  destruct u.
  - (* U1 *) injection H as <- <-. refine (conj I (conj _ (conj eq_refl (conj eq_refl (conj Same _))))); [|auto].
    intros Hn. destruct (mem c (active s)) eqn:M; [discriminate|]. apply mem_false. exact M.
  - (* U2 *) destruct (k_once k) eqn:O; try discriminate; injection H as <- <-.
    + refine (conj _ (conj _ (conj eq_refl (conj eq_refl (conj _ _))))); proj.
      * apply (inv_set_conn_frame s c k); auto; try reflexivity.
        -- apply (pc_clause_same s c k); auto.
        -- cbn. discriminate.
      * discriminate.
      * apply SetSame. reflexivity.
      * intros x Hx. unfold registered_once; proj. eapply SetRO; [|exact Hx]. exact C.
    + refine (conj I (conj _ (conj eq_refl (conj eq_refl (conj Same _))))); [|auto]. intros _.
      pose proof (c_conn _ I _ _ E) as (B1 & B2 & B3 & B4 & _). specialize (B4 O). intros Hin. apply B3 in Hin. lia.
  - (* U3 *) destruct (mem c (active s)) eqn:M; injection H as <- <-.
    + apply mem_In in M. refine (conj _ (conj _ (conj eq_refl (conj eq_refl (conj _ _))))); proj.
      * apply inv_uncount; auto.
      * intros _ Hin. apply remove_c_In in Hin. tauto.
      * apply SetSame. reflexivity.
      * intros x Hx. unfold registered_once; proj. eapply SetRO; [|exact Hx]. exact C.
    + apply mem_false in M. refine (conj _ (conj _ (conj eq_refl (conj eq_refl (conj _ _))))); proj.
      * apply (inv_set_conn_frame s c k); auto; try reflexivity.
        -- apply (pc_clause_same s c k); auto.
        -- intros _. cbn. apply (not_active_uncounted s c k); auto.
      * intros _. exact M.
      * apply SetSame. reflexivity.
      * intros x Hx. unfold registered_once; proj. eapply SetRO; [|exact Hx]. exact C.
Qed.
