(* Proofs/ConnProofs.v — invariants of Model/ConnLTS.v over arbitrary traces, and the lemmas behind C17. *)
From Coq Require Import List NArith ZArith Bool Lia ZifyBool ZifyN ZifyNat.
From Verif Require Import Model.ConnLTS.
Import ListNotations.
Open Scope N_scope.

Lemma fset_eq {A} (m : fmap A) k v : fset m k v k = Some v.
Proof. unfold fset. rewrite N.eqb_refl. reflexivity. Qed.
Lemma fset_neq {A} (m : fmap A) k v x : x <> k -> fset m k v x = m x.
Proof. intros H. unfold fset. destruct (N.eqb_spec x k); [contradiction|reflexivity]. Qed.
Lemma fset_cases {A} (m : fmap A) k v x y :
  fset m k v x = Some y -> (x = k /\ y = v) \/ (x <> k /\ m x = Some y).
Proof. unfold fset. destruct (N.eqb_spec x k); intros H; [left|right]; split; congruence. Qed.
Lemma mem_In x l : mem x l = true <-> In x l.
Proof.
  unfold mem. rewrite existsb_exists. split.
  - intros [y [Hy E]]. apply N.eqb_eq in E. subst. exact Hy.
  - intros H. exists x. split; [exact H|apply N.eqb_refl].
Qed.
Lemma mem_false x l : mem x l = false <-> ~ In x l.
Proof. rewrite <- mem_In. destruct (mem x l); split; congruence. Qed.
Lemma remove_c_In r x l : In x (remove_c r l) <-> In x l /\ x <> r.
Proof.
  unfold remove_c. rewrite filter_In. split; intros [H1 H2]; split; auto.
  - intros ->. rewrite N.eqb_refl in H2. discriminate.
  - destruct (N.eqb_spec x r); [contradiction|reflexivity].
Qed.
Lemma remove_c_NoDup r l : NoDup l -> NoDup (remove_c r l).
Proof. apply NoDup_filter. Qed.
Lemma remove_c_length r l : NoDup l -> In r l -> S (length (remove_c r l)) = length l.
Proof.
  induction l as [|a l IH]; intros ND Hin; [destruct Hin|].
  inversion ND as [|? ? Hn ND']; subst. cbn. destruct (N.eqb_spec a r) as [->|Hne]; cbn.
  - f_equal. unfold remove_c. clear IH ND Hin ND'. induction l as [|b l IH]; cbn; [reflexivity|].
    destruct (N.eqb_spec b r) as [->|Hb]; cbn; [exfalso; apply Hn; left; reflexivity|].
    f_equal. apply IH. intros H. apply Hn. right. exact H.
  - f_equal. apply IH; [exact ND'|]. destruct Hin; [congruence|assumption].
Qed.

Definition acc_holds (a : apc) (c : N) : Prop := a = AHave c \/ a = AFiltered c \/ a = ARegistered c.
Definition b2n (b : bool) : N := if b then 1 else 0.

Definition conn_ok (s : state) (c : N) (k : conn) : Prop :=
  k_cnt k <= 1 /\ k_uncnt k <= k_cnt k /\
  (In c (active s) <-> (k_cnt k = 1 /\ k_uncnt k = 0)) /\
  (k_once k = ODone -> k_uncnt k = 1) /\
  k_last k <= now s /\
  (In c (live s) <-> k_live k = true) /\
  match k_pc k with
  | KPre => acc_holds (acc s) c /\ (k_cnt k = 1 <-> acc s = ARegistered c)
  | KRejected => k_cnt k = 0
  | KServing | KUnreg _ => k_cnt k = 1
  | KFin | KDone => k_cnt k = 1 /\ k_uncnt k = 1
  end.

Definition registered_once (s : state) (c : N) : Prop := exists k, conns s c = Some k /\ k_cnt k = 1.

Definition reaper_ok (s : state) : Prop :=
  match reaper s with
  | RWork T todo u =>
      T <= now s /\ (forall c, In c todo -> registered_once s c) /\
      (forall c k, In c (active s) -> conns s c = Some k -> T <= k_last k + idle s \/ In c todo)
  | _ => True
  end.

Definition stop_ok (s : state) (p : spc) : Prop :=
  match p with
  | SWork sn todo u =>
      (forall c, In c sn -> registered_once s c) /\ incl todo sn /\
      (forall c, In c sn -> In c todo \/ ~ In c (active s))
  | SWaiting sn | SRetTimeout sn => forall c, In c sn -> registered_once s c /\ ~ In c (active s)
  | SRetOk sn => (forall c, In c sn -> registered_once s c /\ ~ In c (active s)) /\ wg s = 0
  | _ => True
  end.

Record Inv (s : state) : Prop := {
  c_nodup : NoDup (active s);
  c_count : count s = Z.of_nat (length (active s));
  c_max : (0 < maxc s)%Z -> (count s <= maxc s)%Z;
  c_conn : forall c k, conns s c = Some k -> conn_ok s c k;
  c_active_ex : forall c, In c (active s) -> exists k, conns s c = Some k;
  c_live_ex : forall c, In c (live s) -> exists k, conns s c = Some k;
  c_live_nodup : NoDup (live s);
  c_wg : wg s = b2n (acc_live s) + b2n (reaper_live s) + N.of_nat (length (live s));
  c_acc : forall c, acc_holds (acc s) c -> exists k, conns s c = Some k /\ k_pc k = KPre;
  c_reaper : reaper_ok s;
  c_tick : tickT s <= now s /\ forall c k, In c (active s) -> conns s c = Some k -> tickT s <= k_last k + idle s;
  c_stops : forall j p, stops s j = Some p -> stop_ok s p }.

Lemma inv_init mx idl : Inv (init mx idl).
Proof.
  unfold init. destruct (idl =? 0) eqn:Z0; constructor; cbn; unfold reaper_ok; cbn;
    try (intros; discriminate); try (intros; contradiction); try constructor; try lia; auto.
  all: try (intros c [H|[H|H]]; discriminate).
  all: try (intros; contradiction).
Qed.

Ltac step_inv H :=
  repeat match type of H with
  | match ?x with _ => _ end = Some _ => let E := fresh "E" in destruct x eqn:E; try discriminate H
  | (if ?x then _ else _) = Some _ => let E := fresh "E" in destruct x eqn:E; try discriminate H
  end;
  try (injection H as H); try subst.
Ltac proj := cbn [maxc idle now conns active count acc reaper stops cancelled lclosed wg live tickT
                  set_conn set_active set_acc set_reaper set_stop set_flags set_wg set_now set_tickT].
Ltac proj_in H := cbn [maxc idle now conns active count acc reaper stops cancelled lclosed wg live tickT
                  set_conn set_active set_acc set_reaper set_stop set_flags set_wg set_now set_tickT] in H.
