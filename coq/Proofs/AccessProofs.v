(* Proofs/AccessProofs.v — C12: handle_access = unix_access for all inputs.
   (1) both functions depend on their inputs only through
       (branch taken, mode mod 2^9, directory bit, read-only flag, mask mod 2^6);
   (2) the 5 * 512 * 2 * 2 * 64 = 655 360 points of that space are swept by vm_compute;
   (3) forallb_forall lifts the sweep to the unbounded statement. *)
From Coq Require Import List NArith ZArith Bool Lia.
From Verif Require Import Gen.Facts Model.Access.
Import ListNotations.
Open Scope N_scope.

(* ---------- bit facts ---------- *)

Lemma land7_shiftr_mod : forall m k, k + 3 <= 9 ->
  N.land (N.shiftr (m mod 2 ^ 9) k) 7 = N.land (N.shiftr m k) 7.
Proof.
  intros m k Hk. change 7 with (N.ones 3). apply N.bits_inj; intro n.
  rewrite !N.land_spec, !N.shiftr_spec'.
  destruct (N.ltb_spec n 3) as [Hn|Hn].
  - rewrite N.mod_pow2_bits_low by lia. reflexivity.
  - rewrite N.ones_spec_high by lia. rewrite !andb_false_r. reflexivity.
Qed.

Lemma land_mod_small : forall a b k, b < 2 ^ k -> N.land (a mod 2 ^ k) b = N.land a b.
Proof.
  intros a b k Hb. rewrite <- N.land_ones, <- N.land_assoc.
  f_equal. rewrite N.land_comm, N.land_ones. apply N.mod_small; assumption.
Qed.

Lemma testbit_mod_low : forall a k i, i < k -> N.testbit (a mod 2 ^ k) i = N.testbit a i.
Proof. intros. apply N.mod_pow2_bits_low; assumption. Qed.

Lemma land_pow2 : forall a n, N.land a (2 ^ n) = if N.testbit a n then 2 ^ n else 0.
Proof.
  intros a n. apply N.bits_inj; intro m. rewrite N.land_spec, N.pow2_bits_eqb.
  destruct (N.eqb_spec n m) as [->|Hne].
  - destruct (N.testbit a m) eqn:E; [now rewrite N.pow2_bits_true | now rewrite N.bits_0].
  - rewrite andb_false_r. destruct (N.testbit a n).
    + rewrite N.pow2_bits_false; auto.
    + now rewrite N.bits_0.
Qed.

Lemma is_dir_testbit : forall mode, is_dir mode = N.testbit mode mode_dir_bit.
Proof.
  intro mode. unfold is_dir, ModeDir, nz. rewrite N.shiftl_1_l, land_pow2.
  destruct (N.testbit mode mode_dir_bit); reflexivity.
Qed.

(* ---------- (1) factoring through the finite core ---------- *)

Lemma perm_bits_factor : forall mode fuid fgid c,
  perm_bits mode fuid fgid c = perm_of_gclass (gclass_of fuid fgid c) (mode mod 2 ^ 9).
Proof.
  intros mode fuid fgid c. unfold perm_bits, gclass_of.
  destruct (eff_uid c =? 0) eqn:E0; [reflexivity|].
  destruct (eff_uid c =? fuid) eqn:E1; cbn [perm_of_gclass].
  { symmetry; apply land7_shiftr_mod; lia. }
  destruct (eff_gid c =? fgid) eqn:E2; cbn [perm_of_gclass].
  { symmetry; apply land7_shiftr_mod; lia. }
  destruct (is_group_member c fgid) eqn:E3; cbn [perm_of_gclass].
  { symmetry; apply land7_shiftr_mod; lia. }
  symmetry. apply land_mod_small. reflexivity.
Qed.

Lemma access_bits_mask : forall pb d ro access,
  access_bits pb d ro access = access_bits pb d ro (access mod 2 ^ 6).
Proof.
  intros pb d ro access. unfold access_bits.
  rewrite !(land_mod_small access) by (vm_compute; reflexivity).
  reflexivity.
Qed.

Lemma handle_access_factor : forall mode fuid fgid c access ro,
  handle_access mode fuid fgid c access ro =
  small_impl (gclass_of fuid fgid c) (mode mod 2 ^ 9) (N.testbit mode mode_dir_bit) ro (access mod 2 ^ 6).
Proof.
  intros. unfold handle_access, small_impl.
  rewrite perm_bits_factor, is_dir_testbit. apply access_bits_mask.
Qed.

Lemma class_of_gclass : forall fuid fgid c,
  class_of fuid fgid c = uclass_of_gclass (gclass_of fuid fgid c).
Proof.
  intros. unfold class_of, gclass_of.
  destruct (eff_uid c =? 0); [reflexivity|].
  destruct (eff_uid c =? fuid); [reflexivity|].
  destruct (eff_gid c =? fgid); [reflexivity|]. cbn [orb].
  destruct (is_group_member c fgid); reflexivity.
Qed.

Lemma may_mod : forall cl mode p, may cl (mode mod 2 ^ 9) p = may cl mode p.
Proof.
  intros cl mode p. destruct cl; cbn [may]; [reflexivity| | |];
    apply testbit_mod_low; destruct p; cbn [perm_index]; lia.
Qed.

Lemma permitted_mod : forall cl mode d ro b,
  permitted cl (mode mod 2 ^ 9) d ro b = permitted cl mode d ro b.
Proof. intros. destruct b; cbn [permitted]; rewrite !may_mod; reflexivity. Qed.

Lemma unix_access_factor : forall mode fuid fgid c access ro,
  unix_access mode fuid fgid c access ro =
  small_spec (gclass_of fuid fgid c) (mode mod 2 ^ 9) (N.testbit mode mode_dir_bit) ro (access mod 2 ^ 6).
Proof.
  intros. unfold unix_access, small_spec. rewrite <- class_of_gclass.
  unfold all_abits. cbn [fold_right].
  rewrite !permitted_mod.
  rewrite !(testbit_mod_low access 6) by (cbn [abit_index]; lia).
  reflexivity.
Qed.

(* ---------- (2) the exhaustive sweep ---------- *)

Lemma sweep_ok : sweep = true.
Proof. vm_compute. reflexivity. Qed.

(* ---------- (3) lifting ---------- *)

Lemma in_range_from : forall n s x, s <= x < s + N.of_nat n -> In x (range_from s n).
Proof.
  induction n as [|n IH]; intros s x H.
  - cbn in H. lia.
  - cbn [range_from]. destruct (N.eq_dec s x) as [->|Hne]; [left; reflexivity|].
    right. apply IH. lia.
Qed.

Lemma in_all_gclasses : forall g, In g all_gclasses.
Proof. destruct g; cbn; tauto. Qed.
Lemma in_bools : forall b : bool, In b [false; true].
Proof. destruct b; cbn; tauto. Qed.

Lemma in_modes9 : forall m9, m9 < 2 ^ 9 -> In m9 modes9.
Proof.
  intros m9 Hm. apply in_range_from. rewrite N2Nat.id. change (2 ^ 9) with 512 in Hm. lia.
Qed.
Lemma in_masks6 : forall a6, a6 < 2 ^ 6 -> In a6 masks6.
Proof.
  intros a6 Ha. apply in_range_from. rewrite N2Nat.id. change (2 ^ 6) with 64 in Ha. lia.
Qed.

Lemma point_ok_all : forall g m9 d ro a6, m9 < 2 ^ 9 -> a6 < 2 ^ 6 -> point_ok g m9 d ro a6 = true.
Proof.
  intros g m9 d ro a6 Hm Ha.
  pose proof (proj1 (forallb_forall _ _) sweep_ok g (in_all_gclasses g)) as S1. cbv beta in S1.
  pose proof (proj1 (forallb_forall _ _) S1 m9 (in_modes9 m9 Hm)) as S2. cbv beta in S2.
  pose proof (proj1 (forallb_forall _ _) S2 d (in_bools d)) as S3. cbv beta in S3.
  pose proof (proj1 (forallb_forall _ _) S3 ro (in_bools ro)) as S4. cbv beta in S4.
  exact (proj1 (forallb_forall _ _) S4 a6 (in_masks6 a6 Ha)).
Qed.

Lemma point_ok_inputs : forall mode fuid fgid c access ro,
  point_ok (gclass_of fuid fgid c) (mode mod 2 ^ 9) (N.testbit mode mode_dir_bit) ro (access mod 2 ^ 6) = true.
Proof. intros. apply point_ok_all; apply N.mod_upper_bound; discriminate. Qed.

Lemma C12_exact_lemma : forall mode fuid fgid c access ro,
  let granted := handle_access mode fuid fgid c access ro in
  N.land granted access = granted /\ granted = unix_access mode fuid fgid c access ro.
Proof.
  intros mode fuid fgid c access ro granted.
  pose proof (point_ok_inputs mode fuid fgid c access ro) as P.
  unfold point_ok in P. apply andb_prop in P. destruct P as [P P3].
  apply andb_prop in P. destruct P as [P1 P2].
  apply N.eqb_eq in P1. apply N.eqb_eq in P2. apply N.ltb_lt in P3.
  subst granted. rewrite unix_access_factor, handle_access_factor. split; [|exact P1].
  set (r := small_impl _ _ _ _ _) in *.
  rewrite <- (N.mod_small r (2 ^ 6)) at 1 by exact P3.
  rewrite <- N.land_ones, <- N.land_assoc, (N.land_comm (N.ones 6)), N.land_ones. exact P2.
Qed.

(* corollaries of the rule, stated on the model's output *)
Definition sum6 (c : abit -> bool) : N :=
  fold_right (fun b acc => if c b then acc + 2 ^ abit_index b else acc) 0 all_abits.

Lemma sum6_bit : forall c b, N.testbit (sum6 c) (abit_index b) = c b.
Proof.
  intros c b. unfold sum6, all_abits. cbn [fold_right].
  destruct (c BRead) eqn:E0, (c BLookup) eqn:E1, (c BModify) eqn:E2,
           (c BExtend) eqn:E3, (c BDelete) eqn:E4, (c BExecute) eqn:E5;
    destruct b; rewrite ?E0, ?E1, ?E2, ?E3, ?E4, ?E5; vm_compute; reflexivity.
Qed.

Lemma unix_bit : forall mode fuid fgid c access ro b,
  N.testbit (unix_access mode fuid fgid c access ro) (abit_index b) =
  N.testbit access (abit_index b) &&
  permitted (class_of fuid fgid c) mode (N.testbit mode mode_dir_bit) ro b.
Proof.
  intros.
  change (unix_access mode fuid fgid c access ro) with
    (sum6 (fun b => N.testbit access (abit_index b) &&
                    permitted (class_of fuid fgid c) mode (N.testbit mode mode_dir_bit) ro b)).
  apply sum6_bit.
Qed.

Lemma C12_dir_only_lemma : forall mode fuid fgid c access ro,
  N.testbit mode mode_dir_bit = false ->
  let granted := handle_access mode fuid fgid c access ro in
  N.testbit granted (abit_index BLookup) = false /\ N.testbit granted (abit_index BDelete) = false.
Proof.
  intros mode fuid fgid c access ro Hd granted.
  destruct (C12_exact_lemma mode fuid fgid c access ro) as [_ E]. fold granted in E. rewrite E.
  rewrite !unix_bit, Hd. cbn [permitted andb]. rewrite !andb_false_r. split; reflexivity.
Qed.

Lemma C12_readonly_lemma : forall mode fuid fgid c access,
  let granted := handle_access mode fuid fgid c access true in
  N.testbit granted (abit_index BModify) = false /\ N.testbit granted (abit_index BExtend) = false /\
  N.testbit granted (abit_index BDelete) = false.
Proof.
  intros mode fuid fgid c access granted.
  destruct (C12_exact_lemma mode fuid fgid c access true) as [_ E]. fold granted in E. rewrite E.
  rewrite !unix_bit. cbn [permitted negb andb]. rewrite !andb_false_r. repeat split; reflexivity.
Qed.

Lemma C12_root_lemma : forall mode fuid fgid c access,
  eff_uid c = 0 ->
  let granted := handle_access mode fuid fgid c access false in
  forall b, N.testbit granted (abit_index b) =
    N.testbit access (abit_index b) &&
    match b with BLookup | BDelete => N.testbit mode mode_dir_bit | _ => true end.
Proof.
  intros mode fuid fgid c access H0 granted b.
  destruct (C12_exact_lemma mode fuid fgid c access false) as [_ E]. fold granted in E. rewrite E.
  rewrite unix_bit. unfold class_of. rewrite H0. cbn [N.eqb].
  destruct b; cbn [permitted may negb andb]; rewrite ?andb_true_r; reflexivity.
Qed.
