(* Proofs/PolicyProofs.v — invariants of Model/PolicyLTS.v over arbitrary traces, and the lemmas behind C16. *)
From Coq Require Import List NArith Bool Lia ZifyBool ZifyN.
From Verif Require Import Model.PolicyLTS.
Import ListNotations.
Open Scope N_scope.

(* ---------- small facts ---------- *)
Lemma rpc_eqb_eq a b : rpc_eqb a b = true -> a = b.
Proof. destruct a, b; cbn; congruence. Qed.
Lemma rpc_eqb_refl a : rpc_eqb a a = true.
Proof. destruct a; reflexivity. Qed.

Lemma fset_eq {A} (m : fmap A) k v : fset m k v k = Some v.
Proof. unfold fset. rewrite N.eqb_refl. reflexivity. Qed.
Lemma fset_neq {A} (m : fmap A) k v x : x <> k -> fset m k v x = m x.
Proof. intros H. unfold fset. destruct (N.eqb_spec x k); [contradiction|reflexivity]. Qed.
Lemma fset_cases {A} (m : fmap A) k v x y :
  fset m k v x = Some y -> (x = k /\ y = v) \/ (x <> k /\ m x = Some y).
Proof. unfold fset. destruct (N.eqb_spec x k); intros H; [left|right]; split; congruence. Qed.

Lemma mem_In x l : mem x l = true <-> In x l.
Proof.
  unfold mem. rewrite existsb_exists. split.
  - intros [y [Hy E]]. apply N.eqb_eq in E. subst. exact Hy.
  - intros H. exists x. split; [exact H|apply N.eqb_refl].
Qed.
Lemma remove_r_In r x l : In x (remove_r r l) <-> In x l /\ x <> r.
Proof.
  unfold remove_r. rewrite filter_In. split; intros [H1 H2]; split; auto.
  - intros ->. rewrite N.eqb_refl in H2. discriminate.
  - destruct (N.eqb_spec x r); [contradiction|reflexivity].
Qed.
Lemma remove_r_NoDup r l : NoDup l -> NoDup (remove_r r l).
Proof. apply NoDup_filter. Qed.

(* ---------- classification of program counters ---------- *)
Definition snapped (q : req) : bool :=
  match r_pc q with RSnapped | RRunning | RSent | RDone => true | _ => false end.
Definition ran (q : req) : bool := match r_pc q with RRunning | RSent | RDone => true | _ => false end.
Definition mid (pc : upc) : bool :=
  match pc with UHasMu | UPending | UHolding | UStored | USwapped | UUnlocked => true | _ => false end.
Definition holder_ok (pc : upc) (w : wstate) (u : N) : Prop :=
  match pc with
  | UHasMu | UUnlocked => w = WNone
  | UPending => w = WPending u
  | UHolding | UStored | USwapped => w = WHolding u
  | _ => False
  end.
Definition stored (pc : upc) : bool :=
  match pc with UStored | USwapped | UUnlocked | UReturned => true | _ => false end.
Definition swapped (pc : upc) : bool := match pc with USwapped | UUnlocked | UReturned => true | _ => false end.
(* the connection loop has called currentRateLimiter() for this request *)
Definition passed_lim (q : req) : Prop := r_conn q <> None /\ r_pc q <> RArrived.
(* ... and has read EnableRateLimiting *)
Definition passed_en (q : req) : Prop := r_conn q <> None /\ r_lim q <> None /\ r_pc q <> RArrived /\ r_pc q <> RLimRead.
(* the request got into HandleCall *)
Definition called (q : req) : bool :=
  match r_pc q with RArrived | RLimRead | REnRead | RLimited => false | _ => true end.

(* what is known about a request q in state s *)
Definition req_ok (s : state) (q : req) : Prop :=
  r_arr_ret q <= retmax s /\
  (passed_lim q -> r_arr_ret q <= r_limgen q /\ r_limgen q <= lim_gen s /\
     forall u qu, upds s u = Some qu -> swapped (u_pc qu) = true -> u_ver qu = r_limgen q ->
                  r_lim q = u_lim qu) /\
  (passed_en q -> r_arr_ret q <= r_enver q /\ r_enver q <= cur s) /\
  (admitted q = true -> r_arr_ret q <= r_adm q /\ r_adm q <= cur s /\ r_drain q = false) /\
  (r_pc q = RJuke -> r_drain q = true) /\
  (r_conn q = None -> called q = true) /\
  (r_conn q <> None -> called q = true -> r_checked q = true \/ r_lim q = None \/ r_en q = false) /\
  (r_pc q = RLimited -> r_checked q = true /\ r_lim q <> None /\ r_en q = true) /\
  (r_h q <> HNone -> ran q = true).

Record Inv (s : state) : Prop := {
  i_readers : forall r, In r (readers s) <-> exists q, reqs s r = Some q /\ executing q = true;
  i_nodup : NoDup (readers s);
  i_adm : forall r q, reqs s r = Some q -> executing q = true -> r_adm q = cur s;
  i_snap : forall r q, reqs s r = Some q -> snapped q = true ->
             r_snap q = r_adm q /\ (executing q = true -> r_snap_ro q = p_ro (cur_pol s));
  i_hold : forall u, wr s = WHolding u -> readers s = [];
  i_mid : forall u q, upds s u = Some q -> mid (u_pc q) = true -> pmu s = Some u;
  i_pmu : match pmu s with
          | None => wr s = WNone
          | Some u => exists q, upds s u = Some q /\ holder_ok (u_pc q) (wr s) u
          end;
  i_gen : retmax s <= lim_gen s /\ lim_gen s <= cur s;
  i_gen_eq : (forall u q, pmu s = Some u -> upds s u = Some q -> u_pc q <> UStored -> lim_gen s = cur s) /\
             (pmu s = None -> lim_gen s = cur s);
  i_ver : forall u q, upds s u = Some q ->
            (stored (u_pc q) = true -> u_ver q <= cur s) /\
            (u_pc q = UStored -> u_ver q = cur s /\ lim_gen s < cur s) /\
            (u_pc q = USwapped \/ u_pc q = UUnlocked -> u_ver q = cur s) /\
            (u_pc q = UReturned -> u_ver q <= retmax s) /\
            (swapped (u_pc q) = true -> u_ver q = lim_gen s -> lim s = u_lim q);
  i_req : forall r q, reqs s r = Some q -> req_ok s q;
  i_oplog : forall r v ro, In (r, v, ro) (oplog s) ->
              exists q, reqs s r = Some q /\ ran q = true /\ v = r_adm q /\ ro = r_snap_ro q;
  i_limlog : forall r g l, In (r, g, l) (limlog s) -> exists q, reqs s r = Some q /\ ran q = true /\ g = r_adm q;
  i_alog : forall a, In a (alog s) ->
             if a_write a then In (LkRW, MW) (a_locks a) /\ In (LkNmu, MW) (a_locks a)
             else In (LkNmu, MR) (a_locks a) \/ In (LkRW, MR) (a_locks a) }.

Lemma inv_init p0 l0 : Inv (init p0 l0).
Proof.
  constructor; cbn; try (intros; discriminate); try (intros; contradiction); try (split; intros; lia).
  - intros r. split; [intros []|intros [q [H _]]; discriminate].
  - constructor.
Qed.

(* inversion of one step: case analysis on every match/if of [step] *)
Ltac step_inv H :=
  repeat match type of H with
  | match ?x with _ => _ end = Some _ => let E := fresh "E" in destruct x eqn:E; try discriminate H
  | (if ?x then _ else _) = Some _ => let E := fresh "E" in destruct x eqn:E; try discriminate H
  end;
  try (injection H as H); try subst.

Ltac pcs :=
  repeat match goal with
  | H : rpc_eqb _ _ = true |- _ => apply rpc_eqb_eq in H
  | H : _ && _ = true |- _ => apply andb_prop in H; destruct H
  | H : _ || _ = true |- _ => apply orb_prop in H; destruct H
  end.

(* reduce field projections through the setters, and nothing else *)
Ltac proj := cbn [cur cur_pol lim lim_gen pmu wr readers reqs upds conns retmax oplog limlog alog
                  set_req set_upd set_readers set_wr set_pmu set_policy set_lim set_conns set_retmax
                  add_op add_limlog add_access].
Ltac proj_in H := cbn [cur cur_pol lim lim_gen pmu wr readers reqs upds conns retmax oplog limlog alog
                  set_req set_upd set_readers set_wr set_pmu set_policy set_lim set_conns set_retmax
                  add_op add_limlog add_access] in H.

(* ---------- consequences of the invariant used below ---------- *)
Lemma inv_req_in s r q : Inv s -> reqs s r = Some q -> (In r (readers s) <-> executing q = true).
Proof.
  intros I E. rewrite (i_readers s I), E. split; [intros [q1 [Q1 Q2]]; injection Q1 as <-; exact Q2|eauto].
Qed.
Lemma inv_req_notin s r : Inv s -> reqs s r = None -> ~ In r (readers s).
Proof. intros I E. rewrite (i_readers s I), E. intros [q1 [Q1 _]]. discriminate. Qed.
Lemma inv_no_exec s r q : Inv s -> readers s = [] -> reqs s r = Some q -> executing q = false.
Proof.
  intros I R E. destruct (executing q) eqn:X; [|reflexivity].
  apply (inv_req_in s r q I E) in X. rewrite R in X. destruct X.
Qed.
Lemma inv_holder s u q : Inv s -> upds s u = Some q -> mid (u_pc q) = true ->
  pmu s = Some u /\ holder_ok (u_pc q) (wr s) u.
Proof.
  intros I E M. pose proof (i_mid s I u q E M) as P. split; [exact P|].
  pose proof (i_pmu s I) as Q. rewrite P in Q. destruct Q as [q' [E' H]]. congruence.
Qed.
Lemma inv_other_not_mid s u v q : Inv s -> pmu s = Some u -> v <> u -> upds s v = Some q -> mid (u_pc q) = false.
Proof.
  intros I P N E. destruct (mid (u_pc q)) eqn:M; [|reflexivity].
  pose proof (i_mid s I v q E M). congruence.
Qed.

Lemma readers_upd s r q' L :
  (forall x, In x (readers s) <-> exists q, reqs s x = Some q /\ executing q = true) ->
  (forall x, x <> r -> (In x L <-> In x (readers s))) ->
  (In r L <-> executing q' = true) ->
  forall x, In x L <-> exists q, fset (reqs s) r q' x = Some q /\ executing q = true.
Proof.
  intros IR HL Hr x. destruct (N.eq_dec x r) as [->|Hx].
  - rewrite Hr, fset_eq. split; [intros; eexists; split; eauto|intros [q [E1 E2]]; congruence].
  - rewrite (HL x Hx), IR, fset_neq by exact Hx. reflexivity.
Qed.

(* facts about the request / update a step touches *)
Ltac facts I :=
  repeat match goal with
  | E : reqs ?s ?r = Some ?q |- _ =>
      lazymatch goal with
      | _ : In r (readers s) <-> executing q = true |- _ => fail
      | _ => pose proof (inv_req_in s r q I E)
      end
  | E : reqs ?s ?r = None |- _ =>
      lazymatch goal with
      | _ : ~ In r (readers s) |- _ => fail
      | _ => pose proof (inv_req_notin s r I E)
      end
  end.
Ltac pcrw := repeat match goal with P : r_pc _ = _ |- _ => rewrite P in * end.

Lemma step_readers s l s' : Inv s -> step s l = Some s' ->
  forall r, In r (readers s') <-> exists q, reqs s' r = Some q /\ executing q = true.
Proof.
  intros I H.
  destruct l; cbn in H; step_inv H; pcs; proj; pose proof (i_readers _ I) as IR.
  all: try (intros x; rewrite IR; reflexivity).
  all: apply readers_upd; [exact IR|..].
  all: try (intros x Hx; cbn; rewrite ?remove_r_In; intuition congruence).
  all: try (rewrite remove_r_In).
  all: facts I.
  all: unfold executing in *; cbn in *.
  all: pcrw.
  all: try (destruct allow); cbn.
  all: try solve [intuition congruence].
Qed.

Lemma step_nodup s l s' : Inv s -> step s l = Some s' -> NoDup (readers s').
Proof.
  intros I H.
  destruct l; cbn in H; step_inv H; pcs; proj; pose proof (i_nodup _ I) as ND; auto using remove_r_NoDup.
  facts I. constructor; [|exact ND]. unfold executing in *. pcrw. intuition congruence.
Qed.

Ltac reqcase Hq := try (apply fset_cases in Hq; destruct Hq as [[? ?]|[? Hq]]; subst).

Lemma step_adm s l s' : Inv s -> step s l = Some s' ->
  forall r q, reqs s' r = Some q -> executing q = true -> r_adm q = cur s'.
Proof.
  intros I H x qx Hq Hex.
  destruct l; cbn in H; step_inv H; pcs; proj_in Hq; proj; reqcase Hq.
  all: try (exact (i_adm _ I _ _ Hq Hex)).
  all: try (unfold executing in Hex; cbn in Hex; pcrw; try (destruct allow); discriminate).
  all: try (match goal with E : reqs _ _ = Some ?q |- _ => apply (i_adm _ I _ _ E); unfold executing in *; cbn in *; pcrw; auto end; fail).
  - reflexivity.
  - exfalso. destruct (inv_holder s u u0 I E) as [P Hd]; [rewrite E0; reflexivity|].
    rewrite E0 in Hd. cbn in Hd. pose proof (i_hold _ I _ Hd) as R.
    rewrite (inv_no_exec s x qx I R Hq) in Hex. discriminate.
Qed.


Lemma step_snap s l s' : Inv s -> step s l = Some s' ->
  forall r q, reqs s' r = Some q -> snapped q = true ->
     r_snap q = r_adm q /\ (executing q = true -> r_snap_ro q = p_ro (cur_pol s')).
Proof.
  intros I H x qx Hq Hsn.
  destruct l; cbn in H; step_inv H; pcs; proj_in Hq; proj; reqcase Hq.
  all: try (exact (i_snap _ I _ _ Hq Hsn)).
  all: try (unfold snapped in Hsn; cbn in Hsn; pcrw; try (destruct allow); discriminate).
  all: try (match goal with E : reqs _ _ = Some ?q |- _ =>
         let X := fresh in assert (X : snapped q = true) by (unfold snapped in *; cbn in *; pcrw; auto);
         destruct (i_snap _ I _ _ E X) as [S1 S2]; split; [exact S1|];
         unfold executing in *; cbn in *; pcrw; auto; intros; discriminate end; fail).
  - cbn. split; [|reflexivity]. symmetry. apply (i_adm _ I _ _ E). unfold executing. rewrite E0. reflexivity.
  - split; [exact (proj1 (i_snap _ I _ _ Hq Hsn))|]. intros Hex. exfalso.
    destruct (inv_holder s u u0 I E) as [P Hd]; [rewrite E0; reflexivity|].
    rewrite E0 in Hd. cbn in Hd. pose proof (i_hold _ I _ Hd) as R.
    rewrite (inv_no_exec s x qx I R Hq) in Hex. discriminate.
Qed.


Lemma draining_false s : draining s = false -> wr s = WNone.
Proof. unfold draining. destruct (wr s); congruence. Qed.

Lemma step_hold s l s' : Inv s -> step s l = Some s' -> forall u, wr s' = WHolding u -> readers s' = [].
Proof.
  intros I H v Hw.
  destruct l; cbn in H; step_inv H; pcs; proj_in Hw; proj.
  all: try (exact (i_hold _ I _ Hw)).
  all: try discriminate.
  all: try (rewrite (i_hold _ I _ Hw); reflexivity).
  - apply draining_false in E1. congruence.
  - assumption.
Qed.

Ltac updcase Hq := try (apply fset_cases in Hq; destruct Hq as [[? ?]|[? Hq]]; subst).
Ltac upcrw := repeat match goal with P : u_pc _ = _ |- _ => rewrite P in * end.

Lemma step_mid s l s' : Inv s -> step s l = Some s' ->
  forall u q, upds s' u = Some q -> mid (u_pc q) = true -> pmu s' = Some u.
Proof.
  intros I H v qv Hq Hm.
  destruct l; cbn in H; step_inv H; pcs; proj_in Hq; proj; updcase Hq.
  all: try (exact (i_mid _ I _ _ Hq Hm)).
  all: try reflexivity.
  all: try (cbn in Hm; discriminate).
  all: try (pose proof (i_mid _ I _ _ Hq Hm); 
            match goal with E : upds _ ?u = Some ?q, P : u_pc ?q = _ |- _ =>
              let X := fresh in assert (X : mid (u_pc q) = true) by (rewrite P; reflexivity);
              pose proof (i_mid _ I _ _ E X) end; congruence).
  all: try (pose proof (i_mid _ I _ _ Hq Hm); congruence).
  all: try (match goal with E : upds _ ?u = Some ?q, P : u_pc ?q = _ |- _ =>
              apply (i_mid _ I _ _ E); rewrite P; reflexivity end).
Qed.



Lemma step_pmu s l s' : Inv s -> step s l = Some s' ->
  match pmu s' with
  | None => wr s' = WNone
  | Some u => exists q, upds s' u = Some q /\ holder_ok (u_pc q) (wr s') u
  end.
Proof.
  intros I H. pose proof (i_pmu _ I) as P.
  destruct l; cbn in H; step_inv H; pcs; proj.
  all: try exact P.
  - (* UCall: a fresh id cannot be the holder *)
    destruct (pmu s) as [h|]; [|exact P]. destruct P as [q [Eq Hq]]. exists q. split; [|exact Hq].
    rewrite fset_neq; [exact Eq|]. intros ->. congruence.
  - (* UMu *) exists (with_upc u0 UHasMu). rewrite fset_eq. split; [reflexivity|exact P].
  - (* ULock, Squash error: policyMu released; the holder was at UHasMu *)
    destruct (inv_holder s u u0 I E) as [Pm Hd]; [rewrite E0; reflexivity|]. rewrite E0 in Hd. exact Hd.
  - destruct (inv_holder s u u0 I E) as [Pm Hd]; [rewrite E0; reflexivity|]. rewrite Pm.
    eexists. rewrite fset_eq. split; [reflexivity|]. reflexivity.
  - destruct (inv_holder s u u0 I E) as [Pm Hd]; [rewrite E0; reflexivity|]. rewrite Pm.
    eexists. rewrite fset_eq. split; [reflexivity|]. reflexivity.
  - destruct (inv_holder s u u0 I E) as [Pm Hd]; [rewrite E0; reflexivity|]. rewrite Pm.
    eexists. rewrite fset_eq. split; [reflexivity|]. rewrite E0 in Hd. exact Hd.
  - destruct (inv_holder s u u0 I E) as [Pm Hd]; [rewrite E0; reflexivity|]. rewrite Pm.
    eexists. rewrite fset_eq. split; [reflexivity|]. rewrite E0 in Hd. exact Hd.
  - destruct (inv_holder s u u0 I E) as [Pm Hd]; [rewrite E0; reflexivity|]. rewrite Pm.
    eexists. rewrite fset_eq. split; [reflexivity|]. reflexivity.
  - destruct (inv_holder s u u0 I E) as [Pm Hd]; [rewrite E0; reflexivity|]. rewrite E0 in Hd. exact Hd.
Qed.


Ltac simp_hyps :=
  repeat match goal with
  | H : _ /\ _ |- _ => destruct H
  | H : ?a = ?a -> _ |- _ => specialize (H eq_refl)
  | H : ?a = ?a \/ _ -> _ |- _ => specialize (H (or_introl eq_refl))
  | H : _ \/ ?a = ?a -> _ |- _ => specialize (H (or_intror eq_refl))
  | H : ?a <> ?a -> _ |- _ => clear H
  | H : ?P -> _ |- _ =>
      lazymatch type of P with Prop => idtac end;
      let X := fresh in assert (X : ~ P) by (clear; intuition discriminate); clear H X
  | H : ?P -> _ |- _ =>
      lazymatch type of P with Prop => idtac end;
      let X := fresh in assert (X : P) by (clear; intuition discriminate); specialize (H X); clear X
  end.

(* what the invariant says about the update a step moves *)
Ltac ufacts I :=
  match goal with
  | E : upds ?s ?u = Some ?q, P : u_pc ?q = _ |- _ =>
      let M := fresh "M" in
      assert (M : mid (u_pc q) = true) by (rewrite P; reflexivity);
      let Pm := fresh "Pm" in let Hd := fresh "Hd" in
      destruct (inv_holder s u q I E M) as [Pm Hd]; rewrite P in Hd; cbn in Hd;
      let V := fresh "V" in pose proof (i_ver s I u q E) as V; rewrite P in V; cbn in V;
      let G := fresh "G" in pose proof (proj1 (i_gen_eq s I) u q Pm E) as G; rewrite P in G
  end.

Lemma step_gen s l s' : Inv s -> step s l = Some s' -> retmax s' <= lim_gen s' /\ lim_gen s' <= cur s'.
Proof.
  intros I H. pose proof (i_gen _ I) as G0.
  destruct l; cbn in H; step_inv H; pcs; proj; try exact G0; try lia.
  all: ufacts I; simp_hyps; lia.
Qed.

Lemma step_gen_eq s l s' : Inv s -> step s l = Some s' ->
  (forall u q, pmu s' = Some u -> upds s' u = Some q -> u_pc q <> UStored -> lim_gen s' = cur s') /\ (pmu s' = None -> lim_gen s' = cur s').
Proof.
  intros I H. pose proof (i_gen_eq _ I) as G0.
  destruct l; cbn in H; step_inv H; pcs; proj; try exact G0.
  all: try ufacts I; simp_hyps.
  all: split; [intros v qv Hp Hq Hn|intros Hp]; try discriminate; updcase Hq; try congruence; auto.
  - exfalso. pose proof (i_pmu _ I) as P. rewrite Hp in P. destruct P as [q [Eq _]]. congruence.
  - eauto.
  - exfalso. apply Hn. reflexivity.
Qed.

Lemma step_ver s l s' : Inv s -> step s l = Some s' ->
  forall u q, upds s' u = Some q ->
            (stored (u_pc q) = true -> u_ver q <= cur s') /\
            (u_pc q = UStored -> u_ver q = cur s' /\ lim_gen s' < cur s') /\
            (u_pc q = USwapped \/ u_pc q = UUnlocked -> u_ver q = cur s') /\
            (u_pc q = UReturned -> u_ver q <= retmax s') /\
            (swapped (u_pc q) = true -> u_ver q = lim_gen s' -> lim s' = u_lim q).
Proof.
  intros I H v qv Hq. pose proof (i_gen _ I) as G0.
  destruct l; cbn in H; step_inv H; pcs; proj_in Hq; proj; updcase Hq.
  all: try (exact (i_ver _ I _ _ Hq)).
  all: try (cbn; repeat split; intros; try discriminate; intuition discriminate).
  all: try ufacts I; simp_hyps.
  all: try (match goal with Hne : ?w <> _, Hq : upds _ ?w = Some ?qv |- _ =>
         pose proof (inv_other_not_mid _ _ _ _ I Pm Hne Hq) as NM;
         pose proof (i_ver _ I _ _ Hq) as Vo;
         destruct (u_pc qv); try discriminate NM; cbn in Vo |- *; simp_hyps;
         repeat split; intros; try lia; try discriminate; try intuition discriminate end).
  all: cbn; repeat split; intros; try lia; try discriminate; try intuition discriminate; auto.
Qed.

Lemma req_ok_mono s s' q :
  req_ok s q -> retmax s <= retmax s' -> lim_gen s <= lim_gen s' -> cur s <= cur s' ->
  (forall u qu, upds s' u = Some qu -> swapped (u_pc qu) = true -> u_ver qu <= lim_gen s ->
     exists qu0, upds s u = Some qu0 /\ swapped (u_pc qu0) = true /\ u_ver qu0 = u_ver qu /\ u_lim qu0 = u_lim qu) ->
  req_ok s' q.
Proof.
  intros (A & B & C & D & E & F & G & Hh & J) R L Cu U.
  repeat split; auto; try lia.
  - destruct (B H) as (B1 & B2 & B3). intros u qu Eu Sw Ev.
    destruct (U u qu Eu Sw) as (qu0 & E0 & S0 & V0 & L0); [lia|]. rewrite <- L0. apply (B3 u qu0 E0 S0). congruence.
  - apply Hh; auto.
Qed.

Ltac feed H :=
  match type of H with
  | ?P -> _ => let X := fresh in
               assert (X : P) by (repeat split; try assumption; try discriminate; try congruence);
               specialize (H X); clear X
  end.
Ltac kill :=
  repeat match goal with
  | H : _ /\ _ |- _ => destruct H
  | H : ?a <> ?a |- _ => exfalso; apply H; reflexivity
  | H : false = true |- _ => discriminate H
  | H : true = false |- _ => discriminate H
  | H : @eq rpc _ _ |- _ => discriminate H
  | H : @eq hst _ _ |- _ => discriminate H
  end.
Ltac req_step I E :=
  pose proof (i_req _ I _ _ E) as (A & B & C & D & J & F & G & Hh & K);
  unfold req_ok, passed_lim, passed_en, admitted, called, ran in *; proj; cbn in *; pcrw;
  try feed B; try feed C; try feed D; try feed J; try feed F; try feed G; try feed G; try feed Hh;
  repeat split; intros; kill;
  try feed B; try feed C; try feed D; try feed J; try feed F; try feed G; try feed G; try feed Hh; try feed K; kill;
  try lia; auto; try solve [eauto]; try (timeout 5 (intuition (discriminate || congruence))).

Lemma step_req s l s'  : Inv s -> step s l = Some s' -> forall r q, reqs s' r = Some q -> req_ok s' q.
Proof.
  intros I H x qx Hq. pose proof (i_gen _ I) as G0.
  destruct l; cbn in H; step_inv H; pcs; proj_in Hq; reqcase Hq.
  all: try (exact (i_req _ I _ _ Hq)).
  (* steps of an update: the request is untouched, the state moves monotonically *)
  all: try (apply (req_ok_mono _ _ _ (i_req _ I _ _ Hq)); proj; try lia;
            [intros w qw Ew Sw Vw; updcase Ew; eauto]).
  all: try (cbn in Sw; discriminate Sw).
  all: try (exists u0; rewrite E0; cbn; auto; fail).
  all: try (match goal with E : reqs _ _ = Some _ |- req_ok _ _ => timeout 30 (req_step I E) end).
  1, 2: unfold req_ok, passed_lim, passed_en, admitted, called, ran; proj; cbn; repeat split; intros; kill; try lia; auto; try congruence.
  - exact (proj2 (proj2 (proj2 (proj2 (i_ver _ I _ _ H0)))) H1 H2).
  - destruct allow; timeout 60 (req_step I E); destruct (r_lim r0); try discriminate; auto; congruence.
  - exfalso. destruct (r_lim r0); discriminate.
  - right. destruct (r_lim r0); auto.
  - exfalso. destruct (r_lim r0); [discriminate|congruence].
  - exfalso. destruct (r_lim r0); [discriminate|congruence].
  - right. destruct (r_lim r0); auto.
  - pose proof (i_ver _ I _ _ E) as V. rewrite E0 in V. simp_hyps. lia.
  - pose proof (i_ver _ I _ _ E) as V. rewrite E0 in V. simp_hyps.
    apply fset_cases in H0. destruct H0 as [[-> ->]|[Hne H0]]; [cbn in H2; lia|eauto].
Qed.

(* a request that has run keeps r_adm / r_snap_ro for ever *)
Lemma step_ran_frozen s l s' r q : Inv s -> step s l = Some s' -> reqs s r = Some q -> ran q = true ->
  exists q', reqs s' r = Some q' /\ ran q' = true /\ r_adm q' = r_adm q /\ r_snap_ro q' = r_snap_ro q.
Proof.
  intros I H E R.
  destruct l; cbn in H; step_inv H; pcs; proj.
  all: try (exists q; repeat split; auto; fail).
  all: match goal with |- context [fset _ ?k _ _] => destruct (N.eq_dec r k) as [->|Hne] end.
  all: try (rewrite fset_neq by exact Hne; exists q; repeat split; auto; fail).
  all: rewrite fset_eq; eexists; split; [reflexivity|].
  all: try (match goal with E1 : reqs _ ?k = Some ?a, E2 : reqs _ ?k = Some ?b |- _ =>
              assert (a = b) by congruence; subst end).
  all: try congruence.
  all: unfold ran in *; cbn; pcrw; try discriminate; try (destruct allow); auto.
Qed.

Lemma step_oplog s l s' : Inv s -> step s l = Some s' ->
  forall r v ro, In (r, v, ro) (oplog s') ->
    exists q, reqs s' r = Some q /\ ran q = true /\ v = r_adm q /\ ro = r_snap_ro q.
Proof.
  intros I H r v ro Hin.
  assert (Old : In (r, v, ro) (oplog s) ->
                exists q, reqs s' r = Some q /\ ran q = true /\ v = r_adm q /\ ro = r_snap_ro q).
  { intros Hi. destruct (i_oplog _ I _ _ _ Hi) as (q & E & R & -> & ->).
    destruct (step_ran_frozen _ _ _ _ _ I H E R) as (q' & E' & R' & A' & S'). exists q'. repeat split; auto. }
  destruct l; cbn in H; step_inv H; pcs; proj_in Hin; try (apply Old; exact Hin).
  destruct Hin as [Heq|Hin]; [|apply Old; exact Hin].
  injection Heq as <- <- <-. proj. exists r1. 
  assert (X : executing r1 = true) by (unfold executing; rewrite E0; reflexivity).
  assert (Sn : snapped r1 = true) by (unfold snapped; rewrite E0; reflexivity).
  repeat split; auto.
  - unfold ran. rewrite E0. reflexivity.
  - symmetry. exact (i_adm _ I _ _ E X).
  - symmetry. exact (proj2 (i_snap _ I _ _ E Sn) X).
Qed.

Lemma step_limlog s l s' : Inv s -> step s l = Some s' ->
  forall r g lm, In (r, g, lm) (limlog s') -> exists q, reqs s' r = Some q /\ ran q = true /\ g = r_adm q.
Proof.
  intros I H r g lm Hin.
  assert (Old : In (r, g, lm) (limlog s) -> exists q, reqs s' r = Some q /\ ran q = true /\ g = r_adm q).
  { intros Hi. destruct (i_limlog _ I _ _ _ Hi) as (q & E & R & ->).
    destruct (step_ran_frozen _ _ _ _ _ I H E R) as (q' & E' & R' & A' & S'). exists q'. repeat split; auto. }
  destruct l; cbn in H; step_inv H; pcs; proj_in Hin; try (apply Old; exact Hin).
  destruct Hin as [Heq|Hin]; [|apply Old; exact Hin].
  injection Heq as <- <- <-. proj. exists r1.
  assert (X : executing r1 = true) by (unfold executing; rewrite E0; reflexivity).
  repeat split; auto.
  - unfold ran. rewrite E0. reflexivity.
  - (* the generation seen equals the current version: no writer holds the lock while r executes *)
    rewrite (i_adm _ I _ _ E X).
    apply (inv_req_in _ _ _ I E) in X.
    destruct (i_gen_eq _ I) as [G1 G2]. destruct (pmu s) as [h|] eqn:P; [|auto].
    pose proof (i_pmu _ I) as Q. rewrite P in Q. destruct Q as (qh & Eh & Hd).
    apply (G1 h qh eq_refl Eh). intros Hs. rewrite Hs in Hd. cbn in Hd.
    rewrite (i_hold _ I _ Hd) in X. destruct X.
Qed.

Lemma step_alog s l s' : Inv s -> step s l = Some s' ->
  forall a, In a (alog s') ->
    if a_write a then In (LkRW, MW) (a_locks a) /\ In (LkNmu, MW) (a_locks a)
    else In (LkNmu, MR) (a_locks a) \/ In (LkRW, MR) (a_locks a).
Proof.
  intros I H a Hin.
  destruct l; cbn in H; step_inv H; pcs; proj_in Hin; try (exact (i_alog _ I _ Hin)).
  all: destruct Hin as [<-|Hin]; [|exact (i_alog _ I _ Hin)]; cbn [a_write a_locks].
  - left. apply in_or_app. right. left. reflexivity.
  - right. assert (X : executing r0 = true) by (unfold executing; rewrite E0; reflexivity).
    apply (inv_req_in _ _ _ I E) in X. apply mem_In in X. unfold held. rewrite X. left. reflexivity.
  - ufacts I. unfold held. rewrite Pm, Hd, N.eqb_refl. cbn. auto.
Qed.

Lemma step_inv_preserved s l s' : Inv s -> step s l = Some s' -> Inv s'.
Proof.
  intros I H. constructor.
  - exact (step_readers _ _ _ I H).
  - exact (step_nodup _ _ _ I H).
  - exact (step_adm _ _ _ I H).
  - exact (step_snap _ _ _ I H).
  - exact (step_hold _ _ _ I H).
  - exact (step_mid _ _ _ I H).
  - exact (step_pmu _ _ _ I H).
  - exact (step_gen _ _ _ I H).
  - exact (step_gen_eq _ _ _ I H).
  - exact (step_ver _ _ _ I H).
  - exact (step_req _ _ _ I H).
  - exact (step_oplog _ _ _ I H).
  - exact (step_limlog _ _ _ I H).
  - exact (step_alog _ _ _ I H).
Qed.

Lemma run_inv tr : forall s s', Inv s -> run s tr = Some s' -> Inv s'.
Proof.
  induction tr as [|l tr IH]; cbn; intros s s' I H.
  - injection H as <-. exact I.
  - destruct (step s l) as [s1|] eqn:E; [|discriminate]. exact (IH _ _ (step_inv_preserved _ _ _ I E) H).
Qed.

Theorem reachable_inv p0 l0 tr s : run (init p0 l0) tr = Some s -> Inv s.
Proof. apply run_inv. apply inv_init. Qed.

(* ---------- lemmas behind the C16 theorems ---------- *)
Definition reachable (s : state) : Prop := exists p0 l0 tr, run (init p0 l0) tr = Some s.
Lemma reachable_Inv s : reachable s -> Inv s.
Proof. intros (p0 & l0 & tr & H). exact (reachable_inv _ _ _ _ H). Qed.

Lemma atomic_lemma s : reachable s ->
  (forall r v ro, In (r, v, ro) (oplog s) ->
     exists q, reqs s r = Some q /\ v = r_adm q /\ v = r_snap q /\ ro = r_snap_ro q) /\
  (forall r g lm, In (r, g, lm) (limlog s) -> exists q, reqs s r = Some q /\ g = r_adm q).
Proof.
  intros R. apply reachable_Inv in R. split.
  - intros r v ro Hin. destruct (i_oplog _ R _ _ _ Hin) as (q & E & Rn & -> & ->). exists q.
    assert (Sn : snapped q = true) by (unfold ran in Rn; unfold snapped; destruct (r_pc q); auto; discriminate).
    destruct (i_snap _ R _ _ E Sn) as [S1 _]. repeat split; auto.
  - intros r g lm Hin. destruct (i_limlog _ R _ _ _ Hin) as (q & E & Rn & ->). exists q. auto.
Qed.

Lemma drain_lemma s : reachable s ->
  forall u qu, upds s u = Some qu -> stored (u_pc qu) = true ->
  forall r q, reqs s r = Some q -> executing q = true -> u_ver qu <= r_adm q.
Proof.
  intros R u qu Eu St r q Er Ex. apply reachable_Inv in R.
  rewrite (i_adm _ R _ _ Er Ex). exact (proj1 (i_ver _ R _ _ Eu) St).
Qed.

(* at the instants an update stores and swaps, nothing executes at all *)
Lemma drain_empty_lemma s : reachable s ->
  forall u qu, upds s u = Some qu ->
  (u_pc qu = UHolding \/ u_pc qu = UStored \/ u_pc qu = USwapped) ->
  readers s = [] /\ forall r q, reqs s r = Some q -> executing q = false.
Proof.
  intros R u qu Eu Hpc. apply reachable_Inv in R.
  assert (M : mid (u_pc qu) = true) by (destruct Hpc as [->|[->| ->]]; reflexivity).
  destruct (inv_holder _ _ _ R Eu M) as [P Hd].
  assert (W : wr s = WHolding u) by (destruct Hpc as [Hp|[Hp|Hp]]; rewrite Hp in Hd; exact Hd).
  pose proof (i_hold _ R _ W) as E. split; [exact E|]. intros r q Er. exact (inv_no_exec _ _ _ R E Er).
Qed.

Lemma step_arr_frozen s l s' r q : step s l = Some s' -> reqs s r = Some q ->
  exists q', reqs s' r = Some q' /\ r_arr_ret q' = r_arr_ret q /\ r_conn q' = r_conn q.
Proof.
  intros H E.
  destruct l; cbn in H; step_inv H; pcs; proj.
  all: try (exists q; repeat split; auto; fail).
  all: match goal with |- context [fset _ ?k _ _] => destruct (N.eq_dec r k) as [->|Hne] end.
  all: try (rewrite fset_neq by exact Hne; exists q; repeat split; auto; fail).
  all: rewrite fset_eq; eexists; split; [reflexivity|].
  all: try (match goal with E1 : reqs _ ?k = Some ?a, E2 : reqs _ ?k = Some ?b |- _ =>
              assert (a = b) by congruence; subst end).
  all: try congruence.
  all: cbn; auto.
Qed.
Lemma run_arr_frozen tr : forall s s' r q, run s tr = Some s' -> reqs s r = Some q ->
  exists q', reqs s' r = Some q' /\ r_arr_ret q' = r_arr_ret q /\ r_conn q' = r_conn q.
Proof.
  induction tr as [|l tr IH]; cbn; intros s s' r q H E.
  - injection H as <-. eauto.
  - destruct (step s l) as [s1|] eqn:Es; [|discriminate].
    destruct (step_arr_frozen _ _ _ _ _ Es E) as (q1 & E1 & A1 & C1).
    destruct (IH _ _ _ _ H E1) as (q2 & E2 & A2 & C2). exists q2. repeat split; congruence.
Qed.

(* u has returned, then r arrives, then anything happens: r is judged under u's version or a later one *)
Lemma later_lemma p0 l0 tr1 tr2 s1 s2 s u qu r c q :
  run (init p0 l0) tr1 = Some s1 -> upds s1 u = Some qu -> u_pc qu = UReturned ->
  step s1 (Arrive r c) = Some s2 -> run s2 tr2 = Some s -> reqs s r = Some q ->
  (admitted q = true -> u_ver qu <= r_adm q) /\
  (passed_lim q -> u_ver qu <= r_limgen q /\ r_limgen q <= lim_gen s /\
     forall u' qu', upds s u' = Some qu' -> swapped (u_pc qu') = true -> u_ver qu' = r_limgen q -> r_lim q = u_lim qu') /\
  (passed_en q -> u_ver qu <= r_enver q) /\
  (r_conn q <> None -> called q = true -> r_checked q = true \/ r_lim q = None \/ r_en q = false).
Proof.
  intros R1 Eu Pu St R2 Er.
  pose proof (reachable_inv _ _ _ _ R1) as I1.
  assert (Ret : u_ver qu <= retmax s1) by (apply (i_ver _ I1 _ _ Eu); exact Pu).
  assert (E2 : exists q2, reqs s2 r = Some q2 /\ r_arr_ret q2 = retmax s1).
  { cbn in St. destruct (reqs s1 r) eqn:En; [discriminate|].
    destruct c as [k|]; [destruct (mem k (conns s1)); [|discriminate]|]; injection St as <-; cbn;
    rewrite fset_eq; eexists; split; reflexivity. }
  destruct E2 as (q2 & E2 & A2).
  destruct (run_arr_frozen _ _ _ _ _ R2 E2) as (q' & E' & A' & _).
  assert (q' = q) by congruence. subst q'.
  assert (I : Inv s).
  { apply (run_inv tr2 s2); [|exact R2]. exact (step_inv_preserved _ _ _ I1 St). }
  destruct (i_req _ I _ _ Er) as (A & B & C & D & J & F & G & Hh & K).
  repeat split.
  - intros Ad. destruct (D Ad). lia.
  - destruct (B H) as (B1 & _). lia.
  - destruct (B H) as (_ & B2 & _). exact B2.
  - destruct (B H) as (_ & _ & B3). exact B3.
  - intros Pe. destruct (C Pe). lia.
  - exact G.
Qed.

Lemma juke_step_lemma s r q : reqs s r = Some q -> r_pc q = RCalling -> draining s = true ->
  exists s' q', step s (TryRLock r) = Some s' /\ reqs s' r = Some q' /\ r_pc q' = RJuke /\ readers s' = readers s.
Proof.
  intros E P D. cbn. rewrite E, P, D. cbn. eexists. eexists. split; [reflexivity|]. cbn. rewrite fset_eq. auto.
Qed.
Lemma admit_step_lemma s r q : reqs s r = Some q -> r_pc q = RCalling -> draining s = false ->
  exists s' q', step s (TryRLock r) = Some s' /\ reqs s' r = Some q' /\ r_pc q' = RLocked /\ r_adm q' = cur s /\
                readers s' = r :: readers s.
Proof.
  intros E P D. cbn. rewrite E, P, D. cbn. eexists. eexists. split; [reflexivity|]. cbn. rewrite fset_eq. auto.
Qed.
Lemma juke_trace_lemma s : reachable s -> forall r q, reqs s r = Some q ->
  (r_pc q = RJuke -> r_drain q = true) /\ (admitted q = true -> r_drain q = false).
Proof.
  intros R r q E. apply reachable_Inv in R. destruct (i_req _ R _ _ E) as (A & B & C & D & J & _).
  split; [exact J|]. intros Ad. apply D. exact Ad.
Qed.
(* the ghost r_drain is exactly "a writer was pending or holding when r tried the lock" *)
Lemma try_sets_drain s r s' q' : step s (TryRLock r) = Some s' -> reqs s' r = Some q' -> r_drain q' = draining s.
Proof.
  intros H E. cbn in H. step_inv H; pcs; proj_in E; rewrite fset_eq in E; injection E as <-; cbn; congruence.
Qed.
(* while a writer is pending or holding nobody joins the readers *)
Lemma drain_shrinks s l s' : draining s = true -> step s l = Some s' -> incl (readers s') (readers s).
Proof.
  intros D H. destruct l; cbn in H; step_inv H; pcs; proj; try apply incl_refl; try congruence.
  all: intros x Hx; apply remove_r_In in Hx; tauto.
Qed.

Lemma progress_lemma s : reachable s -> readers s = [] ->
  forall u q l, upds s u = Some q -> unext u q = Some l ->
    enabled s l = true \/
    (u_pc q = UCalled /\ exists h qh lh, pmu s = Some h /\ upds s h = Some qh /\ unext h qh = Some lh /\
                                          enabled s lh = true).
Proof.
  intros R Rd u q l E N. apply reachable_Inv in R.
  assert (Mid : forall h qh lh, upds s h = Some qh -> mid (u_pc qh) = true -> unext h qh = Some lh ->
                                enabled s lh = true).
  { intros h qh lh Eh Mh Nh. destruct (inv_holder _ _ _ R Eh Mh) as [P Hd].
    unfold unext in Nh. unfold enabled.
    destruct (u_pc qh) eqn:Pc; try discriminate; injection Nh as <-; cbn in Hd |- *; rewrite Eh, Pc; cbn;
      rewrite ?Hd, ?Rd; try reflexivity.
    destruct (negb (p_squash (cur_pol s) =? p_squash (u_pol qh))); reflexivity. }
  destruct (mid (u_pc q)) eqn:M; [left; eapply Mid; eauto|].
  unfold unext in N. destruct (u_pc q) eqn:Pc; try discriminate.
  injection N as <-. destruct (pmu s) as [h|] eqn:P.
  - right. split; [reflexivity|]. pose proof (i_pmu _ R) as Q. rewrite P in Q. destruct Q as (qh & Eh & Hd).
    assert (Mh : mid (u_pc qh) = true) by (destruct (u_pc qh); cbn in Hd; try contradiction; reflexivity).
    assert (exists lh, unext h qh = Some lh) as [lh Nh]
      by (unfold unext; destruct (u_pc qh); try discriminate; eauto).
    exists h, qh, lh. repeat split; auto. eapply Mid; eauto.
  - left. unfold enabled. cbn. rewrite E, Pc, P. reflexivity.
Qed.

(* no request ever waits for an update: from every non-final program point some step of r is enabled *)
Definition rnext (r : N) (q : req) : option label :=
  match r_pc q with
  | RArrived => Some (LimRead r)
  | RLimRead => match r_lim q with Some _ => Some (EnRead r) | None => Some (Rate r true) end
  | REnRead => Some (Rate r true)
  | RCalling => Some (TryRLock r) | RLocked => Some (Snap r) | RSnapped => Some (Auth r true)
  | RRunning => Some (Finish r) | RSent => Some (RUnlock r)
  | RLimited | RJuke | RAuthDenied | RDone => None
  end.
Lemma req_progress_lemma s r q l : reqs s r = Some q -> rnext r q = Some l -> enabled s l = true.
Proof.
  intros E N. unfold rnext in N. unfold enabled.
  destruct (r_pc q) eqn:P; try discriminate; try (injection N as <-; cbn; rewrite E, P; cbn; try reflexivity).
  - destruct (r_lim q) eqn:L; injection N as <-; cbn; rewrite E, P, L; reflexivity.
  - destruct (r_lim q); [destruct (r_en q)|]; reflexivity.
  - destruct (draining s); reflexivity.
Qed.

Lemma norace_lemma s : reachable s ->
  forall a b, In a (alog s) -> In b (alog s) -> conflict a b = true -> common_lock a b = true.
Proof.
  intros R a b Ha Hb C. apply reachable_Inv in R.
  pose proof (i_alog _ R _ Ha) as La. pose proof (i_alog _ R _ Hb) as Lb.
  unfold conflict in C. apply andb_prop in C. destruct C as [_ C].
  unfold common_lock. apply existsb_exists.
  destruct (a_write a), (a_write b); try discriminate.
  - exists (LkRW, MW). split; [tauto|]. apply existsb_exists. exists (LkRW, MW). split; [tauto|reflexivity].
  - destruct Lb as [Lb|Lb].
    + exists (LkNmu, MW). split; [tauto|]. apply existsb_exists. exists (LkNmu, MR). split; [tauto|reflexivity].
    + exists (LkRW, MW). split; [tauto|]. apply existsb_exists. exists (LkRW, MR). split; [tauto|reflexivity].
  - destruct La as [La|La].
    + exists (LkNmu, MR). split; [tauto|]. apply existsb_exists. exists (LkNmu, MW). split; [tauto|reflexivity].
    + exists (LkRW, MR). split; [tauto|]. apply existsb_exists. exists (LkRW, MW). split; [tauto|reflexivity].
Qed.
