(* Proofs/PolicyProofs.v — invariants of Model/PolicyLTS.v over arbitrary traces, and the lemmas behind C16. *)
From Coq Require Import List NArith Bool Lia ZifyBool ZifyN.
From Verif Require Import Model.PolicyLTS.
Import ListNotations.
Open Scope N_scope.

(* ---------- small facts ---------- *)
Lemma rpc_eqb_eq a b : rpc_eqb a b = true -> a = b.
Proof. destruct a, b; cbn; congruence. Qed.
Lemma rpc_eqb_refl a : rpc_eqb a a = true.
Proof. destruct a; reflexivity. Qed.

Lemma fset_eq {A} (m : fmap A) k v : fset m k v k = Some v.
Proof. unfold fset. rewrite N.eqb_refl. reflexivity. Qed.
Lemma fset_neq {A} (m : fmap A) k v x : x <> k -> fset m k v x = m x.
Proof. intros H. unfold fset. destruct (N.eqb_spec x k); [contradiction|reflexivity]. Qed.
Lemma fset_cases {A} (m : fmap A) k v x y :
  fset m k v x = Some y -> (x = k /\ y = v) \/ (x <> k /\ m x = Some y).
Proof. unfold fset. destruct (N.eqb_spec x k); intros H; [left|right]; split; congruence. Qed.

Lemma mem_In x l : mem x l = true <-> In x l.
Proof.
  unfold mem. rewrite existsb_exists. split.
  - intros [y [Hy E]]. apply N.eqb_eq in E. subst. exact Hy.
  - intros H. exists x. split; [exact H|apply N.eqb_refl].
Qed.
Lemma remove_r_In r x l : In x (remove_r r l) <-> In x l /\ x <> r.
Proof.
  unfold remove_r. rewrite filter_In. split; intros [H1 H2]; split; auto.
  - intros ->. rewrite N.eqb_refl in H2. discriminate.
  - destruct (N.eqb_spec x r); [contradiction|reflexivity].
Qed.
Lemma remove_r_NoDup r l : NoDup l -> NoDup (remove_r r l).
Proof. apply NoDup_filter. Qed.

(* ---------- classification of program counters ---------- *)
Definition snapped (q : req) : bool :=
  match r_pc q with RSnapped | RRunning | RSent | RDone => true | _ => false end.
Definition ran (q : req) : bool := match r_pc q with RRunning | RSent | RDone => true | _ => false end.
Definition mid (pc : upc) : bool :=
  match pc with UHasMu | UPending | UHolding | UStored | USwapped | UUnlocked => true | _ => false end.
Definition holder_ok (pc : upc) (w : wstate) (u : N) : Prop :=
  match pc with
  | UHasMu | UUnlocked => w = WNone
  | UPending => w = WPending u
  | UHolding | UStored | USwapped => w = WHolding u
  | _ => False
  end.
Definition stored (pc : upc) : bool :=
  match pc with UStored | USwapped | UUnlocked | UReturned => true | _ => false end.
Definition swapped (pc : upc) : bool := match pc with USwapped | UUnlocked | UReturned => true | _ => false end.
(* the connection loop has called currentRateLimiter() for this request *)
Definition passed_lim (q : req) : Prop := r_conn q <> None /\ r_pc q <> RArrived.
(* ... and has read EnableRateLimiting *)
Definition passed_en (q : req) : Prop := r_conn q <> None /\ r_lim q <> None /\ r_pc q <> RArrived /\ r_pc q <> RLimRead.
(* the request got into HandleCall *)
Definition called (q : req) : bool :=
  match r_pc q with RArrived | RLimRead | REnRead | RLimited => false | _ => true end.

(* what is known about a request q in state s *)
Definition req_ok (s : state) (q : req) : Prop :=
  r_arr_ret q <= retmax s /\
  (passed_lim q -> r_arr_ret q <= r_limgen q /\ r_limgen q <= lim_gen s /\
     forall u qu, upds s u = Some qu -> swapped (u_pc qu) = true -> u_ver qu = r_limgen q ->
                  r_lim q = u_lim qu) /\
  (passed_en q -> r_arr_ret q <= r_enver q /\ r_enver q <= cur s) /\
  (admitted q = true -> r_arr_ret q <= r_adm q /\ r_adm q <= cur s /\ r_drain q = false) /\
  (r_pc q = RJuke -> r_drain q = true) /\
  (r_conn q = None -> called q = true) /\
  (r_conn q <> None -> called q = true -> r_checked q = true \/ r_lim q = None \/ r_en q = false) /\
  (r_pc q = RLimited -> r_checked q = true /\ r_lim q <> None /\ r_en q = true) /\
  (r_h q <> HNone -> ran q = true).

Record Inv (s : state) : Prop := {
  i_readers : forall r, In r (readers s) <-> exists q, reqs s r = Some q /\ executing q = true;
  i_nodup : NoDup (readers s);
  i_adm : forall r q, reqs s r = Some q -> executing q = true -> r_adm q = cur s;
  i_snap : forall r q, reqs s r = Some q -> snapped q = true ->
             r_snap q = r_adm q /\ (executing q = true -> r_snap_ro q = p_ro (cur_pol s));
  i_hold : forall u, wr s = WHolding u -> readers s = [];
  i_mid : forall u q, upds s u = Some q -> mid (u_pc q) = true -> pmu s = Some u;
  i_pmu : match pmu s with
          | None => wr s = WNone
          | Some u => exists q, upds s u = Some q /\ holder_ok (u_pc q) (wr s) u
          end;
  i_gen : retmax s <= lim_gen s /\ lim_gen s <= cur s;
  i_gen_eq : (forall u q, pmu s = Some u -> upds s u = Some q -> u_pc q <> UStored -> lim_gen s = cur s) /\
             (pmu s = None -> lim_gen s = cur s);
  i_ver : forall u q, upds s u = Some q ->
            (stored (u_pc q) = true -> u_ver q <= cur s) /\
            (u_pc q = UStored -> u_ver q = cur s /\ lim_gen s < cur s) /\
            (u_pc q = USwapped \/ u_pc q = UUnlocked -> u_ver q = cur s) /\
            (u_pc q = UReturned -> u_ver q <= retmax s) /\
            (swapped (u_pc q) = true -> u_ver q = lim_gen s -> lim s = u_lim q);
  i_req : forall r q, reqs s r = Some q -> req_ok s q;
  i_oplog : forall r v ro, In (r, v, ro) (oplog s) ->
              exists q, reqs s r = Some q /\ ran q = true /\ v = r_adm q /\ ro = r_snap_ro q;
  i_limlog : forall r g l, In (r, g, l) (limlog s) -> exists q, reqs s r = Some q /\ ran q = true /\ g = r_adm q;
  i_alog : forall a, In a (alog s) ->
             if a_write a then In (LkRW, MW) (a_locks a) /\ In (LkNmu, MW) (a_locks a)
             else In (LkNmu, MR) (a_locks a) \/ In (LkRW, MR) (a_locks a) }.

Lemma inv_init p0 l0 : Inv (init p0 l0).
Proof.
  constructor; cbn; try (intros; discriminate); try (intros; contradiction); try (split; intros; lia).
  - intros r. split; [intros []|intros [q [H _]]; discriminate].
  - constructor.
Qed.

(* inversion of one step: case analysis on every match/if of [step] *)
Ltac step_inv H :=
  repeat match type of H with
  | match ?x with _ => _ end = Some _ => let E := fresh "E" in destruct x eqn:E; try discriminate H
  | (if ?x then _ else _) = Some _ => let E := fresh "E" in destruct x eqn:E; try discriminate H
  end;
  try (injection H as H); try subst.

Ltac pcs :=
  repeat match goal with
  | H : rpc_eqb _ _ = true |- _ => apply rpc_eqb_eq in H
  | H : _ && _ = true |- _ => apply andb_prop in H; destruct H
  | H : _ || _ = true |- _ => apply orb_prop in H; destruct H
  end.

(* reduce field projections through the setters, and nothing else *)
Ltac proj := cbn [cur cur_pol lim lim_gen pmu wr readers reqs upds conns retmax oplog limlog alog
                  set_req set_upd set_readers set_wr set_pmu set_policy set_lim set_conns set_retmax
                  add_op add_limlog add_access].
Ltac proj_in H := cbn [cur cur_pol lim lim_gen pmu wr readers reqs upds conns retmax oplog limlog alog
                  set_req set_upd set_readers set_wr set_pmu set_policy set_lim set_conns set_retmax
                  add_op add_limlog add_access] in H.

(* ---------- consequences of the invariant used below ---------- *)
Lemma inv_req_in s r q : Inv s -> reqs s r = Some q -> (In r (readers s) <-> executing q = true).
Proof.
  intros I E. rewrite (i_readers s I), E. split; [intros [q1 [Q1 Q2]]; injection Q1 as <-; exact Q2|eauto].
Qed.
Lemma inv_req_notin s r : Inv s -> reqs s r = None -> ~ In r (readers s).
Proof. intros I E. rewrite (i_readers s I), E. intros [q1 [Q1 _]]. discriminate. Qed.
Lemma inv_no_exec s r q : Inv s -> readers s = [] -> reqs s r = Some q -> executing q = false.
Proof.
  intros I R E. destruct (executing q) eqn:X; [|reflexivity].
  apply (inv_req_in s r q I E) in X. rewrite R in X. destruct X.
Qed.
Lemma inv_holder s u q : Inv s -> upds s u = Some q -> mid (u_pc q) = true ->
  pmu s = Some u /\ holder_ok (u_pc q) (wr s) u.
Proof.
  intros I E M. pose proof (i_mid s I u q E M) as P. split; [exact P|].
  pose proof (i_pmu s I) as Q. rewrite P in Q. destruct Q as [q' [E' H]]. congruence.
Qed.
Lemma inv_other_not_mid s u v q : Inv s -> pmu s = Some u -> v <> u -> upds s v = Some q -> mid (u_pc q) = false.
Proof.
  intros I P N E. destruct (mid (u_pc q)) eqn:M; [|reflexivity].
  pose proof (i_mid s I v q E M). congruence.
Qed.

Lemma readers_upd s r q' L :
  (forall x, In x (readers s) <-> exists q, reqs s x = Some q /\ executing q = true) ->
  (forall x, x <> r -> (In x L <-> In x (readers s))) ->
  (In r L <-> executing q' = true) ->
  forall x, In x L <-> exists q, fset (reqs s) r q' x = Some q /\ executing q = true.
Proof.
  intros IR HL Hr x. destruct (N.eq_dec x r) as [->|Hx].
  - rewrite Hr, fset_eq. split; [intros; eexists; split; eauto|intros [q [E1 E2]]; congruence].
  - rewrite (HL x Hx), IR, fset_neq by exact Hx. reflexivity.
Qed.

(* facts about the request / update a step touches *)
Ltac facts I :=
  repeat match goal with
  | E : reqs ?s ?r = Some ?q |- _ =>
      lazymatch goal with
      | _ : In r (readers s) <-> executing q = true |- _ => fail
      | _ => pose proof (inv_req_in s r q I E)
      end
  | E : reqs ?s ?r = None |- _ =>
      lazymatch goal with
      | _ : ~ In r (readers s) |- _ => fail
      | _ => pose proof (inv_req_notin s r I E)
      end
  end.
Ltac pcrw := repeat match goal with P : r_pc _ = _ |- _ => rewrite P in * end.

Lemma step_readers s l s' : Inv s -> step s l = Some s' ->
  forall r, In r (readers s') <-> exists q, reqs s' r = Some q /\ executing q = true.
Proof.
  intros I H.
  destruct l; cbn in H; step_inv H; pcs; proj; pose proof (i_readers _ I) as IR.
  all: try (intros x; rewrite IR; reflexivity).
  all: apply readers_upd; [exact IR|..].
  all: try (intros x Hx; cbn; rewrite ?remove_r_In; intuition congruence).
  all: try (rewrite remove_r_In).
  all: facts I.
  all: unfold executing in *; cbn in *.
  all: pcrw.
  all: try (destruct allow); cbn.
  all: try solve [intuition congruence].
Qed.

Lemma step_nodup s l s' : Inv s -> step s l = Some s' -> NoDup (readers s').
Proof.
  intros I H.
  destruct l; cbn in H; step_inv H; pcs; proj; pose proof (i_nodup _ I) as ND; auto using remove_r_NoDup.
  facts I. constructor; [|exact ND]. unfold executing in *. pcrw. intuition congruence.
Qed.

Ltac reqcase Hq := try (apply fset_cases in Hq; destruct Hq as [[? ?]|[? Hq]]; subst).

Lemma step_adm s l s' : Inv s -> step s l = Some s' ->
  forall r q, reqs s' r = Some q -> executing q = true -> r_adm q = cur s'.
Proof.
  intros I H x qx Hq Hex.
  destruct l; cbn in H; step_inv H; pcs; proj_in Hq; proj; reqcase Hq.
  all: try (exact (i_adm _ I _ _ Hq Hex)).
  all: try (unfold executing in Hex; cbn in Hex; pcrw; try (destruct allow); discriminate).
  all: try (match goal with E : reqs _ _ = Some ?q |- _ => apply (i_adm _ I _ _ E); unfold executing in *; cbn in *; pcrw; auto end; fail).
  - reflexivity.
  - exfalso. destruct (inv_holder s u u0 I E) as [P Hd]; [rewrite E0; reflexivity|].
    rewrite E0 in Hd. cbn in Hd. pose proof (i_hold _ I _ Hd) as R.
    rewrite (inv_no_exec s x qx I R Hq) in Hex. discriminate.
Qed.


Lemma step_snap s l s' : Inv s -> step s l = Some s' ->
  forall r q, reqs s' r = Some q -> snapped q = true ->
     r_snap q = r_adm q /\ (executing q = true -> r_snap_ro q = p_ro (cur_pol s')).
Proof.
  intros I H x qx Hq Hsn.
  destruct l; cbn in H; step_inv H; pcs; proj_in Hq; proj; reqcase Hq.
  all: try (exact (i_snap _ I _ _ Hq Hsn)).
  all: try (unfold snapped in Hsn; cbn in Hsn; pcrw; try (destruct allow); discriminate).
  all: try (match goal with E : reqs _ _ = Some ?q |- _ =>
         let X := fresh in assert (X : snapped q = true) by (unfold snapped in *; cbn in *; pcrw; auto);
         destruct (i_snap _ I _ _ E X) as [S1 S2]; split; [exact S1|];
         unfold executing in *; cbn in *; pcrw; auto; intros; discriminate end; fail).
  - cbn. split; [|reflexivity]. symmetry. apply (i_adm _ I _ _ E). unfold executing. rewrite E0. reflexivity.
  - split; [exact (proj1 (i_snap _ I _ _ Hq Hsn))|]. intros Hex. exfalso.
    destruct (inv_holder s u u0 I E) as [P Hd]; [rewrite E0; reflexivity|].
    rewrite E0 in Hd. cbn in Hd. pose proof (i_hold _ I _ Hd) as R.
    rewrite (inv_no_exec s x qx I R Hq) in Hex. discriminate.
Qed.


Lemma draining_false s : draining s = false -> wr s = WNone.
Proof. unfold draining. destruct (wr s); congruence. Qed.

Lemma step_hold s l s' : Inv s -> step s l = Some s' -> forall u, wr s' = WHolding u -> readers s' = [].
Proof.
  intros I H v Hw.
  destruct l; cbn in H; step_inv H; pcs; proj_in Hw; proj.
  all: try (exact (i_hold _ I _ Hw)).
  all: try discriminate.
  all: try (rewrite (i_hold _ I _ Hw); reflexivity).
  - apply draining_false in E1. congruence.
  - assumption.
Qed.

Ltac updcase Hq := try (apply fset_cases in Hq; destruct Hq as [[? ?]|[? Hq]]; subst).
Ltac upcrw := repeat match goal with P : u_pc _ = _ |- _ => rewrite P in * end.

Lemma step_mid s l s' : Inv s -> step s l = Some s' ->
  forall u q, upds s' u = Some q -> mid (u_pc q) = true -> pmu s' = Some u.
Proof.
  intros I H v qv Hq Hm.
  destruct l; cbn in H; step_inv H; pcs; proj_in Hq; proj; updcase Hq.
  all: try (exact (i_mid _ I _ _ Hq Hm)).
  all: try reflexivity.
  all: try (cbn in Hm; discriminate).
  all: try (pose proof (i_mid _ I _ _ Hq Hm); 
            match goal with E : upds _ ?u = Some ?q, P : u_pc ?q = _ |- _ =>
              let X := fresh in assert (X : mid (u_pc q) = true) by (rewrite P; reflexivity);
              pose proof (i_mid _ I _ _ E X) end; congruence).
  all: try (pose proof (i_mid _ I _ _ Hq Hm); congruence).
  all: try (match goal with E : upds _ ?u = Some ?q, P : u_pc ?q = _ |- _ =>
              apply (i_mid _ I _ _ E); rewrite P; reflexivity end).
Qed.



Lemma step_pmu s l s' : Inv s -> step s l = Some s' ->
  match pmu s' with
  | None => wr s' = WNone
  | Some u => exists q, upds s' u = Some q /\ holder_ok (u_pc q) (wr s') u
  end.
Proof.
  intros I H. pose proof (i_pmu _ I) as P.
  destruct l; cbn in H; step_inv H; pcs; proj.
  all: try exact P.
  - (* UCall: a fresh id cannot be the holder *)
    destruct (pmu s) as [h|]; [|exact P]. destruct P as [q [Eq Hq]]. exists q. split; [|exact Hq].
    rewrite fset_neq; [exact Eq|]. intros ->. congruence.
  - (* UMu *) exists (with_upc u0 UHasMu). rewrite fset_eq. split; [reflexivity|exact P].
  - (* ULock, Squash error: policyMu released; the holder was at UHasMu *)
    destruct (inv_holder s u u0 I E) as [Pm Hd]; [rewrite E0; reflexivity|]. rewrite E0 in Hd. exact Hd.
  - destruct (inv_holder s u u0 I E) as [Pm Hd]; [rewrite E0; reflexivity|]. rewrite Pm.
    eexists. rewrite fset_eq. split; [reflexivity|]. reflexivity.
  - destruct (inv_holder s u u0 I E) as [Pm Hd]; [rewrite E0; reflexivity|]. rewrite Pm.
    eexists. rewrite fset_eq. split; [reflexivity|]. reflexivity.
  - destruct (inv_holder s u u0 I E) as [Pm Hd]; [rewrite E0; reflexivity|]. rewrite Pm.
    eexists. rewrite fset_eq. split; [reflexivity|]. rewrite E0 in Hd. exact Hd.
  - destruct (inv_holder s u u0 I E) as [Pm Hd]; [rewrite E0; reflexivity|]. rewrite Pm.
    eexists. rewrite fset_eq. split; [reflexivity|]. rewrite E0 in Hd. exact Hd.
  - destruct (inv_holder s u u0 I E) as [Pm Hd]; [rewrite E0; reflexivity|]. rewrite Pm.
    eexists. rewrite fset_eq. split; [reflexivity|]. reflexivity.
  - destruct (inv_holder s u u0 I E) as [Pm Hd]; [rewrite E0; reflexivity|]. rewrite E0 in Hd. exact Hd.
Qed.


Ltac simp_hyps :=
  repeat match goal with
  | H : _ /\ _ |- _ => destruct H
  | H : ?a = ?a -> _ |- _ => specialize (H eq_refl)
  | H : ?a = ?a \/ _ -> _ |- _ => specialize (H (or_introl eq_refl))
  | H : _ \/ ?a = ?a -> _ |- _ => specialize (H (or_intror eq_refl))
  | H : ?a <> ?a -> _ |- _ => clear H
  | H : ?P -> _ |- _ =>
      lazymatch type of P with Prop => idtac end;
      let X := fresh in assert (X : ~ P) by (clear; intuition discriminate); clear H X
  | H : ?P -> _ |- _ =>
      lazymatch type of P with Prop => idtac end;
      let X := fresh in assert (X : P) by (clear; intuition discriminate); specialize (H X); clear X
  end.

(* what the invariant says about the update a step moves *)
Ltac ufacts I :=
  match goal with
  | E : upds ?s ?u = Some ?q, P : u_pc ?q = _ |- _ =>
      let M := fresh "M" in
      assert (M : mid (u_pc q) = true) by (rewrite P; reflexivity);
      let Pm := fresh "Pm" in let Hd := fresh "Hd" in
      destruct (inv_holder s u q I E M) as [Pm Hd]; rewrite P in Hd; cbn in Hd;
      let V := fresh "V" in pose proof (i_ver s I u q E) as V; rewrite P in V; cbn in V;
      let G := fresh "G" in pose proof (proj1 (i_gen_eq s I) u q Pm E) as G; rewrite P in G
  end.

Lemma step_gen s l s' : Inv s -> step s l = Some s' -> retmax s' <= lim_gen s' /\ lim_gen s' <= cur s'.
Proof.
  intros I H. pose proof (i_gen _ I) as G0.
  destruct l; cbn in H; step_inv H; pcs; proj; try exact G0; try lia.
  all: ufacts I; simp_hyps; lia.
Qed.

Lemma step_gen_eq s l s' : Inv s -> step s l = Some s' ->
  (forall u q, pmu s' = Some u -> upds s' u = Some q -> u_pc q <> UStored -> lim_gen s' = cur s') /\ (pmu s' = None -> lim_gen s' = cur s').
Proof.
  intros I H. pose proof (i_gen_eq _ I) as G0.
  destruct l; cbn in H; step_inv H; pcs; proj; try exact G0.
  all: try ufacts I; simp_hyps.
  all: split; [intros v qv Hp Hq Hn|intros Hp]; try discriminate; updcase Hq; try congruence; auto.
  - exfalso. pose proof (i_pmu _ I) as P. rewrite Hp in P. destruct P as [q [Eq _]]. congruence.
  - eauto.
  - exfalso. apply Hn. reflexivity.
Qed.

Lemma step_ver s l s' : Inv s -> step s l = Some s' ->
  forall u q, upds s' u = Some q ->
            (stored (u_pc q) = true -> u_ver q <= cur s') /\
            (u_pc q = UStored -> u_ver q = cur s' /\ lim_gen s' < cur s') /\
            (u_pc q = USwapped \/ u_pc q = UUnlocked -> u_ver q = cur s') /\
            (u_pc q = UReturned -> u_ver q <= retmax s') /\
            (swapped (u_pc q) = true -> u_ver q = lim_gen s' -> lim s' = u_lim q).
Proof.
  intros I H v qv Hq. pose proof (i_gen _ I) as G0.
  destruct l; cbn in H; step_inv H; pcs; proj_in Hq; proj; updcase Hq.
  all: try (exact (i_ver _ I _ _ Hq)).
  all: try (cbn; repeat split; intros; try discriminate; intuition discriminate).
  all: try ufacts I; simp_hyps.
  all: try (match goal with Hne : ?w <> _, Hq : upds _ ?w = Some ?qv |- _ =>
         pose proof (inv_other_not_mid _ _ _ _ I Pm Hne Hq) as NM;
         pose proof (i_ver _ I _ _ Hq) as Vo;
         destruct (u_pc qv); try discriminate NM; cbn in Vo |- *; simp_hyps;
         repeat split; intros; try lia; try discriminate; try intuition discriminate end).
  all: cbn; repeat split; intros; try lia; try discriminate; try intuition discriminate; auto.
Qed.
