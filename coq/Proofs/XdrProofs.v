(* Proofs/XdrProofs.v — the decoder monad (exactness, trace bounds) and the XDR round trips.

   [exactR R d e v t]: d decodes the image e to v whatever follows (consuming exactly e, trace t), and fails with
   EShort on every proper prefix of e (truncation at every cut point); R relates the truncated input with the rest
   that the failing decoder leaves ([exact]: the stream is exhausted; [exact_sl]: slice readers, unspecified).
   [bounded L d]: on EVERY input every allocation in the trace of d is at most L.                             *)
From Coq Require Import List Arith NArith ZArith Bool Lia ZifyBool ZifyNat ZifyN.
From Verif Require Import Gen.Facts Model.Bytes Model.Xdr Proofs.BytesProofs.
Import ListNotations.
Open Scope N_scope.

Ltac Zify.zify_post_hook ::= Z.to_euclidean_division_equations.

(* ---- monad laws used as rewriting rules ---- *)
Lemma bind_ok {A B} (d : dec A) (f : A -> dec B) s a s1 t1 r s2 t2 :
  d s = (Ok a, s1, t1) -> f a s1 = (r, s2, t2) -> bind d f s = (r, s2, t1 ++ t2).
Proof. intros H1 H2. unfold bind. rewrite H1, H2. reflexivity. Qed.
Lemma bind_err {A B} (d : dec A) (f : A -> dec B) s e s1 t1 :
  d s = (Err e, s1, t1) -> bind d f s = (Err e, s1, t1).
Proof. intros H1. unfold bind. rewrite H1. reflexivity. Qed.

(* ---- exactness ---- *)
Definition exactR (R : bytes -> bytes -> Prop) {A} (d : dec A) (e : bytes) (v : A) (t : list ev) : Prop :=
  (forall rest, d (e ++ rest) = (Ok v, rest, t)) /\
  (forall p q, e = p ++ q -> q <> [] -> exists r' t', d p = (Err EShort, r', t') /\ R p r').
Definition Rnil (p r : bytes) : Prop := r = [].
Definition Rany (p r : bytes) : Prop := True.
Notation exact := (exactR Rnil).
Notation exact_sl := (exactR Rany).

Definition ext_closed (R : bytes -> bytes -> Prop) := forall x l r, R l r -> R (x ++ l) r.
Lemma Rnil_ext : ext_closed Rnil. Proof. intros x l r H. exact H. Qed.
Lemma Rany_ext : ext_closed Rany. Proof. intros x l r H. exact I. Qed.

Lemma exact_ret R {A} (v : A) : exactR R (ret v) [] v [].
Proof.
  split; [intros rest; reflexivity|].
  intros p q E Hq. destruct p; destruct q; cbn in E; congruence.
Qed.

Lemma exact_bind R {A B} (d : dec A) (f : A -> dec B) e1 e2 a b t1 t2 :
  ext_closed R -> exactR R d e1 a t1 -> exactR R (f a) e2 b t2 -> exactR R (bind d f) (e1 ++ e2) b (t1 ++ t2).
Proof.
  intros HR [D1 D2] [F1 F2]. split.
  - intros rest. rewrite <- app_assoc. apply bind_ok with (a := a) (s1 := e2 ++ rest); auto.
  - intros p q E Hq. apply app_eq_app in E as [l [[E1 E2]|[E1 E2]]].
    + (* e1 = p ++ l, q = l ++ e2 *)
      destruct l as [|x l].
      * rewrite app_nil_r in E1. subst p. cbn in E2. subst q.
        destruct (F2 [] e2 eq_refl Hq) as (r' & t' & Hf & HRf).
        exists r', (t1 ++ t'). split.
        -- apply bind_ok with (a := a) (s1 := []); auto. specialize (D1 []). rewrite app_nil_r in D1. exact D1.
        -- specialize (HR e1 [] r' HRf). rewrite app_nil_r in HR. exact HR.
      * destruct (D2 p (x :: l) E1 ltac:(discriminate)) as (r' & t' & Hd & HRd).
        exists r', t'. split; [|exact HRd]. apply bind_err. exact Hd.
    + (* p = e1 ++ l, e2 = l ++ q *)
      destruct (F2 l q E2 Hq) as (r' & t' & Hf & HRf).
      exists r', (t1 ++ t'). split.
      * subst p. apply bind_ok with (a := a) (s1 := l); auto.
      * subst p. apply HR. exact HRf.
Qed.

Lemma exact_map R {A B} (d : dec A) (g : A -> B) e a t :
  ext_closed R -> exactR R d e a t -> exactR R (bind d (fun x => ret (g x))) e (g a) t.
Proof.
  intros HR H. rewrite <- (app_nil_r e), <- (app_nil_r t).
  apply exact_bind with (a := a); auto. apply exact_ret.
Qed.

Lemma exact_ok {A} R (d : dec A) e v t rest : exactR R d e v t -> d (e ++ rest) = (Ok v, rest, t).
Proof. intros [H _]. apply H. Qed.
Lemma exact_trunc {A} (d : dec A) e v t k :
  exact d e v t -> k < len e -> exists t', d (take k e) = (Err EShort, [], t').
Proof.
  intros [_ H] Hk. destruct (H (take k e) (drop k e)) as (r' & t' & Hd & HR).
  - symmetry. apply take_drop.
  - intros E. assert (L := len_drop k e). rewrite E in L. cbn in L. lia.
  - exists t'. unfold Rnil in HR. subst r'. exact Hd.
Qed.

(* ---- read_n ---- *)
Lemma read_n_ok n s : n <= len s -> read_n n s = (Ok (take n s), drop n s, rd n).
Proof. intros H. unfold read_n. apply N.leb_le in H. rewrite H. reflexivity. Qed.
Lemma read_n_short n s : len s < n -> read_n n s = (Err EShort, [], rd n).
Proof. intros H. unfold read_n. apply N.leb_gt in H. rewrite H. reflexivity. Qed.
Lemma read_n_app a s : read_n (len a) (a ++ s) = (Ok a, s, rd (len a)).
Proof.
  rewrite read_n_ok by (rewrite len_app; lia). rewrite take_app_len, drop_app_len. reflexivity.
Qed.
Lemma exact_read_n a : exact (read_n (len a)) a a (rd (len a)).
Proof.
  split; [intros rest; apply read_n_app|].
  intros p q E Hq. exists [], (rd (len a)). split; [|reflexivity].
  apply read_n_short. subst a. rewrite len_app. destruct q; [congruence|]. rewrite len_cons. lia.
Qed.

(* ---- u32 / u64 ---- *)
Lemma enc_u32_len v : len (enc_u32 v) = 4. Proof. apply be_enc_len. Qed.
Lemma enc_u64_len v : len (enc_u64 v) = 8. Proof. apply be_enc_len. Qed.
Lemma pow_256_4 : 256 ^ N.of_nat 4 = 4294967296. Proof. reflexivity. Qed.
Lemma pow_256_8 : 256 ^ N.of_nat 8 = 18446744073709551616. Proof. reflexivity. Qed.

Lemma exact_u32 v : v < 4294967296 -> exact dec_u32 (enc_u32 v) v [Rd 4].
Proof.
  intros H. unfold dec_u32.
  assert (E : be_dec (enc_u32 v) = v) by (apply be_dec_enc; rewrite pow_256_4; exact H).
  rewrite <- E at 2. apply (exact_map Rnil (read_n 4) be_dec); [apply Rnil_ext|].
  pose proof (exact_read_n (enc_u32 v)) as X. rewrite enc_u32_len in X. exact X.
Qed.
Lemma exact_u64 v : v < 18446744073709551616 -> exact dec_u64 (enc_u64 v) v [Rd 8].
Proof.
  intros H. unfold dec_u64.
  assert (E : be_dec (enc_u64 v) = v) by (apply be_dec_enc; rewrite pow_256_8; exact H).
  rewrite <- E at 2. apply (exact_map Rnil (read_n 8) be_dec); [apply Rnil_ext|].
  pose proof (exact_read_n (enc_u64 v)) as X. rewrite enc_u64_len in X. exact X.
Qed.

(* what dec_u32 does on an arbitrary stream *)
Lemma dec_u32_ok s : 4 <= len s -> dec_u32 s = (Ok (be_dec (take 4 s)), drop 4 s, [Rd 4]).
Proof.
  intros H. unfold dec_u32. apply bind_ok with (a := take 4 s) (s1 := drop 4 s) (t1 := [Rd 4]) (t2 := []).
  - apply read_n_ok. exact H.
  - reflexivity.
Qed.
Lemma dec_u32_short s : len s < 4 -> dec_u32 s = (Err EShort, [], [Rd 4]).
Proof. intros H. unfold dec_u32. apply bind_err. apply read_n_short. exact H. Qed.
Lemma dec_u32_lt s : bytesb s = true -> 4 <= len s -> be_dec (take 4 s) < 4294967296.
Proof.
  intros Hb H. pose proof (be_dec_lt (take 4 s) (bytesb_take 4 s Hb)) as L.
  rewrite len_take in L by exact H. exact L.
Qed.

(* ---- padding arithmetic ---- *)
Lemma pad_len_lt n : pad_len n < 4.
Proof. unfold pad_len. lia. Qed.
Lemma pad_len_spec n : (n + pad_len n) mod 4 = 0.
Proof. unfold pad_len. lia. Qed.
Lemma padded_eq n : (n + 3) / 4 * 4 = n + pad_len n.
Proof. unfold pad_len. lia. Qed.
Lemma pad_len_cases n : pad_len n = match n mod 4 with 0 => 0 | 1 => 3 | 2 => 2 | _ => 1 end.
Proof.
  unfold pad_len. assert (H : n mod 4 < 4) by lia.
  destruct (n mod 4) as [|[[[]|[]|]|[[]|[]|]|]]; try reflexivity; lia.
Qed.

(* ---- opaque ---- *)
Definition opaque_trace (n : N) : list ev := [Rd 4] ++ rd n ++ rd (pad_len n).
Lemma enc_opaque_len b : len (enc_opaque b) = 4 + len b + pad_len (len b).
Proof. unfold enc_opaque. rewrite !len_app, enc_u32_len, len_zeros. lia. Qed.

Lemma exact_skip_pad n : exact (skip_pad n) (zeros (pad_len n)) tt (rd (pad_len n)).
Proof.
  unfold skip_pad.
  apply (exact_map Rnil (read_n (pad_len n)) (fun _ => tt) _ (zeros (pad_len n))); [apply Rnil_ext|].
  pose proof (exact_read_n (zeros (pad_len n))) as X. rewrite len_zeros in X. exact X.
Qed.

Lemma exact_opaque limit b :
  len b <= limit -> len b < 4294967296 -> exact (dec_opaque limit) (enc_opaque b) b (opaque_trace (len b)).
Proof.
  intros Hl H32. unfold dec_opaque, enc_opaque, opaque_trace.
  apply exact_bind with (a := len b); [apply Rnil_ext|apply exact_u32; exact H32|].
  assert (E : limit <? len b = false) by (apply N.ltb_ge; exact Hl). rewrite E.
  apply exact_bind with (a := b); [apply Rnil_ext|apply exact_read_n|].
  rewrite <- (app_nil_r (zeros _)), <- (app_nil_r (rd (pad_len _))).
  apply exact_bind with (a := tt); [apply Rnil_ext|apply exact_skip_pad|apply exact_ret].
Qed.

(* a declared length above the limit: rejected right behind the length word, nothing else allocated *)
Lemma dec_opaque_over limit s :
  4 <= len s -> limit < be_dec (take 4 s) -> dec_opaque limit s = (Err ELimit, drop 4 s, [Rd 4]).
Proof.
  intros H4 Hl. unfold dec_opaque.
  apply bind_ok with (a := be_dec (take 4 s)) (s1 := drop 4 s) (t1 := [Rd 4]) (t2 := []).
  - apply dec_u32_ok. exact H4.
  - apply N.ltb_lt in Hl. rewrite Hl. reflexivity.
Qed.

(* ---- string ---- *)
Lemma exact_string b :
  len b <= string_limit -> has_byte 0 b = false ->
  exact dec_string (enc_string b) b (opaque_trace (len b)).
Proof.
  intros Hl Hn. unfold dec_string, enc_string.
  assert (H32 : len b < 4294967296) by (assert (string_limit = 8192) by reflexivity; lia).
  rewrite <- (app_nil_r (enc_opaque b)), <- (app_nil_r (opaque_trace _)).
  apply exact_bind with (a := b); [apply Rnil_ext|apply exact_opaque; assumption|].
  rewrite Hn. apply exact_ret.
Qed.
(* a string holding a NUL byte is consumed entirely and then rejected *)
Lemma dec_string_nul b rest :
  len b <= string_limit -> has_byte 0 b = true ->
  dec_string (enc_string b ++ rest) = (Err ENul, rest, opaque_trace (len b)).
Proof.
  intros Hl Hn. unfold dec_string, enc_string.
  assert (H32 : len b < 4294967296) by (assert (string_limit = 8192) by reflexivity; lia).
  rewrite <- (app_nil_r (opaque_trace _)).
  apply bind_ok with (a := b) (s1 := rest).
  - apply (exact_ok Rnil). apply exact_opaque; assumption.
  - rewrite Hn. reflexivity.
Qed.
Lemma dec_string_over s :
  4 <= len s -> string_limit < be_dec (take 4 s) -> dec_string s = (Err ELimit, drop 4 s, [Rd 4]).
Proof.
  intros H4 Hl. unfold dec_string. apply bind_err. apply dec_opaque_over; assumption.
Qed.

(* ---- file handle ---- *)
Lemma fh_len_val : fh_len = 8. Proof. reflexivity. Qed.
Lemma fh_enc_len_val : fh_enc_len = 8. Proof. reflexivity. Qed.
Lemma fh_max_len_val : fh_max_len = 64. Proof. reflexivity. Qed.

Lemma exact_fh h : h < 18446744073709551616 -> exact dec_fh (enc_fh h) h [Rd 4; Rd 8].
Proof.
  intros H. unfold dec_fh, enc_fh. change [Rd 4; Rd 8] with ([Rd 4] ++ [Rd 8]).
  apply exact_bind with (a := fh_enc_len); [apply Rnil_ext|apply exact_u32; rewrite fh_enc_len_val; lia|].
  rewrite fh_enc_len_val, fh_len_val, fh_max_len_val. cbn [N.ltb N.eqb N.compare Pos.compare Pos.compare_cont Pos.eqb negb].
  apply exact_u64. exact H.
Qed.
Lemma dec_fh_over s :
  4 <= len s -> fh_max_len < be_dec (take 4 s) -> dec_fh s = (Err ELimit, drop 4 s, [Rd 4]).
Proof.
  intros H4 Hl. unfold dec_fh.
  apply bind_ok with (a := be_dec (take 4 s)) (s1 := drop 4 s) (t1 := [Rd 4]) (t2 := []).
  - apply dec_u32_ok. exact H4.
  - apply N.ltb_lt in Hl. rewrite Hl. reflexivity.
Qed.
(* a length within 64 that is not 8: the padded data is consumed (stream stays in sync), then rejected *)
Lemma dec_fh_badlen n data rest :
  n <= fh_max_len -> n <> fh_len -> len data = n + pad_len n ->
  dec_fh (enc_u32 n ++ data ++ rest) = (Err EBadLen, rest, [Rd 4] ++ rd (n + pad_len n)).
Proof.
  intros Hn Hne Hd. unfold dec_fh.
  apply bind_ok with (a := n) (s1 := data ++ rest) (t1 := [Rd 4]).
  - apply (exact_ok Rnil). apply exact_u32. rewrite fh_max_len_val in Hn. lia.
  - assert (E1 : fh_max_len <? n = false) by (apply N.ltb_ge; exact Hn). rewrite E1.
    assert (E2 : n =? fh_len = false) by (apply N.eqb_neq; exact Hne). rewrite E2. cbn [negb].
    rewrite padded_eq, <- Hd. rewrite <- (app_nil_r (rd (len data))).
    apply bind_ok with (a := data) (s1 := rest); [apply read_n_app|reflexivity].
Qed.

(* ---- trace bounds on arbitrary input ---- *)
Definition tr_le (L : N) (t : list ev) : Prop := Forall (fun e => ev_size e <= L) t.
Definition bounded {A} (L : N) (d : dec A) : Prop := forall s, tr_le L (o_trace (d s)).

Lemma tr_le_app L a b : tr_le L a -> tr_le L b -> tr_le L (a ++ b).
Proof. intros H1 H2. apply Forall_app. split; assumption. Qed.
Lemma tr_le_rd L n : n <= L -> tr_le L (rd n).
Proof. intros H. unfold rd. destruct (n =? 0); constructor; [exact H|constructor]. Qed.
Lemma tr_le_al L n : n <= L -> tr_le L (al n).
Proof. intros H. unfold al. destruct (n =? 0); constructor; [exact H|constructor]. Qed.
Lemma tr_le_mono L L' t : L <= L' -> tr_le L t -> tr_le L' t.
Proof. intros H. apply Forall_impl. intros e He. lia. Qed.

Lemma bounded_ret {A} L (a : A) : bounded L (ret a).
Proof. intros s. constructor. Qed.
Lemma bounded_fail {A} L e : bounded L (@fail A e).
Proof. intros s. constructor. Qed.
Lemma bounded_read_n L n : n <= L -> bounded L (read_n n).
Proof. intros H s. unfold read_n. destruct (n <=? len s); apply tr_le_rd; exact H. Qed.
Lemma bounded_alloc L n : n <= L -> bounded L (alloc n).
Proof. intros H s. apply tr_le_al. exact H. Qed.
Lemma bounded_bind {A B} L (d : dec A) (f : A -> dec B) :
  bounded L d -> (forall a, bounded L (f a)) -> bounded L (bind d f).
Proof.
  intros Hd Hf s. unfold bind. specialize (Hd s). destruct (d s) as [[[a|e] s1] t1]; cbn in *; [|exact Hd].
  specialize (Hf a s1). destruct (f a s1) as [[r s2] t2]. cbn in *. apply tr_le_app; assumption.
Qed.
Lemma bounded_mono {A} L L' (d : dec A) : L <= L' -> bounded L d -> bounded L' d.
Proof. intros H Hd s. apply tr_le_mono with L; auto. Qed.

Lemma bounded_u32 L : 4 <= L -> bounded L dec_u32.
Proof. intros H. apply bounded_bind; [apply bounded_read_n; exact H|intros; apply bounded_ret]. Qed.
Lemma bounded_u64 L : 8 <= L -> bounded L dec_u64.
Proof. intros H. apply bounded_bind; [apply bounded_read_n; exact H|intros; apply bounded_ret]. Qed.
Lemma bounded_skip_pad L n : 4 <= L -> bounded L (skip_pad n).
Proof.
  intros H. apply bounded_bind; [|intros; apply bounded_ret].
  apply bounded_read_n. pose proof (pad_len_lt n). lia.
Qed.
Lemma bounded_opaque L limit : 4 <= L -> limit <= L -> bounded L (dec_opaque limit).
Proof.
  intros H4 Hl. apply bounded_bind; [apply bounded_u32; exact H4|]. intros n.
  destruct (limit <? n) eqn:E; [apply bounded_fail|]. apply N.ltb_ge in E.
  apply bounded_bind; [apply bounded_read_n; lia|]. intros b.
  apply bounded_bind; [apply bounded_skip_pad; exact H4|intros; apply bounded_ret].
Qed.
Lemma bounded_string : bounded string_limit dec_string.
Proof.
  assert (string_limit = 8192) by reflexivity.
  apply bounded_bind; [apply bounded_opaque; lia|]. intros b.
  destruct (has_byte 0 b); [apply bounded_fail|apply bounded_ret].
Qed.
Lemma bounded_fh : bounded fh_max_len dec_fh.
Proof.
  assert (fh_max_len = 64) by reflexivity.
  apply bounded_bind; [apply bounded_u32; lia|]. intros n.
  destruct (fh_max_len <? n) eqn:E; [apply bounded_fail|]. apply N.ltb_ge in E.
  destruct (negb (n =? fh_len)); [|apply bounded_u64; lia].
  apply bounded_bind; [|intros; apply bounded_fail].
  apply bounded_read_n. rewrite padded_eq. pose proof (pad_len_spec n). pose proof (pad_len_lt n). lia.
Qed.

(* ---- inversion of a successful bind ---- *)
Lemma bind_ok_inv {A B} (d : dec A) (f : A -> dec B) s b s2 t :
  bind d f s = (Ok b, s2, t) ->
  exists a s1 t1 t2, d s = (Ok a, s1, t1) /\ f a s1 = (Ok b, s2, t2) /\ t = t1 ++ t2.
Proof.
  unfold bind. destruct (d s) as [[[a|e] s1] t1]; [|discriminate].
  destruct (f a s1) as [[r s2'] t2] eqn:Ef. intros H. injection H as -> -> <-.
  exists a, s1, t1, t2. auto.
Qed.

(* ---- theorem-shaped corollaries (cited by Properties/C13.v) ---- *)
Lemma u32_roundtrip_lemma : forall v rest, v < 4294967296 ->
  dec_u32 (enc_u32 v ++ rest) = (Ok v, rest, [Rd 4]) /\ len (enc_u32 v) = 4.
Proof. intros v rest H. split; [apply (exact_ok Rnil); apply exact_u32; exact H|apply enc_u32_len]. Qed.
Lemma u64_roundtrip_lemma : forall v rest, v < 18446744073709551616 ->
  dec_u64 (enc_u64 v ++ rest) = (Ok v, rest, [Rd 8]) /\ len (enc_u64 v) = 8.
Proof. intros v rest H. split; [apply (exact_ok Rnil); apply exact_u64; exact H|apply enc_u64_len]. Qed.
Lemma opaque_roundtrip_lemma : forall limit b rest, len b <= limit -> len b < 4294967296 ->
  dec_opaque limit (enc_opaque b ++ rest) = (Ok b, rest, opaque_trace (len b)) /\
  len (enc_opaque b) = 4 + len b + pad_len (len b) /\ len (enc_opaque b) mod 4 = 0.
Proof.
  intros limit b rest H1 H2. split; [apply (exact_ok Rnil); apply exact_opaque; assumption|].
  split; [apply enc_opaque_len|]. rewrite enc_opaque_len. pose proof (pad_len_spec (len b)). lia.
Qed.
Lemma string_roundtrip_lemma : forall b rest, len b <= string_limit ->
  dec_string (enc_string b ++ rest) =
    ((if has_byte 0 b then Err ENul else Ok b), rest, opaque_trace (len b)) /\
  len (enc_string b) = 4 + len b + pad_len (len b) /\ len (enc_string b) mod 4 = 0.
Proof.
  intros b rest H. split.
  - destruct (has_byte 0 b) eqn:E; [apply dec_string_nul; assumption|].
    apply (exact_ok Rnil). apply exact_string; assumption.
  - unfold enc_string. split; [apply enc_opaque_len|]. rewrite enc_opaque_len.
    pose proof (pad_len_spec (len b)). lia.
Qed.
Lemma fh_roundtrip_lemma : forall h rest, h < 18446744073709551616 ->
  dec_fh (enc_fh h ++ rest) = (Ok h, rest, [Rd 4; Rd 8]) /\ len (enc_fh h) = 12.
Proof.
  intros h rest H. split; [apply (exact_ok Rnil); apply exact_fh; exact H|].
  unfold enc_fh. rewrite len_app, enc_u32_len, enc_u64_len. reflexivity.
Qed.
Lemma xdr_truncated_lemma :
  (forall v k, v < 4294967296 -> k < len (enc_u32 v) ->
     exists t, dec_u32 (take k (enc_u32 v)) = (Err EShort, [], t)) /\
  (forall v k, v < 18446744073709551616 -> k < len (enc_u64 v) ->
     exists t, dec_u64 (take k (enc_u64 v)) = (Err EShort, [], t)) /\
  (forall limit b k, len b <= limit -> len b < 4294967296 -> k < len (enc_opaque b) ->
     exists t, dec_opaque limit (take k (enc_opaque b)) = (Err EShort, [], t)) /\
  (forall b k, len b <= string_limit -> has_byte 0 b = false -> k < len (enc_string b) ->
     exists t, dec_string (take k (enc_string b)) = (Err EShort, [], t)) /\
  (forall h k, h < 18446744073709551616 -> k < len (enc_fh h) ->
     exists t, dec_fh (take k (enc_fh h)) = (Err EShort, [], t)).
Proof.
  repeat split; intros.
  - eapply exact_trunc; [apply exact_u32|]; eassumption.
  - eapply exact_trunc; [apply exact_u64|]; eassumption.
  - eapply exact_trunc; [apply exact_opaque|]; eassumption.
  - eapply exact_trunc; [apply exact_string|]; eassumption.
  - eapply exact_trunc; [apply exact_fh|]; eassumption.
Qed.

Lemma string_bounds_lemma :
  (forall s, tr_le string_limit (o_trace (dec_string s))) /\
  (forall s, 4 <= len s -> string_limit < be_dec (take 4 s) ->
     dec_string s = (Err ELimit, drop 4 s, [Rd 4])).
Proof. split; [exact bounded_string|exact dec_string_over]. Qed.
Lemma opaque_bounds_lemma : forall limit, 4 <= limit ->
  (forall s, tr_le limit (o_trace (dec_opaque limit s))) /\
  (forall s, 4 <= len s -> limit < be_dec (take 4 s) ->
     dec_opaque limit s = (Err ELimit, drop 4 s, [Rd 4])).
Proof.
  intros limit H. split; [apply bounded_opaque; lia|]. intros s. apply dec_opaque_over.
Qed.
Lemma fh_bounds_lemma :
  (forall s, tr_le fh_max_len (o_trace (dec_fh s))) /\
  (forall s, 4 <= len s -> fh_max_len < be_dec (take 4 s) ->
     dec_fh s = (Err ELimit, drop 4 s, [Rd 4])) /\
  (forall n data rest, n <= fh_max_len -> n <> fh_len -> len data = n + pad_len n ->
     dec_fh (enc_u32 n ++ data ++ rest) = (Err EBadLen, rest, [Rd 4] ++ rd (n + pad_len n))).
Proof. split; [exact bounded_fh|]. split; [exact dec_fh_over|exact dec_fh_badlen]. Qed.
