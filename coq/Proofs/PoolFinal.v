(* Proofs/PoolFinal.v — the invariants along arbitrary traces, and the three C20 lemmas. *)
From Coq Require Import List Arith Bool Lia.
From Verif Require Import Model.PoolLTS Proofs.PoolProofs Proofs.PoolStr Proofs.PoolStep Proofs.PoolStepB.
Import ListNotations.

Lemma Str_step c s l s' : good c -> Str s -> step c s l = Some s' -> Str s'.
Proof.
  intros GD St H. destruct l.
  - eapply Str_SubmitCall; eauto.
  - eapply Str_SubmitBegin; eauto.
  - eapply Str_SubmitEnq; eauto.
  - eapply Str_SubmitTimeout; eauto.
  - eapply Str_Take; eauto.
  - eapply Str_Exit; eauto.
  - eapply Str_Exit; eauto.
  - eapply Str_Finish; eauto.
  - eapply Str_StopCall; eauto.
  - eapply Str_StopCAS; eauto.
  - eapply Str_StopClose; eauto.
  - eapply Str_StopWait; eauto.
  - eapply Str_StopDrain; eauto.
  - eapply Str_RzCall; eauto.
  - eapply Str_RzBegin; eauto.
  - eapply Str_RzStop; eauto.
  - eapply Str_RzClose; eauto.
  - eapply Str_RzWait; eauto.
  - eapply Str_RzDrain; eauto.
  - eapply Str_RzSwap; eauto.
  - eapply Str_RzReenq; eauto.
Qed.

(* ---- along traces ---- *)
Lemma run_inv (P : state -> Prop) c :
  (forall s l s', P s -> step c s l = Some s' -> P s') ->
  forall tr s s', P s -> run c s tr = Some s' -> P s'.
Proof.
  intros ST. induction tr as [|l r IH]; cbn; intros s s' Ps H.
  - injection H as <-. exact Ps.
  - destruct (step c s l) as [s1|] eqn:E; [|discriminate]. exact (IH _ _ (ST _ _ _ Ps E) H).
Qed.

Lemma G_run c n tr s : run c (init n) tr = Some s -> G s.
Proof. apply (run_inv G c (fun s l s' => G_step c s l s')). apply G_init. Qed.

Lemma Book_run c n tr s : overflow_closes c = true -> run c (init n) tr = Some s -> G s /\ Book s.
Proof.
  intros OC. apply (run_inv (fun s => G s /\ Book s) c).
  - intros s0 l s1 (Gs & B) E. split; [exact (G_step _ _ _ _ Gs E)|exact (Book_step _ _ _ _ OC Gs B E)].
  - split; [apply G_init|apply Book_init].
Qed.

Lemma Str_run c n tr s : good c -> run c (init n) tr = Some s -> Str s.
Proof. intros GD. apply (run_inv Str c (fun s l s' => Str_step c s l s' GD)). apply Str_init. Qed.

(* ---- C20, first part: bounded concurrency ---- *)
Lemma C20_bounded_lemma c n tr s :
  good c -> run c (init n) tr = Some s ->
  executing s <= maxw s /\ executing s <= Nat.max (maxw s) (rz_target s).
Proof.
  intros GD R. pose proof (Str_run _ _ _ _ GD R) as St.
  pose proof (executing_le_live s). pose proof (s_live _ St). lia.
Qed.

(* ---- second part: no task executes twice (any configuration, any trace) ---- *)
Lemma C20_at_most_once_lemma c n tr s :
  run c (init n) tr = Some s -> NoDup (exec_tasks (workers s) ++ executed s).
Proof.
  intros R. pose proof (G_run _ _ _ _ R) as Gs. apply nodup_cnt. intros t.
  pose proof (g_once _ Gs t) as O. rewrite cnt_places in O. rewrite cnt_app. lia.
Qed.

(* ---- third part: in a quiescent state every submitter has its answer ---- *)
Definition quiescent (c : cfg) (s : state) : Prop := forall l, internal l = true -> step c s l = None.

Definition resolved (s : state) : Prop :=
  panicked s = false /\
  forall t st, In (t, st) (subs s) ->
    match st with
    | SGot v => v = Some t /\ cnt t (executed s) = 1            (* executed exactly once, its own result delivered *)
    | SNotExec | SRejected => cnt t (executed s) = 0            (* told so / refused: never executed by the pool *)
    | SCalled | SPending _ | SWait | SPanic => False            (* nobody is left waiting *)
    end.

Lemma not_none {A} (o : option A) : (o = None -> False) -> exists x, o = Some x.
Proof. destruct o; [eauto|tauto]. Qed.

Lemma no_pending_intro s : (forall t g, ~ In (t, SPending g) (subs s)) -> no_pending s = true.
Proof.
  intros N. unfold no_pending. apply forallb_forall. intros [t st] I. destruct st; try reflexivity.
  exfalso. exact (N _ _ I).
Qed.
Lemma all_exited_intro s : (forall w x, nth_error (workers s) w = Some x -> x = WExit) -> all_exited s = true.
Proof.
  intros N. unfold all_exited. apply forallb_forall. intros x I. apply In_nth_error in I. destruct I as (w & E).
  rewrite (N _ _ E). reflexivity.
Qed.
Lemma live_witness ws : length (filter (fun w => negb (is_exit w)) ws) >= 1 -> exists w x, nth_error ws w = Some x /\ is_exit x = false.
Proof.
  induction ws as [|y r IH]; cbn; [lia|]. destruct (is_exit y) eqn:Q; cbn.
  - intros L. destruct (IH L) as (w & x & E & N). exists (S w), x. auto.
  - intros _. exists 0, y. auto.
Qed.
Lemma queued_nil s : (forall g G0, nth_error (gens s) g = Some G0 -> g_items G0 = []) -> queued s = [].
Proof.
  unfold queued. intros N. induction (gens s) as [|G0 r IH]; [reflexivity|]. cbn.
  rewrite (N 0 G0 eq_refl). cbn. apply IH. intros g G1 E. exact (N (S g) G1 E).
Qed.

Section Quiescent.
Variables (c : cfg) (s : state).
Hypothesis GD : good c.
Hypothesis Gs : G s.
Hypothesis Bk : Book s.
Hypothesis St : Str s.
Hypothesis Q : quiescent c s.

Let NP := s_nopanic _ St.
Let CN := curgen_nth s (s_cur _ St).
Let PC := Str_pcs _ St.

Ltac enabled l := let H := fresh "H" in assert (H := Q l eq_refl); unfold step in H; rewrite NP in H.

Lemma q_no_called t : ~ In (t, SCalled) (subs s).
Proof. intros I. enabled (SubmitBegin t). rewrite (in_sub_of _ _ _ (g_keys _ Gs) I) in H. discriminate. Qed.

Lemma q_no_pending t g : ~ In (t, SPending g) (subs s).
Proof.
  intros I. destruct (s_pend _ St _ _ I) as (-> & CL).
  destruct (length (g_items (curgen s)) <? g_cap (curgen s)) eqn:LT.
  - enabled (SubmitEnq t). rewrite (in_sub_of _ _ _ (g_keys _ Gs) I) in H. unfold with_gen in H. rewrite CN, CL, LT in H. discriminate.
  - enabled (SubmitTimeout t). rewrite (in_sub_of _ _ _ (g_keys _ Gs) I) in H. unfold with_gen in H. rewrite CN, CL in H.
    apply Nat.ltb_ge in LT. apply Nat.leb_le in LT. rewrite LT in H. discriminate.
Qed.

Lemma q_no_exec w t : nth_error (workers s) w <> Some (WExec t).
Proof. intros E. enabled (Finish w). rewrite E in H. discriminate. Qed.

Lemma q_np : no_pending s = true.
Proof. apply no_pending_intro. exact q_no_pending. Qed.

(* once the context of the current generation is cancelled every idle worker can leave *)
Lemma q_exited : g_cancel (curgen s) = true -> all_exited s = true.
Proof.
  intros CA. apply all_exited_intro. intros w x E. destruct x as [g|t|]; [| |reflexivity].
  - exfalso. pose proof (s_idle _ St _ _ E) as ->. enabled (ExitCtx w). rewrite E in H. unfold with_gen in H. rewrite CN, CA in H. discriminate.
  - exfalso. exact (q_no_exec _ _ E).
Qed.

Lemma q_stop_free : stop_free s = true.
Proof.
  destruct PC as (SI & _ & _). unfold stop_inv in SI. unfold stop_free. destruct (stop s) eqn:E; try reflexivity; exfalso.
  - destruct SI as (_ & _ & _ & CA & CL). enabled StopClose. rewrite E, q_np in H. unfold with_gen in H. rewrite CN in H. discriminate.
  - destruct SI as (_ & _ & _ & CA & CL & _). enabled StopWait. rewrite E, (q_exited CA) in H. discriminate.
  - destruct SI as (_ & _ & _ & -> & CL & _). enabled StopDrain. rewrite E in H. unfold with_gen in H. rewrite CN, CL in H.
    destruct (g_items (curgen s)); discriminate.
Qed.

Lemma q_rz_free : rz_free s = true.
Proof.
  destruct PC as (_ & RI & _). unfold rz_inv in RI. unfold rz_free. destruct (rz s) eqn:E; try reflexivity; exfalso.
  - destruct RI as (_ & -> & _). enabled RzStop. rewrite E in H. unfold with_gen in H. rewrite CN in H.
    destruct was; [destruct (running s)|]; discriminate.
  - enabled RzClose. rewrite E, q_np in H. unfold with_gen in H. rewrite CN in H. discriminate.
  - destruct RI as (_ & _ & _ & CA & _). enabled RzWait. rewrite E, (q_exited CA) in H. discriminate.
  - destruct RI as (_ & -> & _ & _ & CL & _). enabled RzDrain. rewrite E in H. unfold with_gen in H. rewrite CN, CL in H.
    destruct (g_items (curgen s)); discriminate.
  - enabled RzSwap. rewrite E in H. destruct was; [destruct (running s)|]; discriminate.
  - enabled RzReenq. rewrite E in H. unfold with_gen in H. rewrite CN in H. destruct pend; [discriminate|].
    destruct (g_closed (curgen s)); [discriminate|]. destruct (_ <? _); discriminate.
  - enabled RzReenq. rewrite E in H. destruct pend; discriminate.
Qed.

Lemma q_stop_idle : stop s = SpIdle.
Proof.
  pose proof q_stop_free as SF. unfold stop_free in SF. destruct (stop s) eqn:E; try discriminate; [reflexivity|exfalso].
  enabled StopCAS. rewrite E, q_rz_free in H. rewrite andb_false_r in H. unfold with_gen in H. rewrite CN in H.
  destruct (running s); discriminate.
Qed.
Lemma q_rz_idle : rz s = RpIdle.
Proof.
  pose proof q_rz_free as RF. unfold rz_free in RF. destruct (rz s) eqn:E; try discriminate; [reflexivity|exfalso].
  enabled RzBegin. rewrite E, q_stop_free in H. rewrite andb_false_r in H. destruct (maxw s =? Nat.max n 1); discriminate.
Qed.

Lemma q_active_nil : active s = [].
Proof.
  destruct PC as (_ & _ & FI). destruct (FI q_stop_free q_rz_free) as (_ & RT & RF).
  assert (EX : exec_tasks (workers s) = []).
  { unfold exec_tasks. assert (X : forall x, In x (workers s) -> forall t, x <> WExec t).
    { intros x I t ->. apply In_nth_error in I. destruct I as (w & E). exact (q_no_exec _ _ E). }
    induction (workers s) as [|y r IH]; [reflexivity|]. cbn. destruct y as [g|t|]; cbn.
    - apply IH. intros x I. apply X. right; exact I.
    - exfalso. exact (X _ (or_introl eq_refl) t eq_refl).
    - apply IH. intros x I. apply X. right; exact I. }
  assert (CI : g_items (curgen s) = []).
  { destruct (running s) eqn:R; [|apply (RF eq_refl)].
    destruct (RT eq_refl) as (CL & CA & LV). destruct (g_items (curgen s)) as [|t q] eqn:EI; [reflexivity|exfalso].
    assert (MW : maxw s >= 1).
    { pose proof (s_len _ St) as L. rewrite EI in L. pose proof (s_cap _ St) as C. cbn in L. unfold queue_factor in C. lia. }
    destruct (live_witness (workers s)) as (w & x & E & N); [unfold live in LV; lia|].
    destruct x as [g|u|]; [|exact (q_no_exec _ _ E)|discriminate].
    pose proof (s_idle _ St _ _ E) as ->. enabled (Take w). rewrite E in H. unfold with_gen in H. rewrite CN, EI in H. discriminate. }
  unfold active. rewrite EX, q_rz_idle. cbn. rewrite app_nil_r. apply queued_nil.
  intros g G0 E. destruct (Nat.eq_dec g (cur s)) as [->|N]; [|exact (s_old _ St _ _ E N)].
  rewrite CN in E. injection E as <-. exact CI.
Qed.

Lemma q_resolved : resolved s.
Proof.
  split; [exact NP|]. intros t st I. destruct st.
  - exact (q_no_called _ I).
  - exact (q_no_pending _ _ I).
  - pose proof (b_wait1 _ Bk _ I) as A. rewrite q_active_nil in A. cbn in A. unfold cnt in A. cbn in A. lia.
  - destruct (b_got _ Bk _ _ I) as (V & IX). split; [exact V|]. apply cnt_in in IX.
    pose proof (g_once _ Gs t) as O. rewrite cnt_places_active in O. lia.
  - apply cnt_notin. intros IX. pose proof (b_exd _ Bk _ IX) as I2. pose proof (sub_unique _ _ _ _ (g_keys _ Gs) I I2). discriminate.
  - apply cnt_notin. intros IX. pose proof (b_exd _ Bk _ IX) as I2. pose proof (sub_unique _ _ _ _ (g_keys _ Gs) I I2). discriminate.
  - exact (b_nop _ Bk NP _ I).
Qed.
End Quiescent.

Lemma C20_resolved_lemma c n tr s :
  good c -> run c (init n) tr = Some s -> quiescent c s -> resolved s.
Proof.
  intros GD R Q. destruct GD as (SD & OC & LK). destruct (Book_run _ _ _ _ OC R) as (Gs & Bk).
  apply (q_resolved c s Gs Bk (Str_run _ _ _ _ (conj SD (conj OC LK)) R) Q).
Qed.

(* the executable test used by the correspondence monitor implies the quantified notion *)
Lemma candidates_complete c s l s' : internal l = true -> step c s l = Some s' -> In l (candidates s).
Proof.
  intros IL H. unfold candidates. unfold step in H. destruct (panicked s); [discriminate|].
  destruct l; try discriminate IL.
  - apply in_or_app. left. apply in_flat_map. destruct (sub_of t (subs s)) as [st|] eqn:E; [|discriminate].
    exists (t, st). split; [apply sub_of_in; exact E|cbn; auto].
  - apply in_or_app. left. apply in_flat_map. destruct (sub_of t (subs s)) as [st|] eqn:E; [|discriminate].
    exists (t, st). split; [apply sub_of_in; exact E|cbn; auto].
  - apply in_or_app. left. apply in_flat_map. destruct (sub_of t (subs s)) as [st|] eqn:E; [|discriminate].
    exists (t, st). split; [apply sub_of_in; exact E|cbn; auto].
  - apply in_or_app. right. apply in_or_app. left. apply in_flat_map. exists w.
    destruct (nth_error (workers s) w) eqn:E; [|discriminate]. split; [apply in_seq; apply nth_error_lt in E; lia|cbn; auto].
  - apply in_or_app. right. apply in_or_app. left. apply in_flat_map. exists w.
    destruct (nth_error (workers s) w) eqn:E; [|discriminate]. split; [apply in_seq; apply nth_error_lt in E; lia|cbn; auto].
  - apply in_or_app. right. apply in_or_app. left. apply in_flat_map. exists w.
    destruct (nth_error (workers s) w) eqn:E; [|discriminate]. split; [apply in_seq; apply nth_error_lt in E; lia|cbn; auto 6].
  - apply in_or_app. right. apply in_or_app. left. apply in_flat_map. exists w.
    destruct (nth_error (workers s) w) eqn:E; [|discriminate]. split; [apply in_seq; apply nth_error_lt in E; lia|cbn; auto 6].
  - apply in_or_app. right. apply in_or_app. right. cbn. auto 12.
  - apply in_or_app. right. apply in_or_app. right. cbn. auto 12.
  - apply in_or_app. right. apply in_or_app. right. cbn. auto 12.
  - apply in_or_app. right. apply in_or_app. right. cbn. auto 12.
  - apply in_or_app. right. apply in_or_app. right. cbn. auto 12.
  - apply in_or_app. right. apply in_or_app. right. cbn. auto 12.
  - apply in_or_app. right. apply in_or_app. right. cbn. auto 12.
  - apply in_or_app. right. apply in_or_app. right. cbn. auto 12.
  - apply in_or_app. right. apply in_or_app. right. cbn. auto 12.
  - apply in_or_app. right. apply in_or_app. right. cbn. auto 14.
  - apply in_or_app. right. apply in_or_app. right. cbn. auto 14.
Qed.

Lemma quiescentb_sound c s : quiescentb c s = true -> quiescent c s.
Proof.
  unfold quiescentb, quiescent. rewrite forallb_forall. intros F l IL.
  destruct (step c s l) as [s'|] eqn:E; [exfalso|reflexivity].
  specialize (F _ (candidates_complete _ _ _ _ IL E)). rewrite E in F. discriminate.
Qed.

(* ---- the statements in the form used by Properties/C20.v ---- *)
Definition reachable (c : cfg) (n : nat) (s : state) : Prop := exists tr, run c (init n) tr = Some s.

Lemma C20_bounded_reach c : good c -> forall n s, reachable c n s ->
  executing s <= maxw s /\ executing s <= Nat.max (maxw s) (rz_target s).
Proof. intros GD n s (tr & R). exact (C20_bounded_lemma _ _ _ _ GD R). Qed.
Lemma C20_at_most_once_reach c n s : reachable c n s -> NoDup (exec_tasks (workers s) ++ executed s).
Proof. intros (tr & R). exact (C20_at_most_once_lemma _ _ _ _ R). Qed.
Lemma C20_resolved_reach c : good c -> forall n s, reachable c n s -> quiescent c s -> resolved s.
Proof. intros GD n s (tr & R). exact (C20_resolved_lemma _ _ _ _ GD R). Qed.
