(* Proofs/HandlesProofs.v — invariants of the handle table model (Model/Handles.v).
   Everything is proved for an arbitrary path type with a correct boolean equality. *)
From Coq Require Import List NArith ZArith Bool Lia.
From Verif Require Import Model.Handles.
Import ListNotations.
Open Scope N_scope.

Section HandlesProofs.
Context {P : Type} (P_eqb : P -> P -> bool).
Hypothesis P_eqb_spec : forall p q, reflect (p = q) (P_eqb p q).

Notation allocate := (allocate P_eqb).
Notation assocP := (assocP P_eqb).
Notation apply := (apply P_eqb).
Implicit Types (m : fhmap P) (p q : P).

(* ---------- invariant ---------- *)
Record Inv0 (m : fhmap P) : Prop := {
  i_ndh : NoDup (map fst (handles m));
  i_ndp : NoDup (map fst (byPath m));
  i_bij : forall p h, In (p, h) (byPath m) <-> In (h, p) (handles m);
  i_free : forall h, In h (free m) -> h < next m /\ ~ In h (map fst (handles m));
  i_lt : forall h, In h (map fst (handles m)) -> h < next m;
  i_ndf : NoDup (free m) }.
Definition Inv (m : fhmap P) : Prop := Inv0 m /\ N.of_nat (length (handles m)) <= eff_max m.

Lemma eff_max_pos m : 1 <= eff_max m.
Proof. unfold eff_max, default_max_handles. destruct (maxH m <=? 0)%Z eqn:E; [lia|]. apply Z.leb_gt in E. lia. Qed.

Lemma min_of_in x l : In (min_of x l) (x :: l).
Proof.
  revert x; induction l as [|y l IH]; intros x; cbn; [auto|].
  destruct (IH (N.min x y)) as [H|H].
  - rewrite <- H. destruct (N.min_spec x y) as [[_ E]|[_ E]]; rewrite E; auto.
  - auto.
Qed.

Lemma assocH_in h l p : assocH h l = Some p -> In (h, p) l.
Proof.
  induction l as [|[k q] r IH]; cbn; [discriminate|].
  destruct (k =? h) eqn:E; [apply N.eqb_eq in E; intros [= ->]; subst; auto | auto].
Qed.
Lemma assocP_none p l : assocP p l = None -> ~ In p (map fst l).
Proof.
  induction l as [|[q h] r IH]; cbn; [tauto|].
  destruct (P_eqb_spec p q); [discriminate|]. intros H [E|E]; [congruence|]. exact (IH H E).
Qed.
Lemma assocP_some p l h : assocP p l = Some h -> In (p, h) l.
Proof.
  induction l as [|[q k] r IH]; cbn; [discriminate|].
  destruct (P_eqb_spec p q); [intros [= ->]; subst; auto | auto].
Qed.
Lemma assocH_head_nodup h p l : NoDup (map fst l) -> In (h, p) l -> assocH h l = Some p.
Proof.
  induction l as [|[k q] r IH]; cbn; [tauto|]. intros ND [E|E].
  - inversion E; subst. rewrite N.eqb_refl. reflexivity.
  - inversion ND as [|? ? Hn ND']; subst. destruct (k =? h) eqn:Ek.
    + apply N.eqb_eq in Ek; subst. exfalso. apply Hn. apply (in_map fst) in E. exact E.
    + auto.
Qed.

Lemma map_fst_filter_sub {A} (f : N * A -> bool) l x : In x (map fst (filter f l)) -> In x (map fst l).
Proof. rewrite !in_map_iff. intros [e [E H]]. apply filter_In in H. exists e; tauto. Qed.

Lemma NoDup_map_filter {A B} (g : A -> B) (f : A -> bool) l : NoDup (map g l) -> NoDup (map g (filter f l)).
Proof.
  induction l as [|a l IH]; cbn; [auto|]. intros ND. inversion ND as [|? ? Hn ND']; subst.
  destruct (f a); cbn; [constructor|]; auto.
  intros H. apply Hn. rewrite in_map_iff in *. destruct H as [e [E H]]. apply filter_In in H. exists e; tauto.
Qed.

Lemma filter_id_all {A} (f : A -> bool) l : (forall x, In x l -> f x = true) -> filter f l = l.
Proof.
  induction l as [|a l IH]; cbn; [reflexivity|]. intros H. rewrite (H a (or_introl eq_refl)). f_equal. apply IH. auto.
Qed.

Lemma length_filter_drop (v : N) (l : list (N * P)) :
  NoDup (map fst l) -> In v (map fst l) ->
  S (length (filter (fun e => negb (fst e =? v)) l)) = length l.
Proof.
  induction l as [|[k q] r IH]; cbn; [tauto|]. intros ND Hin. inversion ND as [|? ? Hn ND']; subst.
  destruct (k =? v) eqn:E; cbn.
  - apply N.eqb_eq in E; subst. f_equal.
    assert (filter (fun e => negb (fst e =? v)) r = r) as ->; [|reflexivity].
    apply filter_id_all. intros [k2 q2] H2. cbn.
    destruct (k2 =? v) eqn:E2; [|reflexivity]. apply N.eqb_eq in E2; subst.
    exfalso. apply Hn. apply (in_map fst) in H2. exact H2.
  - f_equal. apply IH; auto. destruct Hin as [H|H]; [apply N.eqb_neq in E; congruence|exact H].
Qed.

Lemma drop_id_inv v m : Inv0 m -> In v (map fst (handles m)) ->
  Inv0 (drop_id v m) /\ S (length (handles (drop_id v m))) = length (handles m).
Proof.
  intros I Hv. split; [|apply length_filter_drop; [apply (i_ndh _ I)|exact Hv]].
  constructor; cbn.
  - apply NoDup_map_filter, (i_ndh _ I).
  - apply NoDup_map_filter, (i_ndp _ I).
  - intros p h. rewrite !filter_In. cbn. rewrite (i_bij _ I). tauto.
  - intros h [E|E].
    + subst. split; [apply (i_lt _ I); exact Hv|]. rewrite in_map_iff. intros [[k q] [E H]]. cbn in E; subst.
      apply filter_In in H. cbn in H. rewrite N.eqb_refl in H. destruct H; discriminate.
    + destruct (i_free _ I h E) as [A B]. split; [exact A|]. intros H. apply B. eapply map_fst_filter_sub; eauto.
  - intros h H. apply (i_lt _ I). eapply map_fst_filter_sub; eauto.
  - constructor; [|apply (i_ndf _ I)]. intros H. apply (i_free _ I v H). exact Hv.
Qed.

Lemma drop_id_keeps v m k p : k <> v -> In (k, p) (handles m) -> In (k, p) (handles (drop_id v m)).
Proof. intros Hne H. cbn. apply filter_In. split; [exact H|]. cbn. apply negb_true_iff, N.eqb_neq. exact Hne. Qed.

Lemma drop_id_max v m : eff_max (drop_id v m) = eff_max m.
Proof. reflexivity. Qed.

(* eviction: keeps [keep]'s entry, keeps Inv0, removes min n (len-1) entries *)
Lemma evict_spec : forall n keep p m,
  Inv0 m -> In (keep, p) (handles m) ->
  let m' := evict n keep m in
  Inv0 m' /\ In (keep, p) (handles m') /\ eff_max m' = eff_max m /\
  (length (handles m') = length (handles m) - Nat.min n (length (handles m) - 1))%nat.
Proof.
  induction n as [|n IH]; intros keep p m I Hk; cbn [evict].
  - cbv zeta. split; [exact I|split; [exact Hk|split; [reflexivity|cbn; lia]]].
  - destruct (filter (fun e => negb (fst e =? keep)) (handles m)) as [|[h0 q0] r] eqn:Ef.
    + (* only [keep] is live *)
      cbv zeta. split; [exact I|split; [exact Hk|split; [reflexivity|]]].
      assert (length (handles m) = 1)%nat; [|lia].
      pose proof (length_filter_drop keep (handles m) (i_ndh _ I)) as L.
      rewrite Ef in L. cbn in L. symmetry. apply L. apply (in_map fst) in Hk. exact Hk.
    + set (v := min_of h0 (map fst r)).
      assert (Hv : In v (map fst ((h0, q0) :: r))) by (cbn; apply min_of_in).
      rewrite <- Ef in Hv.
      assert (Hvl : In v (map fst (handles m))) by (eapply map_fst_filter_sub; eauto).
      assert (Hne : keep <> v).
      { intros ->. rewrite in_map_iff in Hv. destruct Hv as [[k q] [E H]]. cbn in E; subst.
        apply filter_In in H. cbn in H. rewrite N.eqb_refl in H. destruct H; discriminate. }
      destruct (drop_id_inv v m I Hvl) as [I' L'].
      specialize (IH keep p (drop_id v m) I' (drop_id_keeps v m keep p Hne Hk)).
      cbn zeta in IH. destruct IH as (A & B & C & D).
      split; [exact A|split; [exact B|split; [exact C|]]].
      rewrite D. 
      assert (2 <= length (handles m))%nat.
      { pose proof (length_filter_drop keep (handles m) (i_ndh _ I)) as L.
        rewrite Ef in L. cbn in L. specialize (L (in_map fst _ _ Hk)). cbn in L. lia. }
      lia.
Qed.

Lemma evict_max n keep m : eff_max (evict n keep m) = eff_max m.
Proof.
  revert m; induction n as [|n IH]; intros m; cbn [evict]; [reflexivity|].
  destruct (filter _ (handles m)) as [|[h0 q0] r]; [reflexivity|]. rewrite IH. reflexivity.
Qed.

Lemma remove1_in x h l : In x (remove1 h l) -> In x l.
Proof.
  induction l as [|y r IH]; cbn; [tauto|]. destruct (y =? h); cbn; [auto|]. intros [E|E]; auto.
Qed.
Lemma remove1_nodup h l : NoDup l -> NoDup (remove1 h l) /\ ~ In h (remove1 h l).
Proof.
  induction l as [|y r IH]; cbn; intros ND; [split; [constructor|tauto]|].
  inversion ND as [|? ? Hn ND']; subst. destruct (y =? h) eqn:E.
  - apply N.eqb_eq in E; subst. auto.
  - destruct (IH ND') as [A B]. split.
    + constructor; [|exact A]. intros H. apply Hn. eapply remove1_in; eauto.
    + cbn. intros [F|F]; [apply N.eqb_neq in E; congruence|auto].
Qed.
Lemma pop_min_spec l h f : pop_min l = Some (h, f) -> In h l /\ f = remove1 h l.
Proof.
  destruct l as [|x r]; cbn; [discriminate|]. intros [= <- <-]. split; [apply min_of_in|reflexivity].
Qed.

Lemma allocate_spec m p : Inv m ->
  Inv (fst (allocate m p)) /\ get (fst (allocate m p)) (snd (allocate m p)) = Some p.
Proof.
  intros [I L]. unfold allocate.
  destruct (assocP p (byPath m)) as [h|] eqn:Ep.
  - cbn. split; [split; assumption|].
    apply assocP_some in Ep. apply (i_bij _ I) in Ep.
    apply assocH_head_nodup; [apply (i_ndh _ I)|exact Ep].
  - apply assocP_none in Ep.
    (* the id chosen is fresh, and the free list / next stay consistent *)
    assert (Hfresh : exists h fr nx,
      (match pop_min (free m) with Some (h, f) => (h, f, next m) | None => (next m, free m, next m + 1) end) = (h, fr, nx)
      /\ ~ In h (map fst (handles m)) /\ h < nx /\ next m <= nx /\ NoDup fr /\ ~ In h fr /\ (forall x, In x fr -> In x (free m))).
    { destruct (pop_min (free m)) as [[h f]|] eqn:Epm.
      - apply pop_min_spec in Epm. destruct Epm as [Hin ->].
        destruct (i_free _ I h Hin) as [A B]. destruct (remove1_nodup h (free m) (i_ndf _ I)) as [C D].
        exists h, (remove1 h (free m)), (next m). repeat split; auto; try lia. intros x; apply remove1_in.
      - exists (next m), (free m), (next m + 1). repeat split; auto; try lia.
        + intros H. apply (i_lt _ I) in H. lia.
        + apply (i_ndf _ I).
        + intros H. apply (i_free _ I) in H. lia. }
    destruct Hfresh as (h & fr & nx & -> & Hnh & Hlt & Hnx & Hndf & Hnf & Hsub).
    set (m1 := {| handles := (h, p) :: handles m; byPath := (p, h) :: byPath m; next := nx; free := fr; maxH := maxH m |}).
    assert (I1 : Inv0 m1).
    { constructor; cbn.
      - constructor; [exact Hnh|apply (i_ndh _ I)].
      - constructor; [exact Ep|apply (i_ndp _ I)].
      - intros q k. rewrite (i_bij _ I q k). split; intros [E|E]; auto; left; inversion E; reflexivity.
      - intros x Hx. split.
        + destruct (i_free _ I x (Hsub x Hx)). lia.
        + intros [E|E]; [subst; auto|]. apply (i_free _ I x (Hsub x Hx)). exact E.
      - intros x [E|E]; [subst; exact Hlt|]. apply (i_lt _ I) in E. lia.
      - exact Hndf. }
    assert (E1 : eff_max m1 = eff_max m) by reflexivity.
    destruct (eff_max m1 <? N.of_nat (length (handles m1))) eqn:Ecmp.
    + pose proof (evict_spec (N.to_nat (N.max 1 (eff_max m1 / 10))) h p m1 I1 (or_introl eq_refl)) as Hev.
      cbv zeta in Hev. destruct Hev as (A & B & C & D). cbn [fst snd]. split.
      * split; [exact A|]. rewrite C, D, E1. cbn [handles m1 length].
        pose proof (eff_max_pos m). apply N.ltb_lt in Ecmp. cbn [handles m1 length] in Ecmp. rewrite E1 in *.
        assert (N.max 1 (eff_max m / 10) <= eff_max m).
        { apply N.max_lub; [lia|]. apply N.div_le_upper_bound; lia. }
        lia.
      * apply assocH_head_nodup; [apply (i_ndh _ A)|exact B].
    + cbn [fst snd]. split.
      * split; [exact I1|]. apply N.ltb_ge in Ecmp. exact Ecmp.
      * unfold get. cbn. rewrite N.eqb_refl. reflexivity.
Qed.

Definition reach (mx : Z) (m : fhmap P) : Prop := exists ops, m = fold_left apply ops (init mx).

Lemma init_inv mx : Inv (init mx).
Proof.
  split; [constructor; cbn; [constructor|constructor|tauto|tauto|tauto|constructor]|]. cbn. pose proof (eff_max_pos (init mx)). lia.
Qed.

Lemma apply_inv m o : Inv m -> Inv (apply m o).
Proof.
  intros I. destruct o as [p|h|]; cbn.
  - apply allocate_spec, I.
  - unfold release. destruct (get m h) as [q|] eqn:E; [|exact I]. destruct I as [I L].
    apply assocH_in in E. apply (in_map fst) in E. cbn in E.
    destruct (drop_id_inv h m I E) as [A B]. split; [exact A|]. rewrite drop_id_max. lia.
  - destruct I as [I L]. unfold release_all. split.
    + constructor; cbn; [constructor|constructor|tauto|tauto|tauto|constructor].
    + unfold release_all. cbn. pose proof (eff_max_pos m). unfold eff_max in *. cbn in *. lia.
Qed.

Lemma reach_inv mx m : reach mx m -> Inv m.
Proof.
  intros [ops ->]. generalize (init_inv mx). generalize (@init P mx).
  induction ops as [|o ops IH]; intros m0 I; cbn; [exact I|]. apply IH, apply_inv, I.
Qed.


Lemma C05_live_lemma : forall mx m p, reach mx m -> get (fst (allocate m p)) (snd (allocate m p)) = Some p.
Proof. intros mx m p R. apply allocate_spec, (reach_inv mx), R. Qed.

Lemma C05_one_per_path_lemma : forall mx m, reach mx m ->
  NoDup (map fst (handles m)) /\ NoDup (map fst (byPath m)) /\
  forall p h, In (p, h) (byPath m) <-> In (h, p) (handles m).
Proof. intros mx m R. destruct (reach_inv mx m R) as [I _]. split; [apply I|split; [apply I|apply I]]. Qed.

Lemma C05_bounded_lemma : forall mx m, reach mx m -> count m <= eff_max m.
Proof. intros mx m R. apply (reach_inv mx m R). Qed.

Lemma C05_reissue_lemma : forall mx m p h, reach mx m -> get m h = Some p -> snd (allocate m p) = h.
Proof.
  intros mx m p h R G. destruct (reach_inv mx m R) as [I _]. unfold get in G.
  apply assocH_in in G. apply (i_bij _ I) in G. unfold Handles.allocate.
  destruct (assocP p (byPath m)) as [h'|] eqn:E.
  - cbn. apply assocP_some in E. apply (i_bij _ I) in E. apply (i_bij _ I) in G.
    pose proof (i_ndh _ I) as ND.
    apply assocH_head_nodup in E; [|exact ND]. apply assocH_head_nodup in G; [|exact ND].
    (* both ids map to p; byPath has no duplicate p *)
    clear ND. apply assocH_in in E. apply assocH_in in G. apply (i_bij _ I) in E. apply (i_bij _ I) in G.
    pose proof (i_ndp _ I) as NDp. clear -E G NDp.
    induction (byPath m) as [|[q k] r IH]; cbn in *; [tauto|].
    inversion NDp as [|? ? Hn ND']; subst.
    destruct E as [E|E], G as [G|G].
    + congruence.
    + inversion E; subst. exfalso. apply Hn. apply (in_map fst) in G. exact G.
    + inversion G; subst. exfalso. apply Hn. apply (in_map fst) in E. exact E.
    + auto.
  - apply assocP_none in E. exfalso. apply E. apply (in_map fst) in G. exact G.
Qed.

Lemma C05_alloc_bounded_lemma : forall mx m p, reach mx m -> count (fst (allocate m p)) <= eff_max m.
Proof.
  intros mx m p R. pose proof (reach_inv mx m R) as I.
  destruct (allocate_spec m p I) as [[_ L] _]. unfold count.
  assert (eff_max (fst (allocate m p)) = eff_max m) as <-; [|exact L].
  unfold Handles.allocate. destruct (assocP p (byPath m)); [reflexivity|].
  destruct (pop_min (free m)) as [[h f]|];
  match goal with |- context [if ?c then _ else _] => destruct c end; cbn [fst];
  try reflexivity; rewrite evict_max; reflexivity.
Qed.

End HandlesProofs.
