(* Proofs/SrvHandles.v — the handle table inside the server model (Model/Srv.v).
   C06, server side: a handle value that is not tracked is answered NFS3ERR_STALE without touching anything
     (C06_stale), and a tracked one is served against exactly the path the table holds for it (served paths).
   C05, wire side: the table invariant [Inv] and "every tracked handle has node attributes" hold in every
     reachable server state; the handle of a successful MNT / LOOKUP / CREATE / MKDIR / SYMLINK reply and of
     the last entry of a READDIRPLUS reply is live in the post-state and names the object of the request;
     the table is bounded; a live path is answered with the same value again.

   Structure: a relation [Ev s s'] ("s' comes from s by updates that leave table and node attributes alone,
   by node_set, or by alloc"), one lemma per primitive, a [des]/[ecollect]/[echain] walk through every
   handler (style of Proofs/SrvPaths.v), then the theorems. *)
From Coq Require Import List NArith ZArith Bool Lia.
From Verif Require Import Gen.Facts Model.Handles Model.Backend Model.Srv.
From Verif Require Import Proofs.HandlesProofs Proofs.HandlesReuse Proofs.SrvPaths.
Import ListNotations.
Open Scope N_scope.

(* ====================================================================================================== *)
(* 1. invariants                                                                                          *)
(* ====================================================================================================== *)
Lemma path_eqb_reflect a b : reflect (a = b) (path_eqb a b).
Proof.
  apply iff_reflect. revert b. induction a as [|x a IH]; intros [|y b]; cbn; split; try discriminate; try reflexivity.
  - intros [= -> ->]. apply andb_true_iff. split; [apply bytes_eqb_iff; reflexivity|apply IH; reflexivity].
  - intros H. apply andb_true_iff in H. destruct H as [H1 H2]. apply bytes_eqb_iff in H1. apply IH in H2. congruence.
Qed.

Definition HInv (s : srv) : Prop := Inv (hm s).
Definition NInv (s : srv) : Prop := forall h p, get (hm s) h = Some p -> node_get s h <> None.

Lemma NInv_lookup s h p : NInv s -> get (hm s) h = Some p -> exists a, lookup_node s h = Some (p, a).
Proof.
  intros N G. unfold lookup_node. rewrite G. specialize (N h p G).
  destruct (node_get s h) as [a|]; [exists a; reflexivity|congruence].
Qed.

(* ====================================================================================================== *)
(* 2. what a request can do to the table                                                                  *)
(* ====================================================================================================== *)
Definition keep (s s' : srv) : Prop := hm s' = hm s /\ nodes s' = nodes s.
Lemma keep_refl s : keep s s. Proof. split; reflexivity. Qed.
Lemma keep_trans a b c : keep a b -> keep b c -> keep a c.
Proof. intros [A1 A2] [B1 B2]. split; congruence. Qed.
Lemma keep_node_get s s' h : keep s s' -> node_get s' h = node_get s h.
Proof. intros [_ B]. unfold node_get. rewrite B. reflexivity. Qed.
Lemma keep_lookup_node s s' h : keep s s' -> lookup_node s' h = lookup_node s h.
Proof. intros K. unfold lookup_node. rewrite (keep_node_get s s' h K). destruct K as [-> _]. reflexivity. Qed.

Inductive Ev : srv -> srv -> Prop :=
| Ev_keep s s' : keep s s' -> Ev s s'
| Ev_node s h a : Ev s (node_set s h a)
| Ev_alloc s p a : Ev s (fst (alloc s p a))
| Ev_trans a b c : Ev a b -> Ev b c -> Ev a c.
Lemma Ev_refl s : Ev s s. Proof. apply Ev_keep, keep_refl. Qed.

Lemma with_fs_keep s f : keep s (with_fs s f). Proof. split; reflexivity. Qed.
Lemma with_ac_keep s a : keep s (with_ac s a). Proof. split; reflexivity. Qed.
Lemma with_dc_keep s a : keep s (with_dc s a). Proof. split; reflexivity. Qed.
Lemma with_conf_keep s a : keep s (with_conf s a). Proof. split; reflexivity. Qed.
Lemma with_now_keep s a : keep s (with_now s a). Proof. split; reflexivity. Qed.
Lemma logc_keep s c : keep s (logc s c). Proof. split; reflexivity. Qed.
Lemma clear_log_keep s : keep s (clear_log s). Proof. split; reflexivity. Qed.
Lemma ac_get_keep s p : keep s (fst (ac_get s p)).
Proof. unfold ac_get. des; cbn [fst]; auto using keep_refl, with_ac_keep. Qed.
Lemma ac_put_keep s p a : keep s (ac_put s p a). Proof. apply with_ac_keep. Qed.
Lemma ac_put_negative_keep s p : keep s (ac_put_negative s p).
Proof. unfold ac_put_negative. des; auto using keep_refl, with_ac_keep. Qed.
Lemma ac_invalidate_keep s p : keep s (ac_invalidate s p). Proof. apply with_ac_keep. Qed.
Lemma ac_invalidate_tree_keep s p : keep s (ac_invalidate_tree s p). Proof. apply with_ac_keep. Qed.
Lemma ac_invalidate_neg_keep s p : keep s (ac_invalidate_neg_in_dir s p). Proof. apply with_ac_keep. Qed.
Lemma dc_get_keep s p : keep s (fst (dc_get s p)).
Proof. unfold dc_get. des; cbn [fst]; auto using keep_refl, with_dc_keep. Qed.
Lemma dc_put_keep s p n : keep s (dc_put s p n).
Proof. unfold dc_put. des; auto using keep_refl, with_dc_keep. Qed.
Lemma dc_invalidate_keep s p : keep s (dc_invalidate s p).
Proof. unfold dc_invalidate. des; auto using keep_refl, with_dc_keep. Qed.
Lemma dc_invalidate_tree_keep s p : keep s (dc_invalidate_tree s p).
Proof. unfold dc_invalidate_tree. des; auto using keep_refl, with_dc_keep. Qed.
Lemma lift_unit_keep s c r : keep s (fst (lift_unit s c r)).
Proof. split; reflexivity. Qed.
Lemma do_lstat_keep s p : keep s (fst (do_lstat s p)). Proof. split; reflexivity. Qed.
Lemma do_stat_keep s p : keep s (fst (do_stat s p)). Proof. split; reflexivity. Qed.
Lemma node_upd_Ev s h f : Ev s (node_upd s h f).
Proof. unfold node_upd. des; [apply Ev_node|apply Ev_refl]. Qed.

(* turn [E : f s .. = (s1, x)] into a fact about s and s1 *)
Ltac kfact E stmt tac := let H := fresh "R" in assert (H : stmt) by tac; rewrite E in H; cbn [fst] in H.

(* ---------- the read-only building blocks keep table and node attributes ---------- *)
Ltac kcollect :=
  repeat match goal with
  | E : ac_get ?s ?p = (_, _) |- _ => kfact E (keep s (fst (ac_get s p))) ltac:(apply ac_get_keep); clear E
  | E : do_lstat ?s ?p = (_, _) |- _ => kfact E (keep s (fst (do_lstat s p))) ltac:(apply do_lstat_keep); clear E
  end.
Ltac kchain :=
  cbn [fst snd];
  repeat match goal with
  | |- keep ?a ?a => apply keep_refl
  | H : keep ?a ?b |- keep ?a ?b => exact H
  | |- keep ?a (ac_put ?b _ _) => apply keep_trans with b; [|apply ac_put_keep]
  | |- keep ?a (ac_put_negative ?b _) => apply keep_trans with b; [|apply ac_put_negative_keep]
  | H : keep ?b ?c |- keep ?a ?c => apply keep_trans with b; [|exact H]
  end.
Lemma srv_lookup_keep s p : keep s (fst (srv_lookup s p)).
Proof. unfold srv_lookup. des; kcollect; kchain. Qed.
Lemma srv_getattr_keep s p u g : keep s (fst (srv_getattr s p u g)).
Proof. unfold srv_getattr. des; kcollect; kchain. Qed.
Lemma getattr_h_keep s h p : keep s (fst (getattr_h s h p)).
Proof. unfold getattr_h. des; apply srv_getattr_keep. Qed.
Lemma current_attrs_keep s h p : keep s (fst (current_attrs s h p)).
Proof.
  unfold current_attrs. pose proof (getattr_h_keep s h p) as K. destruct (getattr_h s h p) as [s1 ga]. exact K.
Qed.
Lemma failed_reply_keep s h d st_ dpre : keep s (fst (failed_reply s h d st_ dpre)).
Proof.
  unfold failed_reply. pose proof (getattr_h_keep s h d) as K. destruct (getattr_h s h d) as [s1 ga]. exact K.
Qed.

(* ---------- the walk ---------- *)
Ltac ecollect :=
  repeat match goal with
  | E : ac_get ?s ?p = (_, _) |- _ => kfact E (Ev s (fst (ac_get s p))) ltac:(apply Ev_keep, ac_get_keep); clear E
  | E : dc_get ?s ?p = (_, _) |- _ => kfact E (Ev s (fst (dc_get s p))) ltac:(apply Ev_keep, dc_get_keep); clear E
  | E : alloc ?s ?p ?a = (_, _) |- _ => kfact E (Ev s (fst (alloc s p a))) ltac:(apply Ev_alloc); clear E
  | E : do_lstat ?s ?p = (_, _) |- _ => kfact E (Ev s (fst (do_lstat s p))) ltac:(apply Ev_keep, do_lstat_keep); clear E
  | E : do_stat ?s ?p = (_, _) |- _ => kfact E (Ev s (fst (do_stat s p))) ltac:(apply Ev_keep, do_stat_keep); clear E
  | E : srv_lookup ?s ?p = (_, _) |- _ => kfact E (Ev s (fst (srv_lookup s p))) ltac:(apply Ev_keep, srv_lookup_keep); clear E
  | E : getattr_h ?s ?h ?p = (_, _) |- _ => kfact E (Ev s (fst (getattr_h s h p))) ltac:(apply Ev_keep, getattr_h_keep); clear E
  | E : srv_getattr ?s ?p ?u ?g = (_, _) |- _ =>
      kfact E (Ev s (fst (srv_getattr s p u g))) ltac:(apply Ev_keep, srv_getattr_keep); clear E
  | E : current_attrs ?s ?h ?p = (_, _) |- _ =>
      kfact E (Ev s (fst (current_attrs s h p))) ltac:(apply Ev_keep, current_attrs_keep); clear E
  | E : failed_reply ?s ?h ?d ?c ?dp = (_, _) |- _ =>
      kfact E (Ev s (fst (failed_reply s h d c dp))) ltac:(apply Ev_keep, failed_reply_keep); clear E
  end.
Ltac echain :=
  cbn [fst snd];
  repeat match goal with
  | |- Ev ?a ?a => apply Ev_refl
  | H : Ev ?a ?b |- Ev ?a ?b => exact H
  | |- Ev ?a (ac_put ?b _ _) => apply Ev_trans with b; [|apply Ev_keep, ac_put_keep]
  | |- Ev ?a (ac_put_negative ?b _) => apply Ev_trans with b; [|apply Ev_keep, ac_put_negative_keep]
  | |- Ev ?a (ac_invalidate ?b _) => apply Ev_trans with b; [|apply Ev_keep, ac_invalidate_keep]
  | |- Ev ?a (ac_invalidate_tree ?b _) => apply Ev_trans with b; [|apply Ev_keep, ac_invalidate_tree_keep]
  | |- Ev ?a (ac_invalidate_neg_in_dir ?b _) => apply Ev_trans with b; [|apply Ev_keep, ac_invalidate_neg_keep]
  | |- Ev ?a (dc_put ?b _ _) => apply Ev_trans with b; [|apply Ev_keep, dc_put_keep]
  | |- Ev ?a (dc_invalidate ?b _) => apply Ev_trans with b; [|apply Ev_keep, dc_invalidate_keep]
  | |- Ev ?a (dc_invalidate_tree ?b _) => apply Ev_trans with b; [|apply Ev_keep, dc_invalidate_tree_keep]
  | |- Ev ?a (node_set ?b _ _) => apply Ev_trans with b; [|apply Ev_node]
  | |- Ev ?a (node_upd ?b _ _) => apply Ev_trans with b; [|apply node_upd_Ev]
  | |- Ev ?a (with_fs ?b _) => apply Ev_trans with b; [|apply Ev_keep, with_fs_keep]
  | |- Ev ?a (invalidate_for_new ?b _ _) => unfold invalidate_for_new
  | |- Ev ?a (logc ?b ?c) => apply Ev_trans with b; [|apply Ev_keep, logc_keep]
  | |- Ev ?a (fst (lift_unit ?b ?c ?r)) => apply Ev_trans with b; [|apply Ev_keep, lift_unit_keep]
  | |- Ev ?a (fst (srv_lookup ?b _)) => apply Ev_trans with b; [|apply Ev_keep, srv_lookup_keep]
  | |- Ev ?a (fst (getattr_h ?b _ _)) => apply Ev_trans with b; [|apply Ev_keep, getattr_h_keep]
  | |- Ev ?a (fst (current_attrs ?b _ _)) => apply Ev_trans with b; [|apply Ev_keep, current_attrs_keep]
  | |- Ev ?a (fst (failed_reply ?b _ _ _ _)) => apply Ev_trans with b; [|apply Ev_keep, failed_reply_keep]
  | |- Ev ?a (fst (alloc ?b _ _)) => apply Ev_trans with b; [|apply Ev_alloc]
  | |- Ev ?a (fst (do_lstat ?b _)) => apply Ev_trans with b; [|apply Ev_keep, do_lstat_keep]
  | |- Ev ?a (fst (do_stat ?b _)) => apply Ev_trans with b; [|apply Ev_keep, do_stat_keep]
  | H : Ev ?b ?c |- Ev ?a ?c => apply Ev_trans with b; [|exact H]
  end.
Ltac ewalk0 := cbv zeta; des; ecollect; echain.

Lemma srv_setattr_Ev s h p cur new : Ev s (fst (srv_setattr s h p cur new)).
Proof. unfold srv_setattr. ewalk0. Qed.
Lemma created_reply_Ev s h d p a dpre : Ev s (fst (created_reply s h d p a dpre)).
Proof. unfold created_reply. ewalk0. Qed.
Lemma srv_create_Ev s d n perm uid gid : Ev s (fst (srv_create s d n perm uid gid)).
Proof. unfold srv_create. ewalk0. Qed.

Ltac ecollect2 :=
  repeat match goal with
  | E : srv_setattr ?s ?h ?p ?c ?n = (_, _) |- _ =>
      kfact E (Ev s (fst (srv_setattr s h p c n))) ltac:(apply srv_setattr_Ev); clear E
  | E : created_reply ?s ?h ?d ?p ?a ?dp = (_, _) |- _ =>
      kfact E (Ev s (fst (created_reply s h d p a dp))) ltac:(apply created_reply_Ev); clear E
  | E : srv_create ?s ?d ?n ?m ?u ?g = (_, _) |- _ =>
      kfact E (Ev s (fst (srv_create s d n m u g))) ltac:(apply srv_create_Ev); clear E
  end; ecollect.
Ltac echain2 :=
  echain;
  repeat (match goal with
  | |- Ev ?a (fst (created_reply ?b _ _ _ _ _)) => apply Ev_trans with b; [|apply created_reply_Ev]
  | |- Ev ?a (fst (srv_create ?b _ _ _ _ _)) => apply Ev_trans with b; [|apply srv_create_Ev]
  | |- Ev ?a (fst (srv_setattr ?b _ _ _ _)) => apply Ev_trans with b; [|apply srv_setattr_Ev]
  end; echain).
Ltac ewalk := cbv zeta; des; ecollect2; echain2.

Lemma handle_getattr_Ev s h : Ev s (fst (handle_getattr s h)).
Proof. unfold handle_getattr. ewalk. Qed.
Lemma handle_access_Ev s c h m : Ev s (fst (handle_access s c h m)).
Proof. unfold handle_access. ewalk. Qed.
Lemma handle_fsx_Ev s h f : Ev s (fst (handle_fsx s h f)).
Proof. unfold handle_fsx. ewalk. Qed.
Lemma handle_commit_Ev s h : Ev s (fst (handle_commit s h)).
Proof. unfold handle_commit. ewalk. Qed.
Lemma handle_readlink_Ev s h : Ev s (fst (handle_readlink s h)).
Proof. unfold handle_readlink. ewalk. Qed.
Lemma handle_read_Ev s h off cnt : Ev s (fst (handle_read s h off cnt)).
Proof. unfold handle_read. ewalk. Qed.
Lemma handle_write_Ev s h off cnt st data : Ev s (fst (handle_write s h off cnt st data)).
Proof. unfold handle_write. ewalk. Qed.
Lemma handle_setattr_Ev s c h sa g : Ev s (fst (handle_setattr s c h sa g)).
Proof. unfold handle_setattr. ewalk. Qed.
Lemma handle_lookup_Ev s h n : Ev s (fst (handle_lookup s h n)).
Proof. unfold handle_lookup. ewalk. Qed.
Lemma handle_create_Ev s c h n how sa : Ev s (fst (handle_create s c h n how sa)).
Proof. unfold handle_create. ewalk. Qed.
Lemma handle_mkdir_Ev s c h n sa : Ev s (fst (handle_mkdir s c h n sa)).
Proof. unfold handle_mkdir. ewalk. Qed.
Lemma handle_symlink_Ev s c h n sa t : Ev s (fst (handle_symlink s c h n sa t)).
Proof. unfold handle_symlink. ewalk. Qed.
Lemma handle_remove_Ev s h n : Ev s (fst (handle_remove s h n)).
Proof. unfold handle_remove. ewalk. Qed.
Lemma handle_rmdir_Ev s h n : Ev s (fst (handle_rmdir s h n)).
Proof. unfold handle_rmdir. ewalk. Qed.
Lemma handle_rename_Ev s h1 n1 h2 n2 : Ev s (fst (handle_rename s h1 n1 h2 n2)).
Proof. unfold handle_rename. ewalk. Qed.
(* the symlink check of MNT only Lstat-s prefixes: table, node attributes and backend tree are untouched *)
Lemma mnt_prefix_check_keep fuel : forall s pre,
  keep s (fst (mnt_prefix_check s pre fuel)) /\ fs (fst (mnt_prefix_check s pre fuel)) = fs s.
Proof.
  induction fuel as [|k IH]; intros s pre; cbn [mnt_prefix_check]; [destruct pre; (split; [apply keep_refl|reflexivity])|].
  destruct pre as [|c r]; [split; [apply keep_refl|reflexivity]|].
  unfold do_lstat. destruct (IH (logc s (bc BLstat (c :: r))) (removelast (c :: r))) as [K F].
  destruct (be_stat (fs s) (c :: r) false) as [fi|e]; [destruct (kind_eqb (fi_kind fi) KLink)|]; cbn [fst].
  - split; [apply logc_keep|reflexivity].
  - split; [eapply keep_trans; [apply logc_keep|exact K]|exact F].
  - split; [eapply keep_trans; [apply logc_keep|exact K]|exact F].
Qed.
Lemma handle_mnt_Ev s p : Ev s (fst (handle_mnt s p)).
Proof.
  unfold handle_mnt. destruct (negb (is_abs p)); [apply Ev_refl|]. cbv zeta.
  destruct (mnt_prefix_check_keep (length (clean_comps [] (split_path p))) s (removelast (clean_comps [] (split_path p)))) as [K0 _].
  destruct (mnt_prefix_check s _ _) as [s0 linked]. cbn [fst] in K0.
  eapply Ev_trans; [apply Ev_keep; exact K0|]. destruct linked; [apply Ev_refl|]. ewalk.
Qed.

(* ---------- directory listings ---------- *)
Lemma lookup_all_keep d names : forall s, keep s (fst (lookup_all s d names)).
Proof.
  induction names as [|n r IH]; intros s; cbn [lookup_all]; [apply keep_refl|].
  destruct (is_dot n || is_dotdot n || negb (sanitize_ok d n)); [apply IH|].
  pose proof (srv_lookup_keep s (d ++ [n])) as K1. destruct (srv_lookup s (d ++ [n])) as [s1 lr].
  pose proof (IH s1) as K2. destruct (lookup_all s1 d r) as [s2 rest]. cbn [fst] in *.
  destruct lr; cbn [fst]; eapply keep_trans; eassumption.
Qed.
Lemma refresh_all_keep l : forall s, keep s (fst (refresh_all s l)).
Proof.
  induction l as [|[p a] r IH]; intros s; cbn [refresh_all]; [apply keep_refl|].
  pose proof (ac_get_keep s p) as K0. destruct (ac_get s p) as [s0 x]. cbn [fst] in K0.
  unfold do_lstat. destruct (be_stat (fs s0) p false) as [fi|e].
  - match goal with |- context [refresh_all ?st r] => pose proof (IH st) as K2; destruct (refresh_all st r) as [s2 rest] end.
    cbn [fst] in *. eapply keep_trans; [exact K0|]. eapply keep_trans; [|exact K2].
    eapply keep_trans; [apply logc_keep|apply ac_put_keep].
  - match goal with |- context [refresh_all ?st r] => pose proof (IH st) as K2; destruct (refresh_all st r) as [s2 rest] end.
    cbn [fst] in *. eapply keep_trans; [exact K0|]. eapply keep_trans; [|exact K2]. apply logc_keep.
Qed.
Lemma srv_readdir_keep s d : keep s (fst (srv_readdir s d)).
Proof.
  unfold srv_readdir.
  assert (Hhit : keep s (fst (if dir_on (conf s) then dc_get s d else (s, None)))).
  { destruct (dir_on (conf s)); [apply dc_get_keep|apply keep_refl]. }
  destruct (if dir_on (conf s) then dc_get s d else (s, None)) as [s0 hit]. cbn [fst snd] in *.
  destruct hit as [names|].
  - pose proof (lookup_all_keep d names s0) as K. destruct (lookup_all s0 d names) as [s1 l]. cbn [fst] in *.
    eapply keep_trans; eassumption.
  - assert (K1 : keep s (logc s0 (bc BOpenR d))) by (eapply keep_trans; [exact Hhit|apply logc_keep]).
    destruct (be_open (fs (logc s0 (bc BOpenR d))) d false) as [q|e]; cbn [fst]; [|exact K1].
    assert (K2 : keep s (logc (logc s0 (bc BOpenR d)) (bc BReaddir d))) by (eapply keep_trans; [exact K1|apply logc_keep]).
    destruct (be_readdir _ q) as [ents|e]; cbn [fst]; [|exact K2].
    match goal with |- context [lookup_all ?st d ?nm] =>
      pose proof (lookup_all_keep d nm st) as K3; destruct (lookup_all st d nm) as [s4 l] end.
    cbn [fst] in *. eapply keep_trans; [|exact K3]. eapply keep_trans; [exact K2|].
    destruct (dir_on _); [apply dc_put_keep|apply keep_refl].
Qed.
Lemma alloc_all_Ev pg : forall s, Ev s (fst (alloc_all s pg)).
Proof.
  induction pg as [|[ck [p a]] r IH]; intros s; cbn [alloc_all]; [apply Ev_refl|].
  pose proof (Ev_alloc s p a) as R. destruct (alloc s p a) as [s1 fh].
  pose proof (IH s1) as R2. destruct (alloc_all s1 r) as [s2 rest]. cbn [fst] in *. eapply Ev_trans; eassumption.
Qed.
Lemma handle_readdir_keep s h ck cnt : keep s (fst (handle_readdir s h ck cnt)).
Proof.
  unfold handle_readdir. destruct (lookup_node s h) as [[d da]|]; [|apply keep_refl].
  destruct (negb (kind_eqb (na_kind da) KDir)); [apply keep_refl|].
  pose proof (srv_readdir_keep s d) as K1. destruct (srv_readdir s d) as [s1 r]. cbn [fst] in K1.
  destruct r as [ents|e]; [|exact K1].
  pose proof (getattr_h_keep s1 h d) as K2. destruct (getattr_h s1 h d) as [s2 ga]. cbn [fst] in K2.
  destruct ga as [a|e]; [destruct (page _ _ _ _ _ _ _)|]; cbn [fst]; eapply keep_trans; eassumption.
Qed.
Lemma handle_readdirplus_Ev s h ck mc : Ev s (fst (handle_readdirplus s h ck mc)).
Proof.
  unfold handle_readdirplus. destruct (lookup_node s h) as [[d da]|]; [|apply Ev_refl].
  destruct (negb (kind_eqb (na_kind da) KDir)); [apply Ev_refl|].
  pose proof (srv_readdir_keep s d) as K1. destruct (srv_readdir s d) as [s1 r]. cbn [fst] in K1.
  destruct r as [ents0|e]; [|apply Ev_keep; exact K1].
  pose proof (refresh_all_keep ents0 s1) as K2. destruct (refresh_all s1 ents0) as [s1' ents]. cbn [fst] in K2.
  pose proof (getattr_h_keep s1' h d) as K3. destruct (getattr_h s1' h d) as [s2 ga]. cbn [fst] in K3.
  assert (K : keep s s2) by (eapply keep_trans; [exact K1|]; eapply keep_trans; eassumption).
  destruct ga as [a|e]; [|apply Ev_keep; exact K].
  destruct (page true mc 0 ck 0 dir_header_len ents) as [pg lim].
  pose proof (alloc_all_Ev pg s2) as R. destruct (alloc_all s2 pg) as [s3 des_]. cbn [fst] in *.
  eapply Ev_trans; [apply Ev_keep; exact K|exact R].
Qed.

(* ---------- one request ---------- *)
Lemma step_Ev s c r : Ev s (fst (step s c r)).
Proof.
  apply Ev_trans with (clear_log s); [apply Ev_keep, clear_log_keep|].
  unfold step. set (s0 := clear_log s). clearbody s0.
  destruct (garbage_reply s0 r) as [o|]; cbn [fst]; [apply Ev_refl|].
  destruct r; cbn [fst]; try apply Ev_refl;
  first [ apply handle_getattr_Ev | apply handle_setattr_Ev | apply handle_lookup_Ev | apply handle_access_Ev
        | apply handle_readlink_Ev | apply handle_read_Ev | apply handle_write_Ev | apply handle_create_Ev
        | apply handle_mkdir_Ev | apply handle_symlink_Ev | apply handle_remove_Ev | apply handle_rmdir_Ev
        | apply handle_rename_Ev | apply Ev_keep, handle_readdir_keep | apply handle_readdirplus_Ev
        | apply handle_fsx_Ev | apply handle_commit_Ev | apply handle_mnt_Ev | apply Ev_keep, with_conf_keep ].
Qed.
Lemma hrun1_Ev s x : Ev s (fst (hrun1 s x)).
Proof. unfold hrun1. eapply Ev_trans; [apply Ev_keep, with_now_keep|apply step_Ev]. Qed.

(* ====================================================================================================== *)
(* 3. the invariants are preserved                                                                        *)
(* ====================================================================================================== *)
Lemma find_filter_other (h h' : N) (l : list (N * nattrs)) : h <> h' ->
  find (fun e => fst e =? h') (filter (fun e => negb (fst e =? h)) l) = find (fun e => fst e =? h') l.
Proof.
  intros Hne. induction l as [|[k a] r IH]; cbn [filter find fst]; [reflexivity|].
  destruct (k =? h) eqn:E; cbn [negb].
  - rewrite IH. destruct (k =? h') eqn:F; [|reflexivity].
    apply N.eqb_eq in E. apply N.eqb_eq in F. congruence.
  - cbn [find fst]. rewrite IH. reflexivity.
Qed.
Lemma node_get_set s h a h' : node_get (node_set s h a) h' = if h =? h' then Some a else node_get s h'.
Proof.
  unfold node_get, node_set. cbn [nodes with_nodes find fst].
  destruct (h =? h') eqn:E; [reflexivity|]. apply N.eqb_neq in E. rewrite find_filter_other by exact E. reflexivity.
Qed.
Lemma node_set_hm s h a : hm (node_set s h a) = hm s. Proof. reflexivity. Qed.

Lemma alloc_fst_snd s p a :
  hm (fst (alloc s p a)) = fst (allocate path_eqb (hm s) p) /\ snd (alloc s p a) = snd (allocate path_eqb (hm s) p) /\
  forall h', node_get (fst (alloc s p a)) h' = if snd (alloc s p a) =? h' then Some a else node_get s h'.
Proof.
  unfold alloc. destruct (allocate path_eqb (hm s) p) as [m h]. cbn [fst snd].
  split; [reflexivity|split; [reflexivity|]]. intros h'. rewrite node_get_set. reflexivity.
Qed.

Lemma Ev_HInv s s' : Ev s s' -> HInv s -> HInv s'.
Proof.
  induction 1 as [s s' [K _]|s h a|s p a|a b c _ IH1 _ IH2]; intros H; unfold HInv in *.
  - rewrite K. exact H.
  - exact H.
  - destruct (alloc_fst_snd s p a) as (-> & _). apply (allocate_spec path_eqb path_eqb_reflect). exact H.
  - auto.
Qed.
Lemma Ev_NInv s s' : Ev s s' -> NInv s -> NInv s'.
Proof.
  induction 1 as [s s' K|s h a|s p a|a b c _ IH1 _ IH2]; intros H; unfold NInv in *.
  - intros h p G. rewrite (keep_node_get s s' h K). destruct K as [K _]. rewrite K in G. exact (H h p G).
  - intros h' p G. rewrite node_get_set. destruct (h =? h'); [discriminate|exact (H h' p G)].
  - intros h' q G. destruct (alloc_fst_snd s p a) as (E1 & E2 & E3). rewrite E3.
    destruct (snd (alloc s p a) =? h') eqn:F; [discriminate|].
    rewrite E1 in G. apply allocate_get in G. destruct G as [[G _]|G]; [|exact (H h' q G)].
    apply N.eqb_neq in F. congruence.
  - exact (IH2 (IH1 H)).
Qed.

Lemma HInv_init f c mx t : HInv (srv_init_fs f c mx t).
Proof. apply init_inv. Qed.
Lemma NInv_init f c mx t : NInv (srv_init_fs f c mx t).
Proof. intros h p G. discriminate G. Qed.

Lemma step_HInv s c r : HInv s -> HInv (fst (step s c r)).
Proof. apply Ev_HInv, step_Ev. Qed.
Lemma step_NInv s c r : NInv s -> NInv (fst (step s c r)).
Proof. apply Ev_NInv, step_Ev. Qed.

Lemma hfinal_Ev l : forall s, Ev s (hfinal s l).
Proof.
  induction l as [|x r IH]; intros s; cbn; [apply Ev_refl|].
  eapply Ev_trans; [apply hrun1_Ev|apply IH].
Qed.
Lemma reachable_inv f c mx t l : let s := hfinal (srv_init_fs f c mx t) l in HInv s /\ NInv s.
Proof.
  cbv zeta. split; [eapply Ev_HInv; [apply hfinal_Ev|apply HInv_init]|eapply Ev_NInv; [apply hfinal_Ev|apply NInv_init]].
Qed.
Lemma hrun_inv l s : HInv s -> NInv s -> forall so, In so (hrun s l) -> HInv (fst so) /\ NInv (fst so).
Proof.
  intros H N so Hso. apply hrun_states in Hso. destruct Hso as (l1 & x & l2 & -> & ->).
  assert (R : Ev s (fst (hrun1 (hfinal s l1) x))) by (eapply Ev_trans; [apply hfinal_Ev|apply hrun1_Ev]).
  split; [eapply Ev_HInv; eassumption|eapply Ev_NInv; eassumption].
Qed.

(* ====================================================================================================== *)
(* 4. C06: an untracked value is answered STALE and nothing is touched                                    *)
(* ====================================================================================================== *)
(* the handles a request carries *)
Definition req_handles (r : req) : list N :=
  match r with
  | RGetattr h | RSetattr h _ _ | RLookup h _ | RAccess h _ | RReadlink h | RRead h _ _ | RWrite h _ _ _ _
  | RCreate h _ _ _ | RMkdir h _ _ | RSymlink h _ _ _ | RRemove h _ | RRmdir h _
  | RReaddir h _ _ | RReaddirplus h _ _ _ | RFsstat h | RFsinfo h | RPathconf h | RCommit h _ _ => [h]
  | RRename h1 _ h2 _ => [h1; h2]
  | _ => []
  end.

(* the checks each procedure makes BEFORE it resolves its handle(s) (they answer ROFS / INVAL / ACCES /
   NAMETOOLONG / FBIG / GARBAGE_ARGS and never reach the table); [true] = the handle lookup is reached *)
Definition create_mode (how : N) (sa : sattr) : N :=
  if (how =? 0) || (how =? 1) then match s_mode sa with Some m => m | None => 420 end else 420.
Definition mkdir_mode (sa : sattr) : N := match s_mode sa with Some m => m | None => 493 end.
Definition write_fbig (s : srv) (off cnt : N) : bool :=
  (0 <? maxfile (conf s)) && (0 <? cnt) && ((maxfile (conf s) <? off) || (maxfile (conf s) - off <? cnt)).
Definition reaches_lookup (s : srv) (r : req) : bool :=
  match r with
  | RGetattr _ | RAccess _ _ | RReadlink _ | RReaddir _ _ _ | RReaddirplus _ _ _ _
  | RFsstat _ | RFsinfo _ | RPathconf _ => true
  | RSetattr _ sa _ =>
      negb (ro (conf s)) && negb (match s_mode sa with Some m => N.testbit m 15 | None => false end)
  | RLookup _ n => str_ok n && (validate_name n =? st_ok)
  | RRead _ off cnt => negb (two64 - 1 - cnt <? off)
  | RWrite _ off cnt _ data =>
      negb (ro (conf s)) && negb (two64 - 1 - cnt <? off) && (cnt =? N.of_nat (length data)) &&
      negb (tsize (conf s) <? cnt) && negb (write_fbig s off cnt)
  | RCreate _ n how sa =>
      negb (ro (conf s)) && str_ok n && (validate_name n =? st_ok) && (validate_mode (create_mode how sa) =? st_ok)
  | RMkdir _ n sa =>
      negb (ro (conf s)) && str_ok n && (validate_name n =? st_ok) && (validate_mode (mkdir_mode sa) =? st_ok)
  | RSymlink _ n _ t =>
      negb (ro (conf s)) && str_ok n && str_ok t && (validate_name n =? st_ok) &&
      negb (match t with [] => true | _ => false end) && negb (is_abs t || target_has_dotdot t)
  | RRemove _ n | RRmdir _ n => negb (ro (conf s)) && str_ok n && (validate_name n =? st_ok)
  | RRename _ n1 _ n2 =>
      negb (ro (conf s)) && str_ok n1 && str_ok n2 && (validate_name n1 =? st_ok) && (validate_name n2 =? st_ok)
  | RCommit _ _ _ => negb (ro (conf s))
  | _ => false
  end.

(* the four STALE replies: status only, no attributes, no handle, no data, no entries *)
Definition stale_reply (o : obs) : Prop :=
  o = ob_fail NFSERR_STALE \/ o = fail_post NFSERR_STALE \/ o = fail_wcc NFSERR_STALE \/ o = fail_wcc2 NFSERR_STALE.
Lemma stale_reply_spec o : stale_reply o ->
  ob_status o = NFSERR_STALE /\ ob_rpc o = 0 /\ ob_fh o = None /\ ob_bytes o = [] /\ ob_entries o = [] /\ ob_nums o = [] /\
  (forall a, In a (ob_attrs o) -> a = None) /\ (forall w, In w (ob_wcc o) -> w = None).
Proof.
  intros [-> | [-> | [-> | ->]]]; cbn; repeat split; try reflexivity; intros x Hx; repeat (destruct Hx as [Hx|Hx]; [auto|]); destruct Hx.
Qed.

(* split the guard into its conjuncts, in rewritable form *)
Ltac guards G :=
  repeat match type of G with
  | _ && _ = true => let G2 := fresh "G" in apply andb_true_iff in G; destruct G as [G G2]; try (apply negb_true_iff in G2)
  end; try (apply negb_true_iff in G).
Ltac use_guards :=
  repeat match goal with
  | H : ?b = true |- context [?b] => rewrite H
  | H : ?b = false |- context [?b] => rewrite H
  end; cbn [negb andb orb].

Lemma step_stale s c r : reaches_lookup s r = true ->
  (exists h, In h (req_handles r) /\ lookup_node s h = None) ->
  fst (step s c r) = clear_log s /\ stale_reply (snd (step s c r)).
Proof.
  intros G (h0 & Hin & L).
  assert (L0 : lookup_node (clear_log s) h0 = None) by exact L.
  unfold step. set (s0 := clear_log s) in *.
  destruct r; try discriminate G; cbn [reaches_lookup] in G; unfold write_fbig in G; cbn [req_handles In] in Hin;
    change (conf s) with (conf s0) in G; clearbody s0; guards G.
  - (* GETATTR *) destruct Hin as [<-|[]]. cbn [garbage_reply]. unfold handle_getattr. rewrite L0. split; [reflexivity|left; reflexivity].
  - (* SETATTR *) destruct Hin as [<-|[]]. cbn [garbage_reply]. unfold handle_setattr. use_guards. rewrite L0.
    split; [reflexivity|right; right; left; reflexivity].
  - (* LOOKUP *) destruct Hin as [<-|[]]. cbn [garbage_reply]. use_guards. unfold handle_lookup. use_guards. rewrite L0.
    split; [reflexivity|right; left; reflexivity].
  - (* ACCESS *) destruct Hin as [<-|[]]. cbn [garbage_reply]. unfold handle_access. rewrite L0. split; [reflexivity|right; left; reflexivity].
  - (* READLINK *) destruct Hin as [<-|[]]. cbn [garbage_reply]. unfold handle_readlink. rewrite L0. split; [reflexivity|right; left; reflexivity].
  - (* READ *) destruct Hin as [<-|[]]. cbn [garbage_reply]. unfold handle_read. use_guards. rewrite L0. split; [reflexivity|right; left; reflexivity].
  - (* WRITE *) destruct Hin as [<-|[]]. cbn [garbage_reply]. unfold handle_write. unfold write_fbig in *. use_guards. rewrite L0.
    split; [reflexivity|right; right; left; reflexivity].
  - (* CREATE *) destruct Hin as [<-|[]]. cbn [garbage_reply]. use_guards. unfold handle_create. cbv zeta. unfold create_mode in *. use_guards. rewrite L0.
    split; [reflexivity|right; right; left; reflexivity].
  - (* MKDIR *) destruct Hin as [<-|[]]. cbn [garbage_reply]. use_guards. unfold handle_mkdir. cbv zeta. unfold mkdir_mode in *. use_guards. rewrite L0.
    split; [reflexivity|right; right; left; reflexivity].
  - (* SYMLINK *) destruct Hin as [<-|[]]. cbn [garbage_reply]. use_guards. unfold handle_symlink. use_guards.
    destruct target as [|t0 tr]; [discriminate|]. use_guards. rewrite L0. split; [reflexivity|right; right; left; reflexivity].
  - (* REMOVE *) destruct Hin as [<-|[]]. cbn [garbage_reply]. use_guards. unfold handle_remove. use_guards. rewrite L0.
    split; [reflexivity|right; right; left; reflexivity].
  - (* RMDIR *) destruct Hin as [<-|[]]. cbn [garbage_reply]. use_guards. unfold handle_rmdir. use_guards. rewrite L0.
    split; [reflexivity|right; right; left; reflexivity].
  - (* RENAME *) cbn [garbage_reply]. use_guards. unfold handle_rename. use_guards.
    destruct Hin as [<-|[<-|[]]]; rewrite L0.
    + split; [reflexivity|right; right; right; reflexivity].
    + destruct (lookup_node s0 h1) as [[d1 da1]|]; (split; [reflexivity|right; right; right; reflexivity]).
  - (* READDIR *) destruct Hin as [<-|[]]. cbn [garbage_reply]. unfold handle_readdir. rewrite L0. split; [reflexivity|right; left; reflexivity].
  - (* READDIRPLUS *) destruct Hin as [<-|[]]. cbn [garbage_reply]. unfold handle_readdirplus. rewrite L0. split; [reflexivity|right; left; reflexivity].
  - (* FSSTAT *) destruct Hin as [<-|[]]. cbn [garbage_reply]. unfold handle_fsx. rewrite L0. split; [reflexivity|right; left; reflexivity].
  - (* FSINFO *) destruct Hin as [<-|[]]. cbn [garbage_reply]. unfold handle_fsx. rewrite L0. split; [reflexivity|right; left; reflexivity].
  - (* PATHCONF *) destruct Hin as [<-|[]]. cbn [garbage_reply]. unfold handle_fsx. rewrite L0. split; [reflexivity|right; left; reflexivity].
  - (* COMMIT *) destruct Hin as [<-|[]]. cbn [garbage_reply]. unfold handle_commit. use_guards. rewrite L0.
    split; [reflexivity|right; right; left; reflexivity].
Qed.

(* ====================================================================================================== *)
(* 5. C06: a tracked value is served against the path the table holds for it                              *)
(* ====================================================================================================== *)
(* the (handle, name) pairs a request carries *)
Definition req_targets (r : req) : list (N * option name) :=
  match r with
  | RGetattr h | RSetattr h _ _ | RAccess h _ | RReadlink h | RRead h _ _ | RWrite h _ _ _ _
  | RReaddir h _ _ | RReaddirplus h _ _ _ | RFsstat h | RFsinfo h | RPathconf h | RCommit h _ _ => [(h, None)]
  | RLookup h n | RCreate h n _ _ | RMkdir h n _ | RSymlink h n _ _ | RRemove h n | RRmdir h n => [(h, Some n)]
  | RRename h1 n1 h2 n2 => [(h1, Some n1); (h2, Some n2)]
  | _ => []
  end.
(* q is: the path the table of s holds for a handle of the request; or that path joined with the name that
   goes with the handle in the request; or (READDIR / READDIRPLUS) joined with a sane name of the listing;
   or (MNT) the cleaned path a handle is requested for, or a non-empty proper prefix of it (Lstat-ed by the
   symlink check before the handle is issued) *)
Definition served (s : srv) (r : req) (q : path) : Prop :=
  (exists h on p, In (h, on) (req_targets r) /\ get (hm s) h = Some p /\
     (q = p \/ (exists n, on = Some n /\ q = p ++ [n]) \/
      (is_listing r = true /\ exists c, name_sane c = true /\ q = p ++ [c])))
  \/ (exists mp rest, r = RMnt mp /\ q ++ rest = clean_comps [] (split_path mp) /\ (q <> [] \/ rest = [])).

Lemma step_served s c r : T (served s r) (clear_log s) (fst (step s c r)).
Proof.
  unfold step. set (s0 := clear_log s).
  assert (S1 : forall h on p, In (h, on) (req_targets r) -> get (hm s0) h = Some p -> served s r p).
  { intros h on p Hin G. left. exists h, on, p. auto. }
  assert (S2 : forall h n p, In (h, Some n) (req_targets r) -> get (hm s0) h = Some p -> served s r (p ++ [n])).
  { intros h n p Hin G. left. exists h, (Some n), p. split; [exact Hin|split; [exact G|]]. right. left. exists n. auto. }
  assert (S3 : is_listing r = true -> forall h on p cn, In (h, on) (req_targets r) -> get (hm s0) h = Some p ->
               name_sane cn = true -> served s r (p ++ [cn])).
  { intros Li h on p cn Hin G Hc. left. exists h, on, p. split; [exact Hin|split; [exact G|]]. right. right. split; [exact Li|]. exists cn. auto. }
  clearbody s0.
  destruct (garbage_reply s0 r) as [o|]; cbn [fst]; [apply T_refl|].
  destruct r; cbn [fst]; try apply T_refl; cbn [req_targets] in S1, S2, S3.
  - apply handle_getattr_T. intros p. apply (S1 h None). left; reflexivity.
  - apply handle_setattr_T. intros p. apply (S1 h None). left; reflexivity.
  - apply handle_lookup_T; [intros p; apply (S1 h (Some n)); left; reflexivity|intros p G _; apply (S2 h n); [left; reflexivity|exact G]].
  - apply handle_access_T. intros p. apply (S1 h None). left; reflexivity.
  - apply handle_readlink_T. intros p. apply (S1 h None). left; reflexivity.
  - apply handle_read_T. intros p. apply (S1 h None). left; reflexivity.
  - apply handle_write_T. intros p. apply (S1 h None). left; reflexivity.
  - apply handle_create_T; [intros p; apply (S1 h (Some n)); left; reflexivity|intros p G _; apply (S2 h n); [left; reflexivity|exact G]].
  - apply handle_mkdir_T; [intros p; apply (S1 h (Some n)); left; reflexivity|intros p G _; apply (S2 h n); [left; reflexivity|exact G]].
  - apply handle_symlink_T; [intros p; apply (S1 h (Some n)); left; reflexivity|intros p G _; apply (S2 h n); [left; reflexivity|exact G]].
  - apply handle_remove_T; [intros p; apply (S1 h (Some n)); left; reflexivity|intros p G _; apply (S2 h n); [left; reflexivity|exact G]].
  - apply handle_rmdir_T; [intros p; apply (S1 h (Some n)); left; reflexivity|intros p G _; apply (S2 h n); [left; reflexivity|exact G]].
  - apply handle_rename_T.
    + intros p. apply (S1 h1 (Some n1)). left; reflexivity.
    + intros p G _. apply (S2 h1 n1); [left; reflexivity|exact G].
    + intros p. apply (S1 h2 (Some n2)). right; left; reflexivity.
    + intros p G _. apply (S2 h2 n2); [right; left; reflexivity|exact G].
  - apply handle_readdir_T; [intros p; apply (S1 h None); left; reflexivity|].
    intros p n G Hn. apply (S3 eq_refl h None p n); [left; reflexivity|exact G|exact Hn].
  - apply handle_readdirplus_T; [intros p; apply (S1 h None); left; reflexivity|].
    intros p n G Hn. apply (S3 eq_refl h None p n); [left; reflexivity|exact G|exact Hn].
  - apply handle_fsx_T. intros p. apply (S1 h None). left; reflexivity.
  - apply handle_fsx_T. intros p. apply (S1 h None). left; reflexivity.
  - apply handle_fsx_T. intros p. apply (S1 h None). left; reflexivity.
  - apply handle_commit_T. intros p. apply (S1 h None). left; reflexivity.
  - apply handle_mnt_T. intros pre rest E D. right. exists p, rest. auto.
  - apply T_of_same, with_conf_same.
  - apply T_of_same, with_conf_same.
  - apply T_of_same, with_conf_same.
Qed.

(* every backend call of the request, and every table entry the request adds *)
Lemma served_calls s c r :
  (forall b, In b (blog (fst (step s c r))) ->
     served s r (b_path b) /\ (b_op b = BRename -> exists np, b_path2 b = render np /\ served s r np)) /\
  (forall h q, get (hm (fst (step s c r))) h = Some q -> get (hm s) h = Some q \/ served s r q).
Proof.
  destruct (step_served s c r) as [TB TH]. split; [|exact TH].
  intros b Hb. destruct (TB b Hb) as [[]|[A B]]. split; [exact A|]. intros E. rewrite E in B. exact B.
Qed.

(* a request that carries one handle: every backend call is made on the path the table holds for that
   handle, or on that path joined with one component *)
Lemma served_single s c r h on p a b : req_targets r = [(h, on)] -> lookup_node s h = Some (p, a) ->
  In b (blog (fst (step s c r))) ->
  b_path b = p \/ (exists n, on = Some n /\ b_path b = p ++ [n]) \/
  (is_listing r = true /\ exists cn, name_sane cn = true /\ b_path b = p ++ [cn]).
Proof.
  intros Et L Hb. apply lookup_node_get in L.
  destruct (served_calls s c r) as [A _]. destruct (A b Hb) as [[(h' & on' & p' & Hin & G & D)|(mp & rest & -> & _)] _].
  - rewrite Et in Hin. destruct Hin as [[= <- <-]|[]]. rewrite L in G. injection G as <-. exact D.
  - discriminate Et.
Qed.

(* ====================================================================================================== *)
(* 6. C05 at the wire: returned handles are live and name the object of the request                       *)
(* ====================================================================================================== *)
(* the handle of the reply (if any) resolves, in the post-state, to path p *)
Definition LiveRes (p : path) (r : srv * obs) : Prop :=
  forall fh, ob_fh (snd r) = Some fh -> exists a, lookup_node (fst r) fh = Some (p, a).

Lemma live_nofh p s o : ob_fh o = None -> LiveRes p (s, o).
Proof. intros E fh H. cbn [snd] in H. congruence. Qed.

Lemma alloc_live s p a s' fh : HInv s -> alloc s p a = (s', fh) -> lookup_node s' fh = Some (p, a).
Proof.
  intros H E. destruct (alloc_fst_snd s p a) as (E1 & E2 & E3). rewrite E in E1, E2, E3. cbn [fst snd] in *.
  destruct (allocate_spec path_eqb path_eqb_reflect (hm s) p H) as [_ G].
  unfold lookup_node. rewrite E1, E2, G, E3, E2, N.eqb_refl. reflexivity.
Qed.
Lemma failed_reply_live p s h d st_ dpre : LiveRes p (failed_reply s h d st_ dpre).
Proof. unfold failed_reply. destruct (getattr_h s h d) as [s1 dpost]. apply live_nofh. reflexivity. Qed.
Lemma created_reply_live s h d p a dpre : HInv s -> LiveRes p (created_reply s h d p a dpre).
Proof.
  intros H. unfold created_reply.
  pose proof (getattr_h_keep s h d) as K. destruct (getattr_h s h d) as [s1 dpost]. cbn [fst] in K.
  destruct dpost as [dp|e]; [|apply live_nofh; reflexivity].
  destruct (alloc s1 p a) as [s2 fh] eqn:E. intros fh' Hfh. cbn [snd ob_mk ob_fh] in Hfh. injection Hfh as <-.
  exists a. cbn [fst]. apply (alloc_live s1 p a s2 fh); [|exact E]. unfold HInv. destruct K as [-> _]. exact H.
Qed.

(* one leaf of a handler: no handle in the reply, or the reply is built by created_reply / failed_reply,
   or the handle comes from the alloc that produced the final state *)
Ltac live_leaf HI :=
  first
  [ apply live_nofh; reflexivity
  | apply failed_reply_live
  | apply created_reply_live; eapply Ev_HInv; [|exact HI]; ecollect2; echain2
  | match goal with
    | E : alloc ?sx ?p ?a = (?s', ?fh) |- LiveRes _ (?s', _) =>
        let fh' := fresh "fh'" in let Hfh := fresh "Hfh" in
        intros fh' Hfh; cbn [snd ob_mk ob_fh] in Hfh; injection Hfh as <-; exists a; cbn [fst];
        apply (alloc_live sx p a s' fh); [eapply Ev_HInv; [|exact HI]; clear E; ecollect2; echain2|exact E]
    end ].

Lemma handle_create_live s c h n how sa d da : HInv s -> lookup_node s h = Some (d, da) ->
  LiveRes (d ++ [n]) (handle_create s c h n how sa).
Proof. intros HI L. unfold handle_create. cbv zeta. rewrite L. des; live_leaf HI. Qed.
Lemma handle_mkdir_live s c h n sa d da : HInv s -> lookup_node s h = Some (d, da) ->
  LiveRes (d ++ [n]) (handle_mkdir s c h n sa).
Proof. intros HI L. unfold handle_mkdir. cbv zeta. rewrite L. des; live_leaf HI. Qed.
Lemma handle_symlink_live s c h n sa t d da : HInv s -> lookup_node s h = Some (d, da) ->
  LiveRes (d ++ [n]) (handle_symlink s c h n sa t).
Proof. intros HI L. unfold handle_symlink. cbv zeta. rewrite L. des; live_leaf HI. Qed.
Lemma handle_mnt_live s p : HInv s -> LiveRes (clean_comps [] (split_path p)) (handle_mnt s p).
Proof.
  intros HI. unfold handle_mnt. destruct (negb (is_abs p)); [apply live_nofh; reflexivity|]. cbv zeta.
  destruct (mnt_prefix_check_keep (length (clean_comps [] (split_path p))) s (removelast (clean_comps [] (split_path p)))) as [K0 _].
  destruct (mnt_prefix_check s _ _) as [s0 linked]. cbn [fst] in K0.
  assert (HI0 : HInv s0) by (unfold HInv; destruct K0 as [-> _]; exact HI).
  destruct linked; [apply live_nofh; reflexivity|]. des; live_leaf HI0.
Qed.
Lemma handle_lookup_live s h n d da : HInv s -> lookup_node s h = Some (d, da) ->
  LiveRes (d ++ [n]) (handle_lookup s h n).
Proof.
  intros HI L. unfold handle_lookup. rewrite L.
  destruct (negb (validate_name n =? st_ok)); [apply live_nofh; reflexivity|].
  destruct (negb (kind_eqb (na_kind da) KDir)).
  { destruct (current_attrs s h d) as [s1 a]. apply live_nofh; reflexivity. }
  pose proof (srv_lookup_keep s (d ++ [n])) as K1. destruct (srv_lookup s (d ++ [n])) as [s1 r]. cbn [fst] in K1.
  destruct r as [a|e].
  - destruct (alloc s1 (d ++ [n]) a) as [s2 fh] eqn:E.
    (* current_attrs runs after the allocation; it reads the backend and the attribute cache only *)
    pose proof (current_attrs_keep s2 h d) as K2. destruct (current_attrs s2 h d) as [s3 da']. cbn [fst] in K2.
    intros fh' Hfh. cbn [snd ob_mk ob_fh] in Hfh. injection Hfh as <-. exists a. cbn [fst].
    rewrite (keep_lookup_node s2 s3 fh K2). apply (alloc_live s1 (d ++ [n]) a s2 fh); [|exact E].
    unfold HInv. destruct K1 as [-> _]. exact HI.
  - destruct (current_attrs s1 h d) as [s2 a]. apply live_nofh; reflexivity.
Qed.

(* a reply that carries a handle is a success reply of a tracked directory handle *)
Lemma step_live s c r fh : HInv s -> ob_fh (snd (step s c r)) = Some fh ->
  match r with
  | RMnt mp => exists a, lookup_node (fst (step s c r)) fh = Some (clean_comps [] (split_path mp), a)
  | RLookup h n | RCreate h n _ _ | RMkdir h n _ | RSymlink h n _ _ =>
      exists d da a, lookup_node s h = Some (d, da) /\ lookup_node (fst (step s c r)) fh = Some (d ++ [n], a)
  | _ => False
  end.
Proof.
  intros HI. unfold step.
  assert (HI0 : HInv (clear_log s)) by exact HI.
  assert (L0 : forall h, lookup_node (clear_log s) h = lookup_node s h) by reflexivity.
  set (s0 := clear_log s) in *. clearbody s0.
  assert (NF : forall st_, ob_fh (fail_post st_) = None /\ ob_fh (fail_wcc st_) = None /\ ob_fh (fail_wcc2 st_) = None /\
                           ob_fh (ob_fail st_) = None /\ ob_fh (ob_rpc_fail st_) = None) by (intros; repeat split).
  destruct r; cbn [garbage_reply].
  all: try (cbn [snd fst]; intros F; discriminate F).
  all: try (unfold handle_getattr, handle_access, handle_fsx, handle_commit; des; cbn [snd]; intros F; discriminate F).
  - (* SETATTR *) unfold handle_setattr. des; cbn [snd]; intros F; discriminate F.
  - (* LOOKUP *) destruct (str_ok n); [|intros F; discriminate F].
    destruct (lookup_node s h) as [[d da]|] eqn:L.
    + intros F. rewrite <- L0 in L. destruct (handle_lookup_live s0 h n d da HI0 L fh F) as [a A].
      exists d, da, a. rewrite L0 in L. auto.
    + unfold handle_lookup. rewrite L0, L. des; cbn [snd]; intros F; discriminate F.
  - (* READLINK *) unfold handle_readlink. des; cbn [snd]; intros F; discriminate F.
  - (* READ *) unfold handle_read. des; cbn [snd]; intros F; discriminate F.
  - (* WRITE *) unfold handle_write. des; cbn [snd]; intros F; discriminate F.
  - (* CREATE *) destruct (str_ok n); [|destruct (ro (conf s0)); intros F; discriminate F].
    destruct (lookup_node s h) as [[d da]|] eqn:L.
    + intros F. rewrite <- L0 in L. destruct (handle_create_live s0 c h n how sa d da HI0 L fh F) as [a A].
      exists d, da, a. rewrite L0 in L. auto.
    + unfold handle_create. cbv zeta. rewrite L0, L. des; cbn [snd]; intros F; discriminate F.
  - (* MKDIR *) destruct (str_ok n); [|destruct (ro (conf s0)); intros F; discriminate F].
    destruct (lookup_node s h) as [[d da]|] eqn:L.
    + intros F. rewrite <- L0 in L. destruct (handle_mkdir_live s0 c h n sa d da HI0 L fh F) as [a A].
      exists d, da, a. rewrite L0 in L. auto.
    + unfold handle_mkdir. cbv zeta. rewrite L0, L. des; cbn [snd]; intros F; discriminate F.
  - (* SYMLINK *) destruct (str_ok n && str_ok target); [|des; cbn [snd]; intros F; discriminate F].
    destruct (lookup_node s h) as [[d da]|] eqn:L.
    + intros F. rewrite <- L0 in L. destruct (handle_symlink_live s0 c h n sa target d da HI0 L fh F) as [a A].
      exists d, da, a. rewrite L0 in L. auto.
    + unfold handle_symlink. rewrite L0, L. des; cbn [snd]; intros F; discriminate F.
  - (* REMOVE *) destruct (str_ok n); [|destruct (ro (conf s0)); intros F; discriminate F].
    unfold handle_remove. cbv zeta. des; cbn [snd]; try (intros F; discriminate F).
    all: pose proof failed_reply_live as FL; unfold LiveRes in FL.
    all: intros F; exfalso; revert F;
      match goal with |- ob_fh (snd (failed_reply ?a ?b ?c ?d ?e)) = _ -> _ =>
        unfold failed_reply; destruct (getattr_h a b c); cbn; discriminate end.
  - (* RMDIR *) destruct (str_ok n); [|destruct (ro (conf s0)); intros F; discriminate F].
    unfold handle_rmdir. cbv zeta. des; cbn [snd]; try (intros F; discriminate F).
    all: intros F; exfalso; revert F;
      match goal with |- ob_fh (snd (failed_reply ?a ?b ?c ?d ?e)) = _ -> _ =>
        unfold failed_reply; destruct (getattr_h a b c); cbn; discriminate end.
  - (* RENAME *) destruct (str_ok n1 && str_ok n2); [|des; cbn [snd]; intros F; discriminate F].
    unfold handle_rename. cbv zeta. des; cbn [snd]; intros F; discriminate F.
  - (* READDIR *) unfold handle_readdir. des; cbn [snd]; intros F; discriminate F.
  - (* READDIRPLUS *) unfold handle_readdirplus. des; cbn [snd]; intros F; discriminate F.
  - (* MNT *) destruct (str_ok p); [|intros F; discriminate F].
    intros F. exact (handle_mnt_live s0 p HI0 fh F).
Qed.

(* ---------- READDIRPLUS: the handle of the last entry ---------- *)
Lemma alloc_all_cons s ck p a r :
  alloc_all s ((ck, (p, a)) :: r) =
  let '(s1, fh) := alloc s p a in
  let '(s2, rest) := alloc_all s1 r in
  (s2, {| de_fileid := na_fileid a; de_name := name_of p; de_cookie := ck; de_attr := sf a; de_fh := Some fh |} :: rest).
Proof. reflexivity. Qed.
Lemma alloc_all_length pg : forall s, length (snd (alloc_all s pg)) = length pg.
Proof.
  induction pg as [|[ck [p a]] r IH]; intros s; [reflexivity|]. rewrite alloc_all_cons.
  destruct (alloc s p a) as [s1 fh]. pose proof (IH s1) as L. destruct (alloc_all s1 r) as [s2 rest]. cbn in *. congruence.
Qed.
Lemma alloc_all_last pg : forall s s' des_, HInv s -> alloc_all s pg = (s', des_) ->
  forall l e, des_ = l ++ [e] ->
  exists pgl ck p a fh, pg = pgl ++ [(ck, (p, a))] /\ de_fh e = Some fh /\ de_name e = name_of p /\
                        lookup_node s' fh = Some (p, a).
Proof.
  induction pg as [|[ck [p a]] r IH]; intros s s' des_ HI E l e El.
  - cbn in E. injection E as <- <-. destruct l; discriminate El.
  - rewrite alloc_all_cons in E. destruct (alloc s p a) as [s1 fh] eqn:Ea.
    pose proof (alloc_all_length r s1) as Len. destruct (alloc_all s1 r) as [s2 rest] eqn:Er. cbn [snd] in Len.
    injection E as <- <-.
    assert (HI1 : HInv s1).
    { pose proof (Ev_alloc s p a) as R. rewrite Ea in R. eapply Ev_HInv; eassumption. }
    destruct l as [|x l'].
    + cbn in El. injection El as <- Erest. subst rest. destruct r; [|discriminate Len].
      cbn in Er. injection Er as <-.
      exists [], ck, p, a, fh. cbn. repeat split. apply (alloc_live s p a s1 fh HI Ea).
    + cbn in El. injection El as _ Erest.
      destruct (IH s1 s2 rest HI1 Er l' e Erest) as (pgl & ck' & p' & a' & fh' & -> & A & B & C).
      exists ((ck, (p, a)) :: pgl), ck', p', a', fh'. auto.
Qed.

Lemma lookup_all_child d names : forall s e, In e (snd (lookup_all s d names)) -> exists n, fst e = d ++ [n].
Proof.
  induction names as [|n r IH]; intros s e; cbn [lookup_all]; [intros []|].
  destruct (is_dot n || is_dotdot n || negb (sanitize_ok d n)); [apply IH|].
  destruct (srv_lookup s (d ++ [n])) as [s1 lr]. pose proof (IH s1 e) as I1. destruct (lookup_all s1 d r) as [s2 rest].
  cbn [snd] in *. destruct lr as [a|er]; cbn [snd]; [|exact I1].
  intros [<-|H]; [exists n; reflexivity|exact (I1 H)].
Qed.
Lemma srv_readdir_child s d l : snd (srv_readdir s d) = Ok l -> forall e, In e l -> exists n, fst e = d ++ [n].
Proof.
  unfold srv_readdir. destruct (if dir_on (conf s) then dc_get s d else (s, None)) as [s0 hit]. cbn [fst snd].
  destruct hit as [names|].
  - pose proof (lookup_all_child d names s0) as I1. destruct (lookup_all s0 d names) as [s1 l']. cbn [snd] in *.
    intros [= <-]. exact I1.
  - destruct (be_open _ d false) as [q|e]; cbn [snd]; [|discriminate].
    destruct (be_readdir _ q) as [ents|e]; cbn [snd]; [|discriminate].
    match goal with |- context [lookup_all ?st d ?nm] =>
      pose proof (lookup_all_child d nm st) as I1; destruct (lookup_all st d nm) as [s4 l'] end.
    cbn [snd] in *. intros [= <-]. exact I1.
Qed.
Lemma refresh_all_fst l : forall s, map fst (snd (refresh_all s l)) = map fst l.
Proof.
  induction l as [|[p a] r IH]; intros s; cbn [refresh_all]; [reflexivity|].
  destruct (ac_get s p) as [s0 x]. unfold do_lstat. destruct (be_stat (fs s0) p false) as [fi|e].
  - match goal with |- context [refresh_all ?st r] => pose proof (IH st) as I1; destruct (refresh_all st r) as [s2 rest] end.
    cbn [snd map fst] in *. congruence.
  - match goal with |- context [refresh_all ?st r] => pose proof (IH st) as I1; destruct (refresh_all st r) as [s2 rest] end.
    cbn [snd map fst] in *. congruence.
Qed.
Lemma name_of_child d n : name_of (d ++ [n]) = n.
Proof. unfold name_of. apply last_last. Qed.

Lemma handle_readdirplus_last s h ck mc d da l e : HInv s -> lookup_node s h = Some (d, da) ->
  ob_entries (snd (handle_readdirplus s h ck mc)) = l ++ [e] ->
  exists fh a, de_fh e = Some fh /\ lookup_node (fst (handle_readdirplus s h ck mc)) fh = Some (d ++ [de_name e], a).
Proof.
  intros HI L. unfold handle_readdirplus. rewrite L.
  destruct (negb (kind_eqb (na_kind da) KDir)); [cbn; intros F; destruct l; discriminate F|].
  pose proof (srv_readdir_keep s d) as K1. pose proof (srv_readdir_child s d) as C1.
  destruct (srv_readdir s d) as [s1 r]. cbn [fst snd] in K1, C1.
  destruct r as [ents0|er]; [|cbn; intros F; destruct l; discriminate F].
  pose proof (refresh_all_keep ents0 s1) as K2. pose proof (refresh_all_fst ents0 s1) as C2.
  destruct (refresh_all s1 ents0) as [s1' ents]. cbn [fst snd] in K2, C2.
  pose proof (getattr_h_keep s1' h d) as K3. destruct (getattr_h s1' h d) as [s2 ga]. cbn [fst] in K3.
  destruct ga as [a|er]; [|cbn; intros F; destruct l; discriminate F].
  destruct (page true mc 0 ck 0 dir_header_len ents) as [pg lim] eqn:Epg.
  destruct (alloc_all s2 pg) as [s3 des_] eqn:Ea. cbn [fst snd ob_entries]. intros El.
  assert (HI2 : HInv s2).
  { unfold HInv. destruct K3 as [-> _]. destruct K2 as [-> _]. destruct K1 as [-> _]. exact HI. }
  destruct (alloc_all_last pg s2 s3 des_ HI2 Ea l e El) as (pgl & ck' & p & a' & fh & Epg' & A & B & C).
  exists fh, a'. split; [exact A|]. rewrite B.
  (* p is a child of d: it is the path of an entry of the listing *)
  assert (Hin : In (p, a') ents).
  { apply (page_sub true mc ck ents 0 0 dir_header_len (ck', (p, a'))). rewrite Epg. cbn [fst]. rewrite Epg'.
    apply in_or_app. right. left. reflexivity. }
  assert (Hp : In p (map fst ents0)) by (rewrite <- C2; apply (in_map fst) in Hin; exact Hin).
  apply in_map_iff in Hp. destruct Hp as (e0 & <- & He0). destruct (C1 ents0 eq_refl e0 He0) as [n En].
  rewrite En in C |- *. rewrite name_of_child. exact C.
Qed.

(* ---------- one value per path while live ---------- *)
Lemma alloc_same s p a fh a0 : HInv s -> lookup_node s fh = Some (p, a0) -> snd (alloc s p a) = fh.
Proof.
  intros HI L. apply lookup_node_get in L. destruct (alloc_fst_snd s p a) as (_ & -> & _).
  rewrite (reissue_inv path_eqb path_eqb_reflect (hm s) p fh HI L). reflexivity.
Qed.
Lemma handle_lookup_same s h n d da fh a0 fh' : HInv s -> lookup_node s h = Some (d, da) ->
  lookup_node s fh = Some (d ++ [n], a0) -> ob_fh (snd (handle_lookup s h n)) = Some fh' -> fh' = fh.
Proof.
  intros HI L Lf. unfold handle_lookup. rewrite L.
  destruct (negb (validate_name n =? st_ok)); [intros F; discriminate F|].
  destruct (negb (kind_eqb (na_kind da) KDir)).
  { destruct (current_attrs s h d) as [s1 a]. intros F; discriminate F. }
  pose proof (srv_lookup_keep s (d ++ [n])) as K1. destruct (srv_lookup s (d ++ [n])) as [s1 r]. cbn [fst] in K1.
  destruct r as [a|e].
  - pose proof (alloc_same s1 (d ++ [n]) a fh a0) as S. destruct (alloc s1 (d ++ [n]) a) as [s2 fh2].
    destruct (current_attrs s2 h d) as [s3 da']. cbn [snd ob_mk ob_fh]. intros [= <-]. cbn [snd] in S. apply S.
    + unfold HInv. destruct K1 as [-> _]. exact HI.
    + rewrite (keep_lookup_node s s1 fh K1). exact Lf.
  - destruct (current_attrs s1 h d) as [s2 a]. intros F; discriminate F.
Qed.
Lemma handle_mnt_same s mp fh a0 fh' : HInv s ->
  lookup_node s fh = Some (clean_comps [] (split_path mp), a0) -> ob_fh (snd (handle_mnt s mp)) = Some fh' -> fh' = fh.
Proof.
  intros HI Lf. unfold handle_mnt. destruct (negb (is_abs mp)); [intros F; discriminate F|].
  set (cp := clean_comps [] (split_path mp)) in *. cbv zeta.
  destruct (mnt_prefix_check_keep (length cp) s (removelast cp)) as [K0 _].
  destruct (mnt_prefix_check s (removelast cp) (length cp)) as [s0 linked]. cbn [fst] in K0.
  destruct linked; [intros F; discriminate F|].
  pose proof (srv_lookup_keep s0 cp) as K1. destruct (srv_lookup s0 cp) as [s1 r]. cbn [fst] in K1.
  assert (K : keep s s1) by (eapply keep_trans; eassumption).
  destruct r as [a|e]; [|intros F; discriminate F].
  pose proof (alloc_same s1 cp a fh a0) as S. destruct (alloc s1 cp a) as [s2 fh2].
  cbn [snd ob_mk ob_fh]. intros [= <-]. cbn [snd] in S. apply S.
  - unfold HInv. destruct K as [-> _]. exact HI.
  - rewrite (keep_lookup_node s s1 fh K). exact Lf.
Qed.
Lemma step_same_handle s c r fh a0 fh' : HInv s -> ob_fh (snd (step s c r)) = Some fh' ->
  match r with
  | RLookup h n => forall d da, lookup_node s h = Some (d, da) -> lookup_node s fh = Some (d ++ [n], a0) -> fh' = fh
  | RMnt mp => lookup_node s fh = Some (clean_comps [] (split_path mp), a0) -> fh' = fh
  | _ => True
  end.
Proof.
  intros HI. unfold step.
  assert (HI0 : HInv (clear_log s)) by exact HI.
  assert (L0 : forall h, lookup_node (clear_log s) h = lookup_node s h) by reflexivity.
  set (s0 := clear_log s) in *. clearbody s0.
  destruct r; try (intros; exact I); cbn [garbage_reply].
  - destruct (str_ok n); [|intros F; discriminate F]. cbn [snd]. intros F d da L Lf. rewrite <- L0 in L, Lf.
    exact (handle_lookup_same s0 h n d da fh a0 fh' HI0 L Lf F).
  - destruct (str_ok p); [|intros F; discriminate F]. cbn [snd]. intros F Lf. rewrite <- L0 in Lf.
    exact (handle_mnt_same s0 p fh a0 fh' HI0 Lf F).
Qed.

(* ====================================================================================================== *)
(* 7. the statements of Properties/C06.v and Properties/C05w.v in their final form                        *)
(* ====================================================================================================== *)
Lemma step_stale_fields s c r : reaches_lookup s r = true ->
  (exists h, In h (req_handles r) /\ lookup_node s h = None) ->
  let s' := fst (step s c r) in let o := snd (step s c r) in
  ob_status o = NFSERR_STALE /\ ob_rpc o = 0 /\ ob_fh o = None /\ ob_bytes o = [] /\ ob_entries o = [] /\ ob_nums o = [] /\
  (forall a, In a (ob_attrs o) -> a = None) /\ (forall w, In w (ob_wcc o) -> w = None) /\
  blog s' = [] /\ fs s' = fs s /\ s' = clear_log s.
Proof.
  intros G E. cbv zeta. destruct (step_stale s c r G E) as [A B]. apply stale_reply_spec in B.
  destruct B as (B1 & B2 & B3 & B4 & B5 & B6 & B7 & B8). rewrite A. repeat split; assumption.
Qed.

Lemma step_bounded s c r : HInv s -> count (hm (fst (step s c r))) <= eff_max (hm (fst (step s c r))).
Proof. intros H. apply (step_HInv s c r H). Qed.
Lemma reachable_bounded f c mx t l : let s := hfinal (srv_init_fs f c mx t) l in count (hm s) <= eff_max (hm s).
Proof. cbv zeta. apply (reachable_inv f c mx t l). Qed.
Lemma eff_max_Ev s s' : Ev s s' -> HInv s -> eff_max (hm s') = eff_max (hm s).
Proof.
  induction 1 as [s s' [K _]|s h a|s p a|a b c R1 IH1 R2 IH2]; intros H.
  - rewrite K. reflexivity.
  - reflexivity.
  - destruct (alloc_fst_snd s p a) as (-> & _). unfold allocate.
    destruct (assocP path_eqb p (byPath (hm s))); [reflexivity|].
    destruct (pop_min (free (hm s))) as [[h0 f0]|];
    match goal with |- context [if ?c then _ else _] => destruct c end; cbn [fst];
    try reflexivity; rewrite evict_max; reflexivity.
  - rewrite IH2, IH1; [reflexivity|exact H|eapply Ev_HInv; eassumption].
Qed.
Definition emax (mx : Z) : N := if (mx <=? 0)%Z then default_max_handles else Z.to_N mx.
Lemma reachable_bounded_cfg f c mx t l : count (hm (hfinal (srv_init_fs f c mx t) l)) <= emax mx.
Proof.
  pose proof (reachable_bounded f c mx t l) as B. cbv zeta in B.
  rewrite (eff_max_Ev _ _ (hfinal_Ev l (srv_init_fs f c mx t)) (HInv_init f c mx t)) in B. exact B.
Qed.

(* the handles of the EARLIER entries of a READDIRPLUS reply need not be live (known finding C05 k=1) *)
Definition readdirplus_all_live_statement : Prop :=
  forall f cf mx t l x h ck dc mc, hs_req x = RReaddirplus h ck dc mc ->
    let so := hrun1 (hfinal (srv_init_fs f cf mx t) l) x in
    forall e fh, In e (ob_entries (snd so)) -> de_fh e = Some fh -> lookup_node (fst so) fh <> None.

Definition ex_hs (r : req) : hstep := {| hs_adv := 1; hs_cred := ex_cred; hs_req := r |}.
(* limit 1; a root directory with two files; the root handle is re-obtained after every eviction *)
Definition ex1_pre : list hstep :=
  map ex_hs [RMnt [47]; RCreate 1 [97] 0 ex_sattr; RMnt [47]; RCreate 1 [98] 0 ex_sattr; RMnt [47]].
Definition ex1_state : srv := hfinal (srv_init_fs fs_init ex_cfg 1 100) ex1_pre.
Definition ex1_rdp : srv * obs := hrun1 ex1_state (ex_hs (RReaddirplus 1 0 4096 4096)).

Definition entry_live_b (s : srv) (e : dentry) : bool :=
  match de_fh e with
  | Some fh => match lookup_node s fh with Some _ => true | None => false end
  | None => true
  end.
Lemma all_live_b s es : (forall e fh, In e es -> de_fh e = Some fh -> lookup_node s fh <> None) ->
  forallb (entry_live_b s) es = true.
Proof.
  intros H. apply forallb_forall. intros e He. unfold entry_live_b. destruct (de_fh e) as [fh|] eqn:Ef; [|reflexivity].
  specialize (H e fh He Ef). destruct (lookup_node s fh); [reflexivity|congruence].
Qed.
Lemma readdirplus_all_live_refuted : ~ readdirplus_all_live_statement.
Proof.
  intros H0.
  pose proof (all_live_b (fst ex1_rdp) (ob_entries (snd ex1_rdp))
    (H0 fs_init ex_cfg 1%Z 100 ex1_pre (ex_hs (RReaddirplus 1 0 4096 4096)) 1 0 4096 4096 eq_refl)) as B.
  vm_compute in B. discriminate B.
Qed.

(* a bigger table (default limit): MNT "/", MKDIR d, CREATE d/f, SYMLINK d/l, LOOKUP d, READDIRPLUS d *)
Definition ex2_state : srv := ex_state.
