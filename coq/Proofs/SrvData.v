(* Proofs/SrvData.v — READ / WRITE / SETATTR(size) / CREATE of the server model (Model/Srv.v) against the
   byte-array specification of Proofs/BackendData.v (property C01), and the MaxFileSize guard (C25).
   Every lemma is for all server states: any tree, any cache contents and configuration, any handle table.
   Sections: 1 frame of GetAttr; 2 READ; 3 WRITE; 4 SETATTR(size); 5 MaxFileSize (FBIG, bound, simulation);
   6 CREATE of a new name; 7 the same at the level of [step]; 8 histories (refinement of the byte-array spec). *)
From Coq Require Import List NArith ZArith Bool Lia ZifyBool ZifyNat ZifyN.
From Verif Require Import Gen.Facts Model.Handles Model.Backend Model.Srv Proofs.SrvRO Proofs.BackendData.
Import ListNotations.
Open Scope N_scope.

(* ====================================================================================================== *)
(* 1. frame: what GetAttr and the cache operations leave alone                                            *)
(* ====================================================================================================== *)
(* s' is s up to the caches and non-mutating entries of the backend log *)
Definition Fr (s s' : srv) : Prop :=
  fs s' = fs s /\ conf s' = conf s /\ hm s' = hm s /\ nodes s' = nodes s /\ now s' = now s /\ (safe (blog s) -> safe (blog s')).
Lemma Fr_refl s : Fr s s. Proof. unfold Fr; tauto. Qed.
Lemma Fr_trans a b c : Fr a b -> Fr b c -> Fr a c.
Proof. unfold Fr. intros (A1 & A2 & A3 & A4 & A5 & A6) (B1 & B2 & B3 & B4 & B5 & B6). repeat split; try congruence. tauto. Qed.
Lemma Fr_RO a b : Fr a b -> RO a b. Proof. unfold Fr, RO. tauto. Qed.
Lemma Fr_with_ac s a : Fr s (with_ac s a). Proof. unfold Fr; cbn; tauto. Qed.
Lemma Fr_logc s c : mutating c = false -> Fr s (logc s c).
Proof. intros H. unfold Fr; cbn. repeat split; auto. intros S. apply safe_cons; auto. Qed.
Lemma ac_get_fr s p : Fr s (fst (ac_get s p)).
Proof. unfold ac_get. des; cbn [fst]; auto using Fr_refl, Fr_with_ac. Qed.
Lemma ac_put_fr s p a : Fr s (ac_put s p a). Proof. apply Fr_with_ac. Qed.
Lemma ac_invalidate_fr s p : Fr s (ac_invalidate s p). Proof. apply Fr_with_ac. Qed.
Lemma srv_getattr_fr s p u g : Fr s (fst (srv_getattr s p u g)).
Proof.
  unfold srv_getattr. pose proof (ac_get_fr s p) as A. destruct (ac_get s p) as [s1 x]. cbn [fst] in A.
  unfold do_lstat. destruct (be_stat (fs s1) p false); cbn [fst].
  - apply Fr_trans with s1; [exact A|].
    apply Fr_trans with (logc s1 (bc BLstat p)); [apply Fr_logc; reflexivity|apply ac_put_fr].
  - apply Fr_trans with s1; [exact A|apply Fr_logc; reflexivity].
Qed.
Lemma getattr_h_fr s h p : Fr s (fst (getattr_h s h p)).
Proof. unfold getattr_h. destruct (node_get s h); apply srv_getattr_fr. Qed.

(* GetAttr is an Lstat of the handle's path; uid/gid come from the node *)
Definition node_uid (s : srv) (h : N) : N := match node_get s h with Some n => na_uid n | None => 0 end.
Definition node_gid (s : srv) (h : N) : N := match node_get s h with Some n => na_gid n | None => 0 end.
Lemma getattr_h_snd s h p :
  snd (getattr_h s h p) =
  match be_stat (fs s) p false with
  | Ok fi => Ok (attrs_of_info fi (fileid_of p) (node_uid s h) (node_gid s h))
  | Err e => Err e
  end.
Proof.
  assert (G : forall u g, snd (srv_getattr s p u g) =
            match be_stat (fs s) p false with Ok fi => Ok (attrs_of_info fi (fileid_of p) u g) | Err e => Err e end).
  { intros u g. unfold srv_getattr. pose proof (ac_get_fr s p) as (A & _). destruct (ac_get s p) as [s1 x]. cbn [fst] in A.
    unfold do_lstat. rewrite A. destruct (be_stat (fs s) p false); reflexivity. }
  unfold getattr_h, node_uid, node_gid. destruct (node_get s h); apply G.
Qed.

Ltac splits := repeat match goal with |- _ /\ _ => split end.

(* destruct [getattr_h s h p] as [s1 x] and record its frame and value facts *)
Ltac ga s1 x F V :=
  match goal with |- context [getattr_h ?s ?h ?p] =>
    pose proof (getattr_h_fr s h p) as F; pose proof (getattr_h_snd s h p) as V;
    destruct (getattr_h s h p) as [s1 x]; cbn [fst snd] in F, V
  end.

Lemma lookup_node_some s h p na : lookup_node s h = Some (p, na) -> node_get s h = Some na /\ get (hm s) h = Some p.
Proof.
  unfold lookup_node. destruct (get (hm s) h); [|discriminate]. destruct (node_get s h); [|discriminate].
  intros [= -> ->]. auto.
Qed.
Lemma lookup_node_fr s s' h : hm s' = hm s -> nodes s' = nodes s -> lookup_node s' h = lookup_node s h.
Proof. intros A B. unfold lookup_node, node_get. rewrite A, B. reflexivity. Qed.

(* READ / WRITE / SETATTR refuse handles whose node is a symbolic link *)
Lemma not_link k : k <> KLink -> kind_eqb k KLink = false.
Proof. destruct k; [reflexivity|reflexivity|congruence]. Qed.

Lemma stat_size_file o : o_kind o = KFile -> stat_size o = o_size o.
Proof. intros K. unfold stat_size. rewrite K. reflexivity. Qed.

(* ====================================================================================================== *)
(* 2. READ                                                                                                *)
(* ====================================================================================================== *)
Definition read_count (s : srv) (o : obj) (off cnt : N) : N :=
  if o_size o <=? off then 0 else N.min (N.min cnt (tsize (conf s))) (o_size o - off).

Lemma handle_read_ok s h p na o off cnt :
  lookup_node s h = Some (p, na) -> na_kind na <> KLink -> plain_file (fs s) p o -> off + cnt < two64 -> off < two63N ->
  let r := handle_read s h off cnt in
  let count := read_count s o off cnt in
  ob_rpc (snd r) = 0 /\ ob_status (snd r) = 0 /\ ob_nums (snd r) = [count] /\
  ob_bytes (snd r) = spec_read (file_of o) off count /\
  ob_eof (snd r) = (o_size o <=? off + count) /\
  RO s (fst r).
Proof.
  intros L Hk [P K] H64 H63. cbv zeta.
  assert (R : RO s (fst (handle_read s h off cnt))) by apply handle_read_ro. revert R.
  unfold handle_read, read_count.
  replace (two64 - 1 - cnt <? off) with false by (unfold two64 in *; lia).
  rewrite L, (not_link _ Hk); replace (two63N <=? off) with false by lia.
  cbn [fs logc]; rewrite (be_open_file _ _ _ false P K), (plain_get _ _ _ P), (stat_size_file _ K).
  destruct (o_size o <=? off) eqn:E; cbn [fst snd].
  - ga s2 x F V; cbn [fs logc] in V; rewrite (be_stat_plain _ _ _ false P) in V; subst x.
    cbn [fst snd ob_rpc ob_status ob_nums ob_bytes ob_eof length]. intros R.
    unfold attrs_of_info, info_of; cbn [na_size fi_size]; rewrite (stat_size_file _ K).
    splits; try reflexivity; try exact R.
  - unfold be_readat; rewrite (plain_get _ _ _ P), K; cbn [fst snd].
    ga s2 x F V; cbn [fs logc] in V; rewrite (be_stat_plain _ _ _ false P) in V; subst x.
    cbn [fst snd ob_rpc ob_status ob_nums ob_bytes ob_eof]. intros R.
    unfold attrs_of_info, info_of; cbn [na_size fi_size]; rewrite (stat_size_file _ K), sd_read_length.
    replace (off <? o_size o) with true by lia.
    replace (N.min (N.min (N.min cnt (tsize (conf s))) (o_size o - off)) (o_size o - off))
      with (N.min (N.min cnt (tsize (conf s))) (o_size o - off)) by lia.
    rewrite N2Nat.id.
    splits; try reflexivity; try exact R. apply sd_read_spec.
Qed.

Lemma handle_read_guard s h off cnt :
  let r := handle_read s h off cnt in
  (cnt < two64 -> two64 <= off + cnt -> r = (s, fail_post NFSERR_INVAL)) /\
  (off + cnt < two64 -> forall p na, lookup_node s h = Some (p, na) -> na_kind na = KLink -> r = (s, fail_post NFSERR_INVAL)) /\
  (off + cnt < two64 -> two63N <= off -> forall p na, lookup_node s h = Some (p, na) -> na_kind na <> KLink ->
     r = (s, fail_post NFSERR_IO)).
Proof.
  cbv zeta. unfold handle_read. splits.
  - intros H0 H. replace (two64 - 1 - cnt <? off) with true by (unfold two64 in *; lia). reflexivity.
  - intros H1 p na L Hk. replace (two64 - 1 - cnt <? off) with false by (unfold two64 in *; lia).
    rewrite L, Hk. reflexivity.
  - intros H1 H2 p na L Hk. replace (two64 - 1 - cnt <? off) with false by (unfold two64 in *; lia).
    rewrite L, (not_link _ Hk). replace (two63N <=? off) with true by lia. reflexivity.
Qed.

(* ====================================================================================================== *)
(* 3. WRITE                                                                                               *)
(* ====================================================================================================== *)
(* the MaxFileSize guard of WRITE does not trigger *)
Definition no_fbig_write (s : srv) (off cnt : N) : Prop :=
  maxfile (conf s) = 0 \/ cnt = 0 \/ off + cnt <= maxfile (conf s).


(* the object a successful WRITE leaves at p *)
Definition written (o : obj) (off : N) (data : list N) (t : N) : obj :=
  set_data o (match data with [] => o_size o | _ => N.max (o_size o) (Z.to_N (Z.of_N off) + N.of_nat (length data)) end)
           (sd_write (o_data o) (Z.to_N (Z.of_N off)) data) t.
Definition sync_f (o : obj) : obj := match o_kind o with KFile => sync_obj o | _ => o end.
Definition mtime_f (t : N) (o : obj) : obj := set_meta o (o_perm o) (o_uid o) (o_gid o) t.

Lemma node_upd_fs s h f : fs (node_upd s h f) = fs s.
Proof. apply node_upd_ro. Qed.

Lemma handle_write_eq s h p na o off cnt stable data :
  lookup_node s h = Some (p, na) -> na_kind na <> KLink -> plain_file (fs s) p o -> nodup_keys (fs s) ->
  ro (conf s) = false -> cnt = N.of_nat (length data) -> cnt <= tsize (conf s) ->
  off + cnt < two63N -> no_fbig_write s off cnt ->
  exists s' a prea,
    handle_write s h off cnt stable data = (s', ob_mk st_ok [sf a] [wcc_of prea] None [cnt; 2] []) /\
    fs s' = fs_upd (fs_upd (fs_upd (fs s) p (fun o => written o off data (now s))) p sync_f) p (mtime_f (now s)).
Proof.
  intros L Hk [P K] ND Hro Hc Ht H63 Hm.
  unfold handle_write. rewrite Hro.
  replace (two64 - 1 - cnt <? off) with false by (unfold two64, two63N in *; lia).
  replace (negb (cnt =? N.of_nat (length data))) with false by lia.
  replace (tsize (conf s) <? cnt) with false by lia.
  replace ((0 <? maxfile (conf s)) && (0 <? cnt) && ((maxfile (conf s) <? off) || (maxfile (conf s) - off <? cnt)))
    with false by (unfold no_fbig_write in Hm; lia).
  rewrite L, (not_link _ Hk).
  ga s1 pre F1 V1. rewrite (be_stat_plain _ _ _ false P) in V1. subst pre.
  destruct F1 as (F1f & F1c & F1h & F1n & F1t & F1s).
  replace (two63N <=? off) with false by lia.
  cbn [fs logc now]. rewrite F1f, F1t, (be_open_file _ _ _ true P K).
  rewrite (be_writeat_ok _ _ o) by (try apply (plain_get _ _ _ P); try exact K; unfold two63, two63N in *; lia).
  fold (written o off data (now s)).
  rewrite (fs_upd_const _ _ o _ (fun o => written o off data (now s)) ND (plain_get _ _ _ P) eq_refl).
  assert (P1 : plain (fs_upd (fs s) p (fun o => written o off data (now s))) p (written o off data (now s))).
  { pose proof (plain_upd (fs s) p o p (fun o => written o off data (now s))) as X. rewrite path_eqb_refl in X.
    apply X; [|exact P]. intros x. split; reflexivity. }
  set (fs1 := fs_upd (fs s) p (fun o => written o off data (now s))) in *.
  assert (P2 : plain (be_sync fs1 p) p (sync_f (written o off data (now s)))).
  { pose proof (plain_upd fs1 p _ p sync_f keeps_shape_sync P1) as X. rewrite path_eqb_refl in X. exact X. }
  cbn [fst snd fs hm nodes ac dc conf now blog logc with_fs with_ac ac_invalidate lift_unit do_stat].
  rewrite F1t, (be_chtimes_plain _ _ _ _ P2). cbn [fst]. fold (mtime_f (now s)).
  assert (P3 : plain (fs_upd (be_sync fs1 p) p (mtime_f (now s))) p (mtime_f (now s) (sync_f (written o off data (now s))))).
  { pose proof (plain_upd (be_sync fs1 p) p (sync_f (written o off data (now s))) p (mtime_f (now s))) as X. rewrite path_eqb_refl in X.
    apply X; [|exact P2]. intros x. split; reflexivity. }
  rewrite (be_stat_plain _ _ _ true P3).
  ga s9 post F9 V9. rewrite node_upd_fs in V9. cbn [fs logc with_fs] in V9.
  rewrite (be_stat_plain _ _ _ false P3) in V9. subst post.
  destruct F9 as (F9f & _). rewrite node_upd_fs in F9f. cbn [fs logc with_fs] in F9f.
  eexists _, _, _. split; [rewrite <- Hc; reflexivity|]. exact F9f.
Qed.

Lemma handle_write_ok s h p na o off cnt stable data :
  lookup_node s h = Some (p, na) -> na_kind na <> KLink -> plain_file (fs s) p o -> nodup_keys (fs s) ->
  ro (conf s) = false -> cnt = N.of_nat (length data) -> cnt <= tsize (conf s) ->
  off + cnt < two63N -> no_fbig_write s off cnt ->
  let r := handle_write s h off cnt stable data in
  ob_rpc (snd r) = 0 /\ ob_status (snd r) = 0 /\ ob_nums (snd r) = [cnt; 2] /\
  (exists o', fs_get (fs (fst r)) p = Some o' /\ o_kind o' = KFile /\
              o_perm o' = o_perm o /\ o_uid o' = o_uid o /\ o_gid o' = o_gid o /\
              bf_eq (file_of o') (spec_write (file_of o) off data cnt) /\
              bf_eq (durable_of o') (file_of o')) /\
  (forall p', p' <> p -> fs_get (fs (fst r)) p' = fs_get (fs s) p').
Proof.
  intros L Hk PK ND Hro Hc Ht H63 Hm. cbv zeta.
  destruct (handle_write_eq s h p na o off cnt stable data L Hk PK ND Hro Hc Ht H63 Hm) as (s' & a & prea & E & Ef).
  destruct PK as [P K].
  rewrite E. cbn [fst snd ob_mk ob_rpc ob_status ob_nums]. splits; try reflexivity.
  - exists (mtime_f (now s) (sync_f (written o off data (now s)))).
    assert (K1 : o_kind (written o off data (now s)) = KFile) by exact K.
    rewrite Ef, !fs_get_upd, (plain_get _ _ _ P), path_eqb_refl.
    unfold sync_f. rewrite K1. splits; try reflexivity; try exact K.
    + unfold file_of, mtime_f, sync_obj, written. cbn [o_size o_data set_meta set_data]. rewrite N2Z.id.
      subst cnt. apply (sd_write_spec (o_data o) (o_size o) off data).
    + apply bf_eq_refl.
  - intros p' Hp. rewrite Ef, !fs_get_upd_other by exact Hp. reflexivity.
Qed.

Lemma handle_write_guard s h off cnt stable data :
  let r := handle_write s h off cnt stable data in
  (ro (conf s) = true -> r = (s, fail_wcc NFSERR_ROFS)) /\
  (ro (conf s) = false -> cnt < two64 -> two64 <= off + cnt -> r = (s, fail_wcc NFSERR_INVAL)) /\
  (ro (conf s) = false -> off + cnt < two64 -> cnt <> N.of_nat (length data) -> r = (s, fail_wcc GARBAGE)) /\
  (ro (conf s) = false -> off + cnt < two64 -> cnt = N.of_nat (length data) -> tsize (conf s) < cnt ->
     r = (s, fail_wcc NFSERR_INVAL)) /\
  (ro (conf s) = false -> off + cnt < two64 -> cnt = N.of_nat (length data) -> cnt <= tsize (conf s) ->
     no_fbig_write s off cnt -> forall p na, lookup_node s h = Some (p, na) -> na_kind na = KLink ->
     r = (s, fail_wcc NFSERR_INVAL)).
Proof.
  cbv zeta. unfold handle_write. splits.
  - intros ->. reflexivity.
  - intros -> H0 H. replace (two64 - 1 - cnt <? off) with true by (unfold two64 in *; lia). reflexivity.
  - intros -> H0 H. replace (two64 - 1 - cnt <? off) with false by (unfold two64 in *; lia).
    replace (negb (cnt =? N.of_nat (length data))) with true by lia. reflexivity.
  - intros -> H0 H H1. replace (two64 - 1 - cnt <? off) with false by (unfold two64 in *; lia).
    replace (negb (cnt =? N.of_nat (length data))) with false by lia.
    replace (tsize (conf s) <? cnt) with true by lia. reflexivity.
  - intros -> H0 H H1 Hm p na L Hk. replace (two64 - 1 - cnt <? off) with false by (unfold two64 in *; lia).
    replace (negb (cnt =? N.of_nat (length data))) with false by lia.
    replace (tsize (conf s) <? cnt) with false by lia.
    replace ((0 <? maxfile (conf s)) && (0 <? cnt) && ((maxfile (conf s) <? off) || (maxfile (conf s) - off <? cnt)))
      with false by (unfold no_fbig_write in Hm; lia).
    rewrite L, Hk. reflexivity.
Qed.

(* the two int64 rejections behind the guards: offset >= 2^63 ("negative offset"), and the backend's own
   EINVAL when offset + count reaches 2^63; both answer NFS3ERR_IO and leave the tree alone *)
Lemma handle_write_guard63 s h p na o off cnt stable data :
  lookup_node s h = Some (p, na) -> na_kind na <> KLink -> plain_file (fs s) p o ->
  ro (conf s) = false -> cnt = N.of_nat (length data) -> cnt <= tsize (conf s) ->
  off + cnt < two64 -> no_fbig_write s off cnt -> two63N <= off + cnt ->
  let r := handle_write s h off cnt stable data in
  ob_rpc (snd r) = 0 /\ ob_status (snd r) = NFSERR_IO /\ ob_nums (snd r) = [] /\ fs (fst r) = fs s /\
  (two63N <= off -> RO s (fst r)).
Proof.
  intros L Hk [P K] Hro Hc Ht H64 Hm H63. cbv zeta.
  unfold handle_write. rewrite Hro.
  replace (two64 - 1 - cnt <? off) with false by (unfold two64, two63N in *; lia).
  replace (negb (cnt =? N.of_nat (length data))) with false by lia.
  replace (tsize (conf s) <? cnt) with false by lia.
  replace ((0 <? maxfile (conf s)) && (0 <? cnt) && ((maxfile (conf s) <? off) || (maxfile (conf s) - off <? cnt)))
    with false by (unfold no_fbig_write in Hm; lia).
  rewrite L, (not_link _ Hk).
  ga s1 pre F1 V1. rewrite (be_stat_plain _ _ _ false P) in V1. subst pre.
  destruct (two63N <=? off) eqn:E.
  - ga s2 post F2 V2. cbn [fst snd ob_mk ob_rpc ob_status ob_nums]. splits; try reflexivity.
    + destruct F2 as (-> & _). apply F1.
    + intros _. apply Fr_RO. eapply Fr_trans; eassumption.
  - destruct F1 as (F1f & F1c & F1h & F1n & F1t & F1s).
    cbn [fs logc now]. rewrite F1f, (be_open_file _ _ _ true P K).
    rewrite (be_writeat_einval _ _ o) by (try apply (plain_get _ _ _ P); try exact K; unfold two63, two63N in *; lia).
    cbn [fst snd].
    ga s4 post F4 V4. cbn [fst snd ob_mk ob_rpc ob_status ob_nums]. splits; try reflexivity.
    + destruct F4 as (-> & _). cbn [fs logc with_fs]. reflexivity.
    + intros; lia.
Qed.

(* ====================================================================================================== *)
(* 4. SETATTR(size)                                                                                       *)
(* ====================================================================================================== *)
Definition size_only (sa : sattr) (sz : N) : Prop :=
  s_mode sa = None /\ s_uid sa = None /\ s_gid sa = None /\ s_size sa = Some sz /\ s_atime sa = 0 /\ s_mtime sa = 0.
Definition no_fbig_size (s : srv) (sz : N) : Prop := maxfile (conf s) = 0 \/ sz <= maxfile (conf s).
Definition trunc_f (sz t : N) (o : obj) : obj := set_data o sz (sd_trunc (o_data o) sz) t.

Lemma node_get_set s h a : node_get (node_set s h a) h = Some a.
Proof. unfold node_get, node_set. cbn [nodes with_nodes find fst snd]. rewrite N.eqb_refl. reflexivity. Qed.
Lemma node_get_upd s h f : node_get (node_upd s h f) h = match node_get s h with Some a => Some (f a) | None => None end.
Proof. unfold node_upd. destruct (node_get s h) eqn:E; [apply node_get_set|exact E]. Qed.
Lemma node_get_fr s s' h : nodes s' = nodes s -> node_get s' h = node_get s h.
Proof. intros A. unfold node_get. rewrite A. reflexivity. Qed.

Lemma srv_setattr_nochange s h p o cur new :
  plain (fs s) p o -> na_perm new = na_perm cur -> na_uid new = na_uid cur -> na_gid new = na_gid cur ->
  na_atime new = 0 -> na_mtime new = 0 ->
  srv_setattr s h p cur new = (ac_invalidate (node_set (logc s (bc BStat p)) h new) p, Ok tt).
Proof.
  intros P E1 E2 E3 E4 E5. unfold srv_setattr, do_stat. rewrite (be_stat_plain _ _ _ true P).
  rewrite E1, E2, E3, E4, E5, !N.eqb_refl. reflexivity.
Qed.

Lemma handle_setattr_size_eq s c h p na o sa sz :
  lookup_node s h = Some (p, na) -> na_kind na <> KLink -> plain_file (fs s) p o ->
  ro (conf s) = false -> size_only sa sz -> sz < two63N -> no_fbig_size s sz ->
  exists s' a prea,
    handle_setattr s c h sa None = (s', ob_mk st_ok [sf a] [wcc_of prea] None [] []) /\
    fs s' = fs_upd (fs s) p (trunc_f sz (now s)).
Proof.
  intros L Hk [P K] Hro (Hmode & Huid & Hgid & Hsize & Hat & Hmt) H63 Hm.
  unfold handle_setattr. rewrite Hro, Hmode, L, (not_link _ Hk).
  ga s1 pre F1 V1. rewrite (be_stat_plain _ _ _ false P) in V1. subst pre.
  destruct F1 as (F1f & F1c & F1h & F1n & F1t & F1s).
  rewrite Hsize. replace (two63N <=? sz) with false by lia. rewrite F1c.
  replace ((0 <? maxfile (conf s)) && (maxfile (conf s) <? sz)) with false by (unfold no_fbig_size in Hm; lia).
  rewrite F1f, F1t, (be_truncate_plain _ _ o) by (auto; lia). rewrite N2Z.id. fold (trunc_f sz (now s)).
  assert (P1 : plain (fs_upd (fs s) p (trunc_f sz (now s))) p (trunc_f sz (now s) o)).
  { pose proof (plain_upd (fs s) p o p (trunc_f sz (now s))) as X. rewrite path_eqb_refl in X.
    apply X; [|exact P]. intros x. split; reflexivity. }
  set (fs1 := fs_upd (fs s) p (trunc_f sz (now s))) in *.
  cbn [fst snd fs hm nodes ac dc conf now blog logc with_fs with_ac ac_invalidate lift_unit do_stat].
  rewrite (be_stat_plain _ _ _ true P1). cbn [fst snd].
  rewrite node_get_upd.
  match goal with |- context [node_get ?st h] => replace (node_get st h) with (Some na) end.
  2:{ symmetry. transitivity (node_get s1 h); [apply node_get_fr; reflexivity|].
      rewrite (node_get_fr s s1 h F1n). apply (lookup_node_some _ _ _ _ L). }
  rewrite Huid, Hgid, Hmt, Hat. cbn [na_kind na_perm na_size na_fileid na_uid na_gid na_mtime na_atime].
  rewrite (srv_setattr_nochange _ _ _ (trunc_f sz (now s) o)); try reflexivity.
  2:{ rewrite node_upd_fs. exact P1. }
  ga s6 post F6 V6. cbn [fs hm nodes ac dc conf now blog logc with_fs with_ac ac_invalidate node_set with_nodes] in V6.
  rewrite node_upd_fs in V6. cbn [fs hm nodes ac dc conf now blog logc with_fs with_ac ac_invalidate] in V6.
  rewrite (be_stat_plain _ _ _ false P1) in V6. subst post.
  destruct F6 as (F6f & _).
  cbn [fs hm nodes ac dc conf now blog logc with_fs with_ac ac_invalidate node_set with_nodes] in F6f.
  rewrite node_upd_fs in F6f. cbn [fs hm nodes ac dc conf now blog logc with_fs with_ac ac_invalidate] in F6f.
  eexists _, _, _. split; [reflexivity|exact F6f].
Qed.

Lemma handle_setattr_size_ok s c h p na o sa sz :
  lookup_node s h = Some (p, na) -> na_kind na <> KLink -> plain_file (fs s) p o ->
  ro (conf s) = false -> size_only sa sz -> sz < two63N -> no_fbig_size s sz ->
  let r := handle_setattr s c h sa None in
  ob_rpc (snd r) = 0 /\ ob_status (snd r) = 0 /\
  (exists o', fs_get (fs (fst r)) p = Some o' /\ o_kind o' = KFile /\
              o_perm o' = o_perm o /\ o_uid o' = o_uid o /\ o_gid o' = o_gid o /\
              bf_eq (file_of o') (spec_trunc (file_of o) sz)) /\
  (forall p', p' <> p -> fs_get (fs (fst r)) p' = fs_get (fs s) p').
Proof.
  intros L Hk PK Hro Hsa H63 Hm. cbv zeta.
  destruct (handle_setattr_size_eq s c h p na o sa sz L Hk PK Hro Hsa H63 Hm) as (s' & a & prea & E & Ef).
  destruct PK as [P K]. rewrite E. cbn [fst snd ob_mk ob_rpc ob_status]. splits; try reflexivity.
  - exists (trunc_f sz (now s) o). rewrite Ef, fs_get_upd, (plain_get _ _ _ P), path_eqb_refl.
    splits; try reflexivity; try exact K. apply (sd_trunc_spec (o_data o) (o_size o) sz).
  - intros p' Hp. rewrite Ef, fs_get_upd_other by exact Hp. reflexivity.
Qed.


(* ====================================================================================================== *)
(* 5. MaxFileSize (C25)                                                                                   *)
(* ====================================================================================================== *)
Lemma handle_write_fbig s h off cnt stable data :
  0 < maxfile (conf s) -> ro (conf s) = false -> 0 < cnt -> cnt = N.of_nat (length data) -> cnt <= tsize (conf s) ->
  off + cnt < two64 -> maxfile (conf s) < off + cnt ->
  handle_write s h off cnt stable data = (s, fail_wcc NFSERR_FBIG).
Proof.
  intros Hm Hro H0 Hc Ht H64 Hbig. unfold handle_write. rewrite Hro.
  replace (two64 - 1 - cnt <? off) with false by (unfold two64 in *; lia).
  replace (negb (cnt =? N.of_nat (length data))) with false by lia.
  replace (tsize (conf s) <? cnt) with false by lia.
  replace ((0 <? maxfile (conf s)) && (0 <? cnt) && ((maxfile (conf s) <? off) || (maxfile (conf s) - off <? cnt)))
    with true by lia.
  reflexivity.
Qed.

(* SETATTR(size): the two rejections of the size, before anything is changed *)
(* a symbolic-link handle: INVAL before anything else, the state is returned untouched *)
Lemma handle_setattr_link s c h p na sa guard :
  ro (conf s) = false -> match s_mode sa with Some m => N.testbit m 15 | None => false end = false ->
  lookup_node s h = Some (p, na) -> na_kind na = KLink ->
  handle_setattr s c h sa guard = (s, fail_wcc NFSERR_INVAL).
Proof. intros Hro Hmode L Hk. unfold handle_setattr. rewrite Hro, Hmode, L, Hk. reflexivity. Qed.

Lemma handle_setattr_size_reject s c h p na fi sa sz :
  lookup_node s h = Some (p, na) -> na_kind na <> KLink -> be_stat (fs s) p false = Ok fi -> ro (conf s) = false ->
  match s_mode sa with Some m => N.testbit m 15 | None => false end = false ->
  s_size sa = Some sz ->
  let r := handle_setattr s c h sa None in
  (two63N <= sz -> ob_rpc (snd r) = 0 /\ ob_status (snd r) = NFSERR_INVAL /\ RO s (fst r)) /\
  (sz < two63N -> 0 < maxfile (conf s) -> maxfile (conf s) < sz ->
     ob_rpc (snd r) = 0 /\ ob_status (snd r) = NFSERR_FBIG /\ RO s (fst r)).
Proof.
  intros L Hk St Hro Hmode Hsize. cbv zeta. unfold handle_setattr. rewrite Hro, Hmode, L, (not_link _ Hk).
  ga s1 pre F1 V1. rewrite St in V1. subst pre. rewrite Hsize.
  apply Fr_RO in F1. assert (F1c : conf s1 = conf s) by apply F1. rewrite F1c.
  split.
  - intros H. replace (two63N <=? sz) with true by lia.
    cbn [fst snd fail_wcc ob_mk ob_rpc ob_status]. splits; try reflexivity. exact F1.
  - intros H1 H2 H3. replace (two63N <=? sz) with false by lia.
    replace ((0 <? maxfile (conf s)) && (maxfile (conf s) <? sz)) with true by lia.
    cbn [fst snd fail_wcc ob_mk ob_rpc ob_status]. splits; try reflexivity. exact F1.
Qed.

(* UNCHECKED CREATE over an existing regular file with a size beyond the limit *)
Lemma failed_reply_spec s h d st dpre :
  ob_rpc (snd (failed_reply s h d st dpre)) = 0 /\ ob_status (snd (failed_reply s h d st dpre)) = st /\
  Fr s (fst (failed_reply s h d st dpre)).
Proof. unfold failed_reply. ga s1 x F V. cbn. auto. Qed.

Lemma handle_create_fbig s c h d dattr n sa sz dfi fi :
  ro (conf s) = false -> validate_name n = st_ok ->
  validate_mode (match s_mode sa with Some m => m | None => 420 end) = st_ok ->
  lookup_node s h = Some (d, dattr) -> na_kind dattr = KDir ->
  be_stat (fs s) d false = Ok dfi -> be_stat (fs s) (d ++ [n]) false = Ok fi -> fi_kind fi = KFile ->
  s_size sa = Some sz -> sz < two63N -> 0 < maxfile (conf s) -> maxfile (conf s) < sz ->
  let r := handle_create s c h n 0 sa in
  ob_rpc (snd r) = 0 /\ ob_status (snd r) = NFSERR_FBIG /\ RO s (fst r).
Proof.
  intros Hro Hn Hmode L Kd Sd Sp Kf Hsize H63 Hm Hbig. cbv zeta. unfold handle_create.
  rewrite Hro, Hn. cbn [N.eqb orb negb]. change (0 =? 0) with true. cbn [orb].
  rewrite Hmode, L, Kd. cbn [kind_eqb negb N.eqb].
  ga s1 pre F1 V1. rewrite Sd in V1. subst pre.
  unfold do_lstat. destruct F1 as (F1f & F1c & F1r). rewrite F1f, Sp, Kf. cbn [kind_eqb negb orb].
  change (0 =? 2) with false. change (0 =? 1) with false. cbn [orb].
  rewrite Hsize. replace (two63N <=? sz) with false by lia.
  cbn [conf logc]. rewrite F1c.
  replace ((0 <? maxfile (conf s)) && (maxfile (conf s) <? sz)) with true by lia.
  cbn [fst snd].
  match goal with |- context [failed_reply ?a ?b ?c ?d ?e] => destruct (failed_reply_spec a b c d e) as (A1 & A2 & A3) end.
  splits; [exact A1|exact A2|].
  apply Fr_RO in A3. eapply RO_trans; [|exact A3].
  eapply RO_trans; [|apply RO_logc; reflexivity]. unfold RO. tauto.
Qed.

(* ---------- no file grows beyond max(old size, limit) ---------- *)
Definition szle (M : N) (o o' : obj) : Prop := o_size o' <= o_size o \/ o_size o' <= M.
Definition UO (M : N) (a b : fsmap) : Prop := upd_only (szle M) a b.
Lemma szle_refl M o : szle M o o. Proof. left. lia. Qed.
Lemma UO_refl M a : UO M a a. Proof. apply upd_only_refl, szle_refl. Qed.
Lemma UO_trans M a b c : UO M a b -> UO M b c -> UO M a c.
Proof. apply upd_only_trans. unfold szle. intros x y z _ _ A B. lia. Qed.
Lemma UO_eq M a b : b = a -> UO M a b. Proof. intros ->. apply UO_refl. Qed.
Lemma UO_meta M fs p fl a b c d : UO M fs (fst (be_meta fs p fl (fun o => set_meta o (a o) (b o) (c o) (d o)))).
Proof. apply be_meta_upd_only; [apply szle_refl|]. intros o. split; [reflexivity|left; cbn [o_size set_meta]; lia]. Qed.
Lemma UO_sync M fs q : UO M fs (be_sync fs q).
Proof. apply be_sync_upd_only; [apply szle_refl|]. intros o. left. cbn [o_size sync_obj]. lia. Qed.
Lemma UO_writeat M fs q off bs t : (bs = [] \/ off + N.of_nat (length bs) <= M) ->
  UO M fs (fst (be_writeat fs q (Z.of_N off) bs t)).
Proof.
  intros H. apply be_writeat_upd_only; [apply szle_refl|]. intros o d _ _. unfold szle. cbn [o_size set_data].
  rewrite N2Z.id. destruct H as [->|H]; [left; lia|]. destruct bs; lia.
Qed.
Lemma UO_truncate M fs p sz t : sz <= M -> UO M fs (fst (be_truncate fs p (Z.of_N sz) t)).
Proof.
  intros H. apply be_truncate_upd_only; [apply szle_refl|]. intros o d _. right. cbn [o_size set_data]. lia.
Qed.

(* the rename-proof reading of UO used in the theorems *)
Lemma UO_spec M a b : UO M a b ->
  forall p o', fs_get b p = Some o' -> o_kind o' = KFile ->
  o_size o' <= M \/ exists o, fs_get a p = Some o /\ o_kind o = KFile /\ o_size o' <= o_size o.
Proof.
  intros H p o' G K. specialize (H p). rewrite G in H. destruct H as (o & A & B & [C|C]); [right|left; exact C].
  exists o. splits; [exact A|congruence|exact C].
Qed.

Lemma handle_write_bound s h off cnt stable data :
  0 < maxfile (conf s) -> UO (maxfile (conf s)) (fs s) (fs (fst (handle_write s h off cnt stable data))).
Proof.
  intros Hm. unfold handle_write.
  destruct (ro (conf s)); [apply UO_refl|].
  destruct (two64 - 1 - cnt <? off); [apply UO_refl|].
  destruct (negb (cnt =? N.of_nat (length data))) eqn:Hc; [apply UO_refl|].
  destruct (tsize (conf s) <? cnt); [apply UO_refl|].
  destruct ((0 <? maxfile (conf s)) && (0 <? cnt) && ((maxfile (conf s) <? off) || (maxfile (conf s) - off <? cnt))) eqn:G;
    [apply UO_refl|].
  destruct (lookup_node s h) as [[p na]|]; [|apply UO_refl].
  destruct (kind_eqb (na_kind na) KLink); [apply UO_refl|].
  ga s1 pre F1 V1. destruct F1 as (F1f & _). destruct pre as [prea|e]; [|apply UO_eq; exact F1f].
  destruct (two63N <=? off).
  { ga s2 post F2 V2. destruct F2 as (F2f & _). apply UO_eq. cbn [fst]. congruence. }
  cbn [fs logc now]. destruct (be_open (fs s1) p true) as [q|e].
  2:{ ga s2 post F2 V2. destruct F2 as (F2f & _). apply UO_eq. cbn [fst]. rewrite F2f. exact F1f. }
  assert (W : UO (maxfile (conf s)) (fs s) (fst (be_writeat (fs s1) q (Z.of_N off) data (now s1)))).
  { rewrite F1f. apply UO_writeat. destruct data; [left; reflexivity|right]. cbn [length] in *. lia. }
  destruct (be_writeat (fs s1) q (Z.of_N off) data (now s1)) as [fs1 [n|e]]; cbn [fst snd] in *.
  2:{ ga s2 post F2 V2. destruct F2 as (F2f & _). cbn [fst]. rewrite F2f. exact W. }
  cbn [fst snd fs hm nodes ac dc conf now blog logc with_fs with_ac ac_invalidate lift_unit do_stat].
  ga s9 post F9 V9. destruct F9 as (F9f & _).
  assert (E : fs s9 = fst (be_chtimes (be_sync fs1 q) p (now s1))).
  { rewrite F9f. destruct (be_stat _ p true); [rewrite node_upd_fs|]; reflexivity. }
  apply UO_trans with fs1; [exact W|]. apply UO_trans with (be_sync fs1 q); [apply UO_sync|].
  destruct post; cbn [fst]; rewrite E; apply UO_meta.
Qed.

Lemma srv_setattr_uo M s h p cur new : UO M (fs s) (fs (fst (srv_setattr s h p cur new))).
Proof.
  unfold srv_setattr, do_stat. destruct (be_stat (fs s) p true) as [fi|e]; [|apply UO_refl].
  cbv zeta. set (s1 := logc s (bc BStat p)).
  set (r2 := if na_perm new =? na_perm cur then (s1, Ok tt) else lift_unit s1 _ _).
  assert (U2 : UO M (fs s) (fs (fst r2))).
  { subst r2. destruct (na_perm new =? na_perm cur); cbn [fst lift_unit logc with_fs fs]; [apply UO_refl|].
    unfold be_chmod. apply UO_meta. }
  clearbody r2. destruct r2 as [s2 [u|e]]; cbn [fst snd] in *; [|exact U2].
  set (r3 := if (na_uid new =? na_uid cur) && (na_gid new =? na_gid cur) then (s2, Ok tt) else lift_unit s2 _ _).
  assert (U3 : UO M (fs s) (fs (fst r3))).
  { subst r3. destruct ((na_uid new =? na_uid cur) && (na_gid new =? na_gid cur)); cbn [fst lift_unit logc with_fs fs]; [exact U2|].
    eapply UO_trans; [exact U2|]. unfold be_chown. apply UO_meta. }
  clearbody r3. destruct r3 as [s3 [u3|e]]; cbn [fst snd] in *; [|exact U3].
  match goal with |- context [if ?c then lift_unit s3 ?a ?b else (s3, Ok tt)] =>
    set (r4 := if c then lift_unit s3 a b else (s3, Ok tt)) end.
  assert (U4 : UO M (fs s) (fs (fst r4))).
  { subst r4. match goal with |- context [if ?c then _ else (s3, Ok tt)] => destruct c end;
      cbn [fst lift_unit logc with_fs fs]; [|exact U3].
    destruct (na_mtime new =? 0); cbn [fst]; [exact U3|].
    eapply UO_trans; [exact U3|]. unfold be_chtimes. apply UO_meta. }
  clearbody r4. destruct r4 as [s4 [u4|e]]; cbn [fst snd] in *; [|exact U4].
  exact U4.
Qed.

Lemma handle_setattr_bound s c h sa guard :
  0 < maxfile (conf s) -> UO (maxfile (conf s)) (fs s) (fs (fst (handle_setattr s c h sa guard))).
Proof.
  intros Hm. unfold handle_setattr.
  destruct (ro (conf s)); [apply UO_refl|].
  destruct (match s_mode sa with Some m => N.testbit m 15 | None => false end); [apply UO_refl|].
  destruct (lookup_node s h) as [[p na]|]; [|apply UO_refl].
  destruct (kind_eqb (na_kind na) KLink); [apply UO_refl|].
  ga s1 pre F1 V1. destruct F1 as (F1f & F1c & _). destruct pre as [prea|e]; [|apply UO_eq; exact F1f].
  match goal with |- context [if ?c then (s1, fail_wcc NFSERR_NOT_SYNC) else _] => destruct c end; [apply UO_eq; exact F1f|].
  match goal with |- context [match snd ?x with Some _ => _ | None => _ end] => set (rs := x) end.
  assert (U : UO (maxfile (conf s)) (fs s) (fs (fst rs))).
  { subst rs. destruct (s_size sa) as [sz|]; [|apply UO_eq; exact F1f].
    destruct (two63N <=? sz); [apply UO_eq; exact F1f|].
    rewrite F1c. destruct ((0 <? maxfile (conf s)) && (maxfile (conf s) <? sz)) eqn:G; [apply UO_eq; exact F1f|].
    assert (T : UO (maxfile (conf s)) (fs s) (fst (be_truncate (fs s1) p (Z.of_N sz) (now s1)))).
    { rewrite F1f. apply UO_truncate. lia. }
    destruct (be_truncate (fs s1) p (Z.of_N sz) (now s1)) as [fs1 [u|e]]; cbn [fst snd lift_unit] in *; [|exact T].
    unfold do_stat. cbn [fst snd fs logc with_fs ac_invalidate with_ac].
    destruct (be_stat fs1 p true); cbn [fst]; [rewrite node_upd_fs|]; exact T. }
  clearbody rs. destruct rs as [s4 [e|]]; cbn [fst snd] in *; [exact U|].
  destruct (node_get s4 h) as [cur|]; [|exact U].
  match goal with |- context [srv_setattr s4 h p cur ?new] =>
    pose proof (srv_setattr_uo (maxfile (conf s)) s4 h p cur new) as S5; destruct (srv_setattr s4 h p cur new) as [s5 [u|e]] end;
    cbn [fst] in *.
  - ga s6 post F6 V6. destruct F6 as (F6f & _).
    apply UO_trans with (fs s4); [exact U|]. destruct post; cbn [fst]; rewrite F6f; exact S5.
  - apply UO_trans with (fs s4); [exact U|exact S5].
Qed.

(* ---------- within the limit, the limit is invisible ---------- *)
(* the same state with MaxFileSize switched off *)
Definition mf0 (s : srv) : srv := with_conf s (set_maxfile (conf s) 0).

Lemma fs_mf0 s : fs (mf0 s) = fs s. Proof. reflexivity. Qed.
Lemma now_mf0 s : now (mf0 s) = now s. Proof. reflexivity. Qed.
Lemma ro_mf0 s : ro (conf (mf0 s)) = ro (conf s). Proof. reflexivity. Qed.
Lemma tsize_mf0 s : tsize (conf (mf0 s)) = tsize (conf s). Proof. reflexivity. Qed.
Lemma maxfile_mf0 s : maxfile (conf (mf0 s)) = 0. Proof. reflexivity. Qed.
Lemma logc_mf0 s c : logc (mf0 s) c = mf0 (logc s c). Proof. reflexivity. Qed.
Lemma with_fs_mf0 s f : with_fs (mf0 s) f = mf0 (with_fs s f). Proof. reflexivity. Qed.
Lemma ac_invalidate_mf0 s p : ac_invalidate (mf0 s) p = mf0 (ac_invalidate s p). Proof. reflexivity. Qed.
Lemma node_get_mf0 s h : node_get (mf0 s) h = node_get s h. Proof. reflexivity. Qed.
Lemma node_set_mf0 s h a : node_set (mf0 s) h a = mf0 (node_set s h a). Proof. reflexivity. Qed.
Lemma node_upd_mf0 s h f : node_upd (mf0 s) h f = mf0 (node_upd s h f).
Proof. unfold node_upd. rewrite node_get_mf0. destruct (node_get s h); reflexivity. Qed.
Lemma lookup_node_mf0 s h : lookup_node (mf0 s) h = lookup_node s h. Proof. reflexivity. Qed.
Lemma lift_unit_mf0 s c r : lift_unit (mf0 s) c r = (mf0 (fst (lift_unit s c r)), snd (lift_unit s c r)).
Proof. reflexivity. Qed.
Lemma do_stat_mf0 s p : do_stat (mf0 s) p = (mf0 (fst (do_stat s p)), snd (do_stat s p)). Proof. reflexivity. Qed.
Lemma do_lstat_mf0 s p : do_lstat (mf0 s) p = (mf0 (fst (do_lstat s p)), snd (do_lstat s p)). Proof. reflexivity. Qed.
Lemma ac_get_mf0 s p : ac_get (mf0 s) p = (mf0 (fst (ac_get s p)), snd (ac_get s p)).
Proof.
  unfold ac_get. change (ac (mf0 s)) with (ac s). rewrite now_mf0.
  destruct (ac_find (ac s) p) as [e|]; [|reflexivity].
  destruct (now s <? ac_expire e); [reflexivity|]. destruct (ac_expire e <? now s); reflexivity.
Qed.
Lemma ac_put_mf0 s p a : ac_put (mf0 s) p a = mf0 (ac_put s p a). Proof. reflexivity. Qed.
Lemma srv_getattr_mf0 s p u g : srv_getattr (mf0 s) p u g = (mf0 (fst (srv_getattr s p u g)), snd (srv_getattr s p u g)).
Proof.
  unfold srv_getattr. rewrite ac_get_mf0. destruct (ac_get s p) as [s1 x]. cbn [fst snd].
  rewrite do_lstat_mf0. destruct (do_lstat s1 p) as [s2 [fi|e]]; cbn [fst snd]; [rewrite ac_put_mf0|]; reflexivity.
Qed.
Lemma getattr_h_mf0 s h p : getattr_h (mf0 s) h p = (mf0 (fst (getattr_h s h p)), snd (getattr_h s h p)).
Proof. unfold getattr_h. rewrite node_get_mf0. destruct (node_get s h); apply srv_getattr_mf0. Qed.

Ltac push :=
  repeat first [ rewrite logc_mf0 | rewrite with_fs_mf0 | rewrite ac_invalidate_mf0 | rewrite node_set_mf0
               | rewrite node_upd_mf0 | rewrite fs_mf0 | rewrite now_mf0 ].
Ltac norm := cbn [fst snd fs now logc with_fs ac_invalidate with_ac lift_unit do_stat]; push.

Lemma handle_write_sim s h off cnt stable data : no_fbig_write s off cnt ->
  handle_write (mf0 s) h off cnt stable data =
  (mf0 (fst (handle_write s h off cnt stable data)), snd (handle_write s h off cnt stable data)).
Proof.
  intros Hm. unfold handle_write. rewrite ro_mf0, tsize_mf0, maxfile_mf0.
  replace ((0 <? maxfile (conf s)) && (0 <? cnt) && ((maxfile (conf s) <? off) || (maxfile (conf s) - off <? cnt)))
    with false by (unfold no_fbig_write in Hm; lia).
  change (0 <? 0) with false. cbn [andb].
  destruct (ro (conf s)); [reflexivity|].
  destruct (two64 - 1 - cnt <? off); [reflexivity|].
  destruct (negb (cnt =? N.of_nat (length data))); [reflexivity|].
  destruct (tsize (conf s) <? cnt); [reflexivity|].
  rewrite lookup_node_mf0. destruct (lookup_node s h) as [[p na]|]; [|reflexivity].
  destruct (kind_eqb (na_kind na) KLink); [reflexivity|].
  rewrite getattr_h_mf0. destruct (getattr_h s h p) as [s1 [prea|e]]; cbn [fst snd]; [|reflexivity].
  destruct (two63N <=? off).
  { rewrite getattr_h_mf0. destruct (getattr_h s1 h p) as [s2 post]. reflexivity. }
  norm. destruct (be_open (fs s1) p true) as [q|e].
  2:{ rewrite getattr_h_mf0. destruct (getattr_h _ h p) as [s2 post]. reflexivity. }
  destruct (be_writeat (fs s1) q (Z.of_N off) data (now s1)) as [fs1 [n|e]]; norm.
  2:{ rewrite getattr_h_mf0. destruct (getattr_h _ h p) as [s2 post]. reflexivity. }
  destruct (be_stat (fst (be_chtimes (be_sync fs1 q) p (now s1))) p true) as [fi|e]; norm;
  rewrite getattr_h_mf0; destruct (getattr_h _ h p) as [s9 [a|e2]]; reflexivity.
Qed.

Lemma srv_setattr_mf0 s h p cur new :
  srv_setattr (mf0 s) h p cur new = (mf0 (fst (srv_setattr s h p cur new)), snd (srv_setattr s h p cur new)).
Proof.
  unfold srv_setattr. rewrite do_stat_mf0. destruct (do_stat s p) as [s1 [fi|e]]; cbn [fst snd]; [|reflexivity].
  cbv zeta.
  destruct (na_perm new =? na_perm cur); norm.
  2: destruct (be_chmod (fs s1) p (na_perm new)) as [f2 [u2|e2]]; norm; [|reflexivity].

  all: destruct ((na_uid new =? na_uid cur) && (na_gid new =? na_gid cur)); norm.
  all: try (match goal with |- context [be_chown ?f ?q ?u ?g] => destruct (be_chown f q u g) as [f3 [u3|e3]] end; norm; [|reflexivity]).
  all: match goal with |- context [if ?c then _ else _] => destruct c end; norm; try reflexivity.
  all: destruct (na_mtime new =? 0); norm.
  all: try (match goal with |- context [be_stat ?f ?q true] => destruct (be_stat f q true) end; norm; reflexivity).
  all: match goal with |- context [be_chtimes ?f ?q ?t] => destruct (be_chtimes f q t) as [f4 [u4|e4]] end; norm; reflexivity.
Qed.

Lemma node_upd_now s h f : now (node_upd s h f) = now s.
Proof. unfold node_upd. destruct (node_get s h); reflexivity. Qed.
Ltac sa_tail :=
  rewrite node_get_mf0; rewrite ?node_upd_now; cbn [now logc with_fs ac_invalidate with_ac];
  match goal with |- context [node_get ?X ?h] => destruct (node_get X h) as [cur|] end; [|reflexivity];
  rewrite srv_setattr_mf0;
  match goal with |- context [srv_setattr ?X ?h ?p ?c ?n] => destruct (srv_setattr X h p c n) as [s5 [u5|e5]] end;
  cbn [fst snd]; [|reflexivity];
  rewrite getattr_h_mf0;
  match goal with |- context [getattr_h ?X ?h ?p] => destruct (getattr_h X h p) as [s6 [a6|e6]] end; reflexivity.

Definition no_fbig_sattr (s : srv) (sa : sattr) : Prop :=
  forall sz, s_size sa = Some sz -> maxfile (conf s) = 0 \/ sz <= maxfile (conf s) \/ two63N <= sz.

Lemma handle_setattr_sim s c h sa guard : no_fbig_sattr s sa ->
  handle_setattr (mf0 s) c h sa guard =
  (mf0 (fst (handle_setattr s c h sa guard)), snd (handle_setattr s c h sa guard)).
Proof.
  intros Hm. unfold handle_setattr. rewrite ro_mf0.
  destruct (ro (conf s)); [reflexivity|].
  destruct (match s_mode sa with Some m => N.testbit m 15 | None => false end); [reflexivity|].
  rewrite lookup_node_mf0. destruct (lookup_node s h) as [[p na]|]; [|reflexivity].
  destruct (kind_eqb (na_kind na) KLink); [reflexivity|].
  pose proof (getattr_h_fr s h p) as (_ & F1c & _).
  rewrite getattr_h_mf0. destruct (getattr_h s h p) as [s1 [prea|e]]; cbn [fst snd] in *; [|reflexivity].
  match goal with |- context [if ?c then (mf0 s1, fail_wcc NFSERR_NOT_SYNC) else _] => destruct c end; [reflexivity|].
  rewrite maxfile_mf0. change (0 <? 0) with false. cbn [andb].
  destruct (s_size sa) as [sz|] eqn:Hsz.
  - destruct (two63N <=? sz) eqn:E63; [reflexivity|].
    rewrite F1c. replace ((0 <? maxfile (conf s)) && (maxfile (conf s) <? sz)) with false by (specialize (Hm sz Hsz); lia).
    norm. destruct (be_truncate (fs s1) p (Z.of_N sz) (now s1)) as [f1 [u|e]]; norm; [|reflexivity].
    destruct (be_stat f1 p true) as [fi|e]; norm; sa_tail.
  - norm. sa_tail.
Qed.

(* ====================================================================================================== *)
(* 6. CREATE of a new name                                                                                *)
(* ====================================================================================================== *)
Lemma ac_find_remove l p : ac_find (ac_remove l p) p = None.
Proof.
  unfold ac_find, ac_remove. induction l as [|a l IH]; cbn [filter find]; [reflexivity|].
  destruct (path_eqb p (ac_path a)) eqn:E; cbn [negb find]; [exact IH|rewrite E; exact IH].
Qed.
Lemma ac_find_filter_none f l p : ac_find l p = None -> ac_find (filter f l) p = None.
Proof.
  unfold ac_find. induction l as [|a l IH]; cbn [filter find]; [reflexivity|].
  destruct (path_eqb p (ac_path a)) eqn:E; [discriminate|]. intros H.
  destruct (f a); cbn [find]; [rewrite E|]; apply IH, H.
Qed.
Lemma invalidate_for_new_fr s d p : Fr s (invalidate_for_new s d p) /\ ac_find (ac (invalidate_for_new s d p)) p = None.
Proof.
  unfold invalidate_for_new, dc_invalidate.
  match goal with |- context [if ?c then _ else _] => destruct c end;
  cbn [ac with_dc ac_invalidate ac_invalidate_tree with_ac];
  (split; [unfold Fr; cbn; tauto|apply ac_find_filter_none, ac_find_remove]).
Qed.
(* Lookup right after the invalidation: an Lstat *)
Lemma srv_lookup_miss s p : ac_find (ac s) p = None ->
  snd (srv_lookup s p) = match be_stat (fs s) p false with Ok fi => Ok (attrs_of_info fi (fileid_of p) 0 0) | Err e => Err e end.
Proof.
  intros H. unfold srv_lookup, ac_get. rewrite H. unfold do_lstat.
  destruct (be_stat (fs s) p false) as [fi|e]; [reflexivity|]. destruct e; reflexivity.
Qed.

Definition chmod_f (m : N) (o : obj) : obj := set_meta o (N.land m 511) (o_uid o) (o_gid o) (o_mtime o).
Definition chown_f (u g : N) (o : obj) : obj := set_meta o (o_perm o) u g (o_mtime o).

Lemma srv_create_new s d od n perm uid gid :
  ro (conf s) = false -> sanitize_ok d n = true -> plain (fs s) d od -> absent (fs s) d n ->
  let r := srv_create s d n perm uid gid in
  let fs' := fs_upd (fs_upd (created_fs (fs s) d n (now s)) (d ++ [n]) (chmod_f (N.land perm 511))) (d ++ [n]) (chown_f uid gid) in
  (exists a, snd r = Ok a) /\ fs (fst r) = fs' /\
  plain fs' (d ++ [n]) (chown_f uid gid (chmod_f (N.land perm 511) (mk_file 438 (now s)))) /\
  plain fs' d (touch_f (now s) od).
Proof.
  intros Hro Hs Pd Ab. cbv zeta. unfold srv_create. rewrite Hro, Hs. cbn [negb].
  rewrite (be_create_absent _ _ _ _ Ab). cbn [fst snd fs logc with_fs lift_unit].
  pose proof (created_plain_new _ _ _ (now s) Ab) as P0.
  pose proof (created_plain_old _ _ _ (now s) d od Ab Pd) as D0. rewrite path_eqb_refl in D0.
  set (fsA := created_fs (fs s) d n (now s)) in *.
  rewrite (be_chmod_plain _ _ _ _ P0). cbn [fst snd fs logc with_fs lift_unit]. fold (chmod_f (N.land perm 511)).
  assert (K1 : keeps_shape (chmod_f (N.land perm 511))) by (intros x; split; reflexivity).
  pose proof (plain_upd fsA _ _ (d ++ [n]) _ K1 P0) as P1. rewrite path_eqb_refl in P1.
  pose proof (plain_upd fsA _ _ (d ++ [n]) _ K1 D0) as D1.
  replace (path_eqb d (d ++ [n])) with false in D1 by (symmetry; apply path_eqb_neq; intros X; symmetry in X; revert X; apply app_one_neq).
  set (fsB := fs_upd fsA (d ++ [n]) (chmod_f (N.land perm 511))) in *.
  rewrite (be_chown_plain _ _ _ _ _ P1). cbn [fst snd fs logc with_fs lift_unit]. fold (chown_f uid gid).
  assert (K2 : keeps_shape (chown_f uid gid)) by (intros x; split; reflexivity).
  pose proof (plain_upd fsB _ _ (d ++ [n]) _ K2 P1) as P2. rewrite path_eqb_refl in P2.
  pose proof (plain_upd fsB _ _ (d ++ [n]) _ K2 D1) as D2.
  replace (path_eqb d (d ++ [n])) with false in D2 by (symmetry; apply path_eqb_neq; intros X; symmetry in X; revert X; apply app_one_neq).
  set (fsC := fs_upd fsB (d ++ [n]) (chown_f uid gid)) in *.
  match goal with |- context [srv_lookup (invalidate_for_new ?X d ?p) ?p] =>
    destruct (invalidate_for_new_fr X d p) as ((If & _) & Ia);
    pose proof (srv_lookup_miss _ _ Ia) as V; pose proof (srv_lookup_ro (invalidate_for_new X d p) p) as (Rf & _)
  end.
  cbn [fs logc with_fs] in If. rewrite If in V. rewrite Rf, If.
  rewrite (be_stat_plain _ _ _ false P2) in V.
  splits; [eexists; exact V|reflexivity|exact P2|exact D2].
Qed.

Lemma handle_create_new s c h d dattr od n how sa :
  ro (conf s) = false -> validate_name n = st_ok -> sanitize_ok d n = true -> (how = 0 \/ how = 1) ->
  validate_mode (match s_mode sa with Some m => m | None => 420 end) = st_ok ->
  lookup_node s h = Some (d, dattr) -> na_kind dattr = KDir -> plain_dir (fs s) d od -> absent (fs s) d n ->
  let r := handle_create s c h n how sa in
  ob_rpc (snd r) = 0 /\ ob_status (snd r) = 0 /\
  (exists o', fs_get (fs (fst r)) (d ++ [n]) = Some o' /\ o_kind o' = KFile /\ o_size o' = 0 /\ o_data o' = [] /\
              bf_eq (file_of o') empty_file) /\
  fs_get (fs (fst r)) d = Some (touch_f (now s) od) /\
  (forall q, q <> d ++ [n] -> q <> d -> fs_get (fs (fst r)) q = fs_get (fs s) q).
Proof.
  intros Hro Hn Hs Hhow Hmode L Kd [Pd Kod] Ab. cbv zeta. unfold handle_create.
  rewrite Hro, Hn. change (negb (st_ok =? st_ok)) with false. cbv iota.
  replace ((how =? 0) || (how =? 1)) with true by lia. replace (how =? 2) with false by lia.
  rewrite Hmode. change (negb (st_ok =? st_ok)) with false. cbv iota.
  rewrite L, Kd. cbn [kind_eqb negb].
  ga s1 pre F1 V1. rewrite (be_stat_plain _ _ _ false Pd) in V1. subst pre.
  destruct F1 as (F1f & F1c & F1h & F1n & F1t & F1s).
  assert (St : be_stat (fs s) (d ++ [n]) false = Err ENOENT) by (unfold be_stat; rewrite Ab; reflexivity).
  unfold do_lstat. rewrite F1f, St. cbv beta iota.
  match goal with |- context [srv_create ?X d n ?m ?u ?g] =>
    pose proof (srv_create_new X d od n m u g) as SC; cbv zeta in SC;
    destruct (srv_create X d n m u g) as [s3 r3]
  end.
  cbn [fs conf now logc fst snd] in SC. rewrite F1f, F1c, F1t in SC.
  destruct (SC Hro Hs Pd Ab) as ((a & ->) & Ef & Pn & Pdd). clear SC.
  unfold created_reply.
  ga s4 dpost F4 V4. rewrite Ef, (be_stat_plain _ _ _ false Pdd) in V4. subst dpost.
  destruct F4 as (F4f & _).
  match goal with |- context [alloc s4 ?p ?x] => pose proof (alloc_ro s4 p x) as (Af & _); destruct (alloc s4 p x) as [s5 fh] end.
  cbn [fst snd ob_mk ob_rpc ob_status] in *. rewrite Af, F4f, Ef.
  splits; try reflexivity.
  - eexists. split; [apply (plain_get _ _ _ Pn)|]. splits; try reflexivity. apply bf_eq_refl.
  - apply (plain_get _ _ _ Pdd).
  - intros q Q1 Q2. rewrite !fs_get_upd_other by exact Q1.
    rewrite created_fs_get by (apply (missing_get _ _ _ _ Ab)).
    apply path_eqb_neq in Q1, Q2. rewrite Q1, Q2. destruct (fs_get (fs s) q); reflexivity.
Qed.

(* ====================================================================================================== *)
(* 7. the same at the level of [step] (the backend log starts empty)                                      *)
(* ====================================================================================================== *)
Lemma step_read s c h off cnt : step s c (RRead h off cnt) = handle_read (clear_log s) h off cnt.
Proof. reflexivity. Qed.
Lemma step_write s c h off cnt st data : step s c (RWrite h off cnt st data) = handle_write (clear_log s) h off cnt st data.
Proof. reflexivity. Qed.
Lemma step_setattr s c h sa g : step s c (RSetattr h sa g) = handle_setattr (clear_log s) c h sa g.
Proof. reflexivity. Qed.
Lemma RO_clear_safe s s' : RO (clear_log s) s' -> fs s' = fs s /\ (forall b, In b (blog s') -> mutating b = false).
Proof. intros (A & _ & B). split; [exact A|]. apply B. intros b []. Qed.

Lemma step_write_fbig s c h off cnt stable data :
  0 < maxfile (conf s) -> ro (conf s) = false -> 0 < cnt -> cnt = N.of_nat (length data) -> cnt <= tsize (conf s) ->
  off + cnt < two64 -> maxfile (conf s) < off + cnt ->
  let r := step s c (RWrite h off cnt stable data) in
  ob_rpc (snd r) = 0 /\ ob_status (snd r) = NFSERR_FBIG /\ fs (fst r) = fs s /\ blog (fst r) = [].
Proof.
  intros Hm Hro H0 Hc Ht H64 Hbig. cbv zeta. rewrite step_write, (handle_write_fbig (clear_log s)) by assumption.
  cbn [fst snd fail_wcc ob_mk ob_rpc ob_status fs blog clear_log]. auto.
Qed.
Lemma step_setattr_fbig s c h p na fi sa sz :
  lookup_node s h = Some (p, na) -> na_kind na <> KLink -> be_stat (fs s) p false = Ok fi -> ro (conf s) = false ->
  match s_mode sa with Some m => N.testbit m 15 | None => false end = false ->
  s_size sa = Some sz -> sz < two63N -> 0 < maxfile (conf s) -> maxfile (conf s) < sz ->
  let r := step s c (RSetattr h sa None) in
  ob_rpc (snd r) = 0 /\ ob_status (snd r) = NFSERR_FBIG /\ fs (fst r) = fs s /\
  (forall b, In b (blog (fst r)) -> mutating b = false).
Proof.
  intros L Hk St Hro Hmode Hsz H63 Hm Hbig. cbv zeta. rewrite step_setattr.
  destruct (handle_setattr_size_reject (clear_log s) c h p na fi sa sz L Hk St Hro Hmode Hsz) as (_ & X).
  destruct (X H63 Hm Hbig) as (A & B & C). apply RO_clear_safe in C. tauto.
Qed.
Lemma step_create_fbig s c h d dattr n sa sz dfi fi :
  ro (conf s) = false -> validate_name n = st_ok -> str_ok n = true ->
  validate_mode (match s_mode sa with Some m => m | None => 420 end) = st_ok ->
  lookup_node s h = Some (d, dattr) -> na_kind dattr = KDir ->
  be_stat (fs s) d false = Ok dfi -> be_stat (fs s) (d ++ [n]) false = Ok fi -> fi_kind fi = KFile ->
  s_size sa = Some sz -> sz < two63N -> 0 < maxfile (conf s) -> maxfile (conf s) < sz ->
  let r := step s c (RCreate h n 0 sa) in
  ob_rpc (snd r) = 0 /\ ob_status (snd r) = NFSERR_FBIG /\ fs (fst r) = fs s /\
  (forall b, In b (blog (fst r)) -> mutating b = false).
Proof.
  intros Hro Hn Hstr Hmode L Kd Sd Sp Kf Hsz H63 Hm Hbig. cbv zeta.
  unfold step. cbn [garbage_reply]. rewrite Hstr.
  destruct (handle_create_fbig (clear_log s) c h d dattr n sa sz dfi fi Hro Hn Hmode L Kd Sd Sp Kf Hsz H63 Hm Hbig) as (A & B & C).
  apply RO_clear_safe in C. tauto.
Qed.

(* the two halves of [handle_setattr_size_reject], and the rename-proof reading of the bounds *)
Lemma handle_setattr_size_inval s c h p na fi sa sz :
  lookup_node s h = Some (p, na) -> na_kind na <> KLink -> be_stat (fs s) p false = Ok fi -> ro (conf s) = false ->
  match s_mode sa with Some m => N.testbit m 15 | None => false end = false ->
  s_size sa = Some sz -> two63N <= sz ->
  let r := handle_setattr s c h sa None in
  ob_rpc (snd r) = 0 /\ ob_status (snd r) = NFSERR_INVAL /\ RO s (fst r).
Proof. intros L Hk St Hro Hm Hs. exact (proj1 (handle_setattr_size_reject s c h p na fi sa sz L Hk St Hro Hm Hs)). Qed.

Lemma handle_write_bound_spec s h off cnt stable data : 0 < maxfile (conf s) ->
  forall p o', fs_get (fs (fst (handle_write s h off cnt stable data))) p = Some o' -> o_kind o' = KFile ->
  o_size o' <= maxfile (conf s) \/ exists o, fs_get (fs s) p = Some o /\ o_kind o = KFile /\ o_size o' <= o_size o.
Proof. intros Hm. apply UO_spec, handle_write_bound, Hm. Qed.
Lemma handle_setattr_bound_spec s c h sa guard : 0 < maxfile (conf s) ->
  forall p o', fs_get (fs (fst (handle_setattr s c h sa guard))) p = Some o' -> o_kind o' = KFile ->
  o_size o' <= maxfile (conf s) \/ exists o, fs_get (fs s) p = Some o /\ o_kind o = KFile /\ o_size o' <= o_size o.
Proof. intros Hm. apply UO_spec, handle_setattr_bound, Hm. Qed.
(* and these two procedures never add, remove or move an object *)
Lemma handle_write_keys s h off cnt stable data : 0 < maxfile (conf s) ->
  forall p, fs_get (fs (fst (handle_write s h off cnt stable data))) p = None <-> fs_get (fs s) p = None.
Proof.
  intros Hm p. pose proof (handle_write_bound s h off cnt stable data Hm p) as H.
  destruct (fs_get (fs (fst (handle_write s h off cnt stable data))) p) as [o'|].
  - destruct H as (o & A & _). rewrite A. split; discriminate.
  - rewrite H. tauto.
Qed.
Lemma handle_setattr_keys s c h sa guard : 0 < maxfile (conf s) ->
  forall p, fs_get (fs (fst (handle_setattr s c h sa guard))) p = None <-> fs_get (fs s) p = None.
Proof.
  intros Hm p. pose proof (handle_setattr_bound s c h sa guard Hm p) as H.
  destruct (fs_get (fs (fst (handle_setattr s c h sa guard))) p) as [o'|].
  - destruct H as (o & A & _). rewrite A. split; discriminate.
  - rewrite H. tauto.
Qed.

(* ====================================================================================================== *)
(* 8. histories of READ / WRITE / SETATTR(size): the model refines the byte-array specification           *)
(* ====================================================================================================== *)
(* what these three procedures keep: the handle table, the configuration, the clock; nodes are only updated *)
Definition Keep (s s' : srv) : Prop :=
  hm s' = hm s /\ conf s' = conf s /\ now s' = now s /\
  (forall h a, node_get s h = Some a -> exists a', node_get s' h = Some a' /\ na_kind a' = na_kind a).
Lemma Keep_refl s : Keep s s. Proof. unfold Keep; splits; eauto. Qed.
Lemma Keep_trans a b c : Keep a b -> Keep b c -> Keep a c.
Proof.
  unfold Keep. intros (A1 & A2 & A3 & A4) (B1 & B2 & B3 & B4). splits; try congruence.
  intros h x Hx. destruct (A4 h x Hx) as (y & Hy & Ky). destruct (B4 h y Hy) as (z & Hz & Kz). exists z. split; congruence.
Qed.
Lemma Keep_same a b : hm b = hm a -> conf b = conf a -> now b = now a -> nodes b = nodes a -> Keep a b.
Proof. intros A B C D. unfold Keep. splits; auto. intros h x. unfold node_get. rewrite D. eauto. Qed.
Lemma Keep_Fr a b : Fr a b -> Keep a b.
Proof. intros (_ & A & B & C & D & _). apply Keep_same; auto. Qed.
Lemma node_get_set_other s h a h' : h <> h' -> node_get (node_set s h a) h' = node_get s h'.
Proof.
  intros Hn. unfold node_get, node_set. cbn [nodes with_nodes find fst].
  replace (h =? h') with false by lia.
  induction (nodes s) as [|x l IH]; [reflexivity|]. cbn [find filter].
  destruct (fst x =? h) eqn:X; cbn [negb find].
  - replace (fst x =? h') with false by lia. exact IH.
  - destruct (fst x =? h'); [reflexivity|exact IH].
Qed.
Lemma Keep_node_set s h a : (forall a0, node_get s h = Some a0 -> na_kind a = na_kind a0) -> Keep s (node_set s h a).
Proof.
  intros Hk. unfold Keep. splits; try reflexivity. intros h' x Hx.
  destruct (N.eq_dec h h') as [<-|Hn].
  - exists a. split; [apply node_get_set|apply Hk; exact Hx].
  - exists x. split; [rewrite node_get_set_other by exact Hn; exact Hx|reflexivity].
Qed.
Lemma Keep_node_upd s h f : (forall a, na_kind (f a) = na_kind a) -> Keep s (node_upd s h f).
Proof.
  intros Hf. unfold node_upd. destruct (node_get s h) as [a|] eqn:E; [|apply Keep_refl].
  apply Keep_node_set. intros a0 H0. rewrite E in H0. injection H0 as <-. apply Hf.
Qed.
Lemma srv_setattr_keep s h p cur new : node_get s h = Some cur -> na_kind new = na_kind cur ->
  Keep s (fst (srv_setattr s h p cur new)).
Proof.
  intros Hcur Hkind.
  unfold srv_setattr, do_stat. destruct (be_stat (fs s) p true) as [fi|e]; [|apply Keep_same; reflexivity].
  cbv zeta. set (s1 := logc s (bc BStat p)).
  assert (K1 : Keep s s1) by (apply Keep_same; reflexivity).
  set (r2 := if na_perm new =? na_perm cur then (s1, Ok tt) else lift_unit s1 _ _).
  assert (U2 : Keep s (fst r2)).
  { subst r2. destruct (na_perm new =? na_perm cur); [exact K1|]. eapply Keep_trans; [exact K1|apply Keep_same; reflexivity]. }
  clearbody r2. destruct r2 as [s2 [u|e]]; cbn [fst snd] in *; [|exact U2].
  set (r3 := if (na_uid new =? na_uid cur) && (na_gid new =? na_gid cur) then (s2, Ok tt) else lift_unit s2 _ _).
  assert (U3 : Keep s (fst r3)).
  { subst r3. destruct ((na_uid new =? na_uid cur) && (na_gid new =? na_gid cur)); [exact U2|].
    eapply Keep_trans; [exact U2|apply Keep_same; reflexivity]. }
  clearbody r3. destruct r3 as [s3 [u3|e]]; cbn [fst snd] in *; [|exact U3].
  match goal with |- context [if ?c then lift_unit s3 ?a ?b else (s3, Ok tt)] =>
    set (r4 := if c then lift_unit s3 a b else (s3, Ok tt)) end.
  assert (U4 : Keep s (fst r4)).
  { subst r4. match goal with |- context [if ?c then _ else (s3, Ok tt)] => destruct c end; [|exact U3].
    eapply Keep_trans; [exact U3|apply Keep_same; reflexivity]. }
  clearbody r4. destruct r4 as [s4 [u4|e]]; cbn [fst snd] in *; [|exact U4].
  eapply Keep_trans; [exact U4|]. eapply Keep_trans; [apply Keep_node_set|apply Keep_same; reflexivity].
  intros a0 H0. destruct U4 as (_ & _ & _ & U4). destruct (U4 h cur Hcur) as (a' & A1 & A2). congruence.
Qed.

Lemma handle_read_keep s h off cnt : Keep s (fst (handle_read s h off cnt)).
Proof.
  unfold handle_read.
  destruct (two64 - 1 - cnt <? off); [apply Keep_refl|].
  destruct (lookup_node s h) as [[p na]|]; [|apply Keep_refl].
  destruct (kind_eqb (na_kind na) KLink); [apply Keep_refl|].
  destruct (two63N <=? off); [apply Keep_refl|].
  set (s1 := logc s (bc BOpenR p)). assert (K1 : Keep s s1) by (apply Keep_same; reflexivity).
  destruct (be_open (fs s1) p false) as [q|e]; [|exact K1].
  destruct (fs_get (fs s1) q) as [o|]; [|exact K1].
  match goal with |- context [match snd ?x with Ok _ => _ | Err _ => _ end] => set (r := x) end.
  assert (Kr : Keep s (fst r)).
  { subst r. destruct (stat_size o <=? off); [exact K1|]. eapply Keep_trans; [exact K1|apply Keep_same; reflexivity]. }
  clearbody r. destruct r as [s2 [dat|e]]; cbn [fst snd] in *; [|exact Kr].
  ga s3 x F V. apply Keep_Fr in F. destruct x; cbn [fst]; eapply Keep_trans; eassumption.
Qed.

Lemma handle_write_keep s h off cnt stable data : Keep s (fst (handle_write s h off cnt stable data)).
Proof.
  unfold handle_write.
  destruct (ro (conf s)); [apply Keep_refl|].
  destruct (two64 - 1 - cnt <? off); [apply Keep_refl|].
  destruct (negb (cnt =? N.of_nat (length data))); [apply Keep_refl|].
  destruct (tsize (conf s) <? cnt); [apply Keep_refl|].
  match goal with |- context [if ?c then (s, fail_wcc NFSERR_FBIG) else _] => destruct c end; [apply Keep_refl|].
  destruct (lookup_node s h) as [[p na]|]; [|apply Keep_refl].
  destruct (kind_eqb (na_kind na) KLink); [apply Keep_refl|].
  ga s1 pre F1 V1. apply Keep_Fr in F1. destruct pre as [prea|e]; [|exact F1].
  destruct (two63N <=? off).
  { ga s2 post F2 V2. apply Keep_Fr in F2. cbn [fst]. eapply Keep_trans; eassumption. }
  set (s2 := logc s1 (bc BOpenW p)). assert (K2 : Keep s s2) by (eapply Keep_trans; [exact F1|apply Keep_same; reflexivity]).
  destruct (be_open (fs s2) p true) as [q|e].
  2:{ ga s3 post F3 V3. apply Keep_Fr in F3. cbn [fst]. eapply Keep_trans; eassumption. }
  cbv zeta.
  match goal with |- context [logc (with_fs s2 ?f) ?c] => set (s3 := logc (with_fs s2 f) c) end.
  assert (K3 : Keep s s3) by (eapply Keep_trans; [exact K2|apply Keep_same; reflexivity]).
  match goal with |- context [match snd ?w with Ok _ => _ | Err _ => _ end] => destruct (snd w) as [n|e] end.
  2:{ ga s4 post F4 V4. apply Keep_Fr in F4. cbn [fst]. eapply Keep_trans; eassumption. }
  unfold do_stat. cbn [fst snd lift_unit].
  match goal with |- context [getattr_h ?X h p] => assert (K8 : Keep s X) end.
  { match goal with |- context [match ?sti with Ok _ => node_upd ?Y _ _ | Err _ => _ end] =>
      assert (KY : Keep s Y) by (eapply Keep_trans; [exact K3|apply Keep_same; reflexivity]); destruct sti end;
    [eapply Keep_trans; [exact KY|apply Keep_node_upd; intros x; reflexivity]|exact KY]. }
  ga s9 post F9 V9. apply Keep_Fr in F9. destruct post; cbn [fst]; eapply Keep_trans; eassumption.
Qed.

Lemma handle_setattr_keep s c h sa guard : Keep s (fst (handle_setattr s c h sa guard)).
Proof.
  unfold handle_setattr.
  destruct (ro (conf s)); [apply Keep_refl|].
  destruct (match s_mode sa with Some m => N.testbit m 15 | None => false end); [apply Keep_refl|].
  destruct (lookup_node s h) as [[p na]|]; [|apply Keep_refl].
  destruct (kind_eqb (na_kind na) KLink); [apply Keep_refl|].
  ga s1 pre F1 V1. apply Keep_Fr in F1. destruct pre as [prea|e]; [|exact F1].
  match goal with |- context [if ?c then (s1, fail_wcc NFSERR_NOT_SYNC) else _] => destruct c end; [exact F1|].
  match goal with |- context [match snd ?x with Some _ => _ | None => _ end] => set (rs := x) end.
  assert (U : Keep s (fst rs)).
  { subst rs. destruct (s_size sa) as [sz|]; [|exact F1].
    destruct (two63N <=? sz); [exact F1|].
    match goal with |- context [if ?c then (s1, Some NFSERR_FBIG) else _] => destruct c end; [exact F1|].
    match goal with |- context [match snd ?r with Ok _ => _ | Err _ => _ end] =>
      assert (Kr : Keep s (fst r)) by (eapply Keep_trans; [exact F1|apply Keep_same; reflexivity]); destruct (snd r) end;
    [|exact Kr].
    unfold do_stat. cbn [fst snd].
    match goal with |- context [match ?sti with Ok _ => node_upd ?Y _ _ | Err _ => _ end] =>
      assert (KY : Keep s Y) by (eapply Keep_trans; [exact Kr|apply Keep_same; reflexivity]); destruct sti end;
    [eapply Keep_trans; [exact KY|apply Keep_node_upd; intros x; reflexivity]|exact KY]. }
  clearbody rs. destruct rs as [s4 [e|]]; cbn [fst snd] in *; [exact U|].
  destruct (node_get s4 h) as [cur|] eqn:Ecur; [|exact U].
  match goal with |- context [srv_setattr s4 h p cur ?new] =>
    pose proof (srv_setattr_keep s4 h p cur new Ecur eq_refl) as S5; destruct (srv_setattr s4 h p cur new) as [s5 [u|e]] end;
    cbn [fst] in *.
  - ga s6 post F6 V6. apply Keep_Fr in F6.
    apply Keep_trans with s4; [exact U|]. apply Keep_trans with s5; [exact S5|]. destruct post; exact F6.
  - apply Keep_trans with s4; [exact U|exact S5].
Qed.

(* ---------- the abstraction ---------- *)
(* the byte-array state: the files the history is about, by path *)
Definition sfiles := path -> option bfile.
Definition supd (m : sfiles) (p : path) (f : bfile) : sfiles := fun q => if path_eqb q p then Some f else m q.
(* every file of the specification state is a plain regular file of the tree with the same size and bytes *)
Definition Abs (s : srv) (m : sfiles) : Prop :=
  forall p f, m p = Some f -> exists o, plain_file (fs s) p o /\ bf_eq (file_of o) f.
(* every handle has its node; no duplicate keys; writable; no size limit *)
Definition Good (s : srv) : Prop :=
  nodup_keys (fs s) /\ ro (conf s) = false /\ maxfile (conf s) = 0 /\
  (forall h, get (hm s) h <> None -> node_get s h <> None).

Lemma Good_keep s s' : Good s -> Keep s s' -> nodup_keys (fs s') -> Good s'.
Proof.
  intros (A & B & C & D) (K1 & K2 & K3 & K4) N. unfold Good. rewrite K1, K2. splits; auto.
  intros h Hh. specialize (D h Hh). destruct (node_get s h) as [a|] eqn:E; [|congruence].
  destruct (K4 h a E) as (a' & -> & _). discriminate.
Qed.
(* the handles of the specification's files carry nodes that are not symbolic links (READ, WRITE and SETATTR
   refuse symlink handles); the three procedures never change the kind recorded in a node *)
Definition Reg (s : srv) (m : sfiles) : Prop :=
  forall h p a, get (hm s) h = Some p -> m p <> None -> node_get s h = Some a -> na_kind a <> KLink.
Lemma Reg_keep s s' m p f : Keep s s' -> Good s -> Reg s m -> m p <> None -> Reg s' (supd m p f).
Proof.
  intros (K1 & _ & _ & K4) (_ & _ & _ & G) R Hp h q a' Hh Hq Ha. rewrite K1 in Hh.
  assert (Hq' : m q <> None).
  { unfold supd in Hq. destruct (path_eqb q p) eqn:E; [apply path_eqb_eq in E; subst q; exact Hp|exact Hq]. }
  destruct (node_get s h) as [a|] eqn:Ea.
  - destruct (K4 h a Ea) as (a2 & A1 & A2). rewrite Ha in A1. injection A1 as <-. rewrite A2. apply (R h q a Hh Hq' Ea).
  - exfalso. apply (G h); [congruence|exact Ea].
Qed.
Lemma lookup_node_good s h p : Good s -> get (hm s) h = Some p -> exists na, lookup_node s h = Some (p, na).
Proof.
  intros (_ & _ & _ & G) H. unfold lookup_node. rewrite H.
  destruct (node_get s h) as [na|] eqn:E; [eauto|]. exfalso. apply (G h); congruence.
Qed.

(* the data requests and their specification *)
Inductive dreq := DRead (h off cnt : N) | DWrite (h off stable : N) (data : list N) | DTrunc (h sz : N).
Definition size_sattr (sz : N) : sattr :=
  {| s_mode := None; s_uid := None; s_gid := None; s_size := Some sz; s_atime := 0; s_atime_v := 0; s_mtime := 0; s_mtime_v := 0 |}.
Definition req_of (d : dreq) : req :=
  match d with
  | DRead h off cnt => RRead h off cnt
  | DWrite h off st data => RWrite h off (N.of_nat (length data)) st data
  | DTrunc h sz => RSetattr h (size_sattr sz) None
  end.
Definition dreq_handle (d : dreq) : N := match d with DRead h _ _ | DWrite h _ _ _ | DTrunc h _ => h end.
(* the inputs the specification covers (the others are the *_guard lemmas) *)
Definition dreq_valid (ts : N) (d : dreq) : Prop :=
  match d with
  | DRead _ off cnt => off + cnt < two64 /\ off < two63N
  | DWrite _ off _ data => N.of_nat (length data) <= ts /\ off + N.of_nat (length data) < two63N
  | DTrunc _ sz => sz < two63N
  end.
Definition spec_next (f : bfile) (d : dreq) : bfile :=
  match d with
  | DRead _ _ _ => f
  | DWrite _ off _ data => spec_write f off data (N.of_nat (length data))
  | DTrunc _ sz => spec_trunc f sz
  end.
(* what the reply must be *)
Definition spec_reply (ts : N) (f : bfile) (d : dreq) (o : obs) : Prop :=
  ob_rpc o = 0 /\ ob_status o = 0 /\
  match d with
  | DRead _ off cnt =>
      let count := if bf_size f <=? off then 0 else N.min (N.min cnt ts) (bf_size f - off) in
      ob_nums o = [count] /\ ob_bytes o = spec_read f off count /\ ob_eof o = (bf_size f <=? off + count)
  | DWrite _ _ _ data => ob_nums o = [N.of_nat (length data); 2]
  | DTrunc _ _ => True
  end.

Lemma Abs_upd3 s s' m p o f' g1 g2 g3 :
  keeps_shape g1 -> keeps_shape g2 -> keeps_shape g3 ->
  fs s' = fs_upd (fs_upd (fs_upd (fs s) p g1) p g2) p g3 ->
  Abs s m -> plain_file (fs s) p o -> bf_eq (file_of (g3 (g2 (g1 o)))) f' -> Abs s' (supd m p f').
Proof.
  intros K1 K2 K3 E A [P K] B q f. unfold supd. destruct (path_eqb q p) eqn:Q.
  - intros [= <-]. apply path_eqb_eq in Q. subst q. exists (g3 (g2 (g1 o))). split; [|exact B].
    split.
    + rewrite E. pose proof (plain_upd _ _ _ p g3 K3 (plain_upd _ _ _ p g2 K2 (plain_upd _ _ _ p g1 K1 P))) as X.
      rewrite !path_eqb_refl in X. exact X.
    + destruct (K3 (g2 (g1 o))) as [-> _]. destruct (K2 (g1 o)) as [-> _]. destruct (K1 o) as [-> _]. exact K.
  - intros H. destruct (A q f H) as (oq & [Pq Kq] & Bq). exists oq. split; [|exact Bq]. split; [|exact Kq].
    rewrite E. pose proof (plain_upd _ _ _ p g3 K3 (plain_upd _ _ _ p g2 K2 (plain_upd _ _ _ p g1 K1 Pq))) as X.
    rewrite !Q in X. exact X.
Qed.

Lemma Abs_upd1 s s' m p o f' g :
  keeps_shape g -> fs s' = fs_upd (fs s) p g ->
  Abs s m -> plain_file (fs s) p o -> bf_eq (file_of (g o)) f' -> Abs s' (supd m p f').
Proof.
  intros K1 E A [P K] B q f. unfold supd. destruct (path_eqb q p) eqn:Q.
  - intros [= <-]. apply path_eqb_eq in Q. subst q. exists (g o). split; [|exact B]. split.
    + rewrite E. pose proof (plain_upd _ _ _ p g K1 P) as X. rewrite path_eqb_refl in X. exact X.
    + destruct (K1 o) as [-> _]. exact K.
  - intros H. destruct (A q f H) as (oq & [Pq Kq] & Bq). exists oq. split; [|exact Bq]. split; [|exact Kq].
    rewrite E. pose proof (plain_upd _ _ _ p g K1 Pq) as X. rewrite Q in X. exact X.
Qed.
Lemma Abs_same s s' m p f : fs s' = fs s -> Abs s m -> m p = Some f -> Abs s' (supd m p f).
Proof.
  intros E A H q g. unfold supd. rewrite E. destruct (path_eqb q p) eqn:Q; [|apply A].
  apply path_eqb_eq in Q. subst q. intros [= <-]. apply A. exact H.
Qed.

Lemma spec_write_ext f g off data n : bf_eq f g -> bf_eq (spec_write f off data n) (spec_write g off data n).
Proof.
  intros [A B]. split; cbn [spec_write bf_size bf_at]; [rewrite A; reflexivity|].
  intros i. rewrite B. reflexivity.
Qed.
Lemma spec_trunc_ext f g sz : bf_eq f g -> bf_eq (spec_trunc f sz) (spec_trunc g sz).
Proof. intros [A B]. split; [reflexivity|]. intros i. cbn [spec_trunc bf_at]. rewrite B. reflexivity. Qed.
Lemma written_file o off data t t2 : o_kind o = KFile ->
  bf_eq (file_of (mtime_f t2 (sync_f (written o off data t)))) (spec_write (file_of o) off data (N.of_nat (length data))).
Proof.
  intros K. assert (K1 : o_kind (written o off data t) = KFile) by exact K.
  unfold sync_f. rewrite K1. unfold file_of, mtime_f, sync_obj, written. cbn [o_size o_data set_meta set_data].
  rewrite N2Z.id. apply (sd_write_spec (o_data o) (o_size o) off data).
Qed.

Lemma data_step_refines s c m d p f :
  Good s -> Abs s m -> Reg s m -> get (hm s) (dreq_handle d) = Some p -> m p = Some f -> dreq_valid (tsize (conf s)) d ->
  let r := step s c (req_of d) in
  spec_reply (tsize (conf s)) f d (snd r) /\ Abs (fst r) (supd m p (spec_next f d)) /\ Good (fst r) /\ Keep s (fst r).
Proof.
  intros G A Rg Hh Hm V. cbv zeta.
  destruct (lookup_node_good s _ p G Hh) as (na & L).
  assert (Hk : na_kind na <> KLink).
  { apply (Rg _ p na Hh); [congruence|]. apply (lookup_node_some _ _ _ _ L). }
  destruct (A p f Hm) as (o & PK & B).
  assert (Kc : Keep s (clear_log s)) by (apply Keep_same; reflexivity).
  destruct G as (ND & Hro & Hmax & Hn).
  destruct d as [h off cnt|h off st data|h sz]; cbn [req_of dreq_handle dreq_valid spec_next] in *.
  - (* READ *)
    rewrite step_read. destruct V as [V1 V2].
    pose proof (handle_read_ok (clear_log s) h p na o off cnt L Hk PK V1 V2) as R. cbv zeta in R.
    destruct R as (R1 & R2 & R3 & R4 & R5 & R6f & _).
    pose proof (handle_read_keep (clear_log s) h off cnt) as K.
    destruct B as [Bs Bb]. cbn [file_of bf_size] in Bs.
    splits.
    + unfold spec_reply. splits; auto; unfold read_count in *; cbn [conf clear_log] in *; rewrite <- Bs.
      * exact R3.
      * rewrite R4. apply spec_read_ext. split; [exact Bs|exact Bb].
      * exact R5.
    + apply (Abs_same s); [exact R6f|exact A|exact Hm].
    + apply (Good_keep s); [unfold Good; auto|apply Keep_trans with (clear_log s); [exact Kc|exact K]|]. rewrite R6f. exact ND.
    + apply Keep_trans with (clear_log s); [exact Kc|exact K].
  - (* WRITE *)
    rewrite step_write. destruct V as [V1 V2].
    assert (NF : no_fbig_write (clear_log s) off (N.of_nat (length data))) by (left; exact Hmax).
    destruct (handle_write_eq (clear_log s) h p na o off _ st data L Hk PK ND Hro eq_refl V1 V2 NF) as (s' & a & prea & E & Ef).
    pose proof (handle_write_keep (clear_log s) h off (N.of_nat (length data)) st data) as K.
    rewrite E in *. cbn [fst snd] in *. cbn [fs now clear_log] in Ef.
    splits.
    + unfold spec_reply. cbn. auto.
    + eapply (Abs_upd3 s s' m p o); [| | |exact Ef|exact A|exact PK|].
      * intros x; split; reflexivity.
      * apply keeps_shape_sync.
      * intros x; split; reflexivity.
      * eapply bf_eq_trans; [apply written_file; apply PK|apply spec_write_ext; exact B].
    + apply (Good_keep s); [unfold Good; auto|apply Keep_trans with (clear_log s); [exact Kc|exact K]|]. rewrite Ef.
      repeat apply nodup_keys_upd. exact ND.
    + apply Keep_trans with (clear_log s); [exact Kc|exact K].
  - (* SETATTR(size) *)
    rewrite step_setattr.
    assert (SO : size_only (size_sattr sz) sz) by (unfold size_only; cbn; repeat split; reflexivity).
    assert (NF : no_fbig_size (clear_log s) sz) by (left; exact Hmax).
    destruct (handle_setattr_size_eq (clear_log s) c h p na o _ sz L Hk PK Hro SO V NF) as (s' & a & prea & E & Ef).
    pose proof (handle_setattr_keep (clear_log s) c h (size_sattr sz) None) as K.
    rewrite E in *. cbn [fst snd] in *. cbn [fs now clear_log] in Ef.
    splits.
    + unfold spec_reply. cbn. auto.
    + eapply (Abs_upd1 s s' m p o); [|exact Ef|exact A|exact PK|].
      * intros x; split; reflexivity.
      * eapply bf_eq_trans; [apply (sd_trunc_spec (o_data o) (o_size o) sz)|apply spec_trunc_ext; exact B].
    + apply (Good_keep s); [unfold Good; auto|apply Keep_trans with (clear_log s); [exact Kc|exact K]|]. rewrite Ef.
      apply nodup_keys_upd. exact ND.
    + apply Keep_trans with (clear_log s); [exact Kc|exact K].
Qed.

(* ---------- histories ---------- *)
Record dstep := { d_adv : N; d_cred : cred; d_req : dreq }.
Definition hstep_of (x : dstep) : hstep := {| hs_adv := d_adv x; hs_cred := d_cred x; hs_req := req_of (d_req x) |}.
(* run the model and the specification side by side: every reply is the specified one and the abstraction holds
   after every step ([hp]: the path a handle denotes; [ts]: the transfer size) *)
Fixpoint refines (ts : N) (hp : N -> option path) (s : srv) (m : sfiles) (l : list dstep) : Prop :=
  match l with
  | [] => True
  | x :: r =>
    match hp (dreq_handle (d_req x)) with
    | Some p =>
      match m p with
      | Some f =>
        let so := hrun1 s (hstep_of x) in
        let m' := supd m p (spec_next f (d_req x)) in
        spec_reply ts f (d_req x) (snd so) /\ Abs (fst so) m' /\ refines ts hp (fst so) m' r
      | None => False
      end
    | None => False
    end
  end.
(* the histories covered: valid inputs on handles of files the specification state knows *)
Definition covered (ts : N) (hp : N -> option path) (m : sfiles) (l : list dstep) : Prop :=
  forall x, In x l -> dreq_valid ts (d_req x) /\ exists p, hp (dreq_handle (d_req x)) = Some p /\ m p <> None.

Lemma covered_supd ts hp m l p f : covered ts hp m l -> covered ts hp (supd m p f) l.
Proof.
  intros C x Hx. destruct (C x Hx) as (V & q & A & B). split; [exact V|]. exists q. split; [exact A|].
  unfold supd. destruct (path_eqb q p); [discriminate|exact B].
Qed.

Lemma history_refines : forall l s m,
  Good s -> Abs s m -> Reg s m -> covered (tsize (conf s)) (get (hm s)) m l ->
  refines (tsize (conf s)) (get (hm s)) s m l.
Proof.
  induction l as [|x r IH]; intros s m G A Rg C; [exact I|].
  cbn [refines]. destruct (C x (or_introl eq_refl)) as (V & p & Hp & Hm). rewrite Hp.
  destruct (m p) as [f|] eqn:Ef; [|congruence]. cbv zeta.
  unfold hrun1. set (s0 := with_now s (now s + hs_adv (hstep_of x))).
  assert (G0 : Good s0) by exact G. assert (A0 : Abs s0 m) by exact A. assert (Rg0 : Reg s0 m) by exact Rg.
  pose proof (data_step_refines s0 (d_cred x) m (d_req x) p f G0 A0 Rg0 Hp Ef V) as (R1 & R2 & R3 & K).
  assert (Rg1 : Reg (fst (step s0 (d_cred x) (req_of (d_req x)))) (supd m p (spec_next f (d_req x)))).
  { apply (Reg_keep s0); [exact K|exact G0|exact Rg0|congruence]. }
  destruct K as (K1 & K2 & _).
  cbn [hstep_of hs_cred hs_req]. split; [exact R1|]. split; [exact R2|].
  change (hm s0) with (hm s) in K1. change (conf s0) with (conf s) in K2.
  rewrite <- K1, <- K2. apply IH; [exact R3|exact R2|exact Rg1|]. rewrite K1, K2.
  apply covered_supd. intros y Hy. apply C. right. exact Hy.
Qed.

(* an executable check of the handle/node part of [Good], for concrete states *)
Lemma assocH_in {P} h (l : list (N * P)) p : assocH h l = Some p -> In (h, p) l.
Proof.
  induction l as [|[k q] r IH]; cbn [assocH]; [discriminate|].
  destruct (k =? h) eqn:E; [|intros H; right; apply IH; exact H].
  apply N.eqb_eq in E. intros [= ->]. left. congruence.
Qed.
Lemma live_check s :
  forallb (fun e => match node_get s (fst e) with Some _ => true | None => false end) (handles (hm s)) = true ->
  forall h, get (hm s) h <> None -> node_get s h <> None.
Proof.
  intros H h G. unfold get in G. destruct (assocH h (handles (hm s))) as [p|] eqn:E; [|congruence].
  apply assocH_in in E. rewrite forallb_forall in H. specialize (H _ E). cbn [fst] in H.
  destruct (node_get s h); [discriminate|discriminate].
Qed.

(* an executable check of [Reg], for concrete states *)
Lemma reg_check s (m : sfiles) :
  forallb (fun e => match m (snd e), node_get s (fst e) with
                    | Some _, Some a => negb (kind_eqb (na_kind a) KLink) | _, _ => true end) (handles (hm s)) = true ->
  Reg s m.
Proof.
  intros H h p a Hh Hp Ha. unfold get in Hh. apply assocH_in in Hh. rewrite forallb_forall in H. specialize (H _ Hh).
  cbn [fst snd] in H. rewrite Ha in H. destruct (m p); [|congruence]. intros E. rewrite E in H. discriminate.
Qed.

(* ====================================================================================================== *)
(* 9. durability (C22): acknowledged FILE_SYNC data survives a crash                                      *)
(* ====================================================================================================== *)
Definition FILE_SYNC : N := 2.     (* RFC 1813 stable_how: UNSTABLE = 0, DATA_SYNC = 1, FILE_SYNC = 2 *)

Lemma handle_write_durable s h p na o off cnt stable data :
  lookup_node s h = Some (p, na) -> na_kind na <> KLink -> plain_file (fs s) p o -> nodup_keys (fs s) ->
  ro (conf s) = false -> cnt = N.of_nat (length data) -> cnt <= tsize (conf s) ->
  off + cnt < two63N -> no_fbig_write s off cnt ->
  let r := handle_write s h off cnt stable data in
  ob_status (snd r) = 0 /\ ob_nums (snd r) = [cnt; FILE_SYNC] /\
  (exists oc, fs_get (be_crash (fs (fst r))) p = Some oc /\ o_kind oc = KFile /\
              o_perm oc = o_perm o /\ o_uid oc = o_uid o /\ o_gid oc = o_gid o /\
              bf_eq (file_of oc) (spec_write (file_of o) off data cnt)) /\
  (forall p', p' <> p -> fs_get (be_crash (fs (fst r))) p' = fs_get (be_crash (fs s)) p').
Proof.
  intros L Hk PK ND Hro Hc Ht H63 Hm. cbv zeta.
  destruct (handle_write_ok s h p na o off cnt stable data L Hk PK ND Hro Hc Ht H63 Hm) as (_ & A & B & (o' & C1 & C2 & C3 & C4 & C5 & C6 & C7) & D).
  splits; [exact A|exact B| |].
  - exists (crash_obj o'). rewrite fs_get_crash, C1, C2. splits; try reflexivity; try assumption.
    eapply bf_eq_trans; [exact C7|exact C6].
  - intros p' Hp. rewrite !fs_get_crash, (D p' Hp). reflexivity.
Qed.

Lemma map_error_nonzero e : map_error e <> 0.
Proof. destruct e; vm_compute; discriminate. Qed.
Ltac nonzero :=
  cbn [snd fail_wcc ob_mk ob_status]; intros H; exfalso; revert H;
  first [apply map_error_nonzero | vm_compute; discriminate].

(* COMMIT never touches the tree, the configuration, or issues a mutating backend call; it answers OK exactly
   with the attributes GetAttr returns *)
Lemma handle_commit_spec s h :
  let r := handle_commit s h in
  RO s (fst r) /\
  (ob_status (snd r) = 0 -> exists p na a, lookup_node s h = Some (p, na) /\ snd (getattr_h s h p) = Ok a /\
                                      snd r = ob_mk st_ok [sf a] [wcc_of a] None [] []).
Proof.
  cbv zeta. unfold handle_commit. destruct (ro (conf s)); [split; [apply RO_refl|nonzero]|].
  destruct (lookup_node s h) as [[p na]|]; [|split; [apply RO_refl|nonzero]].
  pose proof (getattr_h_ro s h p) as R. destruct (getattr_h s h p) as [s1 [a|e]] eqn:E; cbn [fst snd] in *; (split; [exact R|]).
  - intros _. exists p, na, a. rewrite E. splits; reflexivity.
  - nonzero.
Qed.

(* every WRITE that answers OK, in any state, reports committed = FILE_SYNC *)
Lemma handle_write_committed s h off cnt stable data :
  ob_status (snd (handle_write s h off cnt stable data)) = 0 ->
  exists n, ob_nums (snd (handle_write s h off cnt stable data)) = [n; FILE_SYNC].
Proof.
  unfold handle_write.
  destruct (ro (conf s)); [nonzero|].
  destruct (two64 - 1 - cnt <? off); [nonzero|].
  destruct (negb (cnt =? N.of_nat (length data))); [nonzero|].
  destruct (tsize (conf s) <? cnt); [nonzero|].
  match goal with |- context [if ?c then (s, fail_wcc NFSERR_FBIG) else _] => destruct c end; [nonzero|].
  destruct (lookup_node s h) as [[p na]|]; [|nonzero].
  destruct (kind_eqb (na_kind na) KLink); [nonzero|].
  destruct (getattr_h s h p) as [s1 [prea|e]]; [|nonzero].
  destruct (two63N <=? off). { destruct (getattr_h s1 h p) as [s2 post]. nonzero. }
  cbv zeta.
  destruct (be_open _ p true) as [q|e]. 2:{ destruct (getattr_h _ h p) as [s2 post]. nonzero. }
  match goal with |- context [match snd ?w with Ok _ => _ | Err _ => _ end] => destruct (snd w) as [n|e] end.
  2:{ destruct (getattr_h _ h p) as [s2 post]. nonzero. }
  destruct (do_stat _ p) as [s7 sti]. destruct (getattr_h _ h p) as [s9 [a|e]]; [|nonzero].
  intros _. exists n. reflexivity.
Qed.
