(* Proofs/SrvData.v — READ / WRITE / SETATTR(size) / CREATE of the server model (Model/Srv.v) against the
   byte-array specification of Proofs/BackendData.v (property C01), and the MaxFileSize guard (C25).
   Every lemma is for all server states: any tree, any cache contents and configuration, any handle table. *)
From Coq Require Import List NArith ZArith Bool Lia ZifyBool ZifyNat ZifyN.
From Verif Require Import Gen.Facts Model.Handles Model.Backend Model.Srv Proofs.SrvRO Proofs.BackendData.
Import ListNotations.
Open Scope N_scope.

(* ====================================================================================================== *)
(* 1. frame: what GetAttr and the cache operations leave alone                                            *)
(* ====================================================================================================== *)
(* s' is s up to the caches and non-mutating entries of the backend log *)
Definition Fr (s s' : srv) : Prop :=
  fs s' = fs s /\ conf s' = conf s /\ hm s' = hm s /\ nodes s' = nodes s /\ now s' = now s /\ (safe (blog s) -> safe (blog s')).
Lemma Fr_refl s : Fr s s. Proof. unfold Fr; tauto. Qed.
Lemma Fr_trans a b c : Fr a b -> Fr b c -> Fr a c.
Proof. unfold Fr. intros (A1 & A2 & A3 & A4 & A5 & A6) (B1 & B2 & B3 & B4 & B5 & B6). repeat split; try congruence. tauto. Qed.
Lemma Fr_RO a b : Fr a b -> RO a b. Proof. unfold Fr, RO. tauto. Qed.
Lemma Fr_with_ac s a : Fr s (with_ac s a). Proof. unfold Fr; cbn; tauto. Qed.
Lemma Fr_logc s c : mutating c = false -> Fr s (logc s c).
Proof. intros H. unfold Fr; cbn. repeat split; auto. intros S. apply safe_cons; auto. Qed.
Lemma ac_get_fr s p : Fr s (fst (ac_get s p)).
Proof. unfold ac_get. des; cbn [fst]; auto using Fr_refl, Fr_with_ac. Qed.
Lemma ac_put_fr s p a : Fr s (ac_put s p a). Proof. apply Fr_with_ac. Qed.
Lemma ac_invalidate_fr s p : Fr s (ac_invalidate s p). Proof. apply Fr_with_ac. Qed.
Lemma srv_getattr_fr s p u g : Fr s (fst (srv_getattr s p u g)).
Proof.
  unfold srv_getattr. pose proof (ac_get_fr s p) as A. destruct (ac_get s p) as [s1 x]. cbn [fst] in A.
  unfold do_lstat. destruct (be_stat (fs s1) p false); cbn [fst].
  - apply Fr_trans with s1; [exact A|].
    apply Fr_trans with (logc s1 (bc BLstat p)); [apply Fr_logc; reflexivity|apply ac_put_fr].
  - apply Fr_trans with s1; [exact A|apply Fr_logc; reflexivity].
Qed.
Lemma getattr_h_fr s h p : Fr s (fst (getattr_h s h p)).
Proof. unfold getattr_h. destruct (node_get s h); apply srv_getattr_fr. Qed.

(* GetAttr is an Lstat of the handle's path; uid/gid come from the node *)
Definition node_uid (s : srv) (h : N) : N := match node_get s h with Some n => na_uid n | None => 0 end.
Definition node_gid (s : srv) (h : N) : N := match node_get s h with Some n => na_gid n | None => 0 end.
Lemma getattr_h_snd s h p :
  snd (getattr_h s h p) =
  match be_stat (fs s) p false with
  | Ok fi => Ok (attrs_of_info fi (fileid_of p) (node_uid s h) (node_gid s h))
  | Err e => Err e
  end.
Proof.
  assert (G : forall u g, snd (srv_getattr s p u g) =
            match be_stat (fs s) p false with Ok fi => Ok (attrs_of_info fi (fileid_of p) u g) | Err e => Err e end).
  { intros u g. unfold srv_getattr. pose proof (ac_get_fr s p) as (A & _). destruct (ac_get s p) as [s1 x]. cbn [fst] in A.
    unfold do_lstat. rewrite A. destruct (be_stat (fs s) p false); reflexivity. }
  unfold getattr_h, node_uid, node_gid. destruct (node_get s h); apply G.
Qed.

Ltac splits := repeat match goal with |- _ /\ _ => split end.

(* destruct [getattr_h s h p] as [s1 x] and record its frame and value facts *)
Ltac ga s1 x F V :=
  match goal with |- context [getattr_h ?s ?h ?p] =>
    pose proof (getattr_h_fr s h p) as F; pose proof (getattr_h_snd s h p) as V;
    destruct (getattr_h s h p) as [s1 x]; cbn [fst snd] in F, V
  end.

Lemma lookup_node_some s h p na : lookup_node s h = Some (p, na) -> node_get s h = Some na /\ get (hm s) h = Some p.
Proof.
  unfold lookup_node. destruct (get (hm s) h); [|discriminate]. destruct (node_get s h); [|discriminate].
  intros [= -> ->]. auto.
Qed.
Lemma lookup_node_fr s s' h : hm s' = hm s -> nodes s' = nodes s -> lookup_node s' h = lookup_node s h.
Proof. intros A B. unfold lookup_node, node_get. rewrite A, B. reflexivity. Qed.

Lemma stat_size_file o : o_kind o = KFile -> stat_size o = o_size o.
Proof. intros K. unfold stat_size. rewrite K. reflexivity. Qed.

(* ====================================================================================================== *)
(* 2. READ                                                                                                *)
(* ====================================================================================================== *)
Definition read_count (s : srv) (o : obj) (off cnt : N) : N :=
  if o_size o <=? off then 0 else N.min (N.min cnt (tsize (conf s))) (o_size o - off).

Lemma handle_read_ok s h p na o off cnt :
  lookup_node s h = Some (p, na) -> plain_file (fs s) p o -> off + cnt < two64 -> off < two63N ->
  let r := handle_read s h off cnt in
  let count := read_count s o off cnt in
  ob_rpc (snd r) = 0 /\ ob_status (snd r) = 0 /\ ob_nums (snd r) = [count] /\
  ob_bytes (snd r) = spec_read (file_of o) off count /\
  ob_eof (snd r) = (o_size o <=? off + count) /\
  RO s (fst r).
Proof.
  intros L [P K] H64 H63. cbv zeta.
  assert (R : RO s (fst (handle_read s h off cnt))) by apply handle_read_ro. revert R.
  unfold handle_read, read_count.
  replace (two64 - 1 - cnt <? off) with false by (unfold two64 in *; lia).
  rewrite L; replace (two63N <=? off) with false by lia.
  cbn [fs logc]; rewrite (be_open_file _ _ _ false P K), (plain_get _ _ _ P), (stat_size_file _ K).
  destruct (o_size o <=? off) eqn:E; cbn [fst snd].
  - ga s2 x F V; cbn [fs logc] in V; rewrite (be_stat_plain _ _ _ false P) in V; subst x.
    cbn [fst snd ob_rpc ob_status ob_nums ob_bytes ob_eof length]. intros R.
    unfold attrs_of_info, info_of; cbn [na_size fi_size]; rewrite (stat_size_file _ K).
    splits; try reflexivity; try exact R.
  - unfold be_readat; rewrite (plain_get _ _ _ P), K; cbn [fst snd].
    ga s2 x F V; cbn [fs logc] in V; rewrite (be_stat_plain _ _ _ false P) in V; subst x.
    cbn [fst snd ob_rpc ob_status ob_nums ob_bytes ob_eof]. intros R.
    unfold attrs_of_info, info_of; cbn [na_size fi_size]; rewrite (stat_size_file _ K), sd_read_length.
    replace (off <? o_size o) with true by lia.
    replace (N.min (N.min (N.min cnt (tsize (conf s))) (o_size o - off)) (o_size o - off))
      with (N.min (N.min cnt (tsize (conf s))) (o_size o - off)) by lia.
    rewrite N2Nat.id.
    splits; try reflexivity; try exact R. apply sd_read_spec.
Qed.

Lemma handle_read_guard s h off cnt :
  let r := handle_read s h off cnt in
  (cnt < two64 -> two64 <= off + cnt -> r = (s, fail_post NFSERR_INVAL)) /\
  (off + cnt < two64 -> two63N <= off -> forall p na, lookup_node s h = Some (p, na) -> r = (s, fail_post NFSERR_IO)).
Proof.
  cbv zeta. unfold handle_read. split.
  - intros H0 H. replace (two64 - 1 - cnt <? off) with true by (unfold two64 in *; lia). reflexivity.
  - intros H1 H2 p na L. replace (two64 - 1 - cnt <? off) with false by (unfold two64 in *; lia).
    rewrite L. replace (two63N <=? off) with true by lia. reflexivity.
Qed.

(* ====================================================================================================== *)
(* 3. WRITE                                                                                               *)
(* ====================================================================================================== *)
(* the MaxFileSize guard of WRITE does not trigger *)
Definition no_fbig_write (s : srv) (off cnt : N) : Prop :=
  maxfile (conf s) = 0 \/ cnt = 0 \/ off + cnt <= maxfile (conf s).


(* the object a successful WRITE leaves at p *)
Definition written (o : obj) (off : N) (data : list N) (t : N) : obj :=
  set_data o (match data with [] => o_size o | _ => N.max (o_size o) (Z.to_N (Z.of_N off) + N.of_nat (length data)) end)
           (sd_write (o_data o) (Z.to_N (Z.of_N off)) data) t.
Definition sync_f (o : obj) : obj := match o_kind o with KFile => sync_obj o | _ => o end.
Definition mtime_f (t : N) (o : obj) : obj := set_meta o (o_perm o) (o_uid o) (o_gid o) t.

Lemma node_upd_fs s h f : fs (node_upd s h f) = fs s.
Proof. apply node_upd_ro. Qed.

Lemma handle_write_eq s h p na o off cnt stable data :
  lookup_node s h = Some (p, na) -> plain_file (fs s) p o -> nodup_keys (fs s) ->
  ro (conf s) = false -> cnt = N.of_nat (length data) -> cnt <= tsize (conf s) ->
  off + cnt < two63N -> no_fbig_write s off cnt ->
  exists s' a prea,
    handle_write s h off cnt stable data = (s', ob_mk st_ok [sf a] [wcc_of prea] None [cnt; 2] []) /\
    fs s' = fs_upd (fs_upd (fs_upd (fs s) p (fun o => written o off data (now s))) p sync_f) p (mtime_f (now s)).
Proof.
  intros L [P K] ND Hro Hc Ht H63 Hm.
  unfold handle_write. rewrite Hro.
  replace (two64 - 1 - cnt <? off) with false by (unfold two64, two63N in *; lia).
  replace (negb (cnt =? N.of_nat (length data))) with false by lia.
  replace (tsize (conf s) <? cnt) with false by lia.
  replace ((0 <? maxfile (conf s)) && (0 <? cnt) && ((maxfile (conf s) <? off) || (maxfile (conf s) - off <? cnt)))
    with false by (unfold no_fbig_write in Hm; lia).
  rewrite L.
  ga s1 pre F1 V1. rewrite (be_stat_plain _ _ _ false P) in V1. subst pre.
  destruct F1 as (F1f & F1c & F1h & F1n & F1t & F1s).
  replace (two63N <=? off) with false by lia.
  cbn [fs logc now]. rewrite F1f, F1t, (be_open_file _ _ _ true P K).
  rewrite (be_writeat_ok _ _ o) by (try apply (plain_get _ _ _ P); try exact K; unfold two63, two63N in *; lia).
  fold (written o off data (now s)).
  rewrite (fs_upd_const _ _ o _ (fun o => written o off data (now s)) ND (plain_get _ _ _ P) eq_refl).
  assert (P1 : plain (fs_upd (fs s) p (fun o => written o off data (now s))) p (written o off data (now s))).
  { pose proof (plain_upd (fs s) p o p (fun o => written o off data (now s))) as X. rewrite path_eqb_refl in X.
    apply X; [|exact P]. intros x. split; reflexivity. }
  set (fs1 := fs_upd (fs s) p (fun o => written o off data (now s))) in *.
  assert (P2 : plain (be_sync fs1 p) p (sync_f (written o off data (now s)))).
  { pose proof (plain_upd fs1 p _ p sync_f keeps_shape_sync P1) as X. rewrite path_eqb_refl in X. exact X. }
  cbn [fst snd fs hm nodes ac dc conf now blog logc with_fs with_ac ac_invalidate lift_unit do_stat].
  rewrite F1t, (be_chtimes_plain _ _ _ _ P2). cbn [fst]. fold (mtime_f (now s)).
  assert (P3 : plain (fs_upd (be_sync fs1 p) p (mtime_f (now s))) p (mtime_f (now s) (sync_f (written o off data (now s))))).
  { pose proof (plain_upd (be_sync fs1 p) p (sync_f (written o off data (now s))) p (mtime_f (now s))) as X. rewrite path_eqb_refl in X.
    apply X; [|exact P2]. intros x. split; reflexivity. }
  rewrite (be_stat_plain _ _ _ true P3).
  ga s9 post F9 V9. rewrite node_upd_fs in V9. cbn [fs logc with_fs] in V9.
  rewrite (be_stat_plain _ _ _ false P3) in V9. subst post.
  destruct F9 as (F9f & _). rewrite node_upd_fs in F9f. cbn [fs logc with_fs] in F9f.
  eexists _, _, _. split; [rewrite <- Hc; reflexivity|]. exact F9f.
Qed.

Lemma handle_write_ok s h p na o off cnt stable data :
  lookup_node s h = Some (p, na) -> plain_file (fs s) p o -> nodup_keys (fs s) ->
  ro (conf s) = false -> cnt = N.of_nat (length data) -> cnt <= tsize (conf s) ->
  off + cnt < two63N -> no_fbig_write s off cnt ->
  let r := handle_write s h off cnt stable data in
  ob_rpc (snd r) = 0 /\ ob_status (snd r) = 0 /\ ob_nums (snd r) = [cnt; 2] /\
  (exists o', fs_get (fs (fst r)) p = Some o' /\ o_kind o' = KFile /\
              o_perm o' = o_perm o /\ o_uid o' = o_uid o /\ o_gid o' = o_gid o /\
              bf_eq (file_of o') (spec_write (file_of o) off data cnt) /\
              bf_eq (durable_of o') (file_of o')) /\
  (forall p', p' <> p -> fs_get (fs (fst r)) p' = fs_get (fs s) p').
Proof.
  intros L PK ND Hro Hc Ht H63 Hm. cbv zeta.
  destruct (handle_write_eq s h p na o off cnt stable data L PK ND Hro Hc Ht H63 Hm) as (s' & a & prea & E & Ef).
  destruct PK as [P K].
  rewrite E. cbn [fst snd ob_mk ob_rpc ob_status ob_nums]. splits; try reflexivity.
  - exists (mtime_f (now s) (sync_f (written o off data (now s)))).
    assert (K1 : o_kind (written o off data (now s)) = KFile) by exact K.
    rewrite Ef, !fs_get_upd, (plain_get _ _ _ P), path_eqb_refl.
    unfold sync_f. rewrite K1. splits; try reflexivity; try exact K.
    + unfold file_of, mtime_f, sync_obj, written. cbn [o_size o_data set_meta set_data]. rewrite N2Z.id.
      subst cnt. apply (sd_write_spec (o_data o) (o_size o) off data).
    + apply bf_eq_refl.
  - intros p' Hp. rewrite Ef, !fs_get_upd_other by exact Hp. reflexivity.
Qed.

Lemma handle_write_guard s h off cnt stable data :
  let r := handle_write s h off cnt stable data in
  (ro (conf s) = true -> r = (s, fail_wcc NFSERR_ROFS)) /\
  (ro (conf s) = false -> cnt < two64 -> two64 <= off + cnt -> r = (s, fail_wcc NFSERR_INVAL)) /\
  (ro (conf s) = false -> off + cnt < two64 -> cnt <> N.of_nat (length data) -> r = (s, fail_wcc GARBAGE)) /\
  (ro (conf s) = false -> off + cnt < two64 -> cnt = N.of_nat (length data) -> tsize (conf s) < cnt ->
     r = (s, fail_wcc NFSERR_INVAL)).
Proof.
  cbv zeta. unfold handle_write. splits.
  - intros ->. reflexivity.
  - intros -> H0 H. replace (two64 - 1 - cnt <? off) with true by (unfold two64 in *; lia). reflexivity.
  - intros -> H0 H. replace (two64 - 1 - cnt <? off) with false by (unfold two64 in *; lia).
    replace (negb (cnt =? N.of_nat (length data))) with true by lia. reflexivity.
  - intros -> H0 H H1. replace (two64 - 1 - cnt <? off) with false by (unfold two64 in *; lia).
    replace (negb (cnt =? N.of_nat (length data))) with false by lia.
    replace (tsize (conf s) <? cnt) with true by lia. reflexivity.
Qed.

(* the two int64 rejections behind the guards: offset >= 2^63 ("negative offset"), and the backend's own
   EINVAL when offset + count reaches 2^63; both answer NFS3ERR_IO and leave the tree alone *)
Lemma handle_write_guard63 s h p na o off cnt stable data :
  lookup_node s h = Some (p, na) -> plain_file (fs s) p o ->
  ro (conf s) = false -> cnt = N.of_nat (length data) -> cnt <= tsize (conf s) ->
  off + cnt < two64 -> no_fbig_write s off cnt -> two63N <= off + cnt ->
  let r := handle_write s h off cnt stable data in
  ob_rpc (snd r) = 0 /\ ob_status (snd r) = NFSERR_IO /\ ob_nums (snd r) = [] /\ fs (fst r) = fs s /\
  (two63N <= off -> RO s (fst r)).
Proof.
  intros L [P K] Hro Hc Ht H64 Hm H63. cbv zeta.
  unfold handle_write. rewrite Hro.
  replace (two64 - 1 - cnt <? off) with false by (unfold two64, two63N in *; lia).
  replace (negb (cnt =? N.of_nat (length data))) with false by lia.
  replace (tsize (conf s) <? cnt) with false by lia.
  replace ((0 <? maxfile (conf s)) && (0 <? cnt) && ((maxfile (conf s) <? off) || (maxfile (conf s) - off <? cnt)))
    with false by (unfold no_fbig_write in Hm; lia).
  rewrite L.
  ga s1 pre F1 V1. rewrite (be_stat_plain _ _ _ false P) in V1. subst pre.
  destruct (two63N <=? off) eqn:E.
  - ga s2 post F2 V2. cbn [fst snd ob_mk ob_rpc ob_status ob_nums]. splits; try reflexivity.
    + destruct F2 as (-> & _). apply F1.
    + intros _. apply Fr_RO. eapply Fr_trans; eassumption.
  - destruct F1 as (F1f & F1c & F1h & F1n & F1t & F1s).
    cbn [fs logc now]. rewrite F1f, (be_open_file _ _ _ true P K).
    rewrite (be_writeat_einval _ _ o) by (try apply (plain_get _ _ _ P); try exact K; unfold two63, two63N in *; lia).
    cbn [fst snd].
    ga s4 post F4 V4. cbn [fst snd ob_mk ob_rpc ob_status ob_nums]. splits; try reflexivity.
    + destruct F4 as (-> & _). cbn [fs logc with_fs]. reflexivity.
    + intros; lia.
Qed.

(* ====================================================================================================== *)
(* 4. SETATTR(size)                                                                                       *)
(* ====================================================================================================== *)
Definition size_only (sa : sattr) (sz : N) : Prop :=
  s_mode sa = None /\ s_uid sa = None /\ s_gid sa = None /\ s_size sa = Some sz /\ s_atime sa = 0 /\ s_mtime sa = 0.
Definition no_fbig_size (s : srv) (sz : N) : Prop := maxfile (conf s) = 0 \/ sz <= maxfile (conf s).
Definition trunc_f (sz t : N) (o : obj) : obj := set_data o sz (sd_trunc (o_data o) sz) t.

Lemma node_get_set s h a : node_get (node_set s h a) h = Some a.
Proof. unfold node_get, node_set. cbn [nodes with_nodes find fst snd]. rewrite N.eqb_refl. reflexivity. Qed.
Lemma node_get_upd s h f : node_get (node_upd s h f) h = match node_get s h with Some a => Some (f a) | None => None end.
Proof. unfold node_upd. destruct (node_get s h) eqn:E; [apply node_get_set|exact E]. Qed.
Lemma node_get_fr s s' h : nodes s' = nodes s -> node_get s' h = node_get s h.
Proof. intros A. unfold node_get. rewrite A. reflexivity. Qed.

Lemma srv_setattr_nochange s h p o cur new :
  plain (fs s) p o -> na_perm new = na_perm cur -> na_uid new = na_uid cur -> na_gid new = na_gid cur ->
  na_atime new = 0 -> na_mtime new = 0 ->
  srv_setattr s h p cur new = (ac_invalidate (node_set (logc s (bc BStat p)) h new) p, Ok tt).
Proof.
  intros P E1 E2 E3 E4 E5. unfold srv_setattr, do_stat. rewrite (be_stat_plain _ _ _ true P).
  rewrite E1, E2, E3, E4, E5, !N.eqb_refl. reflexivity.
Qed.

Lemma handle_setattr_size_eq s c h p na o sa sz :
  lookup_node s h = Some (p, na) -> plain_file (fs s) p o ->
  ro (conf s) = false -> size_only sa sz -> sz < two63N -> no_fbig_size s sz ->
  exists s' a prea,
    handle_setattr s c h sa None = (s', ob_mk st_ok [sf a] [wcc_of prea] None [] []) /\
    fs s' = fs_upd (fs s) p (trunc_f sz (now s)).
Proof.
  intros L [P K] Hro (Hmode & Huid & Hgid & Hsize & Hat & Hmt) H63 Hm.
  unfold handle_setattr. rewrite Hro, Hmode, L.
  ga s1 pre F1 V1. rewrite (be_stat_plain _ _ _ false P) in V1. subst pre.
  destruct F1 as (F1f & F1c & F1h & F1n & F1t & F1s).
  rewrite Hsize. replace (two63N <=? sz) with false by lia. rewrite F1c.
  replace ((0 <? maxfile (conf s)) && (maxfile (conf s) <? sz)) with false by (unfold no_fbig_size in Hm; lia).
  rewrite F1f, F1t, (be_truncate_plain _ _ o) by (auto; lia). rewrite N2Z.id. fold (trunc_f sz (now s)).
  assert (P1 : plain (fs_upd (fs s) p (trunc_f sz (now s))) p (trunc_f sz (now s) o)).
  { pose proof (plain_upd (fs s) p o p (trunc_f sz (now s))) as X. rewrite path_eqb_refl in X.
    apply X; [|exact P]. intros x. split; reflexivity. }
  set (fs1 := fs_upd (fs s) p (trunc_f sz (now s))) in *.
  cbn [fst snd fs hm nodes ac dc conf now blog logc with_fs with_ac ac_invalidate lift_unit do_stat].
  rewrite (be_stat_plain _ _ _ true P1). cbn [fst snd].
  rewrite node_get_upd.
  match goal with |- context [node_get ?st h] => replace (node_get st h) with (Some na) end.
  2:{ symmetry. transitivity (node_get s1 h); [apply node_get_fr; reflexivity|].
      rewrite (node_get_fr s s1 h F1n). apply (lookup_node_some _ _ _ _ L). }
  rewrite Huid, Hgid, Hmt, Hat. cbn [na_kind na_perm na_size na_fileid na_uid na_gid na_mtime na_atime].
  rewrite (srv_setattr_nochange _ _ _ (trunc_f sz (now s) o)); try reflexivity.
  2:{ rewrite node_upd_fs. exact P1. }
  ga s6 post F6 V6. cbn [fs hm nodes ac dc conf now blog logc with_fs with_ac ac_invalidate node_set with_nodes] in V6.
  rewrite node_upd_fs in V6. cbn [fs hm nodes ac dc conf now blog logc with_fs with_ac ac_invalidate] in V6.
  rewrite (be_stat_plain _ _ _ false P1) in V6. subst post.
  destruct F6 as (F6f & _).
  cbn [fs hm nodes ac dc conf now blog logc with_fs with_ac ac_invalidate node_set with_nodes] in F6f.
  rewrite node_upd_fs in F6f. cbn [fs hm nodes ac dc conf now blog logc with_fs with_ac ac_invalidate] in F6f.
  eexists _, _, _. split; [reflexivity|exact F6f].
Qed.

Lemma handle_setattr_size_ok s c h p na o sa sz :
  lookup_node s h = Some (p, na) -> plain_file (fs s) p o ->
  ro (conf s) = false -> size_only sa sz -> sz < two63N -> no_fbig_size s sz ->
  let r := handle_setattr s c h sa None in
  ob_rpc (snd r) = 0 /\ ob_status (snd r) = 0 /\
  (exists o', fs_get (fs (fst r)) p = Some o' /\ o_kind o' = KFile /\
              o_perm o' = o_perm o /\ o_uid o' = o_uid o /\ o_gid o' = o_gid o /\
              bf_eq (file_of o') (spec_trunc (file_of o) sz)) /\
  (forall p', p' <> p -> fs_get (fs (fst r)) p' = fs_get (fs s) p').
Proof.
  intros L PK Hro Hsa H63 Hm. cbv zeta.
  destruct (handle_setattr_size_eq s c h p na o sa sz L PK Hro Hsa H63 Hm) as (s' & a & prea & E & Ef).
  destruct PK as [P K]. rewrite E. cbn [fst snd ob_mk ob_rpc ob_status]. splits; try reflexivity.
  - exists (trunc_f sz (now s) o). rewrite Ef, fs_get_upd, (plain_get _ _ _ P), path_eqb_refl.
    splits; try reflexivity; try exact K. apply (sd_trunc_spec (o_data o) (o_size o) sz).
  - intros p' Hp. rewrite Ef, fs_get_upd_other by exact Hp. reflexivity.
Qed.


(* ====================================================================================================== *)
(* 5. MaxFileSize (C25)                                                                                   *)
(* ====================================================================================================== *)
Lemma handle_write_fbig s h off cnt stable data :
  0 < maxfile (conf s) -> ro (conf s) = false -> 0 < cnt -> cnt = N.of_nat (length data) -> cnt <= tsize (conf s) ->
  off + cnt < two64 -> maxfile (conf s) < off + cnt ->
  handle_write s h off cnt stable data = (s, fail_wcc NFSERR_FBIG).
Proof.
  intros Hm Hro H0 Hc Ht H64 Hbig. unfold handle_write. rewrite Hro.
  replace (two64 - 1 - cnt <? off) with false by (unfold two64 in *; lia).
  replace (negb (cnt =? N.of_nat (length data))) with false by lia.
  replace (tsize (conf s) <? cnt) with false by lia.
  replace ((0 <? maxfile (conf s)) && (0 <? cnt) && ((maxfile (conf s) <? off) || (maxfile (conf s) - off <? cnt)))
    with true by lia.
  reflexivity.
Qed.

(* SETATTR(size): the two rejections of the size, before anything is changed *)
Lemma handle_setattr_size_reject s c h p na fi sa sz :
  lookup_node s h = Some (p, na) -> be_stat (fs s) p false = Ok fi -> ro (conf s) = false ->
  match s_mode sa with Some m => N.testbit m 15 | None => false end = false ->
  s_size sa = Some sz ->
  let r := handle_setattr s c h sa None in
  (two63N <= sz -> ob_rpc (snd r) = 0 /\ ob_status (snd r) = NFSERR_INVAL /\ RO s (fst r)) /\
  (sz < two63N -> 0 < maxfile (conf s) -> maxfile (conf s) < sz ->
     ob_rpc (snd r) = 0 /\ ob_status (snd r) = NFSERR_FBIG /\ RO s (fst r)).
Proof.
  intros L St Hro Hmode Hsize. cbv zeta. unfold handle_setattr. rewrite Hro, Hmode, L.
  ga s1 pre F1 V1. rewrite St in V1. subst pre. rewrite Hsize.
  apply Fr_RO in F1. assert (F1c : conf s1 = conf s) by apply F1. rewrite F1c.
  split.
  - intros H. replace (two63N <=? sz) with true by lia.
    cbn [fst snd fail_wcc ob_mk ob_rpc ob_status]. splits; try reflexivity. exact F1.
  - intros H1 H2 H3. replace (two63N <=? sz) with false by lia.
    replace ((0 <? maxfile (conf s)) && (maxfile (conf s) <? sz)) with true by lia.
    cbn [fst snd fail_wcc ob_mk ob_rpc ob_status]. splits; try reflexivity. exact F1.
Qed.

(* UNCHECKED CREATE over an existing regular file with a size beyond the limit *)
Lemma failed_reply_spec s h d st dpre :
  ob_rpc (snd (failed_reply s h d st dpre)) = 0 /\ ob_status (snd (failed_reply s h d st dpre)) = st /\
  Fr s (fst (failed_reply s h d st dpre)).
Proof. unfold failed_reply. ga s1 x F V. cbn. auto. Qed.

Lemma handle_create_fbig s c h d dattr n sa sz dfi fi :
  ro (conf s) = false -> validate_name n = st_ok ->
  validate_mode (match s_mode sa with Some m => m | None => 420 end) = st_ok ->
  lookup_node s h = Some (d, dattr) -> na_kind dattr = KDir ->
  be_stat (fs s) d false = Ok dfi -> be_stat (fs s) (d ++ [n]) false = Ok fi -> fi_kind fi = KFile ->
  s_size sa = Some sz -> sz < two63N -> 0 < maxfile (conf s) -> maxfile (conf s) < sz ->
  let r := handle_create s c h n 0 sa in
  ob_rpc (snd r) = 0 /\ ob_status (snd r) = NFSERR_FBIG /\ RO s (fst r).
Proof.
  intros Hro Hn Hmode L Kd Sd Sp Kf Hsize H63 Hm Hbig. cbv zeta. unfold handle_create.
  rewrite Hro, Hn. cbn [N.eqb orb negb]. change (0 =? 0) with true. cbn [orb].
  rewrite Hmode, L, Kd. cbn [kind_eqb negb N.eqb].
  ga s1 pre F1 V1. rewrite Sd in V1. subst pre.
  unfold do_lstat. destruct F1 as (F1f & F1c & F1r). rewrite F1f, Sp, Kf. cbn [kind_eqb negb orb].
  change (0 =? 2) with false. change (0 =? 1) with false. cbn [orb].
  rewrite Hsize. replace (two63N <=? sz) with false by lia.
  cbn [conf logc]. rewrite F1c.
  replace ((0 <? maxfile (conf s)) && (maxfile (conf s) <? sz)) with true by lia.
  cbn [fst snd].
  match goal with |- context [failed_reply ?a ?b ?c ?d ?e] => destruct (failed_reply_spec a b c d e) as (A1 & A2 & A3) end.
  splits; [exact A1|exact A2|].
  apply Fr_RO in A3. eapply RO_trans; [|exact A3].
  eapply RO_trans; [|apply RO_logc; reflexivity]. unfold RO. tauto.
Qed.

(* ---------- no file grows beyond max(old size, limit) ---------- *)
Definition szle (M : N) (o o' : obj) : Prop := o_size o' <= o_size o \/ o_size o' <= M.
Definition UO (M : N) (a b : fsmap) : Prop := upd_only (szle M) a b.
Lemma szle_refl M o : szle M o o. Proof. left. lia. Qed.
Lemma UO_refl M a : UO M a a. Proof. apply upd_only_refl, szle_refl. Qed.
Lemma UO_trans M a b c : UO M a b -> UO M b c -> UO M a c.
Proof. apply upd_only_trans. unfold szle. intros x y z _ _ A B. lia. Qed.
Lemma UO_eq M a b : b = a -> UO M a b. Proof. intros ->. apply UO_refl. Qed.
Lemma UO_meta M fs p fl a b c d : UO M fs (fst (be_meta fs p fl (fun o => set_meta o (a o) (b o) (c o) (d o)))).
Proof. apply be_meta_upd_only; [apply szle_refl|]. intros o. split; [reflexivity|left; cbn [o_size set_meta]; lia]. Qed.
Lemma UO_sync M fs q : UO M fs (be_sync fs q).
Proof. apply be_sync_upd_only; [apply szle_refl|]. intros o. left. cbn [o_size sync_obj]. lia. Qed.
Lemma UO_writeat M fs q off bs t : (bs = [] \/ off + N.of_nat (length bs) <= M) ->
  UO M fs (fst (be_writeat fs q (Z.of_N off) bs t)).
Proof.
  intros H. apply be_writeat_upd_only; [apply szle_refl|]. intros o d _ _. unfold szle. cbn [o_size set_data].
  rewrite N2Z.id. destruct H as [->|H]; [left; lia|]. destruct bs; lia.
Qed.
Lemma UO_truncate M fs p sz t : sz <= M -> UO M fs (fst (be_truncate fs p (Z.of_N sz) t)).
Proof.
  intros H. apply be_truncate_upd_only; [apply szle_refl|]. intros o d _. right. cbn [o_size set_data]. lia.
Qed.

(* the rename-proof reading of UO used in the theorems *)
Lemma UO_spec M a b : UO M a b ->
  forall p o', fs_get b p = Some o' -> o_kind o' = KFile ->
  o_size o' <= M \/ exists o, fs_get a p = Some o /\ o_kind o = KFile /\ o_size o' <= o_size o.
Proof.
  intros H p o' G K. specialize (H p). rewrite G in H. destruct H as (o & A & B & [C|C]); [right|left; exact C].
  exists o. splits; [exact A|congruence|exact C].
Qed.

Lemma handle_write_bound s h off cnt stable data :
  0 < maxfile (conf s) -> UO (maxfile (conf s)) (fs s) (fs (fst (handle_write s h off cnt stable data))).
Proof.
  intros Hm. unfold handle_write.
  destruct (ro (conf s)); [apply UO_refl|].
  destruct (two64 - 1 - cnt <? off); [apply UO_refl|].
  destruct (negb (cnt =? N.of_nat (length data))) eqn:Hc; [apply UO_refl|].
  destruct (tsize (conf s) <? cnt); [apply UO_refl|].
  destruct ((0 <? maxfile (conf s)) && (0 <? cnt) && ((maxfile (conf s) <? off) || (maxfile (conf s) - off <? cnt))) eqn:G;
    [apply UO_refl|].
  destruct (lookup_node s h) as [[p na]|]; [|apply UO_refl].
  ga s1 pre F1 V1. destruct F1 as (F1f & _). destruct pre as [prea|e]; [|apply UO_eq; exact F1f].
  destruct (two63N <=? off).
  { ga s2 post F2 V2. destruct F2 as (F2f & _). apply UO_eq. cbn [fst]. congruence. }
  cbn [fs logc now]. destruct (be_open (fs s1) p true) as [q|e].
  2:{ ga s2 post F2 V2. destruct F2 as (F2f & _). apply UO_eq. cbn [fst]. rewrite F2f. exact F1f. }
  assert (W : UO (maxfile (conf s)) (fs s) (fst (be_writeat (fs s1) q (Z.of_N off) data (now s1)))).
  { rewrite F1f. apply UO_writeat. destruct data; [left; reflexivity|right]. cbn [length] in *. lia. }
  destruct (be_writeat (fs s1) q (Z.of_N off) data (now s1)) as [fs1 [n|e]]; cbn [fst snd] in *.
  2:{ ga s2 post F2 V2. destruct F2 as (F2f & _). cbn [fst]. rewrite F2f. exact W. }
  cbn [fst snd fs hm nodes ac dc conf now blog logc with_fs with_ac ac_invalidate lift_unit do_stat].
  ga s9 post F9 V9. destruct F9 as (F9f & _).
  assert (E : fs s9 = fst (be_chtimes (be_sync fs1 q) p (now s1))).
  { rewrite F9f. destruct (be_stat _ p true); [rewrite node_upd_fs|]; reflexivity. }
  apply UO_trans with fs1; [exact W|]. apply UO_trans with (be_sync fs1 q); [apply UO_sync|].
  destruct post; cbn [fst]; rewrite E; apply UO_meta.
Qed.

Lemma srv_setattr_uo M s h p cur new : UO M (fs s) (fs (fst (srv_setattr s h p cur new))).
Proof.
  unfold srv_setattr, do_stat. destruct (be_stat (fs s) p true) as [fi|e]; [|apply UO_refl].
  cbv zeta. set (s1 := logc s (bc BStat p)).
  set (r2 := if na_perm new =? na_perm cur then (s1, Ok tt) else lift_unit s1 _ _).
  assert (U2 : UO M (fs s) (fs (fst r2))).
  { subst r2. destruct (na_perm new =? na_perm cur); cbn [fst lift_unit logc with_fs fs]; [apply UO_refl|].
    unfold be_chmod. apply UO_meta. }
  clearbody r2. destruct r2 as [s2 [u|e]]; cbn [fst snd] in *; [|exact U2].
  set (r3 := if (na_uid new =? na_uid cur) && (na_gid new =? na_gid cur) then (s2, Ok tt) else lift_unit s2 _ _).
  assert (U3 : UO M (fs s) (fs (fst r3))).
  { subst r3. destruct ((na_uid new =? na_uid cur) && (na_gid new =? na_gid cur)); cbn [fst lift_unit logc with_fs fs]; [exact U2|].
    eapply UO_trans; [exact U2|]. unfold be_chown. apply UO_meta. }
  clearbody r3. destruct r3 as [s3 [u3|e]]; cbn [fst snd] in *; [|exact U3].
  match goal with |- context [if ?c then lift_unit s3 ?a ?b else (s3, Ok tt)] =>
    set (r4 := if c then lift_unit s3 a b else (s3, Ok tt)) end.
  assert (U4 : UO M (fs s) (fs (fst r4))).
  { subst r4. match goal with |- context [if ?c then _ else (s3, Ok tt)] => destruct c end;
      cbn [fst lift_unit logc with_fs fs]; [|exact U3].
    destruct (na_mtime new =? 0); cbn [fst]; [exact U3|].
    eapply UO_trans; [exact U3|]. unfold be_chtimes. apply UO_meta. }
  clearbody r4. destruct r4 as [s4 [u4|e]]; cbn [fst snd] in *; [|exact U4].
  exact U4.
Qed.

Lemma handle_setattr_bound s c h sa guard :
  0 < maxfile (conf s) -> UO (maxfile (conf s)) (fs s) (fs (fst (handle_setattr s c h sa guard))).
Proof.
  intros Hm. unfold handle_setattr.
  destruct (ro (conf s)); [apply UO_refl|].
  destruct (match s_mode sa with Some m => N.testbit m 15 | None => false end); [apply UO_refl|].
  destruct (lookup_node s h) as [[p na]|]; [|apply UO_refl].
  ga s1 pre F1 V1. destruct F1 as (F1f & F1c & _). destruct pre as [prea|e]; [|apply UO_eq; exact F1f].
  match goal with |- context [if ?c then (s1, fail_wcc NFSERR_NOT_SYNC) else _] => destruct c end; [apply UO_eq; exact F1f|].
  match goal with |- context [match snd ?x with Some _ => _ | None => _ end] => set (rs := x) end.
  assert (U : UO (maxfile (conf s)) (fs s) (fs (fst rs))).
  { subst rs. destruct (s_size sa) as [sz|]; [|apply UO_eq; exact F1f].
    destruct (two63N <=? sz); [apply UO_eq; exact F1f|].
    rewrite F1c. destruct ((0 <? maxfile (conf s)) && (maxfile (conf s) <? sz)) eqn:G; [apply UO_eq; exact F1f|].
    assert (T : UO (maxfile (conf s)) (fs s) (fst (be_truncate (fs s1) p (Z.of_N sz) (now s1)))).
    { rewrite F1f. apply UO_truncate. lia. }
    destruct (be_truncate (fs s1) p (Z.of_N sz) (now s1)) as [fs1 [u|e]]; cbn [fst snd lift_unit] in *; [|exact T].
    unfold do_stat. cbn [fst snd fs logc with_fs ac_invalidate with_ac].
    destruct (be_stat fs1 p true); cbn [fst]; [rewrite node_upd_fs|]; exact T. }
  clearbody rs. destruct rs as [s4 [e|]]; cbn [fst snd] in *; [exact U|].
  destruct (node_get s4 h) as [cur|]; [|exact U].
  match goal with |- context [srv_setattr s4 h p cur ?new] =>
    pose proof (srv_setattr_uo (maxfile (conf s)) s4 h p cur new) as S5; destruct (srv_setattr s4 h p cur new) as [s5 [u|e]] end;
    cbn [fst] in *.
  - ga s6 post F6 V6. destruct F6 as (F6f & _).
    apply UO_trans with (fs s4); [exact U|]. destruct post; cbn [fst]; rewrite F6f; exact S5.
  - apply UO_trans with (fs s4); [exact U|exact S5].
Qed.
