(* Proofs/SrvPaths.v — property C07 on the server model (Model/Srv.v): every path handed to the backend is
   a handle path of the pre-state, or such a path joined with one validated component (or, for the two
   directory-listing procedures, with one sane name of the listing; or, for MNT, the cleaned path a handle
   is requested for); all of them are lists of good components, which render to absolute normalized path
   strings; symlink targets are relative and free of ".." components; READLINK never returns a relative
   target with a ".." component.

   Structure: names and rendering; the handle table; a pre/post relation [T PA s s'] ("every call added to
   the log is allowed by PA, every handle path of s' is a handle path of s or allowed by PA"), one lemma per
   primitive, then a [des]/[collect]/[chain] walk through every handler, generic in PA; [step]; [hrun]. *)
From Coq Require Import List NArith ZArith Bool Lia.
From Verif Require Import Gen.Facts Model.Handles Model.Backend Model.Srv.
Import ListNotations.
Open Scope N_scope.

(* ====================================================================================================== *)
(* 1. bytes, names, components                                                                            *)
(* ====================================================================================================== *)
Lemma bytes_eqb_iff a : forall b, bytes_eqb a b = true <-> a = b.
Proof.
  induction a as [|x a IH]; intros [|y b]; cbn; split; try discriminate; try reflexivity.
  - intros H. apply andb_true_iff in H. destruct H as [H1 H2]. apply N.eqb_eq in H1. apply IH in H2. congruence.
  - intros [= -> ->]. rewrite N.eqb_refl. cbn. apply IH. reflexivity.
Qed.
Lemma is_dot_iff n : is_dot n = true <-> n = [dot].
Proof. apply bytes_eqb_iff. Qed.
Lemma is_dotdot_iff n : is_dotdot n = true <-> n = [dot; dot].
Proof. apply bytes_eqb_iff. Qed.
Lemma is_dot_false n : is_dot n = false <-> n <> [dot].
Proof. rewrite <- is_dot_iff. destruct (is_dot n); split; congruence. Qed.
Lemma is_dotdot_false n : is_dotdot n = false <-> n <> [dot; dot].
Proof. rewrite <- is_dotdot_iff. destruct (is_dotdot n); split; congruence. Qed.

Lemma existsb_eqb_false (x : N) l : existsb (fun b => b =? x) l = false <-> ~ In x l.
Proof.
  induction l as [|y l IH]; cbn; [tauto|]. rewrite orb_false_iff, IH, N.eqb_neq. split.
  - intros [A B] [C|C]; [congruence|tauto].
  - intros H. split; [intros E; apply H; left; exact E|intros C; apply H; right; exact C].
Qed.
Lemma existsb_sep_false l :
  existsb (fun b => (b =? slash) || (b =? backslash)) l = false <-> ~ In slash l /\ ~ In backslash l.
Proof.
  induction l as [|y l IH]; cbn; [tauto|]. rewrite orb_false_iff, IH, orb_false_iff, !N.eqb_neq. split.
  - intros [[A B] [C D]]. split; intros [E|E]; auto.
  - intros [A B]. split; [split|split]; intros E.
    + apply A. left. exact E.
    + apply B. left. exact E.
    + apply A. right. exact E.
    + apply B. right. exact E.
Qed.

(* the validated-component predicate of the property *)
Definition vname (n : name) : Prop := validate_name n = st_ok.

Lemma inval_nonzero : NFSERR_INVAL <> st_ok. Proof. vm_compute. discriminate. Qed.
Lemma toolong_nonzero : NFSERR_NAMETOOLONG <> st_ok. Proof. vm_compute. discriminate. Qed.

Lemma vname_spec n :
  vname n <->
  n <> [] /\ N.of_nat (length n) <= 255 /\ ~ In 0 n /\ ~ In slash n /\ ~ In backslash n /\ n <> [dot] /\ n <> [dot; dot].
Proof.
  unfold vname, validate_name.
  destruct n as [|x n']; [split; [intros H; exfalso; exact (inval_nonzero H)|intros [H _]; congruence]|].
  set (n := x :: n').
  destruct (255 <? N.of_nat (length n)) eqn:E1.
  { apply N.ltb_lt in E1. split; [intros H; exfalso; exact (toolong_nonzero H)|intros (_ & H & _); lia]. }
  apply N.ltb_ge in E1.
  destruct (existsb (fun b => b =? 0) n) eqn:E2.
  { split; [intros H; exfalso; exact (inval_nonzero H)|]. intros (_ & _ & H & _). apply existsb_eqb_false in H. congruence. }
  apply existsb_eqb_false in E2.
  destruct (existsb (fun b => (b =? slash) || (b =? backslash)) n) eqn:E3.
  { split; [intros H; exfalso; exact (inval_nonzero H)|]. intros (_ & _ & _ & H1 & H2 & _).
    assert (F : existsb (fun b => (b =? slash) || (b =? backslash)) n = false) by (apply existsb_sep_false; auto). congruence. }
  apply existsb_sep_false in E3. destruct E3 as [E3 E4].
  destruct (is_dot n || is_dotdot n) eqn:E5.
  { split; [intros H; exfalso; exact (inval_nonzero H)|]. intros (_ & _ & _ & _ & _ & H1 & H2).
    apply orb_true_iff in E5. destruct E5 as [E5|E5]; [apply is_dot_iff in E5|apply is_dotdot_iff in E5]; contradiction. }
  apply orb_false_iff in E5. destruct E5 as [E5 E6]. apply is_dot_false in E5. apply is_dotdot_false in E6.
  split; [intros _|reflexivity]. repeat split; auto. unfold n; discriminate.
Qed.

(* good components and good paths *)
Definition gcomp (c : name) : Prop := c <> [] /\ ~ In slash c /\ c <> [dot] /\ c <> [dot; dot].
Definition gpath (p : path) : Prop := Forall gcomp p.

Lemma vname_gcomp c : vname c -> gcomp c.
Proof. intros H. apply vname_spec in H. unfold gcomp. tauto. Qed.

Lemma name_sane_spec c :
  name_sane c = true <-> c <> [] /\ ~ In slash c /\ ~ In backslash c /\ c <> [dot] /\ c <> [dot; dot].
Proof.
  unfold name_sane. rewrite !andb_true_iff, !negb_true_iff, existsb_sep_false, is_dot_false, is_dotdot_false.
  destruct c as [|x c'].
  - split; [intros [[[H _] _] _]; discriminate|intros [H _]; congruence].
  - split.
    + intros [[[_ H1] H2] H3]. split; [discriminate|tauto].
    + intros (_ & H1 & H2 & H3 & H4). repeat split; auto.
Qed.
Lemma name_sane_gcomp c : name_sane c = true -> gcomp c.
Proof. intros H. apply name_sane_spec in H. unfold gcomp. tauto. Qed.
Lemma sanitize_ok_sane d n : sanitize_ok d n = true -> name_sane n = true.
Proof. unfold sanitize_ok. intros H. apply andb_true_iff in H. tauto. Qed.

Lemma gpath_app p c : gpath p -> gcomp c -> gpath (p ++ [c]).
Proof. intros A B. apply Forall_app. split; [exact A|constructor; [exact B|constructor]]. Qed.

(* ---------- the cleaned MNT path ---------- *)
Lemma split_aux_comps s : forall cur, ~ In slash cur ->
  forall c, In c (split_aux cur s) -> c <> [] /\ ~ In slash c.
Proof.
  induction s as [|x s IH]; intros cur Hc c; cbn [split_aux].
  - destruct cur as [|y cur']; [intros []|]. intros [<-|[]]. split.
    + intros E. apply (f_equal (@length N)) in E. rewrite rev_length in E. discriminate.
    + intros H. apply in_rev in H. exact (Hc H).
  - destruct (x =? slash) eqn:E.
    + destruct cur as [|y cur'].
      * apply IH. intros [].
      * intros [<-|H]; [|exact (IH [] (fun f => f) c H)]. split.
        -- intros F. apply (f_equal (@length N)) in F. rewrite rev_length in F. discriminate.
        -- intros H. apply in_rev in H. exact (Hc H).
    + apply IH. apply N.eqb_neq in E. intros [F|F]; [congruence|exact (Hc F)].
Qed.
Lemma split_path_comps s c : In c (split_path s) -> c <> [] /\ ~ In slash c /\ c <> [dot].
Proof.
  unfold split_path. intros H. apply filter_In in H. destruct H as [H1 H2].
  apply (split_aux_comps s [] (fun f => f)) in H1. apply negb_true_iff, is_dot_false in H2. tauto.
Qed.
Lemma clean_comps_gpath l : forall acc, Forall gcomp acc ->
  (forall c, In c l -> c <> [] /\ ~ In slash c /\ c <> [dot]) -> gpath (clean_comps acc l).
Proof.
  induction l as [|c l IH]; intros acc Ha Hl; cbn [clean_comps].
  - unfold gpath. apply Forall_rev. exact Ha.
  - destruct (is_dotdot c) eqn:E.
    + apply IH; [|intros x Hx; apply Hl; right; exact Hx].
      destruct acc as [|a acc']; [constructor|]. cbn. inversion Ha; assumption.
    + apply IH; [|intros x Hx; apply Hl; right; exact Hx].
      constructor; [|exact Ha]. apply is_dotdot_false in E.
      destruct (Hl c (or_introl eq_refl)) as (A & B & C). unfold gcomp. tauto.
Qed.
Lemma mnt_path_gpath p : gpath (clean_comps [] (split_path p)).
Proof. apply clean_comps_gpath; [constructor|]. intros c. apply split_path_comps. Qed.

(* ====================================================================================================== *)
(* 2. component lists are absolute normalized path strings                                                *)
(* ====================================================================================================== *)
(* strings.Split(s, "/") as a top-level function; [raw_split] of the model is this one *)
Fixpoint rs_go (cur : list N) (s : list N) : list name :=
  match s with [] => [rev cur] | c :: r => if c =? slash then rev cur :: rs_go [] r else rs_go (c :: cur) r end.
Lemma raw_split_rs s : raw_split s = rs_go [] s.
Proof. reflexivity. Qed.

(* absolute and normalized: "/" or "/c1/c2/..." with no empty, "." or ".." component (as in Corr/C07.v) *)
Definition clean_abs (s : list N) : bool :=
  is_abs s &&
  match s with
  | [_] => true
  | _ => let comps := raw_split (tl s) in
         forallb (fun c => negb (match c with [] => true | _ => false end) && negb (is_dot c) && negb (is_dotdot c)) comps
  end.
Definition comps_of (s : list N) : path := match s with [_] => [] | _ => raw_split (tl s) end.

Lemma rs_go_noslash c : forall cur rest, ~ In slash c -> rs_go cur (c ++ rest) = rs_go (rev c ++ cur) rest.
Proof.
  induction c as [|x c IH]; intros cur rest H; [reflexivity|].
  cbn [app rs_go]. destruct (x =? slash) eqn:E.
  - apply N.eqb_eq in E. exfalso. apply H. left. exact E.
  - rewrite IH; [|intros F; apply H; right; exact F]. cbn [rev]. rewrite <- app_assoc. reflexivity.
Qed.
(* "c1/c2/.../cn" splits back into its components *)
Lemma rs_go_join r : forall c, ~ In slash c -> Forall gcomp r -> rs_go [] (c ++ render_aux r) = c :: r.
Proof.
  induction r as [|c2 r IH]; intros c Hc Hr; cbn [render_aux].
  - rewrite rs_go_noslash by exact Hc. cbn [rs_go]. rewrite app_nil_r, rev_involutive. reflexivity.
  - rewrite rs_go_noslash by exact Hc. cbn [rs_go]. rewrite N.eqb_refl, app_nil_r, rev_involutive.
    inversion Hr as [|? ? G1 G2]; subst. rewrite IH; [reflexivity|apply G1|exact G2].
Qed.

Lemma render_clean p : gpath p -> clean_abs (render p) = true /\ comps_of (render p) = p.
Proof.
  intros G. destruct p as [|c r]; [split; reflexivity|].
  inversion G as [|? ? Gc Gr]; subst. destruct Gc as (Gne & Gs & Gd & Gdd).
  destruct c as [|x c']; [congruence|].
  assert (J : raw_split (tl (render ((x :: c') :: r))) = (x :: c') :: r).
  { rewrite raw_split_rs. cbn [render render_aux tl]. apply (rs_go_join r (x :: c') Gs Gr). }
  split.
  - unfold clean_abs. cbn [render render_aux is_abs app]. rewrite N.eqb_refl. cbn [andb].
    change (slash :: x :: c' ++ render_aux r) with (render ((x :: c') :: r)). rewrite J.
    apply forallb_forall. intros y Hy.
    assert (Gy : gcomp y) by (apply (proj1 (Forall_forall gcomp _) G); exact Hy).
    destruct Gy as (A & _ & B & C). apply is_dot_false in B. apply is_dotdot_false in C. rewrite B, C.
    destruct y; [congruence|reflexivity].
  - unfold comps_of. cbn [render render_aux app].
    change (slash :: x :: c' ++ render_aux r) with (render ((x :: c') :: r)). exact J.
Qed.

(* a rendered good path contains its components and nothing else: it is absolute, and every "/"-separated
   component is non-empty, not "." and not ".." *)
Lemma render_abs p : is_abs (render p) = true.
Proof. destruct p; reflexivity. Qed.

(* ---------- ".." components of a target ---------- *)
Lemma target_no_dotdot_spec t : target_has_dotdot t = false <-> ~ In [dot; dot] (raw_split t).
Proof.
  unfold target_has_dotdot. generalize (raw_split t). intros l.
  induction l as [|c l IH]; cbn; [tauto|]. rewrite orb_false_iff, IH, is_dotdot_false. split.
  - intros [A B] [C|C]; [congruence|tauto].
  - intros H. split; [intros E; apply H; left; exact E|intros C; apply H; right; exact C].
Qed.

(* ====================================================================================================== *)
(* 3. the handle table: allocation only adds (returned handle, p); eviction only removes                  *)
(* ====================================================================================================== *)
Lemma assocH_filter {P} (h v : N) (l : list (N * P)) :
  assocH h (filter (fun e => negb (fst e =? v)) l) = if h =? v then None else assocH h l.
Proof.
  induction l as [|[k q] r IH]; cbn [filter assocH fst]; [destruct (h =? v); reflexivity|].
  destruct (k =? v) eqn:E; cbn [negb].
  - rewrite IH. destruct (h =? v) eqn:F; [reflexivity|].
    destruct (k =? h) eqn:G; [|reflexivity].
    apply N.eqb_eq in E. apply N.eqb_eq in G. apply N.eqb_neq in F. congruence.
  - cbn [assocH]. rewrite IH. destruct (h =? v) eqn:F; [|reflexivity].
    destruct (k =? h) eqn:G; [|reflexivity].
    apply N.eqb_neq in E. apply N.eqb_eq in G. apply N.eqb_eq in F. congruence.
Qed.
Lemma get_drop_id {P} (m : fhmap P) v h : get (drop_id v m) h = if h =? v then None else get m h.
Proof. unfold get, drop_id. cbn [handles]. apply assocH_filter. Qed.
Lemma evict_get {P} n keep : forall (m : fhmap P) h q, get (evict n keep m) h = Some q -> get m h = Some q.
Proof.
  induction n as [|n IH]; intros m h q; cbn [evict]; [auto|].
  destruct (filter (fun e => negb (fst e =? keep)) (handles m)) as [|[h0 q0] r]; [auto|].
  intros H. apply IH in H. rewrite get_drop_id in H. destruct (h =? _); [discriminate|exact H].
Qed.
(* every (handle, path) of the table after [allocate m p] is (returned handle, p) or was in m *)
Lemma allocate_get {P} (eqb : P -> P -> bool) (m : fhmap P) p h q :
  get (fst (allocate eqb m p)) h = Some q ->
  (h = snd (allocate eqb m p) /\ q = p) \/ get m h = Some q.
Proof.
  unfold allocate. destruct (assocP eqb p (byPath m)) as [h1|]; [cbn [fst]; auto|].
  destruct (pop_min (free m)) as [[h0 f]|].
  - match goal with |- context [if ?c then _ else _] => destruct c end; cbn [fst snd]; intros H.
    + apply evict_get in H. unfold get in H. cbn [handles assocH] in H.
      destruct (h0 =? h) eqn:E; [apply N.eqb_eq in E; left; split; congruence|right; exact H].
    + unfold get in H. cbn [handles assocH] in H.
      destruct (h0 =? h) eqn:E; [apply N.eqb_eq in E; left; split; congruence|right; exact H].
  - match goal with |- context [if ?c then _ else _] => destruct c end; cbn [fst snd]; intros H.
    + apply evict_get in H. unfold get in H. cbn [handles assocH] in H.
      destruct (next m =? h) eqn:E; [apply N.eqb_eq in E; left; split; congruence|right; exact H].
    + unfold get in H. cbn [handles assocH] in H.
      destruct (next m =? h) eqn:E; [apply N.eqb_eq in E; left; split; congruence|right; exact H].
Qed.

(* ====================================================================================================== *)
(* 4. the pre/post relation                                                                               *)
(* ====================================================================================================== *)
(* a backend call is allowed by PA: its path is; the second path of a Rename is the rendering of an
   allowed path; the target of a Symlink is relative and has no ".." component *)
Definition extra_ok (PA : path -> Prop) (o : bop) (t : list N) : Prop :=
  match o with
  | BRename => exists np, t = render np /\ PA np
  | BSymlink => is_abs t = false /\ target_has_dotdot t = false
  | _ => True
  end.
Definition AB (PA : path -> Prop) (b : bcall) : Prop := PA (b_path b) /\ extra_ok PA (b_op b) (b_path2 b).
Definition T (PA : path -> Prop) (s s' : srv) : Prop :=
  (forall b, In b (blog s') -> In b (blog s) \/ AB PA b) /\
  (forall h q, get (hm s') h = Some q -> get (hm s) h = Some q \/ PA q).

Lemma T_refl (PA : path -> Prop) s : T PA s s.
Proof. split; auto. Qed.
Lemma T_trans (PA : path -> Prop) a b c : T PA a b -> T PA b c -> T PA a c.
Proof.
  intros [A1 A2] [B1 B2]. split.
  - intros x Hx. destruct (B1 x Hx) as [H|H]; [apply A1; exact H|right; exact H].
  - intros h q Hq. destruct (B2 h q Hq) as [H|H]; [apply A2; exact H|right; exact H].
Qed.

Definition same (s s' : srv) : Prop := blog s' = blog s /\ hm s' = hm s.
Lemma same_refl s : same s s. Proof. split; reflexivity. Qed.
Lemma T_of_same (PA : path -> Prop) s s' : same s s' -> T PA s s'.
Proof. intros [A B]. split; [rewrite A|rewrite B]; auto. Qed.

Lemma AB_bc (PA : path -> Prop) o p : PA p -> extra_ok PA o [] -> AB PA (bc o p).
Proof. intros A B. split; assumption. Qed.
Lemma AB_bc2 (PA : path -> Prop) o p t a b : PA p -> extra_ok PA o t -> AB PA (bc2 o p t a b).
Proof. intros A B. split; assumption. Qed.
Lemma T_logc (PA : path -> Prop) s c : AB PA c -> T PA s (logc s c).
Proof. intros H. split; [intros b [<-|Hb]; auto|auto]. Qed.

Ltac des :=
  repeat (cbn [fst snd]; match goal with
  | |- context [match ?x with _ => _ end] =>
      (* innermost first: a scrutinee that itself contains a match is left for a later round *)
      lazymatch x with
      | context [match _ with _ => _ end] => fail
      | _ =>
        (* matches on numbers only compute reply fields or attribute values, never a state *)
        lazymatch type of x with
        | N => fail
        | positive => fail
        | _ => destruct x eqn:?
        end
      end
  end).

Lemma with_fs_same s f : same s (with_fs s f). Proof. split; reflexivity. Qed.
Lemma with_ac_same s a : same s (with_ac s a). Proof. split; reflexivity. Qed.
Lemma with_dc_same s a : same s (with_dc s a). Proof. split; reflexivity. Qed.
Lemma with_nodes_same s a : same s (with_nodes s a). Proof. split; reflexivity. Qed.
Lemma with_conf_same s a : same s (with_conf s a). Proof. split; reflexivity. Qed.
Lemma ac_get_same s p : same s (fst (ac_get s p)).
Proof. unfold ac_get. des; cbn [fst]; auto using same_refl, with_ac_same. Qed.
Lemma ac_put_same s p a : same s (ac_put s p a). Proof. apply with_ac_same. Qed.
Lemma ac_put_negative_same s p : same s (ac_put_negative s p).
Proof. unfold ac_put_negative. des; auto using same_refl, with_ac_same. Qed.
Lemma ac_invalidate_same s p : same s (ac_invalidate s p). Proof. apply with_ac_same. Qed.
Lemma ac_invalidate_tree_same s p : same s (ac_invalidate_tree s p). Proof. apply with_ac_same. Qed.
Lemma ac_invalidate_neg_same s p : same s (ac_invalidate_neg_in_dir s p). Proof. apply with_ac_same. Qed.
Lemma dc_get_same s p : same s (fst (dc_get s p)).
Proof. unfold dc_get. des; cbn [fst]; auto using same_refl, with_dc_same. Qed.
Lemma dc_put_same s p n : same s (dc_put s p n).
Proof. unfold dc_put. des; auto using same_refl, with_dc_same. Qed.
Lemma dc_invalidate_same s p : same s (dc_invalidate s p).
Proof. unfold dc_invalidate. des; auto using same_refl, with_dc_same. Qed.
Lemma dc_invalidate_tree_same s p : same s (dc_invalidate_tree s p).
Proof. unfold dc_invalidate_tree. des; auto using same_refl, with_dc_same. Qed.
Lemma node_set_same s h a : same s (node_set s h a). Proof. apply with_nodes_same. Qed.
Lemma node_upd_same s h f : same s (node_upd s h f).
Proof. unfold node_upd. des; auto using same_refl, node_set_same. Qed.

Lemma T_lift_unit (PA : path -> Prop) s c r : AB PA c -> T PA s (fst (lift_unit s c r)).
Proof.
  intros H. unfold lift_unit. cbn [fst].
  apply T_trans with (with_fs s (fst r)); [apply T_of_same, with_fs_same|apply T_logc; exact H].
Qed.
Lemma do_lstat_T (PA : path -> Prop) s p : PA p -> T PA s (fst (do_lstat s p)).
Proof. intros H. apply T_logc, AB_bc; [exact H|exact I]. Qed.
Lemma do_stat_T (PA : path -> Prop) s p : PA p -> T PA s (fst (do_stat s p)).
Proof. intros H. apply T_logc, AB_bc; [exact H|exact I]. Qed.
Lemma alloc_T (PA : path -> Prop) s p a : PA p -> T PA s (fst (alloc s p a)).
Proof.
  intros H. unfold alloc. destruct (allocate path_eqb (hm s) p) as [m h] eqn:E. cbn [fst]. split.
  - intros b Hb. left. exact Hb.
  - intros h' q Hq. change (get m h' = Some q) in Hq.
    pose proof (allocate_get path_eqb (hm s) p h' q) as A. rewrite E in A. cbn [fst snd] in A.
    destruct (A Hq) as [[_ ->]|G]; [right; exact H|left; exact G].
Qed.

Lemma lookup_node_get s h p a : lookup_node s h = Some (p, a) -> get (hm s) h = Some p.
Proof. unfold lookup_node. destruct (get (hm s) h); [|discriminate]. destruct (node_get s h); [|discriminate]. congruence. Qed.
Lemma vname_of_negb n : negb (validate_name n =? st_ok) = false -> vname n.
Proof. intros H. apply negb_false_iff, N.eqb_eq in H. exact H. Qed.

(* side conditions: "this path is allowed" from the hypotheses of the handler lemma and the context *)
Ltac pa := first [ eassumption | solve [eauto 4] ].
Ltac ab :=
  first [ apply AB_bc | apply AB_bc2 ];
  [ pa | first [ exact I | split; assumption | eexists; split; [reflexivity|pa] ] ].

(* turn [E : f s .. = (s1, x)] into [T PA s s1] *)
Ltac tfact E stmt tac := let H := fresh "R" in assert (H : stmt) by tac; rewrite E in H; cbn [fst] in H.
Ltac collect :=
  repeat match goal with
  | E : ac_get ?s ?p = (_, _) |- T ?PA _ _ => tfact E (T PA s (fst (ac_get s p))) ltac:(apply T_of_same, ac_get_same); clear E
  | E : dc_get ?s ?p = (_, _) |- T ?PA _ _ => tfact E (T PA s (fst (dc_get s p))) ltac:(apply T_of_same, dc_get_same); clear E
  | E : alloc ?s ?p ?a = (_, _) |- T ?PA _ _ => tfact E (T PA s (fst (alloc s p a))) ltac:(apply alloc_T; pa); clear E
  | E : do_lstat ?s ?p = (_, _) |- T ?PA _ _ => tfact E (T PA s (fst (do_lstat s p))) ltac:(apply do_lstat_T; pa); clear E
  | E : do_stat ?s ?p = (_, _) |- T ?PA _ _ => tfact E (T PA s (fst (do_stat s p))) ltac:(apply do_stat_T; pa); clear E
  end; intros.
Ltac chain :=
  cbn [fst snd];
  repeat match goal with
  | |- T _ ?a ?a => apply T_refl
  | H : T _ ?a ?b |- T _ ?a ?b => exact H
  | |- T _ ?a (ac_put ?b _ _) => apply T_trans with b; [|apply T_of_same, ac_put_same]
  | |- T _ ?a (ac_put_negative ?b _) => apply T_trans with b; [|apply T_of_same, ac_put_negative_same]
  | |- T _ ?a (ac_invalidate ?b _) => apply T_trans with b; [|apply T_of_same, ac_invalidate_same]
  | |- T _ ?a (ac_invalidate_tree ?b _) => apply T_trans with b; [|apply T_of_same, ac_invalidate_tree_same]
  | |- T _ ?a (ac_invalidate_neg_in_dir ?b _) => apply T_trans with b; [|apply T_of_same, ac_invalidate_neg_same]
  | |- T _ ?a (dc_put ?b _ _) => apply T_trans with b; [|apply T_of_same, dc_put_same]
  | |- T _ ?a (dc_invalidate ?b _) => apply T_trans with b; [|apply T_of_same, dc_invalidate_same]
  | |- T _ ?a (dc_invalidate_tree ?b _) => apply T_trans with b; [|apply T_of_same, dc_invalidate_tree_same]
  | |- T _ ?a (node_set ?b _ _) => apply T_trans with b; [|apply T_of_same, node_set_same]
  | |- T _ ?a (node_upd ?b _ _) => apply T_trans with b; [|apply T_of_same, node_upd_same]
  | |- T _ ?a (with_fs ?b _) => apply T_trans with b; [|apply T_of_same, with_fs_same]
  | |- T _ ?a (invalidate_for_new ?b _ _) => unfold invalidate_for_new
  | |- T _ ?a (logc ?b ?c) => apply T_trans with b; [|apply T_logc; ab]
  | |- T _ ?a (fst (lift_unit ?b ?c ?r)) => apply T_trans with b; [|apply T_lift_unit; ab]
  | H : T _ ?b ?c |- T _ ?a ?c => apply T_trans with b; [|exact H]
  end.

Lemma srv_lookup_T (PA : path -> Prop) s p : PA p -> T PA s (fst (srv_lookup s p)).
Proof. intros H. unfold srv_lookup. des; collect; chain. Qed.
Lemma srv_getattr_T (PA : path -> Prop) s p u g : PA p -> T PA s (fst (srv_getattr s p u g)).
Proof. intros H. unfold srv_getattr. des; collect; chain. Qed.
Lemma getattr_h_T (PA : path -> Prop) s h p : PA p -> T PA s (fst (getattr_h s h p)).
Proof. intros H. unfold getattr_h. des; apply srv_getattr_T; exact H. Qed.

Ltac collect2 :=
  repeat match goal with
  | E : srv_lookup ?s ?p = (_, _) |- T ?PA _ _ => tfact E (T PA s (fst (srv_lookup s p))) ltac:(apply srv_lookup_T; pa); clear E
  | E : getattr_h ?s ?h ?p = (_, _) |- T ?PA _ _ => tfact E (T PA s (fst (getattr_h s h p))) ltac:(apply getattr_h_T; pa); clear E
  | E : srv_getattr ?s ?p ?u ?g = (_, _) |- T ?PA _ _ =>
      tfact E (T PA s (fst (srv_getattr s p u g))) ltac:(apply srv_getattr_T; pa); clear E
  end; intros; collect.

(* bring the facts the side conditions need into their usable form *)
Ltac ctx :=
  repeat match goal with
  | L : lookup_node _ _ = Some (_, _) |- _ => apply lookup_node_get in L
  | V : negb (validate_name _ =? st_ok) = false |- _ => apply vname_of_negb in V
  | O : _ || _ = false |- _ => apply orb_false_elim in O; destruct O
  end.
(* tail positions: the state is the first component of a call that was not destructed *)
Ltac chain2 :=
  chain;
  repeat (match goal with
  | |- T _ ?a (fst (srv_lookup ?b _)) => apply T_trans with b; [|apply srv_lookup_T; pa]
  | |- T _ ?a (fst (getattr_h ?b _ _)) => apply T_trans with b; [|apply getattr_h_T; pa]
  | |- T _ ?a (fst (alloc ?b _ _)) => apply T_trans with b; [|apply alloc_T; pa]
  | |- T _ ?a (fst (do_lstat ?b _)) => apply T_trans with b; [|apply do_lstat_T; pa]
  | |- T _ ?a (fst (do_stat ?b _)) => apply T_trans with b; [|apply do_stat_T; pa]
  end; chain).
Ltac handler0 := cbv zeta; des; ctx; collect2; chain2.

(* ---------- shared pieces of the mutating handlers ---------- *)
Lemma srv_setattr_T (PA : path -> Prop) s h p cur new : PA p -> T PA s (fst (srv_setattr s h p cur new)).
Proof. intros H. unfold srv_setattr. handler0. Qed.
Lemma created_reply_T (PA : path -> Prop) s h d p a dpre : PA d -> PA p -> T PA s (fst (created_reply s h d p a dpre)).
Proof. intros H H'. unfold created_reply. handler0. Qed.
Lemma failed_reply_T (PA : path -> Prop) s h d st_ dpre : PA d -> T PA s (fst (failed_reply s h d st_ dpre)).
Proof. intros H. unfold failed_reply. handler0. Qed.
Lemma current_attrs_T (PA : path -> Prop) s h p : PA p -> T PA s (fst (current_attrs s h p)).
Proof. intros H. unfold current_attrs. handler0. Qed.
Lemma srv_create_T (PA : path -> Prop) s d n perm uid gid : PA (d ++ [n]) -> T PA s (fst (srv_create s d n perm uid gid)).
Proof. intros H. unfold srv_create. handler0. Qed.

Ltac collect3 :=
  repeat match goal with
  | E : srv_setattr ?s ?h ?p ?c ?n = (_, _) |- T ?PA _ _ =>
      tfact E (T PA s (fst (srv_setattr s h p c n))) ltac:(apply srv_setattr_T; pa); clear E
  | E : created_reply ?s ?h ?d ?p ?a ?dp = (_, _) |- T ?PA _ _ =>
      tfact E (T PA s (fst (created_reply s h d p a dp))) ltac:(apply created_reply_T; pa); clear E
  | E : failed_reply ?s ?h ?d ?c ?dp = (_, _) |- T ?PA _ _ =>
      tfact E (T PA s (fst (failed_reply s h d c dp))) ltac:(apply failed_reply_T; pa); clear E
  | E : current_attrs ?s ?h ?p = (_, _) |- T ?PA _ _ =>
      tfact E (T PA s (fst (current_attrs s h p))) ltac:(apply current_attrs_T; pa); clear E
  | E : srv_create ?s ?d ?n ?m ?u ?g = (_, _) |- T ?PA _ _ =>
      tfact E (T PA s (fst (srv_create s d n m u g))) ltac:(apply srv_create_T; pa); clear E
  end; collect2.
Ltac chain3 :=
  chain2;
  repeat (match goal with
  | |- T _ ?a (fst (created_reply ?b _ _ _ _ _)) => apply T_trans with b; [|apply created_reply_T; pa]
  | |- T _ ?a (fst (failed_reply ?b _ _ _ _)) => apply T_trans with b; [|apply failed_reply_T; pa]
  | |- T _ ?a (fst (current_attrs ?b _ _)) => apply T_trans with b; [|apply current_attrs_T; pa]
  | |- T _ ?a (fst (srv_create ?b _ _ _ _ _)) => apply T_trans with b; [|apply srv_create_T; pa]
  | |- T _ ?a (fst (srv_setattr ?b _ _ _ _)) => apply T_trans with b; [|apply srv_setattr_T; pa]
  end; chain2).
Ltac handler := cbv zeta; des; ctx; collect3; chain3.
