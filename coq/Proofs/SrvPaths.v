(* Proofs/SrvPaths.v — property C07 on the server model (Model/Srv.v): every path handed to the backend is
   a handle path of the pre-state, or such a path joined with one validated component (or, for the two
   directory-listing procedures, with one sane name of the listing; or, for MNT, the cleaned path a handle
   is requested for); all of them are lists of good components, which render to absolute normalized path
   strings; symlink targets are relative and free of ".." components; READLINK never returns a relative
   target with a ".." component.

   Structure: names and rendering; the handle table; a pre/post relation [T PA s s'] ("every call added to
   the log is allowed by PA, every handle path of s' is a handle path of s or allowed by PA"), one lemma per
   primitive, then a [des]/[collect]/[chain] walk through every handler, generic in PA; [step]; [hrun]. *)
From Coq Require Import List NArith ZArith Bool Lia.
From Verif Require Import Gen.Facts Model.Handles Model.Backend Model.Srv.
Import ListNotations.
Open Scope N_scope.

(* ====================================================================================================== *)
(* 1. bytes, names, components                                                                            *)
(* ====================================================================================================== *)
Lemma bytes_eqb_iff a : forall b, bytes_eqb a b = true <-> a = b.
Proof.
  induction a as [|x a IH]; intros [|y b]; cbn; split; try discriminate; try reflexivity.
  - intros H. apply andb_true_iff in H. destruct H as [H1 H2]. apply N.eqb_eq in H1. apply IH in H2. congruence.
  - intros [= -> ->]. rewrite N.eqb_refl. cbn. apply IH. reflexivity.
Qed.
Lemma is_dot_iff n : is_dot n = true <-> n = [dot].
Proof. apply bytes_eqb_iff. Qed.
Lemma is_dotdot_iff n : is_dotdot n = true <-> n = [dot; dot].
Proof. apply bytes_eqb_iff. Qed.
Lemma is_dot_false n : is_dot n = false <-> n <> [dot].
Proof. rewrite <- is_dot_iff. destruct (is_dot n); split; congruence. Qed.
Lemma is_dotdot_false n : is_dotdot n = false <-> n <> [dot; dot].
Proof. rewrite <- is_dotdot_iff. destruct (is_dotdot n); split; congruence. Qed.

Lemma existsb_eqb_false (x : N) l : existsb (fun b => b =? x) l = false <-> ~ In x l.
Proof.
  induction l as [|y l IH]; cbn; [tauto|]. rewrite orb_false_iff, IH, N.eqb_neq. split.
  - intros [A B] [C|C]; [congruence|tauto].
  - intros H. split; [intros E; apply H; left; exact E|intros C; apply H; right; exact C].
Qed.
Lemma existsb_sep_false l :
  existsb (fun b => (b =? slash) || (b =? backslash)) l = false <-> ~ In slash l /\ ~ In backslash l.
Proof.
  induction l as [|y l IH]; cbn; [tauto|]. rewrite orb_false_iff, IH, orb_false_iff, !N.eqb_neq. split.
  - intros [[A B] [C D]]. split; intros [E|E]; auto.
  - intros [A B]. split; [split|split]; intros E.
    + apply A. left. exact E.
    + apply B. left. exact E.
    + apply A. right. exact E.
    + apply B. right. exact E.
Qed.

(* the validated-component predicate of the property *)
Definition vname (n : name) : Prop := validate_name n = st_ok.

Lemma inval_nonzero : NFSERR_INVAL <> st_ok. Proof. vm_compute. discriminate. Qed.
Lemma toolong_nonzero : NFSERR_NAMETOOLONG <> st_ok. Proof. vm_compute. discriminate. Qed.

Lemma vname_spec n :
  vname n <->
  n <> [] /\ N.of_nat (length n) <= 255 /\ ~ In 0 n /\ ~ In slash n /\ ~ In backslash n /\ n <> [dot] /\ n <> [dot; dot].
Proof.
  unfold vname, validate_name.
  destruct n as [|x n']; [split; [intros H; exfalso; exact (inval_nonzero H)|intros [H _]; congruence]|].
  set (n := x :: n').
  destruct (255 <? N.of_nat (length n)) eqn:E1.
  { apply N.ltb_lt in E1. split; [intros H; exfalso; exact (toolong_nonzero H)|intros (_ & H & _); lia]. }
  apply N.ltb_ge in E1.
  destruct (existsb (fun b => b =? 0) n) eqn:E2.
  { split; [intros H; exfalso; exact (inval_nonzero H)|]. intros (_ & _ & H & _). apply existsb_eqb_false in H. congruence. }
  apply existsb_eqb_false in E2.
  destruct (existsb (fun b => (b =? slash) || (b =? backslash)) n) eqn:E3.
  { split; [intros H; exfalso; exact (inval_nonzero H)|]. intros (_ & _ & _ & H1 & H2 & _).
    assert (F : existsb (fun b => (b =? slash) || (b =? backslash)) n = false) by (apply existsb_sep_false; auto). congruence. }
  apply existsb_sep_false in E3. destruct E3 as [E3 E4].
  destruct (is_dot n || is_dotdot n) eqn:E5.
  { split; [intros H; exfalso; exact (inval_nonzero H)|]. intros (_ & _ & _ & _ & _ & H1 & H2).
    apply orb_true_iff in E5. destruct E5 as [E5|E5]; [apply is_dot_iff in E5|apply is_dotdot_iff in E5]; contradiction. }
  apply orb_false_iff in E5. destruct E5 as [E5 E6]. apply is_dot_false in E5. apply is_dotdot_false in E6.
  split; [intros _|reflexivity]. repeat split; auto. unfold n; discriminate.
Qed.

(* good components and good paths *)
Definition gcomp (c : name) : Prop := c <> [] /\ ~ In slash c /\ c <> [dot] /\ c <> [dot; dot].
Definition gpath (p : path) : Prop := Forall gcomp p.

Lemma vname_gcomp c : vname c -> gcomp c.
Proof. intros H. apply vname_spec in H. unfold gcomp. tauto. Qed.

Lemma name_sane_spec c :
  name_sane c = true <-> c <> [] /\ ~ In slash c /\ ~ In backslash c /\ c <> [dot] /\ c <> [dot; dot].
Proof.
  unfold name_sane. rewrite !andb_true_iff, !negb_true_iff, existsb_sep_false, is_dot_false, is_dotdot_false.
  destruct c as [|x c'].
  - split; [intros [[[H _] _] _]; discriminate|intros [H _]; congruence].
  - split.
    + intros [[[_ H1] H2] H3]. split; [discriminate|tauto].
    + intros (_ & H1 & H2 & H3 & H4). repeat split; auto.
Qed.
Lemma name_sane_gcomp c : name_sane c = true -> gcomp c.
Proof. intros H. apply name_sane_spec in H. unfold gcomp. tauto. Qed.
Lemma sanitize_ok_sane d n : sanitize_ok d n = true -> name_sane n = true.
Proof. unfold sanitize_ok. intros H. apply andb_true_iff in H. tauto. Qed.

Lemma gpath_app p c : gpath p -> gcomp c -> gpath (p ++ [c]).
Proof. intros A B. apply Forall_app. split; [exact A|constructor; [exact B|constructor]]. Qed.

(* ---------- the cleaned MNT path ---------- *)
Lemma split_aux_comps s : forall cur, ~ In slash cur ->
  forall c, In c (split_aux cur s) -> c <> [] /\ ~ In slash c.
Proof.
  induction s as [|x s IH]; intros cur Hc c; cbn [split_aux].
  - destruct cur as [|y cur']; [intros []|]. intros [<-|[]]. split.
    + intros E. apply (f_equal (@length N)) in E. rewrite rev_length in E. discriminate.
    + intros H. apply in_rev in H. exact (Hc H).
  - destruct (x =? slash) eqn:E.
    + destruct cur as [|y cur'].
      * apply IH. intros [].
      * intros [<-|H]; [|exact (IH [] (fun f => f) c H)]. split.
        -- intros F. apply (f_equal (@length N)) in F. rewrite rev_length in F. discriminate.
        -- intros H. apply in_rev in H. exact (Hc H).
    + apply IH. apply N.eqb_neq in E. intros [F|F]; [congruence|exact (Hc F)].
Qed.
Lemma split_path_comps s c : In c (split_path s) -> c <> [] /\ ~ In slash c /\ c <> [dot].
Proof.
  unfold split_path. intros H. apply filter_In in H. destruct H as [H1 H2].
  apply (split_aux_comps s [] (fun f => f)) in H1. apply negb_true_iff, is_dot_false in H2. tauto.
Qed.
Lemma clean_comps_gpath l : forall acc, Forall gcomp acc ->
  (forall c, In c l -> c <> [] /\ ~ In slash c /\ c <> [dot]) -> gpath (clean_comps acc l).
Proof.
  induction l as [|c l IH]; intros acc Ha Hl; cbn [clean_comps].
  - unfold gpath. apply Forall_rev. exact Ha.
  - destruct (is_dotdot c) eqn:E.
    + apply IH; [|intros x Hx; apply Hl; right; exact Hx].
      destruct acc as [|a acc']; [constructor|]. cbn. inversion Ha; assumption.
    + apply IH; [|intros x Hx; apply Hl; right; exact Hx].
      constructor; [|exact Ha]. apply is_dotdot_false in E.
      destruct (Hl c (or_introl eq_refl)) as (A & B & C). unfold gcomp. tauto.
Qed.
Lemma mnt_path_gpath p : gpath (clean_comps [] (split_path p)).
Proof. apply clean_comps_gpath; [constructor|]. intros c. apply split_path_comps. Qed.

(* ====================================================================================================== *)
(* 2. component lists are absolute normalized path strings                                                *)
(* ====================================================================================================== *)
(* strings.Split(s, "/") as a top-level function; [raw_split] of the model is this one *)
Fixpoint rs_go (cur : list N) (s : list N) : list name :=
  match s with [] => [rev cur] | c :: r => if c =? slash then rev cur :: rs_go [] r else rs_go (c :: cur) r end.
Lemma raw_split_rs s : raw_split s = rs_go [] s.
Proof. reflexivity. Qed.

(* absolute and normalized: "/" or "/c1/c2/..." with no empty, "." or ".." component (as in Corr/C07.v) *)
Definition clean_abs (s : list N) : bool :=
  is_abs s &&
  match s with
  | [_] => true
  | _ => let comps := raw_split (tl s) in
         forallb (fun c => negb (match c with [] => true | _ => false end) && negb (is_dot c) && negb (is_dotdot c)) comps
  end.
Definition comps_of (s : list N) : path := match s with [_] => [] | _ => raw_split (tl s) end.

Lemma rs_go_noslash c : forall cur rest, ~ In slash c -> rs_go cur (c ++ rest) = rs_go (rev c ++ cur) rest.
Proof.
  induction c as [|x c IH]; intros cur rest H; [reflexivity|].
  cbn [app rs_go]. destruct (x =? slash) eqn:E.
  - apply N.eqb_eq in E. exfalso. apply H. left. exact E.
  - rewrite IH; [|intros F; apply H; right; exact F]. cbn [rev]. rewrite <- app_assoc. reflexivity.
Qed.
(* "c1/c2/.../cn" splits back into its components *)
Lemma rs_go_join r : forall c, ~ In slash c -> Forall gcomp r -> rs_go [] (c ++ render_aux r) = c :: r.
Proof.
  induction r as [|c2 r IH]; intros c Hc Hr; cbn [render_aux].
  - rewrite rs_go_noslash by exact Hc. cbn [rs_go]. rewrite app_nil_r, rev_involutive. reflexivity.
  - rewrite rs_go_noslash by exact Hc. cbn [rs_go]. rewrite N.eqb_refl, app_nil_r, rev_involutive.
    inversion Hr as [|? ? G1 G2]; subst. rewrite IH; [reflexivity|apply G1|exact G2].
Qed.

Lemma render_clean p : gpath p -> clean_abs (render p) = true /\ comps_of (render p) = p.
Proof.
  intros G. destruct p as [|c r]; [split; reflexivity|].
  inversion G as [|? ? Gc Gr]; subst. destruct Gc as (Gne & Gs & Gd & Gdd).
  destruct c as [|x c']; [congruence|].
  assert (J : raw_split (tl (render ((x :: c') :: r))) = (x :: c') :: r).
  { rewrite raw_split_rs. cbn [render render_aux tl]. apply (rs_go_join r (x :: c') Gs Gr). }
  split.
  - unfold clean_abs. cbn [render render_aux is_abs app]. rewrite N.eqb_refl. cbn [andb].
    change (slash :: x :: c' ++ render_aux r) with (render ((x :: c') :: r)). rewrite J.
    apply forallb_forall. intros y Hy.
    assert (Gy : gcomp y) by (apply (proj1 (Forall_forall gcomp _) G); exact Hy).
    destruct Gy as (A & _ & B & C). apply is_dot_false in B. apply is_dotdot_false in C. rewrite B, C.
    destruct y; [congruence|reflexivity].
  - unfold comps_of. cbn [render render_aux app].
    change (slash :: x :: c' ++ render_aux r) with (render ((x :: c') :: r)). exact J.
Qed.

(* a rendered good path contains its components and nothing else: it is absolute, and every "/"-separated
   component is non-empty, not "." and not ".." *)
Lemma render_abs p : is_abs (render p) = true.
Proof. destruct p; reflexivity. Qed.

(* ---------- ".." components of a target ---------- *)
Lemma target_no_dotdot_spec t : target_has_dotdot t = false <-> ~ In [dot; dot] (raw_split t).
Proof.
  unfold target_has_dotdot. generalize (raw_split t). intros l.
  induction l as [|c l IH]; cbn; [tauto|]. rewrite orb_false_iff, IH, is_dotdot_false. split.
  - intros [A B] [C|C]; [congruence|tauto].
  - intros H. split; [intros E; apply H; left; exact E|intros C; apply H; right; exact C].
Qed.

(* ====================================================================================================== *)
(* 3. the handle table: allocation only adds (returned handle, p); eviction only removes                  *)
(* ====================================================================================================== *)
Lemma assocH_filter {P} (h v : N) (l : list (N * P)) :
  assocH h (filter (fun e => negb (fst e =? v)) l) = if h =? v then None else assocH h l.
Proof.
  induction l as [|[k q] r IH]; cbn [filter assocH fst]; [destruct (h =? v); reflexivity|].
  destruct (k =? v) eqn:E; cbn [negb].
  - rewrite IH. destruct (h =? v) eqn:F; [reflexivity|].
    destruct (k =? h) eqn:G; [|reflexivity].
    apply N.eqb_eq in E. apply N.eqb_eq in G. apply N.eqb_neq in F. congruence.
  - cbn [assocH]. rewrite IH. destruct (h =? v) eqn:F; [|reflexivity].
    destruct (k =? h) eqn:G; [|reflexivity].
    apply N.eqb_neq in E. apply N.eqb_eq in G. apply N.eqb_eq in F. congruence.
Qed.
Lemma get_drop_id {P} (m : fhmap P) v h : get (drop_id v m) h = if h =? v then None else get m h.
Proof. unfold get, drop_id. cbn [handles]. apply assocH_filter. Qed.
Lemma evict_get {P} n keep : forall (m : fhmap P) h q, get (evict n keep m) h = Some q -> get m h = Some q.
Proof.
  induction n as [|n IH]; intros m h q; cbn [evict]; [auto|].
  destruct (filter (fun e => negb (fst e =? keep)) (handles m)) as [|[h0 q0] r]; [auto|].
  intros H. apply IH in H. rewrite get_drop_id in H. destruct (h =? _); [discriminate|exact H].
Qed.
(* every (handle, path) of the table after [allocate m p] is (returned handle, p) or was in m *)
Lemma allocate_get {P} (eqb : P -> P -> bool) (m : fhmap P) p h q :
  get (fst (allocate eqb m p)) h = Some q ->
  (h = snd (allocate eqb m p) /\ q = p) \/ get m h = Some q.
Proof.
  unfold allocate. destruct (assocP eqb p (byPath m)) as [h1|]; [cbn [fst]; auto|].
  destruct (pop_min (free m)) as [[h0 f]|].
  - match goal with |- context [if ?c then _ else _] => destruct c end; cbn [fst snd]; intros H.
    + apply evict_get in H. unfold get in H. cbn [handles assocH] in H.
      destruct (h0 =? h) eqn:E; [apply N.eqb_eq in E; left; split; congruence|right; exact H].
    + unfold get in H. cbn [handles assocH] in H.
      destruct (h0 =? h) eqn:E; [apply N.eqb_eq in E; left; split; congruence|right; exact H].
  - match goal with |- context [if ?c then _ else _] => destruct c end; cbn [fst snd]; intros H.
    + apply evict_get in H. unfold get in H. cbn [handles assocH] in H.
      destruct (next m =? h) eqn:E; [apply N.eqb_eq in E; left; split; congruence|right; exact H].
    + unfold get in H. cbn [handles assocH] in H.
      destruct (next m =? h) eqn:E; [apply N.eqb_eq in E; left; split; congruence|right; exact H].
Qed.

(* ====================================================================================================== *)
(* 4. the pre/post relation                                                                               *)
(* ====================================================================================================== *)
(* a backend call is allowed by PA: its path is; the second path of a Rename is the rendering of an
   allowed path; the target of a Symlink is relative and has no ".." component *)
Definition extra_ok (PA : path -> Prop) (o : bop) (t : list N) : Prop :=
  match o with
  | BRename => exists np, t = render np /\ PA np
  | BSymlink => is_abs t = false /\ target_has_dotdot t = false
  | _ => True
  end.
Definition AB (PA : path -> Prop) (b : bcall) : Prop := PA (b_path b) /\ extra_ok PA (b_op b) (b_path2 b).
Definition T (PA : path -> Prop) (s s' : srv) : Prop :=
  (forall b, In b (blog s') -> In b (blog s) \/ AB PA b) /\
  (forall h q, get (hm s') h = Some q -> get (hm s) h = Some q \/ PA q).

Lemma T_refl (PA : path -> Prop) s : T PA s s.
Proof. split; auto. Qed.
Lemma T_trans (PA : path -> Prop) a b c : T PA a b -> T PA b c -> T PA a c.
Proof.
  intros [A1 A2] [B1 B2]. split.
  - intros x Hx. destruct (B1 x Hx) as [H|H]; [apply A1; exact H|right; exact H].
  - intros h q Hq. destruct (B2 h q Hq) as [H|H]; [apply A2; exact H|right; exact H].
Qed.

Definition same (s s' : srv) : Prop := blog s' = blog s /\ hm s' = hm s.
Lemma same_refl s : same s s. Proof. split; reflexivity. Qed.
Lemma T_of_same (PA : path -> Prop) s s' : same s s' -> T PA s s'.
Proof. intros [A B]. split; [rewrite A|rewrite B]; auto. Qed.

Lemma AB_bc (PA : path -> Prop) o p : PA p -> extra_ok PA o [] -> AB PA (bc o p).
Proof. intros A B. split; assumption. Qed.
Lemma AB_bc2 (PA : path -> Prop) o p t a b : PA p -> extra_ok PA o t -> AB PA (bc2 o p t a b).
Proof. intros A B. split; assumption. Qed.
Lemma T_logc (PA : path -> Prop) s c : AB PA c -> T PA s (logc s c).
Proof. intros H. split; [intros b [<-|Hb]; auto|auto]. Qed.

(* matches on numbers only compute reply fields or attribute values, never a state: they are left alone *)
Ltac not_number x := lazymatch type of x with N => fail | positive => fail | _ => idtac end.
Ltac has_inner_match x :=
  match x with context [match ?y with _ => _ end] => not_number y end.
(* destruct every scrutinee, innermost first *)
Ltac des :=
  repeat (cbn [fst snd]; match goal with
  | |- context [match ?x with _ => _ end] =>
      not_number x; tryif has_inner_match x then fail else destruct x eqn:?
  end).

Lemma with_fs_same s f : same s (with_fs s f). Proof. split; reflexivity. Qed.
Lemma with_ac_same s a : same s (with_ac s a). Proof. split; reflexivity. Qed.
Lemma with_dc_same s a : same s (with_dc s a). Proof. split; reflexivity. Qed.
Lemma with_nodes_same s a : same s (with_nodes s a). Proof. split; reflexivity. Qed.
Lemma with_conf_same s a : same s (with_conf s a). Proof. split; reflexivity. Qed.
Lemma ac_get_same s p : same s (fst (ac_get s p)).
Proof. unfold ac_get. des; cbn [fst]; auto using same_refl, with_ac_same. Qed.
Lemma ac_put_same s p a : same s (ac_put s p a). Proof. apply with_ac_same. Qed.
Lemma ac_put_negative_same s p : same s (ac_put_negative s p).
Proof. unfold ac_put_negative. des; auto using same_refl, with_ac_same. Qed.
Lemma ac_invalidate_same s p : same s (ac_invalidate s p). Proof. apply with_ac_same. Qed.
Lemma ac_invalidate_tree_same s p : same s (ac_invalidate_tree s p). Proof. apply with_ac_same. Qed.
Lemma ac_invalidate_neg_same s p : same s (ac_invalidate_neg_in_dir s p). Proof. apply with_ac_same. Qed.
Lemma dc_get_same s p : same s (fst (dc_get s p)).
Proof. unfold dc_get. des; cbn [fst]; auto using same_refl, with_dc_same. Qed.
Lemma dc_put_same s p n : same s (dc_put s p n).
Proof. unfold dc_put. des; auto using same_refl, with_dc_same. Qed.
Lemma dc_invalidate_same s p : same s (dc_invalidate s p).
Proof. unfold dc_invalidate. des; auto using same_refl, with_dc_same. Qed.
Lemma dc_invalidate_tree_same s p : same s (dc_invalidate_tree s p).
Proof. unfold dc_invalidate_tree. des; auto using same_refl, with_dc_same. Qed.
Lemma node_set_same s h a : same s (node_set s h a). Proof. apply with_nodes_same. Qed.
Lemma node_upd_same s h f : same s (node_upd s h f).
Proof. unfold node_upd. des; auto using same_refl, node_set_same. Qed.

Lemma T_lift_unit (PA : path -> Prop) s c r : AB PA c -> T PA s (fst (lift_unit s c r)).
Proof.
  intros H. unfold lift_unit. cbn [fst].
  apply T_trans with (with_fs s (fst r)); [apply T_of_same, with_fs_same|apply T_logc; exact H].
Qed.
Lemma do_lstat_T (PA : path -> Prop) s p : PA p -> T PA s (fst (do_lstat s p)).
Proof. intros H. apply T_logc, AB_bc; [exact H|exact I]. Qed.
Lemma do_stat_T (PA : path -> Prop) s p : PA p -> T PA s (fst (do_stat s p)).
Proof. intros H. apply T_logc, AB_bc; [exact H|exact I]. Qed.
Lemma alloc_T (PA : path -> Prop) s p a : PA p -> T PA s (fst (alloc s p a)).
Proof.
  intros H. unfold alloc. destruct (allocate path_eqb (hm s) p) as [m h] eqn:E. cbn [fst]. split.
  - intros b Hb. left. exact Hb.
  - intros h' q Hq. change (get m h' = Some q) in Hq.
    pose proof (allocate_get path_eqb (hm s) p h' q) as A. rewrite E in A. cbn [fst snd] in A.
    destruct (A Hq) as [[_ ->]|G]; [right; exact H|left; exact G].
Qed.

Lemma lookup_node_get s h p a : lookup_node s h = Some (p, a) -> get (hm s) h = Some p.
Proof. unfold lookup_node. destruct (get (hm s) h); [|discriminate]. destruct (node_get s h); [|discriminate]. congruence. Qed.
Lemma vname_of_negb n : negb (validate_name n =? st_ok) = false -> vname n.
Proof. intros H. apply negb_false_iff, N.eqb_eq in H. exact H. Qed.

(* side conditions: "this path is allowed" from the hypotheses of the handler lemma and the context *)
Ltac pa := first [ eassumption | solve [eauto 4] ].
Ltac ab :=
  first [ apply AB_bc | apply AB_bc2 ];
  [ pa | first [ exact I | split; assumption | eexists; split; [reflexivity|pa] ] ].

(* turn [E : f s .. = (s1, x)] into [T PA s s1] *)
Ltac tfact E stmt tac := let H := fresh "R" in assert (H : stmt) by tac; rewrite E in H; cbn [fst] in H.
Ltac collect :=
  repeat match goal with
  | E : ac_get ?s ?p = (_, _) |- T ?PA _ _ => tfact E (T PA s (fst (ac_get s p))) ltac:(apply T_of_same, ac_get_same); clear E
  | E : dc_get ?s ?p = (_, _) |- T ?PA _ _ => tfact E (T PA s (fst (dc_get s p))) ltac:(apply T_of_same, dc_get_same); clear E
  | E : alloc ?s ?p ?a = (_, _) |- T ?PA _ _ => tfact E (T PA s (fst (alloc s p a))) ltac:(apply alloc_T; pa); clear E
  | E : do_lstat ?s ?p = (_, _) |- T ?PA _ _ => tfact E (T PA s (fst (do_lstat s p))) ltac:(apply do_lstat_T; pa); clear E
  | E : do_stat ?s ?p = (_, _) |- T ?PA _ _ => tfact E (T PA s (fst (do_stat s p))) ltac:(apply do_stat_T; pa); clear E
  end; intros.
Ltac chain :=
  cbn [fst snd];
  repeat match goal with
  | |- T _ ?a ?a => apply T_refl
  | H : T _ ?a ?b |- T _ ?a ?b => exact H
  | |- T _ ?a (ac_put ?b _ _) => apply T_trans with b; [|apply T_of_same, ac_put_same]
  | |- T _ ?a (ac_put_negative ?b _) => apply T_trans with b; [|apply T_of_same, ac_put_negative_same]
  | |- T _ ?a (ac_invalidate ?b _) => apply T_trans with b; [|apply T_of_same, ac_invalidate_same]
  | |- T _ ?a (ac_invalidate_tree ?b _) => apply T_trans with b; [|apply T_of_same, ac_invalidate_tree_same]
  | |- T _ ?a (ac_invalidate_neg_in_dir ?b _) => apply T_trans with b; [|apply T_of_same, ac_invalidate_neg_same]
  | |- T _ ?a (dc_put ?b _ _) => apply T_trans with b; [|apply T_of_same, dc_put_same]
  | |- T _ ?a (dc_invalidate ?b _) => apply T_trans with b; [|apply T_of_same, dc_invalidate_same]
  | |- T _ ?a (dc_invalidate_tree ?b _) => apply T_trans with b; [|apply T_of_same, dc_invalidate_tree_same]
  | |- T _ ?a (node_set ?b _ _) => apply T_trans with b; [|apply T_of_same, node_set_same]
  | |- T _ ?a (node_upd ?b _ _) => apply T_trans with b; [|apply T_of_same, node_upd_same]
  | |- T _ ?a (with_fs ?b _) => apply T_trans with b; [|apply T_of_same, with_fs_same]
  | |- T _ ?a (invalidate_for_new ?b _ _) => unfold invalidate_for_new
  | |- T _ ?a (logc ?b ?c) => apply T_trans with b; [|apply T_logc; ab]
  | |- T _ ?a (fst (lift_unit ?b ?c ?r)) => apply T_trans with b; [|apply T_lift_unit; ab]
  | H : T _ ?b ?c |- T _ ?a ?c => apply T_trans with b; [|exact H]
  end.

Lemma srv_lookup_T (PA : path -> Prop) s p : PA p -> T PA s (fst (srv_lookup s p)).
Proof. intros H. unfold srv_lookup. des; collect; chain. Qed.
Lemma srv_getattr_T (PA : path -> Prop) s p u g : PA p -> T PA s (fst (srv_getattr s p u g)).
Proof. intros H. unfold srv_getattr. des; collect; chain. Qed.
Lemma getattr_h_T (PA : path -> Prop) s h p : PA p -> T PA s (fst (getattr_h s h p)).
Proof. intros H. unfold getattr_h. des; apply srv_getattr_T; exact H. Qed.

Ltac collect2 :=
  repeat match goal with
  | E : srv_lookup ?s ?p = (_, _) |- T ?PA _ _ => tfact E (T PA s (fst (srv_lookup s p))) ltac:(apply srv_lookup_T; pa); clear E
  | E : getattr_h ?s ?h ?p = (_, _) |- T ?PA _ _ => tfact E (T PA s (fst (getattr_h s h p))) ltac:(apply getattr_h_T; pa); clear E
  | E : srv_getattr ?s ?p ?u ?g = (_, _) |- T ?PA _ _ =>
      tfact E (T PA s (fst (srv_getattr s p u g))) ltac:(apply srv_getattr_T; pa); clear E
  end; intros; collect.

(* bring the facts the side conditions need into their usable form *)
Ltac ctx :=
  repeat match goal with
  | L : lookup_node _ _ = Some (_, _) |- _ => apply lookup_node_get in L
  | V : negb (validate_name _ =? st_ok) = false |- _ => apply vname_of_negb in V
  | O : _ || _ = false |- _ => apply orb_false_elim in O; destruct O
  end.
(* tail positions: the state is the first component of a call that was not destructed *)
Ltac chain2 :=
  chain;
  repeat (match goal with
  | |- T _ ?a (fst (srv_lookup ?b _)) => apply T_trans with b; [|apply srv_lookup_T; pa]
  | |- T _ ?a (fst (getattr_h ?b _ _)) => apply T_trans with b; [|apply getattr_h_T; pa]
  | |- T _ ?a (fst (alloc ?b _ _)) => apply T_trans with b; [|apply alloc_T; pa]
  | |- T _ ?a (fst (do_lstat ?b _)) => apply T_trans with b; [|apply do_lstat_T; pa]
  | |- T _ ?a (fst (do_stat ?b _)) => apply T_trans with b; [|apply do_stat_T; pa]
  end; chain).
Ltac handler0 := cbv zeta; des; ctx; collect2; chain2.

(* ---------- shared pieces of the mutating handlers ---------- *)
Lemma srv_setattr_T (PA : path -> Prop) s h p cur new : PA p -> T PA s (fst (srv_setattr s h p cur new)).
Proof. intros H. unfold srv_setattr. handler0. Qed.
Lemma created_reply_T (PA : path -> Prop) s h d p a dpre : PA d -> PA p -> T PA s (fst (created_reply s h d p a dpre)).
Proof. intros H H'. unfold created_reply. handler0. Qed.
Lemma failed_reply_T (PA : path -> Prop) s h d st_ dpre : PA d -> T PA s (fst (failed_reply s h d st_ dpre)).
Proof. intros H. unfold failed_reply. handler0. Qed.
Lemma current_attrs_T (PA : path -> Prop) s h p : PA p -> T PA s (fst (current_attrs s h p)).
Proof. intros H. unfold current_attrs. handler0. Qed.
Lemma srv_create_T (PA : path -> Prop) s d n perm uid gid : PA (d ++ [n]) -> T PA s (fst (srv_create s d n perm uid gid)).
Proof. intros H. unfold srv_create. handler0. Qed.

Ltac collect3 :=
  repeat match goal with
  | E : srv_setattr ?s ?h ?p ?c ?n = (_, _) |- T ?PA _ _ =>
      tfact E (T PA s (fst (srv_setattr s h p c n))) ltac:(apply srv_setattr_T; pa); clear E
  | E : created_reply ?s ?h ?d ?p ?a ?dp = (_, _) |- T ?PA _ _ =>
      tfact E (T PA s (fst (created_reply s h d p a dp))) ltac:(apply created_reply_T; pa); clear E
  | E : failed_reply ?s ?h ?d ?c ?dp = (_, _) |- T ?PA _ _ =>
      tfact E (T PA s (fst (failed_reply s h d c dp))) ltac:(apply failed_reply_T; pa); clear E
  | E : current_attrs ?s ?h ?p = (_, _) |- T ?PA _ _ =>
      tfact E (T PA s (fst (current_attrs s h p))) ltac:(apply current_attrs_T; pa); clear E
  | E : srv_create ?s ?d ?n ?m ?u ?g = (_, _) |- T ?PA _ _ =>
      tfact E (T PA s (fst (srv_create s d n m u g))) ltac:(apply srv_create_T; pa); clear E
  end; collect2.
Ltac chain3 :=
  chain2;
  repeat (match goal with
  | |- T _ ?a (fst (created_reply ?b _ _ _ _ _)) => apply T_trans with b; [|apply created_reply_T; pa]
  | |- T _ ?a (fst (failed_reply ?b _ _ _ _)) => apply T_trans with b; [|apply failed_reply_T; pa]
  | |- T _ ?a (fst (current_attrs ?b _ _)) => apply T_trans with b; [|apply current_attrs_T; pa]
  | |- T _ ?a (fst (srv_create ?b _ _ _ _ _)) => apply T_trans with b; [|apply srv_create_T; pa]
  | |- T _ ?a (fst (srv_setattr ?b _ _ _ _)) => apply T_trans with b; [|apply srv_setattr_T; pa]
  end; chain2).
Ltac handler := cbv zeta; des; ctx; collect3; chain3.

(* ====================================================================================================== *)
(* 5. the handlers, for any PA that allows what the handler hands to the backend                           *)
(* ====================================================================================================== *)
Section HandlersSimple.
Variable PA : path -> Prop.
Variable s : srv.
Variable h : N.
Hypothesis H1 : forall p, get (hm s) h = Some p -> PA p.

Lemma handle_getattr_T : T PA s (fst (handle_getattr s h)).
Proof. unfold handle_getattr. handler. Qed.
Lemma handle_access_T c m : T PA s (fst (handle_access s c h m)).
Proof. unfold handle_access. handler. Qed.
Lemma handle_fsx_T f : T PA s (fst (handle_fsx s h f)).
Proof. unfold handle_fsx. handler. Qed.
Lemma handle_commit_T : T PA s (fst (handle_commit s h)).
Proof. unfold handle_commit. handler. Qed.
Lemma handle_readlink_T : T PA s (fst (handle_readlink s h)).
Proof. unfold handle_readlink. handler. Qed.
Lemma handle_read_T off cnt : T PA s (fst (handle_read s h off cnt)).
Proof. unfold handle_read. handler. Qed.
Lemma handle_write_T off cnt st data : T PA s (fst (handle_write s h off cnt st data)).
Proof. unfold handle_write. handler. Qed.
Lemma handle_setattr_T c sa g : T PA s (fst (handle_setattr s c h sa g)).
Proof. unfold handle_setattr. handler. Qed.

Variable n : name.
Hypothesis H2 : forall p, get (hm s) h = Some p -> vname n -> PA (p ++ [n]).
Lemma handle_lookup_T : T PA s (fst (handle_lookup s h n)).
Proof. unfold handle_lookup. handler. Qed.
Lemma handle_create_T c how sa : T PA s (fst (handle_create s c h n how sa)).
Proof. unfold handle_create. handler. Qed.
Lemma handle_mkdir_T c sa : T PA s (fst (handle_mkdir s c h n sa)).
Proof. unfold handle_mkdir. handler. Qed.
Lemma handle_symlink_T c sa t : T PA s (fst (handle_symlink s c h n sa t)).
Proof. unfold handle_symlink. handler. Qed.
Lemma handle_remove_T : T PA s (fst (handle_remove s h n)).
Proof. unfold handle_remove. handler. Qed.
Lemma handle_rmdir_T : T PA s (fst (handle_rmdir s h n)).
Proof. unfold handle_rmdir. handler. Qed.
End HandlersSimple.

Lemma handle_rename_T (PA : path -> Prop) s h1 n1 h2 n2 :
  (forall p, get (hm s) h1 = Some p -> PA p) -> (forall p, get (hm s) h1 = Some p -> vname n1 -> PA (p ++ [n1])) ->
  (forall p, get (hm s) h2 = Some p -> PA p) -> (forall p, get (hm s) h2 = Some p -> vname n2 -> PA (p ++ [n2])) ->
  T PA s (fst (handle_rename s h1 n1 h2 n2)).
Proof. intros A1 A2 B1 B2. unfold handle_rename. handler. Qed.

(* MNT: every proper non-root prefix of the cleaned path is Lstat-ed (symlink check), then the path itself *)
Lemma prefix_removelast (cp pre : path) : (exists rest, pre ++ rest = cp) -> exists rest, removelast pre ++ rest = cp.
Proof.
  intros [rest E]. destruct pre as [|c r]; [exists rest; exact E|].
  exists (last (c :: r) [] :: rest). rewrite <- E.
  assert (A : c :: r = removelast (c :: r) ++ [last (c :: r) []]) by (apply app_removelast_last; discriminate).
  transitivity ((removelast (c :: r) ++ [last (c :: r) []]) ++ rest); [rewrite <- app_assoc; reflexivity|].
  rewrite <- A. reflexivity.
Qed.
Lemma mnt_prefix_check_T (PA : path -> Prop) cp :
  (forall pre, pre <> [] -> (exists rest, pre ++ rest = cp) -> PA pre) ->
  forall fuel s pre, (exists rest, pre ++ rest = cp) -> T PA s (fst (mnt_prefix_check s pre fuel)).
Proof.
  intros Hp. induction fuel as [|k IH]; intros s pre Q; cbn [mnt_prefix_check]; [destruct pre; apply T_refl|].
  destruct pre as [|c r]; [apply T_refl|].
  assert (Hpre : PA (c :: r)) by (apply Hp; [discriminate|exact Q]).
  pose proof (do_lstat_T PA s (c :: r) Hpre) as R. destruct (do_lstat s (c :: r)) as [s1 res]. cbn [fst] in R.
  pose proof (IH s1 (removelast (c :: r)) (prefix_removelast cp (c :: r) Q)) as R2.
  destruct res as [fi|e]; [destruct (kind_eqb (fi_kind fi) KLink)|]; cbn [fst];
    first [exact R | eapply T_trans; [exact R|exact R2]].
Qed.
Lemma handle_mnt_T (PA : path -> Prop) s p :
  (forall pre rest, pre ++ rest = clean_comps [] (split_path p) -> pre <> [] \/ rest = [] -> PA pre) ->
  T PA s (fst (handle_mnt s p)).
Proof.
  intros H. unfold handle_mnt. set (cp := clean_comps [] (split_path p)) in *.
  assert (Hcp : PA cp) by (apply (H cp []); [apply app_nil_r|right; reflexivity]).
  destruct (negb (is_abs p)); [apply T_refl|]. cbv zeta.
  assert (R0 : T PA s (fst (mnt_prefix_check s (removelast cp) (length cp)))).
  { apply (mnt_prefix_check_T PA cp).
    - intros pre NE [rest E]. apply (H pre rest E). left. exact NE.
    - apply prefix_removelast. exists []. apply app_nil_r. }
  destruct (mnt_prefix_check s (removelast cp) (length cp)) as [s0 linked]. cbn [fst] in R0.
  destruct linked; [exact R0|].
  pose proof (srv_lookup_T PA s0 cp Hcp) as R1. destruct (srv_lookup s0 cp) as [s1 r]. cbn [fst] in R1.
  destruct r as [a|e]; [|cbn [fst]; eapply T_trans; eassumption].
  pose proof (alloc_T PA s1 cp a Hcp) as R2. destruct (alloc s1 cp a) as [s2 fh]. cbn [fst] in *.
  eapply T_trans; [exact R0|]. eapply T_trans; eassumption.
Qed.

(* ---------- directory listings ---------- *)
Lemma lookup_all_T (PA : path -> Prop) d names : (forall n, name_sane n = true -> PA (d ++ [n])) ->
  forall s, T PA s (fst (lookup_all s d names)) /\ forall e, In e (snd (lookup_all s d names)) -> PA (fst e).
Proof.
  intros Hd. induction names as [|n r IH]; intros s; cbn [lookup_all]; [split; [apply T_refl|intros e []]|].
  destruct (is_dot n || is_dotdot n || negb (sanitize_ok d n)) eqn:E; [apply IH|].
  apply orb_false_elim in E. destruct E as [_ E]. apply negb_false_iff, sanitize_ok_sane in E.
  pose proof (Hd n E) as Hn.
  destruct (srv_lookup s (d ++ [n])) as [s1 lr] eqn:E1.
  destruct (IH s1) as [I1 I2]. destruct (lookup_all s1 d r) as [s2 rest]. cbn [fst snd] in I1, I2.
  assert (R : T PA s s1) by (pose proof (srv_lookup_T PA s (d ++ [n]) Hn) as R; rewrite E1 in R; exact R).
  destruct lr as [a|er]; cbn [fst snd]; (split; [eapply T_trans; eassumption|]).
  - intros e [<-|He]; [exact Hn|apply I2; exact He].
  - exact I2.
Qed.
Lemma refresh_all_T (PA : path -> Prop) l : forall s, (forall e, In e l -> PA (fst e)) ->
  T PA s (fst (refresh_all s l)) /\ forall e, In e (snd (refresh_all s l)) -> PA (fst e).
Proof.
  induction l as [|[p a] r IH]; intros s Hl; cbn [refresh_all]; [split; [apply T_refl|intros e []]|].
  assert (Hp : PA p) by (apply (Hl (p, a)); left; reflexivity).
  assert (Hr : forall e, In e r -> PA (fst e)) by (intros e He; apply Hl; right; exact He).
  destruct (ac_get s p) as [s0 x] eqn:E0. destruct (do_lstat s0 p) as [s1 li] eqn:E1.
  assert (R0 : T PA s s0) by (pose proof (ac_get_same s p) as R; rewrite E0 in R; apply T_of_same; exact R).
  assert (R1 : T PA s0 s1) by (pose proof (do_lstat_T PA s0 p Hp) as R; rewrite E1 in R; exact R).
  destruct li as [fi|er].
  - destruct (IH (ac_put s1 p (attrs_of_info fi (na_fileid a) (na_uid a) (na_gid a))) Hr) as [I1 I2].
    destruct (refresh_all _ r) as [s2 rest]. cbn [fst snd] in *. split.
    + eapply T_trans; [|exact I1]. eapply T_trans; [exact R0|]. eapply T_trans; [exact R1|]. apply T_of_same, ac_put_same.
    + intros e [<-|He]; [exact Hp|apply I2; exact He].
  - destruct (IH s1 Hr) as [I1 I2]. destruct (refresh_all s1 r) as [s2 rest]. cbn [fst snd] in *. split.
    + eapply T_trans; [|exact I1]. eapply T_trans; eassumption.
    + intros e [<-|He]; [exact Hp|apply I2; exact He].
Qed.
Lemma page_sub plus limit cookie l : forall i sent len ie,
  In ie (fst (page plus limit i cookie sent len l)) -> In (snd ie) l.
Proof.
  induction l as [|e r IH]; intros i sent len ie; cbn [page]; [intros []|].
  destruct (i <? cookie); [intros H; right; eapply IH; exact H|].
  match goal with |- context [if ?c then _ else _] => destruct c end; [intros []|].
  match goal with |- context [page ?a ?b ?c ?d ?e ?f r] => pose proof (IH c e f ie) as I; destruct (page a b c d e f r) as [rest lim] end.
  cbn [fst] in *. intros [<-|H]; [left; reflexivity|right; apply I; exact H].
Qed.
Lemma alloc_all_T (PA : path -> Prop) pg : forall s, (forall ie, In ie pg -> PA (fst (snd ie))) ->
  T PA s (fst (alloc_all s pg)).
Proof.
  induction pg as [|[ck [p a]] r IH]; intros s Hl; cbn [alloc_all]; [apply T_refl|].
  assert (Hp : PA p) by (apply (Hl (ck, (p, a))); left; reflexivity).
  destruct (alloc s p a) as [s1 fh] eqn:E.
  assert (R : T PA s s1) by (pose proof (alloc_T PA s p a Hp) as R; rewrite E in R; exact R).
  pose proof (IH s1 (fun ie H => Hl ie (or_intror H))) as I. destruct (alloc_all s1 r) as [s2 rest]. cbn [fst] in *.
  eapply T_trans; eassumption.
Qed.
Lemma srv_readdir_T (PA : path -> Prop) s d : PA d -> (forall n, name_sane n = true -> PA (d ++ [n])) ->
  T PA s (fst (srv_readdir s d)) /\ forall l, snd (srv_readdir s d) = Ok l -> forall e, In e l -> PA (fst e).
Proof.
  intros Hd Hn. unfold srv_readdir.
  assert (Hhit : T PA s (fst (if dir_on (conf s) then dc_get s d else (s, None)))).
  { destruct (dir_on (conf s)); [apply T_of_same, dc_get_same|apply T_refl]. }
  destruct (if dir_on (conf s) then dc_get s d else (s, None)) as [s0 hit]. cbn [fst snd] in *.
  destruct hit as [names|].
  - destruct (lookup_all_T PA d names Hn s0) as [I1 I2]. destruct (lookup_all s0 d names) as [s1 l]. cbn [fst snd] in *.
    split; [eapply T_trans; eassumption|]. intros l' [= <-]. exact I2.
  - assert (R1 : T PA s (logc s0 (bc BOpenR d))).
    { eapply T_trans; [exact Hhit|]. apply T_logc, AB_bc; [exact Hd|exact I]. }
    destruct (be_open (fs (logc s0 (bc BOpenR d))) d false) as [q|e]; cbn [fst snd]; [|split; [exact R1|discriminate]].
    assert (R2 : T PA s (logc (logc s0 (bc BOpenR d)) (bc BReaddir d))).
    { eapply T_trans; [exact R1|]. apply T_logc, AB_bc; [exact Hd|exact I]. }
    destruct (be_readdir _ q) as [ents|e]; cbn [fst snd]; [|split; [exact R2|discriminate]].
    match goal with |- context [lookup_all ?st d ?nm] =>
      destruct (lookup_all_T PA d nm Hn st) as [I1 I2]; destruct (lookup_all st d nm) as [s4 l] end.
    cbn [fst snd] in *. split; [|intros l' [= <-]; exact I2].
    eapply T_trans; [|exact I1]. eapply T_trans; [exact R2|].
    destruct (dir_on _); [apply T_of_same, dc_put_same|apply T_refl].
Qed.

Section Readdir.
Variable PA : path -> Prop.
Variable s : srv.
Variable h : N.
Hypothesis H1 : forall p, get (hm s) h = Some p -> PA p.
Hypothesis H3 : forall p n, get (hm s) h = Some p -> name_sane n = true -> PA (p ++ [n]).

Lemma handle_readdir_T ck cnt : T PA s (fst (handle_readdir s h ck cnt)).
Proof.
  unfold handle_readdir. destruct (lookup_node s h) as [[d da]|] eqn:L; [|apply T_refl].
  apply lookup_node_get in L. pose proof (H1 d L) as Hd.
  destruct (negb (kind_eqb (na_kind da) KDir)); [apply T_refl|].
  destruct (srv_readdir_T PA s d Hd (fun n Hn => H3 d n L Hn)) as [R1 _].
  destruct (srv_readdir s d) as [s1 r]. cbn [fst snd] in R1.
  destruct r as [ents|e]; [|exact R1].
  pose proof (getattr_h_T PA s1 h d Hd) as R2. destruct (getattr_h s1 h d) as [s2 ga]. cbn [fst] in R2.
  destruct ga as [a|e]; [destruct (page _ _ _ _ _ _ _)|]; cbn [fst]; eapply T_trans; eassumption.
Qed.
Lemma handle_readdirplus_T ck mc : T PA s (fst (handle_readdirplus s h ck mc)).
Proof.
  unfold handle_readdirplus. destruct (lookup_node s h) as [[d da]|] eqn:L; [|apply T_refl].
  apply lookup_node_get in L. pose proof (H1 d L) as Hd.
  destruct (negb (kind_eqb (na_kind da) KDir)); [apply T_refl|].
  destruct (srv_readdir_T PA s d Hd (fun n Hn => H3 d n L Hn)) as [R1 P1].
  destruct (srv_readdir s d) as [s1 r]. cbn [fst snd] in R1, P1.
  destruct r as [ents0|e]; [|exact R1].
  destruct (refresh_all_T PA ents0 s1 (P1 ents0 eq_refl)) as [R2 P2].
  destruct (refresh_all s1 ents0) as [s1' ents]. cbn [fst snd] in R2, P2.
  pose proof (getattr_h_T PA s1' h d Hd) as R3. destruct (getattr_h s1' h d) as [s2 ga]. cbn [fst] in R3.
  destruct ga as [a|e]; [|cbn [fst]; eapply T_trans; [exact R1|]; eapply T_trans; eassumption].
  destruct (page true mc 0 ck 0 dir_header_len ents) as [pg lim] eqn:Epg.
  assert (P3 : forall ie, In ie pg -> PA (fst (snd ie))).
  { intros ie Hie. apply P2. apply (page_sub true mc ck ents 0 0 dir_header_len ie). rewrite Epg. exact Hie. }
  pose proof (alloc_all_T PA pg s2 P3) as R4. destruct (alloc_all s2 pg) as [s3 des_]. cbn [fst] in *.
  eapply T_trans; [exact R1|]. eapply T_trans; [exact R2|]. eapply T_trans; eassumption.
Qed.
End Readdir.

(* ====================================================================================================== *)
(* 6. one request                                                                                         *)
(* ====================================================================================================== *)
Definition is_listing (r : req) : bool :=
  match r with RReaddir _ _ _ | RReaddirplus _ _ _ _ => true | _ => false end.

Lemma step_T (PA : path -> Prop) s c r :
  (forall h p, get (hm s) h = Some p -> PA p) ->
  (forall h p n, get (hm s) h = Some p -> vname n -> PA (p ++ [n])) ->
  (is_listing r = true -> forall h p n, get (hm s) h = Some p -> name_sane n = true -> PA (p ++ [n])) ->
  (forall mp pre rest, r = RMnt mp -> pre ++ rest = clean_comps [] (split_path mp) -> pre <> [] \/ rest = [] -> PA pre) ->
  T PA (clear_log s) (fst (step s c r)).
Proof.
  intros C1 C2 C3 C4. unfold step. set (s0 := clear_log s).
  assert (D1 : forall h p, get (hm s0) h = Some p -> PA p) by exact C1.
  assert (D2 : forall h p n, get (hm s0) h = Some p -> vname n -> PA (p ++ [n])) by exact C2.
  assert (D3 : is_listing r = true -> forall h p n, get (hm s0) h = Some p -> name_sane n = true -> PA (p ++ [n])) by exact C3.
  clearbody s0. clear C1 C2 C3.
  destruct (garbage_reply s0 r) as [o|]; cbn [fst]; [apply T_refl|].
  destruct r; cbn [fst]; try apply T_refl.
  - apply handle_getattr_T. exact (D1 h).
  - apply handle_setattr_T. exact (D1 h).
  - apply handle_lookup_T; [exact (D1 h)|exact (fun p => D2 h p n)].
  - apply handle_access_T. exact (D1 h).
  - apply handle_readlink_T. exact (D1 h).
  - apply handle_read_T. exact (D1 h).
  - apply handle_write_T. exact (D1 h).
  - apply handle_create_T; [exact (D1 h)|exact (fun p => D2 h p n)].
  - apply handle_mkdir_T; [exact (D1 h)|exact (fun p => D2 h p n)].
  - apply handle_symlink_T; [exact (D1 h)|exact (fun p => D2 h p n)].
  - apply handle_remove_T; [exact (D1 h)|exact (fun p => D2 h p n)].
  - apply handle_rmdir_T; [exact (D1 h)|exact (fun p => D2 h p n)].
  - apply handle_rename_T; [exact (D1 h1)|exact (fun p => D2 h1 p n1)|exact (D1 h2)|exact (fun p => D2 h2 p n2)].
  - apply handle_readdir_T; [exact (D1 h)|]. intros p n. exact (D3 eq_refl h p n).
  - apply handle_readdirplus_T; [exact (D1 h)|]. intros p n. exact (D3 eq_refl h p n).
  - apply handle_fsx_T. exact (D1 h).
  - apply handle_fsx_T. exact (D1 h).
  - apply handle_fsx_T. exact (D1 h).
  - apply handle_commit_T. exact (D1 h).
  - apply handle_mnt_T. intros pre rest. apply (C4 p pre rest eq_refl).
  - apply T_of_same, with_conf_same.
  - apply T_of_same, with_conf_same.
  - apply T_of_same, with_conf_same.
Qed.

(* ---------- the statement of the property ---------- *)
Definition HOK (s : srv) : Prop := forall h p, get (hm s) h = Some p -> gpath p.

(* p is: a handle path of s; or one joined with a validated component; or (READDIR/READDIRPLUS) one joined
   with a sane name of the listing; or (MNT) the cleaned path a handle is requested for, or a non-empty proper
   prefix of it (Lstat-ed by the symlink check) *)
Definition okp (s : srv) (r : req) (p : path) : Prop :=
  (exists h hp, get (hm s) h = Some hp /\
     (p = hp \/ exists c, p = hp ++ [c] /\ (vname c \/ (is_listing r = true /\ name_sane c = true))))
  \/ (exists mp rest, r = RMnt mp /\ p ++ rest = clean_comps [] (split_path mp) /\ (p <> [] \/ rest = [])).
Definition call_ok (s : srv) (r : req) (b : bcall) : Prop :=
  okp s r (b_path b) /\ (b_op b = BRename -> exists np, b_path2 b = render np /\ okp s r np).

Lemma okp_gpath s r p : HOK s -> okp s r p -> gpath p.
Proof.
  intros H [(h & hp & G & [->|(c & -> & [V|[_ V]])])|(mp & rest & _ & E & _)].
  - exact (H h hp G).
  - apply gpath_app; [exact (H h hp G)|apply vname_gcomp; exact V].
  - apply gpath_app; [exact (H h hp G)|apply name_sane_gcomp; exact V].
  - pose proof (mnt_path_gpath mp) as G. rewrite <- E in G. apply Forall_app in G. exact (proj1 G).
Qed.

Lemma step_okp s c r : T (okp s r) (clear_log s) (fst (step s c r)).
Proof.
  apply step_T.
  - intros h p G. left. exists h, p. split; [exact G|left; reflexivity].
  - intros h p n G V. left. exists h, p. split; [exact G|right; exists n; split; [reflexivity|left; exact V]].
  - intros L h p n G V. left. exists h, p. split; [exact G|right; exists n; split; [reflexivity|right; split; assumption]].
  - intros mp pre rest E A B. right. exists mp, rest. split; [exact E|split; [exact A|exact B]].
Qed.

Lemma step_paths s c r : HOK s ->
  let s' := fst (step s c r) in
  HOK s' /\ forall b, In b (blog s') -> call_ok s r b /\ gpath (b_path b).
Proof.
  intros H. cbv zeta. destruct (step_okp s c r) as [TB TH]. split.
  - intros h q G. destruct (TH h q G) as [G0|G0]; [exact (H h q G0)|exact (okp_gpath s r q H G0)].
  - intros b Hb. destruct (TB b Hb) as [[]|[A B]]. split; [split; [exact A|]|exact (okp_gpath s r _ H A)].
    intros E. rewrite E in B. exact B.
Qed.

Lemma step_symlink_targets s c r b : In b (blog (fst (step s c r))) -> b_op b = BSymlink ->
  is_abs (b_path2 b) = false /\ target_has_dotdot (b_path2 b) = false.
Proof.
  intros Hb E.
  assert (R : T (fun _ => True) (clear_log s) (fst (step s c r))) by (apply step_T; intros; exact I).
  destruct R as [TB _]. destruct (TB b Hb) as [[]|[_ B]]. rewrite E in B. exact B.
Qed.

(* "/"-separated components: [raw_split] is the inverse of joining with "/" *)
Fixpoint join (l : list name) : list N :=
  match l with [] => [] | c :: r => match r with [] => c | _ => c ++ slash :: join r end end.
Lemma rs_go_nonempty s : forall cur, rs_go cur s <> [].
Proof. induction s as [|x s IH]; intros cur; cbn [rs_go]; [discriminate|]. destruct (x =? slash); [discriminate|apply IH]. Qed.
Lemma rs_go_join_inv s : forall cur, join (rs_go cur s) = rev cur ++ s.
Proof.
  induction s as [|x s IH]; intros cur; cbn [rs_go].
  - cbn. rewrite app_nil_r. reflexivity.
  - destruct (x =? slash) eqn:E.
    + apply N.eqb_eq in E. subst x. cbn [join]. pose proof (rs_go_nonempty s []) as NE.
      destruct (rs_go [] s) as [|c r] eqn:F; [congruence|]. rewrite <- F, IH. reflexivity.
    + rewrite IH. cbn [rev]. rewrite <- app_assoc. reflexivity.
Qed.
Lemma rs_go_noslash_comps s : forall cur, ~ In slash cur -> forall c, In c (rs_go cur s) -> ~ In slash c.
Proof.
  induction s as [|x s IH]; intros cur Hc c; cbn [rs_go].
  - intros [<-|[]] H. apply in_rev in H. exact (Hc H).
  - destruct (x =? slash) eqn:E.
    + intros [<-|H]; [intros F; apply in_rev in F; exact (Hc F)|exact (IH [] (fun f => f) c H)].
    + apply IH. apply N.eqb_neq in E. intros [F|F]; [congruence|exact (Hc F)].
Qed.
Lemma raw_split_spec t : join (raw_split t) = t /\ forall c, In c (raw_split t) -> ~ In slash c.
Proof. rewrite raw_split_rs. split; [apply (rs_go_join_inv t [])|apply (rs_go_noslash_comps t [] (fun f => f))]. Qed.
(* the only way to write t as "/"-joined slash-free components is raw_split t *)
Lemma join_split_unique l : l <> [] -> (forall c, In c l -> ~ In slash c) -> raw_split (join l) = l.
Proof.
  rewrite raw_split_rs. induction l as [|c r IH]; intros NE H; [congruence|].
  assert (Hc : ~ In slash c) by (apply H; left; reflexivity).
  destruct r as [|c2 r'].
  - cbn [join]. rewrite <- (app_nil_r c) at 1. rewrite rs_go_noslash by exact Hc. cbn. rewrite app_nil_r, rev_involutive. reflexivity.
  - change (join (c :: c2 :: r')) with (c ++ slash :: join (c2 :: r')).
    rewrite rs_go_noslash by exact Hc. cbn [rs_go]. rewrite N.eqb_refl, app_nil_r, rev_involutive.
    rewrite IH; [reflexivity|discriminate|intros x Hx; apply H; right; exact Hx].
Qed.
Lemma no_dotdot_component t : target_has_dotdot t = false <->
  forall l, l <> [] -> (forall c, In c l -> ~ In slash c) -> t = join l -> ~ In [dot; dot] l.
Proof.
  rewrite target_no_dotdot_spec. split.
  - intros H l NE Hl ->. rewrite join_split_unique in H by assumption. exact H.
  - intros H. destruct (raw_split_spec t) as [J S]. apply H; [|exact S|symmetry; exact J].
    rewrite raw_split_rs. apply rs_go_nonempty.
Qed.

(* READLINK *)
Lemma step_readlink s c h : let o := snd (step s c (RReadlink h)) in
  ob_status o = 0 -> ob_rpc o = 0 -> is_abs (ob_bytes o) = true \/ target_has_dotdot (ob_bytes o) = false.
Proof.
  cbv zeta. unfold step. cbn [garbage_reply]. unfold handle_readlink. set (s0 := clear_log s). intros _ _.
  destruct (lookup_node s0 h) as [[p na]|]; [|right; reflexivity].
  destruct (negb (kind_eqb (na_kind na) KLink)); [right; reflexivity|].
  destruct (be_readlink (fs (logc s0 (bc BReadlink p))) p) as [t|e]; [|right; reflexivity].
  destruct (negb (is_abs t) && target_has_dotdot t) eqn:E; [right; reflexivity|].
  destruct (getattr_h (logc s0 (bc BReadlink p)) h p) as [s2 ga]. destruct ga as [a|e]; [|right; reflexivity].
  cbn [snd ob_mk ob_bytes]. destruct (is_abs t); [left; reflexivity|right; exact E].
Qed.
(* the failure replies carry no target at all, and a failure is never reported with status 0 *)
Lemma map_error_nonzero e : map_error e <> 0.
Proof. destruct e; vm_compute; discriminate. Qed.
Lemma step_readlink_ok s c h : let o := snd (step s c (RReadlink h)) in
  ob_status o = 0 -> exists p t, get (hm s) h = Some p /\ be_readlink (fs s) p = Ok t /\ ob_bytes o = t.
Proof.
  cbv zeta. unfold step. cbn [garbage_reply]. unfold handle_readlink. set (s0 := clear_log s).
  destruct (lookup_node s0 h) as [[p na]|] eqn:L; [|intros F; vm_compute in F; discriminate].
  apply lookup_node_get in L.
  destruct (negb (kind_eqb (na_kind na) KLink)); [intros F; vm_compute in F; discriminate|].
  destruct (be_readlink (fs (logc s0 (bc BReadlink p))) p) as [t|e] eqn:B;
    [|intros F; exfalso; exact (map_error_nonzero e F)].
  destruct (negb (is_abs t) && target_has_dotdot t); [intros F; vm_compute in F; discriminate|].
  destruct (getattr_h (logc s0 (bc BReadlink p)) h p) as [s2 ga]. destruct ga as [a|e];
    [|intros F; exfalso; exact (map_error_nonzero e F)].
  intros _. exists p, t. split; [exact L|split; [exact B|reflexivity]].
Qed.

(* undecodable strings (over-long or containing NUL): the request is answered without any backend call *)
Lemma step_garbage s c r o : garbage_reply (clear_log s) r = Some o -> blog (fst (step s c r)) = [].
Proof. intros G. unfold step. rewrite G. reflexivity. Qed.
Lemma garbage_name s r : garbage_reply s r = None ->
  match r with
  | RLookup _ n | RCreate _ n _ _ | RMkdir _ n _ | RRemove _ n | RRmdir _ n => str_ok n = true
  | RSymlink _ n _ t => str_ok n = true /\ str_ok t = true
  | RRename _ n1 _ n2 => str_ok n1 = true /\ str_ok n2 = true
  | RMnt p => str_ok p = true
  | _ => True
  end.
Proof.
  destruct r; cbn [garbage_reply]; try (intros; exact I); try (destruct (str_ok n); [reflexivity|discriminate]).
  - destruct (str_ok n), (str_ok target); cbn [andb]; try (intros; split; reflexivity); des; discriminate.
  - destruct (str_ok n1), (str_ok n2); cbn [andb]; try (intros; split; reflexivity); des; discriminate.
  - destruct (str_ok p); [reflexivity|discriminate].
Qed.

(* ====================================================================================================== *)
(* 7. histories                                                                                           *)
(* ====================================================================================================== *)
Lemma HOK_init f c mx t : HOK (srv_init_fs f c mx t).
Proof. intros h p G. discriminate G. Qed.

Definition hfinal (s : srv) (l : list hstep) : srv := fold_left (fun s x => fst (hrun1 s x)) l s.

Lemma hrun1_paths s x : HOK s ->
  HOK (fst (hrun1 s x)) /\ forall b, In b (blog (fst (hrun1 s x))) -> call_ok s (hs_req x) b /\ gpath (b_path b).
Proof. intros H. exact (step_paths (with_now s (now s + hs_adv x)) (hs_cred x) (hs_req x) H). Qed.
Lemma hfinal_HOK l : forall s, HOK s -> HOK (hfinal s l).
Proof. induction l as [|x r IH]; intros s H; [exact H|]. cbn. apply IH. apply hrun1_paths. exact H. Qed.

(* the elements of [hrun s l] are exactly the steps taken from the state reached after a prefix *)
Lemma hrun_states l : forall s so, In so (hrun s l) <-> exists l1 x l2, l = l1 ++ x :: l2 /\ so = hrun1 (hfinal s l1) x.
Proof.
  induction l as [|y r IH]; intros s so; cbn [hrun].
  - split; [intros []|]. intros (l1 & x & l2 & E & _). destruct l1; discriminate.
  - split.
    + intros [<-|H]; [exists [], y, r; split; reflexivity|].
      apply IH in H. destruct H as (l1 & x & l2 & -> & ->). exists (y :: l1), x, l2. split; reflexivity.
    + intros (l1 & x & l2 & E & ->). destruct l1 as [|z l1]; cbn in E; injection E as <- ->.
      * left. reflexivity.
      * right. apply IH. exists l1, x, l2. split; reflexivity.
Qed.

Lemma hrun_paths l s : HOK s -> forall so, In so (hrun s l) ->
  HOK (fst so) /\
  exists l1 x l2, l = l1 ++ x :: l2 /\ so = hrun1 (hfinal s l1) x /\ HOK (hfinal s l1) /\
    forall b, In b (blog (fst so)) -> call_ok (hfinal s l1) (hs_req x) b /\ gpath (b_path b).
Proof.
  intros H so Hso. apply hrun_states in Hso. destruct Hso as (l1 & x & l2 & -> & ->).
  pose proof (hfinal_HOK l1 s H) as H1. destruct (hrun1_paths (hfinal s l1) x H1) as [A B].
  split; [exact A|]. exists l1, x, l2. repeat split; auto; apply B; assumption.
Qed.

Lemma reachable_paths f c mx t l :
  let s := hfinal (srv_init_fs f c mx t) l in
  HOK s /\ forall x, let s' := fst (hrun1 s x) in
           HOK s' /\ forall b, In b (blog s') -> call_ok s (hs_req x) b /\ gpath (b_path b).
Proof.
  cbv zeta. pose proof (hfinal_HOK l _ (HOK_init f c mx t)) as H. split; [exact H|].
  intros x. apply hrun1_paths. exact H.
Qed.

(* ====================================================================================================== *)
(* 8. an executable check of the invariant, and the witnesses of the non-vacuity examples                 *)
(* ====================================================================================================== *)
Definition gcomp_b (c : name) : bool :=
  negb (match c with [] => true | _ => false end) && negb (existsb (fun b => b =? slash) c) && negb (is_dot c) && negb (is_dotdot c).
Definition hok_b (s : srv) : bool := forallb (fun e => forallb gcomp_b (snd e)) (handles (hm s)).

Lemma gcomp_b_spec c : gcomp_b c = true <-> gcomp c.
Proof.
  unfold gcomp_b, gcomp. rewrite !andb_true_iff, !negb_true_iff, existsb_eqb_false, is_dot_false, is_dotdot_false.
  destruct c as [|x c'].
  - split; [intros [[[H _] _] _]; discriminate|intros [H _]; congruence].
  - split; [intros [[[_ H1] H2] H3]; repeat split; auto; discriminate|intros (_ & H1 & H2 & H3); repeat split; auto].
Qed.
Lemma assocH_In {P} (h : N) (l : list (N * P)) p : assocH h l = Some p -> In (h, p) l.
Proof.
  induction l as [|[k q] r IH]; cbn [assocH]; [discriminate|].
  destruct (k =? h) eqn:E; [apply N.eqb_eq in E; intros [= ->]; subst; left; reflexivity|intros H; right; apply IH; exact H].
Qed.
Lemma hok_b_HOK s : hok_b s = true -> HOK s.
Proof.
  unfold hok_b, HOK. intros H h p G. apply assocH_In in G.
  apply (proj1 (forallb_forall _ _) H) in G. cbn [snd] in G.
  apply Forall_forall. intros c Hc. apply gcomp_b_spec. exact (proj1 (forallb_forall _ _) G c Hc).
Qed.

Definition ex_cfg : cfg :=
  {| tsize := 65536; ro := false; maxfile := 0; attr_ttl := 5; attr_cap := 10; neg_on := true; neg_ttl := 5;
     dir_on := true; dir_ttl := 5; dir_cap := 10; dir_maxsize := 10 |}.
Definition ex_cred : cred := {| c_uid := 0; c_gid := 0; c_aux := [] |}.
Definition ex_sattr : sattr :=
  {| s_mode := Some 493; s_uid := None; s_gid := None; s_size := None; s_atime := 0; s_atime_v := 0; s_mtime := 0; s_mtime_v := 0 |}.
(* MNT "/", MKDIR d, CREATE d/f, SYMLINK d/l -> "f", LOOKUP d, READDIRPLUS d *)
Definition ex_history : list hstep :=
  map (fun r => {| hs_adv := 1; hs_cred := ex_cred; hs_req := r |})
    [RMnt [47]; RMkdir 1 [100] ex_sattr; RCreate 2 [102] 0 ex_sattr; RSymlink 2 [108] ex_sattr [102];
     RLookup 1 [100]; RReaddirplus 2 0 4096 4096].
Definition ex_state : srv := hfinal (srv_init_fs fs_init ex_cfg 0 100) ex_history.
