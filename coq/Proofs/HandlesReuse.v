(* Proofs/HandlesReuse.v — property C06 on the handle-table model (Model/Handles.v):
   "a handle value never silently refers to a different object".

   The full statement is FALSE of the code by design: ids freed by eviction / Release are pushed on
   the free list and the lowest one is handed out again by the next Allocate of a new path (the test
   suite of /repo asserts this reuse).  This file gives
     - the full statement as a Definition and its refutation (witness by vm_compute);
     - what does hold, for every table satisfying the invariant [Inv] of Proofs/HandlesProofs.v
       (hence for every reachable table), every operation and every history:
         * one step: a live value keeps its path or dies (and is then on the free list, or the step
           was ReleaseAll); a dead value only comes back through an Alloc, for the allocated path,
           and only if it was on the free list or is [next];
         * histories: a value names a different path later only if it was on the free list of some
           intermediate table;
         * histories in which the free list is never popped (in particular Alloc-only histories
           that stay within the limit): a value never changes the path it names;
         * ReleaseAll (Close / Unexport) empties the free list and keeps [next]: every value issued
           before is < next, every value live or issued afterwards is >= next. *)
From Coq Require Import List NArith ZArith Bool Lia.
From Verif Require Import Model.Handles Proofs.HandlesProofs.
Import ListNotations.
Open Scope N_scope.

Section HandlesReuse.
Context {P : Type} (P_eqb : P -> P -> bool).
Hypothesis P_eqb_spec : forall p q, reflect (p = q) (P_eqb p q).

Notation allocate := (allocate P_eqb).
Notation assocP := (assocP P_eqb).
Notation apply := (apply P_eqb).
Implicit Types (m : fhmap P) (p q : P) (v h : N) (o : op P).

(* ---------- histories ---------- *)
Definition final (m : fhmap P) (ops : list (op P)) : fhmap P := fold_left apply ops m.
(* the tables a history passes through: m0, m1, ..., mn (the start and the result of every operation) *)
Fixpoint states (m : fhmap P) (ops : list (op P)) : list (fhmap P) :=
  match ops with [] => [m] | o :: r => m :: states (apply m o) r end.

(* ---------- the full statement (false, see C06_refuted below the section) ---------- *)
(* in every history from the empty table: once value v has been returned for path p, every later table
   that resolves v resolves it to p *)
Definition C06_statement_gen : Prop :=
  forall (mx : Z) (ops1 : list (op P)) (p : P) (ops2 : list (op P)) (q : P),
    let m := final (init mx) ops1 in
    let v := snd (allocate m p) in
    let m' := final (fst (allocate m p)) ops2 in
    get m' v = Some q -> q = p.

(* ---------- list facts ---------- *)
Lemma assocH_filter h v (l : list (N * P)) :
  assocH h (filter (fun e => negb (fst e =? v)) l) = if h =? v then None else assocH h l.
Proof.
  induction l as [|[k q] r IH]; cbn [filter assocH fst]; [destruct (h =? v); reflexivity|].
  destruct (k =? v) eqn:E; cbn [negb].
  - rewrite IH. destruct (h =? v) eqn:F; [reflexivity|].
    destruct (k =? h) eqn:G; [|reflexivity].
    apply N.eqb_eq in E. apply N.eqb_eq in G. apply N.eqb_neq in F. congruence.
  - cbn [assocH]. rewrite IH. destruct (h =? v) eqn:F; [|reflexivity].
    destruct (k =? h) eqn:G; [|reflexivity].
    apply N.eqb_neq in E. apply N.eqb_eq in G. apply N.eqb_eq in F. congruence.
Qed.
Lemma get_drop_id m v h : get (drop_id v m) h = if h =? v then None else get m h.
Proof. unfold get, drop_id. cbn [handles]. apply assocH_filter. Qed.
Lemma get_in_fst m v p : get m v = Some p -> In v (map fst (handles m)).
Proof. intros G. apply assocH_in in G. apply (in_map fst) in G. exact G. Qed.
Lemma in_fst_get m v : In v (map fst (handles m)) -> exists q, get m v = Some q.
Proof.
  unfold get. induction (handles m) as [|[k q] r IH]; cbn [map fst assocH In]; [tauto|].
  destruct (k =? v) eqn:E; [intros _; exists q; reflexivity|].
  intros [F|F]; [apply N.eqb_neq in E; congruence|exact (IH F)].
Qed.
Lemma get_none_not_in m v : get m v = None -> ~ In v (map fst (handles m)).
Proof. intros G H. apply in_fst_get in H. destruct H as [q H]. congruence. Qed.

(* ---------- eviction ---------- *)
Lemma evict_next n keep : forall m, next (evict n keep m) = next m.
Proof.
  induction n as [|n IH]; intros m; cbn [evict]; [reflexivity|].
  destruct (filter _ (handles m)) as [|[h0 q0] r]; [reflexivity|]. rewrite IH. reflexivity.
Qed.
Lemma evict_get n keep : forall m h q, get (evict n keep m) h = Some q -> get m h = Some q.
Proof.
  induction n as [|n IH]; intros m h q; cbn [evict]; [auto|].
  destruct (filter (fun e => negb (fst e =? keep)) (handles m)) as [|[h0 q0] r]; [auto|].
  intros H. apply IH in H. rewrite get_drop_id in H. destruct (h =? _); [discriminate|exact H].
Qed.
Lemma evict_get_none n keep m h : get m h = None -> get (evict n keep m) h = None.
Proof.
  intros G. destruct (get (evict n keep m) h) as [q|] eqn:E; [|reflexivity].
  apply evict_get in E. congruence.
Qed.
Lemma evict_free_mono n keep : forall m x, In x (free m) -> In x (free (evict n keep m)).
Proof.
  induction n as [|n IH]; intros m x H; cbn [evict]; [exact H|].
  destruct (filter _ (handles m)) as [|[h0 q0] r]; [exact H|]. apply IH. right. exact H.
Qed.
(* what eviction puts on the free list was live *)
Lemma evict_free_src n keep : forall m x, In x (free (evict n keep m)) -> In x (free m) \/ exists q, get m x = Some q.
Proof.
  induction n as [|n IH]; intros m x; cbn [evict]; [auto|].
  destruct (filter (fun e => negb (fst e =? keep)) (handles m)) as [|[h0 q0] r] eqn:Ef; [auto|].
  intros H. apply IH in H. destruct H as [[H|H]|[q H]].
  - right. subst x. apply in_fst_get.
    assert (Hv : In (min_of h0 (map fst r)) (map fst ((h0, q0) :: r))) by (cbn; apply min_of_in).
    rewrite <- Ef in Hv. eapply map_fst_filter_sub; eauto.
  - left. exact H.
  - right. rewrite get_drop_id in H. destruct (x =? _); [discriminate|]. exists q. exact H.
Qed.
(* a live value survives an eviction with its path, or is dropped onto the free list *)
Lemma evict_live_or_freed n keep : forall m v p, get m v = Some p ->
  get (evict n keep m) v = Some p \/ (get (evict n keep m) v = None /\ In v (free (evict n keep m))).
Proof.
  induction n as [|n IH]; intros m v p G; cbn [evict]; [left; exact G|].
  destruct (filter (fun e => negb (fst e =? keep)) (handles m)) as [|[h0 q0] r]; [left; exact G|].
  set (x := min_of h0 (map fst r)).
  destruct (v =? x) eqn:E.
  - apply N.eqb_eq in E. right. split.
    + apply evict_get_none. rewrite get_drop_id, E, N.eqb_refl. reflexivity.
    + apply evict_free_mono. left. congruence.
  - apply IH. rewrite get_drop_id, E. exact G.
Qed.
Lemma evict_handles_sub n keep : forall m e, In e (handles (evict n keep m)) -> In e (handles m).
Proof.
  induction n as [|n IH]; intros m e; cbn [evict]; [auto|].
  destruct (filter _ (handles m)) as [|[h0 q0] r]; [auto|].
  intros H. apply IH in H. cbn in H. apply filter_In in H. tauto.
Qed.
Lemma evict_byPath_sub n keep : forall m e, In e (byPath (evict n keep m)) -> In e (byPath m).
Proof.
  induction n as [|n IH]; intros m e; cbn [evict]; [auto|].
  destruct (filter _ (handles m)) as [|[h0 q0] r]; [auto|].
  intros H. apply IH in H. cbn in H. apply filter_In in H. tauto.
Qed.
(* every id on the free list after an eviction was free or live before *)
Lemma evict_free_floor n keep : forall m x, In x (free (evict n keep m)) -> In x (free m) \/ In x (map fst (handles m)).
Proof.
  intros m x H. apply evict_free_src in H. destruct H as [H|[q H]]; [left; exact H|right; eapply get_in_fst; exact H].
Qed.

(* ---------- the shape of Allocate ---------- *)
Definition added (m : fhmap P) (p : P) (h : N) (fr : list N) (nx : N) : fhmap P :=
  {| handles := (h, p) :: handles m; byPath := (p, h) :: byPath m; next := nx; free := fr; maxH := maxH m |}.

Lemma pop_min_none (l : list N) : pop_min l = None -> l = [].
Proof. destruct l; [reflexivity|discriminate]. Qed.

Lemma allocate_cases m p :
  (exists h, assocP p (byPath m) = Some h /\ allocate m p = (m, h)) \/
  (assocP p (byPath m) = None /\ exists h fr nx,
     ((In h (free m) /\ fr = remove1 h (free m) /\ nx = next m) \/
      (free m = [] /\ h = next m /\ fr = [] /\ nx = next m + 1)) /\
     (allocate m p = (added m p h fr nx, h) \/ exists n, allocate m p = (evict n h (added m p h fr nx), h))).
Proof.
  unfold Handles.allocate. destruct (assocP p (byPath m)) as [h|] eqn:Ep; [left; exists h; auto|].
  right. split; [reflexivity|].
  destruct (pop_min (free m)) as [[h f]|] eqn:Epm.
  - apply pop_min_spec in Epm. destruct Epm as [Hin ->].
    exists h, (remove1 h (free m)), (next m). split; [left; auto|].
    match goal with |- context [if ?c then _ else _] => destruct c end; [right; eexists; reflexivity|left; reflexivity].
  - apply pop_min_none in Epm. exists (next m), [], (next m + 1). split; [right; auto|].
    rewrite Epm.
    match goal with |- context [if ?c then _ else _] => destruct c end; [right; eexists; reflexivity|left; reflexivity].
Qed.

Lemma get_added m p h fr nx v : get (added m p h fr nx) v = if h =? v then Some p else get m v.
Proof. reflexivity. Qed.

(* the id chosen for a new path is not live *)
Lemma fresh_not_live m h : Inv m -> In h (free m) \/ h = next m -> ~ In h (map fst (handles m)).
Proof.
  intros [I _] [H|H]; [apply (i_free _ I h H)|]. subst. intros F. apply (i_lt _ I) in F. lia.
Qed.

(* ---------- next only grows ---------- *)
Lemma next_mono m o : next m <= next (apply m o).
Proof.
  destruct o as [p|h|]; cbn [Handles.apply].
  - destruct (allocate_cases m p) as [(h & _ & ->)|(_ & h & fr & nx & Hc & [->|[n ->]])]; cbn [fst]; try lia;
    try rewrite evict_next; cbn [added next]; destruct Hc as [(_ & _ & ->)|(_ & _ & _ & ->)]; lia.
  - unfold release. destruct (get m h); cbn; lia.
  - cbn. lia.
Qed.
Lemma next_mono_final ops : forall m, next m <= next (final m ops).
Proof.
  induction ops as [|o r IH]; intros m; cbn; [lia|]. pose proof (next_mono m o). pose proof (IH (apply m o)).
  unfold final in *. lia.
Qed.

Lemma final_inv ops : forall m, Inv m -> Inv (final m ops).
Proof. induction ops as [|o r IH]; intros m I; cbn; [exact I|]. apply IH, apply_inv; assumption. Qed.

(* ====================================================================================================== *)
(* one step                                                                                               *)
(* ====================================================================================================== *)
(* a live value keeps its path, or dies: it is then on the free list, unless the whole table was
   released (ReleaseAll empties the free list too; see C06_release_all_fresh for that case) *)
Lemma live_step m o v p : Inv m -> get m v = Some p ->
  get (apply m o) v = Some p \/
  (get (apply m o) v = None /\ (In v (free (apply m o)) \/ o = ReleaseAll)).
Proof.
  intros I G. destruct o as [p'|h|]; cbn [Handles.apply].
  - destruct (allocate_cases m p') as [(h & _ & ->)|(_ & h & fr & nx & Hc & Ha)]; [left; exact G|].
    assert (Hne : (h =? v) = false).
    { apply N.eqb_neq. intros ->. apply get_in_fst in G. revert G. apply fresh_not_live; [exact I|].
      destruct Hc as [(A & _)|(_ & A & _)]; auto. }
    assert (G1 : get (added m p' h fr nx) v = Some p) by (rewrite get_added, Hne; exact G).
    destruct Ha as [->|[n ->]]; cbn [fst]; [left; exact G1|].
    destruct (evict_live_or_freed n h _ v p G1) as [A|[A B]]; [left; exact A|right; split; [exact A|left; exact B]].
  - unfold release. destruct (get m h) as [q|] eqn:E; [|left; exact G].
    rewrite get_drop_id. destruct (v =? h) eqn:F.
    + apply N.eqb_eq in F. right. split; [reflexivity|]. left. cbn. left. congruence.
    + left. exact G.
  - right. split; [reflexivity|right; reflexivity].
Qed.

(* a dead value comes back only through an Alloc, for the allocated path, with an id taken from the
   free list or [next] *)
Lemma dead_step m o v q : Inv m -> get m v = None -> get (apply m o) v = Some q ->
  o = Alloc q /\ (In v (free m) \/ v = next m).
Proof.
  intros I G G'. destruct o as [p'|h|]; cbn [Handles.apply] in G'.
  - destruct (allocate_cases m p') as [(h & _ & E)|(_ & h & fr & nx & Hc & Ha)]; [rewrite E in G'; cbn in G'; congruence|].
    assert (G1 : get (added m p' h fr nx) v = Some q).
    { destruct Ha as [E|[n E]]; rewrite E in G'; cbn [fst] in G'; [exact G'|eapply evict_get; exact G']. }
    rewrite get_added in G1. destruct (h =? v) eqn:F; [|congruence].
    apply N.eqb_eq in F. subst h. injection G1 as ->. split; [reflexivity|].
    destruct Hc as [(A & _)|(_ & A & _)]; auto.
  - unfold release in G'. destruct (get m h); [|congruence].
    rewrite get_drop_id in G'. destruct (v =? h); congruence.
  - discriminate G'.
Qed.

(* ---------- retired values ---------- *)
(* issued once (below next), not live, not on the free list: such a value is never issued again *)
Definition retired (v : N) (m : fhmap P) : Prop := v < next m /\ get m v = None /\ ~ In v (free m).

Lemma retired_step m o v : retired v m -> retired v (apply m o).
Proof.
  intros (A & B & C). destruct o as [p'|h|]; cbn [Handles.apply].
  - destruct (allocate_cases m p') as [(h & _ & ->)|(_ & h & fr & nx & Hc & Ha)]; [exact (conj A (conj B C))|].
    assert (Hne : (h =? v) = false).
    { apply N.eqb_neq. intros ->. destruct Hc as [(H & _)|(_ & H & _)]; [exact (C H)|lia]. }
    assert (Hnx : next m <= nx) by (destruct Hc as [(_ & _ & ->)|(_ & _ & _ & ->)]; lia).
    assert (Hfr : ~ In v fr).
    { destruct Hc as [(_ & -> & _)|(_ & _ & -> & _)]; [|intros []]. intros H. apply C. eapply remove1_in; exact H. }
    assert (G1 : get (added m p' h fr nx) v = None) by (rewrite get_added, Hne; exact B).
    destruct Ha as [->|[n ->]]; cbn [fst].
    + split; [|split]; cbn [added next free]; [lia|exact G1|exact Hfr].
    + split; [|split]; [rewrite evict_next; cbn; lia|apply evict_get_none; exact G1|].
      intros H. apply evict_free_src in H. destruct H as [H|[q H]]; [exact (Hfr H)|congruence].
  - unfold release. destruct (get m h) as [q|] eqn:E; [|exact (conj A (conj B C))].
    split; [|split]; [exact A|rewrite get_drop_id, B; destruct (v =? h); reflexivity|].
    cbn. intros [F|F]; [congruence|exact (C F)].
  - split; [|split]; [exact A|reflexivity|intros []].
Qed.
Lemma retired_final ops : forall m v, retired v m -> retired v (final m ops).
Proof. induction ops as [|o r IH]; intros m v H; cbn; [exact H|]. apply IH, retired_step, H. Qed.

Lemma release_all_retires m v : Inv m -> v < next m -> retired v (release_all m).
Proof. intros _ H. split; [|split]; [exact H|reflexivity|intros []]. Qed.

(* ====================================================================================================== *)
(* histories                                                                                              *)
(* ====================================================================================================== *)
Definition was_free (v : N) (l : list (fhmap P)) : Prop := Exists (fun mk => In v (free mk)) l.

Lemma states_head m ops : exists r, states m ops = m :: r.
Proof. destruct ops; cbn; eexists; reflexivity. Qed.

(* from a table where v names p: at the end v still names p, or v has been on the free list of an
   intermediate table, or v is retired for good *)
Lemma live_history ops : forall m v p, Inv m -> get m v = Some p ->
  get (final m ops) v = Some p \/ was_free v (states m ops) \/ retired v (final m ops).
Proof.
  induction ops as [|o r IH]; intros m v p I G; [left; exact G|].
  cbn [final fold_left states].
  destruct (live_step m o v p I G) as [A|[A [B|B]]].
  - destruct (IH (apply m o) v p (apply_inv P_eqb P_eqb_spec m o I) A) as [H|[H|H]]; auto.
    right. left. apply Exists_cons_tl. exact H.
  - right. left. apply Exists_cons_tl. destruct (states_head (apply m o) r) as [t ->]. apply Exists_cons_hd. exact B.
  - right. right. apply retired_final. subst o. apply release_all_retires; [exact I|].
    destruct I as [I0 _]. apply (i_lt _ I0). eapply get_in_fst; exact G.
Qed.

Lemma change_needs_free_history m ops v p q : Inv m ->
  get m v = Some p -> get (final m ops) v = Some q -> q <> p -> was_free v (states m ops).
Proof.
  intros I G G' Hne. destruct (live_history ops m v p I G) as [H|[H|(_ & H & _)]]; [congruence|exact H|congruence].
Qed.

(* ---------- histories that never pop the free list ---------- *)
Definition nopop (m : fhmap P) (o : op P) : Prop :=
  match o with Alloc p => assocP p (byPath m) <> None \/ free m = [] | _ => True end.
Fixpoint NoPop (m : fhmap P) (ops : list (op P)) : Prop :=
  match ops with [] => True | o :: r => nopop m o /\ NoPop (apply m o) r end.

Lemma no_pop_history ops : forall m v p, Inv m -> NoPop m ops ->
  (get m v = Some p \/ (get m v = None /\ v < next m)) ->
  get (final m ops) v = Some p \/ (get (final m ops) v = None /\ v < next (final m ops)).
Proof.
  induction ops as [|o r IH]; intros m v p I NP J; [exact J|].
  cbn [final fold_left]. destruct NP as [NP1 NP2].
  apply IH; [apply apply_inv; assumption|exact NP2|].
  pose proof (next_mono m o) as Hn.
  destruct J as [G|[G L]].
  - assert (L : v < next m) by (destruct I as [I0 _]; apply (i_lt _ I0); eapply get_in_fst; exact G).
    destruct (live_step m o v p I G) as [A|[A _]]; [left; exact A|right; split; [exact A|lia]].
  - right. split; [|lia].
    destruct (get (apply m o) v) as [q|] eqn:E; [|reflexivity]. exfalso.
    destruct (dead_step m o v q I G E) as [-> [F|F]]; [|lia].
    cbn [nopop] in NP1. destruct NP1 as [D|D]; [|rewrite D in F; exact F].
    (* the path already had a handle: the table did not change *)
    cbn [Handles.apply] in E. destruct (allocate_cases m q) as [(h & _ & Ea)|(Ea & _)]; [|congruence].
    rewrite Ea in E. cbn in E. congruence.
Qed.

Lemma no_pop_stable m ops v p q : Inv m -> NoPop m ops ->
  get m v = Some p -> get (final m ops) v = Some q -> q = p.
Proof.
  intros I NP G G'. destruct (no_pop_history ops m v p I NP (or_introl G)) as [H|[H _]]; congruence.
Qed.

(* Alloc-only histories that stay within the limit never evict, so the free list stays empty *)
Definition is_alloc (o : op P) : bool := match o with Alloc _ => true | _ => false end.

Lemma count_added m p h fr nx : count (added m p h fr nx) = count m + 1.
Proof. unfold count. cbn [added handles length]. lia. Qed.

Lemma allocate_within_limit m p : free m = [] -> count m + 1 <= eff_max m ->
  let m' := fst (allocate m p) in
  free m' = [] /\ count m' <= count m + 1 /\ eff_max m' = eff_max m /\
  (assocP p (byPath m) = None -> snd (allocate m p) = next m /\ next m' = next m + 1 /\ count m' = count m + 1).
Proof.
  intros F L. cbv zeta. unfold Handles.allocate. destruct (assocP p (byPath m)) as [h|]; cbn [fst snd].
  - split; [exact F|split; [lia|split; [reflexivity|discriminate]]].
  - rewrite F. cbn [pop_min].
    change (eff_max {| handles := (next m, p) :: handles m; byPath := (p, next m) :: byPath m; next := next m + 1;
                       free := []; maxH := maxH m |}) with (eff_max m).
    assert (E : (eff_max m <? N.of_nat (length ((next m, p) :: handles m))) = false).
    { apply N.ltb_ge. unfold count in L. cbn [length]. lia. }
    cbn [handles]. rewrite E. cbn [fst snd]. unfold count. cbn [handles length next free].
    split; [reflexivity|split; [lia|split; [reflexivity|]]]. intros _.
    split; [reflexivity|split; [reflexivity|lia]].
Qed.

Lemma alloc_new_returns_next m p : free m = [] -> assocP p (byPath m) = None -> snd (allocate m p) = next m.
Proof.
  intros F A. unfold Handles.allocate. rewrite A, F. cbn [pop_min].
  match goal with |- context [if ?c then _ else _] => destruct c end; reflexivity.
Qed.

Lemma alloc_only_history ops : forall m, free m = [] -> forallb is_alloc ops = true ->
  count m + N.of_nat (length ops) <= eff_max m ->
  NoPop m ops /\ free (final m ops) = [] /\ count (final m ops) <= count m + N.of_nat (length ops) /\
  eff_max (final m ops) = eff_max m.
Proof.
  induction ops as [|o r IH]; intros m F A L; cbn [final fold_left NoPop].
  - split; [exact I|split; [exact F|split; [cbn; lia|reflexivity]]].
  - cbn [forallb] in A. apply andb_true_iff in A. destruct A as [A1 A2].
    destruct o as [p| |]; try discriminate. cbn [length] in L.
    destruct (allocate_within_limit m p F) as (B1 & B2 & B3 & _); [lia|].
    destruct (IH (apply m (Alloc p)) B1 A2) as (C1 & C2 & C3 & C4).
    { cbn [Handles.apply]. rewrite B3. lia. }
    cbn [Handles.apply] in *. unfold final in *.
    split; [split; [right; exact F|exact C1]|split; [exact C2|split; [cbn [length]; lia|congruence]]].
Qed.

(* ====================================================================================================== *)
(* ReleaseAll: nothing issued before is issued again                                                      *)
(* ====================================================================================================== *)
(* every id the table knows (live, indexed by path, free) and [next] are at least n *)
Definition Floor (n : N) (m : fhmap P) : Prop :=
  n <= next m /\ (forall e, In e (handles m) -> n <= fst e) /\ (forall e, In e (byPath m) -> n <= snd e) /\
  (forall h, In h (free m) -> n <= h).

Lemma floor_release_all m : Floor (next m) (release_all m).
Proof. split; [cbn; lia|]. split; [|split]; cbn; tauto. Qed.

Lemma floor_drop n v m : Floor n m -> In v (map fst (handles m)) -> Floor n (drop_id v m).
Proof.
  intros (A & B & C & D) Hv. split; [|split; [|split]]; cbn.
  - exact A.
  - intros e H. apply filter_In in H. apply B. tauto.
  - intros e H. apply filter_In in H. apply C. tauto.
  - intros h [<-|H]; [|exact (D h H)]. apply in_map_iff in Hv. destruct Hv as (e & <- & He). exact (B e He).
Qed.
Lemma floor_evict n k keep : forall m, Floor n m -> Floor n (evict k keep m).
Proof.
  induction k as [|k IH]; intros m F; cbn [evict]; [exact F|].
  destruct (filter (fun e => negb (fst e =? keep)) (handles m)) as [|[h0 q0] r] eqn:Ef; [exact F|].
  apply IH, floor_drop; [exact F|].
  assert (Hv : In (min_of h0 (map fst r)) (map fst ((h0, q0) :: r))) by (cbn; apply min_of_in).
  rewrite <- Ef in Hv. eapply map_fst_filter_sub; eauto.
Qed.
Lemma floor_allocate n m p : Floor n m -> Floor n (fst (allocate m p)) /\ n <= snd (allocate m p).
Proof.
  intros F. pose proof F as (A & B & C & D).
  destruct (allocate_cases m p) as [(h & Ep & ->)|(_ & h & fr & nx & Hc & Ha)]; cbn [fst snd].
  - split; [exact F|]. apply (assocP_some P_eqb P_eqb_spec) in Ep. exact (C _ Ep).
  - assert (Hh : n <= h) by (destruct Hc as [(H & _)|(_ & -> & _)]; [exact (D h H)|exact A]).
    assert (F1 : Floor n (added m p h fr nx)).
    { split; [|split; [|split]]; cbn [added next handles byPath free].
      - destruct Hc as [(_ & _ & ->)|(_ & _ & _ & ->)]; lia.
      - intros e [<-|H]; [exact Hh|exact (B e H)].
      - intros e [<-|H]; [exact Hh|exact (C e H)].
      - destruct Hc as [(_ & -> & _)|(_ & _ & -> & _)]; [|intros x []]. intros x H. apply D. eapply remove1_in; exact H. }
    destruct Ha as [->|[k ->]]; cbn [fst snd]; (split; [|exact Hh]); [exact F1|apply floor_evict; exact F1].
Qed.
Lemma floor_apply n m o : Floor n m -> Floor n (apply m o).
Proof.
  intros F. destruct o as [p|h|]; cbn [Handles.apply].
  - apply floor_allocate, F.
  - unfold release. destruct (get m h) as [q|] eqn:E; [|exact F]. apply floor_drop; [exact F|eapply get_in_fst; exact E].
  - destruct F as (A & _). split; [exact A|]. split; [|split]; cbn; tauto.
Qed.
Lemma floor_final n ops : forall m, Floor n m -> Floor n (final m ops).
Proof. induction ops as [|o r IH]; intros m F; cbn; [exact F|]. apply IH, floor_apply, F. Qed.
Lemma floor_get n m v : Floor n m -> v < n -> get m v = None.
Proof.
  intros (_ & B & _) L. destruct (get m v) as [q|] eqn:E; [|reflexivity].
  apply assocH_in in E. apply B in E. cbn in E. lia.
Qed.

(* a value returned by Allocate is below [next] of every later table *)
Lemma issued_lt_next m p ops : Inv m -> snd (allocate m p) < next (final (fst (allocate m p)) ops).
Proof.
  intros I. destruct (allocate_spec P_eqb P_eqb_spec m p I) as [[I1 _] G].
  apply get_in_fst in G. apply (i_lt _ I1) in G. pose proof (next_mono_final ops (fst (allocate m p))). lia.
Qed.

Lemma release_all_fresh m ops v : v < next m ->
  free (release_all m) = [] /\ next (release_all m) = next m /\
  let m' := final (release_all m) ops in
  get m' v = None /\ ~ In v (free m') /\ forall p, next m <= snd (allocate m' p) /\ snd (allocate m' p) <> v.
Proof.
  intros L. split; [reflexivity|split; [reflexivity|]]. cbv zeta.
  pose proof (floor_final (next m) ops _ (floor_release_all m)) as F. split; [|split].
  - eapply floor_get; eauto.
  - intros H. destruct F as (_ & _ & _ & D). apply D in H. lia.
  - intros p. destruct (floor_allocate (next m) _ p F) as [_ H]. split; [exact H|lia].
Qed.

(* the whole picture across Close / Unexport + re-export *)
Lemma no_reissue_across_release_all m0 ops1 p1 ops1' ops2 p2 : Inv m0 ->
  let ma := final m0 ops1 in
  let v1 := snd (allocate ma p1) in
  let mb := final (fst (allocate ma p1)) ops1' in
  let m2 := final (release_all mb) ops2 in
  get m2 v1 = None /\ snd (allocate m2 p2) <> v1.
Proof.
  intros I. cbv zeta.
  pose proof (issued_lt_next (final m0 ops1) p1 ops1' (final_inv ops1 m0 I)) as L.
  destruct (release_all_fresh (final (fst (allocate (final m0 ops1) p1)) ops1') ops2 _ L) as (_ & _ & A & _ & B).
  split; [exact A|apply B].
Qed.

(* one value per path, from the invariant alone (HandlesProofs states it for [reach]) *)
Lemma reissue_inv m p h : Inv m -> get m h = Some p -> allocate m p = (m, h).
Proof.
  intros [I _] G. unfold get in G.
  apply assocH_in in G. apply (i_bij _ I) in G. unfold Handles.allocate.
  destruct (assocP p (byPath m)) as [h'|] eqn:E.
  - f_equal. apply (assocP_some P_eqb P_eqb_spec) in E.
    pose proof (i_ndp _ I) as NDp. clear -E G NDp.
    induction (byPath m) as [|[q k] r IH]; cbn in *; [tauto|].
    inversion NDp as [|? ? Hn ND']; subst.
    destruct E as [E|E], G as [G|G].
    + congruence.
    + inversion E; subst. exfalso. apply Hn. apply (in_map fst) in G. exact G.
    + inversion G; subst. exfalso. apply Hn. apply (in_map fst) in E. exact E.
    + auto.
  - apply (assocP_none P_eqb P_eqb_spec) in E. exfalso. apply E. apply (in_map fst) in G. exact G.
Qed.

(* ---------- the statements of Properties/C06.v ---------- *)
Lemma change_needs_free m o v : Inv m ->
  (forall p, get m v = Some p ->
     get (apply m o) v = Some p \/
     (get (apply m o) v = None /\ (In v (free (apply m o)) \/ o = ReleaseAll))) /\
  (forall q, get m v = None -> get (apply m o) v = Some q -> o = Alloc q /\ (In v (free m) \/ v = next m)).
Proof. intros I. split; [intros p; apply live_step; exact I|intros q; apply dead_step; exact I]. Qed.

(* after ReleaseAll the value is retired: below next, not live, not free, and it stays so *)
Lemma release_all_step m v p : Inv m -> get m v = Some p ->
  forall ops, retired v (final (release_all m) ops).
Proof.
  intros I G ops. apply retired_final, release_all_retires; [exact I|].
  destruct I as [I0 _]. apply (i_lt _ I0). eapply get_in_fst; exact G.
Qed.

Lemma alloc_only_stable mx ops1 ops2 v p q :
  forallb is_alloc (ops1 ++ ops2) = true -> N.of_nat (length (ops1 ++ ops2)) <= eff_max (@init P mx) ->
  let m := final (init mx) ops1 in
  let m' := final m ops2 in
  (get m v = Some p -> get m' v = Some q -> q = p) /\
  free m' = [] /\ (forall p', assocP p' (byPath m') = None -> snd (allocate m' p') = next m').
Proof.
  intros A L. cbv zeta. rewrite forallb_app in A. apply andb_true_iff in A. destruct A as [A1 A2].
  rewrite app_length, Nat2N.inj_add in L.
  assert (C0 : count (@init P mx) = 0) by reflexivity.
  destruct (alloc_only_history ops1 (init mx) eq_refl A1) as (_ & F1 & C1 & E1); [lia|].
  destruct (alloc_only_history ops2 (final (init mx) ops1) F1 A2) as (NP & F2 & _ & _); [lia|].
  split; [|split; [exact F2|]].
  - apply no_pop_stable; [apply final_inv, init_inv|exact NP].
  - intros p' Hp. apply alloc_new_returns_next; assumption.
Qed.

End HandlesReuse.

(* ====================================================================================================== *)
(* the refutation of the full statement (path type N)                                                      *)
(* ====================================================================================================== *)
Definition C06_statement_N : Prop := C06_statement_gen N.eqb.

(* limit 1: Alloc 10 -> id 1; Alloc 11 -> id 2, evicts 1 (free = [1]); Alloc 12 -> reuses id 1 *)
Lemma C06_refuted_lemma : ~ C06_statement_N.
Proof.
  intros H. specialize (H 1%Z [] 10 [Alloc 11; Alloc 12] 12).
  assert (E : 12 = 10) by (apply H; vm_compute; reflexivity). discriminate E.
Qed.
