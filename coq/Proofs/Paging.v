(* Proofs/Paging.v — the paging loop of READDIR / READDIRPLUS (Model/Srv.v [page]) for every directory, every
   cookie and every count / maxcount (property C26).
   Sections: 1 the RFC 1813 encoded size of a READDIR3resok / READDIRPLUS3resok and the model's entry size;
   2 a closed form of [page]: skip [cookie] entries, send the [fit] first of the rest, numbered from cookie+1;
   3 size: fits / exact one-entry size / maximality / progress; 4 traversals following the returned cookies;
   5 the handlers: which list is paged, names and fileids; 6 the list is the backend's listing. *)
From Coq Require Import List NArith ZArith Bool Lia ZifyBool ZifyNat ZifyN.
From Verif Require Import Gen.Facts Model.Handles Model.Backend Model.Srv Model.DirEnc
  Proofs.BackendWF Proofs.SrvPaths Proofs.SrvRO Proofs.SrvData Proofs.SrvAttrs Proofs.SrvCoh.
Import ListNotations.
Open Scope N_scope.

(* ====================================================================================================== *)
(* 1. encoded sizes                                                                                        *)
(* ====================================================================================================== *)
Notation entry := (path * nattrs)%type (only parsing).
Definition namelen (e : entry) : N := N.of_nat (length (name_of (fst e))).

Definition enc_len_page (plus : bool) (pg : list (N * entry)) : N := enc_len plus (map (fun ie => namelen (snd ie)) pg).

(* the size the Go loop charges per entry (the literals of entrySize) *)
Definition esize (plus : bool) (e : entry) : N :=
  4 + 8 + 4 + pad4 (namelen e) + 8 + (if plus then 88 + 16 else 0).
Definition esum (plus : bool) (l : list entry) : N := nsum (map (esize plus) l).

Lemma esize_rfc plus e : esize plus e = rfc_entry_len plus (namelen e).
Proof.
  unfold esize, rfc_entry_len, rfc_filename3. change rfc_post_op_attr with 88. change rfc_post_op_fh3 with 16.
  destruct plus; lia.
Qed.
Lemma header_rfc : dir_header_len = rfc_header_len. Proof. reflexivity. Qed.
Lemma header_100 : dir_header_len = 100. Proof. reflexivity. Qed.
Lemma esum_rfc plus l : esum plus l = nsum (map (rfc_entry_len plus) (map namelen l)).
Proof. unfold esum. rewrite map_map. f_equal. apply map_ext. intros e. apply esize_rfc. Qed.
Lemma nsum_cons x l : nsum (x :: l) = x + nsum l. Proof. reflexivity. Qed.
Lemma nsum_app a b : nsum (a ++ b) = nsum a + nsum b.
Proof. induction a as [|x a IH]; [reflexivity|]. cbn [app]. rewrite !nsum_cons, IH. lia. Qed.
Lemma esum_cons plus e l : esum plus (e :: l) = esize plus e + esum plus l. Proof. reflexivity. Qed.
Lemma esum_nil plus : esum plus [] = 0. Proof. reflexivity. Qed.
Lemma esum_app plus a b : esum plus (a ++ b) = esum plus a + esum plus b.
Proof. unfold esum. rewrite map_app. apply nsum_app. Qed.
Lemma esize_ge plus e : 24 <= esize plus e.
Proof. unfold esize. lia. Qed.
Lemma pad4_spec n : n <= pad4 n /\ pad4 n < n + 4 /\ pad4 n mod 4 = 0.
Proof.
  unfold pad4. pose proof (N.div_mod (n + 3) 4 ltac:(lia)) as D. pose proof (N.mod_lt (n + 3) 4 ltac:(lia)) as M.
  split; [lia|]. split; [lia|]. apply N.mod_mul. lia.
Qed.

(* ====================================================================================================== *)
(* 2. closed form of [page]                                                                                *)
(* ====================================================================================================== *)
(* entries paired with their cookies: the entry at index i carries cookie i + 1 *)
Fixpoint number {A} (i : N) (l : list A) : list (N * A) :=
  match l with [] => [] | e :: r => (i + 1, e) :: number (i + 1) r end.
(* how many entries of l are sent when [sent] entries and [len] bytes are already in the reply *)
Fixpoint fit (plus : bool) (limit sent len : N) (l : list entry) : nat :=
  match l with
  | [] => O
  | e :: r => if (0 <? sent) && (limit <? len + esize plus e + 8) then O
              else S (fit plus limit (sent + 1) (len + esize plus e) r)
  end.

Lemma number_length {A} (l : list A) i : length (number i l) = length l.
Proof. revert i. induction l as [|e r IH]; intros i; cbn [number length]; [reflexivity|]. rewrite IH. reflexivity. Qed.
Lemma number_snd {A} (l : list A) i : map snd (number i l) = l.
Proof. revert i. induction l as [|e r IH]; intros i; cbn [number map snd]; [reflexivity|]. rewrite IH. reflexivity. Qed.
Lemma number_app {A} (a b : list A) i : number i (a ++ b) = number i a ++ number (i + N.of_nat (length a)) b.
Proof.
  revert i. induction a as [|e r IH]; intros i; cbn [number app length].
  - replace (i + N.of_nat 0) with i by lia. reflexivity.
  - rewrite IH. replace (i + 1 + N.of_nat (length r)) with (i + N.of_nat (S (length r))) by lia. reflexivity.
Qed.
Lemma number_fst {A} (l : list A) i : map fst (number i l) = map (fun k => i + 1 + N.of_nat k) (seq 0 (length l)).
Proof.
  revert i. induction l as [|e r IH]; intros i; cbn [number map fst length seq]; [reflexivity|].
  rewrite IH, <- seq_shift, map_map. replace (i + 1 + N.of_nat 0) with (i + 1) by lia. f_equal.
  apply map_ext. intros k. lia.
Qed.
Lemma number_last {A} (l : list A) i d : l <> [] -> last (map fst (number i l)) d = i + N.of_nat (length l).
Proof.
  revert i. induction l as [|e r IH]; intros i NE; [congruence|]. cbn [number map fst length].
  destruct r as [|e' r']; [cbn; lia|].
  change (last (i + 1 :: map fst (number (i + 1) (e' :: r'))) d) with (last (map fst (number (i + 1) (e' :: r'))) d).
  rewrite IH by congruence. cbn [length]. lia.
Qed.
Lemma number_nth {A} (l : list A) i k e : nth_error l k = Some e -> nth_error (number i l) k = Some (i + 1 + N.of_nat k, e).
Proof.
  revert i k. induction l as [|x r IH]; intros i k; destruct k as [|k]; cbn [nth_error number]; try discriminate.
  - intros [= ->]. replace (i + 1 + N.of_nat 0) with (i + 1) by lia. reflexivity.
  - intros H. rewrite (IH (i + 1) k H). replace (i + 1 + 1 + N.of_nat k) with (i + 1 + N.of_nat (S k)) by lia. reflexivity.
Qed.

Lemma nth_firstn {A} (l : list A) : forall k j x, nth_error (firstn k l) j = Some x -> nth_error l j = Some x /\ (j < k)%nat.
Proof.
  induction l as [|y r IH]; intros k j x; destruct k as [|k]; destruct j as [|j]; cbn [firstn nth_error]; try discriminate.
  - intros H. split; [exact H|lia].
  - intros H. destruct (IH k j x H). split; [assumption|lia].
Qed.
Lemma nth_skipn {A} (l : list A) : forall n j, nth_error (skipn n l) j = nth_error l (n + j).
Proof.
  induction l as [|y r IH]; intros n j; destruct n as [|n]; cbn [skipn Nat.add]; try reflexivity.
  - destruct j; reflexivity.
  - apply IH.
Qed.
Lemma skipn_skipn' {A} (l : list A) : forall a b, skipn a (skipn b l) = skipn (b + a) l.
Proof.
  induction l as [|y r IH]; intros a b; [rewrite !skipn_nil; reflexivity|].
  destruct b as [|b]; [reflexivity|]. cbn [skipn Nat.add]. apply IH.
Qed.

Lemma In_firstn' {A} (x : A) : forall l k, In x (firstn k l) -> In x l.
Proof.
  induction l as [|y r IH]; intros [|k]; cbn [firstn In]; try tauto. intros [H|H]; [left; exact H|right; exact (IH k H)].
Qed.
Lemma In_skipn' {A} (x : A) : forall l k, In x (skipn k l) -> In x l.
Proof.
  induction l as [|y r IH]; intros [|k]; cbn [skipn]; try tauto. intros H. right. exact (IH k H).
Qed.

Lemma page_nil plus limit i cookie sent len : page plus limit i cookie sent len [] = ([], false).
Proof. reflexivity. Qed.
Lemma page_cons plus limit i cookie sent len e r :
  page plus limit i cookie sent len (e :: r) =
  if i <? cookie then page plus limit (i + 1) cookie sent len r
  else if (0 <? sent) && (limit <? len + esize plus e + 8) then ([], true)
  else let '(rest, lim) := page plus limit (i + 1) cookie (sent + 1) (len + esize plus e) r in ((i + 1, e) :: rest, lim).
Proof. reflexivity. Qed.

(* entries below the cookie are skipped without being counted *)
Lemma page_skip plus limit cookie sent len l2 : forall l1 i, i + N.of_nat (length l1) <= cookie ->
  page plus limit i cookie sent len (l1 ++ l2) = page plus limit (i + N.of_nat (length l1)) cookie sent len l2.
Proof.
  induction l1 as [|e r IH]; intros i H; cbn [app length] in *.
  - replace (i + N.of_nat 0) with i by lia. reflexivity.
  - rewrite page_cons. replace (i <? cookie) with true by lia. rewrite IH by lia.
    replace (i + 1 + N.of_nat (length r)) with (i + N.of_nat (S (length r))) by lia. reflexivity.
Qed.
(* from the cookie on: the first [fit] entries, numbered, and reachedLimit iff some entry is left *)
Lemma page_past plus limit cookie : forall l i sent len, cookie <= i ->
  page plus limit i cookie sent len l =
  (number i (firstn (fit plus limit sent len l) l), Nat.ltb (fit plus limit sent len l) (length l)).
Proof.
  induction l as [|e r IH]; intros i sent len H; [reflexivity|].
  rewrite page_cons. replace (i <? cookie) with false by lia. cbn [fit].
  destruct ((0 <? sent) && (limit <? len + esize plus e + 8)); [reflexivity|].
  rewrite IH by lia. reflexivity.
Qed.

(* the entries remaining at a cookie *)
Definition remaining {A} (cookie : N) (l : list A) : list A := skipn (N.to_nat cookie) l.

Theorem page_spec plus limit cookie len l :
  let rem := remaining cookie l in
  let k := fit plus limit 0 len rem in
  page plus limit 0 cookie 0 len l = (number cookie (firstn k rem), Nat.ltb k (length rem)).
Proof.
  cbv zeta. unfold remaining. destruct (N.to_nat cookie <=? length l)%nat eqn:E.
  - apply Nat.leb_le in E. rewrite <- (firstn_skipn (N.to_nat cookie) l) at 1.
    rewrite page_skip by (rewrite firstn_length_le by exact E; lia).
    rewrite firstn_length_le by exact E. replace (0 + N.of_nat (N.to_nat cookie)) with cookie by lia.
    apply page_past. lia.
  - apply Nat.leb_gt in E. rewrite skipn_all2 by lia. cbn [fit firstn number length Nat.ltb Nat.leb].
    rewrite <- (app_nil_r l) at 1. rewrite page_skip by lia. reflexivity.
Qed.

(* ====================================================================================================== *)
(* 3. size, progress, maximality                                                                           *)
(* ====================================================================================================== *)
Lemma fit_le plus limit : forall l sent len, (fit plus limit sent len l <= length l)%nat.
Proof.
  induction l as [|e r IH]; intros sent len; cbn [fit length]; [lia|].
  destruct ((0 <? sent) && (limit <? len + esize plus e + 8)); [lia|]. specialize (IH (sent + 1) (len + esize plus e)). lia.
Qed.
Lemma fit_first plus limit len e r : fit plus limit 0 len (e :: r) = S (fit plus limit 1 (len + esize plus e) r).
Proof. reflexivity. Qed.
(* the first remaining entry is always sent *)
Lemma fit_progress plus limit len l : l <> [] -> (1 <= fit plus limit 0 len l)%nat.
Proof. destruct l as [|e r]; [congruence|]. intros _. rewrite fit_first. lia. Qed.
(* once an entry has been sent, everything sent afterwards keeps the reply (with its trailer) within the limit *)
Lemma fit_bound plus limit : forall l sent len, 0 < sent -> (1 <= fit plus limit sent len l)%nat ->
  len + esum plus (firstn (fit plus limit sent len l) l) + 8 <= limit.
Proof.
  induction l as [|e r IH]; intros sent len S1 K; cbn [fit] in *; [lia|].
  destruct ((0 <? sent) && (limit <? len + esize plus e + 8)) eqn:C; [lia|].
  cbn [firstn]. unfold esum in *. cbn [map nsum fold_right].
  destruct (fit plus limit (sent + 1) (len + esize plus e) r) as [|k'] eqn:F.
  - cbn [firstn map nsum fold_right]. lia.
  - specialize (IH (sent + 1) (len + esize plus e) ltac:(lia)). rewrite F in IH. specialize (IH ltac:(lia)).
    unfold nsum in *. lia.
Qed.
(* two or more entries: the reply fits, whatever the limit *)
Lemma fit_fits plus limit len l : (2 <= fit plus limit 0 len l)%nat ->
  len + esum plus (firstn (fit plus limit 0 len l) l) + 8 <= limit.
Proof.
  destruct l as [|e r]; [cbn; lia|]. rewrite fit_first. intros K. cbn [firstn]. unfold esum. cbn [map nsum fold_right].
  pose proof (fit_bound plus limit r 1 (len + esize plus e) ltac:(lia) ltac:(lia)) as B. unfold esum, nsum in *. lia.
Qed.
(* exactly one entry: it is the first remaining one, and the reply has exactly header + entry + trailer bytes *)
Lemma fit_one plus limit len l : fit plus limit 0 len l = 1%nat ->
  exists e r, l = e :: r /\ firstn 1 l = [e] /\ len + esum plus (firstn 1 l) + 8 = len + esize plus e + 8.
Proof.
  destruct l as [|e r]; [cbn; discriminate|]. intros _. exists e, r. split; [reflexivity|]. split; [reflexivity|].
  unfold esum. cbn. lia.
Qed.
(* a limit that holds the first remaining entry (or, with nothing remaining, the empty reply) is respected *)
Lemma fit_fits_partial plus limit len l :
  match l with [] => len + 8 <= limit | e :: _ => len + esize plus e + 8 <= limit end ->
  len + esum plus (firstn (fit plus limit 0 len l) l) + 8 <= limit.
Proof.
  destruct l as [|e r]; [cbn; lia|]. intros H. rewrite fit_first. cbn [firstn]. unfold esum. cbn [map nsum fold_right].
  destruct (fit plus limit 1 (len + esize plus e) r) as [|k'] eqn:F.
  - cbn. lia.
  - pose proof (fit_bound plus limit r 1 (len + esize plus e) ltac:(lia)) as B. rewrite F in B. specialize (B ltac:(lia)).
    unfold esum, nsum in *. lia.
Qed.
(* pages are maximal: the loop stops only in front of an entry that would push the reply past the limit *)
Lemma fit_maximal plus limit : forall l sent len, (fit plus limit sent len l < length l)%nat ->
  0 < sent \/ (0 < fit plus limit sent len l)%nat ->
  exists e, nth_error l (fit plus limit sent len l) = Some e /\
            limit < len + esum plus (firstn (fit plus limit sent len l) l) + esize plus e + 8.
Proof.
  induction l as [|e r IH]; intros sent len K P; cbn [fit length] in *; [lia|].
  destruct ((0 <? sent) && (limit <? len + esize plus e + 8)) eqn:C.
  - exists e. split; [reflexivity|]. unfold esum. cbn. lia.
  - destruct (IH (sent + 1) (len + esize plus e) ltac:(lia) ltac:(left; lia)) as (e' & N1 & N2).
    exists e'. split; [exact N1|]. cbn [firstn]. unfold esum in *. cbn [map nsum fold_right]. unfold nsum in *. lia.
Qed.

(* ---------- the same, for [page] ---------- *)
Lemma page_entries_len plus limit cookie l :
  let pl := page plus limit 0 cookie 0 dir_header_len l in
  enc_len_page plus (fst pl) = dir_header_len + esum plus (map snd (fst pl)) + 8.
Proof.
  cbv zeta. unfold enc_len_page, enc_len. rewrite esum_rfc, !map_map. reflexivity.
Qed.

Section PageFacts.
Variables (plus : bool) (limit cookie : N) (l : list entry).
Let rem := remaining cookie l.
Let k := fit plus limit 0 dir_header_len rem.
Let pg := fst (page plus limit 0 cookie 0 dir_header_len l).
Let lim := snd (page plus limit 0 cookie 0 dir_header_len l).

Lemma pg_eq : pg = number cookie (firstn k rem).
Proof. unfold pg. rewrite page_spec. reflexivity. Qed.
Lemma lim_eq : lim = Nat.ltb k (length rem).
Proof. unfold lim. rewrite page_spec. reflexivity. Qed.
Lemma k_le : (k <= length rem)%nat. Proof. apply fit_le. Qed.
Lemma pg_length : length pg = k.
Proof. rewrite pg_eq, number_length, firstn_length_le; [reflexivity|apply k_le]. Qed.
Lemma pg_snd : map snd pg = firstn k rem.
Proof. rewrite pg_eq. apply number_snd. Qed.
Lemma pg_len : enc_len_page plus pg = dir_header_len + esum plus (firstn k rem) + 8.
Proof. unfold pg. rewrite page_entries_len. fold pg. rewrite pg_snd. reflexivity. Qed.

(* cookies: the page is exactly l[cookie .. cookie+k) with cookies cookie+1 .. cookie+k; reachedLimit iff entries remain *)
Lemma page_cookies :
  map snd pg = firstn k rem /\
  map fst pg = map (fun j => cookie + 1 + N.of_nat j) (seq 0 k) /\
  lim = Nat.ltb k (length rem) /\
  (lim = false -> map snd pg = rem) /\
  (forall j e, nth_error pg j = Some e -> fst e = cookie + 1 + N.of_nat j /\ nth_error l (N.to_nat cookie + j) = Some (snd e)).
Proof.
  split; [apply pg_snd|]. split.
  { rewrite pg_eq, number_fst, firstn_length_le by apply k_le. reflexivity. }
  split; [apply lim_eq|]. split.
  { rewrite lim_eq, pg_snd. intros H. apply Nat.ltb_ge in H. apply firstn_all2. exact H. }
  intros j e H. rewrite pg_eq in H.
  destruct (nth_error (firstn k rem) j) as [x|] eqn:N1.
  - rewrite (number_nth _ cookie j x N1) in H. injection H as <-. cbn [fst snd]. split; [reflexivity|].
    apply nth_firstn in N1. destruct N1 as [N1 _]. unfold rem, remaining in N1. rewrite nth_skipn in N1. exact N1.
  - exfalso. assert (X : (length (number cookie (firstn k rem)) <= j)%nat).
    { rewrite number_length. apply nth_error_None. exact N1. }
    apply nth_error_None in X. congruence.
Qed.

(* size *)
Lemma page_fits : (2 <= length pg)%nat -> enc_len_page plus pg <= limit.
Proof. rewrite pg_length, pg_len. apply fit_fits. Qed.
Lemma page_fits_one : length pg = 1%nat ->
  exists e r, rem = e :: r /\ map snd pg = [e] /\ enc_len_page plus pg = dir_header_len + esize plus e + 8.
Proof.
  rewrite pg_length. intros K. destruct (fit_one plus limit dir_header_len rem K) as (e & r & E1 & E2 & E3).
  exists e, r. split; [exact E1|]. rewrite pg_snd, pg_len. fold k in K |- *. rewrite K. split; [exact E2|exact E3].
Qed.
Lemma page_fits_partial :
  match rem with [] => dir_header_len + 8 <= limit | e :: _ => dir_header_len + esize plus e + 8 <= limit end ->
  enc_len_page plus pg <= limit.
Proof. rewrite pg_len. apply fit_fits_partial. Qed.
Lemma page_progress : rem <> [] -> (1 <= length pg)%nat.
Proof. rewrite pg_length. apply fit_progress. Qed.
Lemma page_progress_idx : cookie < N.of_nat (length l) -> (1 <= length pg)%nat.
Proof.
  intros H. apply page_progress. unfold rem, remaining. intros E.
  assert (X : length (skipn (N.to_nat cookie) l) = 0%nat) by (rewrite E; reflexivity).
  rewrite skipn_length in X. lia.
Qed.
Lemma page_maximal : lim = true ->
  exists e, nth_error rem k = Some e /\ limit < enc_len_page plus pg + esize plus e.
Proof.
  rewrite lim_eq, pg_len. intros H. apply Nat.ltb_lt in H.
  assert (NE : rem <> []) by (intros E; rewrite E in H; cbn in H; lia).
  destruct (fit_maximal plus limit rem 0 dir_header_len H (or_intror (fit_progress plus limit dir_header_len rem NE)))
    as (e & N1 & N2).
  exists e. split; [exact N1|]. fold k in N2. lia.
Qed.
Lemma page_eof_iff : lim = false <-> (length rem <= k)%nat.
Proof. rewrite lim_eq. apply Nat.ltb_ge. Qed.
End PageFacts.

(* ====================================================================================================== *)
(* 4. traversals: a client that follows the cookie of the last entry until eof                             *)
(* ====================================================================================================== *)
(* q f = (flavour, count / maxcount) of the call made with f calls of fuel left: every call of a traversal may use
   another procedure and another limit.  Result: the pages received, and whether the last one said eof.  A page
   without entries and without eof stops the client (it has no cookie to continue with). *)
Fixpoint traverse (q : nat -> bool * N) (fuel : nat) (cookie : N) (l : list entry) : list (list (N * entry)) * bool :=
  match fuel with
  | O => ([], false)
  | S f =>
    let '(pg, lim) := page (fst (q f)) (snd (q f)) 0 cookie 0 dir_header_len l in
    if lim then
      match pg with
      | [] => ([pg], false)
      | _ :: _ => let '(rest, done) := traverse q f (last (map fst pg) cookie) l in (pg :: rest, done)
      end
    else ([pg], true)
  end.

Lemma traverse_from q l : forall fuel c, (c <= length l)%nat -> (length l - c < fuel)%nat ->
  snd (traverse q fuel (N.of_nat c) l) = true /\
  concat (fst (traverse q fuel (N.of_nat c) l)) = number (N.of_nat c) (skipn c l) /\
  (length (fst (traverse q fuel (N.of_nat c) l)) <= fuel)%nat /\
  (1 <= length (fst (traverse q fuel (N.of_nat c) l)))%nat.
Proof.
  induction fuel as [|f IH]; intros c C F; [lia|]. cbn [traverse].
  rewrite page_spec. unfold remaining. rewrite Nat2N.id.
  set (rem := skipn c l). set (k := fit (fst (q f)) (snd (q f)) 0 dir_header_len rem).
  assert (KL : (k <= length rem)%nat) by apply fit_le.
  assert (RL : length rem = (length l - c)%nat) by (unfold rem; apply skipn_length).
  destruct (Nat.ltb k (length rem)) eqn:E.
  - apply Nat.ltb_lt in E.
    assert (NE : rem <> []) by (intros X; rewrite X in E; cbn in E; lia).
    assert (K1 : (1 <= k)%nat) by (apply fit_progress; exact NE).
    assert (FN : firstn k rem <> []).
    { intros X. assert (Y : length (firstn k rem) = 0%nat) by (rewrite X; reflexivity).
      rewrite firstn_length_le in Y by exact KL. lia. }
    destruct (number (N.of_nat c) (firstn k rem)) as [|x xs] eqn:NB.
    { exfalso. assert (Y : length (number (N.of_nat c) (firstn k rem)) = 0%nat) by (rewrite NB; reflexivity).
      rewrite number_length, firstn_length_le in Y by exact KL. lia. }
    rewrite <- NB. rewrite number_last by exact FN. rewrite firstn_length_le by exact KL.
    replace (N.of_nat c + N.of_nat k) with (N.of_nat (c + k)) by lia.
    destruct (IH (c + k)%nat ltac:(lia) ltac:(lia)) as (I1 & I2 & I3 & I4).
    destruct (traverse q f (N.of_nat (c + k)) l) as [rest done]. cbn [fst snd] in *.
    split; [exact I1|]. split; [|cbn [length]; lia].
    cbn [concat]. rewrite I2. rewrite <- (skipn_skipn' l k c). fold rem.
    replace (N.of_nat (c + k)) with (N.of_nat c + N.of_nat (length (firstn k rem))) by (rewrite firstn_length_le by exact KL; lia).
    rewrite <- number_app, firstn_skipn. reflexivity.
  - apply Nat.ltb_ge in E. cbn [fst snd concat length]. rewrite app_nil_r, firstn_all2 by exact E.
    split; [reflexivity|]. split; [reflexivity|lia].
Qed.

(* ====================================================================================================== *)
(* 5. the handlers                                                                                         *)
(* ====================================================================================================== *)
Definition NFS3ERR_TOOSMALL : N := 10005.     (* RFC 1813 nfsstat3 *)
Definition dentry_of (ie : N * entry) : dentry :=
  {| de_fileid := na_fileid (snd (snd ie)); de_name := name_of (fst (snd ie)); de_cookie := fst ie; de_attr := None; de_fh := None |}.
(* cookie, name, fileid of a reply entry *)
Definition de3 (de : dentry) : N * name * N := (de_cookie de, de_name de, de_fileid de).
Definition pg3 (ie : N * entry) : N * name * N := (fst ie, name_of (fst (snd ie)), na_fileid (snd (snd ie))).

Lemma enc_len_obs_page plus des pg : map de3 des = map pg3 pg -> enc_len_obs plus des = enc_len_page plus pg.
Proof.
  intros H. unfold enc_len_obs, enc_len_page. f_equal. f_equal. f_equal.
  revert pg H. induction des as [|d r IH]; intros [|p pr] H; cbn [map] in *; try discriminate; [reflexivity|].
  injection H as _ Hn _ Ht. unfold namelen. rewrite Hn. f_equal. apply IH. exact Ht.
Qed.

Lemma alloc_all_pg3 : forall pg s, map de3 (snd (alloc_all s pg)) = map pg3 pg.
Proof.
  induction pg as [|[ck [p a]] r IH]; intros s; cbn [alloc_all]; [reflexivity|].
  destruct (alloc s p a) as [s1 fh]. specialize (IH s1). destruct (alloc_all s1 r) as [s2 rest]. cbn [snd map] in *.
  rewrite IH. reflexivity.
Qed.

(* a successful READDIR: the entries are [page] of the list AbsfsNFS.ReadDir produced *)
Lemma handle_readdir_ok s h cookie count :
  let r := handle_readdir s h cookie count in
  ob_rpc (snd r) = 0 /\ ob_status (snd r) <> NFS3ERR_TOOSMALL /\
  (ob_status (snd r) = 0 ->
   exists d da s1 ents, lookup_node s h = Some (d, da) /\ na_kind da = KDir /\ srv_readdir s d = (s1, Ok ents) /\
     let pl := page false count 0 cookie 0 dir_header_len ents in
     ob_entries (snd r) = map dentry_of (fst pl) /\ map de3 (ob_entries (snd r)) = map pg3 (fst pl) /\
     ob_eof (snd r) = negb (snd pl)).
Proof.
  cbv zeta. unfold handle_readdir.
  destruct (lookup_node s h) as [[d da]|] eqn:L; [|split; [reflexivity|split; [vm_compute; discriminate|vm_compute; discriminate]]].
  destruct (kind_eqb (na_kind da) KDir) eqn:K; cbn [negb];
    [|split; [reflexivity|split; [vm_compute; discriminate|vm_compute; discriminate]]].
  assert (KD : na_kind da = KDir) by (destruct (na_kind da); (reflexivity || discriminate)).
  destruct (srv_readdir s d) as [s1 [ents|e]] eqn:R.
  2:{ split; [reflexivity|]. split; [destruct e; vm_compute; discriminate|]. intros H. exfalso. exact (map_error_nonzero e H). }
  destruct (getattr_h s1 h d) as [s2 [a|e]].
  2:{ split; [reflexivity|]. split; [destruct e; vm_compute; discriminate|]. intros H. exfalso. exact (map_error_nonzero e H). }
  destruct (page false count 0 cookie 0 dir_header_len ents) as [pg lim] eqn:P. cbn [snd fst ob_rpc ob_status ob_entries ob_eof].
  split; [reflexivity|]. split; [vm_compute; discriminate|]. intros _.
  exists d, da, s1, ents. split; [reflexivity|]. split; [exact KD|]. split; [exact R|].
  rewrite P. cbn [fst snd]. split; [reflexivity|]. split; [rewrite map_map; reflexivity|reflexivity].
Qed.

(* a successful READDIRPLUS: [page] of the list ReadDirPlus produced (ReadDir's list, refreshed) *)
Lemma handle_readdirplus_ok s h cookie maxcount :
  let r := handle_readdirplus s h cookie maxcount in
  ob_rpc (snd r) = 0 /\ ob_status (snd r) <> NFS3ERR_TOOSMALL /\
  (ob_status (snd r) = 0 ->
   exists d da s1 ents0, lookup_node s h = Some (d, da) /\ na_kind da = KDir /\ srv_readdir s d = (s1, Ok ents0) /\
     let pl := page true maxcount 0 cookie 0 dir_header_len (snd (refresh_all s1 ents0)) in
     map de3 (ob_entries (snd r)) = map pg3 (fst pl) /\
     ob_eof (snd r) = negb (snd pl)).
Proof.
  cbv zeta. unfold handle_readdirplus.
  destruct (lookup_node s h) as [[d da]|] eqn:L; [|split; [reflexivity|split; [vm_compute; discriminate|vm_compute; discriminate]]].
  destruct (kind_eqb (na_kind da) KDir) eqn:K; cbn [negb];
    [|split; [reflexivity|split; [vm_compute; discriminate|vm_compute; discriminate]]].
  assert (KD : na_kind da = KDir) by (destruct (na_kind da); (reflexivity || discriminate)).
  destruct (srv_readdir s d) as [s1 [ents0|e]] eqn:R.
  2:{ split; [reflexivity|]. split; [destruct e; vm_compute; discriminate|]. intros H. exfalso. exact (map_error_nonzero e H). }
  destruct (refresh_all s1 ents0) as [s1' ents] eqn:RF.
  destruct (getattr_h s1' h d) as [s2 [a|e]].
  2:{ split; [reflexivity|]. split; [destruct e; vm_compute; discriminate|]. intros H. exfalso. exact (map_error_nonzero e H). }
  destruct (page true maxcount 0 cookie 0 dir_header_len ents) as [pg lim] eqn:P.
  pose proof (alloc_all_pg3 pg s2) as A. destruct (alloc_all s2 pg) as [s3 des]. cbn [snd fst ob_rpc ob_status ob_entries ob_eof] in *.
  split; [reflexivity|]. split; [vm_compute; discriminate|]. intros _.
  exists d, da, s1, ents0. split; [reflexivity|]. split; [exact KD|]. split; [exact R|].
  rewrite RF. cbn [snd]. rewrite P. cbn [fst snd]. split; [exact A|reflexivity].
Qed.

(* ====================================================================================================== *)
(* 6. the paged list is the backend's listing                                                              *)
(* ====================================================================================================== *)
(* names ReadDir keeps: not "." / "..", and accepted by sanitizePath (which refuses every joined path that
   CONTAINS ".." - so a name like "a..b", or any name inside a directory whose own path contains "..") *)
Definition listed (d : path) (n : name) : bool := negb (is_dot n || is_dotdot n || negb (sanitize_ok d n)).
Definition listed_names (f : fsmap) (d : path) : list name := filter (listed d) (listing f d).

Lemma ref_lookall_paths f d : forall names, (forall n, In n names -> fs_get f (d ++ [n]) <> None) ->
  map fst (ref_lookall f d names) = map (fun n => d ++ [n]) (filter (listed d) names).
Proof.
  induction names as [|n r IH]; intros H; [reflexivity|]. cbn [ref_lookall filter]. unfold listed at 1.
  destruct (is_dot n || is_dotdot n || negb (sanitize_ok d n)); cbn [negb]; [apply IH; intros m M; apply H; right; exact M|].
  unfold pk. destruct (fs_get f (d ++ [n])) as [o|] eqn:G; [|exfalso; exact (H n (or_introl eq_refl) G)].
  cbn [option_map]. destruct (pko o) as [[k pm] sz]. cbn [map fst]. f_equal. apply IH. intros m M. apply H. right. exact M.
Qed.
Lemma ref_lookall_fileids f d : forall names l, map pe l = ref_lookall f d names ->
  Forall (fun e : entry => na_fileid (snd e) = fileid_of (fst e)) l.
Proof.
  induction names as [|n r IH]; intros l H; cbn [ref_lookall] in H.
  - destruct l; [constructor|discriminate].
  - destruct (is_dot n || is_dotdot n || negb (sanitize_ok d n)); [apply IH; exact H|].
    destruct (pk f (d ++ [n])) as [[[k pm] sz]|]; [|apply IH; exact H].
    destruct l as [|e l']; [discriminate|]. cbn [map] in H. unfold pe at 1, pn in H. injection H as Hp _ _ _ Hf Ht.
    constructor; [|apply IH; exact Ht]. rewrite Hf, Hp. reflexivity.
Qed.

(* ReadDir on a coherent state lists exactly the listed children of the directory, in the backend's (bytewise)
   order, each with the file id of its own path *)
Lemma srv_readdir_listing s d s1 ents : Good s -> gpath d -> srv_readdir s d = (s1, Ok ents) ->
  map fst ents = map (fun n => d ++ [n]) (listed_names (fs s) d) /\
  Forall (fun e : entry => na_fileid (snd e) = fileid_of (fst e)) ents /\
  ents_ok (fs s) ents /\ Good s1 /\ fs s1 = fs s.
Proof.
  intros G GD R. pose proof (gpath_nodd d GD) as ND.
  destruct (srv_readdir_spec s d G GD) as (C & G1 & RR). rewrite R in C, G1, RR. cbn [fst snd] in *.
  unfold readdir_res in RR.
  assert (NM : forall names, rd_names (fs s) d = Ok names -> names = listing (fs s) d).
  { unfold rd_names. intros names. destruct (be_open_spec (fs s) (g_wf s G) (g_nl s G) d false ND) as [e S]. rewrite S.
    destruct (fs_get (fs s) d) as [o|]; [|discriminate]. rewrite andb_false_r.
    destruct (be_readdir (fs s) d) as [es|e'] eqn:BR; [|discriminate]. intros [= <-].
    exact (proj1 (be_readdir_listing _ _ _ BR)). }
  destruct (rd_names (fs s) d) as [names|e]; [|discriminate].
  rewrite (NM names eq_refl) in RR. destruct RR as (l & [= <-] & M & EO).
  split.
  { replace (map fst ents) with (map fst (map pe ents)) by (rewrite map_map; reflexivity). rewrite M.
    apply ref_lookall_paths. intros n I. apply In_listing. exact I. }
  split; [eapply ref_lookall_fileids; exact M|]. split; [exact EO|]. split; [exact G1|exact (proj1 C)].
Qed.

(* names and fileids of the entries of a page over such a list *)
Lemma page_names plus limit cookie (ents : list entry) d names :
  map fst ents = map (fun n => d ++ [n]) names ->
  Forall (fun e : entry => na_fileid (snd e) = fileid_of (fst e)) ents ->
  let pl := page plus limit 0 cookie 0 dir_header_len ents in
  let k := length (fst pl) in
  map (fun ie => name_of (fst (snd ie))) (fst pl) = firstn k (remaining cookie names) /\
  Forall (fun ie => na_fileid (snd (snd ie)) = fileid_of (d ++ [name_of (fst (snd ie))])) (fst pl) /\
  snd pl = Nat.ltb k (length (remaining cookie names)).
Proof.
  intros M F. cbv zeta.
  destruct (page_cookies plus limit cookie ents) as (P1 & _ & P3 & _).
  rewrite (pg_length plus limit cookie ents) in *.
  set (k := fit plus limit 0 dir_header_len (remaining cookie ents)) in *.
  assert (NM : map (fun e : entry => name_of (fst e)) ents = names).
  { rewrite <- (map_map fst name_of), M, map_map. rewrite <- (map_id names) at 2. apply map_ext. intros n. apply name_of_child. }
  split.
  { rewrite <- (map_map snd (fun e : entry => name_of (fst e))), P1, <- NM. unfold remaining.
    rewrite <- firstn_map, <- skipn_map. reflexivity. }
  split.
  { apply Forall_forall. intros ie I.
    assert (I2 : In (snd ie) ents).
    { assert (X : In (snd ie) (map snd (fst (page plus limit 0 cookie 0 dir_header_len ents)))) by (apply in_map; exact I).
      rewrite P1 in X. unfold remaining in X. exact (In_skipn' _ _ _ (In_firstn' _ _ _ X)). }
    pose proof (proj1 (Forall_forall _ _) F _ I2) as Hf. rewrite Hf.
    assert (X : In (fst (snd ie)) (map fst ents)) by (apply in_map; exact I2).
    rewrite M in X. apply in_map_iff in X. destruct X as (n & <- & _). rewrite name_of_child. reflexivity. }
  rewrite P3. unfold remaining. rewrite !skipn_length, <- NM, map_length. reflexivity.
Qed.

(* ====================================================================================================== *)
(* 7. the handlers on a coherent state: entries = consecutive slice of the backend's listing               *)
(* ====================================================================================================== *)
(* what a successful reply with entries [des] and eof flag [eof] must be, for a directory d whose listed names
   are [names], a call with [cookie] and [limit] *)
Definition slice_ok (plus : bool) (d : path) (names : list name) (cookie limit : N) (des : list dentry) (eof : bool) : Prop :=
  let k := length des in
  let rem := remaining cookie names in
  map de_name des = firstn k rem /\
  map de_cookie des = map (fun j => cookie + 1 + N.of_nat j) (seq 0 k) /\
  Forall (fun de => de_fileid de = fileid_of (d ++ [de_name de])) des /\
  eof = negb (Nat.ltb k (length rem)) /\
  (rem <> [] -> (1 <= k)%nat) /\
  ((2 <= k)%nat -> enc_len_obs plus des <= limit) /\
  (match rem with [] => dir_header_len + 8 <= limit
   | n :: _ => dir_header_len + rfc_entry_len plus (N.of_nat (length n)) + 8 <= limit end -> enc_len_obs plus des <= limit).

Lemma slice_of_page plus limit cookie (ents : list entry) d names des eof :
  map fst ents = map (fun n => d ++ [n]) names ->
  Forall (fun e : entry => na_fileid (snd e) = fileid_of (fst e)) ents ->
  map de3 des = map pg3 (fst (page plus limit 0 cookie 0 dir_header_len ents)) ->
  eof = negb (snd (page plus limit 0 cookie 0 dir_header_len ents)) ->
  slice_ok plus d names cookie limit des eof.
Proof.
  intros M F D E. unfold slice_ok. cbv zeta.
  destruct (page_names plus limit cookie ents d names M F) as (N1 & N2 & N3). cbv zeta in N1, N2, N3.
  destruct (page_cookies plus limit cookie ents) as (_ & C2 & _).
  pose proof (pg_length plus limit cookie ents) as PL.
  set (pg := fst (page plus limit 0 cookie 0 dir_header_len ents)) in *.
  assert (LEN : length des = length pg) by (rewrite <- (map_length de3 des), D, map_length; reflexivity).
  assert (Dn : map de_name des = map (fun ie : N * entry => name_of (fst (snd ie))) pg).
  { replace (map de_name des) with (map (fun t : N * name * N => snd (fst t)) (map de3 des)) by (rewrite map_map; reflexivity).
    rewrite D, map_map. reflexivity. }
  assert (Dc : map de_cookie des = map fst pg).
  { replace (map de_cookie des) with (map (fun t : N * name * N => fst (fst t)) (map de3 des)) by (rewrite map_map; reflexivity).
    rewrite D, map_map. reflexivity. }
  assert (NMlen : length (remaining cookie names) = length (remaining cookie ents)).
  { unfold remaining. rewrite !skipn_length. f_equal.
    rewrite <- (map_length fst ents), M, map_length. reflexivity. }
  rewrite LEN. split; [rewrite Dn; exact N1|].
  split. { rewrite Dc, C2, PL. reflexivity. }
  split.
  { apply Forall_forall. intros de I.
    assert (X : In (de3 de) (map pg3 pg)) by (rewrite <- D; apply in_map; exact I).
    apply in_map_iff in X. destruct X as (ie & E3 & Ii). pose proof (proj1 (Forall_forall _ _) N2 ie Ii) as Hf.
    unfold de3, pg3 in E3. injection E3 as _ En Ef. rewrite <- Ef, <- En. exact Hf. }
  split; [rewrite E, N3; reflexivity|].
  split.
  { intros NE. fold pg. unfold pg. apply page_progress. intros X. apply NE.
    assert (Y : length (remaining cookie names) = 0%nat) by (rewrite NMlen, X; reflexivity).
    destruct (remaining cookie names); [reflexivity|discriminate]. }
  rewrite (enc_len_obs_page plus des pg D). split; [apply page_fits|].
  intros H. apply page_fits_partial.
  assert (HD : match remaining cookie ents with [] => remaining cookie names = []
               | e :: _ => exists n r, remaining cookie names = n :: r /\ n = name_of (fst e) end).
  { assert (NM : map (fun e : entry => name_of (fst e)) ents = names).
    { rewrite <- (map_map fst name_of), M, map_map. rewrite <- (map_id names) at 2. apply map_ext. intros n. apply name_of_child. }
    unfold remaining in *. rewrite <- NM, skipn_map. destruct (skipn (N.to_nat cookie) ents) as [|e r]; [reflexivity|].
    cbn [map]. eexists _, _. split; reflexivity. }
  destruct (remaining cookie ents) as [|e r]; [rewrite HD in H; exact H|].
  destruct HD as (n & r' & HD1 & HD2). rewrite HD1 in H. rewrite esize_rfc. unfold namelen. rewrite <- HD2. exact H.
Qed.

Lemma lookup_node_gpath s h d da : Good s -> lookup_node s h = Some (d, da) -> gpath d.
Proof. intros G L. apply lookup_node_some in L. destruct L as [_ L]. exact (g_hok s G h d L). Qed.

Theorem handle_readdir_listing s h cookie count d da : Good s -> lookup_node s h = Some (d, da) ->
  let r := handle_readdir s h cookie count in
  ob_status (snd r) = 0 ->
  slice_ok false d (listed_names (fs s) d) cookie count (ob_entries (snd r)) (ob_eof (snd r)).
Proof.
  intros G L r ST. subst r. destruct (handle_readdir_ok s h cookie count) as (_ & _ & OK). cbv zeta in OK.
  destruct (OK ST) as (d' & da' & s1 & ents & L' & _ & R & _ & D & E). rewrite L in L'. injection L' as <- <-.
  destruct (srv_readdir_listing s d s1 ents G (lookup_node_gpath s h d da G L) R) as (M & F & _).
  exact (slice_of_page false count cookie ents d _ _ _ M F D E).
Qed.

Lemma map_pe_fst a b : map pe a = map pe b -> map fst a = map fst b.
Proof.
  intros H. replace (map fst a) with (map fst (map pe a)) by (rewrite map_map; reflexivity).
  rewrite H, map_map. reflexivity.
Qed.
Lemma map_pe_fid a : forall b, map pe a = map pe b ->
  Forall (fun e : entry => na_fileid (snd e) = fileid_of (fst e)) b ->
  Forall (fun e : entry => na_fileid (snd e) = fileid_of (fst e)) a.
Proof.
  induction a as [|x a IH]; intros [|y b] H F; try discriminate; [constructor|].
  cbn [map] in H. unfold pe at 1 3, pn in H. injection H as Hp _ _ _ Hf Ht. inversion F as [|? ? F1 F2]; subst.
  constructor; [|exact (IH b Ht F2)]. rewrite Hf, Hp. exact F1.
Qed.

Theorem handle_readdirplus_listing s h cookie maxcount d da : Good s -> lookup_node s h = Some (d, da) ->
  let r := handle_readdirplus s h cookie maxcount in
  ob_status (snd r) = 0 ->
  slice_ok true d (listed_names (fs s) d) cookie maxcount (ob_entries (snd r)) (ob_eof (snd r)).
Proof.
  intros G L r ST. subst r. destruct (handle_readdirplus_ok s h cookie maxcount) as (_ & _ & OK). cbv zeta in OK.
  destruct (OK ST) as (d' & da' & s1 & ents0 & L' & _ & R & D & E). rewrite L in L'. injection L' as <- <-.
  destruct (srv_readdir_listing s d s1 ents0 G (lookup_node_gpath s h d da G L) R) as (M & F & EO & G1 & F1).
  rewrite <- F1 in EO.
  destruct (SrvCoh.refresh_all_spec ents0 s1 G1 EO) as (_ & _ & PE & _).
  refine (slice_of_page true maxcount cookie (snd (refresh_all s1 ents0)) d _ _ _ _ _ D E).
  - rewrite (map_pe_fst _ _ PE). exact M.
  - exact (map_pe_fid _ _ PE F).
Qed.

(* ====================================================================================================== *)
(* 8. the full statements, witnesses, examples                                                             *)
(* ====================================================================================================== *)
(* the size part of C26 at full strength for the paging function: the model never answers NFS3ERR_TOOSMALL, so
   every page would have to fit *)
Definition fits_statement : Prop :=
  forall plus limit cookie (l : list entry),
    enc_len_page plus (fst (page plus limit 0 cookie 0 dir_header_len l)) <= limit.
(* the listing part at full strength: the slice is taken from ALL names of the directory, whatever they are *)
Definition listing_statement : Prop :=
  forall s h cookie count d da, Good s -> lookup_node s h = Some (d, da) ->
    let r := handle_readdir s h cookie count in
    ob_status (snd r) = 0 -> slice_ok false d (listing (fs s) d) cookie count (ob_entries (snd r)) (ob_eof (snd r)).

(* every name the server itself accepts (validate_name: non-empty, no '/', no '\', not "." / "..") is listed *)
Lemma listed_sane d n : gpath d -> name_sane n = true -> listed d n = true.
Proof.
  intros GD NS. unfold listed, sanitize_ok. rewrite NS. pose proof (proj1 (name_sane_spec n) NS) as (_ & _ & _ & D1 & D2).
  assert (E1 : is_dot n = false) by (apply is_dot_false; exact D1).
  assert (E2 : is_dotdot n = false) by (apply is_dotdot_false; exact D2).
  rewrite E1, E2. cbn [orb andb negb].
  assert (X : existsb is_dotdot (d ++ [n]) = false).
  { rewrite existsb_app. cbn [existsb]. rewrite E2, orb_false_r.
    induction GD as [|c r GC _ IH]; [reflexivity|]. cbn [existsb]. rewrite (gcomp_nodd c GC), IH. reflexivity. }
  rewrite X. reflexivity.
Qed.
Lemma listed_names_all f d : gpath d -> (forall n, In n (listing f d) -> name_sane n = true) -> listed_names f d = listing f d.
Proof.
  intros GD H. unfold listed_names. induction (listing f d) as [|n r IH]; [reflexivity|]. cbn [filter].
  rewrite (listed_sane d n GD (H n (or_introl eq_refl))). f_equal. apply IH. intros m M. apply H. right. exact M.
Qed.
(* so, for a directory all of whose names are such names, the full statement holds *)
Theorem handle_readdir_full_listing s h cookie count d da (plus : bool) : Good s -> lookup_node s h = Some (d, da) ->
  (forall n, In n (listing (fs s) d) -> name_sane n = true) ->
  let r := if plus then handle_readdirplus s h cookie count else handle_readdir s h cookie count in
  ob_status (snd r) = 0 ->
  slice_ok plus d (listing (fs s) d) cookie count (ob_entries (snd r)) (ob_eof (snd r)).
Proof.
  intros G L NS. rewrite <- (listed_names_all (fs s) d (lookup_node_gpath s h d da G L) NS).
  destruct plus; [apply (handle_readdirplus_listing s h cookie count d da)|apply (handle_readdir_listing s h cookie count d da)]; assumption.
Qed.

Definition ex_attrs (fid : N) : nattrs :=
  {| na_kind := KFile; na_perm := 420; na_size := 0; na_fileid := fid; na_uid := 0; na_gid := 0; na_mtime := 1; na_atime := 1 |}.
Definition ex_entry (n : name) : entry := ([[100]; n], ex_attrs (fileid_of [[100]; n])).
(* five names of lengths 1, 2, 5, 8, 255 *)
Definition ex_names : list name := [[97]; [98; 98]; [99; 99; 99; 99; 99]; repeat 100 8; repeat 101 255].
Definition ex_dir : list entry := map ex_entry ex_names.

(* known finding k=1: a count below the smallest reply holding the first entry gets that entry anyway *)
Lemma fits_refuted : ~ fits_statement.
Proof. intros H. specialize (H false 50 0 ex_dir). vm_compute in H. apply H. reflexivity. Qed.
Lemma fits_refuted_witness :
  let pl := page false 50 0 0 0 dir_header_len ex_dir in
  length (fst pl) = 1%nat /\ snd pl = true /\ enc_len_page false (fst pl) = 136 /\ 50 < enc_len_page false (fst pl).
Proof. vm_compute. repeat split; reflexivity. Qed.

(* paging the five entries (sizes 28, 28, 32, 32, 280) with count 200: [a; bb; ccccc] (196 <= 200 < 228), then
   [dddddddd] (140; the next entry would give 420), then the 255-byte name alone (388 > 200: the known finding), eof *)
Lemma ex_pages :
  map (fun ie => (fst ie, name_of (fst (snd ie)))) (fst (page false 200 0 0 0 dir_header_len ex_dir)) =
    [(1, [97]); (2, [98; 98]); (3, [99; 99; 99; 99; 99])] /\
  map (fun c => (map fst (fst (page false 200 0 c 0 dir_header_len ex_dir)), snd (page false 200 0 c 0 dir_header_len ex_dir)))
      [0; 3; 4; 5; 77] = [([1; 2; 3], true); ([4], true); ([5], false); ([], false); ([], false)] /\
  map (enc_len_page false) (fst (traverse (fun _ => (false, 200)) 6 0 ex_dir)) = [196; 140; 388] /\
  map (enc_len_page true) (fst (traverse (fun _ => (true, 700)) 6 0 ex_dir)) = [644; 492] /\
  map (@length _) (fst (traverse (fun f => (Nat.even f, 150 + 100 * N.of_nat f)) 6 0 ex_dir)) = [5%nat] /\
  traverse (fun _ => (true, 0)) 1 0 [] = ([[]], true).
Proof. vm_compute. repeat split; reflexivity. Qed.

(* a coherent server state (reached through the handlers) holding directory /d with the children
   a, bb, ccccc, dddddddd and x..y (an ordinary name since fix e46ca73) *)
Definition pg_hist : list hstep :=
  ex_steps [RMnt [47]; RMkdir 1 [100] ex_sattr2; RCreate 2 [97] 0 ex_sattr2; RCreate 2 [98; 98] 0 ex_sattr2;
            RMkdir 2 [99; 99; 99; 99; 99] ex_sattr2; RCreate 2 (repeat 100 8) 0 ex_sattr2;
            RMkdir 2 [120; 46; 46; 121] ex_sattr2; RReaddir 2 0 4096].
Definition pg_state : srv := hfinal ex_init pg_hist.
Lemma pg_state_good : Good pg_state.
Proof. apply Good_hfinal; [exact Good_ex_init|apply c02_hist_b_spec; vm_compute; reflexivity]. Qed.
Lemma pg_state_facts :
  map (fun so => ob_status (snd so)) (hrun ex_init pg_hist) = [0; 0; 0; 0; 0; 0; 0; 0] /\
  (exists da, lookup_node pg_state 2 = Some ([[100]], da) /\ na_kind da = KDir) /\
  listing (fs pg_state) [[100]] = [[97]; [98; 98]; [99; 99; 99; 99; 99]; repeat 100 8; [120; 46; 46; 121]] /\
  forallb name_sane (listing (fs pg_state) [[100]]) = true /\
  ob_status (snd (handle_readdir pg_state 2 0 170)) = 0 /\
  map de_name (ob_entries (snd (handle_readdir pg_state 2 0 170))) = [[97]; [98; 98]] /\
  ob_eof (snd (handle_readdir pg_state 2 0 170)) = false /\
  map de_cookie (ob_entries (snd (handle_readdirplus pg_state 2 2 4096))) = [3; 4; 5] /\
  ob_eof (snd (handle_readdirplus pg_state 2 2 4096)) = true /\
  map de_fileid (ob_entries (snd (handle_readdirplus pg_state 2 4 4096))) = [fileid_of [[100]; [120; 46; 46; 121]]].
Proof. split; [vm_compute; reflexivity|]. split; [eexists; vm_compute; split; reflexivity|]. vm_compute. repeat split; reflexivity. Qed.

(* residue: a name the server refuses everywhere (here one containing a backslash, which only the backend can have
   created) is not listed either - the full statement needs the hypothesis of handle_readdir_full_listing *)
Definition bs_fs : fsmap := fs_add fs_init [[97; 92; 98]] (mk_file 420 1) 1.
Definition bs_state : srv := hfinal (srv_init_fs bs_fs ex_cfg2 0 100) (ex_steps [RMnt [47]]).
Lemma bs_state_good : Good bs_state.
Proof.
  apply Good_hfinal; [|apply c02_hist_b_spec; vm_compute; reflexivity].
  apply Good_init; [apply WF_add; [apply WF_init|reflexivity]|apply nolinks_add; [apply nolinks_init|discriminate]].
Qed.
Lemma listing_refuted : ~ listing_statement.
Proof.
  intros H.
  assert (L : exists da, lookup_node bs_state 1 = Some ([], da)) by (eexists; vm_compute; reflexivity).
  destruct L as (da & L). specialize (H bs_state 1 0 4096 [] da bs_state_good L). cbv zeta in H.
  assert (ST : ob_status (snd (handle_readdir bs_state 1 0 4096)) = 0) by (vm_compute; reflexivity).
  destruct (H ST) as (_ & _ & _ & E & _). vm_compute in E. discriminate E.
Qed.
Lemma bs_state_facts :
  listing (fs bs_state) [] = [[97; 92; 98]] /\ listed_names (fs bs_state) [] = [] /\
  ob_entries (snd (handle_readdir bs_state 1 0 4096)) = [] /\ ob_eof (snd (handle_readdir bs_state 1 0 4096)) = true /\
  ob_status (snd (step bs_state ex_cred2 (RLookup 1 [97; 92; 98]))) = NFSERR_ACCES.
Proof. vm_compute. repeat split; reflexivity. Qed.

(* ====================================================================================================== *)
(* 9. statements in the form Properties/C26.v exports                                                      *)
(* ====================================================================================================== *)
Lemma entry_size_facts plus e :
  esize plus e = Z.to_N (fold_right Z.add 0%Z (if plus then f_readdirplus_entry_fixed else f_readdir_entry_fixed)) + pad4 (namelen e) /\
  esize plus e = rfc_entry_len plus (namelen e) /\
  dir_header_len = rfc_header_len /\ Z.to_N f_readdir_trailer = rfc_trailer_len /\ Z.to_N f_readdirplus_trailer = rfc_trailer_len /\
  pad4 (namelen e) = (namelen e + Z.to_N (fst f_readdir_entry_pad)) / 4 * 4.
Proof.
  split.
  { unfold esize. destruct plus.
    - change (Z.to_N (fold_right Z.add 0%Z f_readdirplus_entry_fixed)) with 128. lia.
    - change (Z.to_N (fold_right Z.add 0%Z f_readdir_entry_fixed)) with 24. lia. }
  split; [apply esize_rfc|]. repeat split; reflexivity.
Qed.
Lemma never_toosmall s h cookie limit :
  ob_status (snd (handle_readdir s h cookie limit)) <> NFS3ERR_TOOSMALL /\
  ob_status (snd (handle_readdirplus s h cookie limit)) <> NFS3ERR_TOOSMALL.
Proof.
  split; [exact (proj1 (proj2 (handle_readdir_ok s h cookie limit)))|exact (proj1 (proj2 (handle_readdirplus_ok s h cookie limit)))].
Qed.
Lemma page_maximal_len plus limit cookie l :
  let pl := page plus limit 0 cookie 0 dir_header_len l in
  snd pl = true ->
  exists e, nth_error (remaining cookie l) (length (fst pl)) = Some e /\ limit < enc_len_page plus (fst pl) + esize plus e.
Proof. cbv zeta. intros H. rewrite pg_length. exact (page_maximal plus limit cookie l H). Qed.
Lemma traverse_complete (q : nat -> bool * N) l :
  let r := traverse q (S (length l)) 0 l in
  snd r = true /\ concat (fst r) = number 0 l /\ (length (fst r) <= S (length l))%nat /\ (1 <= length (fst r))%nat.
Proof. cbv zeta. apply (traverse_from q l (S (length l)) 0); lia. Qed.
Lemma fileids_acfid s h ck cnt d da : lookup_node s h = Some (d, da) -> AcFid s ->
  (forall de, In de (ob_entries (snd (handle_readdir s h ck cnt))) -> de_fileid de = fileid_of (d ++ [de_name de])) /\
  (forall de, In de (ob_entries (snd (handle_readdirplus s h ck cnt))) -> de_fileid de = fileid_of (d ++ [de_name de])).
Proof.
  intros L A. split; intros de I.
  - exact (proj1 (handle_readdir_fileids s h ck cnt d da L A de I)).
  - destruct (proj2 (handle_readdirplus_blocks s h ck cnt d da L) A de I) as (a & _ & F1 & F2 & _). congruence.
Qed.
Lemma fits_both plus limit cookie l :
  let pg := fst (page plus limit 0 cookie 0 dir_header_len l) in
  ((2 <= length pg)%nat -> enc_len_page plus pg <= limit) /\
  (length pg = 1%nat -> exists e r, remaining cookie l = e :: r /\ map snd pg = [e] /\
                                  enc_len_page plus pg = dir_header_len + esize plus e + 8).
Proof. split; [apply page_fits|apply page_fits_one]. Qed.
