Gen/Facts.vo Gen/Facts.glob Gen/Facts.v.beautified Gen/Facts.required_vo: Gen/Facts.v 
Gen/Facts.vio: Gen/Facts.v 
Gen/Facts.vos Gen/Facts.vok Gen/Facts.required_vos: Gen/Facts.v 
Corr/Common.vo Corr/Common.glob Corr/Common.v.beautified Corr/Common.required_vo: Corr/Common.v 
Corr/Common.vio: Corr/Common.v 
Corr/Common.vos Corr/Common.vok Corr/Common.required_vos: Corr/Common.v 
Model/Access.vo Model/Access.glob Model/Access.v.beautified Model/Access.required_vo: Model/Access.v Gen/Facts.vo
Model/Access.vio: Model/Access.v Gen/Facts.vio
Model/Access.vos Model/Access.vok Model/Access.required_vos: Model/Access.v Gen/Facts.vos
Proofs/AccessProofs.vo Proofs/AccessProofs.glob Proofs/AccessProofs.v.beautified Proofs/AccessProofs.required_vo: Proofs/AccessProofs.v Gen/Facts.vo Model/Access.vo
Proofs/AccessProofs.vio: Proofs/AccessProofs.v Gen/Facts.vio Model/Access.vio
Proofs/AccessProofs.vos Proofs/AccessProofs.vok Proofs/AccessProofs.required_vos: Proofs/AccessProofs.v Gen/Facts.vos Model/Access.vos
Properties/C12.vo Properties/C12.glob Properties/C12.v.beautified Properties/C12.required_vo: Properties/C12.v Gen/Facts.vo Model/Access.vo Proofs/AccessProofs.vo
Properties/C12.vio: Properties/C12.v Gen/Facts.vio Model/Access.vio Proofs/AccessProofs.vio
Properties/C12.vos Properties/C12.vok Properties/C12.required_vos: Properties/C12.v Gen/Facts.vos Model/Access.vos Proofs/AccessProofs.vos
Corr/C12.vo Corr/C12.glob Corr/C12.v.beautified Corr/C12.required_vo: Corr/C12.v Model/Access.vo Corr/Common.vo
Corr/C12.vio: Corr/C12.v Model/Access.vio Corr/Common.vio
Corr/C12.vos Corr/C12.vok Corr/C12.required_vos: Corr/C12.v Model/Access.vos Corr/Common.vos
