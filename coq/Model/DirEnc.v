(* Model/DirEnc.v — the exact length in bytes of an encoded READDIR3resok / READDIRPLUS3resok, from the RFC 1813
   XDR layout.  Used by the theorems of Proofs/Paging.v (C26) and by the correspondence Corr/C26x.v, which compares
   it with the length of the bytes the implementation actually produced.  No proofs here. *)
From Coq Require Import List NArith.
From Verif Require Import Model.Backend Model.Srv.
Import ListNotations.
Open Scope N_scope.

(* RFC 1813: fattr3 = type mode nlink uid gid (5 x 4) + size used (2 x 8) + rdev (2 x 4) + fsid fileid (2 x 8) +
   atime mtime ctime (3 x 8) *)
Definition rfc_fattr3 : N := 5 * 4 + 2 * 8 + 2 * 4 + 2 * 8 + 3 * 8.
Definition rfc_post_op_attr : N := 4 + rfc_fattr3.                (* attributes_follow + fattr3 *)
Definition rfc_post_op_fh3 : N := 4 + (4 + 8).                    (* handle_follows + opaque<> of the 8-byte handle *)
Definition rfc_filename3 (nl : N) : N := 4 + pad4 nl.             (* length word + bytes padded to 4 *)
(* entry3 / entryplus3 including the value_follows word in front of it *)
Definition rfc_entry_len (plus : bool) (nl : N) : N :=
  4 + 8 + rfc_filename3 nl + 8 + (if plus then rfc_post_op_attr + rfc_post_op_fh3 else 0).
Definition rfc_header_len : N := 4 + rfc_post_op_attr + 8.        (* status + dir_attributes + cookieverf *)
Definition rfc_trailer_len : N := 4 + 4.                          (* end of list (value_follows = 0) + eof *)
Definition nsum (l : list N) : N := fold_right N.add 0 l.
(* the exact length in bytes of the encoded result holding entries whose names have the given lengths *)
Definition enc_len (plus : bool) (nls : list N) : N :=
  rfc_header_len + nsum (map (rfc_entry_len plus) nls) + rfc_trailer_len.
Definition enc_len_obs (plus : bool) (des : list dentry) : N := enc_len plus (map (fun de => N.of_nat (length (de_name de))) des).

