(* Model/TokenBucket.v — executable model of TokenBucket (rate_limiter.go) over exact rationals.
   No proofs here: the model must keep running when a proof breaks.

   Go -> Gallina
     tokens, maxTokens, refillRate float64     tokens, maxT, rate : Q      (ideal arithmetic; float64 rounding is
                                                                             modelled, not verified: on the dyadic grid
                                                                             used by the strict correspondence stream
                                                                             every float operation below is exact)
     lastRefill time.Time                      last : Q                    (seconds on the virtual clock)
     now.Sub(lastRefill).Seconds()             now - last
   The arithmetic is written in the order of the Go statements:
       tb.tokens += elapsed * tb.refillRate
       if tb.tokens > tb.maxTokens { tb.tokens = tb.maxTokens }
       tb.lastRefill = now
       if tb.tokens >= 1.0 { tb.tokens -= 1.0; return true }; return false
   [Qred] only normalises the representation (Qred q == q) so that long runs stay small under vm_compute. *)
From Coq Require Import List QArith ZArith Bool.
Import ListNotations.
Open Scope Q_scope.

Record tb := { tokens : Q; maxT : Q; rate : Q; last : Q }.

(* NewTokenBucket(rate, burst) at virtual time now:  tokens = maxTokens = float64(burst) *)
Definition mk (r burst now : Q) : tb :=
  {| tokens := burst; maxT := burst; rate := r; last := now |}.

(* the refill-and-cap computation shared by Allow, AllowN and Tokens *)
Definition refilled (b : tb) (now : Q) : Q :=
  let x := tokens b + (now - last b) * rate b in
  if Qle_bool x (maxT b) then x else maxT b.

(* TokenBucket.Tokens(): the level after a virtual refill; the bucket is not modified *)
Definition tokens_at (b : tb) (now : Q) : Q := refilled b now.

(* TokenBucket.Allow() *)
Definition allow (b : tb) (now : Q) : bool * tb :=
  let t := Qred (refilled b now) in
  if Qle_bool 1 t
  then (true,  {| tokens := Qred (t - 1); maxT := maxT b; rate := rate b; last := now |})
  else (false, {| tokens := t;            maxT := maxT b; rate := rate b; last := now |}).

(* a bucket driven by a sequence of request times: the decisions and the final bucket *)
Fixpoint run (b : tb) (ts : list Q) : list bool * tb :=
  match ts with
  | [] => ([], b)
  | t :: r => let '(a, b1) := allow b t in
              let '(ds, b2) := run b1 r in (a :: ds, b2)
  end.

(* number of admitted requests in a decision list *)
Fixpoint nadm (ds : list bool) : Z :=
  match ds with [] => 0%Z | a :: r => ((if a then 1 else 0) + nadm r)%Z end.

(* request times never go backwards (the virtual clock is monotone) *)
Fixpoint sorted_from (t0 : Q) (ts : list Q) : Prop :=
  match ts with [] => True | t :: r => t0 <= t /\ sorted_from t r end.
