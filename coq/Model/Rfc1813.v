(* Model/Rfc1813.v — the reply grammars of RFC 1831 (ONC RPC reply) and RFC 1813 (NFSv3 results, MOUNT v3
   results; MOUNT v1 from RFC 1094 appendix A) as EXACT decoders over bytes, and the RFC encoders of the same
   types.  This file is derived from the RFCs, not from the Go code: all numbers are the RFCs' numbers (Properties/
   C14.v re-checks that the Go constants in Gen/Facts.v agree).  No proofs here (Proofs/Rfc1813Proofs.v).

   INTERFACE
     in_nfsstat3 / in_mountstat3        membership in the status enumerations (RFC 1813 2.6 and 5.1.1)
     result_tree                        what a result decodes to (uniform record; lists in wire order)
     rproc, rproc_of prog vers proc     the result grammar selected by (program, version, procedure)
     parse_results prog vers proc       bytes -> option result_tree; must consume ALL bytes; status must be a member
     parse_results_x extra ...          the same with the extra FAILURE status values [extra] admitted (used only for
                                        the narrow known-finding signatures of Corr/C14.v)
     parse_reply prog vers proc wire    RFC 1831 reply_body: (xid, reply_kind); consumes all bytes
     wellformed prog vers proc xid wire the reply parses and echoes the xid
     enc_tree p t / norm_tree p t       RFC encoder of a result and the value it decodes back to (numbers reduced to
                                        their wire width); enc_reply_ok / enc_reply_hdr for the RFC 1831 part

   Strictness: booleans are 0/1, enumerations (ftype3, stable_how, accept_stat, reject_stat, auth_stat, auth_flavor)
   are checked, opaque padding must be zero, variable-length items respect the RFC maxima (nfs_fh3 64, fhandle3 64,
   MNTPATHLEN 1024, MNTNAMLEN 255, opaque_auth 400), READ's count equals the opaque length, PROG/RPC_MISMATCH have
   low <= high, nothing may follow the result. *)
From Coq Require Import List NArith ZArith Bool.
From Verif Require Import Model.Bytes Model.Xdr.
Import ListNotations.
Open Scope N_scope.

(* ---------------- status enumerations ---------------- *)
Definition nfsstat3_members : list N :=
  [0; 1; 2; 5; 6; 13; 17; 18; 19; 20; 21; 22; 27; 28; 30; 31; 63; 66; 69; 70; 71;
   10001; 10002; 10003; 10004; 10005; 10006; 10007; 10008].
Definition mountstat3_members : list N := [0; 1; 2; 5; 13; 20; 22; 63; 10004; 10006].
Definition memN (x : N) (l : list N) : bool := existsb (N.eqb x) l.
Definition in_nfsstat3 (s : N) : bool := memN s nfsstat3_members.
Definition in_mountstat3 (s : N) : bool := memN s mountstat3_members.

(* RFC 1831 numbers *)
Definition RPC_MSG_REPLY : N := 1.
Definition RS_MSG_ACCEPTED : N := 0.   Definition RS_MSG_DENIED : N := 1.
Definition AS_SUCCESS : N := 0.        Definition AS_PROG_UNAVAIL : N := 1.   Definition AS_PROG_MISMATCH : N := 2.
Definition AS_PROC_UNAVAIL : N := 3.   Definition AS_GARBAGE_ARGS : N := 4.   Definition AS_SYSTEM_ERR : N := 5.
Definition RJ_RPC_MISMATCH : N := 0.   Definition RJ_AUTH_ERROR : N := 1.
Definition auth_stat_ok (a : N) : bool := a <=? 7.                      (* AUTH_OK .. AUTH_FAILED *)
Definition auth_flavor_ok (f : N) : bool := memN f [0; 1; 2; 3; 6].     (* NONE SYS SHORT DH RPCSEC_GSS *)
Definition AUTH_BODY_MAX : N := 400.
Definition PROG_NFS : N := 100003.     Definition PROG_MOUNT : N := 100005.
Definition NFS3_FHSIZE : N := 64.      Definition MNTPATHLEN : N := 1024.     Definition MNTNAMLEN : N := 255.
Definition FHSIZE_V1 : N := 32.
Definition two32 : N := 4294967296.    Definition two64 : N := 18446744073709551616.
Definition U32MAX : N := 4294967295.

(* ---------------- parser monad ---------------- *)
Definition P (A : Type) := bytes -> option (A * bytes).
Definition pret {A} (a : A) : P A := fun s => Some (a, s).
Definition pfail {A} : P A := fun _ => None.
Definition pbind {A B} (p : P A) (f : A -> P B) : P B :=
  fun s => match p s with Some (a, r) => f a r | None => None end.
Notation "x <- p ;; q" := (pbind p (fun x => q)) (at level 61, p at next level, right associativity).
Notation "' pat <- p ;; q" := (pbind p (fun x => match x with pat => q end))
  (at level 61, pat pattern, p at next level, right associativity).

(* the whole input must be consumed *)
Definition pall {A} (p : P A) (s : bytes) : option A :=
  match p s with Some (a, []) => Some a | _ => None end.

(* ---------------- XDR primitives (RFC 4506) ---------------- *)
Definition p_u32 : P N := fun s =>
  match s with
  | a :: b :: c :: d :: r => Some (((a * 256 + b) * 256 + c) * 256 + d, r)
  | _ => None
  end.
Definition p_u64 : P N := fun s =>
  match s with
  | a :: b :: c :: d :: e :: f :: g :: h :: r =>
      Some (((((((a * 256 + b) * 256 + c) * 256 + d) * 256 + e) * 256 + f) * 256 + g) * 256 + h, r)
  | _ => None
  end.
Definition p_bool : P bool :=
  v <- p_u32 ;; if v =? 0 then pret false else if v =? 1 then pret true else pfail.
(* exactly k bytes *)
Fixpoint split_n (k : N) (s : bytes) {struct s} : option (bytes * bytes) :=
  if k =? 0 then Some ([], s) else
  match s with
  | [] => None
  | b :: r => match split_n (N.pred k) r with Some (x, y) => Some (b :: x, y) | None => None end
  end.
Definition p_fixed (k : N) : P bytes := split_n k.
Definition all_zero (s : bytes) : bool := forallb (N.eqb 0) s.
(* opaque<max> / string<max>: length, data, zero padding to a multiple of four *)
Definition p_opaque (max : N) : P bytes :=
  n <- p_u32 ;;
  if max <? n then pfail else
  d <- p_fixed n ;;
  z <- p_fixed (pad_len n) ;;
  if all_zero z then pret d else pfail.
(* optional-data: bool discriminant, then the value *)
Definition p_opt {A} (p : P A) : P (option A) :=
  b <- p_bool ;; if b then (a <- p ;; pret (Some a)) else pret None.
(* the "value_follows" chain of RFC 1813 entry lists and of XDR optional-data linked lists *)
Fixpoint p_chain {A} (fuel : nat) (p : P A) : P (list A) :=
  match fuel with
  | O => pfail
  | S k => b <- p_bool ;; if b then (a <- p ;; r <- p_chain k p ;; pret (a :: r)) else pret []
  end.
(* counted array <> *)
Fixpoint p_count {A} (k : nat) (p : P A) : P (list A) :=
  match k with O => pret [] | S k' => a <- p ;; r <- p_count k' p ;; pret (a :: r) end.

(* unsigned int x<>: the count is checked against the input length before it is turned into a repetition count *)
Definition p_u32_array : P (list N) :=
  k <- p_u32 ;; fun s => if 4 * k <=? len s then p_count (N.to_nat k) p_u32 s else None.

Definition e_u32 (v : N) : bytes := enc_u32 v.
Definition e_u64 (v : N) : bytes := enc_u64 v.
Definition e_bool (b : bool) : bytes := enc_u32 (if b then 1 else 0).
Definition e_opaque (b : bytes) : bytes := enc_opaque b.
Definition e_opt {A} (e : A -> bytes) (o : option A) : bytes :=
  match o with Some a => e_bool true ++ e a | None => e_bool false end.
Definition e_u32_array (l : list N) : bytes := e_u32 (len l) ++ concat (map e_u32 l).
Fixpoint e_chain {A} (e : A -> bytes) (l : list A) : bytes :=
  match l with [] => e_bool false | a :: r => e_bool true ++ e a ++ e_chain e r end.

(* ---------------- RFC 1813 basic types ---------------- *)
Definition wtime := (N * N)%type.                      (* nfstime3: seconds, nseconds *)
Record wfattr := mkWF {                                (* fattr3 *)
  wf_type : N; wf_mode : N; wf_nlink : N; wf_uid : N; wf_gid : N; wf_size : N; wf_used : N;
  wf_rdev : N * N; wf_fsid : N; wf_fileid : N; wf_atime : wtime; wf_mtime : wtime; wf_ctime : wtime }.
Record wwcc := mkWW { ww_size : N; ww_mtime : wtime; ww_ctime : wtime }.     (* wcc_attr *)
Record wentry := mkWE { we_fileid : N; we_name : bytes; we_cookie : N;
                        we_attr : option wfattr; we_fh : option bytes }.    (* entry3 / entryplus3 *)

Definition ftype3_ok (t : N) : bool := (1 <=? t) && (t <=? 7).

Definition p_time : P wtime := s <- p_u32 ;; n <- p_u32 ;; pret (s, n).
Definition p_fattr3 : P wfattr :=
  ty <- p_u32 ;; if negb (ftype3_ok ty) then pfail else
  mode <- p_u32 ;; nlink <- p_u32 ;; uid <- p_u32 ;; gid <- p_u32 ;; size <- p_u64 ;; used <- p_u64 ;;
  r1 <- p_u32 ;; r2 <- p_u32 ;; fsid <- p_u64 ;; fileid <- p_u64 ;;
  at_ <- p_time ;; mt <- p_time ;; ct <- p_time ;;
  pret (mkWF ty mode nlink uid gid size used (r1, r2) fsid fileid at_ mt ct).
Definition p_wcc_attr : P wwcc := size <- p_u64 ;; mt <- p_time ;; ct <- p_time ;; pret (mkWW size mt ct).
Definition p_post_op_attr : P (option wfattr) := p_opt p_fattr3.
Definition p_pre_op_attr : P (option wwcc) := p_opt p_wcc_attr.
Definition p_wcc_data : P (option wwcc * option wfattr) :=
  pre <- p_pre_op_attr ;; post <- p_post_op_attr ;; pret (pre, post).
Definition p_fh3 : P bytes := p_opaque NFS3_FHSIZE.
Definition p_post_op_fh3 : P (option bytes) := p_opt p_fh3.
Definition p_name : P bytes := p_opaque U32MAX.        (* filename3 / nfspath3: string<> *)
Definition p_entry3 : P wentry :=
  fid <- p_u64 ;; nm <- p_name ;; ck <- p_u64 ;; pret (mkWE fid nm ck None None).
Definition p_entryplus3 : P wentry :=
  fid <- p_u64 ;; nm <- p_name ;; ck <- p_u64 ;; a <- p_post_op_attr ;; h <- p_post_op_fh3 ;; pret (mkWE fid nm ck a h).

Definition e_time (t : wtime) : bytes := e_u32 (fst t) ++ e_u32 (snd t).
Definition e_fattr3 (a : wfattr) : bytes :=
  e_u32 (wf_type a) ++ e_u32 (wf_mode a) ++ e_u32 (wf_nlink a) ++ e_u32 (wf_uid a) ++ e_u32 (wf_gid a) ++
  e_u64 (wf_size a) ++ e_u64 (wf_used a) ++ e_u32 (fst (wf_rdev a)) ++ e_u32 (snd (wf_rdev a)) ++
  e_u64 (wf_fsid a) ++ e_u64 (wf_fileid a) ++ e_time (wf_atime a) ++ e_time (wf_mtime a) ++ e_time (wf_ctime a).
Definition e_wcc_attr (w : wwcc) : bytes := e_u64 (ww_size w) ++ e_time (ww_mtime w) ++ e_time (ww_ctime w).
Definition e_post_op_attr := e_opt e_fattr3.
Definition e_pre_op_attr := e_opt e_wcc_attr.
Definition e_wcc_data (pre : option wwcc) (post : option wfattr) : bytes := e_pre_op_attr pre ++ e_post_op_attr post.
Definition e_post_op_fh3 := e_opt e_opaque.
Definition e_entry3 (e : wentry) : bytes := e_u64 (we_fileid e) ++ e_opaque (we_name e) ++ e_u64 (we_cookie e).
Definition e_entryplus3 (e : wentry) : bytes :=
  e_entry3 e ++ e_post_op_attr (we_attr e) ++ e_post_op_fh3 (we_fh e).

(* what the encodings decode back to: every number reduced to its wire width *)
Definition n32 (v : N) : N := v mod two32.
Definition n64 (v : N) : N := v mod two64.
Definition norm_time (t : wtime) : wtime := (n32 (fst t), n32 (snd t)).
Definition norm_fattr (a : wfattr) : wfattr :=
  mkWF (n32 (wf_type a)) (n32 (wf_mode a)) (n32 (wf_nlink a)) (n32 (wf_uid a)) (n32 (wf_gid a)) (n64 (wf_size a))
       (n64 (wf_used a)) (n32 (fst (wf_rdev a)), n32 (snd (wf_rdev a))) (n64 (wf_fsid a)) (n64 (wf_fileid a))
       (norm_time (wf_atime a)) (norm_time (wf_mtime a)) (norm_time (wf_ctime a)).
Definition norm_wcc (w : wwcc) : wwcc := mkWW (n64 (ww_size w)) (norm_time (ww_mtime w)) (norm_time (ww_ctime w)).
Definition norm_entry (e : wentry) : wentry :=
  mkWE (n64 (we_fileid e)) (we_name e) (n64 (we_cookie e)) (option_map norm_fattr (we_attr e)) (we_fh e).

(* ---------------- results ---------------- *)
Record result_tree := mkRT {
  rt_status : option N;               (* None: the result type has no status (NULL, DUMP, UMNT, UMNTALL, EXPORT) *)
  rt_attrs : list (option wfattr);    (* every fattr3 / post_op_attr of the result, in wire order *)
  rt_wcc : list (option wwcc);        (* every pre_op_attr, in wire order *)
  rt_fh : option bytes;               (* nfs_fh3 / post_op_fh3 / fhandle3 *)
  rt_nums : list N;                   (* the other numbers, in wire order *)
  rt_data : bytes;                    (* READ data / READLINK path *)
  rt_verf : bytes;                    (* cookieverf3 / writeverf3 (8 bytes) *)
  rt_entries : list wentry;
  rt_eof : bool;
  rt_list : list (bytes * list bytes) (* DUMP: (hostname, [directory]); EXPORT: (directory, groups) *)
}.
Definition rt_void : result_tree := mkRT None [] [] None [] [] [] [] false [].
Definition rt_st (st : N) (attrs : list (option wfattr)) (wcc : list (option wwcc)) : result_tree :=
  mkRT (Some st) attrs wcc None [] [] [] [] false [].

Inductive rproc :=
| NfsNull | NfsGetattr | NfsSetattr | NfsLookup | NfsAccess | NfsReadlink | NfsRead | NfsWrite | NfsCreate | NfsMkdir
| NfsSymlink | NfsMknod | NfsRemove | NfsRmdir | NfsRename | NfsLink | NfsReaddir | NfsReaddirplus | NfsFsstat
| NfsFsinfo | NfsPathconf | NfsCommit
| MntNull | MntMnt | MntDump | MntUmnt | MntUmntall | MntExport
| Mnt1Mnt.                                  (* MOUNT version 1 MNT: RFC 1094 fhstatus *)
Definition nfs_procs : list rproc :=
  [NfsNull; NfsGetattr; NfsSetattr; NfsLookup; NfsAccess; NfsReadlink; NfsRead; NfsWrite; NfsCreate; NfsMkdir; NfsSymlink;
   NfsMknod; NfsRemove; NfsRmdir; NfsRename; NfsLink; NfsReaddir; NfsReaddirplus; NfsFsstat; NfsFsinfo; NfsPathconf; NfsCommit].
Definition mnt_procs : list rproc := [MntNull; MntMnt; MntDump; MntUmnt; MntUmntall; MntExport].
Definition rproc_of (prog vers proc : N) : option rproc :=
  if (prog =? PROG_NFS) && (vers =? 3) then nth_error nfs_procs (N.to_nat (N.min proc 22))
  else if (prog =? PROG_MOUNT) && (vers =? 3) then nth_error mnt_procs (N.to_nat (N.min proc 6))
  else if (prog =? PROG_MOUNT) && (vers =? 1) then
    (if proc =? 1 then Some Mnt1Mnt else nth_error mnt_procs (N.to_nat (N.min proc 6)))
  else None.
Definition is_mount (p : rproc) : bool :=
  match p with MntNull | MntMnt | MntDump | MntUmnt | MntUmntall | MntExport | Mnt1Mnt => true | _ => false end.
(* status enumeration of the result type: nfsstat3, mountstat3; RFC 1094's fhstatus carries "0 or a UNIX error number" *)
Definition stat_member (p : rproc) (s : N) : bool :=
  match p with Mnt1Mnt => true | _ => if is_mount p then in_mountstat3 s else in_nfsstat3 s end.

(* failure body by procedure (RFC 1813 ...3resfail) *)
Inductive fshape := FVoid | FPost | FWcc | FWcc2 | FPostWcc.
Definition fail_shape (p : rproc) : fshape :=
  match p with
  | NfsGetattr | MntMnt | Mnt1Mnt => FVoid
  | NfsLookup | NfsAccess | NfsReadlink | NfsRead | NfsReaddir | NfsReaddirplus | NfsFsstat | NfsFsinfo | NfsPathconf => FPost
  | NfsSetattr | NfsWrite | NfsCreate | NfsMkdir | NfsSymlink | NfsMknod | NfsRemove | NfsRmdir | NfsCommit => FWcc
  | NfsRename => FWcc2
  | NfsLink => FPostWcc
  | _ => FVoid
  end.
Definition p_fail (f : fshape) (st : N) : P result_tree :=
  match f with
  | FVoid => pret (rt_st st [] [])
  | FPost => a <- p_post_op_attr ;; pret (rt_st st [a] [])
  | FWcc => '(pre, post) <- p_wcc_data ;; pret (rt_st st [post] [pre])
  | FWcc2 => '(pre1, post1) <- p_wcc_data ;; '(pre2, post2) <- p_wcc_data ;; pret (rt_st st [post1; post2] [pre1; pre2])
  | FPostWcc => a <- p_post_op_attr ;; '(pre, post) <- p_wcc_data ;; pret (rt_st st [a; post] [pre])
  end.

Definition stable_how_ok (v : N) : bool := v <=? 2.
Definition p_dump_entry : P (bytes * list bytes) :=
  h <- p_opaque MNTNAMLEN ;; d <- p_opaque MNTPATHLEN ;; pret (h, [d]).
Definition p_export_entry (fuel : nat) : P (bytes * list bytes) :=
  d <- p_opaque MNTPATHLEN ;; g <- p_chain fuel (p_opaque MNTNAMLEN) ;; pret (d, g).

(* success body by procedure (RFC 1813 ...3resok); [fuel] bounds the entry lists (the input length suffices) *)
Definition p_ok (fuel : nat) (p : rproc) : P result_tree :=
  match p with
  | NfsGetattr => a <- p_fattr3 ;; pret (rt_st 0 [Some a] [])
  | NfsSetattr | NfsRemove | NfsRmdir => p_fail FWcc 0
  | NfsRename => p_fail FWcc2 0
  | NfsLink => p_fail FPostWcc 0
  | NfsLookup =>
      h <- p_fh3 ;; a <- p_post_op_attr ;; d <- p_post_op_attr ;;
      pret (mkRT (Some 0) [a; d] [] (Some h) [] [] [] [] false [])
  | NfsAccess => a <- p_post_op_attr ;; m <- p_u32 ;; pret (mkRT (Some 0) [a] [] None [m] [] [] [] false [])
  | NfsReadlink => a <- p_post_op_attr ;; t <- p_name ;; pret (mkRT (Some 0) [a] [] None [] t [] [] false [])
  | NfsRead =>
      a <- p_post_op_attr ;; cnt <- p_u32 ;; eof <- p_bool ;; d <- p_opaque U32MAX ;;
      if cnt =? len d then pret (mkRT (Some 0) [a] [] None [cnt] d [] [] eof []) else pfail
  | NfsWrite =>
      '(pre, post) <- p_wcc_data ;; cnt <- p_u32 ;; how <- p_u32 ;;
      if negb (stable_how_ok how) then pfail else
      v <- p_fixed 8 ;; pret (mkRT (Some 0) [post] [pre] None [cnt; how] [] v [] false [])
  | NfsCreate | NfsMkdir | NfsSymlink | NfsMknod =>
      h <- p_post_op_fh3 ;; a <- p_post_op_attr ;; '(pre, post) <- p_wcc_data ;;
      pret (mkRT (Some 0) [a; post] [pre] h [] [] [] [] false [])
  | NfsReaddir =>
      a <- p_post_op_attr ;; v <- p_fixed 8 ;; es <- p_chain fuel p_entry3 ;; eof <- p_bool ;;
      pret (mkRT (Some 0) [a] [] None [] [] v es eof [])
  | NfsReaddirplus =>
      a <- p_post_op_attr ;; v <- p_fixed 8 ;; es <- p_chain fuel p_entryplus3 ;; eof <- p_bool ;;
      pret (mkRT (Some 0) [a] [] None [] [] v es eof [])
  | NfsFsstat =>
      a <- p_post_op_attr ;; tb <- p_u64 ;; fb <- p_u64 ;; ab <- p_u64 ;; tf <- p_u64 ;; ff <- p_u64 ;; af <- p_u64 ;;
      inv <- p_u32 ;; pret (mkRT (Some 0) [a] [] None [tb; fb; ab; tf; ff; af; inv] [] [] [] false [])
  | NfsFsinfo =>
      a <- p_post_op_attr ;; rtmax <- p_u32 ;; rtpref <- p_u32 ;; rtmult <- p_u32 ;; wtmax <- p_u32 ;; wtpref <- p_u32 ;;
      wtmult <- p_u32 ;; dtpref <- p_u32 ;; maxfs <- p_u64 ;; td <- p_time ;; props <- p_u32 ;;
      pret (mkRT (Some 0) [a] [] None [rtmax; rtpref; rtmult; wtmax; wtpref; wtmult; dtpref; maxfs; fst td; snd td; props]
                 [] [] [] false [])
  | NfsPathconf =>
      a <- p_post_op_attr ;; linkmax <- p_u32 ;; namemax <- p_u32 ;; b1 <- p_bool ;; b2 <- p_bool ;; b3 <- p_bool ;; b4 <- p_bool ;;
      let nb (b : bool) : N := if b then 1 else 0 in
      pret (mkRT (Some 0) [a] [] None [linkmax; namemax; nb b1; nb b2; nb b3; nb b4] [] [] [] false [])
  | NfsCommit => '(pre, post) <- p_wcc_data ;; v <- p_fixed 8 ;; pret (mkRT (Some 0) [post] [pre] None [] [] v [] false [])
  | MntMnt => h <- p_opaque NFS3_FHSIZE ;; fl <- p_u32_array ;; pret (mkRT (Some 0) [] [] (Some h) fl [] [] [] false [])
  | Mnt1Mnt => h <- p_fixed FHSIZE_V1 ;; pret (mkRT (Some 0) [] [] (Some h) [] [] [] [] false [])
  | _ => pfail
  end.

(* the whole result of a procedure; [extra] = additional failure status values admitted *)
Definition has_status (p : rproc) : bool :=
  match p with NfsNull | MntNull | MntDump | MntUmnt | MntUmntall | MntExport => false | _ => true end.
Definition p_results (extra : N -> bool) (fuel : nat) (p : rproc) : P result_tree :=
  match p with
  | NfsNull | MntNull | MntUmnt | MntUmntall => pret rt_void
  | MntDump => l <- p_chain fuel p_dump_entry ;; pret (mkRT None [] [] None [] [] [] [] false l)
  | MntExport => l <- p_chain fuel (p_export_entry fuel) ;; pret (mkRT None [] [] None [] [] [] [] false l)
  | _ =>
    st <- p_u32 ;;
    if st =? 0 then p_ok fuel p
    else if stat_member p st || extra st then p_fail (fail_shape p) st
    else pfail
  end.

Definition no_extra (s : N) : bool := false.
Definition parse_results_x (extra : N -> bool) (prog vers proc : N) (s : bytes) : option result_tree :=
  match rproc_of prog vers proc with
  | Some p => pall (p_results extra (S (length s)) p) s
  | None => None
  end.
Definition parse_results : N -> N -> N -> bytes -> option result_tree := parse_results_x no_extra.

(* ---------------- RFC 1831 reply ---------------- *)
Inductive reply_kind :=
| KSuccess (t : result_tree)
| KProgUnavail | KProgMismatch (lo hi : N) | KProcUnavail | KGarbageArgs | KSystemErr
| KRpcMismatch (lo hi : N) | KAuthError (stat : N).

Definition p_range : P (N * N) := lo <- p_u32 ;; hi <- p_u32 ;; if lo <=? hi then pret (lo, hi) else pfail.
Definition p_reply_body (extra : N -> bool) (prog vers proc : N) (fuel : nat) : P reply_kind :=
  rs <- p_u32 ;;
  if rs =? RS_MSG_ACCEPTED then
    vf <- p_u32 ;; if negb (auth_flavor_ok vf) then pfail else
    vb <- p_opaque AUTH_BODY_MAX ;;
    acc <- p_u32 ;;
    if acc =? AS_SUCCESS then
      match rproc_of prog vers proc with
      | Some p => t <- p_results extra fuel p ;; pret (KSuccess t)
      | None => pfail                                   (* no such procedure: SUCCESS is not a possible answer *)
      end
    else if acc =? AS_PROG_UNAVAIL then pret KProgUnavail
    else if acc =? AS_PROG_MISMATCH then '(lo, hi) <- p_range ;; pret (KProgMismatch lo hi)
    else if acc =? AS_PROC_UNAVAIL then pret KProcUnavail
    else if acc =? AS_GARBAGE_ARGS then pret KGarbageArgs
    else if acc =? AS_SYSTEM_ERR then pret KSystemErr
    else pfail
  else if rs =? RS_MSG_DENIED then
    rj <- p_u32 ;;
    if rj =? RJ_RPC_MISMATCH then '(lo, hi) <- p_range ;; pret (KRpcMismatch lo hi)
    else if rj =? RJ_AUTH_ERROR then a <- p_u32 ;; if auth_stat_ok a then pret (KAuthError a) else pfail
    else pfail
  else pfail.
Definition p_reply (extra : N -> bool) (prog vers proc : N) (fuel : nat) : P (N * reply_kind) :=
  xid <- p_u32 ;; mt <- p_u32 ;;
  if negb (mt =? RPC_MSG_REPLY) then pfail else
  k <- p_reply_body extra prog vers proc fuel ;; pret (xid, k).

Definition parse_reply_x (extra : N -> bool) (prog vers proc : N) (wire : bytes) : option (N * reply_kind) :=
  pall (p_reply extra prog vers proc (S (length wire))) wire.
Definition parse_reply : N -> N -> N -> bytes -> option (N * reply_kind) := parse_reply_x no_extra.

(* the wire is a string of bytes, parses, and echoes the xid *)
Definition wellformed_x (extra : N -> bool) (prog vers proc xid : N) (wire : bytes) : bool :=
  bytesb wire && match parse_reply_x extra prog vers proc wire with Some (x, _) => x =? xid | None => false end.
Definition wellformed : N -> N -> N -> N -> bytes -> bool := wellformed_x no_extra.

(* the NFS / MOUNT status carried by a reply that parses under [extra] *)
Definition reply_status (extra : N -> bool) (prog vers proc : N) (wire : bytes) : option N :=
  match parse_reply_x extra prog vers proc wire with
  | Some (_, KSuccess t) => rt_status t
  | _ => None
  end.

(* ---------------- RFC encoders of results ---------------- *)
Definition nth_attr (t : result_tree) (i : nat) : option wfattr := nth i (rt_attrs t) None.
Definition nth_wcc (t : result_tree) (i : nat) : option wwcc := nth i (rt_wcc t) None.
Definition nth_num (t : result_tree) (i : nat) : N := nth i (rt_nums t) 0.
Definition st_of (t : result_tree) : N := match rt_status t with Some s => s | None => 0 end.

Definition e_fail (f : fshape) (t : result_tree) : bytes :=
  match f with
  | FVoid => []
  | FPost => e_post_op_attr (nth_attr t 0)
  | FWcc => e_wcc_data (nth_wcc t 0) (nth_attr t 0)
  | FWcc2 => e_wcc_data (nth_wcc t 0) (nth_attr t 0) ++ e_wcc_data (nth_wcc t 1) (nth_attr t 1)
  | FPostWcc => e_post_op_attr (nth_attr t 0) ++ e_wcc_data (nth_wcc t 0) (nth_attr t 1)
  end.
Definition e_fh (t : result_tree) : bytes := e_opaque (match rt_fh t with Some h => h | None => [] end).
Definition e_dump_entry (e : bytes * list bytes) : bytes := e_opaque (fst e) ++ e_opaque (hd [] (snd e)).
Definition e_export_entry (e : bytes * list bytes) : bytes := e_opaque (fst e) ++ e_chain e_opaque (snd e).
Definition e_ok (p : rproc) (t : result_tree) : bytes :=
  match p with
  | NfsGetattr => match nth_attr t 0 with Some a => e_fattr3 a | None => [] end
  | NfsSetattr | NfsRemove | NfsRmdir => e_fail FWcc t
  | NfsRename => e_fail FWcc2 t
  | NfsLink => e_fail FPostWcc t
  | NfsLookup => e_fh t ++ e_post_op_attr (nth_attr t 0) ++ e_post_op_attr (nth_attr t 1)
  | NfsAccess => e_post_op_attr (nth_attr t 0) ++ e_u32 (nth_num t 0)
  | NfsReadlink => e_post_op_attr (nth_attr t 0) ++ e_opaque (rt_data t)
  | NfsRead => e_post_op_attr (nth_attr t 0) ++ e_u32 (nth_num t 0) ++ e_bool (rt_eof t) ++ e_opaque (rt_data t)
  | NfsWrite => e_wcc_data (nth_wcc t 0) (nth_attr t 0) ++ e_u32 (nth_num t 0) ++ e_u32 (nth_num t 1) ++ rt_verf t
  | NfsCreate | NfsMkdir | NfsSymlink | NfsMknod =>
      e_post_op_fh3 (rt_fh t) ++ e_post_op_attr (nth_attr t 0) ++ e_wcc_data (nth_wcc t 0) (nth_attr t 1)
  | NfsReaddir => e_post_op_attr (nth_attr t 0) ++ rt_verf t ++ e_chain e_entry3 (rt_entries t) ++ e_bool (rt_eof t)
  | NfsReaddirplus => e_post_op_attr (nth_attr t 0) ++ rt_verf t ++ e_chain e_entryplus3 (rt_entries t) ++ e_bool (rt_eof t)
  | NfsFsstat =>
      e_post_op_attr (nth_attr t 0) ++ e_u64 (nth_num t 0) ++ e_u64 (nth_num t 1) ++ e_u64 (nth_num t 2) ++
      e_u64 (nth_num t 3) ++ e_u64 (nth_num t 4) ++ e_u64 (nth_num t 5) ++ e_u32 (nth_num t 6)
  | NfsFsinfo =>
      e_post_op_attr (nth_attr t 0) ++ e_u32 (nth_num t 0) ++ e_u32 (nth_num t 1) ++ e_u32 (nth_num t 2) ++
      e_u32 (nth_num t 3) ++ e_u32 (nth_num t 4) ++ e_u32 (nth_num t 5) ++ e_u32 (nth_num t 6) ++ e_u64 (nth_num t 7) ++
      e_u32 (nth_num t 8) ++ e_u32 (nth_num t 9) ++ e_u32 (nth_num t 10)
  | NfsPathconf =>
      e_post_op_attr (nth_attr t 0) ++ e_u32 (nth_num t 0) ++ e_u32 (nth_num t 1) ++ e_u32 (nth_num t 2) ++
      e_u32 (nth_num t 3) ++ e_u32 (nth_num t 4) ++ e_u32 (nth_num t 5)
  | NfsCommit => e_wcc_data (nth_wcc t 0) (nth_attr t 0) ++ rt_verf t
  | MntMnt => e_fh t ++ e_u32_array (rt_nums t)
  | Mnt1Mnt => match rt_fh t with Some h => h | None => [] end
  | _ => []
  end.
Definition enc_tree (p : rproc) (t : result_tree) : bytes :=
  match p with
  | NfsNull | MntNull | MntUmnt | MntUmntall => []
  | MntDump => e_chain e_dump_entry (rt_list t)
  | MntExport => e_chain e_export_entry (rt_list t)
  | _ => e_u32 (st_of t) ++ (if st_of t =? 0 then e_ok p t else e_fail (fail_shape p) t)
  end.

(* RFC 1831 encoders (null verifier) *)
Definition enc_reply_hdr (xid : N) : bytes := e_u32 xid ++ e_u32 RPC_MSG_REPLY.
Definition enc_accepted (xid acc : N) (body : bytes) : bytes :=
  enc_reply_hdr xid ++ e_u32 RS_MSG_ACCEPTED ++ e_u32 0 ++ e_opaque [] ++ e_u32 acc ++ body.
Definition enc_denied_auth (xid why : N) : bytes :=
  enc_reply_hdr xid ++ e_u32 RS_MSG_DENIED ++ e_u32 RJ_AUTH_ERROR ++ e_u32 why.

(* ---------------- which trees a procedure's grammar generates ---------------- *)
(* [tree_form] says which components a result of procedure p carries for its status (everything else empty) and that the
   enumerated / bounded components are in range; [tree_sizes] says that the variable-length items are expressible in XDR
   (lengths below 2^32).  For trees satisfying both, enc_tree parses back to norm_tree (Proofs/Rfc1813Proofs.v). *)
Inductive fhmode := FhNone | FhReq | FhOpt.
Inductive entmode := EntNone | EntPlain | EntPlus.
Record profile := mkPF { pf_attrs : nat; pf_wcc : nat; pf_fh : fhmode; pf_nums : option nat; pf_data : bool; pf_verf : bool;
                         pf_ents : entmode; pf_eof : bool; pf_list : bool }.
Definition pf_plain (a w : nat) : profile := mkPF a w FhNone (Some O) false false EntNone false false.
Definition pf_fail (f : fshape) : profile :=
  match f with FVoid => pf_plain 0 0 | FPost => pf_plain 1 0 | FWcc => pf_plain 1 1 | FWcc2 => pf_plain 2 2 | FPostWcc => pf_plain 2 1 end.
Definition pf_ok (p : rproc) : profile :=
  match p with
  | NfsGetattr => pf_plain 1 0
  | NfsSetattr | NfsRemove | NfsRmdir => pf_fail FWcc
  | NfsRename => pf_fail FWcc2
  | NfsLink => pf_fail FPostWcc
  | NfsLookup => mkPF 2 0 FhReq (Some O) false false EntNone false false
  | NfsAccess => mkPF 1 0 FhNone (Some 1%nat) false false EntNone false false
  | NfsReadlink => mkPF 1 0 FhNone (Some O) true false EntNone false false
  | NfsRead => mkPF 1 0 FhNone (Some 1%nat) true false EntNone true false
  | NfsWrite => mkPF 1 1 FhNone (Some 2%nat) false true EntNone false false
  | NfsCreate | NfsMkdir | NfsSymlink | NfsMknod => mkPF 2 1 FhOpt (Some O) false false EntNone false false
  | NfsReaddir => mkPF 1 0 FhNone (Some O) false true EntPlain true false
  | NfsReaddirplus => mkPF 1 0 FhNone (Some O) false true EntPlus true false
  | NfsFsstat => mkPF 1 0 FhNone (Some 7%nat) false false EntNone false false
  | NfsFsinfo => mkPF 1 0 FhNone (Some 11%nat) false false EntNone false false
  | NfsPathconf => mkPF 1 0 FhNone (Some 6%nat) false false EntNone false false
  | NfsCommit => mkPF 1 1 FhNone (Some O) false true EntNone false false
  | MntMnt => mkPF 0 0 FhReq None false false EntNone false false
  | Mnt1Mnt => mkPF 0 0 FhReq (Some O) false false EntNone false false
  | _ => pf_plain 0 0
  end.
Definition pf_void (p : rproc) : profile :=
  match p with MntDump | MntExport => mkPF 0 0 FhNone (Some O) false false EntNone false true | _ => pf_plain 0 0 end.

Definition isnil {A} (l : list A) : bool := match l with [] => true | _ => false end.
Definition attr_ok (a : wfattr) : bool := ftype3_ok (wf_type a).
Definition opt_ok {A} (f : A -> bool) (o : option A) : bool := match o with Some a => f a | None => true end.
Definition fh_ok (h : bytes) : bool := len h <=? NFS3_FHSIZE.
Definition ent_plain (e : wentry) : bool := match we_attr e, we_fh e with None, None => true | _, _ => false end.
Definition ent_plus (e : wentry) : bool := opt_ok attr_ok (we_attr e) && opt_ok fh_ok (we_fh e).
Definition pf_check (pf : profile) (t : result_tree) : bool :=
  Nat.eqb (length (rt_attrs t)) (pf_attrs pf) && forallb (opt_ok attr_ok) (rt_attrs t) &&
  Nat.eqb (length (rt_wcc t)) (pf_wcc pf) &&
  (match pf_fh pf, rt_fh t with
   | FhNone, None => true | FhReq, Some h => fh_ok h | FhOpt, None => true | FhOpt, Some h => fh_ok h | _, _ => false end) &&
  (match pf_nums pf with Some k => Nat.eqb (length (rt_nums t)) k | None => true end) &&
  (pf_data pf || isnil (rt_data t)) &&
  (if pf_verf pf then len (rt_verf t) =? 8 else isnil (rt_verf t)) &&
  (match pf_ents pf with EntNone => isnil (rt_entries t) | EntPlain => forallb ent_plain (rt_entries t)
                       | EntPlus => forallb ent_plus (rt_entries t) end) &&
  (pf_eof pf || negb (rt_eof t)) && (pf_list pf || isnil (rt_list t)).
Definition ok_extra (p : rproc) (t : result_tree) : bool :=
  match p with
  | NfsGetattr => match nth_attr t 0 with Some _ => true | None => false end
  | NfsRead => nth_num t 0 =? len (rt_data t)
  | NfsWrite => stable_how_ok (nth_num t 1)
  | NfsPathconf => (nth_num t 2 <=? 1) && (nth_num t 3 <=? 1) && (nth_num t 4 <=? 1) && (nth_num t 5 <=? 1)
  | Mnt1Mnt => match rt_fh t with Some h => len h =? FHSIZE_V1 | None => false end
  | _ => true
  end.
Definition list_ok (p : rproc) (e : bytes * list bytes) : bool :=
  match p with
  | MntDump => (len (fst e) <=? MNTNAMLEN) && (match snd e with [d] => len d <=? MNTPATHLEN | _ => false end)
  | _ => (len (fst e) <=? MNTPATHLEN) && forallb (fun g => len g <=? MNTNAMLEN) (snd e)
  end.
Definition tree_form_x (extra : N -> bool) (p : rproc) (t : result_tree) : bool :=
  match rt_status t with
  | None => negb (has_status p) && pf_check (pf_void p) t && forallb (list_ok p) (rt_list t)
  | Some st =>
      has_status p && (st <? two32) &&
      (if st =? 0 then pf_check (pf_ok p) t && ok_extra p t
       else (stat_member p st || extra st) && pf_check (pf_fail (fail_shape p)) t)
  end.
Definition tree_form : rproc -> result_tree -> bool := tree_form_x no_extra.
Definition tree_sizes (t : result_tree) : bool :=
  (len (rt_data t) <=? U32MAX) && forallb (fun e => len (we_name e) <=? U32MAX) (rt_entries t) &&
  (len (rt_nums t) <? 1073741824).

Definition norm_nums (p : rproc) (l : list N) : list N :=
  match p, l with
  | NfsFsstat, [a; b; c; d; e; f; g] => [n64 a; n64 b; n64 c; n64 d; n64 e; n64 f; n32 g]
  | NfsFsinfo, [a; b; c; d; e; f; g; h; i; j; k] => [n32 a; n32 b; n32 c; n32 d; n32 e; n32 f; n32 g; n64 h; n32 i; n32 j; n32 k]
  | _, _ => map n32 l
  end.
Definition norm_tree (p : rproc) (t : result_tree) : result_tree :=
  mkRT (option_map n32 (rt_status t)) (map (option_map norm_fattr) (rt_attrs t)) (map (option_map norm_wcc) (rt_wcc t))
       (rt_fh t) (norm_nums p (rt_nums t)) (rt_data t) (rt_verf t) (map norm_entry (rt_entries t)) (rt_eof t) (rt_list t).
