(* Model/IpFilter.v — host filtering and the request gate (C09).  No proofs in this file.

   String parsing (net.ParseIP, net.ParseCIDR's syntax part) is Go standard library and trusted;
   the model starts from PARSED forms:
     client        : option N          net.ParseIP(clientIP) as the 16-byte form read big-endian
                                       (an IPv4 literal parses to ::ffff:a.b.c.d), None = nil
     ESingle p     : entry without '/' ; p = net.ParseIP(entry) likewise
     ECidr p       : entry with '/'    ; p = Some (a16, is4, n): the address literal in 16-byte form,
                                       whether the literal is IPv4 (netip BitLen 32) and the decimal
                                       prefix length; None = address or length not parseable
   What is modelled of the library (semantics, not syntax): net.ParseCIDR's length check and
   masking (CIDRMask, IP.Mask), IP.To4, IP.Equal, IPNet.Contains/networkNumberAndMask. *)
From Coq Require Import List NArith ZArith Bool.
From Verif Require Import Gen.Facts Model.Auth.
Import ListNotations.
Open Scope N_scope.

Definition v4_prefix : N := 65535.                 (* bytes 10,11 = ff ff, bytes 0..9 = 0 *)
Definition is_mapped (a16 : N) : bool := N.shiftr a16 32 =? v4_prefix.
Definition low32 (a : N) : N := a mod 2 ^ 32.

(* a Go net.IP value: 4 or 16 bytes *)
Inductive ip := IP4 (x : N) | IP16 (x : N).

(* IP.To4: the 4-byte form of a 4-byte address or of a v4-mapped 16-byte address *)
Definition to4 (a : ip) : option N :=
  match a with
  | IP4 x => Some x
  | IP16 x => if is_mapped x then Some (low32 x) else None
  end.

(* normalizeIP (auth.go) *)
Definition normalize_ip (a : ip) : ip := match to4 a with Some x => IP4 x | None => a end.

(* IP.Equal *)
Definition ip_equal (a b : ip) : bool :=
  match a, b with
  | IP4 x, IP4 y => x =? y
  | IP16 x, IP16 y => x =? y
  | IP4 x, IP16 y => is_mapped y && (x =? low32 y)
  | IP16 x, IP4 y => is_mapped x && (low32 x =? y)
  end.

(* net.CIDRMask(n, bits): the top n of `bits` bits *)
Definition cidr_mask (n bits : N) : N := N.shiftl (N.ones n) (bits - n).

(* *net.IPNet: IP and Mask, each 4 or 16 bytes (ParseCIDR yields equal lengths) *)
Record ipnet := { net_ip : ip; net_mask : N; net_mask_is4 : bool }.

(* net.ParseCIDR after the syntax: `n > ipAddr.BitLen()` -> error;
   m := CIDRMask(n, BitLen); IPNet{IP: IP(addr16).Mask(m), Mask: m}.
   IP.Mask with a 4-byte mask on a v4-mapped 16-byte address works on the last 4 bytes. *)
Definition parse_cidr (a16 : N) (is4 : bool) (n : N) : option ipnet :=
  let bits := if is4 then 32 else 128 in
  if bits <? n then None
  else
    let m := cidr_mask n bits in
    if is4 then
      (* addr16 is v4-mapped for an IPv4 literal; if it were not, IP.Mask would return nil *)
      if is_mapped a16 then Some {| net_ip := IP4 (N.land (low32 a16) m); net_mask := m; net_mask_is4 := true |}
      else None
    else Some {| net_ip := IP16 (N.land a16 m); net_mask := m; net_mask_is4 := false |}.

(* networkNumberAndMask: (network number, mask) both 4 or both 16 bytes, or nil *)
Definition network_number_and_mask (nw : ipnet) : option (ip * N) :=
  match to4 (net_ip nw) with
  | Some x4 =>
      (* ip is 4 bytes: a 4-byte mask is used as is, of a 16-byte mask the last 4 bytes *)
      Some (IP4 x4, if net_mask_is4 nw then net_mask nw else low32 (net_mask nw))
  | None =>
      match net_ip nw with
      | IP16 x => if net_mask_is4 nw then None else Some (IP16 x, net_mask nw)
      | IP4 _ => None
      end
  end.

(* IPNet.Contains: `if x := ip.To4(); x != nil { ip = x }`; lengths must agree; bytewise masked equality *)
Definition contains (nw : ipnet) (a : ip) : bool :=
  match network_number_and_mask nw with
  | None => false
  | Some (nn, m) =>
      match nn, normalize_ip a with
      | IP4 x, IP4 y => N.land x m =? N.land y m
      | IP16 x, IP16 y => N.land x m =? N.land y m
      | _, _ => false
      end
  end.

Inductive entry :=
  | ESingle (p : option N)
  | ECidr (p : option (N * bool * N)).

(* one iteration of the loop over AllowedIPs; [c] is the normalised client *)
Definition entry_allows (c : ip) (e : entry) : bool :=
  match e with
  | ECidr None => false                                     (* ParseCIDR error: continue *)
  | ECidr (Some (a16, is4, n)) =>
      match parse_cidr a16 is4 n with
      | None => false                                       (* ParseCIDR error: continue *)
      | Some nw => contains nw c
      end
  | ESingle None => false                                   (* allowedIP == nil *)
  | ESingle (Some a16) => ip_equal (normalize_ip (IP16 a16)) c
  end.

(* auth.go isIPAllowed(clientIP, allowedIPs) *)
Definition auth_is_ip_allowed (client : option N) (entries : list entry) : bool :=
  match client with
  | None => false
  | Some c16 =>
      let c := normalize_ip (IP16 c16) in
      existsb (entry_allows c) entries
  end.

(* server.go Server.isIPAllowed(clientIP): transcribed separately *)
Definition server_is_ip_allowed (has_handler : bool) (client : option N) (entries : list entry) : bool :=
  if negb has_handler then true
  else match entries with
       | [] => true
       | _ =>
         match client with
         | None => false
         | Some c16 =>
             let c := normalize_ip (IP16 c16) in
             (fix loop (l : list entry) : bool :=
                match l with
                | [] => false
                | e :: r => if entry_allows c e then true else loop r
                end) entries
         end
       end.

(* ---------- the request gate: ValidateAuthentication steps 1-2 and HandleCall's ordering ---------- *)

Record policy := { pol_allowed : list entry; pol_secure : bool; pol_squash : list N }.
Record request := {
  rq_client : option N;       (* ctx.ClientIP parsed *)
  rq_port : Z;                (* ctx.ClientPort *)
  rq_flavor : N; rq_body : list N;
  rq_prog : N; rq_vers : N; rq_proc : N; rq_args : list N
}.

Definition validate_request (pol : policy) (rq : request) : vresult :=
  validate (match pol_allowed pol with [] => false | _ => true end)
           (auth_is_ip_allowed (rq_client rq) (pol_allowed pol))
           (pol_secure pol) (rq_port rq) (rq_flavor rq) (rq_body rq) None (pol_squash pol).

Inductive reply_kind := MsgDenied | MsgAccepted | DrainReply.

(* HandleCall over an arbitrary server state S, backend call type B and an arbitrary dispatcher
   (handleMountCall / handleNFSCall and everything below them): the dispatcher is a parameter, so
   whatever is proved holds for every procedure of every program.
   [draining] = policyRWMu.TryRLock failed (a policy update is in flight): the call is answered by
   drainReply before authentication, without dispatching. *)
Section HandleCall.
  Variables S B R : Type.
  Variable dispatch : S -> request -> N -> N -> option cred -> S * R * list B.

  Definition handle_call (st : S) (pol : policy) (draining : bool) (rq : request)
    : S * reply_kind * option R * list B :=
    if draining then (st, DrainReply, None, [])
    else
      let v := validate_request pol rq in
      if v_allowed v then
        let '(st', r, log) := dispatch st rq (v_uid v) (v_gid v) (v_authsys v) in
        (st', MsgAccepted, Some r, log)
      else (st, MsgDenied, None, []).
End HandleCall.

(* ---------- specification: membership, stated arithmetically on the 128-bit address space ---------- *)

(* the prefix length of an entry inside the 128-bit space: an IPv4 literal a.b.c.d/n denotes
   ::ffff:a.b.c.d/(96+n) *)
Definition prefix128 (is4 : bool) (n : N) : N := if is4 then 96 + n else n.

(* "equals a listed address or lies in a listed CIDR", on 16-byte forms (in which an IPv4 address and
   its IPv4-mapped IPv6 spelling are the same number) *)
Definition lies_in (c16 : N) (e : entry) : bool :=
  match e with
  | ESingle (Some a16) => c16 =? a16
  | ECidr (Some (a16, is4, n)) =>
      (n <=? (if is4 then 32 else 128)) &&
      (c16 / 2 ^ (128 - prefix128 is4 n) =? a16 / 2 ^ (128 - prefix128 is4 n))
  | _ => false
  end.

(* the one place where Go's IPNet.Contains is narrower than arithmetic membership: an IPv4(-mapped)
   client against a network that Go holds as a genuine 16-byte network (IPv6 literal, and not a
   v4-mapped one of length >= 96), e.g. ::/0 - such a network never contains a 4-byte address *)
Definition family_gap (c16 : N) (e : entry) : bool :=
  match e with
  | ECidr (Some (a16, false, n)) => is_mapped c16 && negb (is_mapped a16 && (96 <=? n))
  | _ => false
  end.

(* parsed forms are 16 bytes; an IPv4 literal's 16-byte form is v4-mapped *)
Definition entry_wf (e : entry) : Prop :=
  match e with
  | ESingle (Some a16) => a16 < 2 ^ 128
  | ECidr (Some (a16, is4, n)) => a16 < 2 ^ 128 /\ (is4 = true -> is_mapped a16 = true)
  | _ => True
  end.
