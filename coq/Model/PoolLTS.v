(* Model/PoolLTS.v — the worker pool of /repo/worker_pool.go as a labelled transition system.

   Executable definitions only (no proofs here).  One transition per atomic step of the Go code;
   tasks, workers, submitters and queue generations are UNBOUNDED lists.

   Go construct                                   here
   ---------------------------------------------  ---------------------------------------------------
   p.taskQueue / p.ctx / p.cancel                 generation [gen] number [cur] in the heap [gens]
     (Resize installs a fresh queue + context)      (a goroutine blocked in a select keeps the
                                                     generation it evaluated at select entry)
   worker():  select { <-ctx.Done ; <-taskQueue } Take / ExitCtx / ExitClosed  (nondeterministic)
     task.Execute() ... non-blocking result send  Finish  (buffer 1, one sender: never blocks/drops)
   Submit:  RLock; load running                   SubmitBegin  (-> SRejected | SPending cur)
            select { queue <- task ; <-timer }    SubmitEnq | SubmitTimeout (50 ms timer = choice,
                                                     possible only while the send is not ready)
   SubmitWait / ExecuteWithWorker                 the submitter's state [sst]: SGot / SNotExec /
                                                     SRejected are what `result, ok := <-ch` yields
   Stop:  CAS running 1->0 ; cancel()             StopCAS
          closeMu.Lock ; close(queue) ; Unlock    StopClose   (waits for every pending Submit: RLock)
          wg.Wait()  ; read p.resizing            StopWait
          for task := range p.taskQueue {close}   StopDrain   (one task per step, or loop exit)
   Resize: resizeMu.Lock ; n<=0 -> 1 ; same size? RzBegin
          load running ; oldQueue := p.taskQueue    (RzBegin records was / old)
          resizing=true ; Stop() CAS+cancel       RzStop      (was)   |  close(oldQueue) (not was)
          Stop(): close / wait                    RzClose / RzWait
          for task := range oldQueue              RzDrain
          maxWorkers, queue, ctx := new ; Start() RzSwap
          re-enqueue (select default => overflow) RzReenq
   The calls themselves (a goroutine invoking Submit/Stop/Resize) are the only external stimuli:
   SubmitCall / StopCall / RzCall.  Everything else is internal.

   [cfg] carries three structural facts read off the source by astfacts (Gen/Facts.v):
     stop_drains      Stop closes the result channels of tasks left in the queue
     overflow_closes  Resize closes (rather than sends nil on) the result channel of a task that does
                      not fit into the new queue
     stop_locks       Stop holds resizeMu, i.e. Stop and Resize exclude each other
   so the same definitions describe the code before and after the fix commits.

   Simplifications (SC interleaving semantics; each is conservative for the theorems or irrelevant):
   - `running` load, queue expression evaluation and RLock in Submit are one step (SubmitBegin);
     RWMutex writer preference (a Submit arriving while Stop waits for the lock is delayed) is not
     modelled: such a Submit then reads running = 0 and is rejected either way.
   - CAS+cancel in Stop are one step; the three field writes + Start() in Resize are one step.
   - one external Stop call at a time (a second concurrent Stop fails its CAS and returns).
   - Start() is only called by New and by Resize (as in /repo); restarting a stopped pool by hand is
     not modelled.
   - a Go panic (send on a closed channel) kills the process: [panicked], no further steps. *)
From Coq Require Import List Arith Bool.
Import ListNotations.

Definition task := nat.

Record cfg := { stop_drains : bool; overflow_closes : bool; stop_locks : bool }.

(* one queue + context generation *)
Record gen := { g_items : list task; g_closed : bool; g_cap : nat; g_cancel : bool }.
Definition g_set_items (G : gen) (l : list task) : gen :=
  {| g_items := l; g_closed := g_closed G; g_cap := g_cap G; g_cancel := g_cancel G |}.
Definition g_close (G : gen) : gen :=
  {| g_items := g_items G; g_closed := true; g_cap := g_cap G; g_cancel := g_cancel G |}.
Definition g_cancelled (G : gen) : gen :=
  {| g_items := g_items G; g_closed := g_closed G; g_cap := g_cap G; g_cancel := true |}.
Definition g_fresh (cap : nat) : gen := {| g_items := []; g_closed := false; g_cap := cap; g_cancel := false |}.

Inductive wst := WIdle (g : nat) | WExec (t : task) | WExit.
(* submitter of task t: goroutine launched / in the select holding closeMu.RLock / waiting on the
   result channel / received value v (None = nil) / channel closed = told "not executed" /
   Submit returned nil / panicked *)
Inductive sst := SCalled | SPending (g : nat) | SWait | SGot (v : option task) | SNotExec | SRejected | SPanic.
Inductive spc := SpIdle | SpCalled | SpClose | SpWait | SpDrain (g : nat).
Inductive rpc :=
| RpIdle | RpCalled (n : nat)
| RpStop (new : nat) (was : bool) (old : nat)
| RpClose (new old : nat) | RpWait (new old : nat)
| RpDrain (new : nat) (was : bool) (old : nat) (pend : list task)
| RpSwap (new : nat) (was : bool) (pend : list task)
| RpReenq (pend : list task) | RpDrop (pend : list task).

Record state := {
  running : bool; maxw : nat; cur : nat; gens : list gen; workers : list wst;
  subs : list (task * sst); stop : spc; rz : rpc; resizing : bool;
  executed : list task; panicked : bool }.

Definition queue_factor : nat := 2.   (* make(chan Task, maxWorkers*2); checked against Facts in Properties/C20.v *)

Definition init (n : nat) : state :=
  {| running := true; maxw := n; cur := 0; gens := [g_fresh (queue_factor * n)];
     workers := repeat (WIdle 0) n; subs := []; stop := SpIdle; rz := RpIdle; resizing := false;
     executed := []; panicked := false |}.

(* field updates *)
Definition set_running s x := {| running := x; maxw := maxw s; cur := cur s; gens := gens s; workers := workers s; subs := subs s; stop := stop s; rz := rz s; resizing := resizing s; executed := executed s; panicked := panicked s |}.
Definition set_gens s x := {| running := running s; maxw := maxw s; cur := cur s; gens := x; workers := workers s; subs := subs s; stop := stop s; rz := rz s; resizing := resizing s; executed := executed s; panicked := panicked s |}.
Definition set_workers s x := {| running := running s; maxw := maxw s; cur := cur s; gens := gens s; workers := x; subs := subs s; stop := stop s; rz := rz s; resizing := resizing s; executed := executed s; panicked := panicked s |}.
Definition set_subs s x := {| running := running s; maxw := maxw s; cur := cur s; gens := gens s; workers := workers s; subs := x; stop := stop s; rz := rz s; resizing := resizing s; executed := executed s; panicked := panicked s |}.
Definition set_stop s x := {| running := running s; maxw := maxw s; cur := cur s; gens := gens s; workers := workers s; subs := subs s; stop := x; rz := rz s; resizing := resizing s; executed := executed s; panicked := panicked s |}.
Definition set_rz s x := {| running := running s; maxw := maxw s; cur := cur s; gens := gens s; workers := workers s; subs := subs s; stop := stop s; rz := x; resizing := resizing s; executed := executed s; panicked := panicked s |}.
Definition set_resizing s x := {| running := running s; maxw := maxw s; cur := cur s; gens := gens s; workers := workers s; subs := subs s; stop := stop s; rz := rz s; resizing := x; executed := executed s; panicked := panicked s |}.
Definition set_executed s x := {| running := running s; maxw := maxw s; cur := cur s; gens := gens s; workers := workers s; subs := subs s; stop := stop s; rz := rz s; resizing := resizing s; executed := x; panicked := panicked s |}.
Definition set_panicked s := {| running := running s; maxw := maxw s; cur := cur s; gens := gens s; workers := workers s; subs := subs s; stop := stop s; rz := rz s; resizing := resizing s; executed := executed s; panicked := true |}.

Fixpoint set_nth {A} (n : nat) (x : A) (l : list A) : list A :=
  match l, n with [] , _ => [] | _ :: r, O => x :: r | y :: r, S k => y :: set_nth k x r end.

(* submitter table: at most one entry per task (SubmitCall demands a fresh task id) *)
Fixpoint sub_of (t : task) (l : list (task * sst)) : option sst :=
  match l with [] => None | (u, st) :: r => if Nat.eqb u t then Some st else sub_of t r end.
Definition upd_sub (t : task) (f : sst -> sst) (l : list (task * sst)) : list (task * sst) :=
  map (fun e => if Nat.eqb (fst e) t then (fst e, f (snd e)) else e) l.
Definition put_sub (s : state) (t : task) (x : sst) : state := set_subs s (upd_sub t (fun _ => x) (subs s)).
(* close(task.ResultChan) resp. `ResultChan <- v`: seen by a submitter that waits on the channel *)
Definition tell (s : state) (t : task) (x : sst) : state :=
  set_subs s (upd_sub t (fun st => match st with SWait => x | o => o end) (subs s)).

Definition is_pending (st : sst) : bool := match st with SPending _ => true | _ => false end.
Definition no_pending (s : state) : bool := forallb (fun e => negb (is_pending (snd e))) (subs s).
Definition is_exit (w : wst) : bool := match w with WExit => true | _ => false end.
Definition is_exec (w : wst) : bool := match w with WExec _ => true | _ => false end.
Definition all_exited (s : state) : bool := forallb is_exit (workers s).
Definition stop_free (s : state) : bool := match stop s with SpIdle | SpCalled => true | _ => false end.
Definition rz_free (s : state) : bool := match rz s with RpIdle | RpCalled _ => true | _ => false end.

Inductive label :=
| SubmitCall (t : task) | SubmitBegin (t : task) | SubmitEnq (t : task) | SubmitTimeout (t : task)
| Take (w : nat) | ExitCtx (w : nat) | ExitClosed (w : nat) | Finish (w : nat)
| StopCall | StopCAS | StopClose | StopWait | StopDrain
| RzCall (n : nat) | RzBegin | RzStop | RzClose | RzWait | RzDrain | RzSwap | RzReenq.

Definition with_gen (s : state) (g : nat) (k : gen -> option state) : option state :=
  match nth_error (gens s) g with Some G => k G | None => None end.
Definition put_gen (s : state) (g : nat) (G : gen) : state := set_gens s (set_nth g G (gens s)).

(* what a submitter is told when its queued task is dropped at a Resize *)
Definition dropped (c : cfg) : sst := if overflow_closes c then SNotExec else SGot None.

Definition step (c : cfg) (s : state) (l : label) : option state :=
  if panicked s then None else
  match l with
  (* ---- Submit ---- *)
  | SubmitCall t =>
      match sub_of t (subs s) with
      | None => Some (set_subs s ((t, SCalled) :: subs s))
      | Some _ => None
      end
  | SubmitBegin t =>
      match sub_of t (subs s) with
      | Some SCalled => Some (put_sub s t (if running s then SPending (cur s) else SRejected))
      | _ => None
      end
  | SubmitEnq t =>
      match sub_of t (subs s) with
      | Some (SPending g) =>
          with_gen s g (fun G =>
            if g_closed G then Some (set_panicked (put_sub s t SPanic))       (* send on closed channel *)
            else if length (g_items G) <? g_cap G
                 then Some (put_gen (put_sub s t SWait) g (g_set_items G (g_items G ++ [t])))
                 else None)
      | _ => None
      end
  | SubmitTimeout t =>
      match sub_of t (subs s) with
      | Some (SPending g) =>
          with_gen s g (fun G =>
            if g_closed G || (g_cap G <=? length (g_items G)) then Some (put_sub s t SRejected) else None)
      | _ => None
      end
  (* ---- workers ---- *)
  | Take w =>
      match nth_error (workers s) w with
      | Some (WIdle g) =>
          with_gen s g (fun G =>
            match g_items G with
            | t :: q => Some (set_workers (put_gen s g (g_set_items G q)) (set_nth w (WExec t) (workers s)))
            | [] => None
            end)
      | _ => None
      end
  | ExitCtx w =>
      match nth_error (workers s) w with
      | Some (WIdle g) =>
          with_gen s g (fun G => if g_cancel G then Some (set_workers s (set_nth w WExit (workers s))) else None)
      | _ => None
      end
  | ExitClosed w =>
      match nth_error (workers s) w with
      | Some (WIdle g) =>
          with_gen s g (fun G =>
            match g_items G with
            | [] => if g_closed G then Some (set_workers s (set_nth w WExit (workers s))) else None
            | _ => None
            end)
      | _ => None
      end
  | Finish w =>
      match nth_error (workers s) w with
      | Some (WExec t) =>
          Some (set_workers (set_executed (tell s t (SGot (Some t))) (t :: executed s))
                            (set_nth w (WIdle (cur s)) (workers s)))
      | _ => None
      end
  (* ---- Stop (external caller) ---- *)
  | StopCall => match stop s with SpIdle => Some (set_stop s SpCalled) | _ => None end
  | StopCAS =>
      match stop s with
      | SpCalled =>
          if stop_locks c && negb (rz_free s) then None else
          if running s
          then with_gen s (cur s) (fun G => Some (set_stop (set_running (put_gen s (cur s) (g_cancelled G)) false) SpClose))
          else Some (set_stop s SpIdle)
      | _ => None
      end
  | StopClose =>
      match stop s with
      | SpClose =>
          if no_pending s
          then with_gen s (cur s) (fun G => Some (set_stop (put_gen s (cur s) (g_close G)) SpWait))
          else None
      | _ => None
      end
  | StopWait =>
      match stop s with
      | SpWait =>
          if all_exited s
          then Some (set_stop s (if resizing s || negb (stop_drains c) then SpIdle else SpDrain (cur s)))
          else None
      | _ => None
      end
  | StopDrain =>
      match stop s with
      | SpDrain g =>
          with_gen s g (fun G =>
            match g_items G with
            | t :: q => Some (tell (put_gen s g (g_set_items G q)) t SNotExec)
            | [] => if g_closed G then Some (set_stop s SpIdle) else None
            end)
      | _ => None
      end
  (* ---- Resize ---- *)
  | RzCall n => match rz s with RpIdle => Some (set_rz s (RpCalled n)) | _ => None end
  | RzBegin =>
      match rz s with
      | RpCalled n =>
          if stop_locks c && negb (stop_free s) then None else
          let n' := Nat.max n 1 in
          if Nat.eqb (maxw s) n' then Some (set_rz s RpIdle)
          else Some (set_rz s (RpStop n' (running s) (cur s)))
      | _ => None
      end
  | RzStop =>
      match rz s with
      | RpStop new true old =>
          if running s
          then with_gen s (cur s) (fun G =>
                 Some (set_rz (set_resizing (set_running (put_gen s (cur s) (g_cancelled G)) false) true) (RpClose new old)))
          else Some (set_rz s (RpDrain new true old []))       (* CAS failed: Stop() returns at once *)
      | RpStop new false old =>
          with_gen s old (fun G => Some (set_rz (put_gen s old (g_close G)) (RpDrain new false old [])))
      | _ => None
      end
  | RzClose =>
      match rz s with
      | RpClose new old =>
          if no_pending s
          then with_gen s (cur s) (fun G => Some (set_rz (put_gen s (cur s) (g_close G)) (RpWait new old)))
          else None
      | _ => None
      end
  | RzWait =>
      match rz s with
      | RpWait new old =>
          if all_exited s then Some (set_rz (set_resizing s false) (RpDrain new true old [])) else None
      | _ => None
      end
  | RzDrain =>
      match rz s with
      | RpDrain new was old pend =>
          with_gen s old (fun G =>
            match g_items G with
            | t :: q => Some (set_rz (put_gen s old (g_set_items G q)) (RpDrain new was old (pend ++ [t])))
            | [] => if g_closed G then Some (set_rz s (RpSwap new was pend)) else None
            end)
      | _ => None
      end
  | RzSwap =>
      match rz s with
      | RpSwap new was pend =>
          let g' := length (gens s) in
          let s1 := {| running := running s; maxw := new; cur := g'; gens := gens s ++ [g_fresh (queue_factor * new)];
                       workers := workers s; subs := subs s; stop := stop s; rz := rz s; resizing := resizing s;
                       executed := executed s; panicked := panicked s |} in
          if was
          then if running s then Some (set_rz s1 (RpReenq pend))    (* Start(): CAS fails, nothing launched *)
               else Some (set_rz (set_workers (set_running s1 true) (workers s ++ repeat (WIdle g') new)) (RpReenq pend))
          else Some (set_rz s1 (RpDrop pend))
      | _ => None
      end
  | RzReenq =>
      match rz s with
      | RpReenq [] => Some (set_rz s RpIdle)
      | RpReenq (t :: rest) =>
          with_gen s (cur s) (fun G =>
            if g_closed G then Some (set_panicked s)                (* send on closed channel *)
            else if length (g_items G) <? g_cap G
                 then Some (set_rz (put_gen s (cur s) (g_set_items G (g_items G ++ [t]))) (RpReenq rest))
                 else Some (set_rz (tell s t (dropped c)) (RpReenq rest)))
      | RpDrop [] => Some (set_rz s RpIdle)
      | RpDrop (t :: rest) => Some (set_rz (tell s t (dropped c)) (RpDrop rest))
      | _ => None
      end
  end.

Fixpoint run (c : cfg) (s : state) (tr : list label) : option state :=
  match tr with
  | [] => Some s
  | l :: r => match step c s l with Some s' => run c s' r | None => None end
  end.

(* external stimuli are the calls; every other label is a step of a goroutine already inside the pool code *)
Definition internal (l : label) : bool :=
  match l with SubmitCall _ | StopCall | RzCall _ => false | _ => true end.

Definition is_some {A} (o : option A) : bool := match o with Some _ => true | None => false end.

Definition candidates (s : state) : list label :=
  flat_map (fun e => [SubmitBegin (fst e); SubmitEnq (fst e); SubmitTimeout (fst e)]) (subs s) ++
  flat_map (fun w => [Take w; ExitCtx w; ExitClosed w; Finish w]) (seq 0 (length (workers s))) ++
  [StopCAS; StopClose; StopWait; StopDrain; RzBegin; RzStop; RzClose; RzWait; RzDrain; RzSwap; RzReenq].
Definition enabled (c : cfg) (s : state) : list label := filter (fun l => is_some (step c s l)) (candidates s).
Definition quiescentb (c : cfg) (s : state) : bool := forallb (fun l => negb (is_some (step c s l))) (candidates s).

(* ---- observables ---- *)
Definition exec_tasks (ws : list wst) : list task :=
  flat_map (fun w => match w with WExec t => [t] | _ => [] end) ws.
Definition executing (s : state) : nat := length (exec_tasks (workers s)).
Definition live (s : state) : nat := length (filter (fun w => negb (is_exit w)) (workers s)).
Definition queued (s : state) : list task := flat_map g_items (gens s).
Definition rz_pend (r : rpc) : list task :=
  match r with RpDrain _ _ _ p | RpSwap _ _ p | RpReenq p | RpDrop p => p | _ => [] end.
(* the size a Resize in progress is changing to *)
Definition rz_target (s : state) : nat :=
  match rz s with RpStop n _ _ | RpClose n _ | RpWait n _ | RpDrain n _ _ _ | RpSwap n _ _ => n | _ => maxw s end.

Definition unresolved (st : sst) : bool :=
  match st with SCalled | SPending _ | SWait | SPanic => true | _ => false end.
Definition blocked (s : state) : list task := map fst (filter (fun e => unresolved (snd e)) (subs s)).

(* executable form of the per-state statement of "resolved" *)
Definition resolvedb (s : state) : bool :=
  negb (panicked s) &&
  forallb (fun e => match snd e with
                    | SGot v => match v with Some u => Nat.eqb u (fst e) | None => false end
                                && Nat.eqb (count_occ Nat.eq_dec (executed s) (fst e)) 1
                    | SNotExec | SRejected => Nat.eqb (count_occ Nat.eq_dec (executed s) (fst e)) 0
                    | _ => false
                    end) (subs s).
