(* Model/Cache.v — executable model of AttrCache and DirCache (/repo/cache.go) and the abstract
   TTL-LRU specification they are proved to refine.  No proofs here (Proofs/CacheProofs.v).

   INTERFACE (for importers, e.g. a server-level model)
   ----------------------------------------------------
   Keys are Go strings as byte lists:  path := list N  (one N < 256 per byte; "/a" = [47; 97]).
   Time is explicit: every operation that reads time.Now() takes  now : N  (nanoseconds of the
   virtual clock); durations (TTLs) are Z nanoseconds, expiry instants are Z.
   The value types are parameters: A = one attribute block (NFSAttrs), E = one directory entry.

   AttrCache  (state  attr_cache A)                       Go method
     new_attr_cache ttl maxSize                           NewAttrCache(ttl, maxSize)
     attr_configure_negative on ttl c                     ConfigureNegativeCaching(enable, ttl)
     attr_get now k c : attr_cache A * get_result A       Get(path)        Miss | NegHit | Hit a
     attr_put now k a c                                   Put(path, attrs)         (attrs non-nil; Go panics on nil)
     attr_put_negative now k c                            PutNegative(path)        (no-op while disabled)
     attr_invalidate k c                                  Invalidate(path)
     attr_invalidate_tree d c                             InvalidateTree(dirPath)
     attr_invalidate_negative_in_dir d c                  InvalidateNegativeInDir(dirPath)
     attr_clear c / attr_resize n c / attr_update_ttl t c Clear() / Resize(n) / UpdateTTL(t)
     attr_size c, attr_max_size c, attr_negative_stats c  Size(), MaxSize(), NegativeStats()
     is_child_of p d, in_tree p d                         isChildOf(path, dirPath); the InvalidateTree rule
   DirCache   (state  dir_cache E)
     new_dir_cache timeout maxEntries maxDirSize          NewDirCache(...)
     dir_get now k c : dir_cache E * option (list E)      Get(path)
     dir_put now k es c                                   Put(path, entries)  (refused if too long)
     dir_invalidate / dir_invalidate_tree / dir_clear / dir_resize / dir_update_ttl / dir_size
   Histories: attr_op / dir_op, one constructor per method; attr_step / dir_step apply one
   (now, op); attr_run_obs / dir_run_obs give the observation of every step.
   SPEC: tlru V (one recency-ordered association list), attr_spec / dir_spec with sa_step_res /
   sd_step_res and sa_run_obs / sd_run_obs producing the same observation type.  Proved in
   Proofs/CacheProofs.v: attr_step_inv / dir_step_inv (every step keeps AInv / DInv: NoDup list,
   list = dom map, size <= capacity), attr_step_sim / dir_step_sim (one step of the model = one step of
   the spec under the relation AR / DR, sim_abs gives the abstract state of any concrete one), so an
   importer may reason on the spec instead of the representation.
   Behaviour worth knowing when importing: AttrCache hits iff now < expiry, DirCache iff now <= expiry;
   an expired entry stays (and counts towards the capacity) until a Get meets it; NewAttrCache keeps a
   ttl <= 0 as it is (every entry is born expired) while UpdateTTL replaces it by 5 s; a DirCache.Put
   refused for its length leaves the previous listing of that path in place.

   Go -> Gallina (both caches share the representation, rendered once as [lru V])
     cache/entries map[string]*Cached...   l_map  : list (path * centry V)   keys unique (proved)
     accessList *list.List (front = MRU)   l_list : list path                head = front
     CachedX.listElement != nil            ce_el  : bool
     CachedAttrs{attrs, isNegative}        ce_val : option A   (None = negative entry; the two
                                           constructor sites set attrs==nil <-> isNegative)
     expireAt / validUntil                 ce_exp : Z  = now + ttl at the time of the Put
     maxSize / maxEntries                  l_max  : N  (after the <=0 defaulting)
     list.MoveToFront(el)                  k :: remove_key k l_list
     `for path := range map { delete }`    fold over a snapshot of the keys (iteration order is
                                           irrelevant: the result is order independent, proved)
   Not modelled: the RWMutex (every method is one atomic step; Get's RLock->Lock upgrade window is
   therefore invisible here), metrics/logging, the hits/misses counters, aliasing of returned
   values (checked at run time by the harness; so is a concurrent stress stream). *)
From Coq Require Import List NArith ZArith Bool.
Import ListNotations.
Open Scope N_scope.

(* ---------------------------------------------------------------- paths as byte strings *)
Definition path := list N.
Definition slash : N := 47.

Fixpoint path_eqb (a b : path) : bool :=
  match a, b with
  | [], [] => true
  | x :: a', y :: b' => (x =? y) && path_eqb a' b'
  | _, _ => false
  end.

(* strings.HasPrefix(s, pre) *)
Fixpoint has_prefix (pre s : path) : bool :=
  match pre, s with
  | [], _ => true
  | x :: pre', y :: s' => (x =? y) && has_prefix pre' s'
  | _ :: _, [] => false
  end.

(* strings.TrimSuffix(s, "/") : drops one trailing slash *)
Definition trim_suffix_slash (s : path) : path :=
  match rev s with
  | c :: r => if c =? slash then rev r else s
  | [] => s
  end.

(* InvalidateTree: path == dirPath || strings.HasPrefix(path, TrimSuffix(dirPath,"/")+"/") *)
Definition in_tree (p d : path) : bool :=
  path_eqb p d || has_prefix (trim_suffix_slash d ++ [slash]) p.

Definition no_slash_nonempty (r : path) : bool :=
  negb (existsb (N.eqb slash) r) && negb (Nat.eqb (length r) 0).

(* isChildOf(path, dirPath), statement by statement *)
Definition is_child_of (p d : path) : bool :=
  if path_eqb d [slash] then
    if path_eqb p [slash] || Nat.ltb (length p) 2 then false
    else no_slash_nonempty (skipn 1 p)                         (* remainder = path[1:] *)
  else
    if Nat.leb (length p) (length d + 1) then false
    else if negb (path_eqb (firstn (length d) p) d) then false (* path[:len(dirPath)] != dirPath *)
    else if negb (nth (length d) p 0 =? slash) then false      (* path[len(dirPath)] != '/' *)
    else no_slash_nonempty (skipn (length d + 1) p).

(* ---------------------------------------------------------------- the shared LRU representation *)
Section Core.
Context {V : Type}.

Record centry := { ce_val : V; ce_exp : Z; ce_el : bool }.
Record lru := { l_map : list (path * centry); l_list : list path; l_max : N }.

Fixpoint lookup (k : path) (m : list (path * centry)) : option centry :=
  match m with
  | [] => None
  | (q, e) :: r => if path_eqb k q then Some e else lookup k r
  end.
Definition delete (k : path) (m : list (path * centry)) : list (path * centry) :=
  filter (fun e => negb (path_eqb (fst e) k)) m.                       (* delete(m, k) *)
Definition set (k : path) (e : centry) (m : list (path * centry)) := (k, e) :: delete k m.  (* m[k] = e *)
Definition remove_key (k : path) (l : list path) : list path :=
  filter (fun x => negb (path_eqb x k)) l.                             (* accessList.Remove(el of k) *)
Definition with_el (e : centry) (b : bool) : centry :=
  {| ce_val := ce_val e; ce_exp := ce_exp e; ce_el := b |}.
Definition msize (c : lru) : N := N.of_nat (length (l_map c)).         (* len(c.cache) *)

(* updateAccessLog(path) *)
Definition update_access_log (k : path) (c : lru) : lru :=
  match lookup k (l_map c) with
  | None => c
  | Some e =>
    if ce_el e
    then {| l_map := l_map c; l_list := k :: remove_key k (l_list c); l_max := l_max c |}  (* MoveToFront *)
    else {| l_map := set k (with_el e true) (l_map c); l_list := k :: l_list c; l_max := l_max c |} (* PushFront *)
  end.

(* removeFromAccessLog(path) / removeFromAccessList(path) *)
Definition remove_from_access_log (k : path) (c : lru) : lru :=
  match lookup k (l_map c) with
  | None => c
  | Some e =>
    if ce_el e
    then {| l_map := set k (with_el e false) (l_map c); l_list := remove_key k (l_list c); l_max := l_max c |}
    else c
  end.

(* the pair  removeFromAccessLog(path); delete(map, path)  used by Invalidate and every bulk removal *)
Definition delete_entry (k : path) (c : lru) : lru :=
  let c1 := remove_from_access_log k c in
  {| l_map := delete k (l_map c1); l_list := l_list c1; l_max := l_max c1 |}.

Definition delete_entries (ks : list path) (c : lru) : lru := fold_left (fun c k => delete_entry k c) ks c.

(* `for path, cached := range map { if pred { removeFromAccessLog(path); delete(map, path) } }` *)
Definition delete_where (pred : path -> centry -> bool) (c : lru) : lru :=
  delete_entries (map fst (filter (fun e => pred (fst e) (snd e)) (l_map c))) c.

(* the eviction block: lruElement := accessList.Back(); delete(map, its path); accessList.Remove(it);
   nothing happens when the list is empty *)
Definition evict_back (c : lru) : lru :=
  match l_list c with
  | [] => c
  | _ :: _ => {| l_map := delete (last (l_list c) []) (l_map c); l_list := removelast (l_list c); l_max := l_max c |}
  end.

(* common body of AttrCache.Put, AttrCache.PutNegative and DirCache.Put after their guards *)
Definition store (k : path) (v : V) (exp : Z) (c : lru) : lru :=
  let existing := lookup k (l_map c) in
  let c1 := match existing with
            | None => if l_max c <=? msize c then evict_back c else c      (* len >= max && !exists *)
            | Some _ => c
            end in
  let el := match existing with Some e => ce_el e | None => false end in   (* listElem preserved *)
  update_access_log k
    {| l_map := set k {| ce_val := v; ce_exp := exp; ce_el := el |} (l_map c1);
       l_list := l_list c1; l_max := l_max c1 |}.

(* `for len(map) > max && accessList.Len() > 0 { evict back }`: at most one round per list element *)
Fixpoint evict_while (fuel : nat) (c : lru) : lru :=
  match fuel with
  | O => c
  | S f => if (l_max c <? msize c) && negb (Nat.eqb (length (l_list c)) 0)
           then evict_while f (evict_back c) else c
  end.

(* Resize after the <=0 defaulting *)
Definition resize_core (n : N) (c : lru) : lru :=
  if l_max c =? n then c
  else evict_while (length (l_list c)) {| l_map := l_map c; l_list := l_list c; l_max := n |}.

Definition clear_core (c : lru) : lru := {| l_map := []; l_list := []; l_max := l_max c |}.
Definition empty_lru (mx : N) : lru := {| l_map := []; l_list := []; l_max := mx |}.

End Core.
Arguments centry : clear implicits.
Arguments lru : clear implicits.

Definition sec : Z := 1000000000%Z.

(* ---------------------------------------------------------------- AttrCache *)
Section Attr.
Context {A : Type}.

Record attr_cache := { ac_lru : lru (option A); ac_ttl : Z; ac_negttl : Z; ac_negon : bool }.
Inductive get_result := Miss | NegHit | Hit (a : A).

Definition with_lru (c : attr_cache) (l : lru (option A)) : attr_cache :=
  {| ac_lru := l; ac_ttl := ac_ttl c; ac_negttl := ac_negttl c; ac_negon := ac_negon c |}.
Definition is_neg (e : centry (option A)) : bool := match ce_val e with None => true | Some _ => false end.

Definition default_size (n : Z) (dflt : N) : N := if (n <=? 0)%Z then dflt else Z.to_N n.

Definition new_attr_cache (ttl : Z) (maxSize : Z) : attr_cache :=
  {| ac_lru := empty_lru (default_size maxSize 10000); ac_ttl := ttl; ac_negttl := (5 * sec)%Z; ac_negon := false |}.

Definition attr_configure_negative (on : bool) (ttl : Z) (c : attr_cache) : attr_cache :=
  let nt := if (0 <? ttl)%Z then ttl else ac_negttl c in
  {| ac_lru := if on then ac_lru c else delete_where (fun _ e => is_neg e) (ac_lru c);
     ac_ttl := ac_ttl c; ac_negttl := nt; ac_negon := on |}.

Definition attr_get (now : N) (k : path) (c : attr_cache) : attr_cache * get_result :=
  match lookup k (l_map (ac_lru c)) with
  | Some e =>
    if (Z.of_N now <? ce_exp e)%Z                                  (* time.Now().Before(expireAt) *)
    then (with_lru c (update_access_log k (ac_lru c)),
          match ce_val e with None => NegHit | Some a => Hit a end)
    else if (ce_exp e <? Z.of_N now)%Z                             (* time.Now().After(expireAt) *)
         then (with_lru c (delete_entry k (ac_lru c)), Miss)
         else (c, Miss)                                            (* now == expireAt: miss, entry stays *)
  | None => (c, Miss)
  end.

Definition attr_put (now : N) (k : path) (a : A) (c : attr_cache) : attr_cache :=
  with_lru c (store k (Some a) (Z.of_N now + ac_ttl c)%Z (ac_lru c)).

(* PutNegative: under the write lock; nothing happens while negative caching is disabled *)
Definition attr_put_negative (now : N) (k : path) (c : attr_cache) : attr_cache :=
  if ac_negon c then with_lru c (store k None (Z.of_N now + ac_negttl c)%Z (ac_lru c)) else c.

(* NOT the current code.  Before the repair of PutNegative the method read enableNegative/negativeTTL
   under the read lock, released it, and only then took the write lock and stored: two atomic steps
   between which a ConfigureNegativeCaching(false) could run.  The two halves are kept to document
   why the check has to sit under the write lock (Properties/C21.v, C21_put_negative_split_refuted). *)
Definition attr_put_negative_read_old (c : attr_cache) : bool * Z := (ac_negon c, ac_negttl c).
Definition attr_put_negative_commit_old (now : N) (k : path) (rd : bool * Z) (c : attr_cache) : attr_cache :=
  if fst rd then with_lru c (store k None (Z.of_N now + snd rd)%Z (ac_lru c)) else c.

Definition attr_invalidate (k : path) (c : attr_cache) : attr_cache := with_lru c (delete_entry k (ac_lru c)).
Definition attr_invalidate_tree (d : path) (c : attr_cache) : attr_cache :=
  with_lru c (delete_where (fun p _ => in_tree p d) (ac_lru c)).
(* toDelete := keys with isNegative && isChildOf(path, dirPath); then remove each *)
Definition attr_invalidate_negative_in_dir (d : path) (c : attr_cache) : attr_cache :=
  with_lru c (delete_where (fun p e => is_neg e && is_child_of p d) (ac_lru c)).
Definition attr_clear (c : attr_cache) : attr_cache := with_lru c (clear_core (ac_lru c)).
Definition attr_resize (n : Z) (c : attr_cache) : attr_cache :=
  with_lru c (resize_core (default_size n 10000) (ac_lru c)).
Definition attr_update_ttl (t : Z) (c : attr_cache) : attr_cache :=
  {| ac_lru := ac_lru c; ac_ttl := if (t <=? 0)%Z then (5 * sec)%Z else t;
     ac_negttl := ac_negttl c; ac_negon := ac_negon c |}.

Definition attr_size (c : attr_cache) : N := msize (ac_lru c).
Definition attr_max_size (c : attr_cache) : N := l_max (ac_lru c).
Definition attr_negative_stats (c : attr_cache) : N :=
  N.of_nat (length (filter (fun e => is_neg (snd e)) (l_map (ac_lru c)))).

Inductive attr_op :=
| APut (k : path) (a : A) | APutNegative (k : path) | AGet (k : path)
| AInvalidate (k : path) | AInvalidateNegativeInDir (d : path) | AInvalidateTree (d : path)
| AResize (n : Z) | AUpdateTTL (t : Z) | AClear | AConfigureNegative (on : bool) (t : Z).

(* one step of a history: the clock value at the call, the call; result only for Get *)
Definition attr_step_res (c : attr_cache) (to : N * attr_op) : attr_cache * option get_result :=
  let now := fst to in
  match snd to with
  | APut k a => (attr_put now k a c, None)
  | APutNegative k => (attr_put_negative now k c, None)
  | AGet k => let '(c', r) := attr_get now k c in (c', Some r)
  | AInvalidate k => (attr_invalidate k c, None)
  | AInvalidateNegativeInDir d => (attr_invalidate_negative_in_dir d c, None)
  | AInvalidateTree d => (attr_invalidate_tree d c, None)
  | AResize n => (attr_resize n c, None)
  | AUpdateTTL t => (attr_update_ttl t c, None)
  | AClear => (attr_clear c, None)
  | AConfigureNegative on t => (attr_configure_negative on t c, None)
  end.
Definition attr_step (c : attr_cache) (to : N * attr_op) : attr_cache := fst (attr_step_res c to).

(* observation after a step: Get result, Size(), MaxSize(), NegativeStats() *)
Record attr_obs := { o_res : option get_result; o_size : N; o_max : N; o_negs : N }.
Definition attr_observe (c : attr_cache) (r : option get_result) : attr_obs :=
  {| o_res := r; o_size := attr_size c; o_max := attr_max_size c; o_negs := attr_negative_stats c |}.
Fixpoint attr_run_obs (c : attr_cache) (h : list (N * attr_op)) : list attr_obs :=
  match h with
  | [] => []
  | to :: r => let '(c', res) := attr_step_res c to in attr_observe c' res :: attr_run_obs c' r
  end.

End Attr.
Arguments attr_cache : clear implicits.
Arguments get_result : clear implicits.
Arguments attr_op : clear implicits.
Arguments attr_obs : clear implicits.

(* ---------------------------------------------------------------- DirCache *)
Section Dir.
Context {E : Type}.

Record dir_cache := { dc_lru : lru (list E); dc_timeout : Z; dc_max_dir : N }.
Definition with_dlru (c : dir_cache) (l : lru (list E)) : dir_cache :=
  {| dc_lru := l; dc_timeout := dc_timeout c; dc_max_dir := dc_max_dir c |}.

Definition new_dir_cache (timeout : Z) (maxEntries maxDirSize : Z) : dir_cache :=
  {| dc_lru := empty_lru (default_size maxEntries 1000);
     dc_timeout := if (timeout <=? 0)%Z then (10 * sec)%Z else timeout;
     dc_max_dir := default_size maxDirSize 10000 |}.

Definition dir_get (now : N) (k : path) (c : dir_cache) : dir_cache * option (list E) :=
  match lookup k (l_map (dc_lru c)) with
  | None => (c, None)
  | Some e =>
    if (ce_exp e <? Z.of_N now)%Z                                  (* time.Now().After(validUntil) *)
    then (with_dlru c (delete_entry k (dc_lru c)), None)
    else (with_dlru c (update_access_log k (dc_lru c)), Some (ce_val e))   (* valid up to and including validUntil *)
  end.

Definition dir_put (now : N) (k : path) (es : list E) (c : dir_cache) : dir_cache :=
  if dc_max_dir c <? N.of_nat (length es) then c                   (* len(entries) > maxDirSize: not cached *)
  else with_dlru c (store k es (Z.of_N now + dc_timeout c)%Z (dc_lru c)).

Definition dir_invalidate (k : path) (c : dir_cache) : dir_cache := with_dlru c (delete_entry k (dc_lru c)).
Definition dir_invalidate_tree (d : path) (c : dir_cache) : dir_cache :=
  with_dlru c (delete_where (fun p _ => in_tree p d) (dc_lru c)).
Definition dir_clear (c : dir_cache) : dir_cache := with_dlru c (clear_core (dc_lru c)).
Definition dir_resize (n : Z) (c : dir_cache) : dir_cache :=
  with_dlru c (resize_core (default_size n 1000) (dc_lru c)).
Definition dir_update_ttl (t : Z) (c : dir_cache) : dir_cache :=
  {| dc_lru := dc_lru c; dc_timeout := if (t <=? 0)%Z then (10 * sec)%Z else t; dc_max_dir := dc_max_dir c |}.
Definition dir_size (c : dir_cache) : N := msize (dc_lru c).
Definition dir_max_entries (c : dir_cache) : N := l_max (dc_lru c).

Inductive dir_op :=
| DPut (k : path) (es : list E) | DGet (k : path) | DInvalidate (k : path) | DInvalidateTree (d : path)
| DResize (n : Z) | DUpdateTTL (t : Z) | DClear.

Definition dir_step_res (c : dir_cache) (to : N * dir_op) : dir_cache * option (option (list E)) :=
  let now := fst to in
  match snd to with
  | DPut k es => (dir_put now k es c, None)
  | DGet k => let '(c', r) := dir_get now k c in (c', Some r)
  | DInvalidate k => (dir_invalidate k c, None)
  | DInvalidateTree d => (dir_invalidate_tree d c, None)
  | DResize n => (dir_resize n c, None)
  | DUpdateTTL t => (dir_update_ttl t c, None)
  | DClear => (dir_clear c, None)
  end.
Definition dir_step (c : dir_cache) (to : N * dir_op) : dir_cache := fst (dir_step_res c to).

Record dir_obs := { d_res : option (option (list E)); d_size : N; d_max : N }.
Definition dir_observe (c : dir_cache) (r : option (option (list E))) : dir_obs :=
  {| d_res := r; d_size := dir_size c; d_max := dir_max_entries c |}.
Fixpoint dir_run_obs (c : dir_cache) (h : list (N * dir_op)) : list dir_obs :=
  match h with
  | [] => []
  | to :: r => let '(c', res) := dir_step_res c to in dir_observe c' res :: dir_run_obs c' r
  end.

End Dir.
Arguments dir_cache : clear implicits.
Arguments dir_op : clear implicits.
Arguments dir_obs : clear implicits.

(* ================================================================ SPEC: the abstract TTL-LRU map
   One association list  key |-> (value, expiry), most recently used first, keys unique.
   A negative attribute entry is the value None.  "Used" = stored by a Put or returned by a Get.
   Expired entries are not returned; they are dropped when a Get meets them (so they still count
   towards the size until then - the sizes are observable). *)
Section Spec.
Context {V : Type}.
Definition tlru := list (path * (V * Z)).

Fixpoint s_find (k : path) (l : tlru) : option (V * Z) :=
  match l with [] => None | (q, e) :: r => if path_eqb k q then Some e else s_find k r end.
Definition s_del (k : path) (l : tlru) : tlru := filter (fun e => negb (path_eqb (fst e) k)) l.
(* a use moves the entry to the front *)
Definition s_touch (k : path) (l : tlru) : tlru :=
  match s_find k l with Some e => (k, e) :: s_del k l | None => l end.
(* storing a new key into a full map first drops the least recently used entry (the last one) *)
Definition s_store (cap : N) (k : path) (v : V) (exp : Z) (l : tlru) : tlru :=
  let l1 := match s_find k l with
            | Some _ => l
            | None => if cap <=? N.of_nat (length l) then removelast l else l
            end in
  (k, (v, exp)) :: s_del k l1.
(* shrinking keeps the cap most recently used entries *)
Definition s_trim (cap : N) (l : tlru) : tlru := firstn (N.to_nat cap) l.
Definition s_drop (p : path -> V -> bool) (l : tlru) : tlru :=
  filter (fun e => negb (p (fst e) (fst (snd e)))) l.
End Spec.
Arguments tlru : clear implicits.

(* "p is a direct child of directory d" on byte strings: p = d' ++ name with name non-empty and
   slash-free, where d' = d ++ "/" (just "/" for the root).  Computed by splitting p at its last slash. *)
Fixpoint split_last_slash (p : path) : option (path * path) :=
  match p with
  | [] => None
  | c :: r => match split_last_slash r with
              | Some (b, n) => Some (c :: b, n)
              | None => if c =? slash then Some ([], r) else None
              end
  end.
Definition direct_child_b (p d : path) : bool :=
  match split_last_slash p with
  | Some (b, name) =>
    negb (Nat.eqb (length name) 0) &&
    (if path_eqb d [slash] then Nat.eqb (length b) 0 else path_eqb b d)
  | None => false
  end.

Definition is_abs (p : path) : bool := match p with c :: _ => c =? slash | [] => false end.
(* where the code's isChildOf departs from the parent rule: for dirPath "/" the first byte of path is
   never looked at, so a key that does not start with a slash counts as a child of the root *)
Definition root_quirk (p d : path) : bool :=
  path_eqb d [slash] &&
  match p with c :: name => negb (c =? slash) && no_slash_nonempty name | [] => false end.

Section AttrSpec.
Context {A : Type}.
Record attr_spec := { as_entries : tlru (option A); as_cap : N; as_ttl : Z; as_negttl : Z; as_negon : bool }.
Definition as_with (s : attr_spec) (l : tlru (option A)) : attr_spec :=
  {| as_entries := l; as_cap := as_cap s; as_ttl := as_ttl s; as_negttl := as_negttl s; as_negon := as_negon s |}.
Definition is_none (v : option A) : bool := match v with None => true | Some _ => false end.

Definition sa_new (ttl maxSize : Z) : attr_spec :=
  {| as_entries := []; as_cap := default_size maxSize 10000; as_ttl := ttl; as_negttl := (5 * sec)%Z; as_negon := false |}.

(* [child] is the direct-child rule used by InvalidateNegativeInDir: [direct_child_b] in the property;
   the code's [is_child_of] agrees with it on every key that starts with a slash (C21_neg_children). *)
Definition sa_step_res (child : path -> path -> bool) (s : attr_spec) (to : N * attr_op A)
  : attr_spec * option (get_result A) :=
  let now := Z.of_N (fst to) in
  match snd to with
  | APut k a => (as_with s (s_store (as_cap s) k (Some a) (now + as_ttl s)%Z (as_entries s)), None)
  | APutNegative k =>
    (if as_negon s then as_with s (s_store (as_cap s) k None (now + as_negttl s)%Z (as_entries s)) else s, None)
  | AGet k =>
    match s_find k (as_entries s) with
    | None => (s, Some Miss)
    | Some (v, exp) =>
      if (now <? exp)%Z
      then (as_with s (s_touch k (as_entries s)), Some (match v with None => NegHit | Some a => Hit a end))
      else (if (exp <? now)%Z then as_with s (s_del k (as_entries s)) else s, Some Miss)
    end
  | AInvalidate k => (as_with s (s_del k (as_entries s)), None)
  | AInvalidateNegativeInDir d => (as_with s (s_drop (fun p v => is_none v && child p d) (as_entries s)), None)
  | AInvalidateTree d => (as_with s (s_drop (fun p _ => in_tree p d) (as_entries s)), None)
  | AResize n => let cap := default_size n 10000 in
    ({| as_entries := s_trim cap (as_entries s); as_cap := cap; as_ttl := as_ttl s;
        as_negttl := as_negttl s; as_negon := as_negon s |}, None)
  | AUpdateTTL t => ({| as_entries := as_entries s; as_cap := as_cap s;
                        as_ttl := if (t <=? 0)%Z then (5 * sec)%Z else t;
                        as_negttl := as_negttl s; as_negon := as_negon s |}, None)
  | AClear => (as_with s [], None)
  | AConfigureNegative on t =>
    ({| as_entries := if on then as_entries s else s_drop (fun _ v => is_none v) (as_entries s);
        as_cap := as_cap s; as_ttl := as_ttl s;
        as_negttl := if (0 <? t)%Z then t else as_negttl s; as_negon := on |}, None)
  end.

Definition sa_observe (s : attr_spec) (r : option (get_result A)) : attr_obs A :=
  {| o_res := r; o_size := N.of_nat (length (as_entries s)); o_max := as_cap s;
     o_negs := N.of_nat (length (filter (fun e => is_none (fst (snd e))) (as_entries s))) |}.
Fixpoint sa_run_obs (child : path -> path -> bool) (s : attr_spec) (h : list (N * attr_op A)) : list (attr_obs A) :=
  match h with
  | [] => []
  | to :: r => let '(s', res) := sa_step_res child s to in sa_observe s' res :: sa_run_obs child s' r
  end.
End AttrSpec.
Arguments attr_spec : clear implicits.

Section DirSpec.
Context {E : Type}.
Record dir_spec := { ds_entries : tlru (list E); ds_cap : N; ds_timeout : Z; ds_max_dir : N }.
Definition ds_with (s : dir_spec) (l : tlru (list E)) : dir_spec :=
  {| ds_entries := l; ds_cap := ds_cap s; ds_timeout := ds_timeout s; ds_max_dir := ds_max_dir s |}.
Definition sd_new (timeout maxEntries maxDirSize : Z) : dir_spec :=
  {| ds_entries := []; ds_cap := default_size maxEntries 1000;
     ds_timeout := if (timeout <=? 0)%Z then (10 * sec)%Z else timeout;
     ds_max_dir := default_size maxDirSize 10000 |}.

Definition sd_step_res (s : dir_spec) (to : N * dir_op E) : dir_spec * option (option (list E)) :=
  let now := Z.of_N (fst to) in
  match snd to with
  | DPut k es =>
    (if ds_max_dir s <? N.of_nat (length es) then s     (* listings longer than maxDirSize are not stored *)
     else ds_with s (s_store (ds_cap s) k es (now + ds_timeout s)%Z (ds_entries s)), None)
  | DGet k =>
    match s_find k (ds_entries s) with
    | None => (s, Some None)
    | Some (v, exp) =>
      if (exp <? now)%Z then (ds_with s (s_del k (ds_entries s)), Some None)
      else (ds_with s (s_touch k (ds_entries s)), Some (Some v))
    end
  | DInvalidate k => (ds_with s (s_del k (ds_entries s)), None)
  | DInvalidateTree d => (ds_with s (s_drop (fun p _ => in_tree p d) (ds_entries s)), None)
  | DResize n => let cap := default_size n 1000 in
    ({| ds_entries := s_trim cap (ds_entries s); ds_cap := cap; ds_timeout := ds_timeout s;
        ds_max_dir := ds_max_dir s |}, None)
  | DUpdateTTL t => ({| ds_entries := ds_entries s; ds_cap := ds_cap s;
                        ds_timeout := if (t <=? 0)%Z then (10 * sec)%Z else t; ds_max_dir := ds_max_dir s |}, None)
  | DClear => (ds_with s [], None)
  end.
Definition sd_observe (s : dir_spec) (r : option (option (list E))) : dir_obs E :=
  {| d_res := r; d_size := N.of_nat (length (ds_entries s)); d_max := ds_cap s |}.
Fixpoint sd_run_obs (s : dir_spec) (h : list (N * dir_op E)) : list (dir_obs E) :=
  match h with
  | [] => []
  | to :: r => let '(s', res) := sd_step_res s to in sd_observe s' res :: sd_run_obs s' r
  end.
End DirSpec.
Arguments dir_spec : clear implicits.
