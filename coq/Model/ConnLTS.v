(* Model/ConnLTS.v — connection lifecycle of server.go (C17) as a labelled transition system, plus the
   sequential Close/Unexport of absnfs.go / operations.go over an abstract handle table and caches.
   No proofs here.  Connections and Stop callers are identified by arbitrary N: no bound on their number.

   Go (current /repo)                                     model
   -------------------------------------------------------------------------------------------------
   Server.activeConns map[net.Conn]*connectionState       active : list N  (+ k_last, k_once per connection)
   Server.connCount int                                   count : Z        (kept separate from |active| on purpose)
   Server.connMutex                                       every critical section is one step
   connectionState.unregisterOnce sync.Once               k_once : ONew | ORunning | ODone; Do blocks while another
                                                          caller runs the body (sync.Once as a DEFINITION)
   Server.ctx / cancel, listener.Close                    cancelled, lclosed
   Server.wg                                              wg : N (Add in Listen/acceptLoop, Done in the deferred calls)
   tuning.MaxConnections, tuning.IdleTimeout              maxc : Z (<= 0: no limit, as the code reads), idle : N (0: no reaper)
   time.Now()                                             now, advanced by Advance d at any moment
   acceptLoop:  Accept (Accept c ok: ok = isIPAllowed) ; filter (Filter) ; registerConnection (Register: limit
                check, map insert, count++ in ONE critical section) ; wg.Add + go (Spawn) ; loop-top ctx check /
                accept error after listener close (AcceptExit)
   connection goroutine: serve (Activity c = updateConnectionActivity) ; loop returns for any reason - client
                close, deadline, ctx, socket closed by reaper/Stop - and conn.Close runs (Exit c) ;
                deferred unregisterConnection (UnregConn c, three sub-steps) ; deferred wg.Done (ConnDone c)
   unregisterConnection(c):  U1 lock; exists := c in activeConns; unlock; !exists -> return
                             U2 once.Do: first caller becomes the runner, later callers wait for it / return
                             U3 lock; if still there { delete; connCount-- }; unlock; once done
   idle reaper: ticker fires (Tick: under the lock collect c with now - last > idle) ; per collected c:
                conn.Close (RClose), unregisterConnection (UnregReaper) ; RTickDone ; ctx.Done (ReaperExit)
   Stop (caller k): cancel (StopCancel) ; listener.Close (StopCloseL) ; closeAllConnections = snapshot under
                the lock (StopCollect), per c conn.Close (StopClose) + unregisterConnection (UnregStop) ;
                wg.Wait finished (StopWait: wg = 0) or 5 s timer (StopTimeout). *)
From Coq Require Import List NArith ZArith Bool.
Import ListNotations.
Open Scope N_scope.

Definition fmap (A : Type) := N -> option A.
Definition fempty {A} : fmap A := fun _ => None.
Definition fset {A} (m : fmap A) (k : N) (v : A) : fmap A := fun x => if x =? k then Some v else m x.
Definition mem (x : N) (l : list N) : bool := existsb (N.eqb x) l.
Definition remove_c (c : N) (l : list N) : list N := filter (fun x => negb (x =? c)) l.

Inductive ost := ONew | ORunning | ODone.
Inductive usub := U1 | U2 | U3.
Inductive kpc := KPre | KRejected | KServing | KUnreg (u : usub) | KFin | KDone.
Record conn := { k_ok : bool; k_pc : kpc; k_last : N; k_once : ost; k_cnt : N; k_uncnt : N; k_closed : bool }.

Inductive apc := ALoop | AHave (c : N) | AFiltered (c : N) | ARegistered (c : N) | AExited.
Inductive rpc := RNotStarted | RIdle | RWork (T : N) (todo : list N) (u : option usub) | RExited.
Inductive spc := SCalled | SCancelled | SLClosed | SWork (snap todo : list N) (u : option usub)
               | SWaiting (snap : list N) | SRetOk (snap : list N) | SRetTimeout (snap : list N).

Record state := {
  maxc : Z; idle : N; now : N;
  conns : fmap conn; active : list N; count : Z;
  acc : apc; reaper : rpc; stops : fmap spc;
  cancelled : bool; lclosed : bool; wg : N;
  live : list N;      (* ghost: connections whose goroutine has been spawned and has not finished *)
  tickT : N }.        (* ghost: scan time of the last completed reaper tick *)

(* Listen: wg.Add(1) + reaper goroutine when IdleTimeout > 0; wg.Add(1) + accept loop *)
Definition init (mx : Z) (idl : N) : state :=
  {| maxc := mx; idle := idl; now := 0; conns := fempty; active := []; count := 0%Z; acc := ALoop;
     reaper := if idl =? 0 then RNotStarted else RIdle; stops := fempty; cancelled := false; lclosed := false;
     wg := if idl =? 0 then 1 else 2; live := []; tickT := 0 |}.

Inductive label :=
| Advance (d : N)
| Accept (c : N) (ok : bool) | Filter | Register | Spawn | AcceptExit
| Activity (c : N) | Exit (c : N) | UnregConn (c : N) | ConnDone (c : N)
| Tick | RClose | UnregReaper | RTickDone | ReaperExit
| StopCall (k : N) | StopCancel (k : N) | StopCloseL (k : N) | StopCollect (k : N) | StopClose (k : N)
| UnregStop (k : N) | StopCollected (k : N) | StopWait (k : N) | StopTimeout (k : N).

(* ---- setters ---- *)
Definition set_conn (s : state) (c : N) (k : conn) : state :=
  {| maxc := maxc s; idle := idle s; now := now s; conns := fset (conns s) c k; active := active s; count := count s;
     acc := acc s; reaper := reaper s; stops := stops s; cancelled := cancelled s; lclosed := lclosed s; wg := wg s;
     live := live s; tickT := tickT s |}.
Definition set_active (s : state) (l : list N) (n : Z) : state :=
  {| maxc := maxc s; idle := idle s; now := now s; conns := conns s; active := l; count := n;
     acc := acc s; reaper := reaper s; stops := stops s; cancelled := cancelled s; lclosed := lclosed s; wg := wg s;
     live := live s; tickT := tickT s |}.
Definition set_acc (s : state) (a : apc) : state :=
  {| maxc := maxc s; idle := idle s; now := now s; conns := conns s; active := active s; count := count s;
     acc := a; reaper := reaper s; stops := stops s; cancelled := cancelled s; lclosed := lclosed s; wg := wg s;
     live := live s; tickT := tickT s |}.
Definition set_reaper (s : state) (r : rpc) : state :=
  {| maxc := maxc s; idle := idle s; now := now s; conns := conns s; active := active s; count := count s;
     acc := acc s; reaper := r; stops := stops s; cancelled := cancelled s; lclosed := lclosed s; wg := wg s;
     live := live s; tickT := tickT s |}.
Definition set_stop (s : state) (k : N) (p : spc) : state :=
  {| maxc := maxc s; idle := idle s; now := now s; conns := conns s; active := active s; count := count s;
     acc := acc s; reaper := reaper s; stops := fset (stops s) k p; cancelled := cancelled s; lclosed := lclosed s;
     wg := wg s; live := live s; tickT := tickT s |}.
Definition set_flags (s : state) (c l : bool) : state :=
  {| maxc := maxc s; idle := idle s; now := now s; conns := conns s; active := active s; count := count s;
     acc := acc s; reaper := reaper s; stops := stops s; cancelled := c; lclosed := l; wg := wg s;
     live := live s; tickT := tickT s |}.
Definition set_wg (s : state) (w : N) (lv : list N) : state :=
  {| maxc := maxc s; idle := idle s; now := now s; conns := conns s; active := active s; count := count s;
     acc := acc s; reaper := reaper s; stops := stops s; cancelled := cancelled s; lclosed := lclosed s; wg := w;
     live := lv; tickT := tickT s |}.
Definition set_now (s : state) (t : N) : state :=
  {| maxc := maxc s; idle := idle s; now := t; conns := conns s; active := active s; count := count s;
     acc := acc s; reaper := reaper s; stops := stops s; cancelled := cancelled s; lclosed := lclosed s; wg := wg s;
     live := live s; tickT := tickT s |}.
Definition set_tickT (s : state) (t : N) : state :=
  {| maxc := maxc s; idle := idle s; now := now s; conns := conns s; active := active s; count := count s;
     acc := acc s; reaper := reaper s; stops := stops s; cancelled := cancelled s; lclosed := lclosed s; wg := wg s;
     live := live s; tickT := t |}.

Definition k_with_pc (k : conn) (p : kpc) : conn :=
  {| k_ok := k_ok k; k_pc := p; k_last := k_last k; k_once := k_once k; k_cnt := k_cnt k; k_uncnt := k_uncnt k;
     k_closed := k_closed k |}.
Definition k_close (k : conn) : conn :=
  {| k_ok := k_ok k; k_pc := k_pc k; k_last := k_last k; k_once := k_once k; k_cnt := k_cnt k; k_uncnt := k_uncnt k;
     k_closed := true |}.
Definition k_with_last (k : conn) (t : N) : conn :=
  {| k_ok := k_ok k; k_pc := k_pc k; k_last := t; k_once := k_once k; k_cnt := k_cnt k; k_uncnt := k_uncnt k;
     k_closed := k_closed k |}.
Definition k_with_once (k : conn) (o : ost) : conn :=
  {| k_ok := k_ok k; k_pc := k_pc k; k_last := k_last k; k_once := o; k_cnt := k_cnt k; k_uncnt := k_uncnt k;
     k_closed := k_closed k |}.
Definition k_registered (k : conn) (t : N) : conn :=
  {| k_ok := k_ok k; k_pc := k_pc k; k_last := t; k_once := k_once k; k_cnt := k_cnt k + 1; k_uncnt := k_uncnt k;
     k_closed := k_closed k |}.
Definition k_uncounted (k : conn) : conn :=
  {| k_ok := k_ok k; k_pc := k_pc k; k_last := k_last k; k_once := k_once k; k_cnt := k_cnt k; k_uncnt := k_uncnt k + 1;
     k_closed := k_closed k |}.
Definition new_conn (ok : bool) : conn :=
  {| k_ok := ok; k_pc := KPre; k_last := 0; k_once := ONew; k_cnt := 0; k_uncnt := 0; k_closed := false |}.

(* one sub-step of unregisterConnection(c); None = blocked (once.Do while another caller runs the body);
   Some (s', None) = the call returned; Some (s', Some u) = continue at u *)
Definition unreg_step (s : state) (c : N) (u : usub) : option (state * option usub) :=
  match conns s c with
  | None => None
  | Some k =>
    match u with
    | U1 => Some (s, if mem c (active s) then Some U2 else None)
    | U2 => match k_once k with
            | ONew => Some (set_conn s c (k_with_once k ORunning), Some U3)
            | ORunning => None
            | ODone => Some (s, None)
            end
    | U3 => if mem c (active s)
            then Some (set_active (set_conn s c (k_with_once (k_uncounted k) ODone)) (remove_c c (active s)) (count s - 1)%Z, None)
            else Some (set_conn s c (k_with_once k ODone), None)
    end
  end.

Definition close_conn (s : state) (c : N) : state :=
  match conns s c with Some k => set_conn s c (k_close k) | None => s end.

(* now.Sub(lastActivity) > idleTimeout *)
Definition is_idle (s : state) (c : N) : bool :=
  match conns s c with Some k => idle s <? now s - k_last k | None => false end.

Definition step (s : state) (l : label) : option state :=
  match l with
  | Advance d => Some (set_now s (now s + d))
  | Accept c ok =>
      match acc s, conns s c with
      | ALoop, None => if lclosed s then None else Some (set_acc (set_conn s c (new_conn ok)) (AHave c))
      | _, _ => None
      end
  | Filter =>
      match acc s with
      | AHave c => match conns s c with
                   | Some k => if k_ok k then Some (set_acc s (AFiltered c))
                               else Some (set_acc (set_conn s c (k_close (k_with_pc k KRejected))) ALoop)
                   | None => None
                   end
      | _ => None
      end
  | Register =>
      match acc s with
      | AFiltered c =>
          match conns s c with
          | Some k =>
              if ((0 <? maxc s) && (maxc s <=? count s))%Z
              then Some (set_acc (set_conn s c (k_close (k_with_pc k KRejected))) ALoop)
              else Some (set_acc (set_active (set_conn s c (k_registered k (now s))) (c :: active s) (count s + 1)%Z)
                           (ARegistered c))
          | None => None
          end
      | _ => None
      end
  | Spawn =>
      match acc s with
      | ARegistered c => match conns s c with
                         | Some k => Some (set_acc (set_wg (set_conn s c (k_with_pc k KServing)) (wg s + 1) (c :: live s)) ALoop)
                         | None => None
                         end
      | _ => None
      end
  | AcceptExit =>
      match acc s with
      | ALoop => if cancelled s || lclosed s then Some (set_wg (set_acc s AExited) (wg s - 1) (live s)) else None
      | _ => None
      end
  | Activity c =>
      match conns s c with
      | Some k => match k_pc k with
                  | KServing => if mem c (active s) then Some (set_conn s c (k_with_last k (now s))) else Some s
                  | _ => None
                  end
      | None => None
      end
  | Exit c =>
      match conns s c with
      | Some k => match k_pc k with
                  | KServing => Some (set_conn s c (k_close (k_with_pc k (KUnreg U1))))
                  | _ => None
                  end
      | None => None
      end
  | UnregConn c =>
      match conns s c with
      | Some k => match k_pc k with
                  | KUnreg u =>
                      match unreg_step s c u with
                      | Some (s1, nu) =>
                          match conns s1 c with
                          | Some k1 => Some (set_conn s1 c (k_with_pc k1 (match nu with Some u' => KUnreg u' | None => KFin end)))
                          | None => None
                          end
                      | None => None
                      end
                  | _ => None
                  end
      | None => None
      end
  | ConnDone c =>
      match conns s c with
      | Some k => match k_pc k with
                  | KFin => Some (set_wg (set_conn s c (k_with_pc k KDone)) (wg s - 1) (remove_c c (live s)))
                  | _ => None
                  end
      | None => None
      end
  | Tick =>
      match reaper s with
      | RIdle => if idle s =? 0 then None
                 else Some (set_reaper s (RWork (now s) (filter (is_idle s) (active s)) None))
      | _ => None
      end
  | RClose =>
      match reaper s with
      | RWork T (c :: todo) None => Some (set_reaper (close_conn s c) (RWork T (c :: todo) (Some U1)))
      | _ => None
      end
  | UnregReaper =>
      match reaper s with
      | RWork T (c :: todo) (Some u) =>
          match unreg_step s c u with
          | Some (s1, Some u') => Some (set_reaper s1 (RWork T (c :: todo) (Some u')))
          | Some (s1, None) => Some (set_reaper s1 (RWork T todo None))
          | None => None
          end
      | _ => None
      end
  | RTickDone =>
      match reaper s with
      | RWork T [] None => Some (set_tickT (set_reaper s RIdle) T)
      | _ => None
      end
  | ReaperExit =>
      match reaper s with
      | RIdle => if cancelled s then Some (set_wg (set_reaper s RExited) (wg s - 1) (live s)) else None
      | _ => None
      end
  | StopCall k => match stops s k with None => Some (set_stop s k SCalled) | Some _ => None end
  | StopCancel k =>
      match stops s k with Some SCalled => Some (set_flags (set_stop s k SCancelled) true (lclosed s)) | _ => None end
  | StopCloseL k =>
      match stops s k with Some SCancelled => Some (set_flags (set_stop s k SLClosed) (cancelled s) true) | _ => None end
  | StopCollect k =>
      match stops s k with Some SLClosed => Some (set_stop s k (SWork (active s) (active s) None)) | _ => None end
  | StopClose k =>
      match stops s k with
      | Some (SWork sn (c :: todo) None) => Some (set_stop (close_conn s c) k (SWork sn (c :: todo) (Some U1)))
      | _ => None
      end
  | UnregStop k =>
      match stops s k with
      | Some (SWork sn (c :: todo) (Some u)) =>
          match unreg_step s c u with
          | Some (s1, Some u') => Some (set_stop s1 k (SWork sn (c :: todo) (Some u')))
          | Some (s1, None) => Some (set_stop s1 k (SWork sn todo None))
          | None => None
          end
      | _ => None
      end
  | StopCollected k =>
      match stops s k with Some (SWork sn [] None) => Some (set_stop s k (SWaiting sn)) | _ => None end
  | StopWait k =>
      match stops s k with
      | Some (SWaiting sn) => if wg s =? 0 then Some (set_stop s k (SRetOk sn)) else None
      | _ => None
      end
  | StopTimeout k =>
      match stops s k with Some (SWaiting sn) => Some (set_stop s k (SRetTimeout sn)) | _ => None end
  end.

Fixpoint run (s : state) (tr : list label) : option state :=
  match tr with
  | [] => Some s
  | l :: r => match step s l with Some s' => run s' r | None => None end
  end.

(* goroutines of the server: accept loop, reaper, connection goroutines *)
Definition acc_live (s : state) : bool := match acc s with AExited => false | _ => true end.
Definition reaper_live (s : state) : bool := match reaper s with RNotStarted | RExited => false | _ => true end.
Definition k_live (k : conn) : bool := match k_pc k with KServing | KUnreg _ | KFin => true | _ => false end.

(* ---------- Close / Unexport on AbsfsNFS (sequential) ---------- *)
Record nfs := { n_server : bool;          (* exportServer != nil (a running Server created by Export) *)
                n_pool : bool;            (* worker pool running *)
                n_handles : list N;       (* fileMap.handles *)
                n_attr : list N;          (* attrCache entries (positive and negative) *)
                n_dir : list N }.         (* dirCache entries (empty when the dir cache is disabled) *)
Inductive nop := NExport | NHandle (h : N) | NAttr (p : N) | NDir (p : N) | NClose | NUnexport.
(* Close: exportServer.Stop(); exportServer = nil; workerPool.Stop(); fileMap.ReleaseAll(); attrCache.Clear(); dirCache.Clear() *)
Definition nfs_close (n : nfs) : nfs :=
  {| n_server := false; n_pool := false; n_handles := []; n_attr := []; n_dir := [] |}.
(* Unexport: exportServer.Stop(); exportServer = nil; fileMap.ReleaseAll(); attrCache.Clear(); dirCache.Clear() *)
Definition nfs_unexport (n : nfs) : nfs :=
  {| n_server := false; n_pool := n_pool n; n_handles := []; n_attr := []; n_dir := [] |}.
Definition nfs_apply (n : nfs) (o : nop) : nfs :=
  match o with
  | NExport => {| n_server := true; n_pool := n_pool n; n_handles := n_handles n; n_attr := n_attr n; n_dir := n_dir n |}
  | NHandle h => {| n_server := n_server n; n_pool := n_pool n; n_handles := h :: n_handles n; n_attr := n_attr n; n_dir := n_dir n |}
  | NAttr p => {| n_server := n_server n; n_pool := n_pool n; n_handles := n_handles n; n_attr := p :: n_attr n; n_dir := n_dir n |}
  | NDir p => {| n_server := n_server n; n_pool := n_pool n; n_handles := n_handles n; n_attr := n_attr n; n_dir := p :: n_dir n |}
  | NClose => nfs_close n
  | NUnexport => nfs_unexport n
  end.
Definition nfs_init : nfs := {| n_server := false; n_pool := true; n_handles := []; n_attr := []; n_dir := [] |}.
