(* Model/Conn.v — executable model of one record-marking connection of the server (server.go:
   handleConnectionWithRecordMarking -> handleConnectionLoop over recordMarkingConnIO).  No proofs here
   (Proofs/ConnServeProofs.v).  Built on the codec models of C13: RecordMark.read_record (with its bounds and
   allocation trace), Rpc.dec_call, RecordMark.write_record.

   WHAT THE GO LOOP DOES (current /repo), iteration by iteration, and how it is rendered here
     conn.SetReadDeadline(now + 30 s)            not modelled: the stream [s] is everything the client sends before it
                                                 half-closes / the deadline fires (timing is C17's subject)
     data, err := rmConn.ReadRecord()            [read_record reader_default_max] (NewRecordMarkingConn installs the
                                                 default limit DefaultMaxRecordSize):
        - no byte left (io.EOF on the header)          -> return, conn.Close()        [Closed CEof]
        - 1..3 header bytes, or fewer fragment bytes
          than the header announced (ErrUnexpectedEOF;
          also EOF between two fragments of a record)  -> return, conn.Close()        [Closed (CRead EShort)]
          (the reader BLOCKS until the bytes arrive or the client's EOF / the deadline: [close_waits])
        - accumulated + declared fragment length
          > 1 MiB (checked BEFORE the buffer is made)  -> return, conn.Close()        [Closed (CRead ELimit)]
        - zero-length fragments are legal, also non-final ones; an empty RECORD (only empty fragments, last bit
          set) is returned as 0 bytes and then fails to decode (next line)
     call, err := DecodeRPCCall(bytes.NewReader(data))   [dec_call] on the record only, never on the stream:
        - record shorter than the call header (incl.
          the empty record)                            -> return, conn.Close()        [Closed (CDecode EShort)]
        - msg_type <> CALL (e.g. a REPLY)              -> return, conn.Close()        [Closed (CDecode EMsgType)]
        - credential / verifier length > 400           -> return, conn.Close()        [Closed (CDecode ELimit)]
        - rpcvers is NOT checked here; bytes of the record behind the verifier are the procedure arguments
          (body = data[len(data)-reader.Len():]), whatever they are
     auth context, rate limiter, HandleCall (worker pool or direct), i.e. everything between ReadCall and
     WriteReply, is the DISPATCHER PARAMETER [d : St -> call -> bytes -> St * option bytes]:
        - a rate-limited call is answered by the loop itself (MSG_DENIED reply carrying call.Header) and the loop
          continues; an authentication failure, an unknown program, GARBAGE_ARGS ... are replies built by
          HandleCall from call.Header: all of them are [Some reply_bytes]
        - HandleCall returns an error only when the per-request timeout fires: no reply is written,
          return, conn.Close()                                                        [None -> Closed CHandler]
        - [St] is whatever server state the replies depend on (file system, caches, limiter tokens, ...): the
          theorems hold for every state type, every initial state and every function d
     cio.WriteReply(reply)                       EncodeRPCReply into a buffer, WriteRecord with the default maximum
                                                 fragment size: [wire_out].  A write error (peer reset / stopped
                                                 reading for 30 s) ends the loop: return, conn.Close().  Not modelled:
                                                 the client is assumed to read what it is sent.
     then the next iteration on the rest of the stream: one reply per call, strictly sequential (the next record
     is not read before the reply of the previous call has been written).

   INTERFACE
     event            [Replied xid bytes] (xid = the decoded call's XID, bytes = the record payload written, i.e.
                      EncodeRPCReply's output) / [Closed reason] (always the last event, exactly one)
     serve_conn d st s   the list of (event, allocation trace of decoding that message: ReadRecord's trace followed by
                      DecodeRPCCall's) in order
     events / traces / replies / close_reason_of   projections
     wire_out         the bytes the server writes on the connection
     close_waits r    the reader was blocked waiting for more bytes when the connection ended: the close happens
                      only at the client's EOF (or the read deadline); every other reason closes at once
     split_calls s    the decodable prefix of the stream: the calls (header, argument bytes) in arrival order and
                      the reason why decoding stopped (the codec models used as an oracle; no dispatcher) *)
From Coq Require Import List NArith ZArith Bool.
From Verif Require Import Gen.Facts Model.Bytes Model.Xdr Model.Rpc Model.RecordMark.
Import ListNotations.
Open Scope N_scope.

Inductive close_reason :=
| CEof                 (* the stream ended at a record boundary *)
| CRead (e : err)      (* ReadRecord failed *)
| CDecode (e : err)    (* the record is complete but DecodeRPCCall failed *)
| CHandler.            (* HandleCall returned an error (timeout): no reply *)

Inductive event :=
| Replied (xid : N) (payload : bytes)
| Closed (r : close_reason).

Definition dispatcher (St : Type) := St -> call -> bytes -> St * option bytes.

Definition conn_result := list (event * list ev).

(* the limit every server connection reads with / the fragment size it writes with *)
Definition conn_max : Z := reader_default_max.
Definition conn_frag : Z := writer_default_frag.

(* the loop `for { ... }`; every completed iteration consumes at least the 4 bytes of a fragment header,
   fuel = stream length + 1 is never exhausted (Proofs/ConnServeProofs.v: sc_no_fuel) *)
Fixpoint sc {St} (fuel : nat) (d : dispatcher St) (st : St) (s : bytes) : conn_result :=
  match fuel with
  | O => [(Closed (CRead EFuel), [])]
  | S f =>
    match read_record conn_max s with
    | (Err e, _, t) => [(Closed (if len s =? 0 then CEof else CRead e), t)]
    | (Ok data, s1, t) =>
      match dec_call data with
      | (Err e, _, t2) => [(Closed (CDecode e), t ++ t2)]
      | (Ok c, body, t2) =>
        match d st c body with
        | (_, None) => [(Closed CHandler, t ++ t2)]
        | (st', Some rb) => (Replied (c_xid c) rb, t ++ t2) :: sc f d st' s1
        end
      end
    end
  end.

Definition serve_conn {St} (d : dispatcher St) (st : St) (s : bytes) : conn_result :=
  sc (S (length s)) d st s.

Definition events (r : conn_result) : list event := map fst r.
Definition traces (r : conn_result) : list (list ev) := map snd r.

Fixpoint replies (l : list event) : list (N * bytes) :=
  match l with
  | [] => []
  | Replied x b :: r => (x, b) :: replies r
  | Closed _ :: r => replies r
  end.

Definition close_reason_of (l : list event) : option close_reason :=
  match last l (Replied 0 []) with Closed r => Some r | Replied _ _ => None end.

Definition wire_out (l : list event) : bytes :=
  concat (map (fun xb => write_record conn_frag (snd xb)) (replies l)).

Definition close_waits (r : close_reason) : bool :=
  match r with
  | CEof => true
  | CRead EShort => true
  | _ => false
  end.

(* ---- the decodable prefix of a stream (oracle side: codecs only) ---- *)
Fixpoint split_calls_rec (fuel : nat) (s : bytes) : list (call * bytes) * close_reason :=
  match fuel with
  | O => ([], CRead EFuel)
  | S f =>
    match read_record conn_max s with
    | (Err e, _, _) => ([], if len s =? 0 then CEof else CRead e)
    | (Ok data, s1, _) =>
      match dec_call data with
      | (Err e, _, _) => ([], CDecode e)
      | (Ok c, body, _) => let (cs, r) := split_calls_rec f s1 in ((c, body) :: cs, r)
      end
    end
  end.
Definition split_calls (s : bytes) : list (call * bytes) * close_reason := split_calls_rec (S (length s)) s.

(* the replies a dispatcher gives to a list of calls, threading its state, up to the first call it fails on *)
Fixpoint answer {St} (d : dispatcher St) (st : St) (cs : list (call * bytes)) : list (N * bytes) * bool :=
  match cs with
  | [] => ([], true)
  | (c, body) :: r =>
    match d st c body with
    | (_, None) => ([], false)
    | (st', Some rb) => let (l, ok) := answer d st' r in ((c_xid c, rb) :: l, ok)
    end
  end.

(* a dispatcher "echoes the XID" when every reply payload starts with the call's XID *)
Definition echoes_xid {St} (d : dispatcher St) : Prop :=
  forall st c body st' rb, d st c body = (st', Some rb) -> take 4 rb = enc_u32 (c_xid c).

(* the shape of the real dispatcher: a reply structure built from the call's header (HandleCall and the rate-limit
   branch both start from `Header: call.Header`), encoded by EncodeRPCReply *)
Definition encoding_dispatcher {St} (h : St -> call -> bytes -> St * option reply) : dispatcher St :=
  fun st c body => match h st c body with (st', Some r) => (st', Some (enc_reply r)) | (st', None) => (st', None) end.

(* ---- decoders of procedure arguments the handlers run on [body] (for the allocation statement) ---- *)
Definition dec_getattr_args : dec N := dec_fh.                                              (* GETATTR3args etc. *)
Definition dec_dirop_args : dec (N * bytes) :=                                              (* LOOKUP/REMOVE/... *)
  bind dec_fh (fun h => bind dec_string (fun nm => ret (h, nm))).
Definition dec_mnt_args : dec bytes := dec_string.                                          (* MOUNT3 MNT dirpath *)
