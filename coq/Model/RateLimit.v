(* Model/RateLimit.v — executable model of RateLimiter, PerIPLimiter, PerOperationLimiter (rate_limiter.go).
   No proofs here.

   Go -> Gallina
     rl.globalLimiter                               bucket under key KGlobal   (created by NewRateLimiter)
     rl.perIPLimiter.limiters[ip]                   bucket under key KIP ip    (created on first use)
     rl.perConnectionLimiter (sync.Map)[connID]     bucket under key KConn c   (created on first use, deleted by
                                                                                CleanupConnection)
     rl.perOperationLimiter.limiters[ip][opType]    bucket under key KOp ip op (created on first use)
     the four maps                                  ONE association list keyed by the disjoint sum [key]
     perIPLimiter.lastCleanup / perOperationLimiter.lastCleanup      lc_ip / lc_op
     RateLimiterConfig                              [config]; the fields that feed each limiter, the per-operation
                                                    bursts, the mount divisor and the ORDER of the limiter calls in
                                                    AllowRequest are read from Gen/Facts.v (astfacts), not restated
     PerIPLimiter.cleanup: ranges over a Go map and stops after 100 deletions, so WHICH full buckets go is not
       determined: the model deletes the full buckets selected by an arbitrary [sel] (the theorems quantify over it;
       with at most 100 addresses, as in the correspondence runs, Go deletes every full bucket: sel = all)
     time.Since(lastCleanup) > cleanupInterval      [trig] of the environment; [env_go] is the Go trigger [due];
                                                    the theorems hold for any trigger
     locks, sync.Map atomicity                      not modelled: requests are processed one at a time
     SlidingWindow, file-handle counters            not used by any request path (not modelled)            *)
From Coq Require Import List QArith ZArith NArith Bool String.
From Verif Require Import Gen.Facts Model.TokenBucket.
Import ListNotations.
Open Scope Q_scope.

Inductive optype : Set := ReadLarge | WriteLarge | Readdir | Mount.
Inductive key : Set := KGlobal | KIP (ip : N) | KConn (c : N) | KOp (ip : N) (op : optype).

Definition optype_eqb (a b : optype) : bool :=
  match a, b with
  | ReadLarge, ReadLarge | WriteLarge, WriteLarge | Readdir, Readdir | Mount, Mount => true
  | _, _ => false
  end.
Definition key_eqb (a b : key) : bool :=
  match a, b with
  | KGlobal, KGlobal => true
  | KIP x, KIP y => N.eqb x y
  | KConn x, KConn y => N.eqb x y
  | KOp x o, KOp y p => N.eqb x y && optype_eqb o p
  | _, _ => false
  end.

(* ---- configuration ---- *)
(* RateLimiterConfig (the int fields that reach a limiter; CleanupInterval in nanoseconds) *)
Record config := {
  GlobalRequestsPerSecond : Z;
  PerIPRequestsPerSecond : Z; PerIPBurstSize : Z;
  PerConnectionRequestsPerSecond : Z; PerConnectionBurstSize : Z;
  ReadLargeOpsPerSecond : Z; WriteLargeOpsPerSecond : Z; ReaddirOpsPerSecond : Z;
  MountOpsPerMinute : Z;
  CleanupInterval : Z }.

(* field access by the Go field name astfacts reports *)
Definition cfg_field (c : config) (name : string) : Z :=
  if String.eqb name "GlobalRequestsPerSecond" then GlobalRequestsPerSecond c
  else if String.eqb name "PerIPRequestsPerSecond" then PerIPRequestsPerSecond c
  else if String.eqb name "PerIPBurstSize" then PerIPBurstSize c
  else if String.eqb name "PerConnectionRequestsPerSecond" then PerConnectionRequestsPerSecond c
  else if String.eqb name "PerConnectionBurstSize" then PerConnectionBurstSize c
  else if String.eqb name "ReadLargeOpsPerSecond" then ReadLargeOpsPerSecond c
  else if String.eqb name "WriteLargeOpsPerSecond" then WriteLargeOpsPerSecond c
  else if String.eqb name "ReaddirOpsPerSecond" then ReaddirOpsPerSecond c
  else if String.eqb name "MountOpsPerMinute" then MountOpsPerMinute c
  else if String.eqb name "CleanupInterval" then CleanupInterval c
  else 0%Z.

(* what every bucket is created with, and the two cleanup intervals (seconds) *)
Record limits := {
  rate_of : key -> Q;
  burst_of : key -> Q;
  conn_on : bool;            (* rl.config.PerConnectionRequestsPerSecond > 0 *)
  interval_ip : Q;
  interval_op : Q }.

Definition fieldQ (c : config) (name : string) : Q := inject_Z (cfg_field c name).
Definition nth_field (l : list string) (i : nat) : string := nth i l EmptyString.
Definition ns_to_s (ns : Z) : Q := Qred (Qmake ns 1000000000).

(* float64(config.<field>) / <divisor> *)
Definition op_rate (c : config) (fd : string * Z) : Q := Qred (fieldQ c (fst fd) / inject_Z (snd fd)).

Definition limits_of (c : config) : limits := {|
  rate_of := fun k =>
    match k with
    | KGlobal => fieldQ c (nth_field rl_global_fields 0)
    | KIP _ => fieldQ c (nth_field rl_perip_fields 0)
    | KConn _ => fieldQ c (nth_field rl_conn_fields 0)
    | KOp _ ReadLarge => op_rate c rl_op_rate_read_large
    | KOp _ WriteLarge => op_rate c rl_op_rate_write_large
    | KOp _ Readdir => op_rate c rl_op_rate_readdir
    | KOp _ Mount => op_rate c rl_op_rate_mount
    end;
  burst_of := fun k =>
    match k with
    | KGlobal => fieldQ c (nth_field rl_global_fields 1)
    | KIP _ => fieldQ c (nth_field rl_perip_fields 1)
    | KConn _ => fieldQ c (nth_field rl_conn_fields 1)
    | KOp _ ReadLarge => inject_Z rl_op_burst_read_large
    | KOp _ WriteLarge => inject_Z rl_op_burst_write_large
    | KOp _ Readdir => inject_Z rl_op_burst_readdir
    | KOp _ Mount => inject_Z rl_op_burst_mount
    end;
  conn_on := (0 <? cfg_field c rl_conn_guard_field)%Z;
  interval_ip := ns_to_s (cfg_field c (nth_field rl_perip_fields 2));
  interval_op := ns_to_s (cfg_field c rl_op_cleanup_field) |}.

(* ---- state ---- *)
Record rl := { buckets : list (key * tb); lc_ip : Q; lc_op : Q }.

Fixpoint find (k : key) (m : list (key * tb)) : option tb :=
  match m with [] => None | (k', b) :: r => if key_eqb k k' then Some b else find k r end.
Fixpoint upd (k : key) (b : tb) (m : list (key * tb)) : list (key * tb) :=
  match m with
  | [] => [(k, b)]
  | (k', b') :: r => if key_eqb k k' then (k, b) :: r else (k', b') :: upd k b r
  end.
Definition remove (k : key) (m : list (key * tb)) : list (key * tb) :=
  filter (fun e => negb (key_eqb k (fst e))) m.

(* NewRateLimiter at virtual time t0 *)
Definition init (lim : limits) (t0 : Q) : rl :=
  {| buckets := [(KGlobal, mk (rate_of lim KGlobal) (burst_of lim KGlobal) t0)]; lc_ip := t0; lc_op := t0 |}.

(* ---- cleanup passes ---- *)
(* the idle condition of both cleanup functions:  limiter.Tokens() >= float64(burst)  *)
Definition full (lim : limits) (k : key) (b : tb) (now : Q) : bool := Qle_bool (burst_of lim k) (tokens_at b now).

(* PerIPLimiter.cleanup: full buckets are deleted (those the map iteration reaches before the cap: [sel]) *)
Definition cleanup_ip (lim : limits) (sel : N -> bool) (now : Q) (m : list (key * tb)) : list (key * tb) :=
  filter (fun e => match fst e with
                   | KIP ip => negb (full lim (fst e) (snd e) now && sel ip)
                   | _ => true end) m.

(* PerOperationLimiter.cleanup: an address is deleted when all of its operation buckets are full *)
Definition all_full (lim : limits) (ip : N) (now : Q) (m : list (key * tb)) : bool :=
  forallb (fun e => match fst e with
                    | KOp ip' _ => if N.eqb ip' ip then full lim (fst e) (snd e) now else true
                    | _ => true end) m.
Definition cleanup_op (lim : limits) (now : Q) (m : list (key * tb)) : list (key * tb) :=
  filter (fun e => match fst e with
                   | KOp ip _ => negb (all_full lim ip now m)
                   | _ => true end) m.

(* when a pass runs ([trig], given the step number, the limiter consulted, now and lastCleanup) and which full
   per-IP buckets the pass reaches ([sel]) *)
Record env := { trig : nat -> key -> Q -> Q -> bool; sel : nat -> N -> bool }.
(* the Go trigger:  time.Since(lastCleanup) > cleanupInterval *)
Definition due (iv now lastc : Q) : bool := negb (Qle_bool (now - lastc) iv).
Definition env_go (lim : limits) (sel : nat -> N -> bool) : env :=
  {| trig := fun _ k now lastc =>
               match k with
               | KIP _ => due (interval_ip lim) now lastc
               | KOp _ _ => due (interval_op lim) now lastc
               | _ => false
               end;
     sel := sel |}.
Definition env_none : env := {| trig := fun _ _ _ _ => false; sel := fun _ _ => true |}.

(* the cleanup check at the head of PerIPLimiter.Allow / PerOperationLimiter.Allow *)
Definition pre_cleanup (e : env) (lim : limits) (i : nat) (st : rl) (k : key) (now : Q) : rl :=
  match k with
  | KIP _ =>
      if trig e i k now (lc_ip st)
      then {| buckets := cleanup_ip lim (sel e i) now (buckets st); lc_ip := now; lc_op := lc_op st |}
      else st
  | KOp _ _ =>
      if trig e i k now (lc_op st)
      then {| buckets := cleanup_op lim now (buckets st); lc_ip := lc_ip st; lc_op := now |}
      else st
  | _ => st
  end.

(* one limiter consulted for one request: PerIPLimiter.Allow / PerOperationLimiter.Allow /
   the Load-or-create-then-Allow of the per-connection stage / globalLimiter.Allow *)
Definition consult (e : env) (lim : limits) (i : nat) (st : rl) (k : key) (now : Q) : bool * rl :=
  let st1 := pre_cleanup e lim i st k now in
  let b := match find k (buckets st1) with
           | Some b => b
           | None => mk (rate_of lim k) (burst_of lim k) now
           end in
  let '(a, b') := allow b now in
  (a, {| buckets := upd k b' (buckets st1); lc_ip := lc_ip st1; lc_op := lc_op st1 |}).

(* limiters consulted in order; the first refusal returns false at once *)
Fixpoint consult_seq (e : env) (lim : limits) (i : nat) (st : rl) (ks : list key) (now : Q)
  : list (key * bool) * rl :=
  match ks with
  | [] => ([], st)
  | k :: r =>
      let '(a, st1) := consult e lim i st k now in
      if a then let '(tr, st2) := consult_seq e lim i st1 r now in ((k, true) :: tr, st2)
      else ([(k, false)], st1)
  end.

Inductive event : Set :=
| Req (ip conn : N)            (* RateLimiter.AllowRequest(ip, connID) *)
| Op (ip : N) (op : optype)    (* RateLimiter.AllowOperation(ip, opType) *)
| Close (conn : N).            (* RateLimiter.CleanupConnection(connID) *)

Definition keys_of_limiter (lim : limits) (ip conn : N) (l : rl_limiter) : list key :=
  match l with
  | RL_Global => [KGlobal]
  | RL_PerIP => [KIP ip]
  | RL_PerConn => if conn_on lim then [KConn conn] else []
  end.
(* the buckets a request consults, in order ([ord] = Facts.allow_request_order for the real RateLimiter) *)
Definition keys_of (lim : limits) (ord : list rl_limiter) (ev : event) : list key :=
  match ev with
  | Req ip c => flat_map (keys_of_limiter lim ip c) ord
  | Op ip op => [KOp ip op]
  | Close _ => []
  end.

(* result of a step: the consultations made (bucket, its decision) and the new state *)
Definition step (e : env) (lim : limits) (ord : list rl_limiter) (i : nat) (st : rl)
           (now : Q) (ev : event) : list (key * bool) * rl :=
  match ev with
  | Close c => ([], {| buckets := remove (KConn c) (buckets st); lc_ip := lc_ip st; lc_op := lc_op st |})
  | _ => consult_seq e lim i st (keys_of lim ord ev) now
  end.

(* the request is admitted iff no consulted limiter refused *)
Definition admitted (tr : list (key * bool)) : bool := forallb snd tr.

Fixpoint run_from (e : env) (lim : limits) (ord : list rl_limiter) (i : nat) (st : rl)
         (evs : list (Q * event)) : list (list (key * bool)) * rl :=
  match evs with
  | [] => ([], st)
  | (now, ev) :: r =>
      let '(tr, st1) := step e lim ord i st now ev in
      let '(trs, st2) := run_from e lim ord (S i) st1 r in (tr :: trs, st2)
  end.

(* a RateLimiter created at t0 and driven by timed events; e = env_go lim sel is the Go code,
   e = env_none is the same limiter with the cleanup passes removed *)
Definition run (e : env) (lim : limits) (ord : list rl_limiter) (t0 : Q) (evs : list (Q * event)) :=
  run_from e lim ord O (init lim t0) evs.

Definition decisions (trs : list (list (key * bool))) : list bool := map admitted trs.

Fixpoint times_sorted (t0 : Q) (evs : list (Q * event)) : Prop :=
  match evs with [] => True | (t, _) :: r => t0 <= t /\ times_sorted t r end.

(* ---- observables used by statements and by the correspondence ---- *)
(* the token level of limiter k at time now: what Tokens() would return; a bucket that does not exist
   (never used, or deleted by a cleanup pass) is created full on its next use *)
Definition level (lim : limits) (m : list (key * tb)) (k : key) (now : Q) : Q :=
  match find k m with Some b => tokens_at b now | None => burst_of lim k end.

(* time of the last event (t0 when there is none) *)
Fixpoint end_time (t0 : Q) (evs : list (Q * event)) : Q :=
  match evs with [] => t0 | (t, _) :: r => end_time t r end.

(* ---- accounting used by the C18 statement ----
   For every limiter: when it was created (first consulted; NewRateLimiter for the global one; a per-connection
   limiter starts afresh after CleanupConnection) and how many requests were admitted since.  A cleanup pass does
   not restart the account: the bound is stated against the FIRST creation, which is the stronger claim.
   final = false counts the requests the limiter itself admitted, final = true those admitted by the whole chain. *)
Record entry := { created : Q; count : Z }.
Definition ledger := list (key * entry).
Fixpoint lfind (k : key) (g : ledger) : option entry :=
  match g with [] => None | (k', v) :: r => if key_eqb k k' then Some v else lfind k r end.
Definition lremove (k : key) (g : ledger) : ledger := filter (fun e => negb (key_eqb k (fst e))) g.
Definition lset (k : key) (v : entry) (g : ledger) : ledger := (k, v) :: lremove k g.

Definition ledger_consult (final fin : bool) (now : Q) (g : ledger) (ka : key * bool) : ledger :=
  let en := match lfind (fst ka) g with Some en => en | None => {| created := now; count := 0 |} end in
  lset (fst ka) {| created := created en;
                   count := (count en + if (if final then fin else snd ka) then 1 else 0)%Z |} g.
Definition ledger_step (final : bool) (now : Q) (ev : event) (tr : list (key * bool)) (g : ledger) : ledger :=
  match ev with
  | Close c => lremove (KConn c) g
  | _ => fold_left (ledger_consult final (admitted tr) now) tr g
  end.
Fixpoint ledger_run (final : bool) (evs : list (Q * event)) (trs : list (list (key * bool))) (g : ledger) : ledger :=
  match evs, trs with
  | (now, ev) :: r, tr :: trs' => ledger_run final r trs' (ledger_step final now ev tr g)
  | _, _ => g
  end.
Definition ledger_init (t0 : Q) : ledger := [(KGlobal, {| created := t0; count := 0 |})].

(* ---- vocabulary of the C19 statements ---- *)
(* the global limiter is consulted last, and only once *)
Definition is_global (l : rl_limiter) : bool := match l with RL_Global => true | _ => false end.
Definition global_last (ord : list rl_limiter) : bool :=
  match rev ord with
  | RL_Global :: r => negb (existsb is_global r)
  | _ => false
  end.
(* the times of the AllowRequest calls that were admitted *)
Fixpoint admitted_req_times (evs : list (Q * event)) (trs : list (list (key * bool))) : list Q :=
  match evs, trs with
  | (t, Req _ _) :: r, tr :: trs' =>
      if admitted tr then t :: admitted_req_times r trs' else admitted_req_times r trs'
  | _ :: r, _ :: trs' => admitted_req_times r trs'
  | _, _ => []
  end.

(* a client's own limits, over a whole history: the reference bucket of an address fed with ALL AllowRequest calls of
   that address (admitted or not), and of a connection id fed with all calls on it since its last CleanupConnection;
   the flag says whether the reference bucket admitted every one of them: "the client stayed within its limit" *)
Fixpoint ref_ip (ip : N) (ok : bool) (R : tb) (evs : list (Q * event)) : bool * tb :=
  match evs with
  | [] => (ok, R)
  | (t, Req ip' _) :: r =>
      if N.eqb ip' ip then let '(a, R1) := allow R t in ref_ip ip (ok && a) R1 r else ref_ip ip ok R r
  | _ :: r => ref_ip ip ok R r
  end.
Fixpoint ref_conn (lim : limits) (c : N) (ok : bool) (R : tb) (evs : list (Q * event)) : bool * tb :=
  match evs with
  | [] => (ok, R)
  | (t, Req _ c') :: r =>
      if N.eqb c' c then let '(a, R1) := allow R t in ref_conn lim c (ok && a) R1 r else ref_conn lim c ok R r
  | (t, Close c') :: r =>
      if N.eqb c' c then ref_conn lim c true (mk (rate_of lim (KConn c)) (burst_of lim (KConn c)) t) r
      else ref_conn lim c ok R r
  | _ :: r => ref_conn lim c ok R r
  end.
