(* Model/Backend.v — the specification of the environment: a POSIX-like tree with sparse file bytes,
   volatile/durable file contents, errno results.  This is a Gallina DEFINITION of what an absfs
   backend does (not an axiom about the Go code); its Go twin is harness/specfs, compared with it on
   every correspondence run through the tree dump.

   Representation: a FLAT map from canonical paths (lists of names, root = []) to objects.  The
   well-formedness invariant (every non-root entry's parent is a directory entry, no duplicates)
   is stated in Proofs/BackendProofs.v and preserved by every operation. *)
From Coq Require Import List NArith ZArith Bool.
Import ListNotations.
Open Scope N_scope.

Definition name := list N.          (* bytes *)
Definition path := list name.       (* canonical: no ".", "..", empty components; root = [] *)

Fixpoint bytes_eqb (a b : list N) : bool :=
  match a, b with
  | [], [] => true
  | x :: a', y :: b' => (x =? y) && bytes_eqb a' b'
  | _, _ => false
  end.
Fixpoint path_eqb (a b : path) : bool :=
  match a, b with
  | [], [] => true
  | x :: a', y :: b' => bytes_eqb x y && path_eqb a' b'
  | _, _ => false
  end.
Fixpoint is_prefix (a b : path) : bool :=     (* a is a (non-strict) prefix of b *)
  match a, b with
  | [], _ => true
  | x :: a', y :: b' => bytes_eqb x y && is_prefix a' b'
  | _ :: _, [] => false
  end.

Inductive kind := KFile | KDir | KLink.
Definition kind_eqb (a b : kind) : bool :=
  match a, b with KFile, KFile | KDir, KDir | KLink, KLink => true | _, _ => false end.

Inductive errno := ENOENT | EEXIST | ENOTDIR | EISDIR | ENOTEMPTY | EINVAL | ELOOP | EIO | EBADF | EFBIG | EFUEL.

(* sparse file contents: the non-zero bytes, as an association list offset -> byte *)
Definition sdata := list (N * N).
Definition sd_get (d : sdata) (off : N) : N :=
  match find (fun e => fst e =? off) d with Some e => snd e | None => 0 end.
Definition sd_del (d : sdata) (off : N) : sdata := filter (fun e => negb (fst e =? off)) d.
Definition sd_set (d : sdata) (off b : N) : sdata :=
  if b =? 0 then sd_del d off else (off, b) :: sd_del d off.
Fixpoint sd_write (d : sdata) (off : N) (bs : list N) : sdata :=
  match bs with [] => d | b :: r => sd_write (sd_set d off b) (off + 1) r end.
Definition sd_trunc (d : sdata) (size : N) : sdata := filter (fun e => fst e <? size) d.
(* n bytes starting at off, as a list (n is small: a transfer size) *)
Fixpoint sd_read (d : sdata) (off : N) (n : nat) : list N :=
  match n with O => [] | S k => sd_get d off :: sd_read d (off + 1) k end.

Record obj := {
  o_kind : kind; o_perm : N; o_uid : N; o_gid : N; o_mtime : N;
  o_size : N; o_data : sdata;          (* volatile (current) contents of a file *)
  o_dsize : N; o_ddata : sdata;        (* durable contents: what survives a crash *)
  o_target : list N                    (* symlink target bytes *)
}.
Definition dir_size : N := 4096.
Definition mk_dir (perm now : N) : obj :=
  {| o_kind := KDir; o_perm := perm; o_uid := 0; o_gid := 0; o_mtime := now;
     o_size := 0; o_data := []; o_dsize := 0; o_ddata := []; o_target := [] |}.
Definition mk_file (perm now : N) : obj :=
  {| o_kind := KFile; o_perm := perm; o_uid := 0; o_gid := 0; o_mtime := now;
     o_size := 0; o_data := []; o_dsize := 0; o_ddata := []; o_target := [] |}.
Definition mk_link (target : list N) (now : N) : obj :=
  {| o_kind := KLink; o_perm := 511; o_uid := 0; o_gid := 0; o_mtime := now;
     o_size := 0; o_data := []; o_dsize := 0; o_ddata := []; o_target := target |}.
(* the size Stat/Lstat report *)
Definition stat_size (o : obj) : N :=
  match o_kind o with KFile => o_size o | KDir => dir_size | KLink => N.of_nat (length (o_target o)) end.

Definition fsmap := list (path * obj).
Definition fs_init : fsmap := [([], mk_dir 493 (1000 * 1000000000))].   (* root, perm 0755 *)

Fixpoint fs_get (fs : fsmap) (p : path) : option obj :=
  match fs with [] => None | (q, o) :: r => if path_eqb p q then Some o else fs_get r p end.
Definition fs_del (fs : fsmap) (p : path) : fsmap := filter (fun e => negb (path_eqb p (fst e))) fs.
Definition fs_set (fs : fsmap) (p : path) (o : obj) : fsmap := (p, o) :: fs_del fs p.
Definition fs_upd (fs : fsmap) (p : path) (f : obj -> obj) : fsmap :=
  map (fun e => if path_eqb p (fst e) then (fst e, f (snd e)) else e) fs.

Definition parent (p : path) : path := removelast p.
Definition is_child (d p : path) : bool :=     (* p = d ++ [n] *)
  match p with [] => false | _ => path_eqb (parent p) d end.
Definition children (fs : fsmap) (d : path) : list (path * obj) := filter (fun e => is_child d (fst e)) fs.
Definition has_children (fs : fsmap) (d : path) : bool := existsb (fun e => is_child d (fst e)) fs.

Definition touch (fs : fsmap) (d : path) (now : N) : fsmap :=
  fs_upd fs d (fun o => {| o_kind := o_kind o; o_perm := o_perm o; o_uid := o_uid o; o_gid := o_gid o; o_mtime := now;
                           o_size := o_size o; o_data := o_data o; o_dsize := o_dsize o; o_ddata := o_ddata o;
                           o_target := o_target o |}).

(* ---------- path resolution ---------- *)
(* split a byte string on '/' (47), dropping empty and "." components *)
Definition slash : N := 47.
Definition dot : N := 46.
Fixpoint split_aux (cur : list N) (s : list N) : list name :=
  match s with
  | [] => match cur with [] => [] | _ => [rev cur] end
  | c :: r => if c =? slash then match cur with [] => split_aux [] r | _ => rev cur :: split_aux [] r end
              else split_aux (c :: cur) r
  end.
Definition is_dot (n : name) : bool := bytes_eqb n [dot].
Definition is_dotdot (n : name) : bool := bytes_eqb n [dot; dot].
Definition split_path (s : list N) : list name := filter (fun n => negb (is_dot n)) (split_aux [] s).
Definition is_abs (s : list N) : bool := match s with c :: _ => c =? slash | [] => false end.

Inductive walk_res :=
| WFound (p : path) (o : obj)      (* the object at canonical path p *)
| WMissing (p : path)              (* parent exists and is a directory, last component absent *)
| WErr (e : errno).

(* [fuel] bounds the number of steps (exhaustion = EFUEL, excluded by theorems and never reached on
   the finite trees the harness uses); [links] is the symlink budget of 40 (exhaustion = ELOOP).
   Intermediate symlinks are followed; the last component is followed iff [follow]. *)
Fixpoint walk (fuel : nat) (links : nat) (fs : fsmap) (canon : path) (todo : list name) (follow : bool) : walk_res :=
  match fuel with
  | O => WErr EFUEL
  | S fuel' =>
    match fs_get fs canon with
    | None => WErr ENOENT                  (* unreachable on well-formed trees *)
    | Some cur =>
      match todo with
      | [] => WFound canon cur
      | c :: rest =>
        if negb (kind_eqb (o_kind cur) KDir) then WErr ENOTDIR
        else if is_dotdot c then walk fuel' links fs (parent canon) rest follow
        else
          let p := canon ++ [c] in
          match fs_get fs p with
          | None => match rest with [] => WMissing p | _ => WErr ENOENT end
          | Some ch =>
            let last := match rest with [] => true | _ => false end in
            if kind_eqb (o_kind ch) KLink && (negb last || follow) then
              match links with
              | O => WErr ELOOP
              | S links' =>
                let canon' := if is_abs (o_target ch) then [] else canon in
                walk fuel' links' fs canon' (split_path (o_target ch) ++ rest) follow
              end
            else if last then WFound p ch
            else walk fuel' links fs p rest follow
          end
      end
    end
  end.

(* enough fuel for any resolution that stays within the symlink budget *)
Definition max_target_comps (fs : fsmap) : nat :=
  fold_right (fun e m => Nat.max (length (split_path (o_target (snd e)))) m) O fs.
Definition walk_fuel (fs : fsmap) (todo : list name) : nat :=
  S (length todo + 41 * S (max_target_comps fs)).
Definition resolve (fs : fsmap) (p : list name) (follow : bool) : walk_res :=
  walk (walk_fuel fs p) 40 fs [] p follow.

(* ---------- operations: fs -> args -> now -> (fs', result) ---------- *)
Inductive res (A : Type) := Ok (a : A) | Err (e : errno).
Arguments Ok {A} a.
Arguments Err {A} e.

Record finfo := { fi_kind : kind; fi_perm : N; fi_size : N; fi_mtime : N; fi_uid : N; fi_gid : N }.
Definition info_of (o : obj) : finfo :=
  {| fi_kind := o_kind o; fi_perm := o_perm o; fi_size := stat_size o; fi_mtime := o_mtime o;
     fi_uid := o_uid o; fi_gid := o_gid o |}.

Definition be_stat (fs : fsmap) (p : path) (follow : bool) : res finfo :=
  match resolve fs p follow with
  | WFound _ o => Ok (info_of o)
  | WMissing _ => Err ENOENT
  | WErr e => Err e
  end.

Definition be_mkdir (fs : fsmap) (p : path) (perm now : N) : fsmap * res unit :=
  match resolve fs p false with
  | WFound _ _ => (fs, Err EEXIST)
  | WMissing q => (touch (fs_set fs q (mk_dir (N.land perm 511) now)) (parent q) now, Ok tt)
  | WErr e => (fs, Err e)
  end.

Definition be_symlink (fs : fsmap) (target : list N) (p : path) (now : N) : fsmap * res unit :=
  match resolve fs p false with
  | WFound _ _ => (fs, Err EEXIST)
  | WMissing q => (touch (fs_set fs q (mk_link target now)) (parent q) now, Ok tt)
  | WErr e => (fs, Err e)
  end.

Definition be_readlink (fs : fsmap) (p : path) : res (list N) :=
  match resolve fs p false with
  | WFound _ o => match o_kind o with KLink => Ok (o_target o) | _ => Err EINVAL end
  | WMissing _ => Err ENOENT
  | WErr e => Err e
  end.

Definition be_remove (fs : fsmap) (p : path) (now : N) : fsmap * res unit :=
  match resolve fs p false with
  | WFound q o =>
      match q with
      | [] => (fs, Err EINVAL)
      | _ => if kind_eqb (o_kind o) KDir && has_children fs q then (fs, Err ENOTEMPTY)
             else (touch (fs_del fs q) (parent q) now, Ok tt)
      end
  | WMissing _ => (fs, Err ENOENT)
  | WErr e => (fs, Err e)
  end.

(* re-key every entry below [src] to live below [dst] *)
Definition rekey (src dst p : path) : path := dst ++ skipn (length src) p.
Definition be_rename (fs : fsmap) (oldp newp : path) (now : N) : fsmap * res unit :=
  match resolve fs oldp false with
  | WMissing _ => (fs, Err ENOENT)
  | WErr e => (fs, Err e)
  | WFound oc o =>
    match oc with
    | [] => (fs, Err EINVAL)
    | _ =>
      match resolve fs newp false with
      | WErr e => (fs, Err e)
      | WFound [] _ => (fs, Err EINVAL)
      | WFound nc m =>
          if path_eqb oc nc then (fs, Ok tt)
          else if kind_eqb (o_kind o) KDir && is_prefix oc nc then (fs, Err EINVAL)
          else if kind_eqb (o_kind o) KDir && negb (kind_eqb (o_kind m) KDir) then (fs, Err ENOTDIR)
          else if negb (kind_eqb (o_kind o) KDir) && kind_eqb (o_kind m) KDir then (fs, Err EISDIR)
          else if kind_eqb (o_kind m) KDir && has_children fs nc then (fs, Err ENOTEMPTY)
          else
            let fs1 := fs_del fs nc in
            let fs2 := map (fun e => if is_prefix oc (fst e) then (rekey oc nc (fst e), snd e) else e) fs1 in
            (touch (touch fs2 (parent oc) now) (parent nc) now, Ok tt)
      | WMissing nc =>
          if kind_eqb (o_kind o) KDir && is_prefix oc nc then (fs, Err EINVAL)
          else
            let fs2 := map (fun e => if is_prefix oc (fst e) then (rekey oc nc (fst e), snd e) else e) fs in
            (touch (touch fs2 (parent oc) now) (parent nc) now, Ok tt)
      end
    end
  end.

Definition set_meta (o : obj) (perm uid gid mtime : N) : obj :=
  {| o_kind := o_kind o; o_perm := perm; o_uid := uid; o_gid := gid; o_mtime := mtime;
     o_size := o_size o; o_data := o_data o; o_dsize := o_dsize o; o_ddata := o_ddata o; o_target := o_target o |}.
Definition be_meta (fs : fsmap) (p : path) (follow : bool) (f : obj -> obj) : fsmap * res unit :=
  match resolve fs p follow with
  | WFound q _ => (fs_upd fs q f, Ok tt)
  | WMissing _ => (fs, Err ENOENT)
  | WErr e => (fs, Err e)
  end.
Definition be_chmod fs p (mode : N) := be_meta fs p true (fun o => set_meta o (N.land mode 511) (o_uid o) (o_gid o) (o_mtime o)).
Definition be_chown fs p (uid gid : N) := be_meta fs p true (fun o => set_meta o (o_perm o) uid gid (o_mtime o)).
Definition be_lchown fs p (uid gid : N) := be_meta fs p false (fun o => set_meta o (o_perm o) uid gid (o_mtime o)).
Definition be_chtimes fs p (mtime : N) := be_meta fs p true (fun o => set_meta o (o_perm o) (o_uid o) (o_gid o) mtime).

Definition set_data (o : obj) (size : N) (d : sdata) (now : N) : obj :=
  {| o_kind := o_kind o; o_perm := o_perm o; o_uid := o_uid o; o_gid := o_gid o; o_mtime := now;
     o_size := size; o_data := d; o_dsize := o_dsize o; o_ddata := o_ddata o; o_target := o_target o |}.
Definition sync_obj (o : obj) : obj :=
  {| o_kind := o_kind o; o_perm := o_perm o; o_uid := o_uid o; o_gid := o_gid o; o_mtime := o_mtime o;
     o_size := o_size o; o_data := o_data o; o_dsize := o_size o; o_ddata := o_data o; o_target := o_target o |}.
Definition crash_obj (o : obj) : obj :=
  {| o_kind := o_kind o; o_perm := o_perm o; o_uid := o_uid o; o_gid := o_gid o; o_mtime := o_mtime o;
     o_size := o_dsize o; o_data := o_ddata o; o_dsize := o_dsize o; o_ddata := o_ddata o; o_target := o_target o |}.
Definition be_crash (fs : fsmap) : fsmap :=
  map (fun e => match o_kind (snd e) with KFile => (fst e, crash_obj (snd e)) | _ => e end) fs.

Definition be_truncate (fs : fsmap) (p : path) (size : Z) (now : N) : fsmap * res unit :=
  match resolve fs p true with
  | WFound q o =>
      match o_kind o with
      | KDir => (fs, Err EISDIR)
      | _ => if (size <? 0)%Z then (fs, Err EINVAL)
             else (fs_upd fs q (fun o => set_data o (Z.to_N size) (sd_trunc (o_data o) (Z.to_N size)) now), Ok tt)
      end
  | WMissing _ => (fs, Err ENOENT)
  | WErr e => (fs, Err e)
  end.

(* open: returns the canonical path of the opened object (the model's "file descriptor") *)
Definition be_open (fs : fsmap) (p : path) (write : bool) : res path :=
  match resolve fs p true with
  | WFound q o => if kind_eqb (o_kind o) KDir && write then Err EISDIR else Ok q
  | WMissing _ => Err ENOENT
  | WErr e => Err e
  end.

(* Create = OpenFile(O_RDWR|O_CREATE|O_TRUNC, 0666) *)
Definition be_create (fs : fsmap) (p : path) (now : N) : fsmap * res path :=
  match resolve fs p true with
  | WFound q o =>
      match o_kind o with
      | KDir => (fs, Err EISDIR)
      | KFile => (fs_upd fs q (fun o => set_data o 0 [] now), Ok q)
      | KLink => (fs, Ok q)
      end
  | WMissing q => (touch (fs_set fs q (mk_file 438 now)) (parent q) now, Ok q)
  | WErr e => (fs, Err e)
  end.

Definition two63 : Z := 9223372036854775808%Z.
(* WriteAt on an open file (by canonical path); off is an int64 *)
Definition be_writeat (fs : fsmap) (q : path) (off : Z) (bs : list N) (now : N) : fsmap * res N :=
  match fs_get fs q with
  | Some o =>
      match o_kind o with
      | KFile =>
          if (off <? 0)%Z || (two63 <=? off + Z.of_nat (length bs))%Z then (fs, Err EINVAL)
          else
            let o' := set_data o (match bs with [] => o_size o | _ => N.max (o_size o) (Z.to_N off + N.of_nat (length bs)) end)
                               (sd_write (o_data o) (Z.to_N off) bs) now in
            (fs_upd fs q (fun _ => o'), Ok (N.of_nat (length bs)))
      | _ => (fs, Err EISDIR)
      end
  | None => (fs, Err ENOENT)
  end.
Definition be_readat (fs : fsmap) (q : path) (off : N) (n : N) : res (list N) :=
  match fs_get fs q with
  | Some o =>
      match o_kind o with
      | KFile => let avail := if off <? o_size o then N.min n (o_size o - off) else 0 in
                 Ok (sd_read (o_data o) off (N.to_nat avail))
      | _ => Err EISDIR
      end
  | None => Err ENOENT
  end.
Definition be_sync (fs : fsmap) (q : path) : fsmap :=
  fs_upd fs q (fun o => match o_kind o with KFile => sync_obj o | _ => o end).

(* Readdir: names of the direct children, sorted bytewise *)
Fixpoint bytes_leb (a b : list N) : bool :=
  match a, b with
  | [], _ => true
  | _ :: _, [] => false
  | x :: a', y :: b' => if x <? y then true else if y <? x then false else bytes_leb a' b'
  end.
Fixpoint insert_name (n : name * obj) (l : list (name * obj)) : list (name * obj) :=
  match l with [] => [n] | m :: r => if bytes_leb (fst n) (fst m) then n :: l else m :: insert_name n r end.
Definition be_readdir (fs : fsmap) (q : path) : res (list (name * obj)) :=
  match fs_get fs q with
  | Some o =>
      match o_kind o with
      | KDir => Ok (fold_right insert_name [] (map (fun e => (last (fst e) [], snd e)) (children fs q)))
      | _ => Err ENOTDIR
      end
  | None => Err ENOENT
  end.
