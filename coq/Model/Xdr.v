(* Model/Xdr.v — executable model of the XDR helpers of rpc_types.go.  No proofs here (Proofs/XdrProofs.v).

   INTERFACE
   Decoder type.  A Go decoder consumes an io.Reader; here it is a function on the remaining stream:
       dec A  :=  bytes -> (res A * bytes * list ev)          (result, rest of the stream, trace)
     - [res A] is [Ok a] or [Err e] (explicit error kinds: inputs the Go code rejects are errors, never defaults);
     - the rest of the stream is reported on errors too (reader offset): after a short read the stream is
       exhausted (io.ReadFull consumed what there was), after a rejected length it stands behind the length word;
     - the trace lists, in order, the input-dependent buffers the Go code allocates:
         [Rd n]  a buffer of n bytes that is allocated and then filled from the reader
                 (binary.Read's 4/8-byte scratch buffer, make([]byte, n) + io.ReadFull); zero-size buffers
                 cause neither an allocation nor a Read call and are not listed;
         [Al n]  an allocation of n bytes that is not a read buffer (string(...) conversion of n bytes,
                 make([]uint32, k) = 4k bytes, the result copy of ReadRecord).
       "Rejected before any allocation of that size" = the declared length never shows up in the trace.
     Projections: [o_res], [o_rest], [o_trace]; [dec_ok o = Some (a, rest)] for users that ignore the trace.
     Monad: [ret], [fail], [bind], [read_n], [alloc].

   Values and limits (all limits come from Gen/Facts.v, i.e. from the guards in the current Go source)
     enc_u32 / dec_u32      xdrEncodeUint32 / xdrDecodeUint32 (binary.Read of a uint32)
     enc_u64 / dec_u64      xdrEncodeUint64 / binary.Read of a uint64 (offsets, cookies, the handle value)
     pad_len n              (4 - n mod 4) mod 4
     enc_opaque / dec_opaque limit    variable-length opaque<limit>: length word, data, zero padding.  This is the
                            shape of the credential / verifier bodies in DecodeRPCCall and of xdrDecodeString
     enc_string / dec_string   xdrEncodeString / xdrDecodeString: opaque<string_limit>, then a string holding a NUL
                            byte is rejected (after it has been consumed).  Padding bytes are not inspected.
     enc_fh / dec_fh        xdrEncodeFileHandle / xdrDecodeFileHandle: length word must be <= fh_max_len (64), and
                            must be fh_len (8); other lengths <= 64 are consumed (padded) and then rejected
   Encoders are total: like the Go encoders they do not check limits (uint32(len(s)) wraps at 2^32).   *)
From Coq Require Import List NArith ZArith Bool.
From Verif Require Import Gen.Facts Model.Bytes.
Import ListNotations.
Open Scope N_scope.

Inductive err :=
| EShort      (* io.EOF / io.ErrUnexpectedEOF / "not enough data" *)
| ELimit      (* a declared length or count exceeds its limit *)
| ENul        (* XDR string contains NUL byte *)
| EBadLen     (* file handle length <= 64 but not 8 *)
| EMsgType    (* DecodeRPCCall: message type is not CALL *)
| EEmpty      (* ParseAuthSysCredential: empty body *)
| EFuel.      (* model artefact, proved unreachable (Proofs/RecordMarkProofs.v) *)

Inductive res (A : Type) := Ok (a : A) | Err (e : err).
Arguments Ok {A} a.
Arguments Err {A} e.

Inductive ev := Rd (n : N) | Al (n : N).
Definition ev_size (e : ev) : N := match e with Rd n => n | Al n => n end.
Definition is_rd (e : ev) : bool := match e with Rd _ => true | Al _ => false end.

Definition out (A : Type) := (res A * bytes * list ev)%type.
Definition dec (A : Type) := bytes -> out A.

Definition o_res {A} (o : out A) : res A := fst (fst o).
Definition o_rest {A} (o : out A) : bytes := snd (fst o).
Definition o_trace {A} (o : out A) : list ev := snd o.
Definition dec_ok {A} (o : out A) : option (A * bytes) :=
  match o_res o with Ok a => Some (a, o_rest o) | Err _ => None end.
Definition is_ok {A} (r : res A) : bool := match r with Ok _ => true | Err _ => false end.

Definition ret {A} (a : A) : dec A := fun s => (Ok a, s, []).
Definition fail {A} (e : err) : dec A := fun s => (Err e, s, []).
Definition bind {A B} (d : dec A) (f : A -> dec B) : dec B := fun s =>
  match d s with
  | (Ok a, s1, t1) => match f a s1 with (r, s2, t2) => (r, s2, t1 ++ t2) end
  | (Err e, s1, t1) => (Err e, s1, t1)
  end.

(* boolean equalities (for the correspondence and for examples evaluated by vm_compute) *)
Definition err_eqb (a b : err) : bool :=
  match a, b with
  | EShort, EShort | ELimit, ELimit | ENul, ENul | EBadLen, EBadLen | EMsgType, EMsgType
  | EEmpty, EEmpty | EFuel, EFuel => true
  | _, _ => false
  end.
Definition ev_eqb (a b : ev) : bool :=
  match a, b with Rd x, Rd y => x =? y | Al x, Al y => x =? y | _, _ => false end.
Fixpoint trace_eqb (a b : list ev) : bool :=
  match a, b with
  | [], [] => true
  | x :: a', y :: b' => ev_eqb x y && trace_eqb a' b'
  | _, _ => false
  end.
Definition res_eqb {A} (eqb : A -> A -> bool) (a b : res A) : bool :=
  match a, b with Ok x, Ok y => eqb x y | Err x, Err y => err_eqb x y | _, _ => false end.
Definition out_eqb {A} (eqb : A -> A -> bool) (a b : out A) : bool :=
  res_eqb eqb (o_res a) (o_res b) && bytes_eqb (o_rest a) (o_rest b) && trace_eqb (o_trace a) (o_trace b).

(* trace of one buffer: a zero-size make allocates nothing and io.ReadFull on it issues no Read *)
Definition rd (n : N) : list ev := if n =? 0 then [] else [Rd n].
Definition al (n : N) : list ev := if n =? 0 then [] else [Al n].
(* buf := make([]byte, n); io.ReadFull(r, buf) *)
Definition read_n (n : N) : dec bytes := fun s =>
  if n <=? len s then (Ok (take n s), drop n s, rd n) else (Err EShort, [], rd n).
(* an allocation that is not a read buffer *)
Definition alloc (n : N) : dec unit := fun s => (Ok tt, s, al n).

(* ---- limits, from the guards of the current source ---- *)
Definition string_limit : N := Z.to_N f_string_limit.
Definition fh_max_len : N := Z.to_N f_fh_max_len.
Definition fh_len : N := Z.to_N f_fh_len.
Definition fh_enc_len : N := Z.to_N f_fh_enc_len.

(* ---- fixed-size integers ---- *)
Definition enc_u32 (v : N) : bytes := be_enc 4 v.
Definition enc_u64 (v : N) : bytes := be_enc 8 v.
Definition dec_u32 : dec N := bind (read_n 4) (fun b => ret (be_dec b)).
Definition dec_u64 : dec N := bind (read_n 8) (fun b => ret (be_dec b)).

(* ---- opaque / string ---- *)
Definition pad_len (n : N) : N := (4 - n mod 4) mod 4.
Definition enc_opaque (s : bytes) : bytes := enc_u32 (len s) ++ s ++ zeros (pad_len (len s)).
Definition enc_string (s : bytes) : bytes := enc_opaque s.

(* if pad > 0 { io.ReadFull(r, make([]byte, pad)) } *)
Definition skip_pad (n : N) : dec unit := bind (read_n (pad_len n)) (fun _ => ret tt).

Definition dec_opaque (limit : N) : dec bytes :=
  bind dec_u32 (fun n =>
    if limit <? n then fail ELimit
    else bind (read_n n) (fun b => bind (skip_pad n) (fun _ => ret b))).

Definition dec_string : dec bytes :=
  bind (dec_opaque string_limit) (fun b => if has_byte 0 b then fail ENul else ret b).

(* ---- file handle ---- *)
Definition enc_fh (h : N) : bytes := enc_u32 fh_enc_len ++ enc_u64 h.
Definition dec_fh : dec N :=
  bind dec_u32 (fun n =>
    if fh_max_len <? n then fail ELimit
    else if negb (n =? fh_len) then
      (* discard := make([]byte, (n+3)&^3); io.ReadFull(r, discard)  -- only when n > 0 *)
      bind (read_n ((n + 3) / 4 * 4)) (fun _ => fail EBadLen)
    else dec_u64).
