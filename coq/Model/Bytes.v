(* Model/Bytes.v — bytes, byte strings, big-endian integers.  No proofs here (see Proofs/BytesProofs.v).

   INTERFACE (used by Model/Xdr.v, Model/Rpc.v, Model/RecordMark.v and by other groups)
     byte          an [N]; well formed when < 256                     ([byte_ok], [bytesb] on lists)
     bytes         [list N]
     len s         length as an [N]                                   (Go: len(s))
     take n s / drop n s   first n bytes / the rest                   (Go: s[:n] / s[n:]; total: short lists are
                                                                       returned as they are / give [])
     zeros n       n zero bytes                                       (Go: make([]byte, n))
     be_enc k v    the k-byte big-endian image of v mod 256^k         (Go: binary.BigEndian.PutUintXX / binary.Write)
     be_dec s      the number whose big-endian image is s             (Go: binary.BigEndian.UintXX / binary.Read)
     bytes_eqb     boolean equality of byte strings
   Big-endian is defined through div/mod 256 on the little-endian image and [rev], not through shifts/masks:
     le_enc k v = [v mod 256; (v/256) mod 256; ...]  (k digits),  be_enc k v = rev (le_enc k v).          *)
From Coq Require Import List NArith Bool.
Import ListNotations.
Open Scope N_scope.

Definition bytes := list N.

Definition byte_ok (b : N) : bool := b <? 256.
Definition bytesb (s : bytes) : bool := forallb byte_ok s.

Definition len (s : bytes) : N := N.of_nat (length s).
Definition take (n : N) (s : bytes) : bytes := firstn (N.to_nat n) s.
Definition drop (n : N) (s : bytes) : bytes := skipn (N.to_nat n) s.
Definition zeros (n : N) : bytes := repeat 0 (N.to_nat n).

Fixpoint le_enc (k : nat) (v : N) : bytes :=
  match k with O => [] | S k' => v mod 256 :: le_enc k' (v / 256) end.
Fixpoint le_dec (s : bytes) : N :=
  match s with [] => 0 | b :: r => b + 256 * le_dec r end.

Definition be_enc (k : nat) (v : N) : bytes := rev (le_enc k v).
Definition be_dec (s : bytes) : N := le_dec (rev s).

Fixpoint bytes_eqb (a b : bytes) : bool :=
  match a, b with
  | [], [] => true
  | x :: a', y :: b' => (x =? y) && bytes_eqb a' b'
  | _, _ => false
  end.

(* does the byte string contain the byte b (Go: strings.ContainsRune(s, 0) for b = 0) *)
Definition has_byte (b : N) (s : bytes) : bool := existsb (N.eqb b) s.
