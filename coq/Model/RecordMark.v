(* Model/RecordMark.v — executable model of RFC 1831 section 10 record marking (rpc_transport.go).
   No proofs here (Proofs/RecordMarkProofs.v).

   INTERFACE
     last_flag                   LastFragmentFlag = 2^31
     eff_max mx                  the record limit ReadRecord applies for MaxRecordSize = mx (<= 0 means the fallback)
     reader_default_max          what NewRecordMarkingReader installs (the value every server connection uses)
     read_record mx : dec bytes  one call of RecordMarkingReader.ReadRecord on the stream: loops over fragment
                                 headers (last-fragment bit, 31-bit length); per fragment checks
                                 length <= MaxFragmentSize and accumulated + length <= limit BEFORE allocating the
                                 fragment buffer; zero-length fragments are accepted (no allocation, no read), also
                                 non-final ones; on the last fragment returns a copy of the accumulated bytes.
                                 Trace: [Rd 4] per header, [Rd n] per non-empty fragment, [Al total] for the copy.
                                 (bytes.Buffer's internal growth is not in the trace: stdlib, amortised doubling.)
     read_records mx k           k successive ReadRecord calls on one stream (the reader keeps no state between
                                 records other than the stream position)
     eff_frag mf                 the fragment size NewRecordMarkingWriterWithSize(w, mf) installs
     write_record mf data        the bytes WriteRecord emits for data on a writer built with size mf
     enc_frags frs               specification side: the wire image of an arbitrary fragmentation frs of a record
                                 (last-fragment bit on the last element; [] encodes nothing)                      *)
From Coq Require Import List NArith ZArith Bool.
From Verif Require Import Gen.Facts Model.Bytes Model.Xdr.
Import ListNotations.
Open Scope N_scope.

Definition last_flag : N := Z.to_N c_LastFragmentFlag.
Definition max_fragment : N := Z.to_N c_MaxFragmentSize.
Definition reader_default_max : Z := f_reader_default_max.
Definition eff_max (mx : Z) : N :=
  if (mx <=? 0)%Z then Z.to_N f_reader_fallback_max else Z.to_N mx.

(* the loop `for !rm.complete`; every iteration consumes a 4-byte header, fuel = stream length + 1 *)
Fixpoint rr (fuel : nat) (emax : N) (acc : bytes) : dec bytes :=
  match fuel with
  | O => fail EFuel
  | S f =>
    bind dec_u32 (fun h =>
      let last := last_flag <=? h in              (* header & LastFragmentFlag != 0 *)
      let flen := h mod last_flag in              (* header & ^LastFragmentFlag *)
      if max_fragment <? flen then fail ELimit
      else if emax <? len acc + flen then fail ELimit
      else bind (read_n flen) (fun fr =>          (* if fragmentLen > 0 { make; ReadFull; buf.Write } *)
        let acc' := acc ++ fr in
        if last then bind (alloc (len acc')) (fun _ => ret acc')
        else rr f emax acc'))
  end.

Definition read_record (mx : Z) : dec bytes := fun s => rr (S (length s)) (eff_max mx) [] s.

Fixpoint read_records (mx : Z) (k : nat) : dec (list bytes) :=
  match k with
  | O => ret []
  | S k' => bind (read_record mx) (fun r => bind (read_records mx k') (fun rs => ret (r :: rs)))
  end.

Definition eff_frag (mf : Z) : N :=
  if ((mf <=? 0) || (f_writer_frag_cap <? mf))%Z then Z.to_N f_writer_fallback_frag else Z.to_N mf.
Definition writer_default_frag : Z := f_writer_default_frag.

(* the loop `for remaining > 0`; every iteration emits >= 1 byte of data, fuel = len(data) *)
Fixpoint wr (fuel : nat) (mf : N) (data : bytes) : bytes :=
  match fuel with
  | O => []
  | S f =>
    let n := N.min (len data) mf in
    if len data =? n then enc_u32 (n + last_flag) ++ data
    else enc_u32 n ++ take n data ++ wr f mf (drop n data)
  end.
Definition write_record (mf : Z) (data : bytes) : bytes :=
  if len data =? 0 then enc_u32 last_flag else wr (length data) (eff_frag mf) data.

Fixpoint enc_frags (frs : list bytes) : bytes :=
  match frs with
  | [] => []
  | [f] => enc_u32 (len f + last_flag) ++ f
  | f :: r => enc_u32 (len f) ++ f ++ enc_frags r
  end.
