(* Model/Portmap.v — executable model of the portmapper / rpcbind service (portmapper.go).
   No proofs here: the model must keep running when a proof breaks.

   Go -> Gallina
     pm.mappings []PortMapping (insertion order)   registry = list (key * port), key = (prog, vers, prot)
     pm.listenAddr (string)                        la : list N  (bytes; "" means "0.0.0.0")
     remoteAddr net.Addr                           caller (NoAddr | TcpAddr ip zone port | OtherAddr parse-result)
     handleCall(data, remoteAddr) ([]byte, error)  handle_call la reg c data : registry * option (list N)
                                                   (None = error return: no reply is written)
   A byte is an N below 256; call records and replies are list N.  All integers are unbounded N
   with the uint32 truncations of the Go code written out (enc32, the port computed by v3/v4 SET). *)
From Coq Require Import List NArith ZArith Bool.
From Verif Require Import Gen.Facts.
Import ListNotations.
Open Scope N_scope.

(* ---------- constants taken from the generated facts ---------- *)
Definition PMAP_PROG : N := Z.to_N c_PortmapperProgram.
Definition RPC_CALL : N := Z.to_N c_RPC_CALL.
Definition RPC_REPLY : N := Z.to_N c_RPC_REPLY.
Definition MSG_ACCEPTED : N := Z.to_N c_MSG_ACCEPTED.
Definition MSG_DENIED : N := Z.to_N c_MSG_DENIED.
Definition SUCCESS : N := Z.to_N c_SUCCESS.
Definition PROG_UNAVAIL : N := Z.to_N c_PROG_UNAVAIL.
Definition PROG_MISMATCH : N := Z.to_N c_PROG_MISMATCH.
Definition PROC_UNAVAIL : N := Z.to_N c_PROC_UNAVAIL.
Definition GARBAGE_ARGS : N := Z.to_N c_GARBAGE_ARGS.
Definition SYSTEM_ERR : N := Z.to_N c_SYSTEM_ERR.
Definition RPC_MISMATCH : N := Z.to_N c_RPC_MISMATCH.
Definition AUTH_ERROR : N := Z.to_N c_AUTH_ERROR.
Definition MAX_AUTH : N := Z.to_N c_MAX_RPC_AUTH_LENGTH.
Definition MAX_STR : N := Z.to_N c_MAX_XDR_STRING_LENGTH.
Definition TCP : N := Z.to_N c_IPPROTO_TCP.
Definition UDP : N := Z.to_N c_IPPROTO_UDP.
Definition P_NULL : N := Z.to_N c_PMAPPROC_NULL.
Definition P_SET : N := Z.to_N c_PMAPPROC_SET.
Definition P_UNSET : N := Z.to_N c_PMAPPROC_UNSET.
Definition P_GETPORT : N := Z.to_N c_PMAPPROC_GETPORT.
Definition P_DUMP : N := Z.to_N c_PMAPPROC_DUMP.
(* literals of handleCall / makeReply, read off the source by astfacts (x_portmap.go): the versions the
   dispatcher serves and the range makeReply writes after PROG_MISMATCH *)
Definition VERS_LOW : N := Z.to_N f_pm_mismatch_low.
Definition VERS_HIGH : N := Z.to_N f_pm_mismatch_high.
Definition supported (vers : N) : bool := existsb (fun x => vers =? Z.to_N x) f_pm_versions.

(* ---------- option monad ---------- *)
Definition bind {A B} (o : option A) (f : A -> option B) : option B :=
  match o with Some a => f a | None => None end.
Notation "x <- e ;; f" := (bind e (fun x => f)) (at level 61, e at next level, right associativity).
Notation "' p <- e ;; f" := (bind e (fun p => f)) (at level 61, p pattern, e at next level, right associativity).

(* ---------- big-endian words, XDR strings ---------- *)
Definition is_byte (b : N) : bool := b <? 256.
Definition bytes_ok (s : list N) : bool := forallb is_byte s.

(* binary.Read(r, BigEndian, &uint32) *)
Definition get32 (s : list N) : option (N * list N) :=
  match s with
  | a :: b :: c :: d :: r => Some (a * 16777216 + b * 65536 + c * 256 + d, r)
  | _ => None
  end.
(* binary.Write(&buf, BigEndian, uint32(v)) *)
Definition enc32 (v : N) : list N :=
  [(v / 16777216) mod 256; (v / 65536) mod 256; (v / 256) mod 256; v mod 256].

Definition len (s : list N) : N := N.of_nat (length s).
(* io.ReadFull(r, make([]byte, n)) *)
Definition take_exact (n : N) (s : list N) : option (list N * list N) :=
  if len s <? n then None else Some (firstn (N.to_nat n) s, skipn (N.to_nat n) s).
Definition pad_of (n : N) : N := (4 - n mod 4) mod 4.

(* Portmapper.skipAuth *)
Definition skip_auth (s : list N) : option (list N) :=
  '(_, s1) <- get32 s ;;
  '(n, s2) <- get32 s1 ;;
  if MAX_AUTH <? n then None
  else if n =? 0 then Some s2
  else '(_, s3) <- take_exact n s2 ;;
       '(_, s4) <- take_exact (pad_of n) s3 ;;
       Some s4.

(* xdrDecodeString: length <= MAX_XDR_STRING_LENGTH, body, padding, NUL bytes rejected *)
Definition get_string (s : list N) : option (list N * list N) :=
  '(n, s1) <- get32 s ;;
  if MAX_STR <? n then None
  else '(body, s2) <- take_exact n s1 ;;
       '(_, s3) <- take_exact (pad_of n) s2 ;;
       if existsb (N.eqb 0) body then None else Some (body, s3).
(* xdrEncodeString into a bytes.Buffer (cannot fail) *)
Definition put_string (b : list N) : list N :=
  enc32 (len b) ++ b ++ repeat 0 (N.to_nat (pad_of (len b))).

(* ---------- RPC call header as handleCall reads it ---------- *)
Record header := { h_xid : N; h_rpcvers : N; h_prog : N; h_vers : N; h_proc : N }.
(* xid, msg type (must be CALL), rpcvers (read, never checked), prog, vers, proc, cred, verf *)
Definition decode_header (data : list N) : option (header * list N) :=
  '(xid, s) <- get32 data ;;
  '(mt, s) <- get32 s ;;
  if negb (mt =? RPC_CALL) then None else
  '(rv, s) <- get32 s ;;
  '(prog, s) <- get32 s ;;
  '(vers, s) <- get32 s ;;
  '(proc, s) <- get32 s ;;
  s <- skip_auth s ;;
  s <- skip_auth s ;;
  Some ({| h_xid := xid; h_rpcvers := rv; h_prog := prog; h_vers := vers; h_proc := proc |}, s).

(* ---------- the registry ---------- *)
Definition key := (N * N * N)%type.              (* program, version, protocol *)
Definition key_eqb (a b : key) : bool :=
  let '(p, v, t) := a in let '(p', v', t') := b in (p =? p') && (v =? v') && (t =? t').
Definition registry := list (key * N).

(* RegisterService: overwrite the port of an existing key in place, else append *)
Fixpoint register (k : key) (port : N) (r : registry) : registry :=
  match r with
  | [] => [(k, port)]
  | (k', p') :: t => if key_eqb k' k then (k', port) :: t else (k', p') :: register k port t
  end.
(* UnregisterService: remove the first entry with the key *)
Fixpoint unregister (k : key) (r : registry) : registry :=
  match r with
  | [] => []
  | (k', p') :: t => if key_eqb k' k then t else (k', p') :: unregister k t
  end.
(* the abstract map *)
Fixpoint lookup (k : key) (r : registry) : option N :=
  match r with
  | [] => None
  | (k', p') :: t => if key_eqb k' k then Some p' else lookup k t
  end.
(* GetPort: 0 if not found *)
Definition get_port (k : key) (r : registry) : N :=
  match lookup k r with Some p => p | None => 0 end.

(* ---------- the caller's address ---------- *)
(* net.IP of a *net.TCPAddr: 4-byte form, or 16-byte form as two 64-bit halves *)
Inductive ip := IP4 (a b c d : N) | IP6 (hi lo : N).
(* net.IP.IsLoopback: To4 (4-byte form or ::ffff:a.b.c.d) has first byte 127, else equals ::1 *)
Definition is_loopback (i : ip) : bool :=
  match i with
  | IP4 a _ _ _ => a =? 127
  | IP6 hi lo =>
      if (hi =? 0) && (lo / 4294967296 =? 65535) then (lo / 16777216) mod 256 =? 127
      else (hi =? 0) && (lo =? 1)
  end.
Inductive caller :=
| NoAddr                                          (* remoteAddr == nil: in-process call *)
| TcpAddr (i : ip) (zone : list N) (port : N)     (* *net.TCPAddr / *net.UDPAddr: what a listener hands over *)
| OtherAddr (parsed : option ip).                 (* any other net.Addr: the IP in the host part of String()
                                                     (zone suffix stripped), None if SplitHostPort or
                                                     net.ParseIP fails *)
Inductive addr_class := CNoAddr | CLoopback | CRemote | CUnparseable.
(* isLoopbackAddr's case analysis: nil; *net.TCPAddr / *net.UDPAddr decided on a.IP (the zone plays
   no role); otherwise SplitHostPort (error -> refuse), strip "%zone", net.ParseIP (nil -> refuse) *)
Definition classify (c : caller) : addr_class :=
  match c with
  | NoAddr => CNoAddr
  | TcpAddr i _ _ => if is_loopback i then CLoopback else CRemote
  | OtherAddr None => CUnparseable
  | OtherAddr (Some i) => if is_loopback i then CLoopback else CRemote
  end.
(* isLoopbackAddr: guard of SET / UNSET in every version (fail closed) *)
Definition is_loopback_addr (c : caller) : bool :=
  match classify c with CNoAddr | CLoopback => true | CRemote | CUnparseable => false end.
(* the guard at the top of v2 handleSet / handleUnset: if !isLoopbackAddr(remoteAddr) -> refuse.
   Whether a handler carries the guard is a fact read off the source (f_pm_*_guarded): if a guard
   disappears from the code the model follows it and the proof of C27_loopback breaks. *)
Definition v2_refused (guarded : bool) (c : caller) : bool := guarded && negb (is_loopback_addr c).
(* `if isLoopbackAddr(remoteAddr) { result = pm.handleRpcbX(r) } else { result = pm.encodeBool(false) }` *)
Definition rpcb_admitted (guarded : bool) (c : caller) : bool := negb guarded || is_loopback_addr c.
(* spec-level reading of "a client on a loopback address", written without the code's case analysis:
   an in-process caller, or a caller whose IP address is a loopback address *)
Definition local_caller (c : caller) : bool :=
  match c with
  | NoAddr => true
  | TcpAddr i _ _ => is_loopback i
  | OtherAddr (Some i) => is_loopback i
  | OtherAddr None => false
  end.

(* ---------- universal addresses ---------- *)
(* %d of a non-negative number *)
Fixpoint dec_aux (fuel : nat) (n : N) (acc : list N) : list N :=
  match fuel with
  | O => acc
  | S f => let acc' := (48 + n mod 10) :: acc in
           if n / 10 =? 0 then acc' else dec_aux f (n / 10) acc'
  end.
Definition dec (n : N) : list N := dec_aux (S (N.to_nat (N.log2 n))) n [].
Definition DOT : N := 46.
(* fmt.Sprintf("%s.%d.%d", host, port/256, port%256) *)
Definition fmt_uaddr (host : list N) (port : N) : list N :=
  host ++ [DOT] ++ dec (port / 256) ++ [DOT] ++ dec (port mod 256).

Definition s_tcp : list N := [116; 99; 112].
Definition s_tcp6 : list N := [116; 99; 112; 54].
Definition s_udp : list N := [117; 100; 112].
Definition s_udp6 : list N := [117; 100; 112; 54].
Definition s_superuser : list N := [115; 117; 112; 101; 114; 117; 115; 101; 114].
Definition s_any4 : list N := [48; 46; 48; 46; 48; 46; 48].      (* "0.0.0.0" *)
Definition s_lo6 : list N := [58; 58; 49].                        (* "::1" *)
Definition bytes_eqb (a b : list N) : bool :=
  (length a =? length b)%nat && forallb (fun p => fst p =? snd p) (combine a b).
Definition listen_host (la : list N) : list N := match la with [] => s_any4 | _ => la end.

(* fmt.Sscanf(uaddr, "%d.%d.%d.%d.%d.%d", ...) on the bytes of the string.
   skip_space = ss.SkipSpace for Sscanf (newline is an error); space runes are fmt's table
   U+0009-000D, 0020, 0085, 00A0, 1680, 2000-200A, 2028, 2029, 202F, 205F, 3000 in UTF-8. *)
Definition ascii_space (c : N) : bool := (c =? 9) || (c =? 11) || (c =? 12) || (c =? 13) || (c =? 32).
Fixpoint skip_space (s : list N) : option (list N) :=
  match s with
  | [] => Some []
  | c :: r =>
      if c =? 10 then None
      else if ascii_space c then skip_space r
      else if c =? 194 then
        match r with
        | d :: r2 => if (d =? 133) || (d =? 160) then skip_space r2 else Some s
        | [] => Some s
        end
      else if (c =? 225) || (c =? 226) || (c =? 227) then
        match r with
        | d :: e :: r3 =>
            if ((c =? 225) && (d =? 154) && (e =? 128))
               || ((c =? 226) && (d =? 128) &&
                   (((128 <=? e) && (e <=? 138)) || (e =? 168) || (e =? 169) || (e =? 175)))
               || ((c =? 226) && (d =? 129) && (e =? 159))
               || ((c =? 227) && (d =? 128) && (e =? 128))
            then skip_space r3 else Some s
        | _ => Some s
        end
      else Some s
  end.
Definition is_digit (c : N) : bool := (48 <=? c) && (c <=? 57).
Definition UNDERSCORE : N := 95.
(* scanNumber: the longest prefix over "0123456789_" *)
Fixpoint span_num (s : list N) : list N * list N :=
  match s with
  | c :: r => if is_digit c || (c =? UNDERSCORE) then let '(t, u) := span_num r in (c :: t, u) else ([], s)
  | [] => ([], [])
  end.
Definition digits_val (t : list N) : N := fold_left (fun a c => a * 10 + (c - 48)) t 0.
(* one %d verb: spaces, optional sign, digits; strconv.ParseInt(tok, 10, 64) rejects '_' and
   values outside int64 *)
Definition scan_int (s : list N) : option (Z * list N) :=
  s1 <- skip_space s ;;
  match s1 with
  | [] => None
  | c :: r =>
      let '(neg, s2) := if c =? 45 then (true, r) else if c =? 43 then (false, r) else (false, s1) in
      let '(tok, s3) := span_num s2 in
      match tok with
      | [] => None
      | _ => if existsb (N.eqb UNDERSCORE) tok then None
             else let v := digits_val tok in
                  if neg then (if v <=? 9223372036854775808 then Some (- Z.of_N v, s3)%Z else None)
                  else (if v <? 9223372036854775808 then Some (Z.of_N v, s3) else None)
      end
  end.
Definition expect_dot (s : list N) : option (list N) :=
  match s with c :: r => if c =? DOT then Some r else None | [] => None end.
Definition scan6 (s : list N) : option (Z * Z) :=
  '(_, s) <- scan_int s ;; s <- expect_dot s ;;
  '(_, s) <- scan_int s ;; s <- expect_dot s ;;
  '(_, s) <- scan_int s ;; s <- expect_dot s ;;
  '(_, s) <- scan_int s ;; s <- expect_dot s ;;
  '(hi, s) <- scan_int s ;; s <- expect_dot s ;;
  '(lo, _) <- scan_int s ;;
  Some (hi, lo).
(* port = uint32(hi*256 + lo) when the scan succeeds (int arithmetic wraps mod 2^64, the
   conversion keeps the low 32 bits), 0 otherwise and for the empty string *)
Definition uaddr_port (u : list N) : N :=
  match u with
  | [] => 0
  | _ => match scan6 u with
         | Some (hi, lo) => Z.to_N ((hi * 256 + lo) mod 4294967296)%Z
         | None => 0
         end
  end.

(* ---------- procedures ---------- *)
Definition enc_bool (b : bool) : list N := enc32 (if b then 1 else 0).
Definition args4 (s : list N) : option (N * N * N * N) :=
  '(a, s) <- get32 s ;; '(b, s) <- get32 s ;; '(c, s) <- get32 s ;; '(d, _) <- get32 s ;; Some (a, b, c, d).

(* handleGetPort *)
Definition v2_getport (reg : registry) (args : list N) : list N :=
  match args4 args with
  | None => enc32 0
  | Some (p, v, t, _) => enc32 (get_port (p, v, t) reg)
  end.
(* handleDump *)
Definition enc_mapping (e : key * N) : list N :=
  let '((p, v, t), port) := e in enc32 1 ++ enc32 p ++ enc32 v ++ enc32 t ++ enc32 port.
Definition v2_dump (reg : registry) : list N := flat_map enc_mapping reg ++ enc32 0.
(* handleSet / handleUnset *)
Definition v2_set (reg : registry) (c : caller) (args : list N) : registry * list N :=
  if v2_refused f_pm_v2_set_guarded c then (reg, enc_bool false)
  else match args4 args with
       | None => (reg, enc_bool false)
       | Some (p, v, t, port) => (register (p, v, t) port reg, enc_bool true)
       end.
Definition v2_unset (reg : registry) (c : caller) (args : list N) : registry * list N :=
  if v2_refused f_pm_v2_unset_guarded c then (reg, enc_bool false)
  else match args4 args with
       | None => (reg, enc_bool false)
       | Some (p, v, t, _) => (unregister (p, v, t) reg, enc_bool true)
       end.

(* the leading part of an rpcb structure: r_prog, r_vers, r_netid *)
Definition rpcb_head (s : list N) : option (N * N * list N * list N) :=
  '(p, s) <- get32 s ;; '(v, s) <- get32 s ;; '(netid, s) <- get_string s ;; Some (p, v, netid, s).
Definition is_tcp_netid (n : list N) : bool := bytes_eqb n s_tcp || bytes_eqb n s_tcp6.
Definition is_udp_netid (n : list N) : bool := bytes_eqb n s_udp || bytes_eqb n s_udp6.
Definition is_v6_netid (n : list N) : bool := bytes_eqb n s_tcp6 || bytes_eqb n s_udp6.
(* GETADDR: "tcp"/"tcp6" -> TCP, anything else -> UDP *)
Definition prot_getaddr (n : list N) : N := if is_tcp_netid n then TCP else UDP.
(* SET/UNSET: "udp"/"udp6" -> UDP, anything else -> TCP *)
Definition prot_set (n : list N) : N := if is_udp_netid n then UDP else TCP.

(* handleGetAddr *)
Definition rpcb_getaddr (la : list N) (reg : registry) (args : list N) : list N :=
  match rpcb_head args with
  | None => put_string []
  | Some (p, v, netid, _) =>
      let port := get_port (p, v, prot_getaddr netid) reg in
      if 0 <? port
      then put_string (fmt_uaddr (if is_v6_netid netid then s_lo6 else listen_host la) port)
      else put_string []
  end.
(* handleRpcbSet *)
Definition rpcb_set (reg : registry) (args : list N) : registry * list N :=
  match rpcb_head args with
  | None => (reg, enc_bool false)
  | Some (p, v, netid, s) =>
      match get_string s with
      | None => (reg, enc_bool false)
      | Some (uaddr, _) =>
          let port := uaddr_port uaddr in
          (if 0 <? port then register (p, v, prot_set netid) port reg else reg, enc_bool true)
      end
  end.
(* handleRpcbUnset *)
Definition rpcb_unset (reg : registry) (args : list N) : registry * list N :=
  match rpcb_head args with
  | None => (reg, enc_bool false)
  | Some (p, v, netid, _) => (unregister (p, v, prot_set netid) reg, enc_bool true)
  end.
(* handleRpcbDump *)
Definition netid_of (t : N) : list N := if t =? TCP then s_tcp else s_udp.
Definition enc_rpcb (la : list N) (e : key * N) : list N :=
  let '((p, v, t), port) := e in
  enc32 1 ++ enc32 p ++ enc32 v ++ put_string (netid_of t) ++
  put_string (fmt_uaddr (listen_host la) port) ++ put_string s_superuser.
Definition rpcb_dump (la : list N) (reg : registry) : list N := flat_map (enc_rpcb la) reg ++ enc32 0.

(* ---------- makeReply ---------- *)
Definition reply_head (xid : N) : list N :=
  enc32 xid ++ enc32 RPC_REPLY ++ enc32 MSG_ACCEPTED ++ enc32 0 ++ enc32 0.
Definition make_reply (xid status : N) (data : list N) : list N :=
  reply_head xid ++
  (if status =? MSG_ACCEPTED then enc32 0 ++ data
   else enc32 status ++ (if status =? PROG_MISMATCH then enc32 VERS_LOW ++ enc32 VERS_HIGH else [])).

(* ---------- dispatch ---------- *)
(* the v2 switch; None = default branch (PROC_UNAVAIL) *)
Definition v2_proc (reg : registry) (c : caller) (proc : N) (args : list N) : option (registry * list N) :=
  if proc =? P_NULL then Some (reg, [])
  else if proc =? P_SET then Some (v2_set reg c args)
  else if proc =? P_UNSET then Some (v2_unset reg c args)
  else if proc =? P_GETPORT then Some (reg, v2_getport reg args)
  else if proc =? P_DUMP then Some (reg, v2_dump reg)
  else None.
(* the v3/v4 switch *)
Definition rpcb_proc (la : list N) (reg : registry) (c : caller) (proc : N) (args : list N)
  : option (registry * list N) :=
  if proc =? 0 then Some (reg, [])
  else if proc =? 1 then Some (if rpcb_admitted f_pm_rpcb_set_guarded c then rpcb_set reg args else (reg, enc_bool false))
  else if proc =? 2 then Some (if rpcb_admitted f_pm_rpcb_unset_guarded c then rpcb_unset reg args else (reg, enc_bool false))
  else if proc =? 3 then Some (reg, rpcb_getaddr la reg args)
  else if proc =? 4 then Some (reg, rpcb_dump la reg)
  else None.

Definition dispatch (la : list N) (reg : registry) (c : caller) (h : header) (args : list N)
  : registry * list N :=
  if negb (h_prog h =? PMAP_PROG) then (reg, make_reply (h_xid h) PROG_UNAVAIL [])
  else if negb (supported (h_vers h)) then (reg, make_reply (h_xid h) PROG_MISMATCH [])
  else match (if h_vers h =? 2 then v2_proc reg c (h_proc h) args
              else rpcb_proc la reg c (h_proc h) args) with
       | None => (reg, make_reply (h_xid h) PROC_UNAVAIL [])
       | Some (reg', res) => (reg', make_reply (h_xid h) MSG_ACCEPTED res)
       end.

(* Portmapper.handleCall *)
Definition handle_call (la : list N) (reg : registry) (c : caller) (data : list N)
  : registry * option (list N) :=
  match decode_header data with
  | None => (reg, None)
  | Some (h, args) => let '(reg', r) := dispatch la reg c h args in (reg', Some r)
  end.

(* ---------- histories ---------- *)
Inductive event :=
| Call (c : caller) (data : list N)
| ApiRegister (p v t port : N)          (* Portmapper.RegisterService *)
| ApiUnregister (p v t : N).            (* Portmapper.UnregisterService *)
Definition step (la : list N) (reg : registry) (e : event) : registry * option (list N) :=
  match e with
  | Call c data => handle_call la reg c data
  | ApiRegister p v t port => (register (p, v, t) port reg, None)
  | ApiUnregister p v t => (unregister (p, v, t) reg, None)
  end.
Definition run (la : list N) (reg : registry) (evs : list event) : registry :=
  fold_left (fun r e => fst (step la r e)) evs reg.
Definition u32 (x : N) : bool := x <? 4294967296.
Definition event_ok (e : event) : bool :=
  match e with
  | Call _ data => bytes_ok data
  | ApiRegister p v t port => u32 p && u32 v && u32 t && u32 port
  | ApiUnregister p v t => u32 p && u32 v && u32 t
  end.

(* ---------- RFC 1831 / RFC 1833 reply grammar (the spec oracle) ---------- *)
(* every parser returns the decoded value and the unread rest; the reply must be consumed entirely *)
Definition p_bool (s : list N) : option (bool * list N) :=
  '(v, r) <- get32 s ;; if v =? 0 then Some (false, r) else if v =? 1 then Some (true, r) else None.
(* string<> / opaque<max>: length, body, zero padding to a multiple of four *)
Definition p_opaque (max : N) (s : list N) : option (list N * list N) :=
  '(n, s1) <- get32 s ;;
  if max <? n then None
  else '(body, s2) <- take_exact n s1 ;;
       '(pad, s3) <- take_exact (pad_of n) s2 ;;
       if forallb (N.eqb 0) pad then Some (body, s3) else None.
Definition p_string := p_opaque 4294967295.
(* pmaplist: (TRUE mapping)* FALSE *)
Fixpoint p_pmaplist (fuel : nat) (s : list N) : option (list (key * N) * list N) :=
  match fuel with
  | O => None
  | S f =>
      '(more, s) <- p_bool s ;;
      if more then
        '(p, s) <- get32 s ;; '(v, s) <- get32 s ;; '(t, s) <- get32 s ;; '(port, s) <- get32 s ;;
        '(rest, s) <- p_pmaplist f s ;;
        Some (((p, v, t), port) :: rest, s)
      else Some ([], s)
  end.
(* rpcblist: (TRUE rpcb{prog, vers, netid, addr, owner})* FALSE *)
Definition rpcb_entry := (N * N * list N * list N * list N)%type.
Fixpoint p_rpcblist (fuel : nat) (s : list N) : option (list rpcb_entry * list N) :=
  match fuel with
  | O => None
  | S f =>
      '(more, s) <- p_bool s ;;
      if more then
        '(p, s) <- get32 s ;; '(v, s) <- get32 s ;;
        '(netid, s) <- p_string s ;; '(addr, s) <- p_string s ;; '(owner, s) <- p_string s ;;
        '(rest, s) <- p_rpcblist f s ;;
        Some ((p, v, netid, addr, owner) :: rest, s)
      else Some ([], s)
  end.
Definition drop {A} (o : option (A * list N)) : option (list N) :=
  match o with Some (_, r) => Some r | None => None end.
(* result type of a SUCCESS reply, per program / version / procedure.  Only the procedures this
   oracle knows are accepted: a SUCCESS reply to anything else is rejected (fail closed). *)
Definition p_result (h : header) (s : list N) : option (list N) :=
  if negb (h_prog h =? 100000) then None
  else if h_vers h =? 2 then
    (if h_proc h =? 0 then Some s
     else if (h_proc h =? 1) || (h_proc h =? 2) then drop (p_bool s)
     else if h_proc h =? 3 then drop (get32 s)
     else if h_proc h =? 4 then drop (p_pmaplist (S (length s)) s)
     else None)
  else if (h_vers h =? 3) || (h_vers h =? 4) then
    (if h_proc h =? 0 then Some s
     else if (h_proc h =? 1) || (h_proc h =? 2) then drop (p_bool s)
     else if h_proc h =? 3 then drop (p_string s)
     else if h_proc h =? 4 then drop (p_rpcblist (S (length s)) s)
     else None)
  else None.
Definition p_reply (h : header) (r : list N) : option (list N) :=
  '(_, s) <- get32 r ;;
  '(mt, s) <- get32 s ;;
  if negb (mt =? 1) then None else
  '(rs, s) <- get32 s ;;
  if rs =? 0 then                                   (* MSG_ACCEPTED: verifier, accept_stat *)
    '(_, s) <- get32 s ;;
    '(_, s) <- p_opaque 400 s ;;
    '(st, s) <- get32 s ;;
    if st =? 0 then p_result h s                    (* SUCCESS *)
    else if st =? 2 then                            (* PROG_MISMATCH: low, high; the call's version outside *)
      '(lo, s) <- get32 s ;; '(hi, s) <- get32 s ;;
      if (lo <=? hi) && negb ((lo <=? h_vers h) && (h_vers h <=? hi)) then Some s else None
    else if (st =? 1) || (st =? 3) || (st =? 4) || (st =? 5) then Some s   (* void *)
    else None
  else if rs =? 1 then                              (* MSG_DENIED *)
    '(rj, s) <- get32 s ;;
    if rj =? 0 then '(lo, s) <- get32 s ;; '(hi, s) <- get32 s ;; if lo <=? hi then Some s else None
    else if rj =? 1 then '(why, s) <- get32 s ;; if (1 <=? why) && (why <=? 13) then Some s else None
    else None
  else None.
Definition wellformed_reply (h : header) (r : list N) : bool :=
  bytes_ok r && match p_reply h r with Some [] => true | _ => false end.
Definition xid_echoed (data r : list N) : bool := bytes_eqb (firstn 4 data) (firstn 4 r).
