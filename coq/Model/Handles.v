(* Model/Handles.v — executable model of FileHandleMap (filehandle.go, minheap.go).
   No proofs here: the model must keep running when a proof breaks.

   Go -> Gallina
     handles     map[uint64]absfs.File      handles : list (N * P)     (id, path of the node)
     pathHandles map[string]uint64          byPath  : list (P * N)
     nextHandle  uint64                     next    : N                (unbounded; 2^64 ids never reached)
     freeHandles *uint64MinHeap             free    : list N           (multiset; PopMin = pop_min;
                                                                         container/heap is trusted stdlib)
     maxHandles  int                        maxH    : Z                (<= 0 means DefaultMaxHandles)
   The path type P is a parameter (N in the component correspondence, list name in Srv).   *)
From Coq Require Import List NArith ZArith Bool.
Import ListNotations.
Open Scope N_scope.

Section Handles.
Context {P : Type} (P_eqb : P -> P -> bool).

Record fhmap := { handles : list (N * P); byPath : list (P * N);
                  next : N; free : list N; maxH : Z }.

Definition default_max_handles : N := 100000.
Definition eff_max (m : fhmap) : N :=
  if (maxH m <=? 0)%Z then default_max_handles else Z.to_N (maxH m).
Definition init (mx : Z) : fhmap :=
  {| handles := []; byPath := []; next := 1; free := []; maxH := mx |}.

Fixpoint assocP (p : P) (l : list (P * N)) : option N :=
  match l with [] => None | (q, h) :: r => if P_eqb p q then Some h else assocP p r end.
Fixpoint assocH (h : N) (l : list (N * P)) : option P :=
  match l with [] => None | (k, p) :: r => if k =? h then Some p else assocH h r end.

(* FileHandleMap.Get *)
Definition get (m : fhmap) (h : N) : option P := assocH h (handles m).
Definition count (m : fhmap) : N := N.of_nat (length (handles m)).

Fixpoint min_of (x : N) (l : list N) : N :=
  match l with [] => x | y :: r => min_of (N.min x y) r end.
Fixpoint remove1 (x : N) (l : list N) : list N :=
  match l with [] => [] | y :: r => if y =? x then r else y :: remove1 x r end.
Definition pop_min (l : list N) : option (N * list N) :=
  match l with [] => None | x :: r => let m := min_of x r in Some (m, remove1 m l) end.

(* delete(fm.handles,h); delete(fm.pathHandles,node.path); freeHandles.PushValue(h) *)
Definition drop_id (v : N) (m : fhmap) : fhmap :=
  {| handles := filter (fun e => negb (fst e =? v)) (handles m);
     byPath := filter (fun e => negb (snd e =? v)) (byPath m);
     next := next m; free := v :: free m; maxH := maxH m |}.

(* The eviction scan `for h := minHandle; evictCount > 0; h++` removes the n lowest live ids,
   skipping the id being returned (keep).  Rendered as n rounds of "drop the minimum live id
   other than keep"; when only keep is left the Go loop would spin until h wraps, the model stops
   (unreachable: eviction runs only when count > max >= 1, and n <= max). *)
Fixpoint evict (n : nat) (keep : N) (m : fhmap) : fhmap :=
  match n with
  | O => m
  | S k =>
    match filter (fun e => negb (fst e =? keep)) (handles m) with
    | [] => m
    | (h0, _) :: r => evict k keep (drop_id (min_of h0 (map fst r)) m)
    end
  end.

(* FileHandleMap.Allocate for an NFSNode with a non-empty path *)
Definition allocate (m : fhmap) (p : P) : fhmap * N :=
  match assocP p (byPath m) with
  | Some h => (m, h)                                   (* dedup by path *)
  | None =>
    let '(h, fr, nx) := match pop_min (free m) with
                        | Some (h, f) => (h, f, next m)          (* reuse the lowest freed id *)
                        | None => (next m, free m, next m + 1) end in
    let m1 := {| handles := (h, p) :: handles m; byPath := (p, h) :: byPath m;
                 next := nx; free := fr; maxH := maxH m |} in
    if eff_max m1 <? N.of_nat (length (handles m1))
    then (evict (N.to_nat (N.max 1 (eff_max m1 / 10))) h m1, h)
    else (m1, h)
  end.

Definition release (m : fhmap) (h : N) : fhmap :=
  match get m h with None => m | Some _ => drop_id h m end.
(* ReleaseAll keeps nextHandle: no id is reissued after Close/Unexport + re-export *)
Definition release_all (m : fhmap) : fhmap :=
  {| handles := []; byPath := []; next := next m; free := []; maxH := maxH m |}.

Inductive op := Alloc (p : P) | Release (h : N) | ReleaseAll.
Definition apply (m : fhmap) (o : op) : fhmap :=
  match o with
  | Alloc p => fst (allocate m p)
  | Release h => release m h
  | ReleaseAll => release_all m
  end.

(* observation of one step, as the harness records it on the implementation:
   the returned handle (0 for non-Alloc) and the whole table sorted by id *)
Fixpoint insert_sorted (e : N * P) (l : list (N * P)) : list (N * P) :=
  match l with
  | [] => [e]
  | x :: r => if fst e <=? fst x then e :: l else x :: insert_sorted e r
  end.
Definition sorted_table (m : fhmap) : list (N * P) := fold_right insert_sorted [] (handles m).

Definition step_obs (m : fhmap) (o : op) : fhmap * (N * list (N * P)) :=
  match o with
  | Alloc p => let '(m', h) := allocate m p in (m', (h, sorted_table m'))
  | _ => let m' := apply m o in (m', (0, sorted_table m'))
  end.
Fixpoint run_obs (m : fhmap) (ops : list op) : list (N * list (N * P)) :=
  match ops with
  | [] => []
  | o :: r => let '(m', ob) := step_obs m o in ob :: run_obs m' r
  end.

End Handles.

Arguments fhmap : clear implicits.
Arguments op : clear implicits.
