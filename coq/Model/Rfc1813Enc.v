(* Model/Rfc1813Enc.v — from the server model's observations (Model/Srv.v [obs]) to RFC 1813 result bytes, and the
   RPC-level dispatch around the procedure handlers (HandleCall, drainReply, handleNFSCall, handleMountCall) that
   Model/Srv.v does not contain.  No proofs here (Proofs/Rfc1813Shape.v).

     extras                    the reply fields an [obs] does not carry (cookie verifier echoed from the request, write
                               verifier, the FSSTAT / FSINFO / PATHCONF literals, MNT's flavor list); every value of the
                               record is admissible by construction
     proc_of r                 the procedure a request of the model belongs to (None: administrative pseudo-requests)
     tree_of_obs p o ex        the RFC result tree an observation stands for
     encode_results p o ex     = Rfc1813.enc_tree p (tree_of_obs p o ex): the spec-level encoder
     shape_ok p o              the observation has the components the grammar of p demands for its status
                               (LOOKUP ok: handle + two attribute slots; LOOKUP failure: one attribute slot, nothing else ...)
     sizes_ok o ex             its variable-length items are expressible in XDR (lengths below 2^32)
     req_decodes r             the request's strings decode (xdrDecodeString limits) and WRITE's opaque length is its count
     status_ok p r o           the status is a member of nfsstat3 / mountstat3, or 4 when the request does not decode (k=1)
     call_reply                HandleCall's answer as bytes: drain, unknown program / version / procedure, the MOUNT
                               procedures served in handleMountCall, the per-operation rate-limit replies *)
From Coq Require Import List NArith ZArith Bool.
From Verif Require Import Gen.Facts Model.Bytes Model.Handles Model.Backend Model.Srv Model.Rfc1813.
Import ListNotations.
Open Scope N_scope.

(* ---------------- extras ---------------- *)
Record extras := mkEx {
  ex_cookieverf : N;                    (* READDIR / READDIRPLUS: the 8 bytes of the request's cookieverf, as a number *)
  ex_writeverf : N;                     (* Server.writeVerf *)
  ex_fsstat : N * N * N * N * N * N * N;      (* tbytes fbytes abytes tfiles ffiles afiles invarsec *)
  ex_fsinfo : N * N * N * N * N;              (* dtpref maxfilesize time_delta.seconds time_delta.nseconds properties *)
  ex_pathconf : N * N * bool * bool * bool * bool;   (* linkmax name_max no_trunc chown_restricted case_insensitive case_preserving *)
  ex_flavors : list N }.                (* MNT: auth_flavors *)
Definition verf_bytes (v : N) : bytes := be_enc 8 v.
(* the literals of nfs_proc_handlers.go / mount_handlers.go *)
Definition go_extras (cookieverf writeverf : N) : extras :=
  mkEx cookieverf writeverf (10737418240, 5368709120, 5368709120, 1000000, 900000, 900000, 1)
       (8192, 1099511627776, 0, 1000000, 26) (1024, 255, true, true, false, true) [1].

(* ---------------- procedures of the model's requests ---------------- *)
Definition proc_of (r : req) : option rproc :=
  match r with
  | RNull => Some NfsNull | RGetattr _ => Some NfsGetattr | RSetattr _ _ _ => Some NfsSetattr | RLookup _ _ => Some NfsLookup
  | RAccess _ _ => Some NfsAccess | RReadlink _ => Some NfsReadlink | RRead _ _ _ => Some NfsRead
  | RWrite _ _ _ _ _ => Some NfsWrite | RCreate _ _ _ _ => Some NfsCreate | RMkdir _ _ _ => Some NfsMkdir
  | RSymlink _ _ _ _ => Some NfsSymlink | RMknod _ _ => Some NfsMknod | RRemove _ _ => Some NfsRemove
  | RRmdir _ _ => Some NfsRmdir | RRename _ _ _ _ => Some NfsRename | RLink _ _ _ => Some NfsLink
  | RReaddir _ _ _ => Some NfsReaddir | RReaddirplus _ _ _ _ => Some NfsReaddirplus | RFsstat _ => Some NfsFsstat
  | RFsinfo _ => Some NfsFsinfo | RPathconf _ => Some NfsPathconf | RCommit _ _ _ => Some NfsCommit
  | RMnt _ => Some MntMnt
  | RSetRO _ | RSetMaxFile _ | RSetTsize _ => None
  end.

(* ---------------- observation -> result tree ---------------- *)
Definition nsec : N := 1000000000.
Definition wtime_of (t : N) : wtime := (t / nsec, t mod nsec).
(* encodeFileAttributes: used = size, rdev = (0, 0), fsid = 0, ctime = mtime; the model's attributes keep atime = mtime *)
Definition wf_of_fattr (a : fattr) : wfattr :=
  mkWF (fa_type a) (fa_perm a) (fa_nlink a) (fa_uid a) (fa_gid a) (fa_size a) (fa_size a) (0, 0) 0 (fa_fileid a)
       (wtime_of (fa_mtime a)) (wtime_of (fa_mtime a)) (wtime_of (fa_mtime a)).
Definition ww_of (w : N * N) : wwcc := mkWW (fst w) (wtime_of (snd w)) (wtime_of (snd w)).
Definition fh_bytes (h : N) : bytes := be_enc 8 h.          (* xdrEncodeFileHandle: opaque of 8 bytes *)
Definition went_of (e : dentry) : wentry :=
  mkWE (de_fileid e) (de_name e) (de_cookie e) (option_map wf_of_fattr (de_attr e)) (option_map fh_bytes (de_fh e)).
Definition nb (b : bool) : N := if b then 1 else 0.

Definition extra_nums (p : rproc) (ex : extras) : list N :=
  match p with
  | NfsFsstat => let '(a, b, c, d, e, f, g) := ex_fsstat ex in [a; b; c; d; e; f; g]
  | NfsFsinfo => let '(a, b, c, d, e) := ex_fsinfo ex in [a; b; c; d; e]
  | NfsPathconf => let '(a, b, c, d, e, f) := ex_pathconf ex in [a; b; nb c; nb d; nb e; nb f]
  | MntMnt => ex_flavors ex
  | _ => []
  end.
Definition verf_of (p : rproc) (ex : extras) : bytes :=
  match p with
  | NfsWrite | NfsCommit => verf_bytes (ex_writeverf ex)
  | NfsReaddir | NfsReaddirplus => verf_bytes (ex_cookieverf ex)
  | _ => []
  end.
Definition tree_of_obs (p : rproc) (o : obs) (ex : extras) : result_tree :=
  let ok := ob_status o =? 0 in
  mkRT (if has_status p then Some (ob_status o) else None)
       (map (option_map wf_of_fattr) (ob_attrs o)) (map (option_map ww_of) (ob_wcc o)) (option_map fh_bytes (ob_fh o))
       (ob_nums o ++ (if ok then extra_nums p ex else [])) (ob_bytes o) (if ok then verf_of p ex else [])
       (map went_of (ob_entries o)) (ob_eof o) [].

Definition encode_results (p : rproc) (o : obs) (ex : extras) : bytes := enc_tree p (tree_of_obs p o ex).

(* ---------------- the shape of an observation ---------------- *)
Definition fattr_ok (a : fattr) : bool := ftype3_ok (fa_type a).
Definition dent_plain (e : dentry) : bool := match de_attr e, de_fh e with None, None => true | _, _ => false end.
Definition dent_plus (e : dentry) : bool := opt_ok fattr_ok (de_attr e).
(* how many of the profile's numbers the observation itself carries (the others come from [extras]) *)
Definition obs_nums (p : rproc) : nat :=
  match p with NfsAccess | NfsRead => 1 | NfsWrite => 2 | NfsFsinfo => 6 | _ => 0 end%nat.
Definition obs_check (pf : profile) (nnums : nat) (o : obs) : bool :=
  Nat.eqb (length (ob_attrs o)) (pf_attrs pf) && forallb (opt_ok fattr_ok) (ob_attrs o) &&
  Nat.eqb (length (ob_wcc o)) (pf_wcc pf) &&
  (match pf_fh pf, ob_fh o with FhNone, None => true | FhReq, Some _ => true | FhOpt, _ => true | _, _ => false end) &&
  Nat.eqb (length (ob_nums o)) nnums &&
  (pf_data pf || isnil (ob_bytes o)) &&
  (match pf_ents pf with EntNone => isnil (ob_entries o) | EntPlain => forallb dent_plain (ob_entries o)
                       | EntPlus => forallb dent_plus (ob_entries o) end) &&
  (pf_eof pf || negb (ob_eof o)).
Definition obs_extra (p : rproc) (o : obs) : bool :=
  match p with
  | NfsGetattr => match ob_attrs o with Some _ :: _ => true | _ => false end
  | NfsRead => nth 0 (ob_nums o) 0 =? len (ob_bytes o)
  | NfsWrite => stable_how_ok (nth 1 (ob_nums o) 0)
  | Mnt1Mnt => false                     (* the model issues 8-byte handles: it has no RFC 1094 (32-byte) MNT result *)
  | _ => true
  end.
(* accepted-SUCCESS replies *)
Definition shape_ok (p : rproc) (o : obs) : bool :=
  (ob_rpc o =? 0) &&
  (if has_status p then
     (ob_status o <? two32) &&
     (if ob_status o =? 0 then obs_check (pf_ok p) (obs_nums p) o && obs_extra p o
      else obs_check (pf_fail (fail_shape p)) 0 o)
   else (ob_status o =? 0) && obs_check (pf_void p) 0 o).
(* the one reply of the model that is not an accepted SUCCESS: MNT with an undecodable path => accept_stat GARBAGE_ARGS *)
Definition rpc_garbage (o : obs) : bool := ob_rpc o =? 1000 + AS_GARBAGE_ARGS.
Definition reply_ok (p : rproc) (dec : bool) (o : obs) : bool := shape_ok p o || (negb dec && is_mount p && rpc_garbage o).

Definition sizes_ok (o : obs) (ex : extras) : bool :=
  (len (ob_bytes o) <=? U32MAX) && forallb (fun e => len (de_name e) <=? U32MAX) (ob_entries o) &&
  (len (ex_flavors ex) <? 536870912).

(* ---------------- which statuses ---------------- *)
(* xdrDecodeString refuses strings over MAX_XDR_STRING_LENGTH and strings holding a NUL; WRITE refuses an opaque whose
   length differs from count: such requests "do not decode" *)
Definition req_decodes (r : req) : bool :=
  match r with
  | RLookup _ n | RCreate _ n _ _ | RMkdir _ n _ | RRemove _ n | RRmdir _ n => str_ok n
  | RSymlink _ n _ t => str_ok n && str_ok t
  | RRename _ n1 _ n2 => str_ok n1 && str_ok n2
  | RWrite _ _ cnt _ data => cnt =? N.of_nat (length data)
  | RMnt p => str_ok p
  | _ => true
  end.
Definition k1 (s : N) : bool := s =? 4.
Definition status_ok (p : rproc) (r : req) (o : obs) : bool :=
  stat_member p (ob_status o) || (negb (req_decodes r) && k1 (ob_status o)).

(* ---------------- HandleCall around the handlers ---------------- *)
(* what HandleCall hands to EncodeRPCReply *)
Inductive areply :=
| AAccepted (accept : N) (data : bytes)      (* MSG_ACCEPTED; data only goes out when accept = SUCCESS *)
| ADenied.                                   (* MSG_DENIED: EncodeRPCReply writes AUTH_ERROR / AUTH_BADCRED *)
Definition JUKEBOX : N := Z.to_N c_NFSERR_JUKEBOX.
Definition DELAY : N := Z.to_N c_NFSERR_DELAY.
Definition MNT_SERVERFAULT : N := 10006.
Definition nfs_prog : N := Z.to_N c_NFS_PROGRAM.
Definition mount_prog : N := Z.to_N c_MOUNT_PROGRAM.
Definition nfs_v3 : N := Z.to_N c_NFS_V3.
Definition mount_v3 : N := Z.to_N c_MOUNT_V3.
Definition a_prog_unavail : N := Z.to_N c_PROG_UNAVAIL.
Definition a_prog_mismatch : N := Z.to_N c_PROG_MISMATCH.
Definition a_proc_unavail : N := Z.to_N c_PROC_UNAVAIL.
Definition a_garbage : N := Z.to_N c_GARBAGE_ARGS.
Definition a_system_err : N := Z.to_N c_SYSTEM_ERR.
Definition a_success : N := Z.to_N c_SUCCESS.

(* the error-reply helpers of nfs_handlers.go: status followed by that many FALSE discriminants *)
Definition err_words (f : fshape) : nat := match f with FVoid => 0 | FPost => 1 | FWcc => 2 | FWcc2 => 4 | FPostWcc => 3 end.
Definition nfs_error (f : fshape) (st : N) : bytes := e_u32 st ++ concat (repeat (e_u32 0) (err_words f)).
Definition nfs_proc (proc : N) : option rproc := if proc <=? 21 then nth_error nfs_procs (N.to_nat proc) else None.

(* drainReply *)
Definition drain_reply (prog vers proc : N) : areply :=
  if prog =? nfs_prog then
    if negb (vers =? nfs_v3) then AAccepted a_prog_mismatch []
    else match nfs_proc proc with
         | Some NfsNull => AAccepted a_success []
         | Some p => AAccepted a_success (nfs_error (fail_shape p) JUKEBOX)
         | None => AAccepted a_proc_unavail []
         end
  else if prog =? mount_prog then
    if negb (vers =? 1) && negb (vers =? mount_v3) then AAccepted a_prog_mismatch []
    else if proc =? 1 then AAccepted a_success (nfs_error FVoid MNT_SERVERFAULT)
    else if (proc =? 0) || (proc =? 3) || (proc =? 4) then AAccepted a_success []
    else AAccepted a_system_err []
  else AAccepted a_prog_unavail [].

(* server mode and what the call meets on its way *)
Record cmode := mkMode {
  m_drain : bool;            (* policyRWMu is write-locked: TryRLock fails *)
  m_auth_ok : bool;          (* ValidateAuthentication admits the caller *)
  m_op_limited : bool }.     (* AllowOperation would refuse (READ/WRITE above 64 KiB, READDIR, READDIRPLUS, MNT) *)

Definition e_string (s : bytes) : bytes := e_opaque s.
Definition mnt_dump_reply : bytes := e_u32 0.
Definition mnt_export_reply : bytes := e_u32 1 ++ e_string [47] ++ e_u32 0 ++ e_u32 0.

(* [handler]: the bytes the procedure handler leaves in reply.Data (for the model: encode_results of Srv.step's
   observation); [args_ok]: the dirpath argument of MNT / UMNT decodes; [large]: READ / WRITE count above 65536 *)
Definition call_reply (m : cmode) (prog vers proc : N) (args_ok large : bool) (handler : bytes) : areply :=
  if m_drain m then drain_reply prog vers proc
  else if negb (m_auth_ok m) then ADenied
  else if prog =? mount_prog then
    if negb (vers =? 1) && negb (vers =? mount_v3) then AAccepted a_prog_mismatch []
    else if proc =? 0 then AAccepted a_success []
    else if proc =? 1 then
      (if m_op_limited m then AAccepted a_success (nfs_error FVoid MNT_SERVERFAULT)
       else if negb args_ok then AAccepted a_garbage []
       else AAccepted a_success handler)
    else if proc =? 2 then AAccepted a_success mnt_dump_reply
    else if proc =? 3 then (if negb args_ok then AAccepted a_garbage [] else AAccepted a_success [])
    else if proc =? 4 then AAccepted a_success []
    else if proc =? 5 then AAccepted a_success mnt_export_reply
    else AAccepted a_proc_unavail []
  else if prog =? nfs_prog then
    if negb (vers =? nfs_v3) then AAccepted a_prog_mismatch []
    else match nfs_proc proc with
         | None => AAccepted a_proc_unavail []
         | Some p =>
             (* the rate-limit branch of handleRead / handleWrite / handleReaddir / handleReaddirplus sits behind the
                argument decoding and (WRITE) the read-only guard: [handler] already accounts for those *)
             AAccepted a_success handler
         end
  else AAccepted a_prog_unavail [].
(* the rate-limit answer of the four limited NFS procedures (known finding k=2: 10013 is not an nfsstat3 value) *)
Definition limited_reply (p : rproc) : bytes := nfs_error (fail_shape p) DELAY.

(* EncodeRPCReply on an areply (null verifier; PROG_MISMATCH always carries low = high = 3) *)
Definition wire_of (xid : N) (a : areply) : bytes :=
  match a with
  | ADenied => enc_denied_auth xid 1
  | AAccepted acc data =>
      if acc =? AS_PROG_MISMATCH then enc_accepted xid acc (e_u32 3 ++ e_u32 3)
      else if acc =? AS_SUCCESS then enc_accepted xid acc data
      else enc_accepted xid acc []
  end.
