(* Model/Access.v — the permission computation of handleAccess (nfs_proc_attr.go) and an
   independent statement of the UNIX rule it has to follow (C12).  No proofs in this file.

   Go (current /repo):
       fileMode := attrs.Mode; fileUid := attrs.Uid; fileGid := attrs.Gid
       isDir := attrs.Mode&os.ModeDir != 0
       if effectiveUID == fileUid          { permBits = (fileMode >> 6) & 7 }
       else if effectiveGID == fileGid     { permBits = (fileMode >> 3) & 7 }
       else { member := AuthSys != nil && fileGid in AuthSys.AuxGIDs
              if member { permBits = (fileMode >> 3) & 7 } else { permBits = fileMode & 7 } }
       if effectiveUID == 0 { permBits = 7 }
       READ    if access&READ    && permBits&4
       LOOKUP  if access&LOOKUP  && isDir && permBits&1
       EXECUTE if access&EXECUTE && permBits&1
       if !ReadOnly { MODIFY if ..&& permBits&2; EXTEND if ..&& permBits&2; DELETE if ..&& isDir && permBits&2 }
   Numbers are unbounded N: the mode is any os.FileMode value (and beyond), ids and the mask any value. *)
From Coq Require Import List NArith ZArith Bool.
From Verif Require Import Gen.Facts.
Import ListNotations.
Open Scope N_scope.

(* ACCESS3_* come from the package constants of /repo (Gen/Facts.v, regenerated on every run) *)
Definition A_READ    : N := Z.to_N c_ACCESS3_READ.
Definition A_LOOKUP  : N := Z.to_N c_ACCESS3_LOOKUP.
Definition A_MODIFY  : N := Z.to_N c_ACCESS3_MODIFY.
Definition A_EXTEND  : N := Z.to_N c_ACCESS3_EXTEND.
Definition A_DELETE  : N := Z.to_N c_ACCESS3_DELETE.
Definition A_EXECUTE : N := Z.to_N c_ACCESS3_EXECUTE.

(* os.ModeDir = 1 << 31 (Go standard library, io/fs) *)
Definition mode_dir_bit : N := 31.
Definition ModeDir : N := N.shiftl 1 mode_dir_bit.

Definition nz (x : N) : bool := negb (x =? 0).

(* ---------- code-level model ---------- *)

(* the caller's side of the request: effective ids after squashing, and AuthSys (None = nil pointer) *)
Record caller := { eff_uid : N; eff_gid : N; aux_gids : option (list N) }.

Definition is_group_member (c : caller) (fgid : N) : bool :=
  match aux_gids c with
  | Some l => existsb (fun g => g =? fgid) l
  | None => false
  end.

Definition perm_bits (mode fuid fgid : N) (c : caller) : N :=
  let pb :=
    if eff_uid c =? fuid then N.land (N.shiftr mode 6) 7
    else if eff_gid c =? fgid then N.land (N.shiftr mode 3) 7
    else if is_group_member c fgid then N.land (N.shiftr mode 3) 7
    else N.land mode 7 in
  if eff_uid c =? 0 then 7 else pb.

Definition is_dir (mode : N) : bool := nz (N.land mode ModeDir).

(* the six conditional ORs *)
Definition access_bits (pb : N) (isDir ro : bool) (access : N) : N :=
  let a0 := 0 in
  let a1 := if nz (N.land access A_READ) && nz (N.land pb 4) then N.lor a0 A_READ else a0 in
  let a2 := if nz (N.land access A_LOOKUP) && isDir && nz (N.land pb 1) then N.lor a1 A_LOOKUP else a1 in
  let a3 := if nz (N.land access A_EXECUTE) && nz (N.land pb 1) then N.lor a2 A_EXECUTE else a2 in
  if negb ro then
    let a4 := if nz (N.land access A_MODIFY) && nz (N.land pb 2) then N.lor a3 A_MODIFY else a3 in
    let a5 := if nz (N.land access A_EXTEND) && nz (N.land pb 2) then N.lor a4 A_EXTEND else a4 in
    if nz (N.land access A_DELETE) && isDir && nz (N.land pb 2) then N.lor a5 A_DELETE else a5
  else a3.

(* handleAccess's `access` reply word, for an object with the given mode/owner/group *)
Definition handle_access (mode fuid fgid : N) (c : caller) (access : N) (ro : bool) : N :=
  access_bits (perm_bits mode fuid fgid c) (is_dir mode) ro access.

(* ---------- specification: the UNIX permission rule, stated independently ---------- *)

Inductive uclass := URoot | UOwner | UGroup | UOther.
Inductive uperm := PRead | PWrite | PExec.

(* which class of the object's permission bits governs the caller *)
Definition class_of (fuid fgid : N) (c : caller) : uclass :=
  if eff_uid c =? 0 then URoot
  else if eff_uid c =? fuid then UOwner
  else if (eff_gid c =? fgid) || is_group_member c fgid then UGroup
  else UOther.

(* rwx of owner are mode bits 8,7,6; of group 5,4,3; of other 2,1,0; root may do everything *)
Definition perm_index (p : uperm) : N := match p with PRead => 2 | PWrite => 1 | PExec => 0 end.
Definition may (cl : uclass) (mode : N) (p : uperm) : bool :=
  match cl with
  | URoot => true
  | UOwner => N.testbit mode (6 + perm_index p)
  | UGroup => N.testbit mode (3 + perm_index p)
  | UOther => N.testbit mode (perm_index p)
  end.

Inductive abit := BRead | BLookup | BModify | BExtend | BDelete | BExecute.
Definition all_abits := [BRead; BLookup; BModify; BExtend; BDelete; BExecute].
(* RFC 1813: ACCESS3_READ 0x01, LOOKUP 0x02, MODIFY 0x04, EXTEND 0x08, DELETE 0x10, EXECUTE 0x20 *)
Definition abit_index (b : abit) : N :=
  match b with BRead => 0 | BLookup => 1 | BModify => 2 | BExtend => 3 | BDelete => 4 | BExecute => 5 end.

(* what the rule permits: LOOKUP and DELETE exist only on directories; nothing that changes the
   object is permitted on a read-only export *)
Definition permitted (cl : uclass) (mode : N) (isDir ro : bool) (b : abit) : bool :=
  match b with
  | BRead => may cl mode PRead
  | BLookup => isDir && may cl mode PExec
  | BExecute => may cl mode PExec
  | BModify => negb ro && may cl mode PWrite
  | BExtend => negb ro && may cl mode PWrite
  | BDelete => negb ro && isDir && may cl mode PWrite
  end.

(* granted = requested ∩ permitted, as a bit set *)
Definition unix_access (mode fuid fgid : N) (c : caller) (access : N) (ro : bool) : N :=
  let cl := class_of fuid fgid c in
  let isDir := N.testbit mode mode_dir_bit in
  fold_right (fun b acc =>
      if N.testbit access (abit_index b) && permitted cl mode isDir ro b then acc + 2 ^ abit_index b else acc)
    0 all_abits.

(* ---------- the finite core both sides factor through (used by the exhaustive sweep) ---------- *)

Inductive gclass := GRoot | GOwner | GGroup | GAux | GOther.
Definition all_gclasses := [GRoot; GOwner; GGroup; GAux; GOther].

(* the branch handleAccess takes *)
Definition gclass_of (fuid fgid : N) (c : caller) : gclass :=
  if eff_uid c =? 0 then GRoot
  else if eff_uid c =? fuid then GOwner
  else if eff_gid c =? fgid then GGroup
  else if is_group_member c fgid then GAux
  else GOther.

Definition perm_of_gclass (g : gclass) (m9 : N) : N :=
  match g with
  | GRoot => 7
  | GOwner => N.land (N.shiftr m9 6) 7
  | GGroup | GAux => N.land (N.shiftr m9 3) 7
  | GOther => N.land m9 7
  end.
Definition small_impl (g : gclass) (m9 : N) (isDir ro : bool) (a6 : N) : N :=
  access_bits (perm_of_gclass g m9) isDir ro a6.

Definition uclass_of_gclass (g : gclass) : uclass :=
  match g with GRoot => URoot | GOwner => UOwner | GGroup | GAux => UGroup | GOther => UOther end.
Definition small_spec (g : gclass) (m9 : N) (isDir ro : bool) (a6 : N) : N :=
  fold_right (fun b acc =>
      if N.testbit a6 (abit_index b) && permitted (uclass_of_gclass g) m9 isDir ro b then acc + 2 ^ abit_index b else acc)
    0 all_abits.

Fixpoint range_from (start : N) (n : nat) : list N :=
  match n with O => [] | S k => start :: range_from (start + 1) k end.
Definition modes9 : list N := range_from 0 (N.to_nat 512).
Definition masks6 : list N := range_from 0 (N.to_nat 64).

(* one point of the sweep: equality with the rule, subset of the request, nothing beyond the six bits *)
Definition point_ok (g : gclass) (m9 : N) (d ro : bool) (a6 : N) : bool :=
  let r := small_impl g m9 d ro a6 in
  (r =? small_spec g m9 d ro a6) && (N.land r a6 =? r) && (r <? 64).

(* a notation, not a constant: the kernel must never have to unfold it against its own body *)
Notation sweep :=
  (forallb (fun g => forallb (fun m9 => forallb (fun d => forallb (fun ro => forallb (fun a6 =>
    point_ok g m9 d ro a6) masks6) [false; true]) [false; true]) modes9) all_gclasses).
