(* Model/Config.v — executable model of the configuration logic of absnfs (C24).
   No proofs here: the model must keep running when a proof breaks.

   Go (absnfs.go, options.go)                          Gallina
     ExportOptions = TuningOptions + PolicyOptions       export_options := tuning * policy
       (tuningFromExportOptions / policyFromExportOptions / exportOptionsFromSnapshots copy field by field;
        that every field is copied is the fact-level obligation C24_facts)
     int / time.Duration fields                          Z (durations in ns)        num : nfield -> Z
     bool fields                                         flag : bfield -> bool
     *TimeoutConfig                                      option (tfield -> Z)
     *LogConfig, *RateLimiterConfig, *TLSConfig          option N   (identity of the pointed-to value)
     n.tuning / n.policy atomic pointers                 s_tuning / s_policy
     attrCache, dirCache, workerPool, rateLimiter        components (the parameters they actually run with)
     New                                                 new
     UpdateTuningOptions(fn)                             update_tuning fn     (fn : tuning -> tuning, arbitrary)
     UpdateExportOptions(o)                              update_export o
     UpdatePolicyOptions(p)                              update_policy p
     GetExportOptions()                                  get_export_options
   The default VALUES and the ORDER of the steps inside the three update functions are not restated here:
   they are read from Gen/Facts.v (cfg_new_defaults, cfg_rt_defaults, cfg_update_*_steps ...), which astfacts
   regenerates from /repo on every run.  runtime.NumCPU() is the parameter [ncpu] (theorems: any ncpu > 0).

   Not modelled: fs == nil, logger construction errors, fs.Stat("/") failing in New (all return an error before a
   server exists); the structured logger replacement; concurrency (tuningMu / policyMu serialise updates; C16). *)
From Coq Require Import List ZArith NArith Bool String Ascii.
From Verif Require Import Gen.Facts.
Import ListNotations.
Open Scope Z_scope.

(* ---------- fields ---------- *)
Inductive nfield := TransferSize | AttrCacheTimeout | AttrCacheSize | NegativeCacheTimeout | DirCacheTimeout
  | DirCacheMaxEntries | DirCacheMaxDirSize | MaxWorkers | MaxConnections | IdleTimeout | SendBufferSize | ReceiveBufferSize.
Inductive bfield := CacheNegativeLookups | EnableDirCache | TCPKeepAlive | TCPNoDelay | Async.
Inductive tfield := ReadTimeout | WriteTimeout | LookupTimeout | ReaddirTimeout | CreateTimeout | RemoveTimeout
  | RenameTimeout | HandleTimeout | DefaultTimeout.

Definition all_nfields := [TransferSize; AttrCacheTimeout; AttrCacheSize; NegativeCacheTimeout; DirCacheTimeout;
  DirCacheMaxEntries; DirCacheMaxDirSize; MaxWorkers; MaxConnections; IdleTimeout; SendBufferSize; ReceiveBufferSize].
Definition all_bfields := [CacheNegativeLookups; EnableDirCache; TCPKeepAlive; TCPNoDelay; Async].
Definition all_tfields := [ReadTimeout; WriteTimeout; LookupTimeout; ReaddirTimeout; CreateTimeout; RemoveTimeout;
  RenameTimeout; HandleTimeout; DefaultTimeout].

(* the Go field names, used to look the defaults up in the extracted tables *)
Definition nfield_name (f : nfield) : string :=
  match f with
  | TransferSize => "TransferSize" | AttrCacheTimeout => "AttrCacheTimeout" | AttrCacheSize => "AttrCacheSize"
  | NegativeCacheTimeout => "NegativeCacheTimeout" | DirCacheTimeout => "DirCacheTimeout"
  | DirCacheMaxEntries => "DirCacheMaxEntries" | DirCacheMaxDirSize => "DirCacheMaxDirSize" | MaxWorkers => "MaxWorkers"
  | MaxConnections => "MaxConnections" | IdleTimeout => "IdleTimeout" | SendBufferSize => "SendBufferSize"
  | ReceiveBufferSize => "ReceiveBufferSize"
  end%string.
Definition bfield_name (f : bfield) : string :=
  match f with
  | CacheNegativeLookups => "CacheNegativeLookups" | EnableDirCache => "EnableDirCache" | TCPKeepAlive => "TCPKeepAlive"
  | TCPNoDelay => "TCPNoDelay" | Async => "Async"
  end%string.
Definition tfield_name (f : tfield) : string :=
  match f with
  | ReadTimeout => "ReadTimeout" | WriteTimeout => "WriteTimeout" | LookupTimeout => "LookupTimeout"
  | ReaddirTimeout => "ReaddirTimeout" | CreateTimeout => "CreateTimeout" | RemoveTimeout => "RemoveTimeout"
  | RenameTimeout => "RenameTimeout" | HandleTimeout => "HandleTimeout" | DefaultTimeout => "DefaultTimeout"
  end%string.

Definition nfield_eqb (a b : nfield) : bool := String.eqb (nfield_name a) (nfield_name b).
Definition bfield_eqb (a b : bfield) : bool := String.eqb (bfield_name a) (bfield_name b).

(* ---------- option structs ---------- *)
Record tuning := mkTuning {
  num : nfield -> Z;
  flag : bfield -> bool;
  log : option N;
  timeouts : option (tfield -> Z) }.

Record policy := mkPolicy {
  read_only : bool; secure : bool; allowed_ips : list string; squash : string; max_file_size : Z;
  enable_rl : bool; rlc : option N; tls : option N }.

Definition export_options := (tuning * policy)%type.

Definition set_num (t : tuning) (g : nfield -> Z) := mkTuning g (flag t) (log t) (timeouts t).
Definition set_flag (t : tuning) (g : bfield -> bool) := mkTuning (num t) g (log t) (timeouts t).
Definition set_log (t : tuning) (l : option N) := mkTuning (num t) (flag t) l (timeouts t).
Definition set_timeouts (t : tuning) (x : option (tfield -> Z)) := mkTuning (num t) (flag t) (log t) x.
Definition set_squash (p : policy) (s : string) :=
  mkPolicy (read_only p) (secure p) (allowed_ips p) s (max_file_size p) (enable_rl p) (rlc p) (tls p).
Definition set_rlc (p : policy) (r : option N) :=
  mkPolicy (read_only p) (secure p) (allowed_ips p) (squash p) (max_file_size p) (enable_rl p) r (tls p).

(* ---------- defaults, from the extracted tables ---------- *)
Fixpoint cfg_lookup (tbl : list (string * cfg_dexpr)) (f : string) : option cfg_dexpr :=
  match tbl with
  | [] => None
  | (g, d) :: r => if String.eqb f g then Some d else cfg_lookup r f
  end.
Definition cfg_eval (ncpu : Z) (d : cfg_dexpr) : Z :=
  match d with CfgConst z => z | CfgNumCPUTimes k => ncpu * k end.
(* `if x.F <= 0 { x.F = d }` when the table has a row for F; a field without a row is left as given *)
Definition defaulted (ncpu : Z) (tbl : list (string * cfg_dexpr)) (f : string) (v : Z) : Z :=
  match cfg_lookup tbl f with
  | Some d => if v <=? 0 then cfg_eval ncpu d else v
  | None => v
  end.
(* a composite literal: fields without a row keep Go's zero value *)
Definition literal (ncpu : Z) (tbl : list (string * cfg_dexpr)) (f : string) : Z :=
  match cfg_lookup tbl f with Some d => cfg_eval ncpu d | None => 0 end.
Definition mem_str (s : string) (l : list string) : bool := existsb (String.eqb s) l.

(* identity of DefaultRateLimiterConfig() among the *RateLimiterConfig values *)
Definition default_rlc : N := 0%N.

(* ---------- New ---------- *)
Fixpoint lower (s : string) : string :=
  match s with
  | EmptyString => EmptyString
  | String c r =>
      let n := nat_of_ascii c in
      String (if (Nat.leb 65 n && Nat.leb n 90)%bool then ascii_of_nat (n + 32) else c) (lower r)
  end.
Definition squash_valid (s : string) : bool :=
  let l := lower s in
  (String.eqb l "" || String.eqb l "root" || String.eqb l "all" || String.eqb l "none")%string.

Definition new_tuning (ncpu : Z) (t : tuning) : tuning :=
  mkTuning
    (fun f => defaulted ncpu cfg_new_defaults (nfield_name f) (num t f))
    (fun f => if mem_str (bfield_name f) cfg_new_tcp_forced then true else flag t f)
    (log t)
    (Some match timeouts t with
          | None => fun f => literal ncpu cfg_new_timeouts_nil (tfield_name f)
          | Some g => fun f => defaulted ncpu cfg_new_timeouts_fill (tfield_name f) (g f)
          end).
Definition new_policy (p : policy) : policy :=
  set_rlc p (match rlc p with None => if cfg_new_rlc_defaulted then Some default_rlc else None | r => r end).

(* the parameters the components run with *)
Record components := mkComp {
  c_attr_size : Z; c_attr_ttl : Z; c_neg_enabled : bool; c_neg_ttl : Z;
  c_dir : option (Z * Z * Z);       (* directory cache, if one exists: timeout, max entries, max dir size *)
  c_pool : Z;
  c_limiter : option N }.           (* rate limiter in force: the configuration it was built from *)

Record server := mkServer { s_tuning : tuning; s_policy : policy; s_comp : components }.

Definition new_components (t : tuning) (p : policy) : components :=
  mkComp (num t AttrCacheSize) (num t AttrCacheTimeout)
         (flag t CacheNegativeLookups)
         (if 0 <? num t NegativeCacheTimeout then num t NegativeCacheTimeout else 5000000000)
         (if flag t EnableDirCache then Some (num t DirCacheTimeout, num t DirCacheMaxEntries, num t DirCacheMaxDirSize) else None)
         (num t MaxWorkers)
         (if enable_rl p then rlc p else None).

Definition new (ncpu : Z) (o : export_options) : option server :=
  if squash_valid (squash (snd o)) then
    let t := new_tuning ncpu (fst o) in
    let p := new_policy (snd o) in
    Some (mkServer t p (new_components t p))
  else None.

(* ---------- UpdateTuningOptions ---------- *)
Definition apply_tuning_defaults (ncpu : Z) (t : tuning) : tuning :=
  mkTuning
    (fun f => defaulted ncpu cfg_rt_defaults (nfield_name f) (num t f))
    (flag t) (log t)
    (match timeouts t with
     | None => if cfg_rt_timeouts_nil_alloc
               then Some (fun f => defaulted ncpu cfg_rt_timeouts (tfield_name f) 0)
               else None   (* Go would dereference nil here; no defaults table => nothing happens *)
     | Some g => Some (fun f => defaulted ncpu cfg_rt_timeouts (tfield_name f) (g f))
     end).

Definition zneqb (a b : Z) : bool := negb (a =? b).
(* applyTuningSideEffects(old, updated) *)
Definition side_effects (old upd : tuning) (c : components) : components :=
  let ch f := ((0 <? num upd f) && zneqb (num upd f) (num old f))%bool in
  let neg_ch := (negb (Bool.eqb (flag upd CacheNegativeLookups) (flag old CacheNegativeLookups))
                 || zneqb (num upd NegativeCacheTimeout) (num old NegativeCacheTimeout))%bool in
  mkComp
    (if ch AttrCacheSize then num upd AttrCacheSize else c_attr_size c)
    (if ch AttrCacheTimeout then num upd AttrCacheTimeout else c_attr_ttl c)
    (if neg_ch then flag upd CacheNegativeLookups else c_neg_enabled c)
    (if (neg_ch && (0 <? num upd NegativeCacheTimeout))%bool then num upd NegativeCacheTimeout else c_neg_ttl c)
    (match c_dir c with
     | None => None
     | Some (ttl, me, mds) =>
         Some (if ch DirCacheTimeout then num upd DirCacheTimeout else ttl,
               if ch DirCacheMaxEntries then num upd DirCacheMaxEntries else me,
               mds)
     end)
    (if ch MaxWorkers then num upd MaxWorkers else c_pool c)
    (c_limiter c).

Record tu_state := mkTu { tu_updated : tuning; tu_stored : tuning; tu_comp : components }.
Definition tu_step (ncpu : Z) (fn : tuning -> tuning) (old : tuning) (st : tu_state) (step : string) : tu_state :=
  if String.eqb step "fn" then mkTu (fn (tu_updated st)) (tu_stored st) (tu_comp st)
  else if String.eqb step "defaults" then mkTu (apply_tuning_defaults ncpu (tu_updated st)) (tu_stored st) (tu_comp st)
  else if String.eqb step "store" then mkTu (tu_updated st) (tu_updated st) (tu_comp st)
  else if String.eqb step "side_effects" then mkTu (tu_updated st) (tu_stored st) (side_effects old (tu_updated st) (tu_comp st))
  else st.
Definition update_tuning (ncpu : Z) (fn : tuning -> tuning) (s : server) : server :=
  let st := fold_left (tu_step ncpu fn (s_tuning s)) cfg_update_tuning_steps
                      (mkTu (s_tuning s) (s_tuning s) (s_comp s)) in
  mkServer (tu_stored st) (s_policy s) (tu_comp st).

(* ---------- UpdatePolicyOptions ---------- *)
Record up_state := mkUp { up_p : policy; up_s : server; up_err : bool }.
Definition up_step (st : up_state) (step : string) : up_state :=
  if up_err st then st else
  let s := up_s st in let p := up_p st in
  if String.eqb step "squash_check" then
    if String.eqb (squash (s_policy s)) (squash p) then st else mkUp p s true
  else if String.eqb step "rlc_default" then
    mkUp (set_rlc p (match rlc p with None => Some default_rlc | r => r end)) s false
  else if String.eqb step "store" then mkUp p (mkServer (s_tuning s) p (s_comp s)) false
  else if String.eqb step "limiter" then
    let c := s_comp s in
    let lim := match rlc p with
               | Some r => if enable_rl p then Some r else None
               | None => if enable_rl p then c_limiter c else None
               end in
    mkUp p (mkServer (s_tuning s) (s_policy s)
              (mkComp (c_attr_size c) (c_attr_ttl c) (c_neg_enabled c) (c_neg_ttl c) (c_dir c) (c_pool c) lim)) false
  else st.
(* returns (accepted?, new state) *)
Definition update_policy (p : policy) (s : server) : bool * server :=
  let st := fold_left up_step cfg_update_policy_steps (mkUp p s false) in
  (negb (up_err st), up_s st).

(* ---------- UpdateExportOptions ---------- *)
(* the mutation function it hands to UpdateTuningOptions *)
Definition merge_tuning (given cur : tuning) : tuning :=
  mkTuning (num given) (flag given)
    (match log given with None => if mem_str "Log" cfg_update_export_preserves then log cur else None | l => l end)
    (match timeouts given with None => if mem_str "Timeouts" cfg_update_export_preserves then timeouts cur else None | x => x end).
Record ue_state := mkUe { ue_s : server; ue_err : bool }.
Definition ue_step (ncpu : Z) (o : export_options) (cur_squash : string) (st : ue_state) (step : string) : ue_state :=
  if ue_err st then st else
  if String.eqb step "squash_check" then
    if (negb (String.eqb (squash (snd o)) "") && negb (String.eqb (squash (snd o)) cur_squash))%bool
    then mkUe (ue_s st) true else st
  else if String.eqb step "tuning" then mkUe (update_tuning ncpu (merge_tuning (fst o)) (ue_s st)) false
  else if String.eqb step "policy" then
    let r := update_policy (set_squash (snd o) cur_squash) (ue_s st) in mkUe (snd r) (negb (fst r))
  else st.
Definition update_export (ncpu : Z) (o : export_options) (s : server) : bool * server :=
  let st := fold_left (ue_step ncpu o (squash (s_policy s))) cfg_update_export_steps (mkUe s false) in
  (negb (ue_err st), ue_s st).

(* ---------- GetExportOptions ---------- *)
Definition get_export_options (s : server) : export_options := (s_tuning s, s_policy s).

(* ---------- histories ---------- *)
Inductive update :=
| UExport (o : export_options)
| UTuning (fn : tuning -> tuning)
| UPolicy (p : policy).
Definition apply_update (ncpu : Z) (s : server) (u : update) : bool * server :=
  match u with
  | UExport o => update_export ncpu o s
  | UTuning fn => (true, update_tuning ncpu fn s)
  | UPolicy p => update_policy p s
  end.
Definition run (ncpu : Z) (s : server) (us : list update) : server :=
  fold_left (fun s u => snd (apply_update ncpu s u)) us s.

(* ---------- what the property talks about ---------- *)
(* the value New gives a defaulted field *)
Definition new_default_num (ncpu : Z) (f : nfield) : Z := literal ncpu cfg_new_defaults (nfield_name f).
Definition new_default_timeout (ncpu : Z) (f : tfield) : Z := literal ncpu cfg_new_timeouts_nil (tfield_name f).

(* the server can serve READ / WRITE / LOOKUP: transfer size >= 1, every timeout > 0 *)
Definition serviceable (t : tuning) : Prop :=
  1 <= num t TransferSize /\ exists g, timeouts t = Some g /\ forall f, 0 < g f.

(* components agree with the report (all but the directory cache, see C24_reported_dircache_refuted) *)
Definition comp_agrees (s : server) : Prop :=
  let t := s_tuning s in let p := s_policy s in let c := s_comp s in
  c_attr_size c = num t AttrCacheSize /\ c_attr_ttl c = num t AttrCacheTimeout /\
  c_neg_enabled c = flag t CacheNegativeLookups /\ c_neg_ttl c = num t NegativeCacheTimeout /\
  c_pool c = num t MaxWorkers /\
  c_limiter c = (if enable_rl p then rlc p else None) /\
  (forall ttl me mds, c_dir c = Some (ttl, me, mds) -> ttl = num t DirCacheTimeout /\ me = num t DirCacheMaxEntries).
Definition dir_agrees (s : server) : Prop :=
  let t := s_tuning s in
  match c_dir (s_comp s) with
  | None => flag t EnableDirCache = false
  | Some (_, _, mds) => flag t EnableDirCache = true /\ mds = num t DirCacheMaxDirSize
  end.

(* boolean versions for the correspondence oracle *)
Definition comp_agrees_b (s : server) : bool :=
  let t := s_tuning s in let p := s_policy s in let c := s_comp s in
  ((c_attr_size c =? num t AttrCacheSize) && (c_attr_ttl c =? num t AttrCacheTimeout) &&
   Bool.eqb (c_neg_enabled c) (flag t CacheNegativeLookups) && (c_neg_ttl c =? num t NegativeCacheTimeout) &&
   (c_pool c =? num t MaxWorkers) &&
   match c_limiter c, (if enable_rl p then rlc p else None) with
   | Some a, Some b => N.eqb a b | None, None => true | _, _ => false end &&
   match c_dir c with
   | Some (ttl, me, _) => (ttl =? num t DirCacheTimeout) && (me =? num t DirCacheMaxEntries)
   | None => true
   end)%bool.
Definition dir_agrees_b (s : server) : bool :=
  let t := s_tuning s in
  match c_dir (s_comp s) with
  | None => negb (flag t EnableDirCache)
  | Some (_, _, mds) => (flag t EnableDirCache && (mds =? num t DirCacheMaxDirSize))%bool
  end.

(* ---------- spec layer: "takes the same defaults as at construction" ---------- *)
(* [result] is [given] with every non-positive numeric / duration field, every non-positive timeout and a nil
   Timeouts replaced by the value New uses, and everything positive left as given *)
Definition defaults_applied (ncpu : Z) (given result : tuning) : Prop :=
  (forall f, (num given f <= 0 -> num result f = new_default_num ncpu f) /\
             (0 < num given f -> num result f = num given f)) /\
  exists h, timeouts result = Some h /\
    match timeouts given with
    | None => forall f, h f = new_default_timeout ncpu f
    | Some g => forall f, (g f <= 0 -> h f = new_default_timeout ncpu f) /\ (0 < g f -> h f = g f)
    end.
(* what an update hands in for the tuning half / the policy half *)
Definition given_tuning (u : update) (s : server) : option tuning :=
  match u with UExport o => Some (fst o) | UTuning fn => Some (fn (s_tuning s)) | UPolicy _ => None end.
Definition given_policy (u : update) : option policy :=
  match u with UExport o => Some (snd o) | UTuning _ => None | UPolicy p => Some p end.
(* the same, reading a nil Timeouts / Log handed to UpdateExportOptions as "not provided: keep the current value"
   (what the code does and documents; known finding C24 k=1) *)
Definition effective_tuning (u : update) (s : server) : option tuning :=
  match u with
  | UExport o => Some (merge_tuning (fst o) (s_tuning s))
  | UTuning fn => Some (fn (s_tuning s))
  | UPolicy _ => None
  end.
Definition positive_config (s : server) : Prop :=
  (forall f, 0 < num (s_tuning s) f) /\
  (exists g, timeouts (s_tuning s) = Some g /\ forall f, 0 < g f) /\
  rlc (s_policy s) <> None.
