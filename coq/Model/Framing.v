(* Model/Framing.v — which TCP framing a server started through each public start path uses (C28).
   Thin by nature: the framing is decided by one boolean, ServerOptions.UseRecordMarking, read by acceptLoop for
   every accepted connection.  Who sets that boolean is read from /repo by astfacts (Gen/Facts.v):
     cfg_export_sets_record_marking   the ServerOptions literal in AbsfsNFS.Export has UseRecordMarking: true
     cfg_swp_sets_record_marking      StartWithPortmapper assigns s.options.UseRecordMarking = true before s.Listen()
     cfg_accept_dispatches_on_flag    acceptLoop: if s.options.UseRecordMarking { record-marking loop } else { raw loop }
     cfg_rm_loop_uses_record_io / cfg_raw_loop_uses_raw_io   the two loops build recordMarkingConnIO / rawConnIO
   (astfacts also refuses a tree in which Listen, acceptLoop or SetHandler assign the flag).
   No proofs here. *)
From Coq Require Import ZArith Bool String.
From Verif Require Import Gen.Facts.
Open Scope Z_scope.

Inductive framing := Raw | RecordMarked.

(* the public ways to start a server, with the options the caller controls *)
Inductive start_path :=
| ViaExport (mount_path : string) (port : Z)                       (* AbsfsNFS.Export(mountPath, port) *)
| ViaListen (port : Z) (debug use_record_marking : bool)           (* NewServer(opts); SetHandler; Listen() *)
| ViaStartWithPortmapper (port : Z) (debug use_record_marking : bool).  (* ...; StartWithPortmapper() *)

Inductive start_result := Refused | Started (f : framing).

(* the UseRecordMarking flag in force when acceptLoop runs; None = the call returns an error before listening *)
Definition flag_at_accept (p : start_path) : option bool :=
  match p with
  | ViaExport mp port =>
      if (String.eqb mp "" || (port <? 0))%bool then None else Some cfg_export_sets_record_marking
  | ViaListen port _ rm => if port <? 0 then None else Some rm
  | ViaStartWithPortmapper port _ rm =>
      if port <? 0 then None else Some (if cfg_swp_sets_record_marking then true else rm)
  end.

Definition loop_framing (flag : bool) : framing :=
  if cfg_accept_dispatches_on_flag
  then (if flag then (if cfg_rm_loop_uses_record_io then RecordMarked else Raw)
        else (if cfg_raw_loop_uses_raw_io then Raw else RecordMarked))
  else Raw.

Definition start (p : start_path) : start_result :=
  match flag_at_accept p with None => Refused | Some b => Started (loop_framing b) end.

(* the start paths the documentation gives for standard clients: Export (README / quick start),
   Listen with UseRecordMarking (ServerOptions doc: "required for standard NFS clients"), StartWithPortmapper *)
Definition documented (p : start_path) : bool :=
  match p with
  | ViaExport mp port => (negb (String.eqb mp "") && (0 <=? port))%bool
  | ViaListen port _ rm => ((0 <=? port) && rm)%bool
  | ViaStartWithPortmapper port _ _ => 0 <=? port
  end.
