(* Model/Fsinfo32.v — width-faithful model of the places where TransferSize (a Go int, 64 bit) meets the 32-bit
   counts of the protocol (property C23).  Model/Srv.v keeps tsize as an unbounded N and is faithful for
   tsize < 2^32 (proved in Proofs/Fsinfo.v); the Go code converts with uint32(...) in handleFsinfo and handleWrite:

     handleFsinfo:  maxXfer := uint32(DefaultMaxRecordSize - recordHeadroom)
                    if ts := TransferSize; ts > 0 && uint32(ts) < maxXfer { maxXfer = uint32(ts) }
                    fields: maxXfer | atMost(K) = min(K, maxXfer) | constants        (read from the source: f_fsinfo_fields)
     handleWrite:   maxWriteSize := uint32(TransferSize); if maxWriteSize == 0 { maxWriteSize = 1048576 }
                    if count > maxWriteSize { NFS3ERR_INVAL }
     Read:          if count > int64(TransferSize) { count = int64(TransferSize) }    (no truncation)

   The shapes above are checked, and the literals supplied, by harness/tools/astfacts/x_paging.go.  No proofs here. *)
From Coq Require Import List NArith ZArith Bool String.
From Verif Require Import Gen.Facts.
Import ListNotations.
Open Scope N_scope.

Definition two32 : N := 4294967296.
Definition u32 (x : N) : N := x mod two32.

(* ---------- FSINFO ---------- *)
Definition go_cap : N := Z.to_N f_fsinfo_cap.
Definition go_fsinfo_max (ts : N) : N := if (0 <? ts) && (u32 ts <? go_cap) then u32 ts else go_cap.
(* one encoded field of the reply: None for an expression that is neither maxXfer, atMost(K) nor a constant *)
Definition go_field (m : N) (f : string * Z) : option N :=
  if String.eqb (fst f) "max" then Some m
  else if String.eqb (fst f) "atmost" then Some (N.min (Z.to_N (snd f)) m)
  else if String.eqb (fst f) "const" then Some (Z.to_N (snd f))
  else None.
Fixpoint somes {A} (l : list (option A)) : list A :=
  match l with [] => [] | Some x :: r => x :: somes r | None :: r => somes r end.
(* the transfer-size dependent fields (kinds max / atmost), in reply order: rtmax rtpref rtmult wtmax wtpref wtmult *)
Definition go_clamped_fields : list (string * Z) :=
  filter (fun f => String.eqb (fst f) "max" || String.eqb (fst f) "atmost") f_fsinfo_fields.
Definition go_fsinfo_nums (ts : N) : list N := somes (map (go_field (go_fsinfo_max ts)) go_clamped_fields).
(* every numeric field of the reply in order (the properties word is not a literal) *)
Definition go_fsinfo_all (ts : N) : list N := somes (map (go_field (go_fsinfo_max ts)) f_fsinfo_fields).

(* ---------- WRITE ---------- *)
Definition go_write_max (ts : N) : N := if u32 ts =? 0 then Z.to_N f_write_zero_fallback else u32 ts.
Definition go_write_refused (ts cnt : N) : bool := go_write_max ts <? cnt.
Definition go_write_status (ts cnt : N) : N := if go_write_refused ts cnt then Z.to_N f_write_bound_status else 0.

(* ---------- READ ---------- *)
(* bytes returned by a READ of cnt bytes at off in a regular file of the given size (off < 2^63) *)
Definition go_read_count (ts cnt size off : N) : N :=
  if size <=? off then 0 else N.min (N.min cnt ts) (size - off).

(* ---------- one RPC record ---------- *)
(* call header: xid, msg type, rpc version, program, version, procedure; credential and verifier as
   flavor + length + body (padded); the bodies are bounded by f_cred_limit / f_verf_limit *)
Definition pad4n (n : N) : N := (n + 3) / 4 * 4.
Definition rpc_call_header_len (cred verf : N) : N := 6 * 4 + (4 + 4 + pad4n cred) + (4 + 4 + pad4n verf).
(* WRITE3args: file handle (length word + f_fh_len bytes), offset, count, stable, data<> *)
Definition write_args_len (cnt : N) : N := (4 + Z.to_N f_fh_len) + 8 + 4 + 4 + (4 + pad4n cnt).
Definition write_record_len (cred verf cnt : N) : N := rpc_call_header_len cred verf + write_args_len cnt.
(* accepted reply header: xid, REPLY, MSG_ACCEPTED, verifier (flavor + length + body), SUCCESS;
   READ3resok: status, post_op_attr, count, eof, data<> *)
Definition rpc_reply_header_len (verf : N) : N := 3 * 4 + (4 + 4 + pad4n verf) + 4.
Definition read_reply_len (verf cnt : N) : N := rpc_reply_header_len verf + 4 + (4 + 84) + 4 + 4 + (4 + pad4n cnt).
Definition record_limit : N := Z.to_N c_DefaultMaxRecordSize.
(* ReadRecord refuses a record when its accumulated size exceeds the limit *)
Definition record_accepted (len : N) : bool := len <=? record_limit.
