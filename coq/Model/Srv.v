(* Model/Srv.v — code-level model of the NFSv3/MOUNT procedure handlers over Model/Backend.v.
   Mirrors, at the granularity the properties need: every backend call (in order, with its path
   arguments), every attribute-cache / dir-cache Get/Put/Invalidate, every handle-table operation,
   the per-handle node attributes (NFSNode.attrs), every status and the decoded fields of every reply.
   Requests are decoded requests (byte-level decoding is Model/Xdr.v's business); credentials are the
   effective identity after squashing (Model/Auth*.v).  No proofs in this file.

   Sources mirrored: nfs_proc_attr.go, nfs_proc_readwrite.go, nfs_proc_create.go, nfs_proc_lookup.go,
   nfs_proc_remove.go, nfs_proc_dir.go, nfs_proc_handlers.go, mount_handlers.go, operations.go,
   nfs_operations.go, attributes.go, cache.go (simplified recency-list form), filehandle.go. *)
From Coq Require Import List NArith ZArith Bool.
From Verif Require Import Gen.Facts Model.Handles Model.Backend.
Import ListNotations.
Open Scope N_scope.

(* ---------- status codes (taken from the generated facts) ---------- *)
Definition st_ok : N := 0.
Definition st (z : Z) : N := Z.to_N z.
Definition NFSERR_PERM := st c_NFSERR_PERM.       Definition NFSERR_NOENT := st c_NFSERR_NOENT.
Definition NFSERR_IO := st c_NFSERR_IO.           Definition NFSERR_ACCES := st c_NFSERR_ACCES.
Definition NFSERR_EXIST := st c_NFSERR_EXIST.     Definition NFSERR_NOTDIR := st c_NFSERR_NOTDIR.
Definition NFSERR_ISDIR := st c_NFSERR_ISDIR.     Definition NFSERR_INVAL := st c_NFSERR_INVAL.
Definition NFSERR_FBIG := st c_NFSERR_FBIG.       Definition NFSERR_ROFS := st c_NFSERR_ROFS.
Definition NFSERR_NAMETOOLONG := st c_NFSERR_NAMETOOLONG.
Definition NFSERR_NOTEMPTY := st c_NFSERR_NOTEMPTY.
Definition NFSERR_STALE := st c_NFSERR_STALE.     Definition NFSERR_NOTSUPP := st c_NFSERR_NOTSUPP.
Definition NFSERR_NOT_SYNC := st c_NFSERR_NOT_SYNC.
Definition NFSERR_DELAY := st c_NFSERR_DELAY.
Definition GARBAGE : N := st c_GARBAGE_ARGS.

(* mapError on the errno values the backend contract produces (probe: ENOTEMPTY is os.ErrExist) *)
Definition map_error (e : errno) : N :=
  match e with
  | ENOENT => NFSERR_NOENT | EEXIST => NFSERR_EXIST | ENOTDIR => NFSERR_NOTDIR | EISDIR => NFSERR_ISDIR
  | ENOTEMPTY => NFSERR_EXIST | EFBIG => NFSERR_FBIG | _ => NFSERR_IO
  end.

(* ---------- FNV-1a 64 and path rendering ---------- *)
Definition two64 : N := 18446744073709551616.
Definition fnv_offset : N := 14695981039346656037.
Definition fnv_prime : N := 1099511628211.
Definition fnv1a (bs : list N) : N :=
  fold_left (fun h b => (N.lxor h b * fnv_prime) mod two64) bs fnv_offset.
Fixpoint render_aux (p : path) : list N :=
  match p with [] => [] | n :: r => slash :: n ++ render_aux r end.
Definition render (p : path) : list N := match p with [] => [slash] | _ => render_aux p end.
Definition fileid_of (p : path) : N := fnv1a (render p).

(* ---------- attributes as the server holds them (NFSAttrs) ---------- *)
Record nattrs := { na_kind : kind; na_perm : N; na_size : N; na_fileid : N; na_uid : N; na_gid : N;
                   na_mtime : N; na_atime : N }.
Definition attrs_of_info (fi : finfo) (fid uid gid : N) : nattrs :=
  {| na_kind := fi_kind fi; na_perm := fi_perm fi; na_size := fi_size fi; na_fileid := fid;
     na_uid := uid; na_gid := gid; na_mtime := fi_mtime fi; na_atime := fi_mtime fi |}.

(* ---------- caches (recency-ordered association lists: head = most recently used) ---------- *)
Record acentry := { ac_path : path; ac_attrs : option nattrs (* None = negative *); ac_expire : N }.
Record dcentry := { dc_path : path; dc_names : list name; dc_expire : N }.

Record cfg := {
  tsize : N;                 (* TransferSize *)
  ro : bool;                 (* policy.ReadOnly *)
  maxfile : N;               (* policy.MaxFileSize, 0 = unlimited *)
  attr_ttl : N; attr_cap : N;
  neg_on : bool; neg_ttl : N;
  dir_on : bool; dir_ttl : N; dir_cap : N; dir_maxsize : N
}.

Definition set_ro (c : cfg) (b : bool) : cfg :=
  {| tsize := tsize c; ro := b; maxfile := maxfile c; attr_ttl := attr_ttl c; attr_cap := attr_cap c; neg_on := neg_on c;
     neg_ttl := neg_ttl c; dir_on := dir_on c; dir_ttl := dir_ttl c; dir_cap := dir_cap c; dir_maxsize := dir_maxsize c |}.
Definition set_maxfile (c : cfg) (m : N) : cfg :=
  {| tsize := tsize c; ro := ro c; maxfile := m; attr_ttl := attr_ttl c; attr_cap := attr_cap c; neg_on := neg_on c;
     neg_ttl := neg_ttl c; dir_on := dir_on c; dir_ttl := dir_ttl c; dir_cap := dir_cap c; dir_maxsize := dir_maxsize c |}.
Definition set_tsize (c : cfg) (t : N) : cfg :=
  {| tsize := t; ro := ro c; maxfile := maxfile c; attr_ttl := attr_ttl c; attr_cap := attr_cap c; neg_on := neg_on c;
     neg_ttl := neg_ttl c; dir_on := dir_on c; dir_ttl := dir_ttl c; dir_cap := dir_cap c; dir_maxsize := dir_maxsize c |}.

(* one recorded backend call: (operation, path, second path / symlink target, two numbers) *)
Inductive bop := BLstat | BStat | BOpenR | BOpenW | BCreate | BMkdir | BRemove | BRename | BSymlink | BReadlink
               | BChmod | BChown | BLchown | BChtimes | BTruncate | BReadAt | BWriteAt | BSync | BReaddir.
Record bcall := { b_op : bop; b_path : path; b_path2 : list N; b_a : N; b_b : N }.
Definition mutating (c : bcall) : bool :=
  match b_op c with
  | BOpenW | BCreate | BMkdir | BRemove | BRename | BSymlink | BChmod | BChown | BLchown | BChtimes | BTruncate | BWriteAt => true
  | _ => false
  end.

Record srv := {
  fs : fsmap;
  hm : fhmap path;
  nodes : list (N * nattrs);          (* attrs of the NFSNode stored under each handle *)
  ac : list acentry;
  dc : list dcentry;
  conf : cfg;
  now : N;                            (* virtual clock, ns *)
  blog : list bcall                   (* backend calls of the current request, most recent first *)
}.

Definition with_fs (s : srv) (f : fsmap) : srv :=
  {| fs := f; hm := hm s; nodes := nodes s; ac := ac s; dc := dc s; conf := conf s; now := now s; blog := blog s |}.
Definition with_hm (s : srv) (h : fhmap path) : srv :=
  {| fs := fs s; hm := h; nodes := nodes s; ac := ac s; dc := dc s; conf := conf s; now := now s; blog := blog s |}.
Definition with_nodes (s : srv) (n : list (N * nattrs)) : srv :=
  {| fs := fs s; hm := hm s; nodes := n; ac := ac s; dc := dc s; conf := conf s; now := now s; blog := blog s |}.
Definition with_ac (s : srv) (a : list acentry) : srv :=
  {| fs := fs s; hm := hm s; nodes := nodes s; ac := a; dc := dc s; conf := conf s; now := now s; blog := blog s |}.
Definition with_dc (s : srv) (d : list dcentry) : srv :=
  {| fs := fs s; hm := hm s; nodes := nodes s; ac := ac s; dc := d; conf := conf s; now := now s; blog := blog s |}.
Definition with_conf (s : srv) (c : cfg) : srv :=
  {| fs := fs s; hm := hm s; nodes := nodes s; ac := ac s; dc := dc s; conf := c; now := now s; blog := blog s |}.
Definition with_now (s : srv) (t : N) : srv :=
  {| fs := fs s; hm := hm s; nodes := nodes s; ac := ac s; dc := dc s; conf := conf s; now := t; blog := blog s |}.
Definition logc (s : srv) (c : bcall) : srv :=
  {| fs := fs s; hm := hm s; nodes := nodes s; ac := ac s; dc := dc s; conf := conf s; now := now s; blog := c :: blog s |}.
Definition clear_log (s : srv) : srv :=
  {| fs := fs s; hm := hm s; nodes := nodes s; ac := ac s; dc := dc s; conf := conf s; now := now s; blog := [] |}.
Definition bc (o : bop) (p : path) : bcall := {| b_op := o; b_path := p; b_path2 := []; b_a := 0; b_b := 0 |}.
Definition bc2 (o : bop) (p : path) (p2 : list N) (a b : N) : bcall :=
  {| b_op := o; b_path := p; b_path2 := p2; b_a := a; b_b := b |}.

Definition srv_init_fs (f : fsmap) (c : cfg) (maxh : Z) (t : N) : srv :=
  {| fs := f; hm := init maxh; nodes := []; ac := []; dc := []; conf := c; now := t; blog := [] |}.
Definition srv_init (c : cfg) (maxh : Z) (t : N) : srv :=
  {| fs := fs_init; hm := init maxh; nodes := []; ac := []; dc := []; conf := c; now := t; blog := [] |}.

(* ---------- attribute cache (cache.go AttrCache) ---------- *)
Definition ac_remove (l : list acentry) (p : path) : list acentry :=
  filter (fun e => negb (path_eqb p (ac_path e))) l.
Definition ac_find (l : list acentry) (p : path) : option acentry :=
  find (fun e => path_eqb p (ac_path e)) l.
(* Get: hit iff now < expireAt (then moved to front); an entry with now > expireAt is deleted *)
Definition ac_get (s : srv) (p : path) : srv * option (option nattrs) :=
  match ac_find (ac s) p with
  | Some e =>
      if now s <? ac_expire e then (with_ac s (e :: ac_remove (ac s) p), Some (ac_attrs e))
      else if ac_expire e <? now s then (with_ac s (ac_remove (ac s) p), None)
      else (s, None)
  | None => (s, None)
  end.
Definition ac_evict_for (s : srv) (p : path) : list acentry :=
  match ac_find (ac s) p with
  | Some _ => ac s
  | None => if attr_cap (conf s) <=? N.of_nat (length (ac s)) then removelast (ac s) else ac s
  end.
Definition ac_put (s : srv) (p : path) (a : nattrs) : srv :=
  let l := ac_evict_for s p in
  with_ac s ({| ac_path := p; ac_attrs := Some a; ac_expire := now s + attr_ttl (conf s) |} :: ac_remove l p).
Definition ac_put_negative (s : srv) (p : path) : srv :=
  if neg_on (conf s) then
    let l := ac_evict_for s p in
    with_ac s ({| ac_path := p; ac_attrs := None; ac_expire := now s + neg_ttl (conf s) |} :: ac_remove l p)
  else s.
Definition ac_invalidate (s : srv) (p : path) : srv := with_ac s (ac_remove (ac s) p).
Definition ac_invalidate_tree (s : srv) (p : path) : srv :=
  with_ac s (filter (fun e => negb (is_prefix p (ac_path e))) (ac s)).
Definition ac_invalidate_neg_in_dir (s : srv) (d : path) : srv :=
  with_ac s (filter (fun e => negb (match ac_attrs e with None => is_child d (ac_path e) | Some _ => false end)) (ac s)).

(* ---------- directory cache (cache.go DirCache) ---------- *)
Definition dc_remove (l : list dcentry) (p : path) : list dcentry :=
  filter (fun e => negb (path_eqb p (dc_path e))) l.
Definition dc_find (l : list dcentry) (p : path) : option dcentry := find (fun e => path_eqb p (dc_path e)) l.
(* Get: miss (and delete) iff now > validUntil *)
Definition dc_get (s : srv) (p : path) : srv * option (list name) :=
  match dc_find (dc s) p with
  | Some e =>
      if dc_expire e <? now s then (with_dc s (dc_remove (dc s) p), None)
      else (with_dc s (e :: dc_remove (dc s) p), Some (dc_names e))
  | None => (s, None)
  end.
Definition dc_put (s : srv) (p : path) (names : list name) : srv :=
  if dir_maxsize (conf s) <? N.of_nat (length names) then s
  else
    let l := match dc_find (dc s) p with
             | Some _ => dc s
             | None => if dir_cap (conf s) <=? N.of_nat (length (dc s)) then removelast (dc s) else dc s
             end in
    with_dc s ({| dc_path := p; dc_names := names; dc_expire := now s + dir_ttl (conf s) |} :: dc_remove l p).
Definition dc_invalidate (s : srv) (p : path) : srv :=
  if dir_on (conf s) then with_dc s (dc_remove (dc s) p) else s.
Definition dc_invalidate_tree (s : srv) (p : path) : srv :=
  if dir_on (conf s) then with_dc s (filter (fun e => negb (is_prefix p (dc_path e))) (dc s)) else s.

(* ---------- backend calls with logging ---------- *)
Definition do_lstat (s : srv) (p : path) : srv * res finfo := (logc s (bc BLstat p), be_stat (fs s) p false).
Definition do_stat (s : srv) (p : path) : srv * res finfo := (logc s (bc BStat p), be_stat (fs s) p true).
Definition lift_unit (s : srv) (c : bcall) (r : fsmap * res unit) : srv * res unit :=
  (logc (with_fs s (fst r)) c, snd r).

(* ---------- node attributes per handle ---------- *)
Definition node_get (s : srv) (h : N) : option nattrs :=
  match find (fun e => fst e =? h) (nodes s) with Some e => Some (snd e) | None => None end.
Definition node_set (s : srv) (h : N) (a : nattrs) : srv :=
  with_nodes s ((h, a) :: filter (fun e => negb (fst e =? h)) (nodes s)).
Definition node_upd (s : srv) (h : N) (f : nattrs -> nattrs) : srv :=
  match node_get s h with Some a => node_set s h (f a) | None => s end.

(* lookupNode: handle -> (path, node attrs) *)
Definition lookup_node (s : srv) (h : N) : option (path * nattrs) :=
  match get (hm s) h with
  | Some p => match node_get s h with Some a => Some (p, a) | None => None end
  | None => None
  end.

(* fileMap.Allocate(node): the table keeps the newest node for the path *)
Definition alloc (s : srv) (p : path) (a : nattrs) : srv * N :=
  let '(m, h) := allocate path_eqb (hm s) p in
  (node_set (with_hm s m) h a, h).

(* ---------- AbsfsNFS.Lookup(path): cache, Lstat, negative cache; returns node attrs ---------- *)
Definition srv_lookup (s : srv) (p : path) : srv * res nattrs :=
  let '(s1, c) := ac_get s p in
  match c with
  | Some None => (s1, Err ENOENT)                                 (* negative hit *)
  | Some (Some a) => (s1, Ok a)
  | None =>
      let '(s2, r) := do_lstat s1 p in
      match r with
      | Err e => ((match e with ENOENT => ac_put_negative s2 p | _ => s2 end), Err e)
      | Ok fi => let a := attrs_of_info fi (fileid_of p) 0 0 in (ac_put s2 p a, Ok a)
      end
  end.

(* AbsfsNFS.GetAttr(node): the cached copy never counts as valid (its validUntil is zero), so the
   backend is always consulted; the cache is still touched (Get) and refilled (Put). uid/gid come
   from the node. *)
Definition srv_getattr (s : srv) (p : path) (uid gid : N) : srv * res nattrs :=
  let '(s1, _) := ac_get s p in
  let '(s2, r) := do_lstat s1 p in
  match r with
  | Err e => (s2, Err e)
  | Ok fi => let a := attrs_of_info fi (fileid_of p) uid gid in (ac_put s2 p a, Ok a)
  end.
Definition getattr_h (s : srv) (h : N) (p : path) : srv * res nattrs :=
  match node_get s h with
  | Some n => srv_getattr s p (na_uid n) (na_gid n)
  | None => srv_getattr s p 0 0
  end.

(* ---------- names ---------- *)
Definition backslash : N := 92.
Definition validate_name (n : name) : N :=
  match n with
  | [] => NFSERR_INVAL
  | _ => if 255 <? N.of_nat (length n) then NFSERR_NAMETOOLONG
         else if existsb (fun b => b =? 0) n then NFSERR_INVAL
         else if existsb (fun b => (b =? slash) || (b =? backslash)) n then NFSERR_INVAL
         else if is_dot n || is_dotdot n then NFSERR_INVAL
         else st_ok
  end.
Fixpoint has_dotdot_sub (n : list N) : bool :=
  match n with
  | a :: ((b :: _) as r) => ((a =? dot) && (b =? dot)) || has_dotdot_sub r
  | _ => false
  end.
(* sanitizePath(base, name): rejects the empty name, names containing a separator, "." and "..", and
   any joined path with a ".." COMPONENT (the post-check; never true for handle paths and sane names). *)
Definition name_sane (n : name) : bool :=
  negb (match n with [] => true | _ => false end) && negb (existsb (fun b => (b =? slash) || (b =? backslash)) n)
  && negb (is_dot n) && negb (is_dotdot n).
Definition sanitize_ok (d : path) (n : name) : bool := name_sane n && negb (existsb is_dotdot (d ++ [n])).

(* ---------- requests, observations ---------- *)
Record sattr := { s_mode : option N; s_uid : option N; s_gid : option N; s_size : option N;
                  s_atime : N; s_atime_v : N; s_mtime : N; s_mtime_v : N }.   (* 0 don't / 1 server / 2 client (ns) *)
Record cred := { c_uid : N; c_gid : N; c_aux : list N }.

Inductive req :=
| RNull | RGetattr (h : N) | RSetattr (h : N) (sa : sattr) (guard : option (N * N))
| RLookup (h : N) (n : name) | RAccess (h : N) (mask : N) | RReadlink (h : N)
| RRead (h : N) (off cnt : N) | RWrite (h : N) (off cnt stable : N) (data : list N)
| RCreate (h : N) (n : name) (how : N) (sa : sattr)
| RMkdir (h : N) (n : name) (sa : sattr) | RSymlink (h : N) (n : name) (sa : sattr) (target : list N)
| RMknod (h : N) (n : name) | RRemove (h : N) (n : name) | RRmdir (h : N) (n : name)
| RRename (h1 : N) (n1 : name) (h2 : N) (n2 : name) | RLink (h h2 : N) (n : name)
| RReaddir (h cookie count : N) | RReaddirplus (h cookie dircount maxcount : N)
| RFsstat (h : N) | RFsinfo (h : N) | RPathconf (h : N) | RCommit (h off cnt : N)
| RMnt (p : list N)
(* administrative actions interleaved with requests (not RPCs): runtime reconfiguration *)
| RSetRO (b : bool)              (* UpdatePolicyOptions with ReadOnly := b *)
| RSetMaxFile (m : N)            (* UpdatePolicyOptions with MaxFileSize := m *)
| RSetTsize (t : N).             (* UpdateTuningOptions with TransferSize := t (t >= 1) *)

Record fattr := { fa_type : N; fa_perm : N; fa_nlink : N; fa_uid : N; fa_gid : N; fa_size : N; fa_fileid : N;
                  fa_mtime : N }.
Definition ftype_of (k : kind) : N :=
  match k with KFile => st c_NF3REG | KDir => st c_NF3DIR | KLink => st c_NF3LNK end.
(* the zero time.Time (an NFSAttrs whose times were never set, e.g. after SETATTR without times) goes on
   the wire as uint32(-62135596800) seconds *)
Definition wire_time (t : N) : N := if t =? 0 then 2288912640 * 1000000000 else t.
Definition fattr_of (a : nattrs) : fattr :=
  {| fa_type := ftype_of (na_kind a); fa_perm := na_perm a;
     fa_nlink := (match na_kind a with KDir => 2 | _ => 1 end);
     fa_uid := na_uid a; fa_gid := na_gid a; fa_size := na_size a; fa_fileid := na_fileid a; fa_mtime := wire_time (na_mtime a) |}.
Record dentry := { de_fileid : N; de_name : name; de_cookie : N; de_attr : option fattr; de_fh : option N }.

Record obs := {
  ob_rpc : N;                           (* 0 = MSG_ACCEPTED + SUCCESS; 1000 + accept_stat otherwise; 2000 = MSG_DENIED *)
  ob_status : N;                        (* NFS / MOUNT status word *)
  ob_attrs : list (option fattr);       (* every fattr3 / post_op_attr of the reply, in order *)
  ob_wcc : list (option (N * N));       (* every pre_op_attr: (size, mtime) *)
  ob_fh : option N;
  ob_nums : list N;                     (* procedure-specific numbers, see each handler *)
  ob_bytes : list N;                    (* READ data / READLINK target *)
  ob_entries : list dentry;
  ob_eof : bool
}.
Definition ob_fail (st_ : N) : obs :=
  {| ob_rpc := 0; ob_status := st_; ob_attrs := []; ob_wcc := []; ob_fh := None; ob_nums := []; ob_bytes := []; ob_entries := []; ob_eof := false |}.
Definition ob_mk st_ attrs wcc fh nums bytes : obs :=
  {| ob_rpc := 0; ob_status := st_; ob_attrs := attrs; ob_wcc := wcc; ob_fh := fh; ob_nums := nums; ob_bytes := bytes; ob_entries := []; ob_eof := false |}.
Definition wcc_of (a : nattrs) : option (N * N) := Some (na_size a, wire_time (na_mtime a)).
Definition sf (a : nattrs) : option fattr := Some (fattr_of a).

(* error replies: nfsErrorReply / WithPostOp / WithWcc / DoubleWcc all carry no attributes *)
Definition fail_post (st_ : N) : obs := ob_mk st_ [None] [] None [] [].
Definition fail_wcc (st_ : N) : obs := ob_mk st_ [None] [None] None [] [].
Definition fail_wcc2 (st_ : N) : obs := ob_mk st_ [None; None] [None; None] None [] [].

(* ---------- READ / WRITE / COMMIT ---------- *)
Definition two63N : N := 9223372036854775808.
Definition handle_read (s : srv) (h off cnt : N) : srv * obs :=
  if two64 - 1 - cnt <? off then (s, fail_post NFSERR_INVAL)
  else match lookup_node s h with
  | None => (s, fail_post NFSERR_STALE)
  | Some (p, rattr) =>
    if kind_eqb (na_kind rattr) KLink then (s, fail_post NFSERR_INVAL)     (* isSymlinkNode *)
    (* ReadWithContext: int64(offset) < 0 => "negative offset" error => NFS3ERR_IO *)
    else if two63N <=? off then (s, fail_post NFSERR_IO)
    else
      let cnt1 := N.min cnt (tsize (conf s)) in
      let s1 := logc s (bc BOpenR p) in
      match be_open (fs s1) p false with
      | Err e => (s1, fail_post (map_error e))
      | Ok q =>
        match fs_get (fs s1) q with
        | None => (s1, fail_post NFSERR_IO)
        | Some o =>
          let size := stat_size o in
          let r := (if size <=? off then (s1, Ok [])
                    else let c := N.min cnt1 (size - off) in
                         (logc s1 (bc2 BReadAt p [] off c), be_readat (fs s1) q off c)) in
          match snd r with
          | Err e => (fst r, fail_post (map_error e))
          | Ok data =>
            let '(s2, ga) := getattr_h (fst r) h p in
            match ga with
            | Err e => (s2, fail_post (map_error e))
            | Ok a =>
              let n := N.of_nat (length data) in
              (s2, {| ob_rpc := 0; ob_status := st_ok; ob_attrs := [sf a]; ob_wcc := []; ob_fh := None; ob_nums := [n];
                      ob_bytes := data; ob_entries := []; ob_eof := (na_size a <=? off + n) |})
            end
          end
        end
      end
  end.

Definition handle_write (s : srv) (h off cnt stable : N) (data : list N) : srv * obs :=
  if ro (conf s) then (s, fail_wcc NFSERR_ROFS)
  else if two64 - 1 - cnt <? off then (s, fail_wcc NFSERR_INVAL)
  else if negb (cnt =? N.of_nat (length data)) then (s, fail_wcc GARBAGE)   (* opaque length <> count *)
  else if tsize (conf s) <? cnt then (s, fail_wcc NFSERR_INVAL)
  else if (0 <? maxfile (conf s)) && (0 <? cnt) && ((maxfile (conf s) <? off) || (maxfile (conf s) - off <? cnt))
       then (s, fail_wcc NFSERR_FBIG)
  else match lookup_node s h with
  | None => (s, fail_wcc NFSERR_STALE)
  | Some (p, wattr) =>
    if kind_eqb (na_kind wattr) KLink then (s, fail_wcc NFSERR_INVAL) else     (* isSymlinkNode *)
    let '(s1, pre) := getattr_h s h p in
    match pre with
    | Err e => (s1, fail_wcc (map_error e))
    | Ok prea =>
      (* WriteWithContext *)
      if two63N <=? off then
        (* int64(offset) < 0: "negative offset" => IO, reply carries wcc with post attrs *)
        let '(s2, post) := getattr_h s1 h p in
        (s2, ob_mk NFSERR_IO [match post with Ok a => sf a | Err _ => sf prea end] [wcc_of prea] None [] [])
      else
        let s2 := logc s1 (bc BOpenW p) in
        match be_open (fs s2) p true with
        | Err e =>
            let '(s3, post) := getattr_h s2 h p in
            (s3, ob_mk (map_error e) [match post with Ok a => sf a | Err _ => sf prea end] [wcc_of prea] None [] [])
        | Ok q =>
          let w := be_writeat (fs s2) q (Z.of_N off) data (now s2) in
          let s3 := logc (with_fs s2 (fst w)) (bc2 BWriteAt p [] off (N.of_nat (length data))) in
          match snd w with
          | Err e =>
              let '(s4, post) := getattr_h s3 h p in
              (s4, ob_mk (map_error e) [match post with Ok a => sf a | Err _ => sf prea end] [wcc_of prea] None [] [])
          | Ok n =>
            let s4 := logc (with_fs s3 (be_sync (fs s3) q)) (bc BSync p) in
            let s5 := ac_invalidate s4 p in
            let s6 := lift_unit s5 (bc2 BChtimes p [] (now s5) 0) (be_chtimes (fs s5) p (now s5)) in
            let '(s7, sti) := do_stat (fst s6) p in
            let s8 := match sti with
                      | Ok fi => node_upd s7 h (fun a => {| na_kind := na_kind a; na_perm := na_perm a; na_size := fi_size fi;
                                   na_fileid := na_fileid a; na_uid := na_uid a; na_gid := na_gid a;
                                   na_mtime := fi_mtime fi; na_atime := na_atime a |})
                      | Err _ => s7 end in
            let '(s9, post) := getattr_h s8 h p in
            match post with
            | Err e => (s9, fail_wcc (map_error e))
            | Ok a => (s9, ob_mk st_ok [sf a] [wcc_of prea] None [n; 2] [])
            end
          end
        end
    end
  end.

Definition handle_commit (s : srv) (h : N) : srv * obs :=
  if ro (conf s) then (s, fail_wcc NFSERR_ROFS)
  else match lookup_node s h with
  | None => (s, fail_wcc NFSERR_STALE)
  | Some (p, _) =>
    let '(s1, ga) := getattr_h s h p in
    match ga with
    | Err e => (s1, fail_wcc (map_error e))
    | Ok a => (s1, ob_mk st_ok [sf a] [wcc_of a] None [] [])
    end
  end.

(* ---------- GETATTR / SETATTR / ACCESS ---------- *)
Definition handle_getattr (s : srv) (h : N) : srv * obs :=
  match lookup_node s h with
  | None => (s, ob_fail NFSERR_STALE)
  | Some (p, _) =>
    let '(s1, ga) := getattr_h s h p in
    match ga with
    | Err e => (s1, ob_fail (map_error e))
    | Ok a => (s1, ob_mk st_ok [sf a] [] None [] [])
    end
  end.

Definition sec_of (t : N) : N := (t / 1000000000) mod 4294967296.
Definition nsec_of (t : N) : N := t mod 1000000000.

(* AbsfsNFS.SetAttr(node, attrs) *)
Definition srv_setattr (s : srv) (h : N) (p : path) (cur new : nattrs) : srv * res unit :=
  let '(s1, r) := do_stat s p in
  match r with
  | Err e => (s1, Err e)
  | Ok _ =>
    let r2 := if na_perm new =? na_perm cur then (s1, Ok tt)
              else lift_unit s1 (bc2 BChmod p [] (na_perm new) 0) (be_chmod (fs s1) p (na_perm new)) in
    match snd r2 with
    | Err e => (fst r2, Err e)
    | Ok _ =>
      let s2 := fst r2 in
      let r3 := if (na_uid new =? na_uid cur) && (na_gid new =? na_gid cur) then (s2, Ok tt)
                else lift_unit s2 (bc2 BChown p [] (na_uid new) (na_gid new)) (be_chown (fs s2) p (na_uid new) (na_gid new)) in
      match snd r3 with
      | Err e => (fst r3, Err e)
      | Ok _ =>
        let s3 := fst r3 in
        let changed := negb ((na_atime new =? 0) && (na_mtime new =? 0)) &&
                       negb ((na_mtime new =? na_mtime cur) && (na_atime new =? na_atime cur)) in
        let r4 := if changed
                  then lift_unit s3 (bc2 BChtimes p [] (na_mtime new) 0)
                         (if na_mtime new =? 0 then (fs s3, match be_stat (fs s3) p true with Ok _ => Ok tt | Err e => Err e end)
                          else be_chtimes (fs s3) p (na_mtime new))
                  else (s3, Ok tt) in
        match snd r4 with
        | Err e => (fst r4, Err e)
        | Ok _ => (ac_invalidate (node_set (fst r4) h new) p, Ok tt)
        end
      end
    end
  end.

Definition handle_setattr (s : srv) (c : cred) (h : N) (sa : sattr) (guard : option (N * N)) : srv * obs :=
  if ro (conf s) then (s, fail_wcc NFSERR_ROFS)
  else if match s_mode sa with Some m => N.testbit m 15 | None => false end then (s, fail_wcc NFSERR_INVAL)
  else match lookup_node s h with
  | None => (s, fail_wcc NFSERR_STALE)
  | Some (p, sattr_node) =>
    if kind_eqb (na_kind sattr_node) KLink then (s, fail_wcc NFSERR_INVAL) else     (* isSymlinkNode *)
    let '(s1, pre) := getattr_h s h p in
    match pre with
    | Err e => (s1, fail_wcc (map_error e))
    | Ok prea =>
      if match guard with Some (gs, gn) => negb ((gs =? sec_of (na_mtime prea)) && (gn =? nsec_of (na_mtime prea))) | None => false end
      then (s1, fail_wcc NFSERR_NOT_SYNC)
      else
        (* size first *)
        let rs : srv * option N :=
          match s_size sa with
          | None => (s1, None)
          | Some sz =>
              if two63N <=? sz then (s1, Some NFSERR_INVAL)
              else if (0 <? maxfile (conf s1)) && (maxfile (conf s1) <? sz) then (s1, Some NFSERR_FBIG)
              else
                let r := lift_unit s1 (bc2 BTruncate p [] sz 0) (be_truncate (fs s1) p (Z.of_N sz) (now s1)) in
                match snd r with
                | Err e => (fst r, Some (map_error e))
                | Ok _ =>
                  let s2 := ac_invalidate (fst r) p in
                  let '(s3, sti) := do_stat s2 p in
                  (match sti with
                   | Ok fi => node_upd s3 h (fun a => {| na_kind := na_kind a; na_perm := na_perm a; na_size := fi_size fi;
                                  na_fileid := na_fileid a; na_uid := na_uid a; na_gid := na_gid a;
                                  na_mtime := fi_mtime fi; na_atime := na_atime a |})
                   | Err _ => s3 end, None)
              end
          end in
        match snd rs with
        | Some e => (fst rs, fail_wcc e)
        | None =>
          let s4 := fst rs in
          match node_get s4 h with
          | None => (s4, fail_wcc NFSERR_IO)
          | Some cur =>
            let root := c_uid c =? 0 in
            let new := {| na_kind := na_kind cur;
                          na_perm := (match s_mode sa with Some m => N.land m 511 | None => na_perm cur end);
                          na_size := na_size cur; na_fileid := na_fileid cur;
                          na_uid := (match s_uid sa with Some u => if root then u else na_uid cur | None => na_uid cur end);
                          na_gid := (match s_gid sa with Some g => if root then g else na_gid cur | None => na_gid cur end);
                          na_mtime := (match s_mtime sa with 1 => now s4 | 2 => s_mtime_v sa | _ => 0 end);
                          na_atime := (match s_atime sa with 1 => now s4 | 2 => s_atime_v sa | _ => 0 end) |} in
            let '(s5, r) := srv_setattr s4 h p cur new in
            match r with
            | Err e => (s5, fail_wcc (map_error e))
            | Ok _ =>
              let '(s6, post) := getattr_h s5 h p in
              match post with
              | Err e => (s6, fail_wcc (map_error e))
              | Ok a => (s6, ob_mk st_ok [sf a] [wcc_of prea] None [] [])
              end
            end
          end
        end
    end
  end.

Definition ACCESS_READ : N := st c_ACCESS3_READ.       Definition ACCESS_LOOKUP : N := st c_ACCESS3_LOOKUP.
Definition ACCESS_MODIFY : N := st c_ACCESS3_MODIFY.   Definition ACCESS_EXTEND : N := st c_ACCESS3_EXTEND.
Definition ACCESS_DELETE : N := st c_ACCESS3_DELETE.   Definition ACCESS_EXECUTE : N := st c_ACCESS3_EXECUTE.
Definition access_bits (roflag : bool) (a : nattrs) (c : cred) (mask : N) : N :=
  let perm :=
    if c_uid c =? 0 then 7
    else if c_uid c =? na_uid a then N.land (N.shiftr (na_perm a) 6) 7
    else if (c_gid c =? na_gid a) || existsb (fun g => g =? na_gid a) (c_aux c) then N.land (N.shiftr (na_perm a) 3) 7
    else N.land (na_perm a) 7 in
  let isdir := kind_eqb (na_kind a) KDir in
  let has m := negb (N.land mask m =? 0) in
  let r := N.testbit perm 2 in let w := N.testbit perm 1 in let x := N.testbit perm 0 in
  (if has ACCESS_READ && r then ACCESS_READ else 0) +
  (if has ACCESS_LOOKUP && isdir && x then ACCESS_LOOKUP else 0) +
  (if has ACCESS_EXECUTE && x then ACCESS_EXECUTE else 0) +
  (if negb roflag && has ACCESS_MODIFY && w then ACCESS_MODIFY else 0) +
  (if negb roflag && has ACCESS_EXTEND && w then ACCESS_EXTEND else 0) +
  (if negb roflag && has ACCESS_DELETE && isdir && w then ACCESS_DELETE else 0).
Definition handle_access (s : srv) (c : cred) (h mask : N) : srv * obs :=
  match lookup_node s h with
  | None => (s, fail_post NFSERR_STALE)
  | Some (p, _) =>
    let '(s1, ga) := getattr_h s h p in
    match ga with
    | Err e => (s1, fail_post (map_error e))
    | Ok a => (s1, ob_mk st_ok [sf a] [] None [access_bits (ro (conf s1)) a c mask] [])
    end
  end.

(* ---------- LOOKUP / READLINK ---------- *)
(* encodeCurrentAttrs: the directory's own attributes in a LOOKUP reply are read from the backend; when
   that fails the reply carries no attributes *)
Definition current_attrs (s : srv) (h : N) (p : path) : srv * option fattr :=
  let '(s1, ga) := getattr_h s h p in
  (s1, match ga with Ok a => sf a | Err _ => None end).
Definition handle_lookup (s : srv) (h : N) (n : name) : srv * obs :=
  if negb (validate_name n =? st_ok) then (s, fail_post NFSERR_ACCES)
  else match lookup_node s h with
  | None => (s, fail_post NFSERR_STALE)
  | Some (p, da) =>
    if negb (kind_eqb (na_kind da) KDir) then
      let '(s1, a) := current_attrs s h p in (s1, ob_mk NFSERR_NOTDIR [a] [] None [] [])
    else
      let '(s1, r) := srv_lookup s (p ++ [n]) in
      match r with
      | Err e => let '(s2, a) := current_attrs s1 h p in (s2, ob_mk (map_error e) [a] [] None [] [])
      | Ok a =>
        let '(s2, fh) := alloc s1 (p ++ [n]) a in
        let '(s3, da') := current_attrs s2 h p in
        (s3, ob_mk st_ok [sf a; da'] [] (Some fh) [] [])
      end
  end.

(* Readlink filter: a relative target with a ".." component is refused *)
Definition raw_split (s : list N) : list name :=
  (* strings.Split(target, "/"): keeps empty components *)
  let fix go (cur : list N) (s : list N) : list name :=
    match s with [] => [rev cur] | c :: r => if c =? slash then rev cur :: go [] r else go (c :: cur) r end in
  go [] s.
Definition target_has_dotdot (t : list N) : bool := existsb is_dotdot (raw_split t).
Definition handle_readlink (s : srv) (h : N) : srv * obs :=
  match lookup_node s h with
  | None => (s, fail_post NFSERR_STALE)
  | Some (p, na) =>
    if negb (kind_eqb (na_kind na) KLink) then (s, fail_post NFSERR_INVAL)
    else
      let s1 := logc s (bc BReadlink p) in
      match be_readlink (fs s1) p with
      | Err e => (s1, fail_post (map_error e))
      | Ok t =>
        if negb (is_abs t) && target_has_dotdot t then (s1, fail_post NFSERR_IO)
        else
          let '(s2, ga) := getattr_h s1 h p in
          match ga with
          | Err e => (s2, fail_post (map_error e))
          | Ok a => (s2, ob_mk st_ok [sf a] [] None [] t)
          end
      end
  end.

(* ---------- CREATE / MKDIR / SYMLINK / MKNOD ---------- *)
Definition invalidate_for_new (s : srv) (d p : path) : srv :=
  dc_invalidate (ac_invalidate_tree (ac_invalidate (ac_invalidate_neg_in_dir (ac_invalidate s d) d) p) p) d.

Definition validate_mode (m : N) : N :=
  if negb (N.land m 61440 =? 0) then NFSERR_INVAL            (* 0170000 *)
  else if negb (N.land m (N.lnot 4095 32) =? 0) then NFSERR_INVAL   (* bits above 07777 *)
  else st_ok.

(* reply of a successful object-creating procedure *)
Definition created_reply (s : srv) (h : N) (d : path) (p : path) (a : nattrs) (dpre : nattrs) : srv * obs :=
  let '(s1, dpost) := getattr_h s h d in
  match dpost with
  | Err e => (s1, fail_wcc (map_error e))
  | Ok dp =>
    let '(s2, fh) := alloc s1 p a in
    (s2, ob_mk st_ok [sf a; sf dp] [wcc_of dpre] (Some fh) [] [])
  end.
(* reply of a failed one: status + wcc with best-effort post attributes *)
Definition failed_reply (s : srv) (h : N) (d : path) (status : N) (dpre : nattrs) : srv * obs :=
  let '(s1, dpost) := getattr_h s h d in
  (s1, ob_mk status [match dpost with Ok a => sf a | Err _ => sf dpre end] [wcc_of dpre] None [] []).

(* AbsfsNFS.Create: sanitize, fs.Create, Chmod, Chown, invalidations, Lookup *)
Definition srv_create (s : srv) (d : path) (n : name) (perm uid gid : N) : srv * res nattrs :=
  if ro (conf s) then (s, Err EIO)    (* os.ErrPermission: unreachable behind the handler guard *)
  else if negb (sanitize_ok d n) then (s, Err EIO)
  else
    let p := d ++ [n] in
    let r := be_create (fs s) p (now s) in
    let s1 := logc (with_fs s (fst r)) (bc BCreate p) in
    match snd r with
    | Err e => (s1, Err e)
    | Ok _ =>
      let r2 := lift_unit s1 (bc2 BChmod p [] (N.land perm 511) 0) (be_chmod (fs s1) p (N.land perm 511)) in
      match snd r2 with
      | Err e => (fst (lift_unit (fst r2) (bc BRemove p) (be_remove (fs (fst r2)) p (now s))), Err e)
      | Ok _ =>
        let s2 := fst r2 in
        let r3 := lift_unit s2 (bc2 BChown p [] uid gid) (be_chown (fs s2) p uid gid) in
        match snd r3 with
        | Err e => (fst (lift_unit (fst r3) (bc BRemove p) (be_remove (fs (fst r3)) p (now s))), Err e)
        | Ok _ => srv_lookup (invalidate_for_new (fst r3) d p) p
        end
      end
    end.

Definition handle_create (s : srv) (c : cred) (h : N) (n : name) (how : N) (sa : sattr) : srv * obs :=
  if ro (conf s) then (s, fail_wcc NFSERR_ROFS)
  else if negb (validate_name n =? st_ok) then (s, fail_wcc (validate_name n))
  else
    let with_sattr := (how =? 0) || (how =? 1) in
    let exclusive := how =? 2 in
    let mode := if with_sattr then match s_mode sa with Some m => m | None => 420 end else 420 in
    let root := c_uid c =? 0 in
    let uid := if with_sattr then match s_uid sa with Some u => if root then u else c_uid c | None => c_uid c end else c_uid c in
    let gid := if with_sattr then match s_gid sa with Some g => if root then g else c_gid c | None => c_gid c end else c_gid c in
    if negb (validate_mode mode =? st_ok) then (s, fail_wcc NFSERR_INVAL)
    else match lookup_node s h with
    | None => (s, fail_wcc NFSERR_STALE)
    | Some (d, dattr) =>
      if negb (kind_eqb (na_kind dattr) KDir) then (s, fail_wcc NFSERR_NOTDIR) else
      let '(s1, pre) := getattr_h s h d in
      match pre with
      | Err e => (s1, fail_wcc (map_error e))
      | Ok dpre =>
        let p := d ++ [n] in
        let '(s2, ex) := do_lstat s1 p in
        match ex with
        | Ok fi =>
            if exclusive then
              (* existing object, EXCLUSIVE: returned untouched with NFS3_OK (known finding C03 k=1) *)
              let '(s3, r) := srv_lookup s2 p in
              match r with
              | Ok a =>
                  let '(s4, dpost) := getattr_h s3 h d in
                  let dp := match dpost with Ok x => x | Err _ => dpre end in
                  let '(s5, fh) := alloc s4 p a in
                  (s5, ob_mk st_ok [sf a; sf dp] [wcc_of dpre] (Some fh) [] [])
              | Err _ => failed_reply s3 h d NFSERR_EXIST dpre
              end
            else if (how =? 1) || negb (kind_eqb (fi_kind fi) KFile) then failed_reply s2 h d NFSERR_EXIST dpre
            else
              (* UNCHECKED on an existing regular file: reuse it; truncate only when size is set *)
              let rt : srv * res unit :=
                match (if with_sattr then s_size sa else None) with
                | Some sz => if two63N <=? sz then (s2, Ok tt)
                             else if (0 <? maxfile (conf s2)) && (maxfile (conf s2) <? sz) then (s2, Err EFBIG)
                             else let r := lift_unit s2 (bc2 BTruncate p [] sz 0) (be_truncate (fs s2) p (Z.of_N sz) (now s2)) in
                                  (ac_invalidate (fst r) p, snd r)
                | None => (s2, Ok tt)
                end in
              match snd rt with
              | Err e => failed_reply (fst rt) h d (map_error e) dpre
              | Ok _ =>
                let '(s3, r) := srv_lookup (fst rt) p in
                match r with
                | Err e => failed_reply s3 h d (map_error e) dpre
                | Ok a => created_reply s3 h d p a dpre
                end
              end
        | Err _ =>
            let '(s3, r) := srv_create s2 d n mode uid gid in
            match r with
            | Err e => failed_reply s3 h d (map_error e) dpre
            | Ok a => created_reply s3 h d p a dpre
            end
        end
      end
    end.

Definition handle_mkdir (s : srv) (c : cred) (h : N) (n : name) (sa : sattr) : srv * obs :=
  if ro (conf s) then (s, fail_wcc NFSERR_ROFS)
  else if negb (validate_name n =? st_ok) then (s, fail_wcc (validate_name n))
  else
    let mode := match s_mode sa with Some m => m | None => 493 end in
    if negb (validate_mode mode =? st_ok) then (s, fail_wcc NFSERR_INVAL)
    else match lookup_node s h with
    | None => (s, fail_wcc NFSERR_STALE)
    | Some (d, dattr) =>
      if negb (kind_eqb (na_kind dattr) KDir) then (s, fail_wcc NFSERR_NOTDIR) else
      let '(s1, pre) := getattr_h s h d in
      match pre with
      | Err e => (s1, fail_wcc (map_error e))
      | Ok dpre =>
        let p := d ++ [n] in
        let r := lift_unit s1 (bc2 BMkdir p [] mode 0) (be_mkdir (fs s1) p mode (now s1)) in
        match snd r with
        | Err e => failed_reply (fst r) h d (map_error e) dpre
        | Ok _ =>
          let root := c_uid c =? 0 in
          let uid := match s_uid sa with Some u => if root then u else c_uid c | None => c_uid c end in
          let gid := match s_gid sa with Some g => if root then g else c_gid c | None => c_gid c end in
          let s2 := fst (lift_unit (fst r) (bc2 BChown p [] uid gid) (be_chown (fs (fst r)) p uid gid)) in
          let s3 := invalidate_for_new s2 d p in
          let '(s4, lr) := srv_lookup s3 p in
          match lr with
          | Err e => (s4, fail_wcc (map_error e))
          | Ok a => created_reply s4 h d p a dpre
          end
        end
      end
    end.

Definition handle_symlink (s : srv) (c : cred) (h : N) (n : name) (sa : sattr) (target : list N) : srv * obs :=
  if ro (conf s) then (s, fail_wcc NFSERR_ROFS)
  else if negb (validate_name n =? st_ok) then (s, fail_wcc (validate_name n))
  else match target with
  | [] => (s, fail_wcc NFSERR_INVAL)
  | _ =>
    if is_abs target || target_has_dotdot target then (s, fail_wcc NFSERR_ACCES)
    else match lookup_node s h with
    | None => (s, fail_wcc NFSERR_STALE)
    | Some (d, dattr) =>
      if negb (kind_eqb (na_kind dattr) KDir) then (s, fail_wcc NFSERR_NOTDIR) else
      let '(s1, pre) := getattr_h s h d in
      match pre with
      | Err e => (s1, fail_wcc (map_error e))
      | Ok dpre =>
        (* AbsfsNFS.Symlink *)
        if negb (sanitize_ok d n) then failed_reply s1 h d NFSERR_IO dpre
        else
          let p := d ++ [n] in
          let r := lift_unit s1 (bc2 BSymlink p target 0 0) (be_symlink (fs s1) target p (now s1)) in
          match snd r with
          | Err e => failed_reply (fst r) h d (map_error e) dpre
          | Ok _ =>
            let '(s2, lr) := srv_lookup (invalidate_for_new (fst r) d p) p in
            match lr with
            | Err e => failed_reply s2 h d (map_error e) dpre
            | Ok a =>
              let root := c_uid c =? 0 in
              let uid := match s_uid sa with Some u => if root then u else c_uid c | None => c_uid c end in
              let gid := match s_gid sa with Some g => if root then g else c_gid c | None => c_gid c end in
              let s3 := fst (lift_unit s2 (bc2 BLchown p [] uid gid) (be_lchown (fs s2) p uid gid)) in
              created_reply s3 h d p a dpre
            end
          end
      end
    end
  end.

(* ---------- REMOVE / RMDIR / RENAME ---------- *)
Definition handle_remove (s : srv) (h : N) (n : name) : srv * obs :=
  if ro (conf s) then (s, fail_wcc NFSERR_ROFS)
  else if negb (validate_name n =? st_ok) then (s, fail_wcc (validate_name n))
  else match lookup_node s h with
  | None => (s, fail_wcc NFSERR_STALE)
  | Some (d, da) =>
    if negb (kind_eqb (na_kind da) KDir) then (s, fail_wcc NFSERR_NOTDIR)
    else
      let '(s1, pre) := getattr_h s h d in
      match pre with
      | Err e => (s1, fail_wcc (map_error e))
      | Ok dpre =>
        if negb (sanitize_ok d n) then failed_reply s1 h d NFSERR_IO dpre
        else
          let p := d ++ [n] in
          let r := lift_unit s1 (bc BRemove p) (be_remove (fs s1) p (now s1)) in
          match snd r with
          | Err e => failed_reply (fst r) h d (map_error e) dpre
          | Ok _ =>
            let s2 := dc_invalidate (dc_invalidate_tree (ac_invalidate (ac_invalidate (ac_invalidate_tree (fst r) p) p) d) p) d in
            let '(s3, dpost) := getattr_h s2 h d in
            match dpost with
            | Err e => (s3, fail_wcc (map_error e))
            | Ok dp => (s3, ob_mk st_ok [sf dp] [wcc_of dpre] None [] [])
            end
          end
      end
  end.

Definition handle_rmdir (s : srv) (h : N) (n : name) : srv * obs :=
  if ro (conf s) then (s, fail_wcc NFSERR_ROFS)
  else if negb (validate_name n =? st_ok) then (s, fail_wcc NFSERR_ACCES)
  else match lookup_node s h with
  | None => (s, fail_wcc NFSERR_STALE)
  | Some (d, da) =>
    if negb (kind_eqb (na_kind da) KDir) then (s, fail_wcc NFSERR_NOTDIR)
    else
      let '(s1, pre) := getattr_h s h d in
      match pre with
      | Err e => (s1, fail_wcc (map_error e))
      | Ok dpre =>
        let p := d ++ [n] in
        let '(s2, ti) := do_stat s1 p in
        match ti with
        | Err _ => (s2, ob_mk NFSERR_NOENT [sf dpre] [wcc_of dpre] None [] [])
        | Ok fi =>
          if negb (kind_eqb (fi_kind fi) KDir) then (s2, ob_mk NFSERR_NOTDIR [sf dpre] [wcc_of dpre] None [] [])
          else
            let r := lift_unit s2 (bc BRemove p) (be_remove (fs s2) p (now s2)) in
            match snd r with
            | Err e =>
                let code := match e with ENOENT => NFSERR_NOENT
                            | _ => let m := map_error e in
                                   if (m =? NFSERR_EXIST) || (m =? NFSERR_IO) then NFSERR_NOTEMPTY else m end in
                failed_reply (fst r) h d code dpre
            | Ok _ =>
              let s3 := dc_invalidate_tree (dc_invalidate (ac_invalidate (ac_invalidate (ac_invalidate_tree (fst r) p) p) d) d) p in
              let '(s4, dpost) := getattr_h s3 h d in
              match dpost with
              | Err e => (s4, fail_wcc (map_error e))
              | Ok dp => (s4, ob_mk st_ok [sf dp] [wcc_of dpre] None [] [])
              end
            end
        end
      end
  end.

Definition handle_rename (s : srv) (h1 : N) (n1 : name) (h2 : N) (n2 : name) : srv * obs :=
  if ro (conf s) then (s, fail_wcc2 NFSERR_ROFS)
  else if negb (validate_name n1 =? st_ok) then (s, fail_wcc2 (validate_name n1))
  else if negb (validate_name n2 =? st_ok) then (s, fail_wcc2 (validate_name n2))
  else match lookup_node s h1, lookup_node s h2 with
  | Some (d1, da1), Some (d2, da2) =>
    if negb (kind_eqb (na_kind da1) KDir) || negb (kind_eqb (na_kind da2) KDir) then (s, fail_wcc2 NFSERR_NOTDIR) else
    let '(s1, pre1) := getattr_h s h1 d1 in
    match pre1 with
    | Err e => (s1, fail_wcc2 (map_error e))
    | Ok a1 =>
      let '(s2, pre2) := getattr_h s1 h2 d2 in
      match pre2 with
      | Err e => (s2, fail_wcc2 (map_error e))
      | Ok a2 =>
        let fail (s' : srv) (code : N) : srv * obs :=
          let '(s3, p1) := getattr_h s' h1 d1 in
          let '(s4, p2) := getattr_h s3 h2 d2 in
          (s4, ob_mk code [match p1 with Ok x => sf x | Err _ => sf a1 end; match p2 with Ok x => sf x | Err _ => sf a2 end]
                     [wcc_of a1; wcc_of a2] None [] []) in
        if negb (sanitize_ok d1 n1) || negb (sanitize_ok d2 n2) then fail s2 NFSERR_IO
        else
          let op := d1 ++ [n1] in let np := d2 ++ [n2] in
          let r := lift_unit s2 (bc2 BRename op (render np) 0 0) (be_rename (fs s2) op np (now s2)) in
          match snd r with
          | Err e => fail (fst r) (map_error e)
          | Ok _ =>
            let s3 := dc_invalidate_tree (dc_invalidate_tree (ac_invalidate_tree (ac_invalidate_tree (fst r) op) np) op) np in
            let s4 := ac_invalidate (ac_invalidate (ac_invalidate (ac_invalidate s3 op) np) d1) d2 in
            let s5 := dc_invalidate (dc_invalidate (ac_invalidate_neg_in_dir (ac_invalidate_neg_in_dir s4 d1) d2) d1) d2 in
            let '(s6, p1) := getattr_h s5 h1 d1 in
            match p1 with
            | Err e => (s6, fail_wcc2 (map_error e))
            | Ok x1 =>
              let '(s7, p2) := getattr_h s6 h2 d2 in
              match p2 with
              | Err e => (s7, fail_wcc2 (map_error e))
              | Ok x2 => (s7, ob_mk st_ok [sf x1; sf x2] [wcc_of a1; wcc_of a2] None [] [])
              end
            end
          end
      end
    end
  | _, _ => (s, fail_wcc2 NFSERR_STALE)
  end.

(* ---------- READDIR / READDIRPLUS ---------- *)
(* AbsfsNFS.ReadDir: names from the dir cache or the backend, then Lookup of each (failures skipped) *)
Fixpoint lookup_all (s : srv) (d : path) (names : list name) : srv * list (path * nattrs) :=
  match names with
  | [] => (s, [])
  | n :: r =>
    if is_dot n || is_dotdot n || negb (sanitize_ok d n) then lookup_all s d r
    else
      let '(s1, lr) := srv_lookup s (d ++ [n]) in
      let '(s2, rest) := lookup_all s1 d r in
      match lr with Ok a => (s2, (d ++ [n], a) :: rest) | Err _ => (s2, rest) end
  end.
Definition srv_readdir (s : srv) (d : path) : srv * res (list (path * nattrs)) :=
  let hit := if dir_on (conf s) then dc_get s d else (s, None) in
  match snd hit with
  | Some names => let '(s1, l) := lookup_all (fst hit) d names in (s1, Ok l)
  | None =>
    let s1 := logc (fst hit) (bc BOpenR d) in
    match be_open (fs s1) d false with
    | Err e => (s1, Err e)
    | Ok q =>
      let s2 := logc s1 (bc BReaddir d) in
      match be_readdir (fs s2) q with
      | Err e => (s2, Err e)
      | Ok ents =>
        let names := map fst ents in
        let s3 := if dir_on (conf s2) then dc_put s2 d names else s2 in
        let '(s4, l) := lookup_all s3 d names in (s4, Ok l)
      end
    end
  end.

(* ReadDirPlus: re-Lstat every entry (the cached copy never counts as valid), keep fileid/uid/gid *)
Fixpoint refresh_all (s : srv) (l : list (path * nattrs)) : srv * list (path * nattrs) :=
  match l with
  | [] => (s, [])
  | (p, a) :: r =>
    let '(s0, _) := ac_get s p in
    let '(s1, li) := do_lstat s0 p in
    match li with
    | Err _ => let '(s2, rest) := refresh_all s1 r in (s2, (p, a) :: rest)
    | Ok fi =>
      let a' := attrs_of_info fi (na_fileid a) (na_uid a) (na_gid a) in
      let '(s2, rest) := refresh_all (ac_put s1 p a') r in (s2, (p, a') :: rest)
    end
  end.

Definition pad4 (n : N) : N := (n + 3) / 4 * 4.
Definition name_of (p : path) : name := last p [slash].
(* the paging loop shared by both procedures: entries from index cookie on, stop (reachedLimit) before the
   entry that would push the reply past [limit]; the first entry is always sent *)
Fixpoint page (plus : bool) (limit : N) (i : N) (cookie : N) (sent : N) (len : N) (l : list (path * nattrs))
  : list (N * (path * nattrs)) * bool :=
  match l with
  | [] => ([], false)
  | e :: r =>
    if i <? cookie then page plus limit (i + 1) cookie sent len r
    else
      let esize := 4 + 8 + 4 + pad4 (N.of_nat (length (name_of (fst e)))) + 8 + (if plus then 88 + 16 else 0) in
      if (0 <? sent) && (limit <? len + esize + 8) then ([], true)
      else let '(rest, lim) := page plus limit (i + 1) cookie (sent + 1) (len + esize) r in ((i + 1, e) :: rest, lim)
  end.
Definition dir_header_len : N := 4 + 4 + 84 + 8.

Definition handle_readdir (s : srv) (h cookie count : N) : srv * obs :=
  match lookup_node s h with
  | None => (s, fail_post NFSERR_STALE)
  | Some (d, da) =>
    if negb (kind_eqb (na_kind da) KDir) then (s, fail_post NFSERR_NOTDIR)
    else
      let '(s1, r) := srv_readdir s d in
      match r with
      | Err e => (s1, fail_post (map_error e))
      | Ok ents =>
        let '(s2, ga) := getattr_h s1 h d in
        match ga with
        | Err e => (s2, fail_post (map_error e))
        | Ok a =>
          let '(pg, lim) := page false count 0 cookie 0 dir_header_len ents in
          (s2, {| ob_rpc := 0; ob_status := st_ok; ob_attrs := [sf a]; ob_wcc := []; ob_fh := None; ob_nums := []; ob_bytes := [];
                  ob_entries := map (fun ie => {| de_fileid := na_fileid (snd (snd ie)); de_name := name_of (fst (snd ie));
                                                  de_cookie := fst ie; de_attr := None; de_fh := None |}) pg;
                  ob_eof := negb lim |})
        end
      end
  end.

Fixpoint alloc_all (s : srv) (pg : list (N * (path * nattrs))) : srv * list dentry :=
  match pg with
  | [] => (s, [])
  | (ck, (p, a)) :: r =>
    let '(s1, fh) := alloc s p a in
    let '(s2, rest) := alloc_all s1 r in
    (s2, {| de_fileid := na_fileid a; de_name := name_of p; de_cookie := ck; de_attr := sf a; de_fh := Some fh |} :: rest)
  end.
Definition handle_readdirplus (s : srv) (h cookie maxcount : N) : srv * obs :=
  match lookup_node s h with
  | None => (s, fail_post NFSERR_STALE)
  | Some (d, da) =>
    if negb (kind_eqb (na_kind da) KDir) then (s, fail_post NFSERR_NOTDIR)
    else
      let '(s1, r) := srv_readdir s d in
      match r with
      | Err e => (s1, fail_post (map_error e))
      | Ok ents0 =>
        let '(s1', ents) := refresh_all s1 ents0 in
        let '(s2, ga) := getattr_h s1' h d in
        match ga with
        | Err e => (s2, fail_post (map_error e))
        | Ok a =>
          let '(pg, lim) := page true maxcount 0 cookie 0 dir_header_len ents in
          let '(s3, des) := alloc_all s2 pg in
          (s3, {| ob_rpc := 0; ob_status := st_ok; ob_attrs := [sf a]; ob_wcc := []; ob_fh := None; ob_nums := []; ob_bytes := [];
                  ob_entries := des; ob_eof := negb lim |})
        end
      end
  end.

(* ---------- FSSTAT / FSINFO / PATHCONF (attributes only; the numbers are C23's business) ---------- *)
Definition record_headroom : N := 4096.
Definition fsinfo_max (s : srv) : N :=
  let cap := st c_DefaultMaxRecordSize - record_headroom in
  if (0 <? tsize (conf s)) && (tsize (conf s) <? cap) then tsize (conf s) else cap.
Definition handle_fsx (s : srv) (h : N) (nums : srv -> list N) : srv * obs :=
  match lookup_node s h with
  | None => (s, fail_post NFSERR_STALE)
  | Some (p, _) =>
    let '(s1, ga) := getattr_h s h p in
    match ga with
    | Err e => (s1, fail_post (map_error e))
    | Ok a => (s1, ob_mk st_ok [sf a] [] None (nums s1) [])
    end
  end.
Definition fsinfo_nums (s : srv) : list N :=
  let m := fsinfo_max s in [m; N.min 65536 m; N.min 4096 m; m; N.min 65536 m; N.min 4096 m].

(* ---------- MOUNT MNT ---------- *)
(* path.Clean of an absolute path, lexically: split, drop "." and empty, resolve ".." *)
Fixpoint clean_comps (acc : list name) (l : list name) : list name :=
  match l with
  | [] => rev acc
  | c :: r => if is_dotdot c then clean_comps (tl acc) r else clean_comps (c :: acc) r
  end.
Fixpoint mnt_prefix_check (s : srv) (pre : path) (fuel : nat) : srv * bool :=
  match fuel, pre with
  | O, _ | _, [] => (s, false)
  | S k, _ =>
    let '(s1, r) := do_lstat s pre in
    match r with
    | Ok fi => if kind_eqb (fi_kind fi) KLink then (s1, true) else mnt_prefix_check s1 (removelast pre) k
    | Err _ => mnt_prefix_check s1 (removelast pre) k
    end
  end.
Definition handle_mnt (s : srv) (p : list N) : srv * obs :=
  if negb (is_abs p) then (s, ob_fail 2)
  else
    let cp := clean_comps [] (split_path p) in
    (* every proper non-root prefix, deepest first, is Lstat-ed; a symbolic link among them => MNT3ERR_ACCES *)
    let '(s0, linked) := mnt_prefix_check s (removelast cp) (length cp) in
    if linked then (s0, ob_fail 13)
    else
      let '(s1, r) := srv_lookup s0 cp in
      match r with
      | Err _ => (s1, ob_fail 2)
      | Ok a => let '(s2, fh) := alloc s1 cp a in (s2, ob_mk st_ok [] [] (Some fh) [] [])
      end.

(* ---------- dispatch ---------- *)
(* xdrDecodeString refuses strings longer than MAX_XDR_STRING_LENGTH and strings containing NUL:
   the handler then answers GARBAGE_ARGS in the status word (known finding C14 k=1), after the
   read-only guard of the mutating procedures *)
Definition str_ok (n : list N) : bool :=
  (N.of_nat (length n) <=? st c_MAX_XDR_STRING_LENGTH) && negb (existsb (fun b => b =? 0) n).
Definition ob_rpc_fail (code : N) : obs :=
  {| ob_rpc := code; ob_status := 0; ob_attrs := []; ob_wcc := []; ob_fh := None; ob_nums := []; ob_bytes := []; ob_entries := []; ob_eof := false |}.
Definition garbage_reply (s : srv) (r : req) : option obs :=
  let rofs := ro (conf s) in
  match r with
  | RLookup _ n => if str_ok n then None else Some (fail_post GARBAGE)
  | RCreate _ n _ _ | RMkdir _ n _ | RRemove _ n | RRmdir _ n =>
      if str_ok n then None else Some (fail_wcc (if rofs then NFSERR_ROFS else GARBAGE))
  | RSymlink _ n _ t =>
      if str_ok n && str_ok t then None
      else if rofs then Some (fail_wcc NFSERR_ROFS)
      else if negb (str_ok n) then Some (fail_wcc GARBAGE)
      else if negb (validate_name n =? st_ok) then Some (fail_wcc (validate_name n))
      else Some (fail_wcc GARBAGE)
  | RRename _ n1 _ n2 =>
      if str_ok n1 && str_ok n2 then None
      else if rofs then Some (fail_wcc2 NFSERR_ROFS)
      else if negb (str_ok n1) then Some (fail_wcc2 GARBAGE)
      else if negb (validate_name n1 =? st_ok) then Some (fail_wcc2 (validate_name n1))
      else Some (fail_wcc2 GARBAGE)
  | RMnt p => if str_ok p then None else Some (ob_rpc_fail (1000 + GARBAGE))
  | _ => None
  end.

Definition step (s0 : srv) (c : cred) (r : req) : srv * obs :=
  let s := clear_log s0 in
  match garbage_reply s r with Some o => (s, o) | None =>
  match r with
  | RNull => (s, ob_fail st_ok)
  | RGetattr h => handle_getattr s h
  | RSetattr h sa g => handle_setattr s c h sa g
  | RLookup h n => handle_lookup s h n
  | RAccess h m => handle_access s c h m
  | RReadlink h => handle_readlink s h
  | RRead h off cnt => handle_read s h off cnt
  | RWrite h off cnt stable data => handle_write s h off cnt stable data
  | RCreate h n how sa => handle_create s c h n how sa
  | RMkdir h n sa => handle_mkdir s c h n sa
  | RSymlink h n sa t => handle_symlink s c h n sa t
  | RMknod _ _ => (s, fail_wcc NFSERR_NOTSUPP)
  | RRemove h n => handle_remove s h n
  | RRmdir h n => handle_rmdir s h n
  | RRename h1 n1 h2 n2 => handle_rename s h1 n1 h2 n2
  | RLink _ _ _ => (s, ob_mk NFSERR_NOTSUPP [None; None] [None] None [] [])
  | RReaddir h ck cnt => handle_readdir s h ck cnt
  | RReaddirplus h ck _ mc => handle_readdirplus s h ck mc
  | RFsstat h => handle_fsx s h (fun _ => [])
  | RFsinfo h => handle_fsx s h fsinfo_nums
  | RPathconf h => handle_fsx s h (fun _ => [])
  | RCommit h _ _ => handle_commit s h
  | RMnt p => handle_mnt s p
  | RSetRO b => (with_conf s (set_ro (conf s) b), ob_fail st_ok)
  | RSetMaxFile m => (with_conf s (set_maxfile (conf s) m), ob_fail st_ok)
  | RSetTsize t => (with_conf s (set_tsize (conf s) t), ob_fail st_ok)
  end end.

(* a history step: advance the clock, then serve the request *)
Record hstep := { hs_adv : N; hs_cred : cred; hs_req : req }.
Definition hrun1 (s : srv) (x : hstep) : srv * obs := step (with_now s (now s + hs_adv x)) (hs_cred x) (hs_req x).
Fixpoint hrun (s : srv) (l : list hstep) : list (srv * obs) :=
  match l with [] => [] | x :: r => let so := hrun1 s x in so :: hrun (fst so) r end.
