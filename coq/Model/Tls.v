(* Model/Tls.v — executable model of tls_config.go and of the TLS part of Server.Listen (C30).  No proofs here.

   Part 1  TLSConfig.Validate as a function of what it looks at (the order of its checks, the version floor and the
           ClientAuth threshold of the CA check are read from /repo: cfg_tls_validate_steps, cfg_tls_floor,
           cfg_tls_ca_auth_threshold), BuildConfig (validates first, passes Min/Max/ClientAuth through), and the
           resulting acceptance rule for a client hello.  Handshakes themselves are crypto/tls: what the library does
           with a (MinVersion, MaxVersion, ClientAuth, ClientCAs) quadruple is MODELLED here (negotiate, auth_ok), with
           Go's default minimum version as the explicit parameter [go_min_default], and checked against real
           handshakes by the correspondence.
   Part 2  settings objects as heap cells: every *TLSConfig has a currentCert pointer to a shared certificate cell;
           Clone / BuildConfig / ReloadCertificates / GetExportOptions / UpdateExportOptions as operations on a world of
           objects and cells, so that "the object GetExportOptions returns shares the cell the listener reads" is a
           statement about the model (cfg_tls_clone_shares_cell, cfg_tls_listener_reads_cell, cfg_tls_reload_stores_cell). *)
From Coq Require Import List ZArith NArith Bool String.
From Verif Require Import Gen.Facts.
Import ListNotations.
Open Scope Z_scope.

(* ================= Part 1: Validate, BuildConfig, acceptance ================= *)
Definition TLS10 : Z := 769.   (* 0x0301 *)
Definition TLS11 : Z := 770.
Definition TLS12 : Z := 771.
Definition TLS13 : Z := 772.
Definition go_versions : list Z := [TLS13; TLS12; TLS11; TLS10].   (* crypto/tls supportedVersions *)

Record tls_settings := mkTls {
  t_enabled : bool;
  t_cert_given : bool; t_key_given : bool;        (* CertFile / KeyFile non-empty *)
  t_cert_exists : bool; t_key_exists : bool;      (* os.Stat succeeds *)
  t_pair_loads : bool;                            (* tls.LoadX509KeyPair succeeds *)
  t_ca_given : bool; t_ca_exists : bool; t_ca_parses : bool;
  t_client_auth : Z;                              (* tls.ClientAuthType 0..4 *)
  t_min : Z; t_max : Z;                           (* uint16 version numbers, 0 = unset *)
  t_suites12 : bool }.                            (* CipherSuites empty, or containing a TLS 1.2 suite usable with the
                                                     server's ECDSA certificate *)

Inductive verr := ECertMissing | EKeyMissing | ECertNotFound | EKeyNotFound | ECANotFound | EMinGtMax | EBelowFloor.

(* one check of Validate: None = falls through, Some r = returns r (None inside = nil error) *)
Definition validate_step (t : tls_settings) (step : string) : option (option verr) :=
  if String.eqb step "disabled_ok" then (if t_enabled t then None else Some None)
  else if String.eqb step "cert_given" then (if t_cert_given t then None else Some (Some ECertMissing))
  else if String.eqb step "key_given" then (if t_key_given t then None else Some (Some EKeyMissing))
  else if String.eqb step "cert_exists" then (if t_cert_exists t then None else Some (Some ECertNotFound))
  else if String.eqb step "key_exists" then (if t_key_exists t then None else Some (Some EKeyNotFound))
  else if String.eqb step "ca_exists" then
    (if ((cfg_tls_ca_auth_threshold <=? t_client_auth t) && t_ca_given t && negb (t_ca_exists t))%bool
     then Some (Some ECANotFound) else None)
  else if String.eqb step "min_le_max" then (if t_max t <? t_min t then Some (Some EMinGtMax) else None)
  else if String.eqb step "floor" then
    (if (negb (t_min t =? 0) && (t_min t <? cfg_tls_floor))%bool then Some (Some EBelowFloor) else None)
  else None.
Fixpoint validate_steps (t : tls_settings) (steps : list string) : option verr :=
  match steps with
  | [] => None
  | s :: r => match validate_step t s with Some res => res | None => validate_steps t r end
  end.
(* TLSConfig.Validate: None = nil *)
Definition validate (t : tls_settings) : option verr := validate_steps t cfg_tls_validate_steps.

(* what BuildConfig hands to crypto/tls; None = BuildConfig (hence Listen) fails *)
Record tls_runtime := mkRt { r_min : Z; r_max : Z; r_auth : Z; r_ca_loaded : bool; r_suites12 : bool }.
Definition passes (f : string) : bool := existsb (String.eqb f) cfg_tls_build_passes.
Definition build_config (t : tls_settings) : option tls_runtime :=
  if (cfg_tls_build_validates_first && match validate t with Some _ => true | None => false end)%bool then None
  else if negb (t_pair_loads t) then None
  else
    let want_ca := ((cfg_tls_ca_auth_threshold <=? t_client_auth t) && t_ca_given t)%bool in
    if (want_ca && negb (t_ca_exists t && t_ca_parses t))%bool then None
    else Some (mkRt (if passes "MinVersion" then t_min t else 0) (if passes "MaxVersion" then t_max t else 0)
                    (if passes "ClientAuth" then t_client_auth t else 0) want_ca (t_suites12 t)).

(* ---- crypto/tls, modelled ---- *)
(* Config.supportedVersions: a version the library implements, at least MinVersion (Go's default when unset), at most
   MaxVersion when set *)
Definition server_version_ok (go_min_default : Z) (r : tls_runtime) (v : Z) : bool :=
  (existsb (Z.eqb v) go_versions &&
   ((if r_min r =? 0 then go_min_default else r_min r) <=? v) &&
   ((r_max r =? 0) || (v <=? r_max r)))%bool.
Inductive client_cert := NoCert | SelfSigned | OtherCASigned | CASigned.
Record client := mkClient { cl_min : Z; cl_max : Z; cl_cert : client_cert }.
(* highest mutually supported version *)
Definition negotiate (go_min_default : Z) (r : tls_runtime) (c : client) : option Z :=
  find (fun v => (server_version_ok go_min_default r v && (cl_min c <=? v) && (v <=? cl_max c))%bool) go_versions.
Definition is_ca_signed (c : client_cert) : bool := match c with CASigned => true | _ => false end.
Definition has_cert (c : client_cert) : bool := match c with NoCert => false | _ => true end.
(* tls.ClientAuthType: 0 NoClientCert, 1 RequestClientCert, 2 RequireAnyClientCert, 3 VerifyClientCertIfGiven,
   4 RequireAndVerifyClientCert; verification is against ClientCAs (system roots when nil: none of the test
   certificates chains to those) *)
Definition auth_ok (r : tls_runtime) (c : client_cert) : bool :=
  if r_auth r <=? 1 then true
  else if r_auth r =? 2 then has_cert c
  else if r_auth r =? 3 then (negb (has_cert c) || (is_ca_signed c && r_ca_loaded r))%bool
  else (is_ca_signed c && r_ca_loaded r)%bool.
(* outcome of a handshake against a listener built from [t]: the negotiated version, or None *)
Definition handshake (go_min_default : Z) (t : tls_settings) (c : client) : option Z :=
  if negb (t_enabled t) then None else
  match build_config t with
  | None => None
  | Some r =>
      match negotiate go_min_default r c with
      | Some v => if (auth_ok r (cl_cert c) && ((TLS13 <=? v) || r_suites12 r))%bool then Some v else None
      | None => None
      end
  end.

(* ================= Part 2: settings objects, certificate cells, rotation ================= *)
Definition cert := N.
Record obj := mkObj { o_enabled : bool; o_path : N; o_cell : option nat }.   (* currentCert: nil or a cell *)
Record world := mkWorld {
  objs : list obj;                  (* every *TLSConfig created so far, by index *)
  cells : list (option cert);       (* every atomic.Pointer[tls.Certificate] created so far *)
  files : list (N * cert);          (* certificate/key files: path -> content *)
  policy : option nat;              (* n.policy.Load().TLS *)
  listener : option nat }.          (* the cell the listener's GetCertificate callback reads *)

Fixpoint set_nth {A} (n : nat) (x : A) (l : list A) : list A :=
  match l, n with
  | [], _ => []
  | _ :: r, O => x :: r
  | y :: r, S k => y :: set_nth k x r
  end.
Fixpoint lookup_file (fs : list (N * cert)) (p : N) : option cert :=
  match fs with [] => None | (q, c) :: r => if N.eqb p q then Some c else lookup_file r p end.

(* tc.certCell(): the object's cell, created on first use *)
Definition cert_cell (w : world) (i : nat) : world * option nat :=
  match nth_error (objs w) i with
  | None => (w, None)
  | Some o =>
      match o_cell o with
      | Some c => (w, Some c)
      | None =>
          let c := List.length (cells w) in
          (mkWorld (set_nth i (mkObj (o_enabled o) (o_path o) (Some c)) (objs w)) (cells w ++ [None]) (files w)
                   (policy w) (listener w), Some c)
      end
  end.
(* tc.Clone(): a new object; index of the clone *)
Definition clone (w : world) (i : nat) : world * option nat :=
  match nth_error (objs w) i with
  | None => (w, None)
  | Some o =>
      let (w1, c) := if cfg_tls_clone_shares_cell then cert_cell w i else (w, None) in
      (mkWorld (objs w1 ++ [mkObj (o_enabled o) (o_path o) c]) (cells w1) (files w1) (policy w1) (listener w1),
       Some (List.length (objs w1)))
  end.
Definition clone_opt (w : world) (i : option nat) : world * option nat :=
  match i with Some k => clone w k | None => (w, None) end.
(* tc.ReloadCertificates(): (world, succeeded) *)
Definition reload (w : world) (i : nat) : world * bool :=
  match nth_error (objs w) i with
  | None => (w, false)
  | Some o =>
      if negb (o_enabled o) then (w, false) else
      match lookup_file (files w) (o_path o) with
      | None => (w, false)
      | Some crt =>
          if cfg_tls_reload_stores_cell then
            match cert_cell w i with
            | (w1, Some c) => (mkWorld (objs w1) (set_nth c (Some crt) (cells w1)) (files w1) (policy w1) (listener w1), true)
            | (w1, None) => (w1, false)
            end
          else (w, true)
      end
  end.
(* New: policyFromExportOptions clones the caller's settings *)
Definition new_server (w : world) (user : nat) : world :=
  let (w1, k) := clone w user in mkWorld (objs w1) (cells w1) (files w1) k (listener w1).
(* Listen: policy.TLS.BuildConfig() loads the files into the object's cell; the callback reads that cell *)
Definition listen (w : world) : world * bool :=
  match policy w with
  | None => (w, true)                     (* plain TCP *)
  | Some i =>
      match nth_error (objs w) i with
      | None => (w, false)
      | Some o =>
          if negb (o_enabled o) then (w, true) else
          match lookup_file (files w) (o_path o) with
          | None => (w, false)
          | Some crt =>
              match cert_cell w i with
              | (w1, Some c) =>
                  if cfg_tls_listener_reads_cell
                  then (mkWorld (objs w1) (set_nth c (Some crt) (cells w1)) (files w1) (policy w1) (Some c), true)
                  else (mkWorld (objs w1) (set_nth c (Some crt) (cells w1) ++ [Some crt]) (files w1) (policy w1)
                                (Some (List.length (cells w1))), true)
              | (w1, None) => (w1, false)
              end
          end
      end
  end.
(* GetExportOptions().TLS: a clone of the policy's settings *)
Definition get_tls (w : world) : world * option nat := clone_opt w (policy w).
(* UpdateExportOptions(opts) with opts.TLS = object i (or nil): the policy receives a clone of a clone; the running
   listener is not rebuilt *)
Definition update_tls (w : world) (i : option nat) : world :=
  let (w1, a) := clone_opt w i in
  let (w2, b) := clone_opt w1 a in
  mkWorld (objs w2) (cells w2) (files w2) b (listener w2).
Definition write_file (w : world) (p : N) (c : cert) : world :=
  mkWorld (objs w) (cells w) ((p, c) :: files w) (policy w) (listener w).
(* a settings object built by the caller from scratch *)
Definition fresh (w : world) (enabled : bool) (p : N) : world :=
  mkWorld (objs w ++ [mkObj enabled p None]) (cells w) (files w) (policy w) (listener w).
(* the leaf a new handshake is presented with *)
Definition presented (w : world) : option cert :=
  match listener w with Some c => nth c (cells w) None | None => None end.

Inductive hop :=
| HGet                              (* o := GetExportOptions().TLS *)
| HClone (i : nat)
| HReload (i : nat)
| HWrite (p : N) (c : cert)
| HUpdate (i : nat)                 (* UpdateExportOptions with TLS = object i *)
| HUpdateNil                        (* UpdateExportOptions with TLS = nil *)
| HFresh (enabled : bool) (p : N).
Definition hstep (w : world) (h : hop) : world :=
  match h with
  | HGet => fst (get_tls w)
  | HClone i => fst (clone w i)
  | HReload i => fst (reload w i)
  | HWrite p c => write_file w p c
  | HUpdate i => match nth_error (objs w) i with Some _ => update_tls w (Some i) | None => w end
  | HUpdateNil => update_tls w None
  | HFresh e p => fresh w e p
  end.
Definition hrun (w : world) (hs : list hop) : world := fold_left hstep hs w.
(* histories that only pass around settings obtained from the server (or the caller's original object) *)
Definition derived_only (hs : list hop) : bool :=
  forallb (fun h => match h with HUpdateNil | HFresh _ _ => false | _ => true end) hs.

(* the caller builds one enabled TLSConfig for files at [p] holding [c0], calls New, then Listen (through Export) *)
Definition boot (p : N) (c0 : cert) : world :=
  fst (listen (new_server (mkWorld [mkObj true p None] [] [(p, c0)] None None) 0)).
(* the documented rotation step: new files, then ReloadCertificates on GetExportOptions().TLS *)
Definition rotate (w : world) (p : N) (c' : cert) : world * bool :=
  let w1 := write_file w p c' in
  match get_tls w1 with
  | (w2, Some o) => reload w2 o
  | (w2, None) => (w2, false)
  end.
