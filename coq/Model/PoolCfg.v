(* Model/PoolCfg.v — the configuration of the worker-pool model that corresponds to the CURRENT source of
   /repo/worker_pool.go: the three structural facts are read off the Go AST by harness/tools/astfacts
   (x_pool.go) into Gen/Facts.v on every run.  Kept apart from Model/PoolLTS.v so that the model and its
   proofs do not depend on the regenerated file. *)
From Coq Require Import Bool.
From Verif Require Import Gen.Facts Model.PoolLTS.

Definition current_cfg : cfg :=
  {| stop_drains := f_pool_stop_drains; overflow_closes := f_pool_overflow_closes; stop_locks := f_pool_stop_locks |}.
