(* Model/Auth.v — credentials and identity squashing (auth.go, rpc_types.go), for C10 and C09.
   No proofs in this file.

   Bytes are N (a Go []byte / string is a list N of values below 256; the model is total on any
   list N).  Ids are unbounded N; nothing here depends on the uint32 width except the big-endian
   decoding of four bytes.

   Modelled Go (current /repo):
     byteReader.readUint32 / readString, ParseAuthSysCredential        (rpc_types.go)
     applySquashing, ValidateAuthentication                            (auth.go)
   The numbers 65534, 16, 8192, 1024 and the flavour labels are read off the source by
   tools/astfacts (Gen/Facts.v, the f_auth_ definitions). *)
From Coq Require Import String Ascii List NArith ZArith Bool.
From Verif Require Import Gen.Facts.
Import ListNotations.
Open Scope N_scope.

Definition nobody : N := Z.to_N f_auth_nobody.            (* 65534 *)
Definition max_aux : N := Z.to_N f_auth_max_aux_gids.     (* 16 *)
Definition max_str : N := Z.to_N f_auth_string_limit.     (* MAX_XDR_STRING_LENGTH *)
Definition AUTH_NONE : N := Z.to_N c_AUTH_NONE.
Definition AUTH_SYS : N := Z.to_N c_AUTH_SYS.

(* ---------- byteReader ---------- *)

Definition be32 (a b c d : N) : N := ((a * 256 + b) * 256 + c) * 256 + d.

(* readUint32: `if r.pos+4 > len(r.data) { error }`; the reader state is the unread suffix *)
Definition read_u32 (bs : list N) : option (N * list N) :=
  match bs with
  | a :: b :: c :: d :: r => Some (be32 a b c d, r)
  | _ => None
  end.

(* data[pos:pos+n] and the rest, when n bytes are available *)
Definition take (n : nat) (bs : list N) : option (list N * list N) :=
  if Nat.leb n (length bs) then Some (firstn n bs, skipn n bs) else None.

(* readString: length; `length > MAX_XDR_STRING_LENGTH` -> error; paddedLength := (length+3) &^ 3;
   `pos+padded > len(data)` -> error; str := data[pos:pos+length]; pos += padded *)
Definition padded_len (len : N) : N := N.ldiff (len + 3) 3.
Definition read_string (bs : list N) : option (list N * list N) :=
  match read_u32 bs with
  | None => None
  | Some (len, r) =>
      if max_str <? len then None
      else match take (N.to_nat (padded_len len)) r with
           | None => None
           | Some (p, r') => Some (firstn (N.to_nat len) p, r')
           end
  end.

(* the loop `for i := 0; i < gidCount; i++ { AuxGIDs[i], err = r.readUint32() }` *)
Fixpoint read_u32s (n : nat) (bs : list N) : option (list N * list N) :=
  match n with
  | O => Some ([], bs)
  | S k => match read_u32 bs with
           | None => None
           | Some (v, r) => match read_u32s k r with
                            | None => None
                            | Some (vs, r') => Some (v :: vs, r')
                            end
           end
  end.

Record cred := { c_stamp : N; c_machine : list N; c_uid : N; c_gid : N; c_aux : list N }.

(* ParseAuthSysCredential: None = error.  Bytes after the last gid are not looked at. *)
Definition parse_authsys (body : list N) : option cred :=
  match body with
  | [] => None
  | _ =>
    match read_u32 body with None => None | Some (stamp, r1) =>
    match read_string r1 with None => None | Some (name, r2) =>
    match read_u32 r2 with None => None | Some (uid, r3) =>
    match read_u32 r3 with None => None | Some (gid, r4) =>
    match read_u32 r4 with None => None | Some (cnt, r5) =>
    if max_aux <? cnt then None else
    match read_u32s (N.to_nat cnt) r5 with None => None | Some (aux, _) =>
      Some {| c_stamp := stamp; c_machine := name; c_uid := uid; c_gid := gid; c_aux := aux |}
    end end end end end end
  end.

(* ---------- squash mode strings ---------- *)

Definition bytes_of_string (s : string) : list N := map N_of_ascii (list_ascii_of_string s).
Definition bytes_eqb (a b : list N) : bool :=
  (length a =? length b)%nat && forallb (fun p => fst p =? snd p) (combine a b).

(* strings.ToLower on an all-ASCII string: 'A'..'Z' -> +32, everything else unchanged *)
Definition ascii_lower (b : N) : N := if (65 <=? b) && (b <=? 90) then b + 32 else b.
Definition is_ascii (s : list N) : bool := forallb (fun b => b <? 128) s.

Inductive skind := SRoot | SAll | SNone | SUnknown.

(* which clause of `switch strings.ToLower(squash)` is taken.
   ASSUMPTION (Go standard library, not modelled): if squash contains a byte >= 128, then
   strings.ToLower(squash) is none of "root", "all", "none", "": a non-ASCII rune lower-cases to
   a non-ASCII rune or to 'k' (U+212A) or 'i' (U+0130), invalid UTF-8 becomes U+FFFD, and none
   of these is a letter of the three words.  The driver checks this for every rune on every run. *)
Definition squash_kind (squash : list N) : skind :=
  if is_ascii squash then
    let l := map ascii_lower squash in
    if bytes_eqb l (bytes_of_string "root") then SRoot
    else if bytes_eqb l (bytes_of_string "all") then SAll
    else if bytes_eqb l (bytes_of_string "none") || bytes_eqb l (bytes_of_string "") then SNone
    else SUnknown
  else SUnknown.

(* ---------- applySquashing ---------- *)

(* (result.UID, result.GID, authSys.AuxGIDs) after applySquashing, where result was preset to
   (ruid, rgid) and authSys is c *)
Definition apply_squashing (ruid rgid : N) (c : cred) (squash : list N) : N * N * list N :=
  match squash_kind squash with
  | SRoot =>
      let ug := if c_uid c =? 0 then (nobody, nobody)
                else if rgid =? 0 then (ruid, nobody)
                else (ruid, rgid) in
      (fst ug, snd ug, map (fun g => if g =? 0 then nobody else g) (c_aux c))
  | SAll => (nobody, nobody, map (fun _ => nobody) (c_aux c))
  | SNone => (ruid, rgid, c_aux c)
  | SUnknown => (nobody, nobody, c_aux c)
  end.

(* ---------- ValidateAuthentication ---------- *)

Inductive deny_reason := DenyIP | DenyPort | DenyBadCred | DenyFlavor.

Record vresult := {
  v_allowed : bool;
  v_uid : N; v_gid : N;            (* AuthResult.UID / GID *)
  v_authsys : option cred;         (* ctx.AuthSys afterwards *)
  v_reason : option deny_reason
}.

Definition deny (why : deny_reason) (a : option cred) : vresult :=
  {| v_allowed := false; v_uid := nobody; v_gid := nobody; v_authsys := a; v_reason := Some why |}.

Definition privileged_port_limit : Z := f_auth_privileged_port_limit.   (* 1024 *)

(* [filter_on] = len(policy.AllowedIPs) > 0, [ip_ok] = isIPAllowed(ctx.ClientIP, policy.AllowedIPs)
   (modelled in Model/IpFilter.v); [port] is ctx.ClientPort (a Go int);
   [pre] is ctx.AuthSys on entry (nil on the server path). *)
Definition validate (filter_on ip_ok secure : bool) (port : Z)
                    (flavor : N) (body : list N) (pre : option cred) (squash : list N) : vresult :=
  if filter_on && negb ip_ok then deny DenyIP pre
  else if secure && (privileged_port_limit <=? port)%Z then deny DenyPort pre
  else if flavor =? AUTH_NONE then
    {| v_allowed := true; v_uid := nobody; v_gid := nobody; v_authsys := pre; v_reason := None |}
  else if flavor =? AUTH_SYS then
    match (match pre with Some c => Some c | None => parse_authsys body end) with
    | None => deny DenyBadCred pre
    | Some c =>
        let '(u, g, aux) := apply_squashing (c_uid c) (c_gid c) c squash in
        {| v_allowed := true; v_uid := u; v_gid := g;
           v_authsys := Some {| c_stamp := c_stamp c; c_machine := c_machine c; c_uid := c_uid c; c_gid := c_gid c; c_aux := aux |};
           v_reason := None |}
    end
  else deny DenyFlavor pre.

(* ---------- specification: the squash table of the property, stated independently ---------- *)

Definition squash_id (x : N) : N := if x =? 0 then nobody else x.

(* (effective uid, effective gid, auxiliary gids) for a credential (uid, gid, aux) *)
Definition squash_table (k : skind) (uid gid : N) (aux : list N) : N * N * list N :=
  match k with
  | SAll => (nobody, nobody, repeat nobody (length aux))
  | SRoot => (if uid =? 0 then nobody else uid,
              if uid =? 0 then nobody else squash_id gid,
              map squash_id aux)
  | SNone => (uid, gid, aux)
  | SUnknown => (nobody, nobody, aux)
  end.

(* the layout of an AUTH_SYS body (RFC 5531 authsys_parms), as a grammar over the byte string *)
Definition word (w : list N) (v : N) : Prop := exists a b c d, w = [a; b; c; d] /\ v = be32 a b c d.
Definition wf_authsys (bs : list N) (c : cred) : Prop :=
  exists w_stamp w_len padding w_uid w_gid w_cnt w_aux rest,
    bs = w_stamp ++ w_len ++ c_machine c ++ padding ++ w_uid ++ w_gid ++ w_cnt ++ concat w_aux ++ rest /\
    word w_stamp (c_stamp c) /\
    word w_len (N.of_nat (length (c_machine c))) /\ N.of_nat (length (c_machine c)) <= max_str /\
    (length padding < 4)%nat /\ ((length (c_machine c) + length padding) mod 4 = 0)%nat /\
    word w_uid (c_uid c) /\ word w_gid (c_gid c) /\
    word w_cnt (N.of_nat (length w_aux)) /\ N.of_nat (length w_aux) <= max_aux /\
    Forall2 word w_aux (c_aux c).

(* ---------- the aliasing side of applySquashing (a two-line heap) ----------
   authSys.AuxGIDs is a slice: a pointer into a backing array that the caller may share.
   [cells] are backing arrays, [aux_ptr] is the array authSys.AuxGIDs points at.  The code
   "copies first": `auxCopy := make(...); copy(...); authSys.AuxGIDs = auxCopy; auxCopy[i] = 65534`
   (root, all; only when the slice is non-empty); none/unknown do not touch the slice. *)
Record hstate := { cells : list (list N); aux_ptr : nat }.
Definition aux_of (st : hstate) : list N := nth (aux_ptr st) (cells st) [].
Definition squash_heap (k : skind) (st : hstate) : hstate :=
  let aux := aux_of st in
  match k with
  | SRoot => if (0 <? length aux)%nat
             then {| cells := cells st ++ [map squash_id aux]; aux_ptr := length (cells st) |} else st
  | SAll => if (0 <? length aux)%nat
            then {| cells := cells st ++ [map (fun _ => nobody) aux]; aux_ptr := length (cells st) |} else st
  | SNone | SUnknown => st
  end.
