(* Model/Rpc.v — executable model of the ONC RPC message codecs of rpc_types.go.  No proofs here
   (Proofs/RpcProofs.v).

   INTERFACE
     call                      RPCCall: header words, credential and verifier (flavor, body)
     enc_call / dec_call       RFC 1831 call header as DecodeRPCCall reads it (xid, msg_type = CALL, rpcvers, prog,
                               vers, proc, cred opaque_auth, verf opaque_auth).  DecodeRPCCall has no Go encoder
                               (only clients encode calls); [enc_call] is the RFC encoding.  [dec_call] does NOT
                               check rpcvers = 2 (neither does the Go code; the dispatcher does).  The procedure
                               arguments are whatever is left in the stream ([o_rest]).
     cred_limit / verf_limit   MAX_RPC_AUTH_LENGTH as used by the two guards of DecodeRPCCall
     authsys                   AuthSysCredential
     enc_authsys / parse_authsys   AUTH_SYS body (RFC 1831 app. A) as ParseAuthSysCredential reads it from a byte slice
                               (byteReader: no io.Reader, a failed read leaves the position unchanged; bytes after the
                               last gid are ignored and reported as the rest; the machine name is not checked for NUL)
     reply, rdata              RPCReply (Data restricted to nil / []byte / string / uint32; *NFSAttrs is C04/C14's)
     enc_reply                 EncodeRPCReply, byte for byte
     rhead / dec_reply         the RFC 1831 reply header read back (client view); what follows (the results) is the rest.
                               For other groups: reply grammars start after [dec_reply].                            *)
From Coq Require Import List NArith ZArith Bool.
From Verif Require Import Gen.Facts Model.Bytes Model.Xdr.
Import ListNotations.
Open Scope N_scope.

Definition cred_limit : N := Z.to_N f_cred_limit.
Definition verf_limit : N := Z.to_N f_verf_limit.
Definition authsys_name_limit : N := Z.to_N f_authsys_name_limit.
Definition authsys_max_gids : N := Z.to_N f_authsys_max_gids.

Definition rpc_call : N := Z.to_N c_RPC_CALL.
Definition rpc_reply : N := Z.to_N c_RPC_REPLY.
Definition msg_accepted : N := Z.to_N c_MSG_ACCEPTED.
Definition accept_success : N := Z.to_N c_SUCCESS.
Definition accept_prog_mismatch : N := Z.to_N c_PROG_MISMATCH.
Definition reject_auth_error : N := Z.to_N c_AUTH_ERROR.
Definition reject_rpc_mismatch : N := Z.to_N c_RPC_MISMATCH.

(* ---- call header ---- *)
Record call := mkCall {
  c_xid : N; c_rpcvers : N; c_prog : N; c_vers : N; c_proc : N;
  c_cred_flavor : N; c_cred_body : bytes; c_verf_flavor : N; c_verf_body : bytes }.

Definition call_eqb (a b : call) : bool :=
  (c_xid a =? c_xid b) && (c_rpcvers a =? c_rpcvers b) && (c_prog a =? c_prog b) && (c_vers a =? c_vers b) &&
  (c_proc a =? c_proc b) && (c_cred_flavor a =? c_cred_flavor b) && bytes_eqb (c_cred_body a) (c_cred_body b) &&
  (c_verf_flavor a =? c_verf_flavor b) && bytes_eqb (c_verf_body a) (c_verf_body b).

Definition enc_call (c : call) : bytes :=
  enc_u32 (c_xid c) ++ enc_u32 rpc_call ++ enc_u32 (c_rpcvers c) ++ enc_u32 (c_prog c) ++
  enc_u32 (c_vers c) ++ enc_u32 (c_proc c) ++
  enc_u32 (c_cred_flavor c) ++ enc_opaque (c_cred_body c) ++
  enc_u32 (c_verf_flavor c) ++ enc_opaque (c_verf_body c).

Definition dec_call : dec call :=
  bind dec_u32 (fun xid =>
  bind dec_u32 (fun mt =>
  if negb (mt =? rpc_call) then fail EMsgType else
  bind dec_u32 (fun rv =>
  bind dec_u32 (fun prog =>
  bind dec_u32 (fun vers =>
  bind dec_u32 (fun proc =>
  bind dec_u32 (fun cf =>
  bind (dec_opaque cred_limit) (fun cb =>
  bind dec_u32 (fun vf =>
  bind (dec_opaque verf_limit) (fun vb =>
  ret (mkCall xid rv prog vers proc cf cb vf vb))))))))))).

(* ---- AUTH_SYS body (byteReader over a slice) ---- *)
Record authsys := mkAuthSys { a_stamp : N; a_machine : bytes; a_uid : N; a_gid : N; a_gids : list N }.

Definition authsys_eqb (a b : authsys) : bool :=
  (a_stamp a =? a_stamp b) && bytes_eqb (a_machine a) (a_machine b) && (a_uid a =? a_uid b) &&
  (a_gid a =? a_gid b) && bytes_eqb (a_gids a) (a_gids b).

Definition enc_authsys (a : authsys) : bytes :=
  enc_u32 (a_stamp a) ++ enc_opaque (a_machine a) ++ enc_u32 (a_uid a) ++ enc_u32 (a_gid a) ++
  enc_u32 (len (a_gids a)) ++ concat (map enc_u32 (a_gids a)).

(* byteReader.readUint32: if r.pos+4 > len(r.data) error (position unchanged) *)
Definition sl_u32 : dec N := fun s =>
  if 4 <=? len s then (Ok (be_dec (take 4 s)), drop 4 s, []) else (Err EShort, s, []).
(* byteReader.readString *)
Definition sl_string : dec bytes :=
  bind sl_u32 (fun n =>
    if authsys_name_limit <? n then fail ELimit
    else fun s =>
      let p := (n + 3) / 4 * 4 in
      if p <=? len s then (Ok (take n s), drop p s, al n)   (* string(data[pos:pos+n]) *)
      else (Err EShort, s, [])).
Fixpoint sl_u32s (k : nat) : dec (list N) :=
  match k with
  | O => ret []
  | S k' => bind sl_u32 (fun g => bind (sl_u32s k') (fun r => ret (g :: r)))
  end.

(* everything after the `len(body) == 0` check *)
Definition parse_authsys_body : dec authsys :=
  bind sl_u32 (fun stamp =>
  bind sl_string (fun name =>
  bind sl_u32 (fun uid =>
  bind sl_u32 (fun gid =>
  bind sl_u32 (fun cnt =>
  if authsys_max_gids <? cnt then fail ELimit else
  bind (alloc (4 * cnt)) (fun _ =>                       (* make([]uint32, gidCount) *)
  bind (sl_u32s (N.to_nat cnt)) (fun gids =>
  ret (mkAuthSys stamp name uid gid gids)))))))).
Definition parse_authsys : dec authsys := fun body =>
  if len body =? 0 then (Err EEmpty, body, []) else parse_authsys_body body.

(* ---- reply ---- *)
Inductive rdata := DNone | DBytes (b : bytes) | DString (s : bytes) | DU32 (v : N).
Record reply := mkReply {
  r_xid : N; r_status : N; r_accept : N; r_verf_flavor : N; r_verf_body : bytes; r_data : rdata }.

Definition enc_rdata (d : rdata) : bytes :=
  match d with DNone => [] | DBytes b => b | DString s => enc_string s | DU32 v => enc_u32 v end.

Definition enc_reply (r : reply) : bytes :=
  enc_u32 (r_xid r) ++ enc_u32 rpc_reply ++ enc_u32 (r_status r) ++
  if r_status r =? msg_accepted then
    enc_u32 (r_verf_flavor r) ++ enc_u32 (len (r_verf_body r)) ++
    (if 0 <? len (r_verf_body r) then r_verf_body r ++ zeros (pad_len (len (r_verf_body r))) else []) ++
    enc_u32 (r_accept r) ++
    (if r_accept r =? accept_prog_mismatch then enc_u32 3 ++ enc_u32 3          (* mismatch_info low, high *)
     else if r_accept r =? accept_success then enc_rdata (r_data r) else [])
  else enc_u32 reject_auth_error ++ enc_u32 1.                                    (* AUTH_ERROR, AUTH_BADCRED *)

(* RFC 1831 reply header as a client reads it *)
Inductive rhead :=
| RAccepted (verf_flavor : N) (verf_body : bytes) (accept : N) (mismatch : option (N * N))
| RDenied (reject_stat : N) (info : list N).   (* AUTH_ERROR: [auth_stat]; RPC_MISMATCH: [low; high] *)
Definition dec_reply : dec (N * rhead) :=
  bind dec_u32 (fun xid =>
  bind dec_u32 (fun mt =>
  if negb (mt =? rpc_reply) then fail EMsgType else
  bind dec_u32 (fun st =>
  if st =? msg_accepted then
    bind dec_u32 (fun vf =>
    bind (dec_opaque verf_limit) (fun vb =>
    bind dec_u32 (fun acc =>
    if acc =? accept_prog_mismatch then
      bind dec_u32 (fun lo => bind dec_u32 (fun hi => ret (xid, RAccepted vf vb acc (Some (lo, hi)))))
    else ret (xid, RAccepted vf vb acc None))))
  else
    bind dec_u32 (fun rs =>
    if rs =? reject_rpc_mismatch then
      bind dec_u32 (fun lo => bind dec_u32 (fun hi => ret (xid, RDenied rs [lo; hi])))
    else bind dec_u32 (fun why => ret (xid, RDenied rs [why])))))).
